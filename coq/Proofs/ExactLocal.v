(* C09 exactness — target of the contracts (IL) / (IR): the model's own local operators intertwine (over any cring):
     apply_local_hamiltonian BL BR W (Q . C) = Q . apply_local_bond_contraction (contraction_operator_step_left Q Q W BL) BR C
   whenever the rows of the matricisation of Q are orthonormal (Q Q^H = 1), and
     apply_local_hamiltonian BL BR W (C . B) = (apply_local_bond_contraction BL (contraction_operator_step_right B B W BR) C) . B
   whenever the columns of the matricisation of B are orthonormal (B^H B = 1).
   These are the statements  H_site (Q (x) 1) = (Q (x) 1) H_bond;  hence exp(t H_site) (Q C) = Q exp(t H_bond) C, and every
   solver that is a power series in the local operator meets (IL) / (IR). *)
From Coq Require Import ZArith Arith List Lia Ring Setoid Bool.
From PT Require Import Base.Scalar Base.BigSum Base.Mx Model.Tensor Model.Operation Model.Sweeps
  Proofs.OperationEntries Proofs.SweepsCanon Proofs.ReverseDefs Proofs.ReverseMx Proofs.ReverseGauge Proofs.ReverseLocal Proofs.ReverseFwd
  Proofs.ExactDefs Proofs.ExactMx.
Import ListNotations.

Section LocalIntertwine.
  Variable R : cring.
  Add Ring Rring_exact_local : (k_rt R).
  Infix "*" := (kmul R).
  Notation site := (site R).
  Notation osite := (osite R).
  Notation env := (env R).
  Notation mx := (mx R).

  Lemma wsite_alh d Dl Dr Dwl Dwr (L0 E0 : env) (W : osite) (X0 : site) : 0 < d -> 0 < Dwl -> 0 < Dwr ->
    osite_ok d Dwl Dwr W -> wenv Dwl Dl Dl L0 -> wenv Dwr Dr Dr E0 -> wsite d Dl Dr (apply_local_hamiltonian L0 E0 W X0).
  Proof.
    intros Hd Hwl Hwr HW HL0 HE0. destruct (osite_ok_odl R _ _ _ _ Hd HW) as (W1 & W2 & W3).
    unfold apply_local_hamiltonian. cbv zeta. rewrite W3.
    destruct (env_ok_edl R _ _ _ _ Hwl (wenv_ok R _ _ _ _ HL0)) as (_ & G2 & _). destruct (env_ok_edl R _ _ _ _ Hwr (wenv_ok R _ _ _ _ HE0)) as (_ & G5 & _).
    rewrite G2, G5. apply wsite_tabl. intros s _. split; [apply wf_tab|split; reflexivity].
  Qed.
  Lemma wmx_albc Dl Dr Dw (L0 E0 : env) (C0 : mx) : 0 < Dw -> wenv Dw Dl Dl L0 -> wenv Dw Dr Dr E0 -> wmx Dl Dr (apply_local_bond_contraction L0 E0 C0).
  Proof.
    intros Hw HL0 HE0. unfold apply_local_bond_contraction.
    destruct (env_ok_edl R _ _ _ _ Hw (wenv_ok R _ _ _ _ HL0)) as (_ & G2 & _). destruct (env_ok_edl R _ _ _ _ Hw (wenv_ok R _ _ _ _ HE0)) as (_ & G5 & _).
    rewrite G2, G5. split; [apply wf_tab|split; reflexivity].
  Qed.

  Lemma sand_get (P M Qm : mx) i j m n : nr M = m -> nc M = n -> nc P = m -> nr Qm = n -> i < nr P -> j < nc Qm ->
    sand m n (get P i) (fun l => get Qm l j) (fun a b => get M a b) = get (mulmx (mulmx P M) Qm) i j.
  Proof. intros <- <- H1 H2 Hi Hj. symmetry. apply get_sandwich; congruence. Qed.

  (* ---------------- left ---------------- *)
  Lemma term_left d Dl k Dr (Q : site) (C Lw Ew : mx) s s' t : 0 < d -> wsite d Dl k Q -> lcoiso Q -> wmx k Dr C ->
    wmx Dl Dl Lw -> wmx Dr Dr Ew -> s < d -> s' < d -> t < d ->
    mulmx (mulmx (sel Q s) (trmx (mulmx (trmx (sel Q t)) (mulmx Lw (conjmx (sel Q s')))))) (mulmx C Ew) =
    if Nat.eqb s s' then mulmx (trmx Lw) (mulmx (mulmx (sel Q t) C) Ew) else zeromx Dl Dr.
  Proof.
    intros Hd HQ Hco (c0 & c1 & c2) (l0 & l1 & l2) (e0 & e1 & e2) Hs Hs' Ht.
    destruct (wsite_sel R _ _ _ _ s HQ Hs) as (a0 & a1 & a2). destruct (wsite_sel R _ _ _ _ s' HQ Hs') as (b0 & b1 & b2).
    destruct (wsite_sel R _ _ _ _ t HQ Ht) as (t0 & t1 & t2).
    rewrite trmx_mulmx by shp. rewrite trmx_mulmx by shp. rewrite trmx_conjmx, trmx_trmx by exact t0.
    repeat rewrite <- mulmx_assoc by shp.
    rewrite (lcoiso_mx R d Dl k Q s s' Hd HQ Hco Hs Hs').
    destruct (Nat.eqb s s').
    - rewrite <- l2 at 1. rewrite <- (nr_trmx R Lw). rewrite mulmx_1_l by apply wf_trmx. reflexivity.
    - rewrite !mulmx_zero_l by shp. f_equal; shp.
  Qed.

  Theorem alh_intertwine_left d Dl k Dr Dwl Dwr (BL BR : env) (W : osite) (Q : site) (C : mx) :
    0 < d -> 0 < Dwl -> 0 < Dwr -> wsite d Dl k Q -> lcoiso Q -> wmx k Dr C -> osite_ok d Dwl Dwr W ->
    wenv Dwl Dl Dl BL -> wenv Dwr Dr Dr BR ->
    apply_local_hamiltonian BL BR W (rmul_site Q C) =
    rmul_site Q (apply_local_bond_contraction (contraction_operator_step_left Q Q W BL) BR C).
  Proof.
    intros Hd Hwl Hwr HQ Hco HC HW HBL HBR.
    destruct (site_ok_sdl R _ _ _ _ Hd (wsite_ok R _ _ _ _ HQ)) as (E1 & E2 & E3).
    destruct (osite_ok_odl R _ _ _ _ Hd HW) as (W1 & W2 & W3).
    assert (HX : wsite d Dl Dr (rmul_site Q C)) by (apply (wsite_rmul R d Dr Dl k); assumption).
    assert (HL' : wenv Dwr k k (contraction_operator_step_left Q Q W BL)).
    { pose proof (wenv_opstep_left R Q Q W BL) as H. rewrite W2, E2 in H. exact H. }
    set (L' := contraction_operator_step_left Q Q W BL) in *.
    assert (HK : wmx k Dr (apply_local_bond_contraction L' BR C)) by (apply (wmx_albc k Dr Dwr); assumption).
    apply (wsite_ext R d Dl Dr).
    - apply (wsite_alh d Dl Dr Dwl Dwr); assumption.
    - apply (wsite_rmul R d Dr Dl k); assumption.
    - intros s b c Hs Hb Hc.
      rewrite (mform_local_hamiltonian R d Dl Dr Dl Dr Dwl Dwr) by (try assumption; try apply wsite_ok; try apply wenv_ok; assumption).
      unfold rmul_site at 2. rewrite (sel_map_w R (fun M => mulmx M _)) by (rewrite (proj1 HQ); exact Hs).
      destruct (wsite_sel R _ _ _ _ s HQ Hs) as (q0 & q1 & q2). destruct HK as (k0' & k1 & k2). destruct HC as (c0 & c1 & c2).
      rewrite get_mulmx by lia. rewrite q2.
      (* the bond operator, pulled through Q[s] *)
      transitivity (sumn Dwr (fun wr => get (mulmx (sel Q s) (mulmx (trmx (esel L' wr)) (mulmx C (esel BR wr)))) b c)).
      2: { transitivity (sumn k (fun j => sumn Dwr (fun wr => get (sel Q s) b j * get (mulmx (trmx (esel L' wr)) (mulmx C (esel BR wr))) j c))).
           - rewrite sumn_exch. apply sumn_ext; intros wr Hwr'. destruct (wenv_esel R _ _ _ _ wr HL' Hwr') as (x0 & x1 & x2).
             rewrite get_mulmx by (rewrite ?nc_mulmx; try lia; destruct (wenv_esel R _ _ _ _ wr HBR Hwr') as (_ & _ & h); rewrite h; exact Hc).
             rewrite q2. reflexivity.
           - apply sumn_ext; intros j Hj. rewrite sumn_scal_l. f_equal. symmetry.
             apply (mform_local_bond R k Dr k Dr Dwr); try assumption; try (apply wenv_ok; assumption). }
      (* reorder the left-hand side *)
      transitivity (sumn Dwr (fun wr => sumn d (fun t => sumn Dwl (fun wl => get (osel W s t) wl wr *
                      get (mulmx (trmx (esel BL wl)) (mulmx (sel (rmul_site Q C) t) (esel BR wr))) b c)))).
      { transitivity (sumn d (fun t => sumn Dwr (fun wr => sumn Dwl (fun wl => get (osel W s t) wl wr *
                      get (mulmx (trmx (esel BL wl)) (mulmx (sel (rmul_site Q C) t) (esel BR wr))) b c)))).
        - apply sumn_ext; intros t _. apply sumn_exch.
        - apply sumn_exch. }
      apply sumn_ext; intros wr Hwr'.
      destruct (wenv_esel R _ _ _ _ wr HL' Hwr') as (x0 & x1 & x2). destruct (wenv_esel R _ _ _ _ wr HBR Hwr') as (r0 & r1 & r2).
      rewrite <- (mulmx_assoc R (sel Q s)) by shp.
      rewrite get_sandwich by shp. autorewrite with mxshape. rewrite x1, x2.
      rewrite (sand_ext R k k _ _ _ (fun j j' => sumn d (fun t => sumn d (fun s' => sumn Dwl (fun wl => get (osel W s' t) wl wr *
                 get (trmx (mulmx (trmx (sel Q t)) (mulmx (esel BL wl) (conjmx (sel Q s'))))) j j'))))).
      2: { intros j j' Hj Hj'. rewrite get_trmx by lia. unfold L'.
           rewrite (mform_opstep_left R d Dl k Dl k Dwl Dwr) by (try assumption; try apply wsite_ok; try apply wenv_ok; assumption).
           apply sumn_ext; intros t Ht. apply sumn_ext; intros s' Hs'. apply sumn_ext; intros wl Hwl'. f_equal.
           destruct (wsite_sel R _ _ _ _ t HQ Ht) as (t0 & t1 & t2). destruct (wsite_sel R _ _ _ _ s' HQ Hs') as (s0 & s1 & s2).
           rewrite get_trmx by shp. reflexivity. }
      rewrite sand_sum. apply sumn_ext; intros t Ht. rewrite sand_sum.
      transitivity (sumn d (fun s' => sumn Dwl (fun wl => get (osel W s' t) wl wr *
          (if Nat.eqb s s' then get (mulmx (trmx (esel BL wl)) (mulmx (sel (rmul_site Q C) t) (esel BR wr))) b c else k0 R)))).
      2: { apply sumn_ext; intros s' Hs'. rewrite sand_sum. apply sumn_ext; intros wl Hwl'. rewrite sand_scal. f_equal.
           destruct (wsite_sel R _ _ _ _ t HQ Ht) as (t0 & t1 & t2). destruct (wsite_sel R _ _ _ _ s' HQ Hs') as (s0 & s1 & s2).
           destruct (wenv_esel R _ _ _ _ wl HBL Hwl') as (l0 & l1 & l2).
           rewrite (sand_get (sel Q s) _ (mulmx C (esel BR wr)) b c k k) by shp.
           rewrite (term_left d Dl k Dr Q C (esel BL wl) (esel BR wr) s s' t) by (try assumption; repeat split; assumption).
           unfold rmul_site. rewrite (sel_map_w R (fun M => mulmx M C)) by (rewrite (proj1 HQ); exact Ht).
           destruct (Nat.eqb s s'); [reflexivity|rewrite get_zeromx; reflexivity]. }
      rewrite (sumn_single R d s) by (try exact Hs; intros s' Hs' N; apply sumn_zero; intros wl _;
                                       replace (Nat.eqb s s') with false by (symmetry; apply Nat.eqb_neq; lia); ring).
      rewrite Nat.eqb_refl. reflexivity.
  Qed.

  (* ---------------- right ---------------- *)
  Lemma term_right d Dl k Dr (B : site) (C Lw Ew : mx) s s' t : 0 < d -> wsite d k Dr B -> rcoiso B -> wmx Dl k C ->
    wmx Dl Dl Lw -> wmx Dr Dr Ew -> s < d -> s' < d -> t < d ->
    mulmx (mulmx (mulmx (trmx Lw) C) (mulmx (mulmx (sel B t) Ew) (adjmx (sel B s')))) (sel B s) =
    if Nat.eqb s s' then mulmx (trmx Lw) (mulmx (mulmx C (sel B t)) Ew) else zeromx Dl Dr.
  Proof.
    intros Hd HB Hco (c0 & c1 & c2) (l0 & l1 & l2) (e0 & e1 & e2) Hs Hs' Ht.
    destruct (wsite_sel R _ _ _ _ s HB Hs) as (a0 & a1 & a2). destruct (wsite_sel R _ _ _ _ s' HB Hs') as (b0 & b1 & b2).
    destruct (wsite_sel R _ _ _ _ t HB Ht) as (t0 & t1 & t2).
    repeat rewrite mulmx_assoc by shp.
    rewrite (rcoiso_mx R d k Dr B s s' Hd HB Hco Hs Hs').
    destruct (Nat.eqb s s').
    - rewrite <- e2 at 1. rewrite mulmx_1_r by exact e0. reflexivity.
    - rewrite !mulmx_zero_r by shp. f_equal; shp.
  Qed.

  Theorem alh_intertwine_right d Dl k Dr Dwl Dwr (BL BR : env) (W : osite) (B : site) (C : mx) :
    0 < d -> 0 < Dwl -> 0 < Dwr -> wsite d k Dr B -> rcoiso B -> wmx Dl k C -> osite_ok d Dwl Dwr W ->
    wenv Dwl Dl Dl BL -> wenv Dwr Dr Dr BR ->
    apply_local_hamiltonian BL BR W (lmul_site C B) =
    lmul_site (apply_local_bond_contraction BL (contraction_operator_step_right B B W BR) C) B.
  Proof.
    intros Hd Hwl Hwr HB Hco HC HW HBL HBR.
    destruct (site_ok_sdl R _ _ _ _ Hd (wsite_ok R _ _ _ _ HB)) as (E1 & E2 & E3).
    destruct (osite_ok_odl R _ _ _ _ Hd HW) as (W1 & W2 & W3).
    assert (HX : wsite d Dl Dr (lmul_site C B)) by (apply (wsite_lmul R d Dl k Dr); assumption).
    assert (HR' : wenv Dwl k k (contraction_operator_step_right B B W BR)).
    { pose proof (wenv_opstep_right R B B W BR) as H. rewrite W1, E1 in H. exact H. }
    set (R' := contraction_operator_step_right B B W BR) in *.
    assert (HK : wmx Dl k (apply_local_bond_contraction BL R' C)) by (apply (wmx_albc Dl k Dwl); assumption).
    apply (wsite_ext R d Dl Dr).
    - apply (wsite_alh d Dl Dr Dwl Dwr); assumption.
    - apply (wsite_lmul R d Dl k Dr); assumption.
    - intros s b c Hs Hb Hc.
      rewrite (mform_local_hamiltonian R d Dl Dr Dl Dr Dwl Dwr) by (try assumption; try apply wsite_ok; try apply wenv_ok; assumption).
      unfold lmul_site at 2. rewrite (sel_map_w R (mulmx _)) by (rewrite (proj1 HB); exact Hs).
      destruct (wsite_sel R _ _ _ _ s HB Hs) as (q0 & q1 & q2). destruct HK as (k0' & k1 & k2). destruct HC as (c0 & c1 & c2).
      rewrite get_mulmx by lia. rewrite k2.
      transitivity (sumn Dwl (fun wl => get (mulmx (mulmx (trmx (esel BL wl)) (mulmx C (esel R' wl))) (sel B s)) b c)).
      2: { transitivity (sumn k (fun j => sumn Dwl (fun wl => get (mulmx (trmx (esel BL wl)) (mulmx C (esel R' wl))) b j * get (sel B s) j c))).
           - rewrite sumn_exch. apply sumn_ext; intros wl Hwl'. destruct (wenv_esel R _ _ _ _ wl HR' Hwl') as (x0 & x1 & x2).
             destruct (wenv_esel R _ _ _ _ wl HBL Hwl') as (l0 & l1 & l2).
             rewrite get_mulmx by (rewrite ?nr_mulmx, ?nr_trmx; lia). rewrite !nc_mulmx, x2. reflexivity.
           - apply sumn_ext; intros j Hj. rewrite sumn_scal_r. f_equal. symmetry.
             apply (mform_local_bond R Dl k Dl k Dwl); try assumption; try (apply wenv_ok; assumption). }
      transitivity (sumn Dwl (fun wl => sumn d (fun t => sumn Dwr (fun wr => get (osel W s t) wl wr *
                      get (mulmx (trmx (esel BL wl)) (mulmx (sel (lmul_site C B) t) (esel BR wr))) b c)))).
      { apply sumn_exch. }
      apply sumn_ext; intros wl Hwl'.
      destruct (wenv_esel R _ _ _ _ wl HR' Hwl') as (x0 & x1 & x2). destruct (wenv_esel R _ _ _ _ wl HBL Hwl') as (l0 & l1 & l2).
      rewrite <- (mulmx_assoc R (trmx (esel BL wl)) C) by shp.
      rewrite get_sandwich by shp. rewrite x1, x2.
      rewrite (sand_ext R k k _ _ _ (fun j j' => sumn d (fun s' => sumn d (fun t => sumn Dwr (fun wr => get (osel W s' t) wl wr *
                 get (mulmx (mulmx (sel B t) (esel BR wr)) (adjmx (sel B s'))) j j'))))).
      2: { intros j j' Hj Hj'. unfold R'.
           apply (mform_opstep_right R d k Dr k Dr Dwl Dwr); try assumption; try apply wsite_ok; try apply wenv_ok; assumption. }
      rewrite sand_sum.
      transitivity (sumn d (fun s' => sumn d (fun t => sumn Dwr (fun wr => get (osel W s' t) wl wr *
          (if Nat.eqb s s' then get (mulmx (trmx (esel BL wl)) (mulmx (sel (lmul_site C B) t) (esel BR wr))) b c else k0 R))))).
      2: { apply sumn_ext; intros s' Hs'. rewrite sand_sum. apply sumn_ext; intros t Ht. rewrite sand_sum. apply sumn_ext; intros wr Hwr'.
           rewrite sand_scal. f_equal.
           destruct (wsite_sel R _ _ _ _ t HB Ht) as (t0 & t1 & t2). destruct (wsite_sel R _ _ _ _ s' HB Hs') as (s0 & s1 & s2).
           destruct (wenv_esel R _ _ _ _ wr HBR Hwr') as (r0 & r1 & r2).
           rewrite (sand_get (mulmx (trmx (esel BL wl)) C) _ (sel B s) b c k k) by shp.
           rewrite (term_right d Dl k Dr B C (esel BL wl) (esel BR wr) s s' t) by (try assumption; repeat split; assumption).
           unfold lmul_site. rewrite (sel_map_w R (mulmx C)) by (rewrite (proj1 HB); exact Ht).
           destruct (Nat.eqb s s'); [reflexivity|rewrite get_zeromx; reflexivity]. }
      symmetry. rewrite (sumn_single R d s) by (try exact Hs; intros s' Hs' N; apply sumn_zero; intros t _; apply sumn_zero; intros wr _;
                                       replace (Nat.eqb s s') with false by (symmetry; apply Nat.eqb_neq; lia); ring).
      rewrite Nat.eqb_refl. reflexivity.
  Qed.
End LocalIntertwine.
