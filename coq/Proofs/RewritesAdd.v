(* C16, part 6: OpGraph.add.  The renaming phase (shared node / edge ids of the other graph are moved to
   fresh ids, then its terminals are renamed to those of self) keeps well-formedness and the denotation and
   makes the ids disjoint up to the two terminals; gluing two such graphs at the terminals adds the
   denotations and keeps well-formedness. *)
From Coq Require Import ZArith List Lia Bool Permutation Ring.
From PT Require Import Base.Scalar Base.BigSum Model.OpGraph Model.Rewrites
  Proofs.RewritesBase Proofs.RewritesIso Proofs.RewritesRename.
Import ListNotations.
Open Scope Z_scope.

Lemma NoDup_app_intro {A} (l1 l2 : list A) :
  NoDup l1 -> NoDup l2 -> (forall x, In x l1 -> In x l2 -> False) -> NoDup (l1 ++ l2).
Proof.
  induction l1 as [|a l1 IH]; simpl; intros H1 H2 H; [exact H2|]. inversion H1; subst. constructor.
  - intros Hin. apply in_app_or in Hin. destruct Hin as [Hin|Hin]; [contradiction|]. apply (H a); auto.
  - apply IH; auto. intros x Hx. apply H. auto.
Qed.
Lemma NoDup_map_filter {A B} (f : A -> B) (p : A -> bool) (l : list A) :
  NoDup (map f l) -> NoDup (map f (filter p l)).
Proof.
  induction l as [|a l IH]; simpl; intros H; [constructor|]. inversion H; subst.
  destruct (p a); simpl; auto. constructor; auto.
  intros Hin. apply in_map_iff in Hin. destruct Hin as [b [Hb Hbl]]. apply filter_In in Hbl.
  apply H2. rewrite <- Hb. apply in_map. tauto.
Qed.
Lemma zmax_ge_aux l : forall a x, x = a \/ In x l -> x <= fold_left Z.max l a.
Proof.
  induction l as [|y l IH]; simpl; intros a x H.
  - destruct H as [->|[]]. lia.
  - destruct H as [->|[->|H]].
    + apply Z.le_trans with (Z.max a y); [lia|]. apply IH. left. reflexivity.
    + apply Z.le_trans with (Z.max a x); [lia|]. apply IH. left. reflexivity.
    + apply IH. right. exact H.
Qed.
Lemma zmax_ge l d x : In x l -> x <= zmax l d.
Proof.
  destruct l as [|y l]; simpl; [contradiction|]. intros H. apply zmax_ge_aux.
  destruct H as [->|H]; [left; reflexivity|right; exact H].
Qed.
Lemma is_enum_inter_complete l a b x : is_enum_inter l a b = true -> In x a -> In x b -> In x l.
Proof.
  unfold is_enum_inter. rewrite !andb_true_iff. intros [_ H] Ha Hb. rewrite forallb_forall in H.
  specialize (H x Ha). apply orb_true_iff in H. destruct H as [H|H].
  - apply negb_true_iff, zmem_false in H. contradiction.
  - apply zmem_In. exact H.
Qed.

Section AddProofs.
  Variable R : cring.
  Add Ring Rring_rwadd : (k_rt R).
  Notation graph := (graph R).
  Notation gedge := (gedge R).
  Notation "0r" := (k0 R). Notation "1r" := (k1 R).
  Infix "+r" := (kadd R) (at level 50, left associativity).
  Infix "*r" := (kmul R) (at level 40, left associativity).

  (* ================= Stage 1: the renaming phase ================= *)
  (* a level function with terminal difference k *)
  Definition LevDiff (g : graph) (k : Z) : Prop :=
    exists lv : Z -> Z, (forall e, In e (g_edges g) -> lv (e_to e) = lv (e_from e) + 1) /\
                        lv (g_t1 g) - lv (g_t0 g) = k.

  Lemma iso_LevDiff rho sigma (g g' : graph) k : WF R g -> Iso R rho sigma g g' -> LevDiff g k -> LevDiff g' k.
  Proof.
    intros W I [lv [Hlv Hk]].
    set (inv := fun y => match find (fun x => rho x =? y) (nids R g) with Some x => x | None => 0 end).
    assert (Hinv : forall x, In x (nids R g) -> inv (rho x) = x).
    { intros x Hx. unfold inv. destruct (find (fun x0 => rho x0 =? rho x) (nids R g)) as [y|] eqn:F.
      - apply find_some in F. destruct F as [Hy E]. apply Z.eqb_eq in E. apply (iso_inj_n _ _ _ _ _ I); auto.
      - pose proof (find_none _ _ F x Hx) as E. simpl in E. rewrite Z.eqb_refl in E. discriminate. }
    exists (fun y => lv (inv y)). split.
    - intros e' He'. apply (Permutation_in _ (iso_edges _ _ _ _ _ I)) in He'.
      apply in_map_iff in He'. destruct He' as [e [<- He]]. simpl.
      destruct (ends_in_nids R g e W He) as [Hf Ht]. rewrite !Hinv by assumption. apply Hlv. exact He.
    - rewrite (iso_t0 _ _ _ _ _ I), (iso_t1 _ _ _ _ _ I).
      rewrite !Hinv; [exact Hk| |].
      + apply (terminal_in_nids R g 0 W). lia.
      + apply (terminal_in_nids R g 1 W). lia.
  Qed.
  Lemma iso_tne rho sigma (g g' : graph) : WF R g -> Iso R rho sigma g g' -> g_t0 g <> g_t1 g -> g_t0 g' <> g_t1 g'.
  Proof.
    intros W I Hne E. rewrite (iso_t0 _ _ _ _ _ I), (iso_t1 _ _ _ _ _ I) in E. apply Hne.
    apply (iso_inj_n _ _ _ _ _ I); [| |exact E].
    - apply (terminal_in_nids R g 0 W). lia.
    - apply (terminal_in_nids R g 1 W). lia.
  Qed.
  Lemma iso_eids_in rho sigma (g g' : graph) x : Iso R rho sigma g g' ->
    (In x (eids R g') <-> In x (map sigma (eids R g))).
  Proof.
    intros I. pose proof (Permutation_map (@e_id R) (iso_edges _ _ _ _ _ I)) as P.
    rewrite map_map in P. simpl in P. rewrite <- (map_map (@e_id R) sigma) in P. unfold eids. split; intros H.
    - apply (Permutation_in _ P). exact H.
    - apply (Permutation_in _ (Permutation_sym P)). exact H.
  Qed.
  Lemma iso_nids_in rho sigma (g g' : graph) x : Iso R rho sigma g g' ->
    (In x (nids R g') <-> In x (map rho (nids R g))).
  Proof.
    intros I. pose proof (iso_nids _ _ _ _ _ I) as P. split; intros H.
    - apply (Permutation_in _ P). exact H.
    - apply (Permutation_in _ (Permutation_sym P)). exact H.
  Qed.

  (* what the renames keep: well-formedness, the denotation D, the terminal level difference k, t0 <> t1 *)
  Definition Inv (D : list Z -> R) (k : Z) (h : graph) : Prop :=
    WF R h /\ (forall w, den h w = D w) /\ LevDiff h k /\ g_t0 h <> g_t1 h.
  Lemma iso_Inv D k rho sigma (h h' : graph) : Inv D k h -> Iso R rho sigma h h' -> Inv D k h'.
  Proof.
    intros [W [HD [HL Hne]]] I. split; [|split; [|split]].
    - eapply iso_WF; eauto.
    - intros w. rewrite <- HD. eapply iso_den; eauto.
    - eapply iso_LevDiff; eauto.
    - eapply iso_tne; eauto.
  Qed.

  Lemma swap_in_cases cur new (l : list Z) x : In x (map (swap_id cur new) l) ->
    x = new \/ (In x l /\ x <> cur).
  Proof.
    intros H. apply in_map_iff in H. destruct H as [z [Hz Hin]]. unfold swap_id in Hz.
    destruct (z =? cur) eqn:E.
    - left. congruence.
    - right. apply Z.eqb_neq in E. subst z. auto.
  Qed.

  Lemma rename_nodes_seq_spec D k : forall l (h h' : graph) next,
    Inv D k h -> rename_nodes_seq R h l next = Some h' ->
    Inv D k h' /\
    (forall x, In x (nids R h') -> (In x (nids R h) /\ ~ In x l) \/ next <= x) /\
    (forall x, In x (eids R h') <-> In x (eids R h)).
  Proof.
    induction l as [|a l IH]; simpl; intros h h' next HI H.
    - inversion H; subst. split; [exact HI|]. split; [intros x Hx; left; auto|intros x; tauto].
    - destruct (rename_node_id h a next) as [h1|] eqn:E; [|discriminate].
      pose proof (rename_node_iso R h h1 a next (proj1 HI) E) as I.
      destruct (IH h1 h' (next + 1) (iso_Inv _ _ _ _ _ _ HI I) H) as [HI' [Hn He]].
      split; [exact HI'|]. split.
      + intros x Hx. destruct (Hn x Hx) as [[Hx1 Hnl]|Hge]; [|right; lia].
        apply (iso_nids_in _ _ _ _ x I) in Hx1. apply swap_in_cases in Hx1.
        destruct Hx1 as [->|[Hx1 Hne]]; [right; lia|]. left. split; [exact Hx1|].
        intros [Ha|Hl]; [congruence|contradiction].
      + intros x. rewrite He. rewrite (iso_eids_in _ _ _ _ x I), map_id. tauto.
  Qed.

  Lemma rename_edges_seq_spec D k : forall l (h h' : graph) next,
    Inv D k h -> rename_edges_seq R h l next = Some h' ->
    Inv D k h' /\
    (forall x, In x (eids R h') -> (In x (eids R h) /\ ~ In x l) \/ next <= x) /\
    (forall x, In x (nids R h') <-> In x (nids R h)).
  Proof.
    induction l as [|a l IH]; simpl; intros h h' next HI H.
    - inversion H; subst. split; [exact HI|]. split; [intros x Hx; left; auto|intros x; tauto].
    - destruct (rename_edge_id h a next) as [h1|] eqn:E; [|discriminate].
      pose proof (rename_edge_iso R h h1 a next (proj1 HI) E) as I.
      destruct (IH h1 h' (next + 1) (iso_Inv _ _ _ _ _ _ HI I) H) as [HI' [Hn He]].
      split; [exact HI'|]. split.
      + intros x Hx. destruct (Hn x Hx) as [[Hx1 Hnl]|Hge]; [|right; lia].
        apply (iso_eids_in _ _ _ _ x I) in Hx1. apply swap_in_cases in Hx1.
        destruct Hx1 as [->|[Hx1 Hne]]; [right; lia|]. left. split; [exact Hx1|].
        intros [Ha|Hl]; [congruence|contradiction].
      + intros x. rewrite He. rewrite (iso_nids_in _ _ _ _ x I), map_id. tauto.
  Qed.

  (* the two terminal renames *)
  Lemma rename_terminals_spec D k (g h2 h3 h4 : graph) :
    Inv D k h2 ->
    (forall x, In x (nids R g) -> In x (nids R h2) -> False) ->
    rename_node_id h2 (g_t0 h2) (g_t0 g) = Some h3 ->
    rename_node_id h3 (g_t1 h3) (g_t1 g) = Some h4 ->
    Inv D k h4 /\ g_t0 h4 = g_t0 g /\ g_t1 h4 = g_t1 g /\
    (forall x, In x (nids R h4) -> In x (nids R g) -> x = g_t0 g \/ x = g_t1 g) /\
    (forall x, In x (eids R h4) <-> In x (eids R h2)).
  Proof.
    intros HI Hdis E3 E4.
    pose proof (rename_node_iso R h2 h3 _ _ (proj1 HI) E3) as I3.
    pose proof (iso_Inv _ _ _ _ _ _ HI I3) as HI3.
    pose proof (rename_node_iso R h3 h4 _ _ (proj1 HI3) E4) as I4.
    pose proof (iso_Inv _ _ _ _ _ _ HI3 I4) as HI4.
    assert (T03 : g_t0 h3 = g_t0 g).
    { rewrite (iso_t0 _ _ _ _ _ I3). unfold swap_id. rewrite Z.eqb_refl. reflexivity. }
    assert (T14 : g_t1 h4 = g_t1 g).
    { rewrite (iso_t1 _ _ _ _ _ I4). unfold swap_id. rewrite Z.eqb_refl. reflexivity. }
    assert (T04 : g_t0 h4 = g_t0 g).
    { rewrite (iso_t0 _ _ _ _ _ I4). rewrite swap_id_other; [exact T03|]. apply HI3. }
    split; [exact HI4|]. split; [exact T04|]. split; [exact T14|]. split.
    - intros x Hx Hg. apply (iso_nids_in _ _ _ _ x I4) in Hx. apply swap_in_cases in Hx.
      destruct Hx as [->|[Hx _]]; [right; reflexivity|].
      apply (iso_nids_in _ _ _ _ x I3) in Hx. apply swap_in_cases in Hx.
      destruct Hx as [->|[Hx _]]; [left; reflexivity|]. exfalso. apply (Hdis x); assumption.
    - intros x. rewrite (iso_eids_in _ _ _ _ x I4), map_id, (iso_eids_in _ _ _ _ x I3), map_id. tauto.
  Qed.

  (* the whole renaming phase of add *)
  Lemma add_rename_phase (g h h1 h2 h3 h4 : graph) sn se k :
    WF R h -> g_t0 h <> g_t1 h -> LevDiff h k ->
    is_enum_inter sn (nids R g) (nids R h) = true -> is_enum_inter se (eids R g) (eids R h) = true ->
    rename_nodes_seq R h sn (Z.max (zmax (nids R g) 0) (zmax (nids R h) 0) + 1) = Some h1 ->
    rename_edges_seq R h1 se (Z.max (zmax (eids R g) 0) (zmax (eids R h) 0) + 1) = Some h2 ->
    rename_node_id h2 (g_t0 h2) (g_t0 g) = Some h3 ->
    rename_node_id h3 (g_t1 h3) (g_t1 g) = Some h4 ->
    Inv (den h) k h4 /\ g_t0 h4 = g_t0 g /\ g_t1 h4 = g_t1 g /\
    (forall x, In x (nids R h4) -> In x (nids R g) -> x = g_t0 g \/ x = g_t1 g) /\
    (forall x, In x (eids R g) -> In x (eids R h4) -> False).
  Proof.
    intros W Hne HL Esn Ese E1 E2 E3 E4.
    assert (HI : Inv (den h) k h) by (split; [exact W|split; [reflexivity|split; assumption]]).
    destruct (rename_nodes_seq_spec _ _ _ _ _ _ HI E1) as [HI1 [Hn1 He1]].
    destruct (rename_edges_seq_spec _ _ _ _ _ _ HI1 E2) as [HI2 [He2 Hn2]].
    assert (Hdis : forall x, In x (nids R g) -> In x (nids R h2) -> False).
    { intros x Hg Hx. apply Hn2 in Hx. destruct (Hn1 x Hx) as [[Hh Hnl]|Hge].
      - apply Hnl. eapply is_enum_inter_complete; eauto.
      - pose proof (zmax_ge _ 0 _ Hg). lia. }
    destruct (rename_terminals_spec _ _ g h2 h3 h4 HI2 Hdis E3 E4) as [HI4 [T0 [T1 [Hn4 He4]]]].
    split; [exact HI4|]. split; [exact T0|]. split; [exact T1|]. split; [exact Hn4|].
    intros x Hg Hx. apply He4 in Hx. destruct (He2 x Hx) as [[Hh Hnl]|Hge].
    - apply He1 in Hh. apply Hnl. eapply is_enum_inter_complete; eauto.
    - pose proof (zmax_ge _ 0 _ Hg). lia.
  Qed.

  (* ================= Stage 2: gluing at the edge level ================= *)
  Section FEGlue.
    Variables (t0 t1 : Z).
    Hypothesis Tne : t0 <> t1.

    (* walks that start inside the first component, away from t0, never use the second edge list *)
    Lemma FE_restrict (E1 E2 : list gedge) (N1 N2 : Z -> Prop) :
      (forall e, In e E1 -> N1 (e_from e) /\ N1 (e_to e)) ->
      (forall e, In e E2 -> N2 (e_from e) /\ N2 (e_to e)) ->
      (forall x, N1 x -> N2 x -> x = t0 \/ x = t1) ->
      (forall e, In e E1 \/ In e E2 -> e_from e <> t1 /\ e_to e <> t0) ->
      forall w n, N1 n -> n <> t0 -> FE R (E1 ++ E2) t1 0 w n = FE R E1 t1 0 w n.
    Proof.
      intros H1 H2 H12 Hterm. induction w as [|o w IH]; intros n Hn Hn0; simpl; [reflexivity|].
      rewrite suml_app. rewrite (suml_zero R E2).
      - rewrite (suml_ext R E1 _ (fun e => if e_from e =? n then opics_coeff o (e_opics e) *r FE R E1 t1 0 w (e_to e) else 0r)).
        + ring.
        + intros e He. destruct (e_from e =? n); [|reflexivity]. rewrite IH; [reflexivity| |].
          * apply (H1 e He).
          * apply (Hterm e). left. exact He.
      - intros e He. destruct (e_from e =? n) eqn:E; [|reflexivity]. apply Z.eqb_eq in E. exfalso.
        destruct (H12 n Hn) as [X|X].
        + rewrite <- E. apply (H2 e He).
        + contradiction.
        + destruct (Hterm e (or_intror He)) as [Y _]. congruence.
    Qed.

    Lemma FE_glue (Eg Eh : list gedge) (Ng Nh : Z -> Prop) :
      (forall e, In e Eg -> Ng (e_from e) /\ Ng (e_to e)) ->
      (forall e, In e Eh -> Nh (e_from e) /\ Nh (e_to e)) ->
      (forall x, Ng x -> Nh x -> x = t0 \/ x = t1) ->
      (forall e, In e Eg \/ In e Eh -> e_from e <> t1 /\ e_to e <> t0) ->
      forall w, FE R (Eg ++ Eh) t1 0 w t0 = FE R Eg t1 0 w t0 +r FE R Eh t1 0 w t0.
    Proof.
      intros H1 H2 H12 Hterm w.
      assert (A : forall w n, Ng n -> n <> t0 -> FE R (Eg ++ Eh) t1 0 w n = FE R Eg t1 0 w n).
      { apply (FE_restrict Eg Eh Ng Nh); assumption. }
      assert (B : forall w n, Nh n -> n <> t0 -> FE R (Eg ++ Eh) t1 0 w n = FE R Eh t1 0 w n).
      { intros w' n Hn Hn0. rewrite (FE_perm R _ _ t1 0 w' n (Permutation_app_comm Eg Eh)).
        apply (FE_restrict Eh Eg Nh Ng); try assumption.
        - intros x Hx Hy. apply H12; assumption.
        - intros e He. apply Hterm. tauto. }
      destruct w as [|o w]; simpl.
      - apply Z.eqb_neq in Tne. rewrite Tne. ring.
      - rewrite suml_app. f_equal; apply suml_ext; intros e He; (destruct (e_from e =? t0); [|reflexivity]).
        + rewrite A; [reflexivity|apply (H1 e He)|apply (Hterm e); left; exact He].
        + rewrite B; [reflexivity|apply (H2 e He)|apply (Hterm e); right; exact He].
    Qed.
  End FEGlue.

  (* ================= Stage 3: the glued graph ================= *)
  Lemma no_edge_into_t0 (g : graph) e : WF R g -> In e (g_edges g) -> e_to e <> g_t0 g.
  Proof.
    intros W He E. destruct (wf_term0 R g W) as [n [Hn [Hid Hl]]]. simpl in Hid, Hl.
    destruct (wf_ref1 R g W) as [_ [_ C]]. destruct (C e He) as [n' [Hn' [Hid' Hin]]]. simpl in Hid', Hin.
    assert (n' = n) by (apply (key_inj n_id (g_nodes g)); [apply W|assumption|assumption|congruence]).
    subst n'. rewrite Hl in Hin. destruct Hin.
  Qed.
  Lemma no_edge_from_t1 (g : graph) e : WF R g -> In e (g_edges g) -> e_from e <> g_t1 g.
  Proof.
    intros W He E. destruct (wf_term1 R g W) as [n [Hn [Hid Hl]]]. simpl in Hid, Hl.
    destruct (wf_ref0 R g W) as [_ [_ C]]. destruct (C e He) as [n' [Hn' [Hid' Hin]]]. simpl in Hid', Hin.
    assert (n' = n) by (apply (key_inj n_id (g_nodes g)); [apply W|assumption|assumption|congruence]).
    subst n'. rewrite Hl in Hin. destruct Hin.
  Qed.

  Definition glueU (g : graph) (tn0 tn1 : gnode) (n : gnode) : gnode :=
    let n1 := if n_id n =? g_t0 g then node_append_eids 1 (n_out tn0) n else n in
    if n_id n1 =? g_t1 g then node_append_eids 0 (n_in tn1) n1 else n1.
  Definition glue (g h : graph) (tn0 tn1 : gnode) : graph :=
    mkgraph (map (glueU g tn0 tn1) (g_nodes g) ++
             filter (fun n => negb (n_id n =? g_t1 h)) (filter (fun n => negb (n_id n =? g_t0 h)) (g_nodes h)))
            (g_edges g ++ g_edges h) (g_t0 g) (g_t1 g).

  Section Glue.
    Variables (g h : graph) (tn0 tn1 : gnode) (k : Z).
    Hypothesis Wg : WF R g.
    Hypothesis Wh : WF R h.
    Hypothesis Tne : g_t0 g <> g_t1 g.
    Hypothesis Ht0 : g_t0 h = g_t0 g.
    Hypothesis Ht1 : g_t1 h = g_t1 g.
    Hypothesis Lg : LevDiff g k.
    Hypothesis Lh : LevDiff h k.
    Hypothesis Hnid : forall x, In x (nids R h) -> In x (nids R g) -> x = g_t0 g \/ x = g_t1 g.
    Hypothesis Heid : forall x, In x (eids R g) -> In x (eids R h) -> False.
    Hypothesis Htn0 : In tn0 (g_nodes h).
    Hypothesis Htn0id : n_id tn0 = g_t0 g.
    Hypothesis Htn1 : In tn1 (g_nodes h).
    Hypothesis Htn1id : n_id tn1 = g_t1 g.

    Let U := glueU g tn0 tn1.
    Let G := glue g h tn0 tn1.
    Let tnd (d : nat) : gnode := match d with O => tn0 | _ => tn1 end.

    Lemma U_id n : n_id (U n) = n_id n.
    Proof.
      unfold U, glueU. cbv zeta. destruct (n_id n =? g_t0 g); simpl; destruct (n_id n =? g_t1 g); reflexivity.
    Qed.
    Lemma U_out n : n_out (U n) = n_out n ++ (if n_id n =? g_t0 g then n_out tn0 else []).
    Proof.
      unfold U, glueU. cbv zeta. destruct (n_id n =? g_t0 g); simpl; destruct (n_id n =? g_t1 g); simpl;
        rewrite ?app_nil_r; reflexivity.
    Qed.
    Lemma U_in n : n_in (U n) = n_in n ++ (if n_id n =? g_t1 g then n_in tn1 else []).
    Proof.
      unfold U, glueU. cbv zeta. destruct (n_id n =? g_t0 g); simpl; destruct (n_id n =? g_t1 g); simpl;
        rewrite ?app_nil_r; reflexivity.
    Qed.
    Lemma U_list d n : (d <= 1)%nat ->
      node_eids (U n) (1 - d) = node_eids n (1 - d) ++ (if n_id n =? terminal g d then node_eids (tnd d) (1 - d) else []).
    Proof.
      intros Hd. destruct d as [|[|d]]; try lia; simpl; [apply U_out|apply U_in].
    Qed.
    Lemma tnd_in d : In (tnd d) (g_nodes h) /\ n_id (tnd d) = terminal g d.
    Proof. destruct d; simpl; auto. Qed.

    Lemma nodes_G n' : In n' (g_nodes G) <->
      (exists n, U n = n' /\ In n (g_nodes g)) \/ (In n' (g_nodes h) /\ n_id n' <> g_t0 g /\ n_id n' <> g_t1 g).
    Proof.
      unfold G, glue. simpl. rewrite in_app_iff, in_map_iff, !filter_In, !negb_true_iff, !Z.eqb_neq, Ht0, Ht1.
      fold U. tauto.
    Qed.
    Lemma edges_G e : In e (g_edges G) <-> In e (g_edges g) \/ In e (g_edges h).
    Proof. unfold G, glue. simpl. apply in_app_iff. Qed.
    Lemma term_node_g d : (d <= 1)%nat -> exists n, In n (g_nodes g) /\ n_id n = terminal g d /\ node_eids n d = [].
    Proof. intros Hd. destruct d as [|[|d]]; try lia; apply Wg. Qed.
    Lemma no_end_other d e : (d <= 1)%nat -> In e (g_edges h) -> end_d R d e <> terminal g (1 - d).
    Proof.
      intros Hd He. destruct d as [|[|d]]; try lia; simpl.
      - rewrite <- Ht1. apply no_edge_from_t1; assumption.
      - rewrite <- Ht0. apply no_edge_into_t0; assumption.
    Qed.
    Lemma not_terminals d x : (d <= 1)%nat -> x <> terminal g d -> x <> terminal g (1 - d) ->
      x <> g_t0 g /\ x <> g_t1 g.
    Proof. intros Hd. destruct d as [|[|d]]; try lia; simpl; tauto. Qed.

    Lemma glue_RefOK d : (d <= 1)%nat -> RefOK R G d.
    Proof.
      intros Hd. assert (Hd1 : (1 - d <= 1)%nat) by lia.
      pose proof (wf_ref R g d Wg Hd) as [A1 [A2 A3]]. pose proof (wf_ref R h d Wh Hd) as [B1 [B2 B3]].
      destruct (tnd_in d) as [Htn Htnid].
      split; [|split].
      - intros n' Hn'. apply nodes_G in Hn'. destruct Hn' as [[n [<- Hn]]|[Hn' _]].
        + rewrite U_list by exact Hd. apply NoDup_app_intro.
          * apply A1. exact Hn.
          * destruct (n_id n =? terminal g d); [apply B1; exact Htn|constructor].
          * intros x Hx Hy. destruct (n_id n =? terminal g d); [|destruct Hy].
            apply (Heid x).
            -- apply (list_eids_in R g n (1 - d) x Wg Hd1 Hn Hx).
            -- apply (list_eids_in R h (tnd d) (1 - d) x Wh Hd1 Htn Hy).
        + apply B1. exact Hn'.
      - intros n' eid Hn' Hin. apply nodes_G in Hn'. destruct Hn' as [[n [<- Hn]]|[Hn' _]].
        + rewrite U_list in Hin by exact Hd. rewrite U_id. apply in_app_or in Hin. destruct Hin as [Hin|Hin].
          * destruct (A2 n eid Hn Hin) as [e [He1 He2]]. exists e. split; [apply edges_G; left; exact He1|exact He2].
          * destruct (n_id n =? terminal g d) eqn:E; [|destruct Hin]. apply Z.eqb_eq in E.
            destruct (B2 (tnd d) eid Htn Hin) as [e [He1 [He2 He3]]]. exists e.
            split; [apply edges_G; right; exact He1|]. split; [exact He2|congruence].
        + destruct (B2 n' eid Hn' Hin) as [e [He1 He2]]. exists e. split; [apply edges_G; right; exact He1|exact He2].
      - intros e He. apply edges_G in He. destruct He as [He|He].
        + destruct (A3 e He) as [n [Hn [Hid Hin]]]. exists (U n).
          split; [apply nodes_G; left; exists n; auto|]. split; [rewrite U_id; exact Hid|].
          rewrite U_list by exact Hd. apply in_or_app. left. exact Hin.
        + destruct (B3 e He) as [n [Hn [Hid Hin]]].
          destruct (Z.eq_dec (n_id n) (terminal g d)) as [E|E].
          * assert (n = tnd d) by (apply (key_inj n_id (g_nodes h)); [apply Wh|assumption|assumption|congruence]).
            subst n. destruct (term_node_g d Hd) as [nA [HnA [HnAid _]]].
            exists (U nA). split; [apply nodes_G; left; exists nA; auto|]. split; [rewrite U_id; congruence|].
            rewrite U_list by exact Hd. apply in_or_app. right. rewrite HnAid, Z.eqb_refl. exact Hin.
          * exists n. split; [|split; assumption]. apply nodes_G. right. split; [exact Hn|].
            apply (not_terminals d); [exact Hd|exact E|]. rewrite Hid. apply no_end_other; assumption.
    Qed.

    Lemma glue_nids : NoDup (nids R G).
    Proof.
      unfold nids, G, glue. simpl. rewrite map_app, map_map. apply NoDup_app_intro.
      - rewrite (map_ext _ n_id) by (intros n; apply U_id). apply Wg.
      - apply NoDup_map_filter, NoDup_map_filter. apply Wh.
      - intros x Hx Hy. rewrite (map_ext _ n_id) in Hx by (intros n; apply U_id).
        apply in_map_iff in Hy. destruct Hy as [n [<- Hn]]. rewrite !filter_In, !negb_true_iff, !Z.eqb_neq, Ht0, Ht1 in Hn.
        destruct Hn as [[Hn N0] N1]. destruct (Hnid (n_id n)); [apply in_map; exact Hn|exact Hx|contradiction|contradiction].
    Qed.
    Lemma glue_eids : NoDup (eids R G).
    Proof.
      unfold eids, G, glue. simpl. rewrite map_app. apply NoDup_app_intro; [apply Wg|apply Wh|exact Heid].
    Qed.

    Lemma glue_TermOK d : (d <= 1)%nat -> TermOK R G d.
    Proof.
      intros Hd. destruct (term_node_g d Hd) as [n [Hn [Hid Hl]]]. exists (U n).
      split; [apply nodes_G; left; exists n; auto|]. split.
      - rewrite U_id, Hid. destruct d; reflexivity.
      - destruct d as [|[|d]]; try lia; simpl in *.
        + rewrite U_in, Hl, Hid. apply Z.eqb_neq in Tne. rewrite Tne. reflexivity.
        + rewrite U_out, Hl, Hid. rewrite Z.eqb_sym. apply Z.eqb_neq in Tne. rewrite Tne. reflexivity.
    Qed.
    Lemma glue_NoDangle d : (d <= 1)%nat -> NoDangle R G d.
    Proof.
      intros Hd n' Hn' Hne. apply nodes_G in Hn'.
      assert (Tg : terminal G d = terminal g d) by (destruct d; reflexivity).
      assert (Th : terminal h d = terminal g d) by (destruct d; simpl; assumption).
      rewrite Tg in Hne.
      destruct Hn' as [[n [<- Hn]]|[Hn' _]].
      - rewrite U_id in Hne.
        assert (X : node_eids n d <> []) by (destruct d as [|[|d]]; try lia; apply Wg; assumption).
        destruct d as [|[|d]]; try lia; simpl in *.
        + rewrite U_in. intros E. apply app_eq_nil in E. tauto.
        + rewrite U_out. intros E. apply app_eq_nil in E. tauto.
      - rewrite <- Th in Hne. destruct d as [|[|d]]; try lia; apply Wh; assumption.
    Qed.

    Lemma glue_Layered : Layered R G.
    Proof.
      destruct Lg as [lg [Hlg Kg]]. destruct Lh as [lh [Hlh Kh]].
      set (c := lg (g_t0 g) - lh (g_t0 g)).
      exists (fun x => if zmem x (nids R g) then lg x else lh x + c).
      assert (HA : forall x, In x (nids R g) -> (if zmem x (nids R g) then lg x else lh x + c) = lg x).
      { intros x Hx. apply zmem_In in Hx. rewrite Hx. reflexivity. }
      assert (HB : forall x, In x (nids R h) -> (x = g_t0 g \/ x = g_t1 g -> lg x = lh x + c) ->
                 (if zmem x (nids R g) then lg x else lh x + c) = lh x + c).
      { intros x Hx Hc. destruct (zmem x (nids R g)) eqn:E; [|reflexivity]. apply zmem_In in E.
        apply Hc. apply Hnid; assumption. }
      rewrite Ht0, Ht1 in Kh.
      intros e He. apply edges_G in He. destruct He as [He|He].
      - destruct (ends_in_nids R g e Wg He) as [Hf Ht]. rewrite !HA by assumption. apply Hlg. exact He.
      - destruct (ends_in_nids R h e Wh He) as [Hf Ht]. rewrite (HB (e_to e) Ht), (HB (e_from e) Hf).
        + rewrite (Hlh e He). ring.
        + intros [E|E]; [rewrite E; unfold c; ring|]. exfalso. rewrite <- Ht1 in E.
          apply (no_edge_from_t1 h e Wh He E).
        + intros [E|E]; [|rewrite E; unfold c; lia]. exfalso. rewrite <- Ht0 in E.
          apply (no_edge_into_t0 h e Wh He E).
    Qed.

    Lemma glue_WF : WF R G.
    Proof.
      constructor.
      - apply glue_nids.
      - apply glue_eids.
      - apply glue_RefOK. lia.
      - apply glue_RefOK. lia.
      - intros e He. apply edges_G in He. destruct He; [apply Wg|apply Wh]; assumption.
      - apply glue_TermOK. lia.
      - apply glue_TermOK. lia.
      - apply glue_NoDangle. lia.
      - apply glue_NoDangle. lia.
      - apply glue_Layered.
    Qed.

    Lemma glue_den w : den G w = den g w +r den h w.
    Proof.
      rewrite (den_FE R G w glue_WF), (den_FE R g w Wg), (den_FE R h w Wh), Ht0, Ht1.
      unfold G, glue. simpl.
      apply (FE_glue (g_t0 g) (g_t1 g) Tne (g_edges g) (g_edges h) (fun x => In x (nids R g)) (fun x => In x (nids R h))).
      - intros e He. apply ends_in_nids; assumption.
      - intros e He. apply ends_in_nids; assumption.
      - intros x Hx Hy. apply Hnid; assumption.
      - intros e [He|He].
        + split; [apply no_edge_from_t1|apply no_edge_into_t0]; assumption.
        + rewrite <- Ht0, <- Ht1. split; [apply no_edge_from_t1|apply no_edge_into_t0]; assumption.
    Qed.
  End Glue.

  (* ================= Stage 4: add ================= *)
  Definition SameLength (g h : graph) : Prop :=
    exists lg lh : Z -> Z,
      (forall e, In e (g_edges g) -> lg (e_to e) = lg (e_from e) + 1) /\
      (forall e, In e (g_edges h) -> lh (e_to e) = lh (e_from e) + 1) /\
      lg (g_t1 g) - lg (g_t0 g) = lh (g_t1 h) - lh (g_t0 h).

  Lemma add_nosimp_spec (g h g' : graph) sn se :
    WF R g -> WF R h -> g_t0 g <> g_t1 g -> g_t0 h <> g_t1 h -> SameLength g h ->
    is_enum_inter sn (nids R g) (nids R h) = true -> is_enum_inter se (eids R g) (eids R h) = true ->
    add_nosimp g h sn se = Some g' ->
    WF R g' /\ (forall w, den g' w = kadd R (den g w) (den h w)).
  Proof.
    intros Wg Wh Tg Th [lg [lh [A [B C]]]] Esn Ese H.
    assert (LG : LevDiff g (lg (g_t1 g) - lg (g_t0 g))) by (exists lg; auto).
    assert (LH : LevDiff h (lg (g_t1 g) - lg (g_t0 g))) by (exists lh; auto).
    unfold add_nosimp in H. cbv zeta in H.
    destruct (rename_nodes_seq R h sn _) as [h1|] eqn:E1; [|discriminate].
    destruct (rename_edges_seq R h1 se _) as [h2|] eqn:E2; [|discriminate].
    destruct (rename_node_id h2 (g_t0 h2) (g_t0 g)) as [h3|] eqn:E3; [|discriminate].
    destruct (rename_node_id h3 (g_t1 h3) (g_t1 g)) as [h4|] eqn:E4; [|discriminate].
    destruct (find_node h4 (g_t0 h4)) as [tn0|] eqn:F0; [|discriminate].
    destruct (nonempty (n_in tn0)); [discriminate|].
    destruct (find_node (remove_node h4 (g_t0 h4)) (g_t1 (remove_node h4 (g_t0 h4)))) as [tn1|] eqn:F1; [|discriminate].
    destruct (nonempty (n_out tn1)); [discriminate|].
    inversion H; subst g'; clear H.
    destruct (add_rename_phase g h h1 h2 h3 h4 sn se _ Wh Th LH Esn Ese E1 E2 E3 E4) as [[W4 [D4 [L4 _]]] [T0 [T1 [Hn He]]]].
    apply find_node_Some in F0. destruct F0 as [F0 F0id].
    apply find_node_Some in F1. destruct F1 as [F1 F1id]. simpl in F1, F1id. apply filter_In in F1. destruct F1 as [F1 _].
    rewrite T0 in F0id. rewrite T1 in F1id.
    match goal with |- WF R ?X /\ _ => replace X with (glue g h4 tn0 tn1) end.
    - split.
      + eapply glue_WF; eauto.
      + intros w. rewrite <- D4. eapply glue_den; eauto.
    - unfold glue, glueU, upd_node, remove_node. simpl. rewrite map_map. reflexivity.
  Qed.

  Section WithSimplify.
    (* the contract of simplify (proved in Proofs/RewritesSimplify*.v) *)
    Hypothesis Hsimp : forall g g' : graph, WF R g -> simplify g = Some g' ->
      WF R g' /\ (forall w, den g' w = den g w).

    Lemma add_spec (g h g' : graph) sn se :
      WF R g -> WF R h -> g_t0 g <> g_t1 g -> g_t0 h <> g_t1 h -> SameLength g h ->
      is_enum_inter sn (nids R g) (nids R h) = true -> is_enum_inter se (eids R g) (eids R h) = true ->
      add g h sn se = Some g' ->
      WF R g' /\ (forall w, den g' w = kadd R (den g w) (den h w)).
    Proof.
      intros Wg Wh Tg Th SL Esn Ese H. unfold add in H.
      destruct (add_nosimp g h sn se) as [g1|] eqn:E; [|discriminate].
      destruct (add_nosimp_spec g h g1 sn se Wg Wh Tg Th SL Esn Ese E) as [W1 D1].
      destruct (Hsimp g1 g' W1 H) as [W' D']. split; [exact W'|].
      intros w. rewrite D', D1. reflexivity.
    Qed.
  End WithSimplify.

End AddProofs.

(* the hypotheses of add_nosimp_spec are satisfiable on colliding ids: two chains of length 2 with the same
   node ids {0,1,2} and edge ids {0,1} *)
Module AddExample.
  Definition gA : graph Zring :=
    @mkgraph Zring [mknode 0 [] [0] 0; mknode 1 [0] [1] 0; mknode 2 [1] [] 0]
      [@mkedge Zring 0 0 1 [(0, 1)]; @mkedge Zring 1 1 2 [(1, 1)]] 0 2.
  Definition gB : graph Zring :=
    @mkgraph Zring [mknode 0 [] [0] 0; mknode 1 [0] [1] 0; mknode 2 [1] [] 0]
      [@mkedge Zring 0 0 1 [(2, 1)]; @mkedge Zring 1 1 2 [(3, 5)]] 0 2.
  Example add_hyps_bool :
    wfb gA = true /\ wfb gB = true /\
    is_enum_inter [2; 0; 1] (nids Zring gA) (nids Zring gB) = true /\
    is_enum_inter [1; 0] (eids Zring gA) (eids Zring gB) = true /\
    match add_nosimp gA gB [2; 0; 1] [1; 0] with
    | Some g' => wfb g' && (Z.of_nat (length (g_nodes g')) =? 4) && (Z.of_nat (length (g_edges g')) =? 4)
    | None => false
    end = true.
  Proof. vm_compute. repeat split. Qed.
  Example add_hyps_SameLength : SameLength Zring gA gB.
  Proof.
    exists (fun x => x), (fun x => x). split; [|split].
    - intros e [<-|[<-|[]]]; reflexivity.
    - intros e [<-|[<-|[]]]; reflexivity.
    - reflexivity.
  Qed.
  Example add_example_spec : forall g', add_nosimp gA gB [2; 0; 1] [1; 0] = Some g' ->
    WF Zring g' /\ (forall w, den g' w = kadd Zring (den gA w) (den gB w)).
  Proof.
    intros g'. destruct add_hyps_bool as [A [B [C [D _]]]].
    apply add_nosimp_spec; try assumption; try (apply wfb_WF; assumption); try (simpl; lia).
    apply add_hyps_SameLength.
  Qed.
End AddExample.

Print Assumptions add_nosimp_spec.
Print Assumptions add_spec.
