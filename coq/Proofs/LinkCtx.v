(* Link 4a: what the mixed-canonical invariant Z of the sweep proofs (Proofs/SweepsInv.v) gives for the local problem at the
   centre: shapes of the environment blocks and of the MPO tensor, and self-adjointness of the effective Hamiltonian
   w.r.t. site_dot when the MPO is Hermitian (C04_heff_hermitian). *)
From Coq Require Import ZArith Arith List Lia Ring Field Setoid Bool.
From PT Require Import Base.Scalar Base.Field Base.BigSum Base.Mx Model.Tensor Model.Operation Model.Sweeps
  Proofs.OperationSums Proofs.OperationEntries Proofs.OperationChains Proofs.OperationTransfer Proofs.OperationLocal Proofs.OperationUniform
  Proofs.SweepsCanon Proofs.SweepsLocal Proofs.SweepsInv Proofs.LinkFlatten.
Import ListNotations.

Section Ctx.
  Variable F : ofield.
  Notation K := (Cx F).
  Add Ring Kring_lctx : (k_rt (Cx F)).
  Notation site := (site K).
  Notation osite := (osite K).
  Variable Hs : list osite.
  Variable d : nat.
  Variable DsW : list nat.
  Hypothesis Hd : 0 < d.
  Hypothesis HWs : ochain_ok (repeat d (length Hs)) DsW Hs.
  Hypothesis HhW : hd 0 DsW = 1.
  Notation L := (length Hs).

  (* Hermiticity of the MPO in the sense of C04: <w|O|w'> = conj <w'|O|w> for all words *)
  Definition mpo_herm : Prop :=
    forall w w', In w (words d L) -> In w' (words d L) -> opamp Hs w w' = kconj K (opamp Hs w' w).

  Lemma k1_neq_k0 : k1 K <> k0 K.
  Proof. intros E. apply (f_equal fst) in E. cbn in E. exact (F_1_neq_0 (f_ft F) E). Qed.

  Theorem Z_local_ctx (st : sw K) i : Z K Hs d st i ->
    exists Dl Dr Dwl Dwr, 0 < Dwl /\ 0 < Dwr /\ osite_ok d Dwl Dwr (nth i Hs []) /\
      env_ok Dwl Dl Dl (gBL st i) /\ env_ok Dwr Dr Dr (gBR st i) /\ site_ok d Dl Dr (gA st i) /\
      NN K Hs d (s_A st) = site_dot (gA st i) (gA st i) /\
      (mpo_herm -> local_sa F d Dl Dr (apply_local_hamiltonian (gBL st i) (gBR st i) (nth i Hs []))).
  Proof.
    intros HZ. destruct (Z_center K Hs d DsW Hd HWs HhW st i HZ) as (Dl0 & Dr0 & HX0 & N0 & _ & _).
    destruct HZ as (Al & X & Ar & DsAl & Dar & DsAr & EA & Hlen & HL & HAl & Hh & HX & HAr & Hli & Hri & HBL & HBR & lBL & lBR).
    subst i.
    destruct (ochain_split K d DsW Hd HhW (length Al) Hs DsW HWs ltac:(lia)) as (Wl & W & Wr & DsWl & Dwr & DsWr & EH & Hl & HWl & HhWl & HDwr & HW & HWr).
    assert (HlenWr : length Wr = length Ar).
    { pose proof (f_equal (@length _) EH) as E. rewrite app_length in E. cbn [length] in E. lia. }
    rewrite HhW in HhWl. rewrite HlenWr in HWr.
    assert (HWl' : ochainx_ok (repeat d (length Al)) DsWl Wl) by (first [exact HWl | rewrite <- Hl; exact HWl]).
    assert (F1 : firstn (length Al) Hs = Wl) by (rewrite EH, <- Hl; apply firstn_app_exact).
    assert (F2 : skipn (S (length Al)) Hs = Wr) by (rewrite EH, <- Hl; apply skipn_S_app_exact).
    assert (F3 : nth (length Al) Hs [] = W) by (rewrite EH, <- Hl; apply nth_middle).
    assert (GA : gA st (length Al) = X) by (unfold gA; rewrite EA; apply nth_middle).
    assert (GL : gBL st (length Al) = BLof Al Wl) by (rewrite (HBL (length Al)) by lia; rewrite firstn_all, F1; reflexivity).
    assert (GR : gBR st (length Al) = BRof Ar Wr).
    { pose proof (HBR 0 ltac:(lia)) as E. rewrite Nat.add_0_r in E. rewrite E, F2. reflexivity. }
    rewrite F3, GA, GL, GR in *.
    assert (HDwl : 0 < last DsWl 0). { apply (ochainx_last_pos K Wl (repeat d (length Al))); [exact HWl'|]. rewrite HhWl. lia. }
    exists (last DsAl 0), Dar, (last DsWl 0), Dwr.
    split; [exact HDwl|]. split; [exact HDwr|]. split; [exact HW|].
    assert (EBL : env_ok (last DsWl 0) (last DsAl 0) (last DsAl 0) (BLof Al Wl)).
    { unfold BLof. rewrite env_one_id. apply (lfoldx_shape K Al Al Wl (repeat d (length Al))); try assumption.
      rewrite Hh, HhWl. apply env_id_ok. }
    assert (EBR : env_ok Dwr Dar Dar (BRof Ar Wr)).
    { unfold BRof. rewrite env_one_id. apply (rfold_shape K (repeat d (length Ar)) (Dar :: DsAr) (Dar :: DsAr) (Dwr :: DsWr)); assumption. }
    split; [exact EBL|]. split; [exact EBR|]. split; [exact HX|]. split; [exact N0|].
    intros Hherm X' Y' HX' HY'.
    apply (heff_hermitian K Al Ar Wl Wr X' Y' W (repeat d (length Al)) (repeat d (length Ar)) d (last DsAl 0) Dar (last DsWl 0) Dwr DsAl DsWl DsAr DsWr);
      try assumption; try reflexivity.
    rewrite words_glue, HL, <- EH. exact Hherm.
  Qed.
End Ctx.
