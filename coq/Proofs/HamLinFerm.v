(* C06 (c): the hand-wired graph of linear_fermionic_mpo denotes  sum_i coeff_i I^i (C|A) Z^(L-1-i)  for every L >= 1
   and every coefficient list (zero coefficients included). *)
From Coq Require Import ZArith List Lia Bool Ring.
From PT Require Import Base.Scalar Base.BigSum Base.Mx Model.OpGraph Model.FromOpchains Model.GraphMPO Model.Hamiltonians Model.HamFormulas.
Import ListNotations.
Open Scope Z_scope.

Lemma find_map_seq {A} (key : A -> Z) (f : nat -> A) : (forall i, key (f i) = Z.of_nat i) ->
  forall n s k, (s <= k < s + n)%nat -> find (fun a => key a =? Z.of_nat k) (map f (seq s n)) = Some (f k).
Proof.
  intros Hk. induction n as [|n IH]; intros s k H; [lia|]. cbn [seq map find]. rewrite Hk.
  destruct (Z.of_nat s =? Z.of_nat k) eqn:E.
  - apply Z.eqb_eq in E. apply Nat2Z.inj in E. subst. reflexivity.
  - apply Z.eqb_neq in E. apply IH. assert (s <> k) by (intros ->; apply E; reflexivity). lia.
Qed.

Section LinFerm.
  Variable R : cring.
  Add Ring Rring_lf : (k_rt R).
  Notation "0r" := (k0 R). Notation "1r" := (k1 R).
  Infix "+r" := (kadd R) (at level 50, left associativity).
  Infix "*r" := (kmul R) (at level 40, left associativity).
  Variable coeff : list R.
  Variable create : bool.
  Let L := length coeff.
  Hypothesis L1 : (1 <= L)%nat.
  Let g := linferm_graph coeff create.
  Let oid := lf_oid create.

  Lemma lf_node_id k : n_id (lf_node L create k) = Z.of_nat k.
  Proof. unfold lf_node. destruct (Nat.ltb k L); reflexivity. Qed.
  Lemma lf_edge_id k : e_id (lf_edge L create coeff k) = Z.of_nat k.
  Proof. unfold lf_edge. destruct (Nat.ltb k (L - 1)); [reflexivity|]. destruct (Nat.ltb k (2 * L - 2)); reflexivity. Qed.

  Lemma lf_find_node k : (k < 2 * L)%nat -> find_node g (Z.of_nat k) = Some (lf_node L create k).
  Proof.
    intros H. unfold find_node, g, linferm_graph. cbn [g_nodes]. fold L.
    apply (find_map_seq n_id (lf_node L create) lf_node_id). lia.
  Qed.
  Lemma lf_find_edge k : (k < 3 * L - 2)%nat -> find_edge g (Z.of_nat k) = Some (lf_edge L create coeff k).
  Proof.
    intros H. unfold find_edge, g, linferm_graph. cbn [g_edges]. fold L.
    apply (find_map_seq (@e_id R) (lf_edge L create coeff) lf_edge_id). lia.
  Qed.

  (* out-edges of the nodes *)
  Lemma out_idl_inner k : (S k < L)%nat ->
    out_edges g (Z.of_nat k) = [mkedge (Z.of_nat k) (Z.of_nat k) (Z.of_nat (S k)) [(0, 1r)];
                                mkedge (Z.of_nat (2 * L - 2 + k)) (Z.of_nat k) (Z.of_nat (L + k)) [(oid, nth k coeff 0r)]].
  Proof.
    intros H. unfold out_edges. rewrite lf_find_node by lia. unfold lf_node.
    destruct (Nat.ltb k L) eqn:E1; [|apply Nat.ltb_ge in E1; lia].
    destruct (Nat.ltb (S k) L) eqn:E2; [|apply Nat.ltb_ge in E2; lia]. cbn [n_out app].
    replace (2 * Z.of_nat L - 2 + Z.of_nat k) with (Z.of_nat (2 * L - 2 + k)) by lia.
    unfold edges_of. cbn [flat_map]. rewrite !lf_find_edge by lia. cbn [app].
    unfold lf_edge.
    destruct (Nat.ltb k (L - 1)) eqn:E3; [|apply Nat.ltb_ge in E3; lia].
    destruct (Nat.ltb (2 * L - 2 + k) (L - 1)) eqn:E4; [apply Nat.ltb_lt in E4; lia|].
    destruct (Nat.ltb (2 * L - 2 + k) (2 * L - 2)) eqn:E5; [apply Nat.ltb_lt in E5; lia|].
    replace (2 * L - 2 + k - (2 * L - 2))%nat with k by lia.
    f_equal; [f_equal; lia|]. f_equal. f_equal; lia.
  Qed.
  Lemma out_idl_last : out_edges g (Z.of_nat (L - 1)) =
    [mkedge (Z.of_nat (2 * L - 2 + (L - 1))) (Z.of_nat (L - 1)) (Z.of_nat (L + (L - 1))) [(oid, nth (L - 1) coeff 0r)]].
  Proof.
    unfold out_edges. rewrite lf_find_node by lia. unfold lf_node.
    destruct (Nat.ltb (L - 1) L) eqn:E1; [|apply Nat.ltb_ge in E1; lia].
    destruct (Nat.ltb (S (L - 1)) L) eqn:E2; [apply Nat.ltb_lt in E2; lia|]. cbn [n_out app].
    replace (2 * Z.of_nat L - 2 + Z.of_nat (L - 1)) with (Z.of_nat (2 * L - 2 + (L - 1))) by lia.
    unfold edges_of. cbn [flat_map]. rewrite !lf_find_edge by lia. cbn [app].
    unfold lf_edge.
    destruct (Nat.ltb (2 * L - 2 + (L - 1)) (L - 1)) eqn:E4; [apply Nat.ltb_lt in E4; lia|].
    destruct (Nat.ltb (2 * L - 2 + (L - 1)) (2 * L - 2)) eqn:E5; [apply Nat.ltb_lt in E5; lia|].
    replace (2 * L - 2 + (L - 1) - (2 * L - 2))%nat with (L - 1)%nat by lia.
    f_equal. f_equal; lia.
  Qed.
  Lemma out_z_inner k : (L <= k)%nat -> (S k < 2 * L)%nat ->
    out_edges g (Z.of_nat k) = [mkedge (Z.of_nat (k - 1)) (Z.of_nat k) (Z.of_nat (S k)) [(2, 1r)]].
  Proof.
    intros H1 H2. unfold out_edges. rewrite lf_find_node by lia. unfold lf_node.
    destruct (Nat.ltb k L) eqn:E1; [apply Nat.ltb_lt in E1; lia|].
    destruct (Nat.ltb (S k) (2 * L)) eqn:E2; [|apply Nat.ltb_ge in E2; lia]. cbn [n_out].
    replace (Z.of_nat k - 1) with (Z.of_nat (k - 1)) by lia.
    unfold edges_of. cbn [flat_map]. rewrite !lf_find_edge by lia. cbn [app].
    unfold lf_edge.
    destruct (Nat.ltb (k - 1) (L - 1)) eqn:E3; [apply Nat.ltb_lt in E3; lia|].
    destruct (Nat.ltb (k - 1) (2 * L - 2)) eqn:E4; [|apply Nat.ltb_ge in E4; lia].
    f_equal. f_equal; lia.
  Qed.
  Lemma out_z_last : out_edges g (Z.of_nat (2 * L - 1)) = [].
  Proof.
    unfold out_edges. rewrite lf_find_node by lia. unfold lf_node.
    destruct (Nat.ltb (2 * L - 1) L) eqn:E1; [apply Nat.ltb_lt in E1; lia|].
    destruct (Nat.ltb (S (2 * L - 1)) (2 * L)) eqn:E2; [apply Nat.ltb_lt in E2; lia|]. reflexivity.
  Qed.

  Lemma coeff_single o x (c : R) : opics_coeff o [(x, c)] = (if x =? o then c else 0r).
  Proof. unfold opics_coeff. cbn. destruct (x =? o); ring. Qed.
  Lemma g_t1_eq : g_t1 g = Z.of_nat (2 * L - 1).
  Proof. unfold g, linferm_graph. cbn [g_t1]. fold L. lia. Qed.

  Lemma zeqb_repeat0 n : zlist_eqb (repeat 2 n) [] = Nat.eqb n 0.
  Proof. destruct n; reflexivity. Qed.

  (* the Z string: from z_string_r node k only the word Z^(2L-1-k) reaches the end *)
  Lemma z_den : forall w k, (L <= k < 2 * L)%nat ->
    den_from g w (Z.of_nat k) = indb (zlist_eqb (repeat 2 (2 * L - 1 - k)) w).
  Proof.
    induction w as [|o w IH]; intros k Hk.
    - cbn [den_from]. rewrite g_t1_eq, zeqb_repeat0.
      destruct (Z.of_nat k =? Z.of_nat (2 * L - 1)) eqn:E.
      + apply Z.eqb_eq in E. apply Nat2Z.inj in E. replace (2 * L - 1 - k)%nat with 0%nat by lia. reflexivity.
      + apply Z.eqb_neq in E. destruct (Nat.eqb (2 * L - 1 - k) 0) eqn:E2; [|reflexivity].
        apply Nat.eqb_eq in E2. exfalso. apply E. f_equal. lia.
    - cbn [den_from]. destruct (Nat.eq_dec k (2 * L - 1)) as [->|Hne].
      + rewrite out_z_last. replace (2 * L - 1 - (2 * L - 1))%nat with 0%nat by lia. reflexivity.
      + rewrite out_z_inner by lia. cbn [suml e_opics e_to]. rewrite coeff_single, IH by lia.
        replace (2 * L - 1 - k)%nat with (S (2 * L - 1 - S k)) by lia. cbn [repeat zlist_eqb].
        destruct (2 =? o); cbn [andb indb]; ring.
  Qed.

  (* the words reaching the end from identity_l node k *)
  Definition F (k : nat) (w : list Z) : R :=
    sumn (L - k) (fun j => nth (k + j) coeff 0r *r indb (zlist_eqb (repeat 0 j ++ [oid] ++ repeat 2 (L - 1 - (k + j))) w)).

  Lemma idl_den : forall m k w, (k + m = L - 1)%nat -> den_from g w (Z.of_nat k) = F k w.
  Proof.
    induction m as [|m IH]; intros k w Hk.
    - assert (k = L - 1)%nat by lia. subst k. unfold F. replace (L - (L - 1))%nat with 1%nat by lia. cbn [sumn].
      rewrite Nat.add_0_r. replace (L - 1 - (L - 1))%nat with 0%nat by lia. cbn [repeat app].
      destruct w as [|o w]; cbn [den_from].
      + rewrite g_t1_eq. destruct (Z.of_nat (L - 1) =? Z.of_nat (2 * L - 1)) eqn:E; [apply Z.eqb_eq in E; lia|]. cbn. ring.
      + rewrite out_idl_last. cbn [suml e_opics e_to]. rewrite coeff_single, z_den by lia.
        replace (2 * L - 1 - (L + (L - 1)))%nat with 0%nat by lia. cbn [repeat zlist_eqb].
        destruct (oid =? o); cbn [andb indb]; destruct w; cbn [zlist_eqb indb]; ring.
    - unfold F. replace (L - k)%nat with (1 + (L - S k))%nat by lia. rewrite sumn_app. cbn [sumn].
      rewrite Nat.add_0_r. cbn [repeat app].
      destruct w as [|o w]; cbn [den_from].
      + rewrite g_t1_eq. destruct (Z.of_nat k =? Z.of_nat (2 * L - 1)) eqn:E; [apply Z.eqb_eq in E; lia|]. cbn [zlist_eqb indb].
        rewrite (sumn_zero R). { ring. } intros j _. cbn. ring.
      + rewrite out_idl_inner by lia. cbn [suml e_opics e_to]. rewrite !coeff_single.
        rewrite (IH (S k) w ltac:(lia)), z_den by lia. unfold F.
        replace (2 * L - 1 - (L + k))%nat with (L - 1 - k)%nat by lia. cbn [zlist_eqb].
        rewrite <- sumn_scal_l.
        assert (E : sumn (L - S k) (fun j => (if 0 =? o then 1r else 0r) *r
                       (nth (S k + j) coeff 0r *r indb (zlist_eqb (repeat 0 j ++ [oid] ++ repeat 2 (L - 1 - (S k + j))) w))) =
                    sumn (L - S k) (fun i => nth (k + (1 + i)) coeff 0r *r
                       indb (zlist_eqb (repeat 0 (1 + i) ++ oid :: repeat 2 (L - 1 - (k + (1 + i)))) (o :: w)))).
        { apply sumn_ext. intros j _. replace (k + (1 + j))%nat with (S k + j)%nat by lia. cbn [plus repeat app zlist_eqb].
          destruct (0 =? o); cbn [andb indb]; ring. }
        rewrite E. destruct (oid =? o); cbn [andb indb]; ring.
  Qed.

  Theorem linferm_den w : den g w = linferm_formula coeff oid w.
  Proof.
    unfold den. replace (g_t0 g) with (Z.of_nat 0) by reflexivity. rewrite (idl_den (L - 1) 0 w ltac:(lia)).
    unfold F, linferm_formula, jw_word. fold L. rewrite Nat.sub_0_r. apply sumn_ext. intros j _. reflexivity.
  Qed.
End LinFerm.
