(* C09 exactness -- the natural complete bond profile  Ds j = min(d^j, d^(L-j))  (no quantum numbers: every bond has the full
   dimension allowed by the two halves of the chain) meets the hypotheses of the exactness theorems for every L >= 2:
   it is a [complete_profile] with split site m = (L-1)/2, the complete pair (m, m+1) lies inside the chain (S m < L), and at every
   pair (i, i+1) the bond dimension in the middle is  min(d * Ds i, d * Ds (i+2)) = the number of singular values of the merged
   (d*Ds i) x (d*Ds (i+2)) matrix, i.e. what split_mps_tensor keeps at tol = 0: the "kept bond has full dimension" clause of
   [split_full] is what the code does on this profile. *)
From Coq Require Import ZArith Arith List Lia.
From PT Require Import Base.Scalar Base.BigSum Base.Mx Model.Tensor Model.Operation Model.Sweeps Proofs.ReverseDefs Proofs.ExactDefs.
Import ListNotations.
Open Scope nat_scope.

Definition minDs (d L j : nat) : nat := Nat.min (d ^ j) (d ^ (L - j)).

Section Profile.
  Variable R : cring.
  Variable Hs : list (osite R).
  Variable d : nat.
  Hypothesis Hd : 0 < d.
  Notation L := (length Hs).

  Lemma pow_mono a b : a <= b -> d ^ a <= d ^ b.
  Proof. intros H. apply Nat.pow_le_mono_r; lia. Qed.
  Lemma min_lo j : j <= L - j -> minDs d L j = d ^ j.
  Proof. intros H. unfold minDs. apply Nat.min_l. apply pow_mono. exact H. Qed.
  Lemma min_hi j : L - j <= j -> minDs d L j = d ^ (L - j).
  Proof. intros H. unfold minDs. apply Nat.min_r. apply pow_mono. exact H. Qed.

  Theorem min_profile_complete : 2 <= L ->
    let m := (L - 1) / 2 in
    complete_profile Hs d (minDs d L) m /\ S m < L /\
    forall i, S i < L -> minDs d L (S i) = Nat.min (d * minDs d L i) (d * minDs d L (S (S i))).
  Proof.
    intros HL m.
    assert (Hm : 2 * m <= L - 1 /\ L - 1 <= 2 * m + 1).
    { unfold m. pose proof (Nat.div_mod (L - 1) 2 ltac:(lia)) as E. pose proof (Nat.mod_upper_bound (L - 1) 2 ltac:(lia)) as B. lia. }
    split; [|split].
    - split; [|split; [|split; [|split]]].
      + rewrite min_lo by lia. reflexivity.
      + rewrite min_hi by lia. replace (L - L) with 0 by lia. reflexivity.
      + lia.
      + intros j Hj. rewrite (min_lo j) by lia. rewrite (min_lo (S j)) by lia. rewrite Nat.pow_succ_r'. reflexivity.
      + intros j Hj. rewrite (min_hi j) by lia. rewrite (min_hi (S j)) by lia.
        replace (L - j) with (S (L - S j)) by lia. rewrite Nat.pow_succ_r'. reflexivity.
    - lia.
    - intros i Hi. unfold minDs. rewrite <- !Nat.mul_min_distr_l. rewrite <- !Nat.pow_succ_r'.
      replace (S (L - S (S i))) with (L - S i) by lia.
      pose proof (pow_mono (S i) (S (S (S i))) ltac:(lia)) as H1.
      pose proof (pow_mono (L - S i) (S (L - i)) ltac:(lia)) as H2.
      lia.
  Qed.
End Profile.
