(* C07 (b), all L -- part 4: spin orbitals.  [to_spin_word]: whenever to_spin_opchain's model accepts a skeleton on 2 L
   fermionic modes, the padded site word of the result is the mode word with the letters of modes (2 m, 2 m + 1) paired
   through oid_single_pair_map ([zp]); the formula side reads its words through the same pairing ([spin_ids_zp]). *)
From Coq Require Import ZArith List Lia Bool Arith.
From PT Require Import Base.Scalar Base.BigSum Model.OpGraph Model.FromOpchains Model.Molecular Model.MolFormula
                       Proofs.MolOpt Proofs.MolAllL1.
Import ListNotations.
Open Scope nat_scope.

Definition zletter (a b : Z) : Z :=
  match pair_oid a b with Some o => o | None => (100 + 10 * (a + 1) + (b + 1))%Z end.
Fixpoint zp (l : list Z) : list Z := match l with a :: b :: r => zletter a b :: zp r | _ => [] end.

Lemma spin_ids_zp : forall u, spin_ids u = zp (mol_ids u).
Proof.
  fix IH 1. intros [|a [|b r]]; cbn [spin_ids mol_ids map zp]; try reflexivity.
  f_equal. apply IH.
Qed.

Lemma zp_rep0 a y : zp (repeat 0%Z (2 * a) ++ y) = repeat 0%Z a ++ zp y.
Proof.
  induction a as [|a IH]; [reflexivity|]. replace (2 * S a) with (S (S (2 * a))) by lia.
  cbn [repeat app zp]. rewrite IH. reflexivity.
Qed.
Lemma zp_rep0_nil a : zp (repeat 0%Z (2 * a)) = repeat 0%Z a.
Proof. rewrite <- (app_nil_r (repeat 0%Z (2 * a))), zp_rep0. cbn [zp]. apply app_nil_r. Qed.

Lemma zp_pair_up m : forall x so r, length x = 2 * m -> pair_up x = Ok so ->
  zp (x ++ repeat 0%Z (2 * r)) = so ++ repeat 0%Z r /\ length so = m.
Proof.
  induction m as [|m IH]; intros x so r Hl Hp.
  - destruct x; [|discriminate]. cbn in Hp. inversion Hp; subst. cbn [app]. split; [apply zp_rep0_nil|reflexivity].
  - destruct x as [|a [|b x]]; try (cbn in Hl; lia).
    cbn [pair_up] in Hp. unfold zletter. cbn [app zp]. unfold zletter.
    destruct (pair_oid a b) as [o|]; [|discriminate].
    destruct (pair_up x) as [t|e] eqn:Et; [|discriminate]. cbn [bind] in Hp. inversion Hp; subst so.
    destruct (IH x t r) as [E1 E2]; [cbn [length] in Hl; lia | exact Et |].
    cbn [app length]. rewrite E1, E2. split; reflexivity.
Qed.

Lemma odd_cases n : (Nat.odd n = false /\ exists a, n = 2 * a) \/ (Nat.odd n = true /\ exists a, n = 2 * a + 1).
Proof.
  destruct (Nat.odd n) eqn:E; [right|left]; split; auto.
  - apply Nat.odd_spec in E. exact E.
  - assert (Ev : Nat.even n = true) by (rewrite <- Nat.negb_odd, E; reflexivity).
    apply Nat.even_spec in Ev. exact Ev.
Qed.
Lemma div2_even a : (2 * a) / 2 = a.
Proof. rewrite Nat.mul_comm. apply Nat.div_mul. lia. Qed.

(* padding of a chain to site boundaries *)
Lemma pad_start_even a (o : list Z) : repeat 0%Z (2 * a + 1) ++ o = repeat 0%Z (2 * a) ++ 0%Z :: o.
Proof. rewrite repeat_app, <- app_assoc. reflexivity. Qed.

Theorem to_spin_word L s s' : to_spin_skel s = Ok s' -> k_istart s + length (k_oids s) <= 2 * L ->
  skel_word L s' = zp (skel_word (2 * L) s).
Proof.
  unfold to_spin_skel. intros H Hfit.
  destruct (negb (hd 0 (k_qnums s) =? 0)%Z); [discriminate|].
  destruct (negb (last (k_qnums s) 0 =? 0)%Z); [discriminate|].
  (* normal form: istart1 = 2 a, oids2 of length 2 m *)
  assert (Hn : exists a x m, length x = 2 * m /\ a + m <= L /\
             skel_word (2 * L) s = repeat 0%Z (2 * a) ++ x ++ repeat 0%Z (2 * (L - m - a)) /\
             (let '(oids1, qnums1, istart1) :=
                if Nat.odd (k_istart s) then (oI :: k_oids s, 0%Z :: k_qnums s, k_istart s - 1)
                else (k_oids s, k_qnums s, k_istart s) in
              let '(oids2, qnums2) :=
                if Nat.odd (length oids1) then (oids1 ++ [oI], qnums1 ++ [0%Z]) else (oids1, qnums1) in
              oids2 = x /\ istart1 / 2 = a)).
  { unfold skel_word. clear H. generalize dependent (k_oids s). generalize dependent (k_istart s). intros ist o Hfit.
    destruct (odd_cases ist) as [[Eo [a Ha]]|[Eo [a Ha]]]; rewrite Eo.
    - destruct (odd_cases (length o)) as [[El [m Hm]]|[El [m Hm]]]; rewrite El.
      + exists a, o, m. repeat split; try lia.
        * rewrite Ha, Hm. do 2 f_equal. f_equal. lia.
        * rewrite Ha. apply div2_even.
      + exists a, (o ++ [oI]), (m + 1). repeat split.
        * rewrite app_length. cbn [length]. lia.
        * lia.
        * rewrite Ha, Hm, <- app_assoc. do 2 f_equal. cbn [app].
          replace (2 * L - (2 * m + 1) - 2 * a) with (S (2 * (L - (m + 1) - a))) by lia. reflexivity.
        * rewrite Ha. apply div2_even.
    - assert (Ei : ist - 1 = 2 * a) by lia.
      destruct (odd_cases (length (oI :: o))) as [[El [m Hm]]|[El [m Hm]]]; rewrite El.
      + exists a, (oI :: o), m. repeat split; try exact Hm; try (cbn [length] in Hm; lia).
        * rewrite Ha, pad_start_even. cbn [length] in Hm. cbn [app]. do 4 f_equal. lia.
        * rewrite Ei. apply div2_even.
      + exists a, ((oI :: o) ++ [oI]), (m + 1). cbn [length] in Hm. repeat split.
        * rewrite app_length. cbn [length]. lia.
        * lia.
        * rewrite Ha, pad_start_even, <- app_assoc. cbn [app]. do 3 f_equal.
          replace (2 * L - length o - (2 * a + 1)) with (S (2 * (L - (m + 1) - a))) by lia. reflexivity.
        * rewrite Ei. apply div2_even. }
  destruct Hn as [a [x [m [Hl [Ham [Hw Hx]]]]]].
  destruct (if Nat.odd (k_istart s) then _ else _) as [[oids1 qnums1] istart1].
  destruct (if Nat.odd (length oids1) then _ else _) as [oids2 qnums2].
  destruct Hx as [-> <-].
  destruct (pair_up x) as [so|e] eqn:Ep; [|discriminate]. cbn [bind] in H.
  destruct (negb _); [discriminate|]. inversion H; subst s'. clear H.
  unfold skel_word at 1. cbn [k_oids k_istart].
  rewrite Hw, zp_rep0. destruct (zp_pair_up m x so (L - m - (istart1 / 2)) Hl Ep) as [E1 E2].
  rewrite E1, E2. reflexivity.
Qed.
