(* C02, round 2: the Tdvp / Dmrg steps (single-site) of the history state machine, instantiated with the sweep models of
   Model/Sweeps.v, meet their oracle hypothesis [oracle_ok_at] relative to the per-call sparsity contracts of
   Proofs/Hist2Sweep.v; these contracts are theorems for the Krylov-based local solvers whenever the call returns
   (Proofs/Hist2Solvers.v), for bond_ops.qr by C11, and the facts about psi.orthonormalize(mode='right') by C01. *)
From Coq Require Import ZArith List Lia Bool Arith Ring.
From PT Require Import Base.Scalar Base.Field Base.BigSum Base.Mx Model.Tensor Model.MPSOps Model.BondOps Model.Operation Model.Krylov Model.Sweeps.
From PT Require Import Model.Orthonormalize Model.History.
From PT Require Import Proofs.MPSOpsBase Proofs.MPSOpsTop Proofs.MPSOpsShape Proofs.OperationSums Proofs.OperationEntries.
From PT Require Import Proofs.SweepsFlow Proofs.SweepsRun Proofs.LinkFlatten Proofs.LinkLocalOps Proofs.LinkSolvers.
From PT Require Import Proofs.BondOpsSpec Proofs.OrthDefs Proofs.OrthQRExtra Proofs.OrthSweep Proofs.OrthTop Proofs.OrthRight.
From PT Require Import Proofs.HistSparse Proofs.HistChain Proofs.HistInv Proofs.HistOrth.
From PT Require Import Proofs.Hist2Local Proofs.Hist2Krylov Proofs.Hist2Solvers Proofs.Hist2Sweep Proofs.Hist2Dmrg.
Import ListNotations.
Open Scope nat_scope.

(* ---------- calculate_ground_state_local_singlesite: the returned (A, qD) satisfy the invariant of C02 ---------- *)
Theorem dmrg1_mps_ok (R : cring) orth qr keig (H : mpo R) (psi : mps R) n A qD ens tr :
  dmrg_singlesite orth qr keig H psi n = Some (A, qD, ens, tr) ->
  mpo_ok H = true -> o_qd H = m_qd psi -> Forall (fun q => 0 < length q) (o_qD H) ->
  hd [] (o_qD H) = [0%Z] -> last (o_qD H) [] = [0%Z] ->
  0 < length (m_qd psi) -> m_qd (fst (orth psi)) = m_qd psi -> mps_ok (fst (orth psi)) = true ->
  length (hd [] (m_qD (fst (orth psi)))) = 1 -> length (last (m_qD (fst (orth psi))) []) = 1 ->
  sp_tr_ok R qr (fun _ _ _ _ X _ => X) (fun _ _ _ C _ => C) keig (o_A H) (m_qd psi) (o_qD H) (k0 R) (k0 R) (rev tr) ->
  mps_ok (mkmps (m_qd psi) qD A) = true.
Proof.
  intros Hrun HokH Eqd Hpos Hh0 Hl0 Hd Eqd1 Hok1 Hh1 Hl1 Hok.
  unfold dmrg_singlesite in Hrun. destruct (sweep_init orth H psi) as [[st nrm']|] eqn:Einit; [|discriminate].
  destruct (dmrg_loop (dmrg1_sweep qr keig (o_A H) (m_qd psi) (length (o_A H))) n st []) as [st' ens'] eqn:El.
  injection Hrun as <- <- <- <-. rewrite rev_involutive in Hok.
  apply mpo_ok_P in HokH. rewrite Eqd in HokH.
  assert (HWpos : forall j, j <= length (o_A H) -> 0 < length (nth j (o_qD H) [])).
  { intros j Hj. rewrite Forall_forall in Hpos. apply Hpos. apply nth_In. rewrite (chainP_length _ _ _ _ HokH). lia. }
  assert (HW0 : nth 0 (o_qD H) [] = [0%Z]).
  { destruct (o_qD H) as [|w0 ws]; [discriminate Hh0|]. exact Hh0. }
  destruct (ZQ_init R (m_qd psi) Hd (o_A H) (o_qD H) orth H psi st nrm' HokH HWpos HW0 Einit eq_refl eq_refl Hl0 Eqd1 Hok1 Hh1 Hl1)
    as (HZ & HB0 & _ & _).
  assert (HL1 : 1 <= length (o_A H)).
  { unfold sweep_init in Einit. destruct (negb _); [discriminate|]. destruct (orth psi) as [psi1 n1].
    destruct (compute_right_operator_blocks psi1 H) as [BR|] eqn:EB; [|discriminate].
    unfold compute_right_operator_blocks, compute_right_operator_blocks_sites in EB. destruct (negb _); [discriminate|].
    destruct (m_A psi1); [discriminate|]. destruct (o_A H); [discriminate|]. cbn [length]. lia. }
  apply (ZQ_mps_ok R (o_A H) (m_qd psi) (o_qD H) Hd _ 0).
  pose proof (dmrg_loop_sp R qr keig (o_A H) (m_qd psi) (o_qD H) Hd HokH HWpos HW0 n st [] HL1 HZ HB0) as Hrun.
  rewrite El in Hrun. cbn [fst] in Hrun. apply Hrun. exact Hok.
Qed.

(* ---------- the Krylov-based local solvers meet the per-call contracts whenever the call returns ---------- *)
Section LanczosContracts.
  Variable F : ofield.
  Notation K := (Cx F).
  Variable dnorm : list K -> F.
  Variable small : F -> bool.
  Variable deigh : list F -> list F -> list F * list (list F).
  Variable dexp : K -> K.
  Variable dexpm : list (list K) -> list (list K).
  Variable numiter : nat.
  Variable qr : nat -> mx K -> list Z -> list Z -> mx K * mx K * list Z.
  Variables (Hs : list (osite K)) (qd : list Z) (qWs : list (list Z)) (dt hdt : K).
  Notation kexpL := (kexp_lanczos F dnorm small deigh dexp dexpm numiter).
  Notation kexp0L := (kexp0_lanczos F dnorm small deigh dexp dexpm numiter).
  Notation keigL := (keig_lanczos F dnorm small deigh numiter).
  Hypothesis Hd : 0 < length qd.
  Hypothesis HWs : chainP (osite_okP K qd) qWs Hs.
  Hypothesis HWpos : forall j, j <= length Hs -> 0 < length (nth j qWs []).

  (* what remains to be assumed of a recorded call: solver calls return, QR calls meet C11's conclusion *)
  Definition lz_call_ok (p : nat) (t : tcall K) : Prop :=
    let i := c_site (t_call t) in
    let W := nth i Hs [] in
    let tm := tval dt hdt (c_coef (t_call t)) in
    match c_kind (t_call t), t_envs t, t_ten t, t_qs t with
    | KH, [BL; BR], [A], _ => i < length Hs /\ kexp_lanczos_returns F dnorm small deigh dexp dexpm numiter BL BR W A tm
    | EIG, [BL; BR], [A], _ => i < length Hs /\ keig_lanczos_returns F dnorm small deigh numiter BL BR W A
    | KB, [BL; BR], [[C]], _ => S i <= length Hs /\ kexp0_lanczos_returns F dnorm small deigh dexp dexpm numiter BL BR C tm
    | QR, _, [[M]], [q0; q1] => bond_okP K q0 q1 M -> qr_sp_ok K M q0 q1 (qr p M q0 q1)
    | _, _, _, _ => True
    end.

  Theorem lz_call_sp p t : lz_call_ok p t -> sp_call_ok K qr kexpL kexp0L keigL Hs qd qWs dt hdt p t.
  Proof.
    unfold lz_call_ok, sp_call_ok. cbv zeta.
    destruct (c_kind (t_call t)); try exact (fun _ => I);
      destruct (t_envs t) as [|BL [|BR [|? ?]]]; try exact (fun _ => I); try exact (fun H => H);
      destruct (t_ten t) as [|A [|? ?]]; try exact (fun _ => I); try exact (fun H => H).
    - (* KH *) intros [Hi Hret] ql qr' HA HL HR.
      apply (kexp_lanczos_okP F dnorm small deigh dexp dexpm numiter qd (nth (c_site (t_call t)) qWs []) (nth (S (c_site (t_call t))) qWs []) ql qr' BL BR
               (nth (c_site (t_call t)) Hs []) Hd (HWpos _ (Nat.lt_le_incl _ _ Hi)) (HWpos (S (c_site (t_call t))) Hi) (HW_at K Hs qd qWs HWs _ Hi) HL HR); assumption.
    - (* KB *) destruct A as [|C [|? ?]]; try exact (fun _ => I). intros [Hi Hret] ql qr' HC Hwf HL HR.
      apply (kexp0_lanczos_okP F dnorm small deigh dexp dexpm numiter (nth (S (c_site (t_call t))) qWs []) ql qr'); try assumption.
      apply HWpos. exact Hi.
    - (* EIG *) intros [Hi Hret] ql qr' HA HL HR.
      apply (keig_lanczos_okP F dnorm small deigh numiter qd (nth (c_site (t_call t)) qWs []) (nth (S (c_site (t_call t))) qWs []) ql qr' BL BR
               (nth (c_site (t_call t)) Hs []) Hd (HWpos _ (Nat.lt_le_incl _ _ Hi)) (HWpos (S (c_site (t_call t))) Hi) (HW_at K Hs qd qWs HWs _ Hi) HL HR); assumption.
  Qed.

  Fixpoint lz_tr_ok (tr : list (tcall K)) : Prop :=
    match tr with [] => True | t :: rest => lz_call_ok (length rest) t /\ lz_tr_ok rest end.
  Theorem lz_tr_sp tr : lz_tr_ok tr -> sp_tr_ok K qr kexpL kexp0L keigL Hs qd qWs dt hdt tr.
  Proof. induction tr as [|t tr IH]; [exact (fun H => H)|]. intros [H1 H2]. split; [apply lz_call_sp; exact H1|apply IH; exact H2]. Qed.
End LanczosContracts.

(* bond_ops.qr through the model of C11: the conclusion of C11_block_qr_spec gives the QR contract of the sweeps *)
Lemma qr_sp_of_C11 (R : cring) (M Q Rm : mx R) (q0 q1 qi : list Z) :
  bond_okP R q0 q1 M ->
  wf Rm -> nr Q = nr M -> nc Q = length qi -> nr Rm = length qi -> nc Rm = nc M -> 0 < length qi -> length qi <= Nat.min (nr M) (nc M) ->
  BondOpsLoop.qsp R Q q0 qi -> BondOpsLoop.qsp R Rm qi q1 ->
  wfb Rm = true -> qr_sp_ok R M q0 q1 (Q, Rm, qi).
Proof.
  intros (rM & cM & _) Hwf rQ cQ rR cR Hp Hle HQ HR Hwfb. unfold qr_sp_ok.
  split. { split; [congruence|]. split; [exact cQ|]. intros a b Ha Hb Hnz. specialize (HQ a b ltac:(lia) ltac:(lia) Hnz). unfold zget. lia. }
  split. { split; [exact rR|]. split; [congruence|]. intros a b Ha Hb Hnz. specialize (HR a b ltac:(lia) ltac:(lia) Hnz). unfold zget. lia. }
  split; [exact Hwfb|]. split; [exact Hp|]. lia.
Qed.

(* ---------- psi.orthonormalize(mode='right') from the model of C01 ---------- *)
Section OrthRight.
  Variable F : ofield.
  Notation CF := (Cx F).
  Variable dqr : mx CF -> mx CF * mx CF.
  Definition orth_right_model (p : mps CF) : mps CF * CF :=
    match mps_orthonormalize dqr false p with Some (p', nrm) => (p', cof nrm) | None => (p, k0 CF) end.
  Theorem orth_right_model_facts (p : mps CF) :
    mps_ok p = true -> orth_pre F p -> Forall (qr_call_ok F dqr) (mps_orth_calls dqr false p) ->
    m_qd (fst (orth_right_model p)) = m_qd p /\ mps_ok (fst (orth_right_model p)) = true /\
    length (hd [] (m_qD (fst (orth_right_model p)))) = 1 /\ length (last (m_qD (fst (orth_right_model p))) []) = 1.
  Proof.
    intros Hok (Hd & Hne & H1 & H2 & Hpos) Hc. unfold orth_right_model.
    destruct (orth_right_spec F dqr p (length (m_qd p)) Hd eq_refl Hne Hok H1 H2 Hpos Hc)
      as (p' & nrm & E & Eqd & _ & Hok' & Elast & Hhd & _).
    rewrite E. cbn [fst]. split; [exact Eqd|]. split; [exact Hok'|]. split; [exact Hhd|]. rewrite Elast. exact H2.
  Qed.
End OrthRight.

(* ---------- the Tdvp / Dmrg steps (single-site) of the history state machine ---------- *)
Section Steps.
  Variable R : cring.
  Variable orth : mps R -> mps R * R.
  Variable qr : nat -> mx R -> list Z -> list Z -> mx R * mx R * list Z.
  Variable kexp : nat -> env R -> env R -> osite R -> site R -> R -> site R.
  Variable kexp0 : nat -> env R -> env R -> mx R -> R -> mx R.
  Variable keig : nat -> env R -> env R -> osite R -> site R -> R * site R.
  (* the parameters (dt, 0.5*dt, numsteps) resp. numsweeps behind History's [tag] *)
  Variable tdvp_par : nat -> R * R * nat.
  Variable dmrg_par : nat -> nat.

  Definition tdvp1_result (tag : nat) (H : mpo R) (psi : mps R) : mps R :=
    let '(dt, hdt, n) := tdvp_par tag in
    match tdvp_singlesite orth qr kexp kexp0 H psi dt hdt n with
    | Some (A, qD, _, _) => mkmps (m_qd psi) qD A
    | None => psi
    end.
  Definition dmrg1_result (tag : nat) (H : mpo R) (psi : mps R) : mps R :=
    match dmrg_singlesite orth qr keig H psi (dmrg_par tag) with
    | Some (A, qD, _, _) => mkmps (m_qd psi) qD A
    | None => psi
    end.

  (* what is required of the operands and of psi.orthonormalize(mode='right') *)
  Definition sweep_pre (H : mpo R) (psi : mps R) : Prop :=
    o_qd H = m_qd psi /\ Forall (fun q => 0 < length q) (o_qD H) /\ hd [] (o_qD H) = [0%Z] /\ last (o_qD H) [] = [0%Z] /\
    0 < length (m_qd psi) /\ m_qd (fst (orth psi)) = m_qd psi /\ mps_ok (fst (orth psi)) = true /\
    length (hd [] (m_qD (fst (orth psi)))) = 1 /\ length (last (m_qD (fst (orth psi))) []) = 1.
  (* contracts of the calls the run issues (nothing if the model raises) *)
  Definition tdvp1_calls_ok (tag : nat) (H : mpo R) (psi : mps R) : Prop :=
    let '(dt, hdt, n) := tdvp_par tag in
    forall A qD nrm tr, tdvp_singlesite orth qr kexp kexp0 H psi dt hdt n = Some (A, qD, nrm, tr) ->
      sp_tr_ok R qr kexp kexp0 (fun _ _ _ _ _ => (k0 R, [])) (o_A H) (m_qd psi) (o_qD H) dt hdt (rev tr).
  Definition dmrg1_calls_ok (tag : nat) (H : mpo R) (psi : mps R) : Prop :=
    forall A qD ens tr, dmrg_singlesite orth qr keig H psi (dmrg_par tag) = Some (A, qD, ens, tr) ->
      sp_tr_ok R qr (fun _ _ _ _ X _ => X) (fun _ _ _ C _ => C) keig (o_A H) (m_qd psi) (o_qD H) (k0 R) (k0 R) (rev tr).

  Theorem tdvp1_result_ok tag H psi : mpo_ok H = true -> mps_ok psi = true -> sweep_pre H psi -> tdvp1_calls_ok tag H psi ->
    mps_ok (tdvp1_result tag H psi) = true.
  Proof.
    intros HokH Hok (P1 & P2 & P3 & P4 & P5 & P6 & P7 & P8 & P9) Hc. unfold tdvp1_result, tdvp1_calls_ok in *.
    destruct (tdvp_par tag) as [[dt hdt] n].
    destruct (tdvp_singlesite orth qr kexp kexp0 H psi dt hdt n) as [[[[A qD] nrm] tr]|] eqn:E; [|exact Hok].
    exact (proj1 (tdvp1_mps_ok R orth qr kexp kexp0 H psi dt hdt n A qD nrm tr E HokH P1 P2 P3 P4 P5 P6 P7 P8 P9 (Hc A qD nrm tr eq_refl))).
  Qed.
  Theorem dmrg1_result_ok tag H psi : mpo_ok H = true -> mps_ok psi = true -> sweep_pre H psi -> dmrg1_calls_ok tag H psi ->
    mps_ok (dmrg1_result tag H psi) = true.
  Proof.
    intros HokH Hok (P1 & P2 & P3 & P4 & P5 & P6 & P7 & P8 & P9) Hc. unfold dmrg1_result, dmrg1_calls_ok in *.
    destruct (dmrg_singlesite orth qr keig H psi (dmrg_par tag)) as [[[[A qD] ens] tr]|] eqn:E; [|exact Hok].
    exact (dmrg1_mps_ok R orth qr keig H psi (dmrg_par tag) A qD ens tr E HokH P1 P2 P3 P4 P5 P6 P7 P8 P9 (Hc A qD ens tr eq_refl)).
  Qed.

  Theorem tdvp1_step_contract (O : oracles R) (s : state R) (a i tag : nat) :
    or_tdvp O false = tdvp1_result ->
    (forall x p, nth_error (operators s) a = Some x -> nth_error (states s) i = Some p -> sweep_pre x p /\ tdvp1_calls_ok tag x p) ->
    oracle_ok_at R O s (Tdvp false a i tag).
  Proof.
    intros EO H. simpl. intros x p Ea Ei Hx Hp. rewrite EO. destruct (H x p Ea Ei) as [Hpre Hc]. apply tdvp1_result_ok; assumption.
  Qed.
  Theorem dmrg1_step_contract (O : oracles R) (s : state R) (a i tag : nat) :
    or_dmrg O false = dmrg1_result ->
    (forall x p, nth_error (operators s) a = Some x -> nth_error (states s) i = Some p -> sweep_pre x p /\ dmrg1_calls_ok tag x p) ->
    oracle_ok_at R O s (Dmrg false a i tag).
  Proof.
    intros EO H. simpl. intros x p Ea Ei Hx Hp. rewrite EO. destruct (H x p Ea Ei) as [Hpre Hc]. apply dmrg1_result_ok; assumption.
  Qed.
End Steps.
