(* C03 — multiply_mpo, apply_operator, MPO.identity: dense forms are matrix products / matrix-vector products /
   scale^L times the identity. *)
From Coq Require Import ZArith List Lia Bool Arith Ring.
From PT Require Import Base.Scalar Base.BigSum Base.Mx Model.Tensor Model.MPSOps Proofs.MPSOpsBase.
Import ListNotations.

Section Mul.
  Variable R : cring.
  Add Ring Rring_c03mul : (k_rt R).
  Notation "0" := (k0 R). Notation "1" := (k1 R).
  Infix "+" := (kadd R). Infix "*" := (kmul R).
  Notation mx := (mx R).
  Notation site := (site R). Notation osite := (osite R).

  Lemma last_cons_cons {A} (x y : A) l d : last (x :: y :: l) d = last (y :: l) d.
  Proof. reflexivity. Qed.

  (* ---------- sums ---------- *)
  Lemma sumn_suml_exch {A} m (l : list A) (f : nat -> A -> R) :
    sumn m (fun k => suml l (fun x => f k x)) = suml l (fun x => sumn m (fun k => f k x)).
  Proof.
    induction l as [|x l IH]; simpl.
    - apply sumn_0.
    - rewrite sumn_add, IH. reflexivity.
  Qed.
  Lemma suml_flat_map {A B} (g : A -> list B) (l : list A) (F : B -> R) :
    suml (flat_map g l) F = suml l (fun x => suml (g x) F).
  Proof. induction l as [|x l IH]; simpl; [reflexivity|]. rewrite suml_app, IH. reflexivity. Qed.

  Lemma suml_words_S d n (F : list nat -> R) :
    suml (words d (S n)) F = sumn d (fun u0 => suml (words d n) (fun u => F (u0 :: u))).
  Proof.
    simpl words. rewrite suml_flat_map, suml_seq. apply sumn_ext. intros u0 _. apply suml_map.
  Qed.
  Lemma words_ok d n u : In u (words d n) -> word_ok d n u.
  Proof.
    revert u; induction n as [|n IH]; intros u H; simpl in H.
    - destruct H as [<-|[]]. split; [reflexivity|constructor].
    - apply in_flat_map in H. destruct H as (s & Hs & H). apply in_map_iff in H. destruct H as (u' & <- & Hu').
      apply in_seq in Hs. destruct (IH _ Hu') as [Hl Hf]. split; [simpl; lia|]. constructor; [lia|exact Hf].
  Qed.

  (* product of two sums, summed over a third index *)
  Lemma sum_prod_exch {A} m d (l : list A) (f : nat -> nat -> R) (g : A -> nat -> R) :
    sumn m (fun k => sumn d (fun u => f u k) * suml l (fun x => g x k)) =
    sumn d (fun u => suml l (fun x => sumn m (fun k => f u k * g x k))).
  Proof.
    transitivity (sumn m (fun k => sumn d (fun u => suml l (fun x => f u k * g x k)))).
    { apply sumn_ext. intros k _. rewrite <- sumn_scal_r. apply sumn_ext. intros u _.
      rewrite <- suml_scal_l. reflexivity. }
    rewrite sumn_exch. apply sumn_ext. intros u _. apply sumn_suml_exch.
  Qed.

  (* ---------- Kronecker products ---------- *)
  Lemma get_kronmx (A B : mx) i j : (i < nr A * nr B)%nat -> (j < nc A * nc B)%nat ->
    get (kronmx A B) i j = get A (i / nr B) (j / nc B) * get B (i mod nr B) (j mod nc B).
  Proof. intros. unfold kronmx. apply get_tab; assumption. Qed.

  Lemma divmod_lt a b i : (i < a * b)%nat -> (i / b < a)%nat /\ (i mod b < b)%nat.
  Proof.
    intros H. assert (Hb : b <> 0%nat) by (intros ->; lia). split.
    - apply Nat.div_lt_upper_bound; [exact Hb|lia].
    - apply Nat.mod_upper_bound. exact Hb.
  Qed.
  Lemma div_flat k1 k2 b : (k2 < b)%nat -> ((k1 * b + k2) / b = k1)%nat.
  Proof. intros H. rewrite Nat.div_add_l by lia. rewrite Nat.div_small by exact H. lia. Qed.
  Lemma mod_flat k1 k2 b : (k2 < b)%nat -> ((k1 * b + k2) mod b = k2)%nat.
  Proof. intros H. rewrite Nat.add_comm, Nat.mod_add by lia. apply Nat.mod_small. exact H. Qed.

  (* mixed product property, entrywise: (A (x) B)(C (x) D) = (A C) (x) (B D) *)
  Lemma kron_mixed (A B C D : mx) i j : nc A = nr C -> nc B = nr D ->
    (i < nr A * nr B)%nat -> (j < nc C * nc D)%nat ->
    sumn (nc A * nc B) (fun k => get (kronmx A B) i k * get (kronmx C D) k j) =
    get (kronmx (mulmx A C) (mulmx B D)) i j.
  Proof.
    intros HAC HBD Hi Hj.
    destruct (divmod_lt _ _ _ Hi) as [Hi1 Hi2]. destruct (divmod_lt _ _ _ Hj) as [Hj1 Hj2].
    rewrite get_kronmx by (rewrite ?nr_mulmx, ?nc_mulmx; assumption).
    rewrite !nr_mulmx, !nc_mulmx. rewrite !get_mulmx by assumption.
    rewrite sumn_flatten.
    rewrite <- sumn_scal_r. apply sumn_ext. intros k1 Hk1.
    rewrite <- sumn_scal_l. apply sumn_ext. intros k2 Hk2.
    assert (Hk : (k1 * nc B + k2 < nc A * nc B)%nat) by nia.
    rewrite !get_kronmx by (rewrite <- ?HAC, <- ?HBD; assumption).
    rewrite <- HBD. rewrite !div_flat, !mod_flat by assumption. ring.
  Qed.

  Lemma kron_id a b i j : (i < a * b)%nat -> (j < a * b)%nat ->
    get (kronmx (idmx a) (idmx b)) i j = get (@idmx R (a * b)) i j.
  Proof.
    intros Hi Hj. destruct (divmod_lt _ _ _ Hi) as [Hi1 Hi2]. destruct (divmod_lt _ _ _ Hj) as [Hj1 Hj2].
    rewrite get_kronmx by (rewrite ?nr_idmx, ?nc_idmx; assumption). rewrite !nr_idmx, !nc_idmx.
    rewrite !get_idmx by assumption.
    assert (Hb : b <> 0%nat) by (intros ->; lia).
    destruct (Nat.eqb i j) eqn:E.
    - apply Nat.eqb_eq in E. subst j. rewrite !Nat.eqb_refl. ring.
    - apply Nat.eqb_neq in E.
      destruct (Nat.eqb (i / b) (j / b)) eqn:E1; [|ring].
      destruct (Nat.eqb (i mod b) (j mod b)) eqn:E2; [|ring].
      apply Nat.eqb_eq in E1. apply Nat.eqb_eq in E2. exfalso. apply E.
      rewrite (Nat.div_mod i b Hb), (Nat.div_mod j b Hb). congruence.
  Qed.

  (* ---------- families of matrices indexed by the contracted physical index ---------- *)
  Definition fam := nat -> mx.
  Fixpoint pickf (Xs : list fam) (u : list nat) : list mx :=
    match Xs, u with X :: Xs', s :: u' => X s :: pickf Xs' u' | _, _ => [] end.
  Fixpoint fchain (d : nat) (Ds : list nat) (Xs : list fam) {struct Xs} : Prop :=
    match Xs, Ds with
    | [], [_] => True
    | X :: Xs', Dl :: ((Dr :: _) as Ds') =>
        (forall u, (u < d)%nat -> wf (X u) /\ nr (X u) = Dl /\ nc (X u) = Dr) /\ fchain d Ds' Xs'
    | _, _ => False
    end.

  Lemma mchain_pickf d Ds Xs u : fchain d Ds Xs -> word_ok d (length Xs) u -> mchain Ds (pickf Xs u).
  Proof.
    revert Ds u; induction Xs as [|X Xs IH]; intros Ds u H [Hl Hu].
    - destruct u; [|discriminate Hl]. destruct Ds as [|D [|? ?]]; simpl in H; try contradiction. exact I.
    - destruct u as [|s u]; [discriminate Hl|].
      destruct Ds as [|Dl [|Dr Ds]]; simpl in H; try contradiction. destruct H as [HX H].
      pose proof (Forall_inv Hu) as Hs. pose proof (Forall_inv_tail Hu) as Hu'. cbv beta in Hs.
      destruct (HX s Hs) as (Ha & Hb & Hc). simpl. repeat split; auto.
      apply IH; [exact H|]. split; [simpl in Hl; lia|exact Hu'].
  Qed.

  Lemma get_skron d (X Y : fam) a0 a1 b0 b1 i j : (0 < d)%nat ->
    (forall u, (u < d)%nat -> wf (X u) /\ nr (X u) = a0 /\ nc (X u) = a1) ->
    (forall u, (u < d)%nat -> wf (Y u) /\ nr (Y u) = b0 /\ nc (Y u) = b1) ->
    (i < a0 * b0)%nat -> (j < a1 * b1)%nat ->
    get (skron d X Y) i j = sumn d (fun u => get (kronmx (X u) (Y u)) i j).
  Proof.
    intros Hd HX HY Hi Hj. destruct (HX 0%nat Hd) as (_ & HX0r & HX0c). destruct (HY 0%nat Hd) as (_ & HY0r & HY0c).
    unfold skron. rewrite get_tab by (rewrite ?HX0r, ?HX0c, ?HY0r, ?HY0c; assumption).
    apply sumn_ext. intros u Hu. destruct (HX u Hu) as (_ & Hr & Hc). destruct (HY u Hu) as (_ & Hr' & Hc').
    rewrite get_kronmx by (rewrite ?Hr, ?Hc, ?Hr', ?Hc'; assumption).
    rewrite HY0r, HY0c, Hr', Hc'. reflexivity.
  Qed.

  Lemma shape_skron d (X Y : fam) a0 a1 b0 b1 : (0 < d)%nat ->
    (forall u, (u < d)%nat -> wf (X u) /\ nr (X u) = a0 /\ nc (X u) = a1) ->
    (forall u, (u < d)%nat -> wf (Y u) /\ nr (Y u) = b0 /\ nc (Y u) = b1) ->
    nr (skron d X Y) = (a0 * b0)%nat /\ nc (skron d X Y) = (a1 * b1)%nat.
  Proof.
    intros Hd HX HY. destruct (HX 0%nat Hd) as (_ & HX0r & HX0c). destruct (HY 0%nat Hd) as (_ & HY0r & HY0c).
    unfold skron. rewrite nr_tab, nc_tab. split; congruence.
  Qed.

  Lemma mprod_shape Ds (Ms : list mx) : mchain Ds Ms ->
    nr (mprod (hd 0%nat Ds) Ms) = hd 0%nat Ds /\ nc (mprod (hd 0%nat Ds) Ms) = last Ds 0%nat.
  Proof.
    intros H. split; [|apply nc_mprod; exact H].
    destruct Ms as [|M Ms].
    - destruct Ds as [|D [|? ?]]; simpl in H; try contradiction. reflexivity.
    - destruct Ds as [|Dl [|Dr Ds]]; simpl in H; try contradiction. rewrite nr_mprod. simpl. tauto.
  Qed.

  Lemma nc_mprod_skrons d (Xs : list fam) : forall Ys Da Db a1 b1, (0 < d)%nat ->
    fchain d (a1 :: Da) Xs -> fchain d (b1 :: Db) Ys -> length Xs = length Ys ->
    nc (mprod (a1 * b1) (zipw (skron d) Xs Ys)) = (last (a1 :: Da) 0 * last (b1 :: Db) 0)%nat.
  Proof.
    induction Xs as [|X Xs IHs]; intros Ys Da Db a1 b1 Hd HA HB HL.
    - destruct Ys; [|discriminate HL]. destruct Da; simpl in HA; try contradiction.
      destruct Db; simpl in HB; try contradiction. reflexivity.
    - destruct Ys as [|Y Ys]; [discriminate HL|].
      destruct Da as [|a2 Da]; simpl in HA; try contradiction.
      destruct Db as [|b2 Db]; simpl in HB; try contradiction.
      destruct HA as [HX HA]. destruct HB as [HY HB].
      destruct (shape_skron d X Y a1 a2 b1 b2 Hd HX HY) as [HSr HSc].
      change (zipw (skron d) (X :: Xs) (Y :: Ys)) with (skron d X Y :: zipw (skron d) Xs Ys).
      change (mprod (a1 * b1) (skron d X Y :: zipw (skron d) Xs Ys))
        with (mulmx (skron d X Y) (mprod (nc (skron d X Y)) (zipw (skron d) Xs Ys))).
      rewrite nc_mulmx, HSc. rewrite (IHs Ys Da Db a2 b2 Hd HA HB); [|simpl in HL; lia].
      rewrite (last_cons_cons a1), (last_cons_cons b1). reflexivity.
  Qed.

  (* the central statement: a chain of contracted Kronecker sites is the sum over all words of the contracted
     index of the Kronecker product of the two chains *)
  Lemma mprod_skrons d (Xs : list fam) : forall Ys Da Db i j, (0 < d)%nat ->
    fchain d Da Xs -> fchain d Db Ys -> length Xs = length Ys ->
    (i < hd 0%nat Da * hd 0%nat Db)%nat -> (j < last Da 0%nat * last Db 0%nat)%nat ->
    get (mprod (hd 0%nat Da * hd 0%nat Db) (zipw (skron d) Xs Ys)) i j =
    suml (words d (length Xs)) (fun u =>
      get (kronmx (mprod (hd 0%nat Da) (pickf Xs u)) (mprod (hd 0%nat Db) (pickf Ys u))) i j).
  Proof.
    induction Xs as [|X Xs IH]; intros Ys Da Db i j Hd HA HB HL Hi Hj.
    - destruct Ys; [|discriminate HL].
      destruct Da as [|a [|? ?]]; simpl in HA; try contradiction.
      destruct Db as [|b [|? ?]]; simpl in HB; try contradiction.
      simpl in Hi, Hj |- *. rewrite kron_id by assumption. ring.
    - destruct Ys as [|Y Ys]; [discriminate HL|].
      destruct Da as [|a0 [|a1 Da]]; simpl in HA; try contradiction.
      destruct Db as [|b0 [|b1 Db]]; simpl in HB; try contradiction.
      destruct HA as [HX HA]. destruct HB as [HY HB].
      change (hd 0%nat (a0 :: a1 :: Da)) with a0 in *. change (hd 0%nat (b0 :: b1 :: Db)) with b0 in *.
      rewrite (last_cons_cons a0) in Hj. rewrite (last_cons_cons b0) in Hj.
      destruct (shape_skron d X Y a0 a1 b0 b1 Hd HX HY) as [HSr HSc].
      change (zipw (skron d) (X :: Xs) (Y :: Ys)) with (skron d X Y :: zipw (skron d) Xs Ys).
      change (mprod (a0 * b0) (skron d X Y :: zipw (skron d) Xs Ys))
        with (mulmx (skron d X Y) (mprod (nc (skron d X Y)) (zipw (skron d) Xs Ys))).
      rewrite HSc.
      assert (Hnc : nc (mprod (a1 * b1) (zipw (skron d) Xs Ys)) = (last (a1 :: Da) 0 * last (b1 :: Db) 0)%nat).
      { apply nc_mprod_skrons; [exact Hd | exact HA | exact HB | simpl in HL; lia]. }
      rewrite get_mulmx by (rewrite ?HSr, ?Hnc; assumption). rewrite HSc.
      change (length (X :: Xs)) with (S (length Xs)). rewrite suml_words_S.
      transitivity (sumn (a1 * b1) (fun k =>
         sumn d (fun u0 => get (kronmx (X u0) (Y u0)) i k) *
         suml (words d (length Xs)) (fun u => get (kronmx (mprod a1 (pickf Xs u)) (mprod b1 (pickf Ys u))) k j))).
      { apply sumn_ext. intros k Hk. f_equal.
        - apply (get_skron d X Y a0 a1 b0 b1); assumption.
        - apply (IH Ys (a1 :: Da) (b1 :: Db) k j Hd HA HB); [simpl in HL; lia | exact Hk | exact Hj]. }
      rewrite sum_prod_exch. apply sumn_ext. intros u0 Hu0. apply suml_ext. intros u Hu.
      apply words_ok in Hu.
      destruct (HX u0 Hu0) as (wX & rX & cX). destruct (HY u0 Hu0) as (wY & rY & cY).
      pose proof (mchain_pickf d _ _ u HA Hu) as HcA.
      assert (Hu' : word_ok d (length Ys) u) by (replace (length Ys) with (length Xs) by (simpl in HL; lia); exact Hu).
      pose proof (mchain_pickf d _ _ u HB Hu') as HcB.
      destruct (mprod_shape _ _ HcA) as [HPr HPc]. destruct (mprod_shape _ _ HcB) as [HQr HQc].
      change (hd 0%nat (a1 :: Da)) with a1 in *. change (hd 0%nat (b1 :: Db)) with b1 in *.
      change (pickf (X :: Xs) (u0 :: u)) with (X u0 :: pickf Xs u).
      change (pickf (Y :: Ys) (u0 :: u)) with (Y u0 :: pickf Ys u).
      change (mprod a0 (X u0 :: pickf Xs u)) with (mulmx (X u0) (mprod (nc (X u0)) (pickf Xs u))).
      change (mprod b0 (Y u0 :: pickf Ys u)) with (mulmx (Y u0) (mprod (nc (Y u0)) (pickf Ys u))).
      rewrite cX, cY.
      rewrite <- (kron_mixed (X u0) (Y u0)) by (rewrite ?rX, ?rY, ?cX, ?cY, ?HPr, ?HQr, ?HPc, ?HQc; auto).
      rewrite cX, cY. reflexivity.
  Qed.

  (* ---------- link to the tensors of multiply_mpo / apply_operator ---------- *)
  Definition famL (As : list osite) (w : list nat) : list fam := zipw (fun A s => fun u => osel A s u) As w.
  Definition famR (Bs : list osite) (w' : list nat) : list fam := zipw (fun B t => fun u => osel B u t) Bs w'.
  Definition famS (As : list site) : list fam := map (fun A => fun t => sel A t) As.

  Lemma pickf_famL As w u : pickf (famL As w) u = opick As w u.
  Proof.
    revert w u; induction As as [|A As IH]; intros [|s w] [|t u]; try reflexivity.
    change (famL (A :: As) (s :: w)) with ((fun u => osel A s u) :: famL As w).
    simpl. rewrite IH. reflexivity.
  Qed.
  Lemma pickf_famR Bs w' u : pickf (famR Bs w') u = opick Bs u w'.
  Proof.
    revert w' u; induction Bs as [|A As IH]; intros [|s w] [|t u]; try reflexivity.
    change (famR (A :: As) (s :: w)) with ((fun u => osel A u s) :: famR As w).
    simpl. rewrite IH. reflexivity.
  Qed.
  Lemma pickf_famS As u : pickf (famS As) u = pick As u.
  Proof.
    revert u; induction As as [|A As IH]; intros [|t u]; try reflexivity.
    simpl. rewrite IH. reflexivity.
  Qed.
  Lemma length_famL As w : length w = length As -> length (famL As w) = length As.
  Proof. revert w; induction As as [|A As IH]; intros [|s w] H; simpl in *; try discriminate; auto. Qed.
  Lemma length_famR As w : length w = length As -> length (famR As w) = length As.
  Proof. revert w; induction As as [|A As IH]; intros [|s w] H; simpl in *; try discriminate; auto. Qed.
  Lemma length_famS As : length (famS As) = length As.
  Proof. apply map_length. Qed.

  Lemma fchain_famL d Ds As w : ochain_shape d Ds As = true -> word_ok d (length As) w -> fchain d Ds (famL As w).
  Proof.
    revert Ds w; induction As as [|A As IH]; intros Ds w H [Hl Hw].
    - destruct w; [|discriminate Hl]. destruct Ds as [|D [|? ?]]; try discriminate H. exact I.
    - destruct w as [|s w]; [discriminate Hl|].
      destruct Ds as [|Dl [|Dr Ds]]; [discriminate H | discriminate H |].
      rewrite ochain_shape_cons in H. apply andb_true_iff in H. destruct H as [H1 H].
      pose proof (Forall_inv Hw) as Hs. pose proof (Forall_inv_tail Hw) as Hw'. cbv beta in Hs.
      change (famL (A :: As) (s :: w)) with ((fun u => osel A s u) :: famL As w).
      simpl. split.
      + intros u Hu. apply (osite_shape_osel R d Dl Dr A s u H1 Hs Hu).
      + apply IH; [exact H|]. split; [simpl in Hl; lia | exact Hw'].
  Qed.
  Lemma fchain_famR d Ds As w : ochain_shape d Ds As = true -> word_ok d (length As) w -> fchain d Ds (famR As w).
  Proof.
    revert Ds w; induction As as [|A As IH]; intros Ds w H [Hl Hw].
    - destruct w; [|discriminate Hl]. destruct Ds as [|D [|? ?]]; try discriminate H. exact I.
    - destruct w as [|s w]; [discriminate Hl|].
      destruct Ds as [|Dl [|Dr Ds]]; [discriminate H | discriminate H |].
      rewrite ochain_shape_cons in H. apply andb_true_iff in H. destruct H as [H1 H].
      pose proof (Forall_inv Hw) as Hs. pose proof (Forall_inv_tail Hw) as Hw'. cbv beta in Hs.
      change (famR (A :: As) (s :: w)) with ((fun u => osel A u s) :: famR As w).
      simpl. split.
      + intros u Hu. apply (osite_shape_osel R d Dl Dr A u s H1 Hu Hs).
      + apply IH; [exact H|]. split; [simpl in Hl; lia | exact Hw'].
  Qed.
  Lemma fchain_famS d Ds As : chain_shape d Ds As = true -> fchain d Ds (famS As).
  Proof.
    revert Ds; induction As as [|A As IH]; intros Ds H.
    - destruct Ds as [|D [|? ?]]; try discriminate H. exact I.
    - destruct Ds as [|Dl [|Dr Ds]]; [discriminate H | discriminate H |].
      rewrite chain_shape_cons in H. apply andb_true_iff in H. destruct H as [H1 H].
      simpl. split.
      + intros u Hu. apply (site_shape_sel R d Dl Dr A u H1 Hu).
      + apply IH. exact H.
  Qed.

  Lemma opick_mul d (As Bs : list osite) w w' :
    length As = length Bs -> length w = length As -> length w' = length As -> Forall (fun A => length A = d) As ->
    Forall (fun s => (s < d)%nat) w -> Forall (fun s => (s < d)%nat) w' ->
    opick (zipw mul_osite As Bs) w w' = zipw (skron d) (famL As w) (famR Bs w').
  Proof.
    revert Bs w w'; induction As as [|A As IH]; intros Bs w w' HL Hw Hw' HA Hs Hs'.
    - destruct w, w'; reflexivity.
    - destruct Bs as [|B Bs]; [discriminate HL|]. destruct w as [|s w]; [discriminate Hw|].
      destruct w' as [|t w']; [discriminate Hw'|].
      pose proof (Forall_inv HA) as HdA; pose proof (Forall_inv_tail HA) as HA'; cbv beta in HdA.
      pose proof (Forall_inv Hs) as Hs1; pose proof (Forall_inv_tail Hs) as Hs2; cbv beta in Hs1.
      pose proof (Forall_inv Hs') as Ht1; pose proof (Forall_inv_tail Hs') as Ht2; cbv beta in Ht1.
      change (opick (zipw mul_osite (A :: As) (B :: Bs)) (s :: w) (t :: w'))
        with (osel (mul_osite A B) s t :: opick (zipw mul_osite As Bs) w w').
      change (famL (A :: As) (s :: w)) with ((fun u => osel A s u) :: famL As w).
      change (famR (B :: Bs) (t :: w')) with ((fun u => osel B u t) :: famR Bs w').
      change (zipw (skron d) ((fun u => osel A s u) :: famL As w) ((fun u => osel B u t) :: famR Bs w'))
        with (skron d (fun u => osel A s u) (fun u => osel B u t) :: zipw (skron d) (famL As w) (famR Bs w')).
      rewrite IH by (simpl in *; try lia; assumption).
      unfold mul_osite. rewrite osel_otab by lia. rewrite HdA. reflexivity.
  Qed.

  Lemma pick_apply d (Ws : list osite) (As : list site) w :
    length Ws = length As -> length w = length Ws -> Forall (fun W => length W = d) Ws ->
    Forall (fun s => (s < d)%nat) w ->
    pick (zipw apply_site Ws As) w = zipw (skron d) (famL Ws w) (famS As).
  Proof.
    revert As w; induction Ws as [|W Ws IH]; intros As w HL Hw HW Hs.
    - destruct w; reflexivity.
    - destruct As as [|A As]; [discriminate HL|]. destruct w as [|s w]; [discriminate Hw|].
      pose proof (Forall_inv HW) as HdW; pose proof (Forall_inv_tail HW) as HW'; cbv beta in HdW.
      pose proof (Forall_inv Hs) as Hs1; pose proof (Forall_inv_tail Hs) as Hs2; cbv beta in Hs1.
      change (pick (zipw apply_site (W :: Ws) (A :: As)) (s :: w))
        with (sel (apply_site W A) s :: pick (zipw apply_site Ws As) w).
      change (famL (W :: Ws) (s :: w)) with ((fun u => osel W s u) :: famL Ws w).
      change (famS (A :: As)) with ((fun t => sel A t) :: famS As).
      change (zipw (skron d) ((fun u => osel W s u) :: famL Ws w) ((fun t => sel A t) :: famS As))
        with (skron d (fun u => osel W s u) (fun t => sel A t) :: zipw (skron d) (famL Ws w) (famS As)).
      rewrite IH by (simpl in *; try lia; assumption).
      unfold apply_site. rewrite sel_stab by lia. rewrite HdW. reflexivity.
  Qed.

  Lemma get_kron_1x1 (P Q : mx) : nr P = 1%nat -> nc P = 1%nat -> nr Q = 1%nat -> nc Q = 1%nat ->
    get (kronmx P Q) 0 0 = get P 0 0 * get Q 0 0.
  Proof.
    intros H1 H2 H3 H4. rewrite get_kronmx by (rewrite ?H1, ?H2, ?H3, ?H4; simpl; lia).
    rewrite H3, H4. reflexivity.
  Qed.

  Lemma word_ok_pos d L w : word_ok d (S L) w -> (0 < d)%nat.
  Proof. intros [Hl Hw]. destruct w as [|s w]; [discriminate Hl|]. pose proof (Forall_inv Hw) as H. simpl in H. lia. Qed.

  (* multiply_mpo: matrix product of the dense operators *)
  Theorem mul_ochain_opamp d (As Bs : list osite) DsA DsB w w' :
    ochain_shape d DsA As = true -> ochain_shape d DsB Bs = true -> bdim1 DsA = true -> bdim1 DsB = true ->
    length As = length Bs -> word_ok d (length As) w -> word_ok d (length As) w' ->
    opamp (zipw mul_osite As Bs) w w' = suml (words d (length As)) (fun u => opamp As w u * opamp Bs u w').
  Proof.
    intros HA HB H1A H1B HL Hw Hw'.
    apply bdim1_spec in H1A. apply bdim1_spec in H1B. destruct H1A as [HhA HlA], H1B as [HhB HlB].
    destruct As as [|A0 As0] eqn:EAs.
    { destruct Bs; [|discriminate HL]. destruct Hw as [Hl _], Hw' as [Hl' _].
      destruct w; [|discriminate Hl]. destruct w'; [|discriminate Hl'].
      unfold opamp. simpl. rewrite get_idmx by lia. simpl. ring. }
    rewrite <- EAs in *. assert (Hd : (0 < d)%nat).
    { rewrite EAs in Hw. simpl in Hw. eapply word_ok_pos; eauto. }
    clear EAs A0 As0.
    unfold opamp at 1. destruct Hw as [Hl Hw]. destruct Hw' as [Hl' Hw'].
    rewrite (opick_mul d); [| exact HL | exact Hl | exact Hl' | eapply ochain_shape_sites; eauto | exact Hw | exact Hw'].
    pose proof (mprod_skrons d (famL As w) (famR Bs w') DsA DsB 0%nat 0%nat Hd) as E.
    rewrite HhA, HhB, HlA, HlB in E. rewrite length_famL in E by exact Hl.
    change (1 * 1)%nat with 1%nat in E. rewrite E; clear E.
    - apply suml_ext. intros u Hu. apply words_ok in Hu.
      rewrite pickf_famL, pickf_famR.
      pose proof (mchain_opick R d DsA As w u HA (conj Hl Hw) Hu) as HcA.
      assert (Hu' : word_ok d (length Bs) u) by (rewrite <- HL; exact Hu).
      assert (Hw2 : word_ok d (length Bs) w') by (rewrite <- HL; split; assumption).
      pose proof (mchain_opick R d DsB Bs u w' HB Hu' Hw2) as HcB.
      destruct (mprod_shape _ _ HcA) as [HPr HPc]. destruct (mprod_shape _ _ HcB) as [HQr HQc].
      rewrite HhA, HlA in *. rewrite HhB, HlB in *.
      unfold opamp. apply get_kron_1x1; assumption.
    - apply fchain_famL; [exact HA | split; assumption].
    - apply fchain_famR; [exact HB | rewrite <- HL; split; assumption].
    - rewrite ?length_famL, ?length_famR by congruence. exact HL.
    - lia.
    - lia.
  Qed.

  (* apply_operator: matrix-vector product *)
  Theorem apply_chain_amp d (Ws : list osite) (As : list site) DsW DsA w :
    ochain_shape d DsW Ws = true -> chain_shape d DsA As = true -> bdim1 DsW = true -> bdim1 DsA = true ->
    length Ws = length As -> word_ok d (length Ws) w ->
    amp (zipw apply_site Ws As) w = suml (words d (length Ws)) (fun u => opamp Ws w u * amp As u).
  Proof.
    intros HW HA H1W H1A HL Hw.
    apply bdim1_spec in H1W. apply bdim1_spec in H1A. destruct H1W as [HhW HlW], H1A as [HhA HlA].
    destruct Ws as [|W0 Ws0] eqn:EWs.
    { destruct As; [|discriminate HL]. destruct Hw as [Hl _]. destruct w; [|discriminate Hl].
      unfold amp, opamp. simpl. rewrite get_idmx by lia. simpl. ring. }
    rewrite <- EWs in *. assert (Hd : (0 < d)%nat).
    { rewrite EWs in Hw. simpl in Hw. eapply word_ok_pos; eauto. }
    clear EWs W0 Ws0.
    unfold amp at 1. destruct Hw as [Hl Hw].
    rewrite (pick_apply d); [| exact HL | exact Hl | eapply ochain_shape_sites; eauto | exact Hw].
    pose proof (mprod_skrons d (famL Ws w) (famS As) DsW DsA 0%nat 0%nat Hd) as E.
    rewrite HhW, HhA, HlW, HlA in E. rewrite length_famL in E by exact Hl.
    change (1 * 1)%nat with 1%nat in E. rewrite E; clear E.
    - apply suml_ext. intros u Hu. apply words_ok in Hu.
      rewrite pickf_famL, pickf_famS.
      pose proof (mchain_opick R d DsW Ws w u HW (conj Hl Hw) Hu) as HcW.
      assert (Hu' : word_ok d (length As) u) by (rewrite <- HL; exact Hu).
      pose proof (mchain_pick R d DsA As u HA Hu') as HcA.
      destruct (mprod_shape _ _ HcW) as [HPr HPc]. destruct (mprod_shape _ _ HcA) as [HQr HQc].
      rewrite HhW, HlW in *. rewrite HhA, HlA in *.
      unfold opamp, amp. apply get_kron_1x1; assumption.
    - apply fchain_famL; [exact HW | split; assumption].
    - apply fchain_famS. exact HA.
    - rewrite ?length_famL, ?length_famS by congruence. exact HL.
    - lia.
    - lia.
  Qed.

  (* ---------- MPO.identity ---------- *)
  Fixpoint kpow (c : R) (n : nat) : R := match n with O => 1 | S m => c * kpow c m end.

  Lemma list_eqb_nat_refl w : list_eqb Nat.eqb w w = true.
  Proof. induction w as [|s w IH]; simpl; [reflexivity|]. rewrite Nat.eqb_refl, IH. reflexivity. Qed.
  Lemma list_eqb_nat_eq w w' : list_eqb Nat.eqb w w' = true -> w = w'.
  Proof.
    revert w'; induction w as [|s w IH]; intros [|t w'] H; simpl in H; try discriminate; [reflexivity|].
    apply andb_true_iff in H. destruct H as [H1 H2]. apply Nat.eqb_eq in H1. f_equal; auto.
  Qed.

  Lemma id_mprod d (scale : R) L : forall w w', word_ok d L w -> word_ok d L w' ->
    let P := mprod 1 (opick (repeat (id_osite d scale) L) w w') in
    nr P = 1%nat /\ nc P = 1%nat /\
    get P 0 0 = kpow scale L * (if list_eqb Nat.eqb w w' then 1 else 0).
  Proof.
    induction L as [|L IH]; intros w w' [Hl Hw] [Hl' Hw'].
    - destruct w; [|discriminate Hl]. destruct w'; [|discriminate Hl']. simpl.
      repeat split. rewrite get_idmx by lia. simpl. ring.
    - destruct w as [|s w]; [discriminate Hl|]. destruct w' as [|t w']; [discriminate Hl'|].
      pose proof (Forall_inv Hw) as Hs; pose proof (Forall_inv_tail Hw) as Hw2; cbv beta in Hs.
      pose proof (Forall_inv Hw') as Ht; pose proof (Forall_inv_tail Hw') as Hw2'; cbv beta in Ht.
      destruct (IH w w') as (Hr & Hc & Hg); [split; [simpl in Hl; lia | exact Hw2] | split; [simpl in Hl'; lia | exact Hw2'] |].
      change (repeat (id_osite d scale) (S L)) with (id_osite d scale :: repeat (id_osite d scale) L).
      change (opick (id_osite d scale :: repeat (id_osite d scale) L) (s :: w) (t :: w'))
        with (osel (id_osite d scale) s t :: opick (repeat (id_osite d scale) L) w w').
      unfold id_osite at 1. rewrite osel_otab by assumption.
      set (M := tab 1 1 (fun _ _ : nat => scale * (if Nat.eqb s t then 1 else 0))).
      cbv zeta.
      change (mprod 1 (M :: opick (repeat (id_osite d scale) L) w w'))
        with (mulmx M (mprod (nc M) (opick (repeat (id_osite d scale) L) w w'))).
      change (nc M) with 1%nat.
      split; [reflexivity|]. split; [rewrite nc_mulmx; exact Hc|].
      rewrite get_mulmx by (try rewrite Hc; simpl; lia).
      change (nc M) with 1%nat. simpl sumn. rewrite Hg.
      unfold M. rewrite get_tab by lia. simpl kpow. simpl list_eqb.
      destruct (Nat.eqb s t); simpl; ring.
  Qed.

  Theorem identity_chain_opamp d (scale : R) L w w' : word_ok d L w -> word_ok d L w' ->
    opamp (repeat (id_osite d scale) L) w w' = kpow scale L * (if list_eqb Nat.eqb w w' then 1 else 0).
  Proof. intros Hw Hw'. unfold opamp. apply (id_mprod d scale L w w' Hw Hw'). Qed.
End Mul.

Arguments kpow {R} c n.
