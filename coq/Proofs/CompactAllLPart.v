(* C20, all lattice sizes, part 1 (generic): what one pass of the site loop of from_opchains does, exactly.
   (a) the site partition in terms of VALUES: ulist / vlist are the duplicate-free lists of the U halves / V halves of the
       half-chains in flight, and (i, j) is an edge iff some half-chain splits into (ulist[i], vlist[j]);
   (b) the half-chains after the pass: one per edge incident to a U-cover vertex (hung on the node created for that vertex),
       one per V-cover vertex; the node ids created are consecutive; every node created for a U-cover vertex has an in-edge,
       and so has the node of a V-cover vertex that has a neighbour outside the U-cover (always, for a minimum cover). *)
From Coq Require Import ZArith List Lia Bool.
From PT Require Import Base.Scalar Base.BigSum Model.OpGraph Model.Bipartite Model.FromOpchains
                       Proofs.FromOpchainsGraph Proofs.FromOpchainsPart Proofs.FromOpchainsSem Proofs.FromOpchainsOk1
                       Proofs.CompactCount.
Import ListNotations.
Open Scope Z_scope.

Lemma index_of_None_notin {A} (eqb : A -> A -> bool) x l : (forall y, x = y -> eqb x y = true) ->
  index_of eqb x l = None -> ~ In x l.
Proof.
  intros Hr. induction l as [|y l IH]; simpl; intros H; [tauto|].
  destruct (eqb x y) eqn:E; [discriminate|]. destruct (index_of eqb x l); [discriminate|].
  intros [Hy|Hy]; [rewrite (Hr y (eq_sym Hy)) in E; discriminate|exact (IH eq_refl Hy)].
Qed.
Lemma unode_eqb_refl u : unode_eqb u u = true.
Proof. destruct u. unfold unode_eqb. simpl. rewrite !Z.eqb_refl. reflexivity. Qed.
Lemma zlist_eqb_refl l : FromOpchains.zlist_eqb l l = true.
Proof. induction l as [|x l IH]; simpl; [reflexivity|]. rewrite Z.eqb_refl, IH. reflexivity. Qed.
Lemma hchain_eqb_refl h : hchain_eqb h h = true.
Proof. destruct h. unfold hchain_eqb. simpl. rewrite !zlist_eqb_refl, Z.eqb_refl. reflexivity. Qed.

Lemma nth_error_snoc_old {A} (l : list A) x k y : In y l -> ~ In x l -> nth_error (l ++ [x]) k = Some y -> nth_error l k = Some y.
Proof.
  intros Hy Hx H. destruct (Nat.lt_ge_cases k (length l)) as [Hk|Hk].
  - rewrite nth_error_app1 in H by exact Hk. exact H.
  - rewrite nth_error_app2 in H by exact Hk. destruct (k - length l)%nat as [|d]; simpl in H.
    + inversion H; subst. contradiction.
    + destruct d; discriminate.
Qed.
Lemma nth_error_prefix {A} (l l2 : list A) k y : nth_error l k = Some y -> nth_error (l ++ l2) k = Some y.
Proof. intros H. rewrite nth_error_app1; [exact H|]. apply nth_error_Some. congruence. Qed.

Lemma premove_keep' e x l : In x l -> x <> e -> In x (premove e l).
Proof.
  induction l as [|y l IH]; simpl; intros H Hne; [contradiction|].
  destruct (pair_eqb e y) eqn:E.
  - apply pair_eqb_eq in E. subst y. destruct H as [H|H]; [congruence|exact H].
  - destruct H as [H|H]; [left; exact H|right; apply IH; assumption].
Qed.

(* consecutive integers *)
Fixpoint zrange (lo : Z) (n : nat) : list Z := match n with O => [] | S m => lo :: zrange (lo + 1) m end.
Lemma zrange_In n : forall lo x, In x (zrange lo n) <-> lo <= x < lo + Z.of_nat n.
Proof.
  induction n as [|n IH]; intros lo x; cbn [zrange In].
  - split; [tauto|lia].
  - rewrite IH. lia.
Qed.
Lemma zrange_length n : forall lo, length (zrange lo n) = n.
Proof. induction n as [|n IH]; intros lo; simpl; [reflexivity|]. rewrite IH. reflexivity. Qed.
Lemma zrange_app n m : forall lo, zrange lo (n + m) = zrange lo n ++ zrange (lo + Z.of_nat n) m.
Proof.
  induction n as [|n IH]; intros lo; cbn [zrange Nat.add app].
  - f_equal. lia.
  - rewrite IH. do 3 f_equal. lia.
Qed.
Lemma zrange_NoDup n : forall lo, NoDup (zrange lo n).
Proof.
  induction n as [|n IH]; intros lo; cbn [zrange]; constructor; [|apply IH].
  rewrite zrange_In. lia.
Qed.

Section PartV.
  Variable R : cring.
  Notation part := (part R).

  Record PSpec (p : part) (D : list hchain) : Prop := mkPSpec {
    ps_nu : NoDup (p_u p);
    ps_nv : NoDup (p_v p);
    ps_u : forall u, In u (p_u p) <-> exists h, In h D /\ split_u h = u;
    ps_v : forall v, In v (p_v p) <-> exists h, In h D /\ split_v h = v;
    ps_e : forall i j, In (i, j) (p_edges p) <->
             exists h, In h D /\ nth_error (p_u p) i = Some (split_u h) /\ nth_error (p_v p) j = Some (split_v h) }.

  Lemma part_step_PSpec (p : part) D hc : PSpec p D -> PSpec (part_step p hc) (D ++ [fst hc]).
  Proof.
    intros [Nu Nv Su Sv Se]. unfold part_step.
    set (u := split_u (fst hc)). set (v := split_v (fst hc)).
    assert (LU : exists ul i, (match index_of unode_eqb u (p_u p) with
                               | Some i => (p_u p, i) | None => (p_u p ++ [u], length (p_u p)) end) = (ul, i) /\
                 nth_error ul i = Some u /\ NoDup ul /\
                 (forall k y, nth_error (p_u p) k = Some y -> nth_error ul k = Some y) /\
                 (forall k y, In y (p_u p) -> nth_error ul k = Some y -> nth_error (p_u p) k = Some y) /\
                 (forall y, In y ul <-> In y (p_u p) \/ y = u)).
    { destruct (index_of unode_eqb u (p_u p)) as [i|] eqn:E.
      - pose proof (index_of_Some unode_eqb u _ (unode_eqb_eq u) i E) as Hi.
        exists (p_u p), i. repeat split; auto. intros [H|H]; [exact H|]. subst y. eapply nth_error_In; exact Hi.
      - pose proof (index_of_None_notin unode_eqb u (p_u p) (fun y Hy => eq_ind u (fun z => unode_eqb u z = true) (unode_eqb_refl u) y Hy) E) as Hn.
        exists (p_u p ++ [u]), (length (p_u p)). split; [reflexivity|]. split; [apply nth_error_app_end|].
        split; [apply NoDup_app_end; assumption|]. split; [intros k y Hk; apply nth_error_prefix; exact Hk|].
        split; [intros k y Hy Hk; exact (nth_error_snoc_old _ _ _ _ Hy Hn Hk)|].
        intros y. rewrite in_app_iff. simpl. intuition congruence. }
    assert (LV : exists vl j, (match index_of hchain_eqb v (p_v p) with
                               | Some j => (p_v p, j) | None => (p_v p ++ [v], length (p_v p)) end) = (vl, j) /\
                 nth_error vl j = Some v /\ NoDup vl /\
                 (forall k y, nth_error (p_v p) k = Some y -> nth_error vl k = Some y) /\
                 (forall k y, In y (p_v p) -> nth_error vl k = Some y -> nth_error (p_v p) k = Some y) /\
                 (forall y, In y vl <-> In y (p_v p) \/ y = v)).
    { destruct (index_of hchain_eqb v (p_v p)) as [j|] eqn:E.
      - pose proof (index_of_Some hchain_eqb v _ (hchain_eqb_eq v) j E) as Hj.
        exists (p_v p), j. repeat split; auto. intros [H|H]; [exact H|]. subst y. eapply nth_error_In; exact Hj.
      - pose proof (index_of_None_notin hchain_eqb v (p_v p) (fun y Hy => eq_ind v (fun z => hchain_eqb v z = true) (hchain_eqb_refl v) y Hy) E) as Hn.
        exists (p_v p ++ [v]), (length (p_v p)). split; [reflexivity|]. split; [apply nth_error_app_end|].
        split; [apply NoDup_app_end; assumption|]. split; [intros k y Hk; apply nth_error_prefix; exact Hk|].
        split; [intros k y Hy Hk; exact (nth_error_snoc_old _ _ _ _ Hy Hn Hk)|].
        intros y. rewrite in_app_iff. simpl. intuition congruence. }
    destruct LU as [ul [i [EU [Hi [Nul [Uk [Uold Uin]]]]]]]. destruct LV as [vl [j [EV [Hj [Nvl [Vk [Vold Vin]]]]]]].
    rewrite EU, EV. cbn beta iota zeta.
    constructor; cbn [p_u p_v]; try assumption.
    - intros y. rewrite Uin, Su. split.
      + intros [[h [Hh E]]|E]; [exists h; split; [apply in_or_app; left; exact Hh|exact E]|].
        exists (fst hc). split; [apply in_or_app; right; left; reflexivity|subst y; reflexivity].
      + intros [h [Hh E]]. apply in_app_or in Hh. destruct Hh as [Hh|[<-|[]]]; [left; exists h; auto|right; subst y; reflexivity].
    - intros y. rewrite Vin, Sv. split.
      + intros [[h [Hh E]]|E]; [exists h; split; [apply in_or_app; left; exact Hh|exact E]|].
        exists (fst hc). split; [apply in_or_app; right; left; reflexivity|subst y; reflexivity].
      + intros [h [Hh E]]. apply in_app_or in Hh. destruct Hh as [Hh|[<-|[]]]; [left; exists h; auto|right; subst y; reflexivity].
    - intros i' j'. unfold p_edges. cbn [p_gamma]. rewrite gamma_add_keys.
      assert (Hk : In (i', j') (if pmem (i, j) (map fst (p_gamma p)) then map fst (p_gamma p) else map fst (p_gamma p) ++ [(i, j)]) <->
                   In (i', j') (p_edges p) \/ (i', j') = (i, j)).
      { unfold p_edges. destruct (pmem (i, j) (map fst (p_gamma p))) eqn:Em.
        - split; [intros H; left; exact H|intros [H|H]; [exact H|rewrite H; apply pmem_In; exact Em]].
        - rewrite in_app_iff. simpl. intuition congruence. }
      rewrite Hk, Se. split.
      + intros [[h [Hh [A B]]]|E].
        * exists h. split; [apply in_or_app; left; exact Hh|]. split; [apply Uk; exact A|apply Vk; exact B].
        * inversion E; subst i' j'. exists (fst hc). split; [apply in_or_app; right; left; reflexivity|]. split; assumption.
      + intros [h [Hh [A B]]]. apply in_app_or in Hh. destruct Hh as [Hh|[<-|[]]].
        * left. exists h. split; [exact Hh|]. split.
          -- apply Uold; [apply Su; exists h; auto|exact A].
          -- apply Vold; [apply Sv; exists h; auto|exact B].
        * right. f_equal.
          -- apply (proj1 (NoDup_nth_error ul) Nul); [apply nth_error_Some; congruence|]. fold u in A. congruence.
          -- apply (proj1 (NoDup_nth_error vl) Nvl); [apply nth_error_Some; congruence|]. fold v in B. congruence.
  Qed.

  Lemma fold_part_PSpec : forall (hcs : list (hchain * R)) (p : part) D, PSpec p D ->
    PSpec (fold_left (@part_step R) hcs p) (D ++ map fst hcs).
  Proof.
    induction hcs as [|hc hcs IH]; intros p D H; cbn [fold_left map].
    - rewrite app_nil_r. exact H.
    - replace (D ++ fst hc :: map fst hcs) with ((D ++ [fst hc]) ++ map fst hcs) by (rewrite <- app_assoc; reflexivity).
      apply IH. apply part_step_PSpec. exact H.
  Qed.

  Theorem site_partition_PSpec (hcs : list (hchain * R)) : PSpec (site_partition hcs) (map fst hcs).
  Proof.
    unfold site_partition. apply (fold_part_PSpec hcs (mkpart [] [] []) []).
    constructor; cbn; try constructor.
    - intros []. - intros [h [[] _]]. - intros []. - intros [h [[] _]]. - intros []. - intros [h [[] _]].
  Qed.
End PartV.

(* ---- one pass of the site loop ---- *)
Definition reh (v : hchain) (nid : Z) : hchain := mkh (h_oids v) (h_qnums v) nid.

Section StepX.
  Variable R : cring.
  Notation graph := (graph R).
  Notation st := (st R).
  Notation part := (part R).
  Variable p : part.
  Let es := p_edges p.
  Notation nthv := (nthv R p).

  Fixpoint nextU (nid : Z) (uc : list nat) : list hchain :=
    match uc with [] => [] | i :: r => map (fun j => reh (nthv j) nid) (adj_u es i) ++ nextU (nid + 1) r end.
  Fixpoint nextV (nid : Z) (vc : list nat) : list hchain :=
    match vc with [] => [] | j :: r => reh (nthv j) nid :: nextV (nid + 1) r end.
  Definition gids (g : graph) : list Z := map n_id (g_nodes g).

  Lemma nextU_In : forall uc nid h, In h (nextU nid uc) <->
    exists a i j, nth_error uc a = Some i /\ In (i, j) es /\ h = reh (nthv j) (nid + Z.of_nat a).
  Proof.
    induction uc as [|i0 r IH]; intros nid h; cbn [nextU].
    - split; [intros []|intros [a [i [j [H _]]]]; destruct a; discriminate].
    - rewrite in_app_iff, in_map_iff, IH. split.
      + intros [[j [E Hj]]|[a [i [j [Ha [He E]]]]]].
        * exists 0%nat, i0, j. split; [reflexivity|]. split; [apply adjU_spec; exact Hj|]. rewrite <- E. f_equal. lia.
        * exists (S a), i, j. split; [exact Ha|]. split; [exact He|]. rewrite E. f_equal. lia.
      + intros [a [i [j [Ha [He E]]]]]. destruct a as [|a]; cbn [nth_error] in Ha.
        * inversion Ha; subst i0. left. exists j. split; [rewrite E; f_equal; lia|apply adjU_spec; exact He].
        * right. exists a, i, j. split; [exact Ha|]. split; [exact He|]. rewrite E. f_equal. lia.
  Qed.
  Lemma nextV_In : forall vc nid h, In h (nextV nid vc) <->
    exists b j, nth_error vc b = Some j /\ h = reh (nthv j) (nid + Z.of_nat b).
  Proof.
    induction vc as [|j0 r IH]; intros nid h; cbn [nextV In].
    - split; [intros []|intros [b [j [H _]]]; destruct b; discriminate].
    - rewrite IH. split.
      + intros [E|[b [j [Hb E]]]].
        * exists 0%nat, j0. split; [reflexivity|]. rewrite <- E. f_equal. lia.
        * exists (S b), j. split; [exact Hb|]. rewrite E. f_equal. lia.
      + intros [b [j [Hb E]]]. destruct b as [|b]; cbn [nth_error] in Hb.
        * inversion Hb; subst j0. left. rewrite E. f_equal. lia.
        * right. exists b, j. split; [exact Hb|]. rewrite E. f_equal. lia.
  Qed.

  (* ---- U branch ---- *)
  Lemma u_inner_foldX i nid : forall js (t t' : st), fold_left (u_inner p i nid) js (Ok t) = Ok t' ->
    s_g t' = s_g t /\ s_nid t' = s_nid t /\
    map fst (s_next t') = map fst (s_next t) ++ map (fun j => reh (nthv j) nid) js /\
    (forall e, In e (s_rem t) -> fst e <> i -> In e (s_rem t')).
  Proof.
    induction js as [|j js IH]; intros t t' H; cbn [fold_left] in H.
    - inversion H; subst. cbn [map]. rewrite app_nil_r. auto.
    - destruct (u_inner p i nid (Ok t) j) as [t1|er] eqn:E; [|rewrite fold_res_err in H by reflexivity; discriminate].
      apply IH in H. destruct H as [H1 [H2 [H3 H4]]].
      unfold u_inner in E. cbn [bind] in E. destruct (nth_error (p_v p) j) as [v|] eqn:Ev; [|discriminate].
      destruct (gamma_get (i, j) (p_gamma p)) as [c|]; [|discriminate].
      destruct (pmem (i, j) (s_rem t)); [|discriminate]. inversion E; subst t1. cbn [s_g s_nid s_next s_rem] in *.
      split; [exact H1|]. split; [exact H2|]. split.
      + rewrite H3, map_app, <- app_assoc. cbn [map fst app]. do 2 f_equal. unfold reh, FromOpchainsPart.nthv.
        rewrite (nth_error_nth _ _ _ Ev). reflexivity.
      + intros e He Hne. apply H4; [|exact Hne]. apply premove_keep'; [exact He|]. intros ->. apply Hne. reflexivity.
  Qed.

  Lemma gids_upd (g : graph) a f : (forall n, n_id (f n) = n_id n) -> gids (upd_node g a f) = gids g.
  Proof.
    intros Hf. unfold gids, upd_node. cbn [g_nodes]. rewrite map_map. apply map_ext. intros n. destruct (n_id n =? a); auto.
  Qed.

  Lemma u_step_X (t t' : st) i : u_step p (Ok t) i = Ok t' ->
    s_nid t' = s_nid t + 1 /\
    map fst (s_next t') = map fst (s_next t) ++ map (fun j => reh (nthv j) (s_nid t)) (adj_u es i) /\
    gids (s_g t') = gids (s_g t) ++ [s_nid t] /\
    incl (g_edges (s_g t)) (g_edges (s_g t')) /\
    (exists e, In e (g_edges (s_g t')) /\ e_to e = s_nid t) /\
    (forall e, In e (s_rem t) -> fst e <> i -> In e (s_rem t')).
  Proof.
    unfold u_step. cbn [bind]. destruct (nth_error (p_u p) i) as [u|] eqn:Eu; [|discriminate].
    destruct (add_edge (s_g t) _) as [g1|] eqn:E1; [|discriminate].
    destruct (find_node g1 (u_nidl u)) as [np|]; [|discriminate].
    destruct (negb (n_q np =? u_q0 u)); [discriminate|].
    destruct (add_node _ _) as [g2|] eqn:E2; [|discriminate]. intros H.
    apply u_inner_foldX in H. cbn [s_g s_nid s_next s_rem] in H. destruct H as [H1 [H2 [H3 H4]]].
    apply (add_edge_spec R) in E1. destruct E1 as [E1 _]. apply (add_node_spec R) in E2. destruct E2 as [E2 _].
    subst g1. subst g2. rewrite H1, H2. split; [reflexivity|]. split; [exact H3|]. split; [|split; [|split; [|exact H4]]].
    - unfold gids. cbn [g_nodes upd_node]. rewrite map_app, map_map. cbn [map n_id]. f_equal.
      apply map_ext. intros n. destruct (n_id n =? u_nidl u); [apply node_add_eid_id|reflexivity].
    - cbn [g_edges upd_node]. intros e He. apply in_or_app. left. exact He.
    - eexists. split; [cbn [g_edges upd_node]; apply in_or_app; right; left; reflexivity|reflexivity].
  Qed.

  Lemma u_fold_X : forall uc (t t' : st), fold_left (u_step p) uc (Ok t) = Ok t' ->
    s_nid t' = s_nid t + Z.of_nat (length uc) /\
    map fst (s_next t') = map fst (s_next t) ++ nextU (s_nid t) uc /\
    gids (s_g t') = gids (s_g t) ++ zrange (s_nid t) (length uc) /\
    incl (g_edges (s_g t)) (g_edges (s_g t')) /\
    (forall x, s_nid t <= x < s_nid t + Z.of_nat (length uc) -> exists e, In e (g_edges (s_g t')) /\ e_to e = x) /\
    (forall e, In e (s_rem t) -> ~ In (fst e) uc -> In e (s_rem t')).
  Proof.
    induction uc as [|i uc IH]; intros t t' H; cbn [fold_left] in H.
    - inversion H; subst. cbn [length nextU zrange]. rewrite !app_nil_r.
      split; [lia|]. split; [reflexivity|]. split; [reflexivity|]. split; [apply incl_refl|]. split; [intros x Hx; lia|auto].
    - destruct (u_step p (Ok t) i) as [t1|er] eqn:E; [|rewrite fold_res_err in H by reflexivity; discriminate].
      apply u_step_X in E. destruct E as [A1 [A2 [A3 [A4 [A5 A6]]]]].
      apply IH in H. destruct H as [B1 [B2 [B3 [B4 [B5 B6]]]]].
      cbn [length nextU zrange]. split; [lia|]. split; [|split; [|split; [|split]]].
      + rewrite B2, A2, A1, <- app_assoc. reflexivity.
      + rewrite B3, A3, A1, <- app_assoc. reflexivity.
      + intros e He. apply B4, A4, He.
      + intros x Hx. destruct (Z.eq_dec x (s_nid t)) as [->|Hne].
        * destruct A5 as [e [He Et]]. exists e. split; [apply B4; exact He|exact Et].
        * apply B5. lia.
      + intros e He Hn. apply B6; [apply A6; [exact He|]|]; intros Hc; apply Hn; [left; symmetry; exact Hc|right; exact Hc].
  Qed.

  (* ---- V branch ---- *)
  Lemma v_inner_foldX j nid q : forall is_ (t t' : st), fold_left (v_inner p j nid q) is_ (Ok t) = Ok t' ->
    s_nid t' = s_nid t /\ s_next t' = s_next t /\ gids (s_g t') = gids (s_g t) /\
    incl (g_edges (s_g t)) (g_edges (s_g t')) /\
    (forall e, In e (s_rem t) -> snd e <> j -> In e (s_rem t')) /\
    (forall i, In i is_ -> In (i, j) (s_rem t) -> exists e, In e (g_edges (s_g t')) /\ e_to e = nid).
  Proof.
    induction is_ as [|i0 is_ IH]; intros t t' H; cbn [fold_left] in H.
    - inversion H; subst. split; [reflexivity|]. split; [reflexivity|]. split; [reflexivity|]. split; [apply incl_refl|].
      split; [auto|intros i []].
    - destruct (v_inner p j nid q (Ok t) i0) as [t1|er] eqn:E; [|rewrite fold_res_err in H by reflexivity; discriminate].
      apply IH in H. destruct H as [H1 [H2 [H3 [H4 [H5 H6]]]]].
      unfold v_inner in E. cbn [bind] in E. destruct (pmem (i0, j) (s_rem t)) eqn:Em; cbn [negb] in E.
      + destruct (nth_error (p_u p) i0) as [u|] eqn:Eu; [|discriminate].
        destruct (gamma_get (i0, j) (p_gamma p)) as [c|]; [|discriminate].
        destruct (negb (u_q1 u =? q)); [discriminate|].
        destruct (find_node (s_g t) (u_nidl u)) as [np|]; [|discriminate].
        destruct (negb (n_q np =? u_q0 u)); [discriminate|].
        destruct (add_connect_edge (s_g t) _) as [g1|] eqn:Ec; [|discriminate]. inversion E; subst t1. clear E.
        cbn [s_g s_nid s_next s_rem] in *. unfold add_connect_edge in Ec.
        destruct (add_edge (s_g t) _) as [g0|] eqn:Ea; [|discriminate]. inversion Ec; subst g1. clear Ec.
        apply (add_edge_spec R) in Ea. destruct Ea as [Ea _]. subst g0.
        assert (Hed : incl (g_edges (s_g t)) (g_edges (s_g t'))).
        { intros e He. apply H4. cbn [g_edges upd_node]. apply in_or_app. left. exact He. }
        split; [exact H1|]. split; [exact H2|]. split; [|split; [exact Hed|split]].
        * rewrite H3. rewrite !gids_upd by (intros n; apply node_add_eid_id). reflexivity.
        * intros e He Hne. apply H5; [|exact Hne]. apply premove_keep'; [exact He|]. intros ->. apply Hne. reflexivity.
        * intros i _ _. eexists. split; [apply H4; cbn [g_edges upd_node]; apply in_or_app; right; left; reflexivity|reflexivity].
      + inversion E; subst t1. split; [exact H1|]. split; [exact H2|]. split; [exact H3|]. split; [exact H4|]. split; [exact H5|].
        intros i [<-|Hi] Hin; [apply pmem_In in Hin; congruence|apply (H6 i); assumption].
  Qed.

  Lemma v_step_X (t t' : st) j : v_step p (Ok t) j = Ok t' ->
    s_nid t' = s_nid t + 1 /\
    map fst (s_next t') = map fst (s_next t) ++ [reh (nthv j) (s_nid t)] /\
    gids (s_g t') = gids (s_g t) ++ [s_nid t] /\
    incl (g_edges (s_g t)) (g_edges (s_g t')) /\
    (forall e, In e (s_rem t) -> snd e <> j -> In e (s_rem t')) /\
    (forall i, In (i, j) es -> In (i, j) (s_rem t) -> exists e, In e (g_edges (s_g t')) /\ e_to e = s_nid t).
  Proof.
    unfold v_step. cbn [bind]. destruct (nth_error (p_v p) j) as [v|] eqn:Ev; [|discriminate].
    destruct (h_qnums v) as [|q qs] eqn:Eq; [discriminate|].
    destruct (add_node (s_g t) _) as [g1|] eqn:E1; [|discriminate]. intros H.
    apply v_inner_foldX in H. cbn [s_g s_nid s_next s_rem] in H. destruct H as [H1 [H2 [H3 [H4 [H5 H6]]]]].
    apply (add_node_spec R) in E1. destruct E1 as [E1 _]. subst g1.
    split; [exact H1|]. split; [|split; [|split; [exact H4|split; [exact H5|]]]].
    - rewrite H2, map_app. cbn [map fst]. do 2 f_equal. unfold reh, FromOpchainsPart.nthv. rewrite (nth_error_nth _ _ _ Ev), Eq. reflexivity.
    - rewrite H3. unfold gids. cbn [g_nodes]. rewrite map_app. reflexivity.
    - intros i Hi Hr. apply (H6 i); [apply adj_v_spec; exact Hi|exact Hr].
  Qed.

  Lemma v_fold_X : forall vc (t t' : st), NoDup vc -> fold_left (v_step p) vc (Ok t) = Ok t' ->
    s_nid t' = s_nid t + Z.of_nat (length vc) /\
    map fst (s_next t') = map fst (s_next t) ++ nextV (s_nid t) vc /\
    gids (s_g t') = gids (s_g t) ++ zrange (s_nid t) (length vc) /\
    incl (g_edges (s_g t)) (g_edges (s_g t')) /\
    (forall b j i, nth_error vc b = Some j -> In (i, j) es -> In (i, j) (s_rem t) ->
       exists e, In e (g_edges (s_g t')) /\ e_to e = s_nid t + Z.of_nat b).
  Proof.
    induction vc as [|j0 vc IH]; intros t t' Hn H; cbn [fold_left] in H.
    - inversion H; subst. cbn [length nextV zrange]. rewrite !app_nil_r.
      split; [lia|]. split; [reflexivity|]. split; [reflexivity|]. split; [apply incl_refl|].
      intros b j i Hb. destruct b; discriminate.
    - inversion Hn as [|? ? Hj0 Hn']; subst.
      destruct (v_step p (Ok t) j0) as [t1|er] eqn:E; [|rewrite fold_res_err in H by reflexivity; discriminate].
      apply v_step_X in E. destruct E as [A1 [A2 [A3 [A4 [A5 A6]]]]].
      apply (IH _ _ Hn') in H. destruct H as [B1 [B2 [B3 [B4 B5]]]].
      cbn [length nextV zrange]. split; [lia|]. split; [|split; [|split]].
      + rewrite B2, A2, A1, <- app_assoc. reflexivity.
      + rewrite B3, A3, A1, <- app_assoc. reflexivity.
      + intros e He. apply B4, A4, He.
      + intros b j i Hb He Hr. destruct b as [|b]; cbn [nth_error] in Hb.
        * inversion Hb; subst j. destruct (A6 i He Hr) as [e [He' Et]]. exists e. split; [apply B4; exact He'|rewrite Et; lia].
        * assert (Hne : j <> j0) by (intros ->; apply Hj0; eapply nth_error_In; exact Hb).
          destruct (B5 b j i Hb He) as [e [He' Et]]; [apply A5; [exact Hr|exact Hne]|].
          exists e. split; [exact He'|rewrite Et, A1; lia].
  Qed.

  (* ---- both loops ---- *)
  Theorem site_step_X (cv : list nat * list nat) (s s' : st) : NoDup (snd cv) -> site_step p cv s = Ok s' ->
    let nu := Z.of_nat (length (fst cv)) in let nv := Z.of_nat (length (snd cv)) in
    s_nid s' = s_nid s + nu + nv /\
    map fst (s_next s') = nextU (s_nid s) (fst cv) ++ nextV (s_nid s + nu) (snd cv) /\
    gids (s_g s') = gids (s_g s) ++ zrange (s_nid s) (length (fst cv) + length (snd cv)) /\
    incl (g_edges (s_g s)) (g_edges (s_g s')) /\
    (forall x, s_nid s <= x < s_nid s + nu -> exists e, In e (g_edges (s_g s')) /\ e_to e = x) /\
    (forall b j i, nth_error (snd cv) b = Some j -> In (i, j) es -> ~ In i (fst cv) ->
       exists e, In e (g_edges (s_g s')) /\ e_to e = s_nid s + nu + Z.of_nat b).
  Proof.
    intros Hnv. unfold site_step. set (s0 := mkst (s_g s) (s_nid s) (s_eid s) [] (p_edges p)).
    destruct (fold_left (u_step p) (fst cv) (Ok s0)) as [t1|er] eqn:E1;
      [|rewrite fold_res_err by reflexivity; discriminate].
    destruct (fold_left (v_step p) (snd cv) (Ok t1)) as [t2|er] eqn:E2; [|discriminate].
    cbn [bind]. destruct (s_rem t2); [|discriminate]. intros H. inversion H; subst s'. clear H.
    apply u_fold_X in E1. cbn [s0 s_g s_nid s_next s_rem map app] in E1. destruct E1 as [A1 [A2 [A3 [A4 [A5 A6]]]]].
    apply (v_fold_X _ _ _ Hnv) in E2. destruct E2 as [B1 [B2 [B3 [B4 B5]]]].
    cbn zeta. split; [lia|]. split; [|split; [|split; [|split]]].
    - rewrite B2, A2, A1. reflexivity.
    - rewrite B3, A3, A1, <- app_assoc, zrange_app. reflexivity.
    - intros e He. apply B4, A4, He.
    - intros x Hx. destruct (A5 x Hx) as [e [He Et]]. exists e. split; [apply B4; exact He|exact Et].
    - intros b j i Hb He Hi. destruct (B5 b j i Hb He) as [e [He' Et]]; [apply A6; [exact He|exact Hi]|].
      exists e. split; [exact He'|rewrite Et, A1; reflexivity].
  Qed.
End StepX.
