(* C02, round 4: boolean form of the hypothesis [contracts_ok5] of the history theorem for histories made of ring operations
   and SplitMerge steps, sound, so that the non-vacuity Example is closed by evaluation. *)
From Coq Require Import ZArith List Lia Bool Arith.
From PT Require Import Base.Scalar Base.Field Base.BigSum Base.Mx Model.Tensor Model.MPSOps Model.BondOps Model.BondOpsF5 Model.Operation Model.Sweeps.
From PT Require Import Model.Orthonormalize Model.SplitMps Model.History.
From PT Require Import Proofs.BondOpsRetained Proofs.BondOpsSVD Proofs.SplitMpsBool.
From PT Require Import Proofs.HistOps Proofs.HistInv Proofs.Hist3Top Proofs.Hist4Top.
Import ListNotations.
Open Scope nat_scope.

Section Bool5.
  Variable F : ofield.
  Notation CF := (Cx F).
  Variable dsvd : mx CF -> mx CF * list F * mx CF.
  Variable pick : list F -> list nat.

  Definition svd_lapack_okb (tol : F) (M : mx CF) (q0 q1 : list Z) : bool :=
    negb (valid_in M q0 q1) ||
    (fleb F (f0 F) tol && negb (fleb F (f1 F) tol) &&
     forallb (fun B => dsvd_okb F B (dsvd B)) (block_svd_calls M q0 q1) &&
     (is_zeromx M || let S := block_svd_spectrum F dsvd M q0 q1 in pick_okb (normsq S) (pick (normsq S)))).
  Lemma svd_lapack_okb_sound tol M q0 q1 : svd_lapack_okb tol M q0 q1 = true -> svd_lapack_ok F dsvd pick tol M q0 q1.
  Proof.
    unfold svd_lapack_okb, svd_lapack_ok. intros H Hv. rewrite Hv in H. cbn [negb orb] in H.
    rewrite !andb_true_iff in H. destruct H as [[[H1 H2] H3] H4].
    split; [exact H1|]. split; [apply negb_true_iff; exact H2|]. split; [apply (dsvd_ok_forallb F); exact H3|].
    intros Hz. rewrite Hz in H4. cbn [orb] in H4. cbv zeta. apply pick_okb_sound. exact H4.
  Qed.
  Definition split_lapack_okb (tol : F) (c : option (mx CF * list Z * list Z)) : bool :=
    match c with Some (M, q0, q1) => svd_lapack_okb tol M q0 q1 | None => true end.
  Lemma split_lapack_okb_sound tol c : split_lapack_okb tol c = true -> split_lapack_ok F dsvd pick tol c.
  Proof. destruct c as [[[M q0] q1]|]; [apply svd_lapack_okb_sound|intros _; exact I]. Qed.

  Variable dqr : mx CF -> mx CF * mx CF.
  Variable cabs : CF -> F.
  Variables (tolf tols : nat -> F).
  Variable orth : mps CF -> mps CF * CF.
  Variable qr : nat -> mx CF -> list Z -> list Z -> mx CF * mx CF * list Z.
  Variable split : nat -> site CF -> list Z -> list Z -> list Z -> list Z -> bool -> site CF * site CF * list Z.
  Variable kexp : nat -> env CF -> env CF -> osite CF -> site CF -> CF -> site CF.
  Variable kexp0 : nat -> env CF -> env CF -> mx CF -> CF -> mx CF.
  Variable keig : nat -> env CF -> env CF -> osite CF -> site CF -> CF * site CF.
  Variable tdvp_par : nat -> CF * CF * nat.
  Variable dmrg_par : nat -> nat.
  Variable O : oracles CF.

  Definition at5b (s : state CF) (o : op CF) : bool :=
    match o with
    | SplitMerge i k _ tag =>
        match nth_error (states s) i with
        | Some p => split_lapack_okb (tols tag) (split_call CF k (m_qd p) (m_qD p) (m_A p))
        | None => true
        end
    | NewMps _ _ _ _ | NewMpo _ _ _ _ | AddMps _ _ _ _ | SubMps _ _ _ | AddMpo _ _ _ _ | SubMpo _ _ _ | MulMpo _ _ _
    | Apply _ _ _ | Identity _ _ _ _ | FromOpgraph _ _ _ _ => true
    | _ => false
    end.
  Fixpoint hist5b (ops : list (op CF)) (s : state CF) : bool :=
    match ops with [] => true | o :: r => at5b s o && hist5b r (step O s o) end.

  Lemma at5b_sound s o : at5b s o = true ->
    contracts_at5 F dqr dsvd pick cabs tolf tols orth qr split kexp kexp0 keig tdvp_par dmrg_par O s o.
  Proof.
    destruct o; cbn [at5b contracts_at5 contracts_at oracle_ok_at]; intros H; try exact I; try discriminate H.
    intros p Ep. rewrite Ep in H. apply split_lapack_okb_sound. exact H.
  Qed.
  Lemma hist5b_sound ops : forall s, hist5b ops s = true ->
    contracts_ok5 F dqr dsvd pick cabs tolf tols orth qr split kexp kexp0 keig tdvp_par dmrg_par O ops s.
  Proof.
    induction ops as [|o ops IH]; intros s H; [exact I|]. cbn [hist5b] in H. apply andb_true_iff in H. destruct H as [H1 H2].
    split; [apply at5b_sound; exact H1|apply IH; exact H2].
  Qed.
End Bool5.

Arguments svd_lapack_okb {F} dsvd pick tol M q0 q1.
Arguments hist5b {F} dsvd pick tols O ops s.
