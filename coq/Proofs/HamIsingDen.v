(* C06: the Ising automaton of ising_mpo denotes  J sum_i Z_i Z_(i+1) + sum_i (h Z_i + g X_i)  for every L;
   with C17 (from_automaton: graph meaning = automaton path sum) this is the meaning of the graph ising_mpo builds. *)
From Coq Require Import ZArith List Lia Bool Ring.
From PT Require Import Base.Scalar Base.BigSum Base.Mx Model.OpGraph Model.C17Common Model.AutOp Model.HamIsing
                       Proofs.C17AutOp Proofs.C17AutPath.
From PT Require Model.FromOpchains Model.HamFormulas.
Import ListNotations.
Open Scope Z_scope.
Import PT.Model.HamFormulas.

Section IsingDen.
  Variable R : cring.
  Add Ring Rring_ising : (k_rt R).
  Notation "0r" := (k0 R). Notation "1r" := (k1 R).
  Infix "+r" := (kadd R) (at level 50, left associativity).
  Infix "*r" := (kmul R) (at level 40, left associativity).
  Variables J h g : R.
  Let aut := ising_autop J h g.
  Notation zeqb := PT.Model.FromOpchains.zlist_eqb.

  Lemma sumn_peel n (f : nat -> R) : sumn (S n) f = f 0%nat +r sumn n (fun i => f (S i)).
  Proof. change (S n) with (1 + n)%nat. rewrite sumn_app. cbn [sumn plus]. ring. Qed.

  Lemma coeff1 o x (c : R) : opics_coeff o [(x, c)] = (if x =? o then c else 0r).
  Proof. unfold opics_coeff. cbn [suml fst snd]. destruct (x =? o); ring. Qed.
  Ltac closed_eqb := repeat match goal with |- context [Z.eqb ?a ?b] =>
     match a with 0 => idtac | 1 => idtac | 2 => idtac end; match b with 0 => idtac | 1 => idtac | 2 => idtac end;
     let v := eval vm_compute in (Z.eqb a b) in change (Z.eqb a b) with v end.
  Ltac step := cbn [aut_den_from aut ising_autop a_edges suml ae_from ae_to ae_active ae_opics cedge];
               rewrite !coeff1; closed_eqb; cbn [andb].

  (* right terminal: identities only *)
  Lemma A1 : forall w i, aut_den_from aut i w 1 = indb (zeqb (repeat 0 (length w)) w).
  Proof.
    induction w as [|o w IH]; intros i; [reflexivity|].
    step. rewrite IH. cbn [length repeat zeqb]. destruct (0 =? o); cbn [andb indb]; ring.
  Qed.
  (* after the first Z: one more Z, then identities *)
  Lemma A2 : forall w i, aut_den_from aut i w 2 = match w with [] => 0r | o :: w' => indb ((1 =? o) && zeqb (repeat 0 (length w')) w') end.
  Proof.
    intros [|o w] i; [reflexivity|].
    step. rewrite A1. destruct (1 =? o); cbn [andb indb]; ring.
  Qed.

  Lemma T1_cons0 L a o w : T1 (R := R) (S L) a 0 (o :: w) = indb ((a =? o) && zeqb (repeat 0 L) w).
  Proof. unfold T1, is_word, padw. cbn [length repeat app zeqb]. replace (S L - 1 - 0)%nat with L by lia. reflexivity. Qed.
  Lemma T1_consS L a i o w : T1 (R := R) (S L) a (S i) (o :: w) = indb (0 =? o) *r T1 L a i w.
  Proof.
    unfold T1, is_word, padw. cbn [length repeat app zeqb]. replace (S L - 1 - S i)%nat with (L - 1 - i)%nat by lia.
    destruct (0 =? o); cbn [andb indb]; ring.
  Qed.
  Lemma T2_cons0 L a b o o2 w : T2 (R := R) (S (S L)) a b 0 (o :: o2 :: w) = indb ((a =? o) && ((b =? o2) && zeqb (repeat 0 L) w)).
  Proof. unfold T2, is_word, padw. cbn [length repeat app zeqb]. replace (S (S L) - 2 - 0)%nat with L by lia. reflexivity. Qed.
  Lemma T2_consS L a b i o w : T2 (R := R) (S L) a b (S i) (o :: w) = indb (0 =? o) *r T2 L a b i w.
  Proof.
    unfold T2, is_word, padw. cbn [length repeat app zeqb]. replace (S L - 2 - S i)%nat with (L - 2 - i)%nat by lia.
    destruct (0 =? o); cbn [andb indb]; ring.
  Qed.

  Lemma A0 : forall w i, aut_den_from aut i w 0 = ising_formula J h g (length w) w.
  Proof.
    induction w as [|o w IH]; intros i.
    - cbn. unfold ising_formula. cbn [sumn Nat.sub]. ring.
    - step. rewrite IH, A2, A1.
      unfold ising_formula. cbn [length]. replace (S (length w) - 1)%nat with (length w) by lia.
      rewrite (sumn_peel (length w)). rewrite !T1_cons0.
      rewrite (sumn_ext R (length w) (fun i0 => h *r T1 (S (length w)) 1 (S i0) (o :: w) +r g *r T1 (S (length w)) 2 (S i0) (o :: w))
                                     (fun i0 => indb (0 =? o) *r (h *r T1 (length w) 1 i0 w +r g *r T1 (length w) 2 i0 w)))
        by (intros; rewrite !T1_consS; ring).
      rewrite sumn_scal_l.
      destruct w as [|o2 w2].
      + cbn [length sumn Nat.sub]. destruct (0 =? o), (1 =? o), (2 =? o); cbn [andb indb repeat zeqb]; ring.
      + cbn [length]. replace (S (length w2) - 1)%nat with (length w2) by lia.
        rewrite (sumn_peel (length w2) (fun i0 => T2 (S (S (length w2))) 1 1 i0 (o :: o2 :: w2))). rewrite T2_cons0.
        rewrite (sumn_ext R (length w2) (fun i0 => T2 (S (S (length w2))) 1 1 (S i0) (o :: o2 :: w2))
                                        (fun i0 => indb (0 =? o) *r T2 (S (length w2)) 1 1 i0 (o2 :: w2)))
          by (intros; rewrite T2_consS; ring).
        rewrite sumn_scal_l.
        destruct (0 =? o), (1 =? o), (2 =? o), (1 =? o2); cbn [andb indb]; ring.
  Qed.

  Theorem ising_aut_den L w : aut_den aut L w = if Nat.eqb (length w) L then ising_formula J h g L w else 0r.
  Proof.
    unfold aut_den. destruct (Nat.eqb (length w) L) eqn:E; [|reflexivity]. apply Nat.eqb_eq in E. subst L.
    apply (A0 w 0%nat).
  Qed.

  Lemma ising_consistent : aut_consistent aut = true.
  Proof. reflexivity. Qed.

  (* the graph ising_mpo hands to MPO.from_opgraph *)
  Theorem ising_den L gr : ising_graph J h g L = Some gr ->
    forall w, den gr w = if Nat.eqb (length w) L then ising_formula J h g L w else 0r.
  Proof.
    intros H w. unfold ising_graph in H. rewrite (from_automaton_den R aut L gr ising_consistent H w). apply ising_aut_den.
  Qed.
End IsingDen.
