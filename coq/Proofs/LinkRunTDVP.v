(* Link 4d (C08): single-site TDVP with the Krylov-based local solvers [kexp_lanczos] (one-site step) and [kexp0_lanczos]
   (zero-site / bond step).  Along the run the LAPACK-level contracts of the calls recorded in the trace ([lttr_ok]: block
   QR; numpy.linalg.norm, eigh_tridiagonal, numpy.exp on the calls of each local Lanczos exponential) imply the
   conserving-solver contracts [ttr_ok] consumed by the whole-run theorem: the sweep invariant makes every one-site and
   every zero-site effective operator self-adjoint (Hermitian MPO) and every start tensor non-zero (norm one). *)
From Coq Require Import ZArith Arith List Lia Ring Field Setoid Bool.
From PT Require Import Base.Scalar Base.Field Base.BigSum Base.Mx Model.Tensor Model.Operation Model.Krylov Model.Sweeps
  Proofs.OperationSums Proofs.OperationEntries Proofs.OperationChains Proofs.OperationLocal Proofs.OperationUniform
  Proofs.KrylovLanczos Proofs.KrylovRitz
  Proofs.SweepsCanon Proofs.SweepsFlow Proofs.SweepsSched Proofs.SweepsLocal Proofs.SweepsGauge Proofs.SweepsBond Proofs.SweepsInv Proofs.SweepsRun
  Proofs.LinkFlatten Proofs.LinkLocalOps Proofs.LinkSolvers Proofs.LinkCtx Proofs.LinkBond.
Import ListNotations.

Section LinkTDVP1.
  Variable F : ofield.
  Notation K := (Cx F).
  Variable qr : nat -> mx K -> list BinNums.Z -> list BinNums.Z -> mx K * mx K * list BinNums.Z.
  Variable dnorm : list K -> F.
  Variable small : F -> bool.
  Variable deigh : list F -> list F -> list F * list (list F).
  Variable dexp : K -> K.
  Variable dexpm : list (list K) -> list (list K).
  Variable numiter : nat.
  Notation kexp := (kexp_lanczos F dnorm small deigh dexp dexpm numiter).
  Notation kexp0 := (kexp0_lanczos F dnorm small deigh dexp dexpm numiter).
  Variable Hs : list (osite K).
  Variable qd : list BinNums.Z.
  Variables (dt hdt : K).
  Variable d : nat.
  Variable DsW : list nat.
  Hypothesis Hd : 0 < d.
  Hypothesis HWs : ochain_ok (repeat d (length Hs)) DsW Hs.
  Hypothesis HhW : hd 0 DsW = 1.
  Hypothesis Hherm : mpo_herm F Hs d.
  Hypothesis small_pos : small_sound F small.
  Hypothesis Hm : 1 <= numiter.
  Notation L := (length Hs).
  Notation Zi := (Z K Hs d).
  Notation NNi := (NN K Hs d).
  Notation EEi := (EE K Hs d).
  Notation tok := (ttr_ok qr kexp kexp0 Hs dt hdt d).

  (* LAPACK-level contracts of the calls recorded in a trace of single-site TDVP *)
  Definition ltdvp_call_ok (p : nat) (t : tcall K) : Prop :=
    let W := nth (c_site (t_call t)) Hs [] in
    let tm := tval dt hdt (c_coef (t_call t)) in
    match c_kind (t_call t), t_envs t, t_ten t, t_qs t with
    | KH, [BL; BR], [A], _ => kexp_lanczos_calls_ok F dnorm small deigh dexp numiter BL BR W A tm
    | KB, [BL; BR], [[C]], _ => kexp0_lanczos_calls_ok F dnorm small deigh dexp numiter BL BR C tm
    | QR, _, [[M]], [q0; q1] => qr_ok M (qr p M q0 q1)
    | _, _, _, _ => True
    end.
  Fixpoint lttr_ok (tr : list (tcall K)) : Prop :=
    match tr with [] => True | t :: rest => ltdvp_call_ok (length rest) t /\ lttr_ok rest end.
  Lemma lttr_ok_suffix new old : lttr_ok (new ++ old) -> lttr_ok old.
  Proof. induction new as [|t new IH]; [exact (fun H => H)|]. cbn [app lttr_ok]. intros [_ H]. exact (IH H). Qed.

  (* per call: a one-site step issued at a state satisfying the invariant meets the conserving contract *)
  Lemma kh_entry_ok (st : sw K) i p t : Zi st i -> NNi (s_A st) = k1 K ->
    kexp_lanczos_calls_ok F dnorm small deigh dexp numiter (gBL st i) (gBR st i) (nth i Hs []) (gA st i) t ->
    kexp_ok d (gBL st i) (gBR st i) (nth i Hs []) (gA st i) (kexp p (gBL st i) (gBR st i) (nth i Hs []) (gA st i) t).
  Proof.
    intros HZ HN Hc.
    destruct (Z_local_ctx F Hs d DsW Hd HWs HhW st i HZ) as (Dl & Dr & Dwl & Dwr & Hwl & Hwr & HW & HBL & HBR & HA & N0 & Hsa).
    apply (kexp_from_krylov F dnorm small deigh dexp dexpm numiter small_pos Hm d Dl Dr Dwl Dwr); try assumption.
    - apply Hsa. exact Hherm.
    - rewrite <- N0, HN. apply k1_neq_k0.
  Qed.

  Lemma mid_bridge (st : sw K) i : Zi st i -> NNi (s_A st) = k1 K -> tok (s_tr st) ->
    lttr_ok (s_tr (tdvp1_mid kexp Hs dt hdt st i)) -> tok (s_tr (tdvp1_mid kexp Hs dt hdt st i)).
  Proof.
    intros HZ HN Hold Hl. unfold tdvp1_mid in *. cbn [s_tr] in *. destruct Hl as [HK _].
    split; [|exact Hold]. exact (kh_entry_ok st i _ _ HZ HN HK).
  Qed.

  (* the bond operator behind a left-to-right QR move *)
  Lemma lr_bridge (st : sw K) i : Zi st i -> NNi (s_A st) = k1 K -> S i < L -> tok (s_tr st) ->
    lttr_ok (s_tr (tdvp1_lr qr kexp kexp0 Hs qd dt hdt st i)) -> tok (s_tr (tdvp1_lr qr kexp kexp0 Hs qd dt hdt st i)).
  Proof.
    intros HZ HN HSi Hold Hl. destruct (Z_len K Hs d st i HZ) as (Hlen & Hi & HlBL & HlBR).
    unfold tdvp1_lr, qr_left in *. cbv zeta in *.
    set (A1 := kexp (length (s_tr st)) (gBL st i) (gBR st i) (nth i Hs []) (gA st i) (tval dt hdt 1)) in *.
    destruct (qr (S (length (s_tr st))) (site_flat A1) (qflat qd (gq st i)) (gq st (S i))) as [[Q C] qb] eqn:Eq.
    cbn [s_tr s_A s_BL s_BR s_qD] in *. destruct Hl as (LB0 & _ & LQ & LK & _).
    assert (HcK : kexp_ok d (gBL st i) (gBR st i) (nth i Hs []) (gA st i) A1) by exact (kh_entry_ok st i _ _ HZ HN LK).
    assert (HcQ : qr_ok (site_flat A1) (Q, C, qb)).
    { pose proof LQ as LQ'. unfold ltdvp_call_ok in LQ'. cbn [at_site t_call c_kind c_site c_coef t_envs t_ten t_qs length] in LQ'.
      rewrite Eq in LQ'. exact LQ'. }
    set (sta := mksw (lset (s_A st) i A1) (s_qD st) (s_BL st) (s_BR st) (s_tr st)).
    destruct (evolve_center K Hs d DsW Hd HWs HhW st sta i A1 HZ HcK eq_refl eq_refl eq_refl) as (HZa & Na & _).
    assert (GAa : gA sta i = A1) by (unfold gA, sta; cbn [s_A]; apply nth_lset_same; lia).
    assert (GBa : gA sta (S i) = gA st (S i)) by (unfold gA, sta; cbn [s_A]; apply nth_lset_other; lia).
    pose proof HcQ as HcQa. rewrite <- GAa in HcQa.
    destruct (Z_move_right K Hs d DsW Hd HWs HhW sta i Q C qb HZa HSi HcQa) as (N0 & _ & Hmv).
    rewrite GAa in Hmv. set (Aq := site_unflat (length A1) (sdl A1) Q) in *.
    change (gBL sta i) with (gBL st i) in *. change (gBR sta i) with (gBR st i) in *.
    set (BLn := contraction_operator_step_left Aq Aq (nth i Hs []) (gBL st i)) in *.
    (* the state with C itself absorbed into the right neighbour: centre at i+1 *)
    set (stc := mksw (lset (lset (s_A sta) i Aq) (S i) (lmul_site C (gA sta (S i)))) (s_qD st) (lset (s_BL st) (S i) BLn) (s_BR st) (s_tr st)).
    destruct (Hmv C stc eq_refl eq_refl eq_refl eq_refl eq_refl) as (HZc & _ & _).
    destruct (Z_local_ctx F Hs d DsW Hd HWs HhW stc (S i) HZc) as (Dl & Dr & Dwl & Dwr & Hwl & Hwr & HW & HBLc & HBRc & HAc & _ & Hsa).
    assert (GLc : gBL stc (S i) = BLn) by (unfold gBL, stc; cbn [s_BL]; apply nth_lset_same; lia).
    assert (GAc : gA stc (S i) = cmul_site C (gA st (S i))).
    { unfold gA, stc. cbn [s_A]. rewrite nth_lset_same by (rewrite lset_length; unfold sta; cbn [s_A]; rewrite lset_length; lia). rewrite GBa. reflexivity. }
    change (gBR stc (S i)) with (gBR st (S i)) in *. rewrite GLc in *. rewrite GAc in HAc.
    destruct (Z_right_neighbour K Hs d sta i HZa HSi) as (Da & D2 & HB & HDa & EBR).
    rewrite GBa in HB, EBR. change (gBR sta i) with (gBR st i) in EBR. change (gBR sta (S i)) with (gBR st (S i)) in EBR.
    destruct (Z_local_ctx F Hs d DsW Hd HWs HhW sta i HZa) as (Dl1 & Dr1 & _ & _ & _ & _ & _ & _ & _ & HA1 & _ & _).
    pose proof (HDa Dl1 Dr1 HA1 Hd) as EDr1. rewrite GAa in HA1.
    destruct (qr_left_site K d Dl1 Dr1 A1 Q C qb Hd HA1 HcQ) as (_ & HcC & _ & _).
    assert (HncC : nc C = Da) by congruence.
    assert (HCB : site_ok d (nr C) D2 (cmul_site C (gA st (S i)))) by (apply (cmul_site_ok K d (nr C) Da D2); [exact HB|reflexivity]).
    destruct (site_ok_unique F d Dl Dr (nr C) D2 _ Hd HAc HCB) as [EDl EDr]. subst Dl Dr.
    (* zero-site contract *)
    assert (HBRi : env_ok Dwl (nc C) (nc C) (gBR st i)).
    { rewrite EBR, HncC. apply (shape_opstep_right K d Da D2 Da D2 Dwl Dwr); assumption. }
    assert (Hbsa : bond_sa F (nr C) (nc C) BLn (gBR st i)).
    { intros X Y hx1 hx2 hy1 hy2. rewrite EBR. rewrite HncC in hx2, hy2.
      rewrite !(bond_as_site K d (nr C) Da D2 Dwl Dwr BLn (gBR st (S i)) (nth (S i) Hs []) (gA st (S i))) by assumption.
      apply (Hsa Hherm); apply (cmul_site_ok K d (nr C) Da D2); assumption. }
    assert (Hnz : frob C C <> k0 K) by (rewrite <- N0, Na, HN; apply k1_neq_k0).
    split; [|split; [exact I|split; [exact LQ|split; [exact HcK|exact Hold]]]].
    exact (kexp0_from_krylov F dnorm small deigh dexp dexpm numiter small_pos Hm Dwl _ BLn (gBR st i) C _ Hwl HBLc HBRi Hbsa Hnz LB0).
  Qed.
  (* the bond operator behind a right-to-left QR move, then the one-site step on the left neighbour *)
  Lemma rl_bridge (st : sw K) i : Zi st i -> NNi (s_A st) = k1 K -> 0 < i -> tok (s_tr st) ->
    lttr_ok (s_tr (tdvp1_rl qr kexp kexp0 Hs qd dt hdt st i)) -> tok (s_tr (tdvp1_rl qr kexp kexp0 Hs qd dt hdt st i)).
  Proof.
    intros HZ HN Hi0 Hold Hl. destruct (Z_len K Hs d st i HZ) as (Hlen & Hi & HlBL & HlBR).
    unfold tdvp1_rl, qr_right in *. cbv zeta in *.
    destruct (qr (length (s_tr st)) (site_flat (site_tr (gA st i))) (qflat qd (zneg (gq st (S i)))) (zneg (gq st i))) as [[Q C] qb] eqn:Eq.
    cbn [s_tr s_A s_BL s_BR s_qD] in *. destruct Hl as (LK & LB0 & _ & LQ & _).
    assert (HcQ : qr_ok (site_flat (site_tr (gA st i))) (Q, C, qb)).
    { pose proof LQ as LQ'. unfold ltdvp_call_ok in LQ'. cbn [at_site t_call c_kind c_site c_coef t_envs t_ten t_qs length] in LQ'.
      rewrite Eq in LQ'. exact LQ'. }
    destruct (Z_move_left K Hs d DsW Hd HWs HhW st i Q C qb HZ Hi0 HcQ) as (N0 & _ & Hmv).
    set (Aq := site_tr (site_unflat (length (site_tr (gA st i))) (sdl (site_tr (gA st i))) Q)) in *.
    set (BRn := contraction_operator_step_right Aq Aq (nth i Hs []) (gBR st i)) in *.
    set (C1 := kexp0 (S (S (length (s_tr st)))) (gBL st i) BRn (trmx C) (tval dt hdt (-1))) in *.
    destruct (Z_local_ctx F Hs d DsW Hd HWs HhW st i HZ) as (Dl & Dr & Dwl & Dwr & Hwl & Hwr & HW & HBL & HBR & HA & _ & Hsa).
    destruct (qr_right_site K d Dl Dr (gA st i) Q C qb Hd HA HcQ) as (HAq & HcC & _ & _). fold Aq in HAq.
    (* zero-site contract *)
    assert (HBLi : env_ok Dwl (nr (trmx C)) (nr (trmx C)) (gBL st i)) by (change (nr (trmx C)) with (nc C); rewrite HcC; exact HBL).
    assert (HBRn : env_ok Dwl (nc (trmx C)) (nc (trmx C)) BRn).
    { change (nc (trmx C)) with (nr C). apply (shape_opstep_right K d (nr C) Dr (nr C) Dr Dwl Dwr); assumption. }
    assert (Hbsa : bond_sa F (nr (trmx C)) (nc (trmx C)) (gBL st i) BRn).
    { change (nr (trmx C)) with (nc C). change (nc (trmx C)) with (nr C). rewrite HcC.
      intros X Y hx1 hx2 hy1 hy2. unfold BRn.
      rewrite !(bond_as_site K d Dl (nr C) Dr Dwl Dwr (gBL st i) (gBR st i) (nth i Hs []) Aq) by assumption.
      apply (Hsa Hherm); apply (cmul_site_ok K d Dl (nr C) Dr); assumption. }
    assert (Hnz : frob (trmx C) (trmx C) <> k0 K) by (rewrite <- N0, HN; apply k1_neq_k0).
    assert (HcB : kexp0_ok (gBL st i) BRn (trmx C) C1)
      by exact (kexp0_from_krylov F dnorm small deigh dexp dexpm numiter small_pos Hm Dwl _ (gBL st i) BRn (trmx C) _ Hwl HBLi HBRn Hbsa Hnz LB0).
    pose proof HcB as (c1 & c2 & c3 & c4).
    (* the state after the bond step, before the last half step *)
    set (stb := mksw (lset (lset (s_A st) i Aq) (i - 1) (rmul_site (gA st (i - 1)) C1)) (s_qD st) (s_BL st) (lset (s_BR st) (i - 1) BRn) (s_tr st)).
    assert (Hc1 : nr C1 = nc C) by (rewrite c1; reflexivity).
    assert (Hc2 : nc C1 = nr C) by (rewrite c2; reflexivity).
    destruct (Hmv C1 stb Hc1 Hc2 eq_refl eq_refl eq_refl) as (HZb & Nb & _).
    assert (GAb : gA stb (i - 1) = rmul_site (gA st (i - 1)) C1) by (unfold gA, stb; cbn [s_A]; apply nth_lset_same; rewrite lset_length; lia).
    assert (GRb : gBR stb (i - 1) = BRn) by (unfold gBR, stb; cbn [s_BR]; apply nth_lset_same; lia).
    assert (HNb : NNi (s_A stb) = k1 K) by (rewrite Nb, c3, <- N0; exact HN).
    pose proof (kh_entry_ok stb (i - 1) (S (S (S (length (s_tr st))))) (tval dt hdt 1) HZb HNb) as HK.
    change (gBL stb (i - 1)) with (gBL st (i - 1)) in HK. rewrite GAb, GRb in HK.
    split; [exact (HK LK)|]. split; [exact HcB|]. split; [exact I|]. split; [exact LQ|exact Hold].
  Qed.

  (* ---- one time step, any number of steps: the conserving contracts hold along the run ---- *)
  Definition QT (i : nat) (st : sw K) : Prop := Zi st i /\ NNi (s_A st) = k1 K /\ tok (s_tr st).

  Lemma step_lr (st : sw K) i : QT i st -> S i < L -> lttr_ok (s_tr (tdvp1_lr qr kexp kexp0 Hs qd dt hdt st i)) ->
    QT (S i) (tdvp1_lr qr kexp kexp0 Hs qd dt hdt st i).
  Proof.
    intros (HZ & HN & Hold) HSi Hl. pose proof (lr_bridge st i HZ HN HSi Hold Hl) as Hr.
    destruct (tdvp_lr_step K qr kexp kexp0 Hs qd dt hdt d DsW Hd HWs HhW st i HZ HSi Hr) as (HZ' & HN' & _).
    split; [exact HZ'|]. split; [rewrite HN'; exact HN|exact Hr].
  Qed.
  Lemma step_rl (st : sw K) i : QT i st -> 0 < i -> lttr_ok (s_tr (tdvp1_rl qr kexp kexp0 Hs qd dt hdt st i)) ->
    QT (i - 1) (tdvp1_rl qr kexp kexp0 Hs qd dt hdt st i).
  Proof.
    intros (HZ & HN & Hold) Hi Hl. pose proof (rl_bridge st i HZ HN Hi Hold Hl) as Hr.
    destruct (tdvp_rl_step K qr kexp kexp0 Hs qd dt hdt d DsW Hd HWs HhW st i HZ Hi Hr) as (HZ' & HN' & _).
    split; [exact HZ'|]. split; [rewrite HN'; exact HN|exact Hr].
  Qed.
  Lemma step_mid (st : sw K) i : QT i st -> lttr_ok (s_tr (tdvp1_mid kexp Hs dt hdt st i)) -> QT i (tdvp1_mid kexp Hs dt hdt st i).
  Proof.
    intros (HZ & HN & Hold) Hl. pose proof (mid_bridge st i HZ HN Hold Hl) as Hr.
    destruct (tdvp_mid_step K qr kexp kexp0 Hs dt hdt d DsW Hd HWs HhW st i HZ Hr) as (HZ' & HN' & _).
    split; [exact HZ'|]. split; [rewrite HN'; exact HN|exact Hr].
  Qed.

  Lemma step_bridge (st : sw K) : 1 <= L -> QT 0 st ->
    lttr_ok (s_tr (tdvp1_step qr kexp kexp0 Hs qd dt hdt L st)) -> QT 0 (tdvp1_step qr kexp kexp0 Hs qd dt hdt L st).
  Proof.
    intros HL1 HT Hok. unfold tdvp1_step in *. cbv zeta in *.
    set (st1 := fold_left (tdvp1_lr qr kexp kexp0 Hs qd dt hdt) (seq 0 (L - 1)) st) in *.
    set (st2 := tdvp1_mid kexp Hs dt hdt st1 (L - 1)) in *.
    assert (Hok2 : lttr_ok (s_tr st2)).
    { destruct (fold_mono (@s_tr K) (tdvp1_rl qr kexp kexp0 Hs qd dt hdt) (suf_tdvp1_rl K qr kexp kexp0 Hs qd dt hdt) (rev (seq 1 (L - 1))) st2) as [new E].
      rewrite E in Hok. exact (lttr_ok_suffix _ _ Hok). }
    assert (Hok1 : lttr_ok (s_tr st1)).
    { unfold st2, tdvp1_mid in Hok2. cbn [s_tr] in Hok2. exact (proj2 Hok2). }
    assert (H1 : QT (0 + (L - 1)) st1).
    { unfold st1.
      apply (fold_up (@s_tr K) (tdvp1_lr qr kexp kexp0 Hs qd dt hdt) (suf_tdvp1_lr K qr kexp kexp0 Hs qd dt hdt) lttr_ok lttr_ok_suffix QT (L - 1) 0 st HT Hok1).
      intros i s' Hi HQ Hoki. apply step_lr; [exact HQ|lia|exact Hoki]. }
    cbn [Nat.add] in H1.
    assert (H2 : QT (L - 1) st2) by (apply step_mid; [exact H1|exact Hok2]).
    apply (fold_down (@s_tr K) (tdvp1_rl qr kexp kexp0 Hs qd dt hdt) (suf_tdvp1_rl K qr kexp kexp0 Hs qd dt hdt) lttr_ok lttr_ok_suffix QT (L - 1) 0 st2 H2 Hok).
    intros i s' Hi HQ Hoki. apply step_rl; [exact HQ|lia|exact Hoki].
  Qed.

  Lemma iter_bridge n : forall st, 1 <= L -> QT 0 st ->
    lttr_ok (s_tr (iter n (tdvp1_step qr kexp kexp0 Hs qd dt hdt L) st)) -> QT 0 (iter n (tdvp1_step qr kexp kexp0 Hs qd dt hdt L) st).
  Proof.
    induction n as [|n IH]; intros st HL1 HT Hok; cbn [iter] in *; [exact HT|].
    apply IH; [exact HL1| |exact Hok]. apply step_bridge; [exact HL1|exact HT|].
    destruct (suf_tdvp_iter K qr kexp kexp0 Hs qd dt hdt n (tdvp1_step qr kexp kexp0 Hs qd dt hdt L st)) as [new E]. rewrite E in Hok. exact (lttr_ok_suffix _ _ Hok).
  Qed.
End LinkTDVP1.

Arguments lttr_ok {F} qr dnorm small deigh dexp numiter Hs dt hdt tr.
Arguments ltdvp_call_ok {F} qr dnorm small deigh dexp numiter Hs dt hdt p t.

(* the LAPACK-level trace contract implies the conserving-solver contracts along every run of tdvp_singlesite *)
Theorem tdvp1_lapack_to_conserving (F : ofield) orth qr dnorm small deigh dexp dexpm numiter (H : mpo (Cx F)) psi dt hdt n d DsW Ds0 A qD nrm tr :
  tdvp_singlesite orth qr (kexp_lanczos F dnorm small deigh dexp dexpm numiter) (kexp0_lanczos F dnorm small deigh dexp dexpm numiter) H psi dt hdt n = Some (A, qD, nrm, tr) ->
  mpo_shapeb d DsW (o_A H) = true -> mps_shapeb d Ds0 (m_A (fst (orth psi))) = true ->
  Forall right_iso (m_A (fst (orth psi))) ->
  mpo_herm F (o_A H) d -> small_sound F small -> 1 <= numiter ->
  lttr_ok qr dnorm small deigh dexp numiter (o_A H) dt hdt (rev tr) ->
  ttr_ok qr (kexp_lanczos F dnorm small deigh dexp dexpm numiter) (kexp0_lanczos F dnorm small deigh dexp dexpm numiter) (o_A H) dt hdt d (rev tr).
Proof.
  intros Hrun HH Hp Hiso Hherm Hsm Hm Hok.
  unfold tdvp_singlesite in Hrun. destruct (sweep_init orth H psi) as [[st nrm']|] eqn:Einit; [|discriminate].
  assert (Hd : 0 < d).
  { unfold mpo_shapeb in HH. rewrite !andb_true_iff in HH. destruct HH as (((((HH0 & _) & _) & _) & _) & _). apply Nat.ltb_lt. exact HH0. }
  assert (HL1 : 1 <= length (o_A H)).
  { unfold mpo_shapeb in HH. rewrite !andb_true_iff, negb_true_iff, Nat.eqb_neq in HH. destruct HH as (((((_ & HH1) & _) & _) & _) & _). lia. }
  destruct (Z_init (Cx F) d Hd orth H psi st nrm' DsW Ds0 Einit HH Hp Hiso) as (HZ & HN & Etr & _ & HWs & HhW).
  injection Hrun as <- <- <- <-. rewrite rev_involutive in *.
  apply (iter_bridge F qr dnorm small deigh dexp dexpm numiter (o_A H) (m_qd psi) dt hdt d DsW Hd HWs HhW Hherm Hsm Hm n st HL1); [|exact Hok].
  split; [exact HZ|]. split; [exact HN|]. rewrite Etr. exact I.
Qed.

(* WHOLE RUN with the Krylov-based local solvers: the remaining hypotheses are LAPACK-level contracts on the issued
   calls and Hermiticity of the MPO *)
Theorem tdvp1_run_lapack (F : ofield) orth qr dnorm small deigh dexp dexpm numiter (H : mpo (Cx F)) psi dt hdt n d DsW Ds0 A qD nrm tr :
  tdvp_singlesite orth qr (kexp_lanczos F dnorm small deigh dexp dexpm numiter) (kexp0_lanczos F dnorm small deigh dexp dexpm numiter) H psi dt hdt n = Some (A, qD, nrm, tr) ->
  mpo_shapeb d DsW (o_A H) = true -> mps_shapeb d Ds0 (m_A (fst (orth psi))) = true ->
  Forall right_iso (m_A (fst (orth psi))) ->
  mpo_herm F (o_A H) d -> small_sound F small -> 1 <= numiter ->
  lttr_ok qr dnorm small deigh dexp numiter (o_A H) dt hdt (rev tr) ->
  let L := length (o_A H) in
  nrm = snd (orth psi) /\
  dnorm2 d L A = k1 (Cx F) /\
  denergy d L A (o_A H) = denergy d L (m_A (fst (orth psi))) (o_A H).
Proof.
  intros Hrun HH Hp Hiso Hherm Hsm Hm Hok.
  apply (tdvp1_run (Cx F) orth qr (kexp_lanczos F dnorm small deigh dexp dexpm numiter) (kexp0_lanczos F dnorm small deigh dexp dexpm numiter) H psi dt hdt n d DsW Ds0 A qD nrm tr); try assumption.
  apply (tdvp1_lapack_to_conserving F orth qr dnorm small deigh dexp dexpm numiter H psi dt hdt n d DsW Ds0 A qD nrm tr); assumption.
Qed.
