(* C08/C10 — the mixed-canonical invariant of the sweep state (Model/Sweeps.v) and its preservation by the three
   kinds of moves: replacing the centre tensor (local solver), moving the centre one site to the right / left through a
   QR (with an arbitrary bond matrix absorbed, so that the zero-site step of TDVP is covered), and the final
   normalising QR of a DMRG sweep. *)
From Coq Require Import ZArith Arith List Lia Ring Setoid Bool.
From PT Require Import Base.Scalar Base.BigSum Base.Mx Model.Tensor Model.Operation Model.Sweeps
  Proofs.OperationSums Proofs.OperationEntries Proofs.OperationChains Proofs.OperationLocal Proofs.OperationUniform
  Proofs.SweepsCanon Proofs.SweepsFlow Proofs.SweepsLocal Proofs.SweepsGauge Proofs.SweepsBond.
Import ListNotations.

(* ---------------- list facts ---------------- *)
Lemma lset_app_mid {T} (Al : list T) X rest Y : lset (Al ++ X :: rest) (length Al) Y = Al ++ Y :: rest.
Proof. induction Al as [|a Al IH]; [reflexivity|]. cbn [app length lset]. rewrite IH. reflexivity. Qed.
Lemma nth_app_mid2 {T} (Al : list T) X B rest dflt : nth (S (length Al)) (Al ++ X :: B :: rest) dflt = B.
Proof. induction Al as [|a Al IH]; [reflexivity|]. cbn [app length nth]. exact IH. Qed.
Lemma lset_app_mid2 {T} (Al : list T) X B rest Y : lset (Al ++ X :: B :: rest) (S (length Al)) Y = Al ++ X :: Y :: rest.
Proof. induction Al as [|a Al IH]; [reflexivity|]. cbn [app length lset]. rewrite IH. reflexivity. Qed.
Lemma firstn_app_le {T} (l1 l2 : list T) j : j <= length l1 -> firstn j (l1 ++ l2) = firstn j l1.
Proof. intros H. rewrite firstn_app. replace (j - length l1) with 0 by lia. cbn [firstn]. apply app_nil_r. Qed.
Lemma firstn_app_exact {T} (l1 l2 : list T) : firstn (length l1) (l1 ++ l2) = l1.
Proof. rewrite firstn_app, Nat.sub_diag, firstn_all. cbn [firstn]. apply app_nil_r. Qed.
Lemma skipn_app_exact {T} (l1 l2 : list T) : skipn (length l1) (l1 ++ l2) = l2.
Proof. rewrite skipn_app, Nat.sub_diag, skipn_all. reflexivity. Qed.
Lemma skipn_S_app_exact {T} (l1 : list T) x l2 : skipn (S (length l1)) (l1 ++ x :: l2) = l2.
Proof. induction l1 as [|a l1 IH]; [reflexivity|]. cbn [app length]. exact IH. Qed.
Lemma snoc_split {T} (l : list T) : l <> [] -> exists l' x, l = l' ++ [x].
Proof. intros H. destruct (exists_last H) as (l' & x & E). exists l', x. exact E. Qed.

Section Inv.
  Variable R : cring.
  Add Ring Rring_sweeps_inv : (k_rt R).
  Infix "*" := (kmul R).
  Notation site := (site R).
  Notation osite := (osite R).
  Notation env := (env R).
  Notation mx := (mx R).
  Notation cj := (kconj R).
  Notation sw := (sw R).

  Variable Hs : list osite.
  Variable d : nat.
  Variable DsW : list nat.
  Hypothesis Hd : 0 < d.
  Hypothesis HWs : ochain_ok (repeat d (length Hs)) DsW Hs.
  Hypothesis HhW : hd 0 DsW = 1.
  Notation L := (length Hs).

  Definition NN (A : list site) : R := dnorm2 d L A.
  Definition EE (A : list site) : R := denergy d L A Hs.
  Definition alh := @apply_local_hamiltonian R.
  Definition albc := @apply_local_bond_contraction R.

  Lemma NN_ext A B : (forall w, In w (words d L) -> amp A w = amp B w) -> NN A = NN B.
  Proof. intros H. unfold NN, dnorm2. apply suml_ext; intros w Hw. rewrite (H w Hw). reflexivity. Qed.
  Lemma EE_ext A B : (forall w, In w (words d L) -> amp A w = amp B w) -> EE A = EE B.
  Proof.
    intros H. unfold EE, denergy. apply suml_ext; intros w Hw. apply suml_ext; intros w' Hw'.
    rewrite (H w Hw), (H w' Hw'). reflexivity.
  Qed.

  (* ---------------- folds ---------------- *)
  Lemma lfold_snoc (Al : list site) : forall (Wl : list osite) (A : site) (W : osite) (E : env), length Wl = length Al ->
    lfold (Al ++ [A]) (Al ++ [A]) (Wl ++ [W]) E = contraction_operator_step_left A A W (lfold Al Al Wl E).
  Proof.
    induction Al as [|B Al IH]; intros [|V Wl] A W E Hl; cbn [length] in Hl; try discriminate; [reflexivity|].
    cbn [app lfold]. apply IH. lia.
  Qed.

  (* ---------------- splitting the (fixed) operator chain at site i ---------------- *)
  Lemma ochainx_ok_cons_hd d0 ds Dl Dr Ds' (W : osite) Ws : 0 < d0 -> 0 < Dr -> osite_ok d0 Dl Dr W ->
    ochainx_ok ds Ds' Ws -> hd 0 Ds' = Dr -> ochainx_ok (d0 :: ds) (Dl :: Ds') (W :: Ws) /\ last (Dl :: Ds') 0 = last Ds' 0.
  Proof.
    intros H1 H2 H3 H4 H5. destruct Ds' as [|D0 rest].
    - exfalso. destruct Ws, ds; exact H4.
    - cbn [hd] in H5. subst D0. split; [|reflexivity]. cbn [ochainx_ok]. auto.
  Qed.
  Lemma ochain_split i : forall (Ws : list osite) Ds, ochain_ok (repeat d (length Ws)) Ds Ws -> i < length Ws ->
    exists Wl W Wr DsWl Dwr DsWr, Ws = Wl ++ W :: Wr /\ length Wl = i /\
      ochainx_ok (repeat d i) DsWl Wl /\ hd 0 DsWl = hd 0 Ds /\ 0 < Dwr /\ osite_ok d (last DsWl 0) Dwr W /\
      ochain_ok (repeat d (length Wr)) (Dwr :: DsWr) Wr.
  Proof.
    induction i as [|i IH]; intros Ws Ds H Hi.
    - destruct Ws as [|W Wr]; [cbn [length] in Hi; lia|]. cbn [length repeat] in H.
      apply ochain_ok_cons_inv in H. destruct H as (d0 & ds' & Dl & Dr & Ds' & E1 & -> & Hd0 & HDr & HW & Hc).
      injection E1 as <- <-. exists [], W, Wr, [Dl], Dr, Ds'.
      split; [reflexivity|]. split; [reflexivity|]. split; [exact I|]. split; [reflexivity|]. split; [exact HDr|]. split; [exact HW|exact Hc].
    - destruct Ws as [|W0 Ws]; [cbn [length] in Hi; lia|]. cbn [length repeat] in H.
      apply ochain_ok_cons_inv in H. destruct H as (d0 & ds' & Dl & Dr & Ds' & E1 & -> & Hd0 & HDr & HW & Hc).
      injection E1 as <- <-. cbn [length] in Hi.
      destruct (IH Ws (Dr :: Ds') Hc ltac:(lia)) as (Wl & W & Wr & DsWl & Dwr & DsWr & -> & Hl & HWl & Hh & HDwr & HWo & HWr).
      cbn [hd] in Hh.
      destruct (ochainx_ok_cons_hd d (repeat d i) Dl Dr DsWl W0 Wl Hd0 HDr HW HWl Hh) as [G1 G2].
      exists (W0 :: Wl), W, Wr, (Dl :: DsWl), Dwr, DsWr. cbn [app length repeat hd].
      split; [reflexivity|]. split; [f_equal; exact Hl|]. split; [exact G1|]. split; [reflexivity|]. split; [exact HDwr|].
      split; [rewrite G2; exact HWo|exact HWr].
  Qed.

  (* ---------------- the invariant ---------------- *)
  Definition Z (st : sw) (i : nat) : Prop :=
    exists Al X Ar DsAl Dar DsAr,
      s_A st = Al ++ X :: Ar /\ length Al = i /\ (i + S (length Ar))%nat = L /\
      chainx_ok (repeat d i) DsAl Al /\ hd 0 DsAl = 1 /\ site_ok d (last DsAl 0) Dar X /\
      chain_ok (repeat d (length Ar)) (Dar :: DsAr) Ar /\
      Forall left_iso Al /\ Forall right_iso Ar /\
      (forall j, j <= i -> gBL st j = BLof (firstn j Al) (firstn j Hs)) /\
      (forall j, j <= length Ar -> gBR st (i + j) = BRof (skipn j Ar) (skipn (S (i + j)) Hs)) /\
      length (s_BL st) = L /\ length (s_BR st) = L.

  (* evaluation of norm and energy at a one-site centre *)
  Lemma zip_eval (Al Ar : list site) DsAl Dar DsAr :
    (length Al + S (length Ar))%nat = L ->
    chainx_ok (repeat d (length Al)) DsAl Al -> hd 0 DsAl = 1 -> chain_ok (repeat d (length Ar)) (Dar :: DsAr) Ar ->
    Forall left_iso Al -> Forall right_iso Ar ->
    forall Y, site_ok d (last DsAl 0) Dar Y ->
      NN (Al ++ Y :: Ar) = site_dot Y Y /\
      EE (Al ++ Y :: Ar) = site_dot Y (alh (BLof Al (firstn (length Al) Hs)) (BRof Ar (skipn (S (length Al)) Hs)) (nth (length Al) Hs []) Y).
  Proof.
    intros HL HAl Hh HAr Hli Hri Y HY.
    destruct (ochain_split (length Al) Hs DsW HWs ltac:(lia)) as (Wl & W & Wr & DsWl & Dwr & DsWr & EH & Hl & HWl & HhWl & HDwr & HW & HWr).
    assert (HlenWr : length Wr = length Ar).
    { pose proof (f_equal (@length _) EH) as E. rewrite app_length in E. cbn [length] in E. lia. }
    rewrite HhW in HhWl. rewrite HlenWr in HWr.
    assert (F1 : firstn (length Al) Hs = Wl) by (rewrite EH, <- Hl; apply firstn_app_exact).
    assert (F2 : skipn (S (length Al)) Hs = Wr) by (rewrite EH, <- Hl; apply skipn_S_app_exact).
    assert (F3 : nth (length Al) Hs [] = W) by (rewrite EH, <- Hl; apply nth_middle).
    rewrite F1, F2, F3.
    destruct (chain_glue R Al (repeat d (length Al)) DsAl d (last DsAl 0) Dar Y (repeat d (length Ar)) DsAr Ar HAl eq_refl Hd HY HAr) as [G g].
    unfold NN, EE, dnorm2, denergy, alh. rewrite <- HL, <- words_glue. split.
    - apply (mixed_canonical_norm_g R Al Ar Y _ _ G); [rewrite g; exact Hh|exact Hli|exact Hri].
    - symmetry. rewrite EH.
      apply (local_hamiltonian_projection R Al Ar Al Ar Wl Wr Y Y W (repeat d (length Al)) (repeat d (length Ar)) d
               (last DsAl 0) Dar (last DsAl 0) Dar (last DsWl 0) Dwr DsAl DsAl DsWl DsAr DsAr DsWr); auto; try (rewrite <- Hl in HWl; exact HWl).
  Qed.

  (* ... and at a bond centre: a (possibly rectangular) C in front of the right-isometric tensor A *)
  Lemma zip_bond_eval (Al Ar : list site) (A : site) DsAl Da Dar DsAr :
    (length Al + S (length Ar))%nat = L ->
    chainx_ok (repeat d (length Al)) DsAl Al -> hd 0 DsAl = 1 -> site_ok d Da Dar A ->
    chain_ok (repeat d (length Ar)) (Dar :: DsAr) Ar ->
    Forall left_iso Al -> Forall right_iso (A :: Ar) ->
    forall C, nr C = last DsAl 0 -> nc C = Da ->
      NN (Al ++ cmul_site C A :: Ar) = frob C C /\
      EE (Al ++ cmul_site C A :: Ar) = frob C (albc (BLof Al (firstn (length Al) Hs)) (BRof (A :: Ar) (skipn (length Al) Hs)) C).
  Proof.
    intros HL HAl Hh HA HAr Hli Hri C HrC HcC.
    destruct (ochain_split (length Al) Hs DsW HWs ltac:(lia)) as (Wl & W & Wr & DsWl & Dwr & DsWr & EH & Hl & HWl & HhWl & HDwr & HW & HWr).
    assert (HlenWr : length Wr = length Ar).
    { pose proof (f_equal (@length _) EH) as E. rewrite app_length in E. cbn [length] in E. lia. }
    rewrite HhW in HhWl. rewrite HlenWr in HWr.
    assert (F1 : firstn (length Al) Hs = Wl) by (rewrite EH, <- Hl; apply firstn_app_exact).
    assert (F2 : skipn (length Al) Hs = W :: Wr) by (rewrite EH, <- Hl; apply skipn_app_exact).
    rewrite F1, F2.
    assert (HCA : site_ok d (last DsAl 0) Dar (cmul_site C A)) by (apply (cmul_site_ok R d (last DsAl 0) Da); assumption).
    destruct (chain_glue R Al (repeat d (length Al)) DsAl d (last DsAl 0) Dar (cmul_site C A) (repeat d (length Ar)) DsAr Ar HAl eq_refl Hd HCA HAr) as [G g].
    pose proof (Forall_inv Hri) as HisoA. pose proof (Forall_inv_tail Hri) as HisoAr.
    unfold NN, EE, dnorm2, denergy, albc. rewrite <- HL, <- words_glue. split.
    - rewrite (mixed_canonical_norm_g R Al Ar (cmul_site C A) _ _ G) by (try assumption; rewrite g; exact Hh).
      apply (site_dot_cmul_right_iso R d (last DsAl 0) Da Dar); assumption.
    - symmetry. rewrite EH.
      apply (local_bond_projection_rect R Al Ar Al Ar Wl Wr A A W C C (repeat d (length Al)) (repeat d (length Ar)) d
               (last DsAl 0) Da Dar (last DsAl 0) Da Dar (last DsWl 0) Dwr DsAl DsAl DsWl DsAr DsAr DsWr); auto;
        try (rewrite <- Hl in HWl; exact HWl).
  Qed.

  (* ---------------- move 1: replacing the centre tensor ---------------- *)
  Theorem Z_center (st : sw) i : Z st i ->
    let heff Y := site_dot Y (alh (gBL st i) (gBR st i) (nth i Hs []) Y) in
    exists Dl Dr, site_ok d Dl Dr (gA st i) /\ NN (s_A st) = site_dot (gA st i) (gA st i) /\ EE (s_A st) = heff (gA st i) /\
      forall (X' : site) (st' : sw), site_ok d Dl Dr X' ->
        s_A st' = lset (s_A st) i X' -> s_BL st' = s_BL st -> s_BR st' = s_BR st ->
        Z st' i /\ NN (s_A st') = site_dot X' X' /\ EE (s_A st') = heff X'.
  Proof.
    intros (Al & X & Ar & DsAl & Dar & DsAr & EA & Hlen & HL & HAl & Hh & HX & HAr & Hli & Hri & HBL & HBR & lBL & lBR) heff.
    subst i.
    assert (GA : gA st (length Al) = X) by (unfold gA; rewrite EA; apply nth_middle).
    assert (GL : gBL st (length Al) = BLof Al (firstn (length Al) Hs)) by (rewrite (HBL (length Al)) by lia; rewrite firstn_all; reflexivity).
    assert (GR : gBR st (length Al) = BRof Ar (skipn (S (length Al)) Hs)).
    { pose proof (HBR 0 ltac:(lia)) as E. rewrite Nat.add_0_r in E. exact E. }
    pose proof (zip_eval Al Ar DsAl Dar DsAr HL HAl Hh HAr Hli Hri) as Hev.
    exists (last DsAl 0), Dar. unfold heff. rewrite GA, GL, GR. rewrite EA.
    destruct (Hev X HX) as [N1 E1]. split; [exact HX|]. split; [exact N1|]. split; [exact E1|].
    intros X' st' HX' EA' EBL EBR. rewrite lset_app_mid in EA'. rewrite EA'.
    destruct (Hev X' HX') as [N2 E2]. split; [|split; assumption].
    exists Al, X', Ar, DsAl, Dar, DsAr. unfold gBL, gBR in *. rewrite EBL, EBR.
    split; [exact EA'|]. split; [reflexivity|]. split; [exact HL|]. split; [exact HAl|]. split; [exact Hh|]. split; [exact HX'|].
    split; [exact HAr|]. split; [exact Hli|]. split; [exact Hri|]. split; [exact HBL|]. split; [exact HBR|]. split; assumption.
  Qed.

  (* ---------------- shape helpers for the moves ---------------- *)
  Lemma chainx_snoc (Al : list site) : forall dsl DsAl k (Aq : site),
    chainx_ok dsl DsAl Al -> site_ok d (last DsAl 0) k Aq ->
    chainx_ok (dsl ++ [d]) (DsAl ++ [k]) (Al ++ [Aq]) /\ last (DsAl ++ [k]) 0 = k /\ hd 0 (DsAl ++ [k]) = hd 0 DsAl.
  Proof.
    induction Al as [|A Al IH]; intros dsl DsAl k Aq H HAq.
    - apply chainx_ok_nil_inv in H. destruct H as [-> [D ->]]. cbn [last] in HAq. cbn [app chainx_ok last hd]. auto.
    - apply chainx_ok_cons_inv in H. destruct H as (d0 & ds' & Dl & Dr & Ds' & -> & -> & Hd0 & HA & Hc).
      change (last (Dl :: Dr :: Ds') 0) with (last (Dr :: Ds') 0) in HAq.
      destruct (IH ds' (Dr :: Ds') k Aq Hc HAq) as (G1 & G2 & G3). cbn [app] in *.
      split; [|split; [exact G2|reflexivity]]. cbn [chainx_ok]. auto.
  Qed.
  Lemma chainx_unsnoc (Al : list site) : forall dsl DsAl (P : site),
    chainx_ok dsl DsAl (Al ++ [P]) ->
    exists dsl' DsAl' dp, dsl = dsl' ++ [dp] /\ DsAl = DsAl' ++ [last DsAl 0] /\ 0 < dp /\
      chainx_ok dsl' DsAl' Al /\ site_ok dp (last DsAl' 0) (last DsAl 0) P /\ hd 0 DsAl' = hd 0 DsAl /\ length dsl' = length Al.
  Proof.
    induction Al as [|A Al IH]; intros dsl DsAl P H.
    - cbn [app] in H. apply chainx_ok_cons_inv in H. destruct H as (d0 & ds' & Dl & Dr & Ds' & -> & -> & Hd0 & HP & Hc).
      apply chainx_ok_nil_inv in Hc. destruct Hc as [-> [D E]]. injection E as -> ->.
      exists [], [Dl], d0. cbn [app last hd chainx_ok length]. auto 10.
    - cbn [app] in H. apply chainx_ok_cons_inv in H. destruct H as (d0 & ds' & Dl & Dr & Ds' & -> & -> & Hd0 & HA & Hc).
      destruct (IH ds' (Dr :: Ds') P Hc) as (dsl' & DsAl' & dp & E1 & E2 & Hdp & Hc' & HP & Hh & Hlen).
      change (last (Dl :: Dr :: Ds') 0) with (last (Dr :: Ds') 0).
      destruct DsAl' as [|D0 rest]; [exfalso; destruct Al, dsl'; exact Hc'|]. cbn [hd] in Hh. subst D0.
      exists (d0 :: dsl'), (Dl :: Dr :: rest), dp. cbn [app length]. rewrite <- E1.
      split; [reflexivity|]. split; [f_equal; exact E2|]. split; [exact Hdp|].
      split; [cbn [chainx_ok]; auto|]. split; [exact HP|]. split; [reflexivity|]. f_equal. exact Hlen.
  Qed.
  Lemma rep_snoc {T} (l : list T) (x : T) : repeat d (length (l ++ [x])) = repeat d (length l) ++ [d].
  Proof. rewrite app_length. cbn [length]. rewrite Nat.add_1_r. cbn [repeat]. apply repeat_cons. Qed.
  Lemma repeat_snoc_inv dsl' dp n : repeat d (S n) = dsl' ++ [dp] -> length dsl' = n -> dsl' = repeat d n /\ dp = d.
  Proof.
    intros E Hl. cbn [repeat] in E. rewrite repeat_cons in E. apply app_inj_tail in E. destruct E. auto.
  Qed.
  Lemma firstn_S_nth {T} (l : list T) n dflt : n < length l -> firstn (S n) l = firstn n l ++ [nth n l dflt].
  Proof.
    revert n; induction l as [|a l IH]; intros [|n] H; cbn [length] in H; try lia; [reflexivity|].
    cbn [firstn nth app]. f_equal. apply IH. lia.
  Qed.
  Lemma words_glue2 i j : gwords (repeat d i ++ d :: d :: repeat d j) = words d (i + S (S j)).
  Proof. change (d :: repeat d j) with (repeat d (S j)). apply words_glue. Qed.

  (* ---------------- move 2: centre i -> i+1 through a QR; an arbitrary bond matrix C' of the shape of C is absorbed
     (C' = C: DMRG's local_orthonormalize_left_qr; C' = the evolved C: TDVP's zero-site step) ---------------- *)
  Theorem Z_move_right (st : sw) i (Q C : mx) qb : Z st i -> S i < L ->
    qr_ok (site_flat (gA st i)) (Q, C, qb) ->
    let Aq := site_unflat (length (gA st i)) (sdl (gA st i)) Q in
    let BLn := contraction_operator_step_left Aq Aq (nth i Hs []) (gBL st i) in
    let hb C' := frob C' (albc BLn (gBR st i) C') in
    NN (s_A st) = frob C C /\ EE (s_A st) = hb C /\
    forall (C' : mx) (st' : sw), nr C' = nr C -> nc C' = nc C ->
      s_A st' = lset (lset (s_A st) i Aq) (S i) (lmul_site C' (gA st (S i))) ->
      s_BL st' = lset (s_BL st) (S i) BLn -> s_BR st' = s_BR st ->
      Z st' (S i) /\ NN (s_A st') = frob C' C' /\ EE (s_A st') = hb C'.
  Proof.
    intros (Al & X & Ar & DsAl & Dar & DsAr & EA & Hlen & HL & HAl & Hh & HX & HAr & Hli & Hri & HBL & HBR & lBL & lBR) HSi Hq.
    subst i. destruct Ar as [|B Ar']; [cbn [length] in HL; lia|].
    cbn [length repeat] in HAr, HL. apply chain_ok_cons_inv in HAr.
    destruct HAr as (d0 & ds' & Dl0 & D2 & DsAr' & E1 & E2 & _ & HB & HAr'). injection E1 as <- <-. injection E2 as <- ->.
    assert (GA : gA st (length Al) = X) by (unfold gA; rewrite EA; apply nth_middle).
    assert (GB : gA st (S (length Al)) = B) by (unfold gA; rewrite EA; apply nth_app_mid2).
    assert (GL : gBL st (length Al) = BLof Al (firstn (length Al) Hs)) by (rewrite (HBL (length Al)) by lia; rewrite firstn_all; reflexivity).
    assert (GR : gBR st (length Al) = BRof (B :: Ar') (skipn (S (length Al)) Hs)).
    { pose proof (HBR 0 ltac:(lia)) as E. rewrite Nat.add_0_r in E. exact E. }
    rewrite GA in Hq |- *. rewrite GB.
    destruct (qr_left_site R d (last DsAl 0) Dar X Q C qb Hd HX Hq) as (HAq & HcC & HisoAq & Hent).
    set (Aq := site_unflat (length X) (sdl X) Q) in *. set (k := nr C) in *.
    destruct (chainx_snoc Al _ DsAl k Aq HAl HAq) as (HAl' & Hlast' & Hh').
    assert (HLn : (length (Al ++ [Aq]) + S (length Ar'))%nat = L) by (rewrite app_length; cbn [length]; lia).
    assert (Hli' : Forall left_iso (Al ++ [Aq])) by (apply Forall_app; split; [exact Hli|constructor; [exact HisoAq|constructor]]).
    pose proof HAl' as HAl''. rewrite <- (rep_snoc Al Aq) in HAl''.
    pose proof (zip_bond_eval (Al ++ [Aq]) Ar' B (DsAl ++ [k]) Dar D2 DsAr' HLn HAl'' ltac:(congruence) HB HAr' Hli' Hri) as Hbe.
    assert (FB : BLof (Al ++ [Aq]) (firstn (length (Al ++ [Aq])) Hs) =
                 contraction_operator_step_left Aq Aq (nth (length Al) Hs []) (gBL st (length Al))).
    { rewrite app_length. cbn [length]. rewrite Nat.add_1_r. rewrite (firstn_S_nth Hs (length Al) []) by lia.
      unfold BLof. rewrite lfold_snoc by (rewrite firstn_length_le; lia). rewrite GL. reflexivity. }
    assert (FR : BRof (B :: Ar') (skipn (length (Al ++ [Aq])) Hs) = gBR st (length Al)).
    { rewrite app_length. cbn [length]. rewrite Nat.add_1_r. symmetry. exact GR. }
    rewrite FB, FR in Hbe. rewrite Hlast' in Hbe.
    (* the state before the move, in bond form *)
    assert (Hgauge : forall w, In w (words d L) -> amp (Al ++ X :: B :: Ar') w = amp ((Al ++ [Aq]) ++ cmul_site C B :: Ar') w).
    { intros w Hw. rewrite <- app_assoc. cbn [app].
      apply (gauge_amp R Al Ar' X B Aq (cmul_site C B) (repeat d (length Al)) DsAl d d (last DsAl 0) Dar k D2 (repeat d (length Ar')) DsAr');
        try assumption; try reflexivity.
      - apply (cmul_site_ok R d k Dar D2); [exact HB|reflexivity].
      - apply (mid_left R d d (last DsAl 0) Dar k D2 X Aq B C); try assumption; reflexivity.
      - rewrite words_glue2. rewrite <- HL in Hw. exact Hw. }
    destruct (Hbe C eq_refl HcC) as [N0 E0].
    split; [rewrite EA, (NN_ext _ _ Hgauge); exact N0|].
    split; [rewrite EA, (EE_ext _ _ Hgauge); exact E0|].
    intros C' st' HrC' HcC' EA' EBL EBR. fold k in HrC'. rewrite HcC in HcC'.
    rewrite EA, lset_app_mid, lset_app_mid2 in EA'. change (lmul_site C' B) with (cmul_site C' B) in EA'.
    assert (EA'' : s_A st' = (Al ++ [Aq]) ++ cmul_site C' B :: Ar') by (rewrite <- app_assoc; exact EA').
    destruct (Hbe C' HrC' HcC') as [N1 E1]. rewrite EA''. split; [|split; assumption].
    exists (Al ++ [Aq]), (cmul_site C' B), Ar', (DsAl ++ [k]), D2, DsAr'.
    split; [exact EA''|]. split; [rewrite app_length; cbn [length]; lia|]. split; [rewrite app_length in HLn; cbn [length] in HLn; lia|].
    split; [cbn [repeat]; rewrite repeat_cons; exact HAl'|]. split; [congruence|].
    split; [rewrite Hlast'; apply (cmul_site_ok R d k Dar D2); assumption|]. split; [exact HAr'|].
    split; [exact Hli'|]. split; [exact (Forall_inv_tail Hri)|].
    split.
    { intros j Hj. unfold gBL. rewrite EBL. destruct (Nat.eq_dec j (S (length Al))) as [->|Hne].
      - rewrite nth_lset_same by lia.
        assert (Hlen1 : length (Al ++ [Aq]) = S (length Al)) by (rewrite app_length; cbn [length]; lia).
        assert (Ef : firstn (S (length Al)) (Al ++ [Aq]) = Al ++ [Aq]) by (apply firstn_all2; lia).
        rewrite Ef, <- FB, Hlen1. reflexivity.
      - rewrite nth_lset_other by lia. rewrite firstn_app_le by lia. apply HBL. lia. }
    split.
    { intros j Hj. unfold gBR. rewrite EBR. replace (S (length Al) + j)%nat with (length Al + S j)%nat by lia.
      apply (HBR (S j)). cbn [length]. lia. }
    split; [rewrite EBL, lset_length; exact lBL|rewrite EBR; exact lBR].
  Qed.

  (* ---------------- move 3: centre i -> i-1 through a QR of the transposed tensor ---------------- *)
  Theorem Z_move_left (st : sw) i (Q C : mx) qb : Z st i -> 0 < i ->
    qr_ok (site_flat (site_tr (gA st i))) (Q, C, qb) ->
    let Aq := site_tr (site_unflat (length (site_tr (gA st i))) (sdl (site_tr (gA st i))) Q) in
    let BRn := contraction_operator_step_right Aq Aq (nth i Hs []) (gBR st i) in
    let hb C' := frob C' (albc (gBL st i) BRn C') in
    NN (s_A st) = frob (trmx C) (trmx C) /\ EE (s_A st) = hb (trmx C) /\
    forall (C' : mx) (st' : sw), nr C' = nc C -> nc C' = nr C ->
      s_A st' = lset (lset (s_A st) i Aq) (i - 1) (rmul_site (gA st (i - 1)) C') ->
      s_BL st' = s_BL st -> s_BR st' = lset (s_BR st) (i - 1) BRn ->
      Z st' (i - 1) /\ NN (s_A st') = frob C' C' /\ EE (s_A st') = hb C'.
  Proof.
    intros (Al & X & Ar & DsAl & Dar & DsAr & EA & Hlen & HL & HAl & Hh & HX & HAr & Hli & Hri & HBL & HBR & lBL & lBR) Hi Hq.
    subst i. destruct (snoc_split Al) as (Al' & P & ->); [destruct Al; [cbn [length] in Hi; lia|discriminate]|].
    rewrite app_length in *. cbn [length] in *. rewrite Nat.add_1_r in *.
    replace (S (length Al') - 1) with (length Al') by lia.
    cbn [repeat] in HAl. rewrite repeat_cons in HAl.
    destruct (chainx_unsnoc Al' _ DsAl P HAl) as (dsl' & DsAl' & dp & E1 & E2 & Hdp & HAl' & HP & Hh' & Hlen').
    destruct (repeat_snoc_inv dsl' dp (length Al')) as [-> ->]; [cbn [repeat]; rewrite repeat_cons; exact E1|exact Hlen'|].
    set (Dm := last DsAl 0) in *.
    assert (EA2 : s_A st = Al' ++ P :: X :: Ar) by (rewrite EA, <- app_assoc; reflexivity).
    assert (GA : gA st (S (length Al')) = X) by (unfold gA; rewrite EA2; apply nth_app_mid2).
    assert (GP : gA st (length Al') = P) by (unfold gA; rewrite EA2; apply nth_middle).
    assert (GL : gBL st (S (length Al')) = BLof (Al' ++ [P]) (firstn (S (length Al')) Hs)).
    { rewrite (HBL (S (length Al'))) by lia. rewrite firstn_all2 by (rewrite app_length; cbn [length]; lia). reflexivity. }
    assert (GR : gBR st (S (length Al')) = BRof Ar (skipn (S (S (length Al'))) Hs)).
    { pose proof (HBR 0 ltac:(lia)) as E. rewrite Nat.add_0_r in E. exact E. }
    rewrite GA in Hq |- *. rewrite GP.
    destruct (qr_right_site R d Dm Dar X Q C qb Hd HX Hq) as (HAq & HcC & HisoAq & Hent).
    set (Aq := site_tr (site_unflat (length (site_tr X)) (sdl (site_tr X)) Q)) in *. set (k := nr C) in *.
    assert (Hri' : Forall right_iso (Aq :: Ar)) by (constructor; assumption).
    assert (HLn : (length (Al' ++ [P]) + S (length Ar))%nat = L) by (rewrite app_length; cbn [length]; lia).
    pose proof HAl as HAlr. rewrite <- (rep_snoc Al' P) in HAlr.
    pose proof (zip_bond_eval (Al' ++ [P]) Ar Aq DsAl k Dar DsAr HLn HAlr Hh HAq HAr Hli Hri') as Hbe.
    assert (FL : BLof (Al' ++ [P]) (firstn (length (Al' ++ [P])) Hs) = gBL st (S (length Al'))).
    { rewrite app_length. cbn [length]. rewrite Nat.add_1_r. symmetry. exact GL. }
    assert (FR : BRof (Aq :: Ar) (skipn (length (Al' ++ [P])) Hs) =
                 contraction_operator_step_right Aq Aq (nth (S (length Al')) Hs []) (gBR st (S (length Al')))).
    { rewrite app_length. cbn [length]. rewrite Nat.add_1_r. rewrite GR.
      assert (E : skipn (S (length Al')) Hs = nth (S (length Al')) Hs [] :: skipn (S (S (length Al'))) Hs).
      { clear - HL. assert (Hlt : S (length Al') < L) by lia. revert Hlt. generalize (S (length Al')) as n. generalize Hs as l.
        induction l as [|a l IH]; intros [|n] Hn; cbn [length] in Hn; try lia; [reflexivity|]. cbn [skipn nth]. apply IH. lia. }
      rewrite E. reflexivity. }
    rewrite FL, FR in Hbe. fold Dm in Hbe.
    assert (HCt : nr (trmx C) = Dm /\ nc (trmx C) = k) by (unfold trmx; cbn [nr nc]; split; [exact HcC|reflexivity]).
    destruct HCt as [HrCt HcCt].
    (* amplitudes: (P, X) -> (P . C', Aq)  whenever X = C'' . Aq entrywise *)
    assert (Hg : forall C', nr C' = Dm -> nc C' = k ->
              forall w, In w (words d L) -> amp (Al' ++ rmul_site P C' :: Aq :: Ar) w = amp ((Al' ++ [P]) ++ cmul_site C' Aq :: Ar) w).
    { intros C' H1 H2 w Hw. rewrite <- app_assoc. cbn [app]. symmetry.
      apply (gauge_amp R Al' Ar P (cmul_site C' Aq) (rmul_site P C') Aq (repeat d (length Al')) DsAl' d d (last DsAl' 0) Dm k Dar (repeat d (length Ar)) DsAr);
        try assumption; try reflexivity.
      - apply (cmul_site_ok R d Dm k Dar); assumption.
      - apply (rmul_site_ok R d (last DsAl' 0) Dm k); assumption.
      - apply (mid_right R d d (last DsAl' 0) Dm k Dar P (cmul_site C' Aq) Aq C'); try assumption.
        intros t c e Ht Hc He. apply (get_cmul_site R d Dm k Dar); assumption.
      - rewrite words_glue2. replace (length Al' + S (S (length Ar)))%nat with L by lia. exact Hw.
      - congruence. }
    assert (Hg0 : forall w, In w (words d L) -> amp (Al' ++ P :: X :: Ar) w = amp ((Al' ++ [P]) ++ cmul_site (trmx C) Aq :: Ar) w).
    { intros w Hw. rewrite <- app_assoc. cbn [app].
      apply (gauge_amp R Al' Ar P X P (cmul_site (trmx C) Aq) (repeat d (length Al')) DsAl' d d (last DsAl' 0) Dm Dm Dar (repeat d (length Ar)) DsAr);
        try assumption; try reflexivity.
      - apply (cmul_site_ok R d Dm k Dar); assumption.
      - intros s t a e Hs1 Ht Ha He. apply sumn_ext; intros c Hc. f_equal.
        rewrite (get_cmul_site R d Dm k Dar) by assumption. apply Hent; assumption.
      - rewrite words_glue2. replace (length Al' + S (S (length Ar)))%nat with L by lia. exact Hw.
      - congruence. }
    destruct (Hbe (trmx C) HrCt HcCt) as [N0 E0].
    split; [rewrite EA2, (NN_ext _ _ Hg0); exact N0|].
    split; [rewrite EA2, (EE_ext _ _ Hg0); exact E0|].
    intros C' st' HrC' HcC' EA' EBL EBR. rewrite HcC in HrC'. fold k in HcC'.
    rewrite EA2, lset_app_mid2, lset_app_mid in EA'.
    destruct (Hbe C' HrC' HcC') as [N1 E1']. rewrite EA'.
    split; [|split; [rewrite (NN_ext _ _ (Hg C' HrC' HcC')); exact N1|rewrite (EE_ext _ _ (Hg C' HrC' HcC')); exact E1']].
    exists Al', (rmul_site P C'), (Aq :: Ar), DsAl', k, (Dar :: DsAr). cbn [length repeat].
    split; [exact EA'|]. split; [reflexivity|]. split; [lia|]. split; [exact HAl'|]. split; [congruence|].
    split; [apply (rmul_site_ok R d (last DsAl' 0) Dm k); assumption|].
    split; [apply chain_ok_cons; assumption|].
    split; [apply Forall_app in Hli; destruct Hli as [Hli1 _]; exact Hli1|]. split; [exact Hri'|].
    split.
    { intros j Hj. unfold gBL. rewrite EBL. rewrite <- (firstn_app_le Al' [P]) by lia. apply HBL. lia. }
    split.
    { intros j Hj. unfold gBR. rewrite EBR. destruct j as [|j].
      - rewrite Nat.add_0_r. rewrite nth_lset_same by lia. cbn [skipn]. rewrite <- FR.
        rewrite app_length. cbn [length]. rewrite Nat.add_1_r. reflexivity.
      - rewrite nth_lset_other by lia. replace (length Al' + S j)%nat with (S (length Al') + j)%nat by lia.
        cbn [skipn]. replace (S (S (length Al') + j)) with (S (S (length Al' + j))) by lia.
        pose proof (HBR j ltac:(cbn [length] in Hj; lia)) as E. replace (S (length Al') + j)%nat with (S (length Al' + j)) in E by lia. exact E. }
    split; [rewrite EBL; exact lBL|rewrite EBR, lset_length; exact lBR].
  Qed.
End Inv.
