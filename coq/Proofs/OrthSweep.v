(* C01 — the left QR sweep of Model/Orthonormalize.v: site induction. *)
From Coq Require Import ZArith List Bool Lia Arith Ring.
From PT Require Import Base.Scalar Base.Field Base.BigSum Base.Mx Model.Tensor Model.BondOps Model.Orthonormalize.
From PT Require Import Proofs.BondOpsPerm Proofs.BondOpsLoop Proofs.BondOpsSpec Proofs.MPSOpsBase Proofs.MPSOpsShape.
From PT Require Import Proofs.OrthDefs Proofs.OrthLocal.
Import ListNotations.

Lemma last_irrel {A} (x : A) l d1 d2 : last (x :: l) d1 = last (x :: l) d2.
Proof. revert x; induction l as [|y l IH]; intros x; [reflexivity|]. change (last (y :: l) d1 = last (y :: l) d2). apply IH. Qed.

Section Sweep.
  Variable R : cring.
  Add Ring Rring_orthsweep : (k_rt R).
  Notation mx := (mx R).
  Notation site := (site R).
  Notation rO := (k0 R). Notation rI := (k1 R).
  Infix "*!" := (kmul R) (at level 40, left associativity).

  Definition lens (qs : list (list Z)) : list nat := map (@length Z) qs.
  Definition letters (d : nat) (w : list nat) : Prop := Forall (fun s => s < d) w.

  (* ---------- products along a chain ---------- *)
  Lemma nr_mprod_pick d Ds (As : list site) w : chain_shape d Ds As = true -> letters d w ->
    nr (mprod (hd 0 Ds) (pick As w)) = hd 0 Ds.
  Proof.
    intros Hs Hw. destruct As as [|A As]; destruct w as [|s w]; simpl; try reflexivity.
    destruct Ds as [|Dl [|Dr Ds]]; simpl in Hs; try discriminate.
    apply andb_true_iff in Hs. destruct Hs as [Hs _]. assert (Hs0 := Forall_inv Hw).
    simpl. apply (site_shape_sel R d Dl Dr A s Hs). assumption.
  Qed.

  Lemma mprod_lmul d Dl Dr Ds (M : mx) (A : site) (rest : list site) t w n :
    chain_shape d (Dl :: Dr :: Ds) (A :: rest) = true -> t < d -> letters d w -> nc M = Dl ->
    mprod n (pick (lmul M A :: rest) (t :: w)) = mulmx M (mprod n (pick (A :: rest) (t :: w))).
  Proof.
    intros Hs Ht Hw HM. simpl in Hs. apply andb_true_iff in Hs. destruct Hs as [HsA Hsr].
    destruct (site_shape_sel R d Dl Dr A t HsA Ht) as (Hwf & Hr & Hc).
    assert (Hl : length A = d) by (eapply site_shape_length; eauto).
    simpl. unfold lmul. rewrite sel_map by lia. rewrite nc_mulmx.
    apply mulmx_assoc; [congruence|].
    rewrite Hc. change Dr with (hd 0 (Dr :: Ds)). symmetry. apply (nr_mprod_pick d); assumption.
  Qed.

  (* a 1x1 right factor acts as a scalar *)
  Lemma mulmx_scalar_r (X Rm : mx) : wf X -> nc X = 1 -> nr Rm = 1 -> nc Rm = 1 ->
    mulmx X Rm = scalemx (get Rm 0 0) X.
  Proof.
    intros HX Hc Hr1 Hc1. apply mx_ext; [apply wf_mulmx|apply wf_scalemx|reflexivity|rewrite nc_mulmx, nc_scalemx; congruence|].
    rewrite nr_mulmx, nc_mulmx, Hc1. intros a b Ha Hb. assert (b = 0) by lia. subst b.
    rewrite get_mulmx by lia. rewrite get_scalemx by lia. rewrite Hc. simpl. ring.
  Qed.

  Variable dqr : mx -> mx * mx.
  Variable d : nat.
  Variable qd : list Z.
  Hypothesis Hd : 1 <= d.
  Hypothesis Lqd : length qd = d.

  (* an extra property of the oracle answers and what it implies for the single entry of R in a one-column QR
     (instantiated with "diagonal of R real" => "entry real" over Cx F) *)
  Variable extra : mx -> mx * mx -> Prop.
  Variable Tgood : R -> Prop.
  Hypothesis Hcol : forall (A : mx) q0 q1 Q Rm qi, valid_in A q0 q1 = true -> 1 <= nr A -> nc A = 1 ->
    Forall (fun B => dqr_ok R B (dqr B) /\ extra B (dqr B)) (block_qr_calls A q0 q1) ->
    block_qr dqr A q0 q1 = Some (Q, Rm, qi) -> Tgood (get Rm 0 0).
  Definition call_ok (B : mx) : Prop := dqr_ok R B (dqr B) /\ extra B (dqr B).
  Lemma call_ok_dqr l : Forall call_ok l -> Forall (fun B => dqr_ok R B (dqr B)) l.
  Proof. apply Forall_impl. intros B [H _]. exact H. Qed.

  Lemma chain_shape_cons Dl Dr Ds (A : site) As :
    chain_shape d (Dl :: Dr :: Ds) (A :: As) = site_shape d Dl Dr A && chain_shape d (Dr :: Ds) As.
  Proof. reflexivity. Qed.
  Lemma chain_qsparse_cons ql qr qs (A : site) As :
    chain_qsparse qd (ql :: qr :: qs) (A :: As) = site_qsparse qd ql qr A && chain_qsparse qd (qr :: qs) As.
  Proof. reflexivity. Qed.

  Lemma one_site_shape : site_shape 1 1 1 (@one_site R) = true.
  Proof. reflexivity. Qed.

  Lemma sweepL_ok : forall (rest : list site) (cur : site) (qb : list Z) (qrest : list (list Z)),
    chain_shape d (lens (qb :: qrest)) (cur :: rest) = true ->
    chain_qsparse qd (qb :: qrest) (cur :: rest) = true ->
    Forall (fun q => 1 <= length q) (qb :: qrest) ->
    length (last qrest qb) = 1 ->
    Forall call_ok (sweep_calls (callsL qd) (stepL dqr qd) cur qb rest qrest) ->
    exists As qs T,
      sweep (stepL dqr qd) cur qb rest qrest = Some (As, qb :: qs, T) /\
      is111 T = true /\ Tgood (get (sel T 0) 0 0) /\
      length As = S (length rest) /\
      chain_shape d (lens (qb :: qs)) As = true /\
      chain_qsparse qd (qb :: qs) As = true /\
      Forall (fun q => 1 <= length q) (qb :: qs) /\
      length (last qs qb) = 1 /\
      bond_bound d (lens (qb :: qs)) (lens (qb :: qrest)) /\
      chain_liso (lens (qb :: qs)) As /\
      (forall w, length w = S (length rest) -> letters d w ->
         mprod 1 (pick (cur :: rest) w) = scalemx (get (sel T 0) 0 0) (mprod 1 (pick As w))).
  Proof.
    unfold lens. induction rest as [|An rest IH]; intros cur qb qrest Hshape Hsparse Hpos Hlast Hcalls.
    - (* last tensor: step against the trailing 1x1x1 tensor *)
      destruct qrest as [|qa [|? ?]]; simpl in Hshape; try discriminate.
      2: { rewrite andb_false_r in Hshape. discriminate. }
      rewrite andb_true_r in Hshape. simpl in Hsparse. rewrite andb_true_r in Hsparse.
      simpl in Hlast. simpl in Hcalls.
      assert (Hpb := Forall_inv Hpos). assert (Hpos' := Forall_inv_tail Hpos). assert (Hpa := Forall_inv Hpos').
      assert (HsN : site_shape 1 (length qa) 1 (@one_site R) = true) by (rewrite Hlast; apply one_site_shape).
      destruct (local_left_qr_ok R dqr d 1 (length qb) (length qa) 1 cur one_site qd qb qa
                  Hd Hpb Hpa Lqd eq_refl eq_refl Hshape Hsparse HsN (le_n 1) (call_ok_dqr _ Hcalls))
        as (Q & Rm & q' & E & HwR & HnrR & HncR & Hq1 & Hq2 & Hq3 & HspR & HsA' & HqA' & Hiso & Hmul & Eblk & Hvalid & Hnrm & Hncm).
      assert (Lq' : length q' = 1) by lia.
      exists [mx_site d (length qb) Q], [q'], (lmul Rm one_site).
      split. { simpl. unfold stepL. rewrite E. reflexivity. }
      split. { unfold is111, lmul, one_site, sDl, sDr, sel. simpl. rewrite HnrR, Lq'. reflexivity. }
      assert (ET : get (sel (lmul Rm (@one_site R)) 0) 0 0 = get Rm 0 0).
      { unfold lmul, one_site, sel. simpl. rewrite get_mulmx by (simpl; lia). rewrite HncR, Hlast. simpl.
        rewrite get_tab by lia. ring. }
      split. { rewrite ET. apply (Hcol (site_mx cur) (qflat qd qb) qa Q Rm q' Hvalid); [nia|congruence|exact Hcalls|exact Eblk]. }
      split; [reflexivity|].
      split. { simpl. rewrite HsA'. reflexivity. }
      split. { simpl. rewrite HqA'. reflexivity. }
      split. { constructor; [exact Hpb|]. constructor; [lia|constructor]. }
      split; [exact Lq'|].
      split. { simpl. repeat split; lia. }
      split. { simpl. split; [exact Hiso|exact I]. }
      intros w Hlw Hw. destruct w as [|s [|? ?]]; simpl in Hlw; try discriminate.
      assert (Hs := Forall_inv Hw).
      destruct (site_shape_sel R d (length qb) (length qa) cur s Hshape ltac:(assumption)) as (Hwc & Hrc & Hcc).
      destruct (site_shape_sel R d (length qb) (length q') (mx_site d (length qb) Q) s HsA' ltac:(assumption)) as (Hwa & Hra & Hca).
      rewrite ET. simpl. rewrite !mulmx_1_r by assumption.
      rewrite <- (Hmul s) by assumption.
      rewrite (mulmx_scalar_r _ Rm) by (try assumption; lia). reflexivity.
    - (* interior tensor *)
      destruct qrest as [|qa [|qn qrest]].
      { simpl in Hshape. discriminate. }
      { exfalso. cbn [map] in Hshape. rewrite chain_shape_cons in Hshape. apply andb_true_iff in Hshape.
        destruct Hshape as [_ H2]. simpl in H2. discriminate. }
      cbn [map] in Hshape. rewrite chain_shape_cons in Hshape.
      apply andb_true_iff in Hshape. destruct Hshape as [HsC HsRest].
      rewrite chain_qsparse_cons in Hsparse. apply andb_true_iff in Hsparse. destruct Hsparse as [HqC HqRest].
      assert (Hpb := Forall_inv Hpos). assert (Hpos' := Forall_inv_tail Hpos). assert (Hpa := Forall_inv Hpos'). assert (Hpos'' := Forall_inv_tail Hpos').
      assert (HsRest' := HsRest). rewrite chain_shape_cons in HsRest'. apply andb_true_iff in HsRest'. destruct HsRest' as [HsN HsTail].
      assert (HqRest' := HqRest). rewrite chain_qsparse_cons in HqRest'. apply andb_true_iff in HqRest'. destruct HqRest' as [HqN HqTail].
      simpl in Hcalls. apply Forall_app in Hcalls. destruct Hcalls as [Hc1 Hc2].
      destruct (local_left_qr_ok R dqr d d (length qb) (length qa) (length qn) cur An qd qb qa
                  Hd Hpb Hpa Lqd eq_refl eq_refl HsC HqC HsN Hd (call_ok_dqr _ Hc1))
        as (Q & Rm & q' & E & HwR & HnrR & HncR & Hq1 & Hq2 & Hq3 & HspR & HsA' & HqA' & Hiso & Hmul & _).
      unfold stepL in Hc2 at 1. rewrite E in Hc2.
      assert (HsN' : site_shape d (length q') (length qn) (lmul Rm An) = true)
        by (rewrite <- HnrR; eapply site_shape_lmul; eauto).
      assert (HqN' : site_qsparse qd q' qn (lmul Rm An) = true).
      { apply site_qsp_qsparse. eapply (lmul_qsp R d (length qa) (length qn)); eauto.
        - apply site_shape_site_ok. exact HsN.
        - apply site_qsparse_qsp. exact HqN. }
      destruct (IH (lmul Rm An) q' (qn :: qrest)) as (As & qs & T & ES & H111 & HTg & HlAs & HsAs & HqAs & HpAs & HlastAs & Hbb & HisoAs & Hamp).
      + cbn [map]. rewrite chain_shape_cons, HsN'. exact HsTail.
      + rewrite chain_qsparse_cons, HqN'. exact HqTail.
      + constructor; [exact Hq1|exact Hpos''].
      + rewrite (last_irrel qn qrest q' qb). exact Hlast.
      + exact Hc2.
      + exists (mx_site d (length qb) Q :: As), (q' :: qs), T.
        split. { simpl. unfold stepL at 1. rewrite E. rewrite ES. reflexivity. }
        split; [exact H111|]. split; [exact HTg|].
        split; [simpl; rewrite HlAs; reflexivity|].
        split. { simpl. simpl in HsAs. rewrite HsA'. exact HsAs. }
        split. { simpl. simpl in HqAs. rewrite HqA'. exact HqAs. }
        split. { constructor; [exact Hpb|exact HpAs]. }
        split. { destruct qs as [|l qs]; [exact HlastAs|]. change (length (last (l :: qs) qb) = 1). rewrite (last_irrel l qs qb q'). exact HlastAs. }
        split. { simpl. simpl in Hbb. repeat split; try lia. exact Hbb. }
        split. { simpl. split; [exact Hiso|exact HisoAs]. }
        intros w Hlw Hw. destruct w as [|s [|t w]]; simpl in Hlw; try discriminate; try lia.
        assert (Hs := Forall_inv Hw). assert (Hw' := Forall_inv_tail Hw). assert (Ht := Forall_inv Hw'). assert (Hw'' := Forall_inv_tail Hw').
        destruct As as [|A0 As]; [simpl in HlAs; discriminate|].
        change (mprod 1 (pick (cur :: An :: rest) (s :: t :: w)))
          with (mulmx (sel cur s) (mprod (nc (sel cur s)) (pick (An :: rest) (t :: w)))).
        change (mprod 1 (pick (mx_site d (length qb) Q :: A0 :: As) (s :: t :: w)))
          with (mulmx (sel (mx_site d (length qb) Q) s) (mprod (nc (sel (mx_site d (length qb) Q) s)) (pick (A0 :: As) (t :: w)))).
        change (mprod (nc (sel cur s)) (pick (An :: rest) (t :: w))) with (mprod 1 (pick (An :: rest) (t :: w))).
        change (mprod (nc (sel (mx_site d (length qb) Q) s)) (pick (A0 :: As) (t :: w))) with (mprod 1 (pick (A0 :: As) (t :: w))).
        destruct (site_shape_sel R d (length qb) (length q') (mx_site d (length qb) Q) s HsA' Hs) as (Hwa & Hra & Hca).
        rewrite <- (Hmul s Hs).
        rewrite mulmx_assoc.
        * rewrite <- (mprod_lmul d (length qa) (length qn) (lens qrest) Rm An rest t w 1 HsRest Ht Hw'' HncR).
          rewrite (Hamp (t :: w)) by (simpl; try lia; exact Hw').
          rewrite mulmx_scalemx_r; [reflexivity|].
          rewrite Hca. destruct qs as [|q2 qs]; [simpl in HsAs; discriminate|].
          cbn [map] in HsAs. rewrite chain_shape_cons in HsAs. apply andb_true_iff in HsAs. destruct HsAs as [HsA0 _].
          simpl. symmetry. apply (site_shape_sel R d _ _ A0 t HsA0 Ht).
        * congruence.
        * rewrite HncR. simpl. symmetry. apply (site_shape_sel R d _ _ An t HsN Ht).
  Qed.
End Sweep.
