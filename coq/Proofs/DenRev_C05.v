(* C05: the two readings of an operator graph agree.  [den g w] (sum over paths read from the start
   terminal, as_matrix(direction = 1)) equals [den_rev g w] (read from the end terminal, direction = 0)
   for every word w, provided the graph is [linked]: node ids / edge ids / per-node edge-id lists are
   duplicate free, nodes and edges reference each other consistently, and both terminals are nodes.
   Proof: the out-edge lists of the nodes partition the edge list, and so do the in-edge lists; hence
     S(u, w) = sum_n den_to u n * den_from w n
   is invariant under moving the head letter of w to the head of u. *)
From Coq Require Import ZArith List Lia Bool Ring Permutation.
From PT Require Import Base.Scalar Base.BigSum Model.OpGraph.
Import ListNotations.
Open Scope Z_scope.

Section DenRev.
  Variable R : cring.
  Add Ring Rring_denrev : (k_rt R).
  Notation "0r" := (k0 R). Notation "1r" := (k1 R).
  Infix "+r" := (kadd R) (at level 50, left associativity).
  Infix "*r" := (kmul R) (at level 40, left associativity).
  Notation graph := (graph R).
  Notation gedge := (gedge R).

  (* ---- list generalities ---- *)
  Lemma zmem_In_dr x l : zmem x l = true <-> In x l.
  Proof.
    unfold zmem. rewrite existsb_exists. split.
    - intros [y [Hy E]]. apply Z.eqb_eq in E. subst. exact Hy.
    - intros H. exists x. split; auto. apply Z.eqb_refl.
  Qed.

  Lemma nodupz_NoDup l : nodupz l = true -> NoDup l.
  Proof.
    induction l as [|x l IH]; simpl; intros H; [constructor|].
    apply andb_true_iff in H. destruct H as [H1 H2]. constructor; [|apply IH, H2].
    intros Hi. apply zmem_In_dr in Hi. rewrite Hi in H1. discriminate.
  Qed.

  Lemma find_key {A} (key : A -> Z) (l : list A) x :
    NoDup (map key l) -> In x l -> find (fun y => key y =? key x) l = Some x.
  Proof.
    induction l as [|a l IH]; simpl; intros Hn Hi; [contradiction|].
    inversion Hn as [|? ? Hna Hnl]; subst. destruct Hi as [Hi|Hi].
    - subst. rewrite Z.eqb_refl. reflexivity.
    - destruct (key a =? key x) eqn:E.
      + apply Z.eqb_eq in E. exfalso. apply Hna. rewrite E. apply in_map, Hi.
      + apply IH; assumption.
  Qed.

  Lemma key_inj {A} (key : A -> Z) (l : list A) x y :
    NoDup (map key l) -> In x l -> In y l -> key x = key y -> x = y.
  Proof.
    intros Hn Hx Hy E. pose proof (find_key key l x Hn Hx) as Fx.
    pose proof (find_key key l y Hn Hy) as Fy. rewrite E in Fx. congruence.
  Qed.

  Lemma NoDup_app_dr {A} (l1 l2 : list A) :
    NoDup l1 -> NoDup l2 -> (forall x, In x l1 -> In x l2 -> False) -> NoDup (l1 ++ l2).
  Proof.
    induction l1 as [|a l1 IH]; simpl; intros H1 H2 H; [assumption|].
    inversion H1 as [|? ? Ha Hl]; subst. constructor.
    - rewrite in_app_iff. intros [X|X]; [contradiction|]. apply (H a); auto.
    - apply IH; auto. intros x X1 X2. apply (H x); auto.
  Qed.

  Lemma NoDup_flat_map_dr {A B} (f : A -> list B) (l : list A) :
    NoDup l -> (forall x, In x l -> NoDup (f x)) ->
    (forall x y e, In x l -> In y l -> In e (f x) -> In e (f y) -> x = y) ->
    NoDup (flat_map f l).
  Proof.
    induction l as [|a l IH]; simpl; intros Hl Hf Hd; [constructor|].
    inversion Hl as [|? ? Ha Hl']; subst. apply NoDup_app_dr.
    - apply Hf. left; reflexivity.
    - apply IH; auto. intros x y e Hx Hy. apply Hd; right; assumption.
    - intros e He1 He2. apply in_flat_map in He2. destruct He2 as [y [Hy He2]].
      assert (E : a = y) by (apply (Hd a y e); auto). subst. contradiction.
  Qed.

  Lemma suml_flat_map {A B} (f : A -> list B) (l : list A) (F : B -> R) :
    suml (flat_map f l) F = suml l (fun x => suml (f x) F).
  Proof. induction l as [|a l IH]; simpl; [reflexivity|]. rewrite suml_app, IH. reflexivity. Qed.

  Lemma suml_delta_z (l : list Z) t (f : Z -> R) : NoDup l -> In t l ->
    suml l (fun x => (if x =? t then 1r else 0r) *r f x) = f t.
  Proof.
    induction l as [|a l IH]; intros Hn Hi; [contradiction|].
    inversion Hn as [|? ? Ha Hl]; subst. simpl. destruct (a =? t) eqn:E.
    - apply Z.eqb_eq in E. subst. rewrite suml_zero; [ring|].
      intros x Hx. destruct (x =? t) eqn:E2; [apply Z.eqb_eq in E2; subst; contradiction | ring].
    - destruct Hi as [Hi|Hi]; [subst; rewrite Z.eqb_refl in E; discriminate|].
      rewrite IH by assumption. ring.
  Qed.

  (* ---- edges reached through edge-id lists ---- *)
  Lemma In_edges_of (g : graph) l e :
    In e (edges_of g l) <-> exists eid, In eid l /\ find_edge g eid = Some e.
  Proof.
    unfold edges_of. rewrite in_flat_map. split; intros [eid [H1 H2]]; exists eid; split; auto.
    - destruct (find_edge g eid) as [e0|]; simpl in H2; [|contradiction].
      destruct H2 as [H2|[]]. subst. reflexivity.
    - rewrite H2. left; reflexivity.
  Qed.

  Lemma find_edge_spec (g : graph) eid e : find_edge g eid = Some e -> In e (g_edges g) /\ e_id e = eid.
  Proof.
    unfold find_edge. intros H. apply find_some in H. destruct H as [H1 H2].
    split; [assumption | apply Z.eqb_eq, H2].
  Qed.

  (* the edge lists selected by the nodes partition the edge list *)
  Lemma partition_perm (g : graph) (sel : gnode -> list Z) (key : gedge -> Z) :
    NoDup (map n_id (g_nodes g)) -> NoDup (map e_id (g_edges g)) ->
    (forall n, In n (g_nodes g) -> NoDup (sel n)) ->
    (forall n eid, In n (g_nodes g) -> In eid (sel n) ->
       exists e, find_edge g eid = Some e /\ key e = n_id n) ->
    (forall e, In e (g_edges g) -> exists n, In n (g_nodes g) /\ In (e_id e) (sel n)) ->
    Permutation (flat_map (fun n => edges_of g (sel n)) (g_nodes g)) (g_edges g).
  Proof.
    intros Hn He Hs Hr Hb. apply NoDup_Permutation.
    - apply NoDup_flat_map_dr.
      + apply (NoDup_map_inv n_id), Hn.
      + intros n Hin. unfold edges_of. apply NoDup_flat_map_dr.
        * apply Hs, Hin.
        * intros eid _. destruct (find_edge g eid); repeat constructor. intros [].
        * intros x y e _ _ Hx Hy.
          assert (Fx : find_edge g x = Some e).
          { destruct (find_edge g x) as [e0|]; simpl in Hx; [|contradiction].
            destruct Hx as [Hx|[]]. subst. reflexivity. }
          assert (Fy : find_edge g y = Some e).
          { destruct (find_edge g y) as [e0|]; simpl in Hy; [|contradiction].
            destruct Hy as [Hy|[]]. subst. reflexivity. }
          apply find_edge_spec in Fx, Fy. destruct Fx as [_ Fx]. destruct Fy as [_ Fy]. congruence.
      + intros n n' e Hin Hin' H1 H2. apply In_edges_of in H1, H2.
        destruct H1 as [i1 [I1 F1]]. destruct H2 as [i2 [I2 F2]].
        destruct (Hr n i1 Hin I1) as [e1 [G1 K1]]. destruct (Hr n' i2 Hin' I2) as [e2 [G2 K2]].
        rewrite F1 in G1. rewrite F2 in G2. inversion G1; inversion G2; subst e1 e2.
        apply (key_inj n_id (g_nodes g)); auto. congruence.
    - apply (NoDup_map_inv e_id), He.
    - intros e. rewrite in_flat_map. split.
      + intros [n [Hin H]]. apply In_edges_of in H. destruct H as [eid [_ F]].
        apply find_edge_spec in F. apply F.
      + intros Hin. destruct (Hb e Hin) as [n [Hn1 Hn2]]. exists n. split; [assumption|].
        apply In_edges_of. exists (e_id e). split; [assumption|].
        unfold find_edge. apply (find_key e_id); assumption.
  Qed.

  (* ---- the boolean hypothesis ---- *)
  Definition linked (g : graph) : bool :=
    nodupz (map n_id (g_nodes g)) && nodupz (map e_id (g_edges g)) &&
    forallb (fun n => nodupz (n_in n) && nodupz (n_out n)) (g_nodes g) &&
    forallb (node_refs_ok R g) (g_nodes g) && forallb (edge_refs_ok R g) (g_edges g) &&
    has_node g (g_t0 g) && has_node g (g_t1 g).

  Section Linked.
    Variable g : graph.
    Hypothesis HL : linked g = true.

    Lemma L_nodes : NoDup (map n_id (g_nodes g)).
    Proof.
      unfold linked in HL. repeat rewrite andb_true_iff in HL.
      apply nodupz_NoDup. tauto.
    Qed.
    Lemma L_edges : NoDup (map e_id (g_edges g)).
    Proof.
      unfold linked in HL. repeat rewrite andb_true_iff in HL.
      apply nodupz_NoDup. tauto.
    Qed.
    Lemma L_lists n : In n (g_nodes g) -> NoDup (n_in n) /\ NoDup (n_out n).
    Proof.
      unfold linked in HL. repeat rewrite andb_true_iff in HL.
      destruct HL as [[[[[[_ _] H] _] _] _] _]. rewrite forallb_forall in H.
      intros Hn. specialize (H n Hn). apply andb_true_iff in H.
      split; apply nodupz_NoDup; tauto.
    Qed.
    Lemma L_node_refs n : In n (g_nodes g) ->
      (forall eid, In eid (n_in n) -> exists e, find_edge g eid = Some e /\ e_to e = n_id n) /\
      (forall eid, In eid (n_out n) -> exists e, find_edge g eid = Some e /\ e_from e = n_id n).
    Proof.
      unfold linked in HL. repeat rewrite andb_true_iff in HL.
      destruct HL as [[[[[[_ _] _] H] _] _] _]. rewrite forallb_forall in H.
      intros Hn. specialize (H n Hn). unfold node_refs_ok in H. cbn [forallb] in H.
      repeat rewrite andb_true_iff in H. destruct H as [H0 [H1 _]].
      rewrite forallb_forall in H0, H1. split; intros eid Hi.
      - specialize (H0 eid Hi). destruct (find_edge g eid) as [e|]; [|discriminate].
        exists e. split; [reflexivity|]. apply Z.eqb_eq in H0. exact H0.
      - specialize (H1 eid Hi). destruct (find_edge g eid) as [e|]; [|discriminate].
        exists e. split; [reflexivity|]. apply Z.eqb_eq in H1. exact H1.
    Qed.
    Lemma L_edge_refs e : In e (g_edges g) ->
      (exists n, In n (g_nodes g) /\ In (e_id e) (n_out n)) /\
      (exists n, In n (g_nodes g) /\ In (e_id e) (n_in n)).
    Proof.
      unfold linked in HL. repeat rewrite andb_true_iff in HL.
      destruct HL as [[[[[[_ _] _] _] H] _] _]. rewrite forallb_forall in H.
      intros He. specialize (H e He). unfold edge_refs_ok in H. cbn [forallb] in H.
      repeat rewrite andb_true_iff in H. destruct H as [H0 [H1 _]]. split.
      - cbn [edge_nid] in H0. destruct (find_node g (e_from e)) as [n|] eqn:F; [|discriminate].
        exists n. split; [|apply zmem_In_dr, H0]. unfold find_node in F. apply find_some in F. apply F.
      - cbn [edge_nid] in H1. destruct (find_node g (e_to e)) as [n|] eqn:F; [|discriminate].
        exists n. split; [|apply zmem_In_dr, H1]. unfold find_node in F. apply find_some in F. apply F.
    Qed.
    Lemma L_term : In (g_t0 g) (map n_id (g_nodes g)) /\ In (g_t1 g) (map n_id (g_nodes g)).
    Proof.
      unfold linked in HL. repeat rewrite andb_true_iff in HL.
      destruct HL as [[_ H0] H1]. unfold has_node in H0, H1. rewrite existsb_exists in H0, H1.
      destruct H0 as [n0 [I0 E0]]. destruct H1 as [n1 [I1 E1]].
      apply Z.eqb_eq in E0, E1. rewrite in_map_iff. rewrite in_map_iff. split; eauto.
    Qed.

    Lemma find_node_In n : In n (g_nodes g) -> find_node g (n_id n) = Some n.
    Proof. intros H. unfold find_node. apply (find_key n_id); [apply L_nodes | exact H]. Qed.

    Lemma out_from n e : In n (g_nodes g) -> In e (out_edges g (n_id n)) -> e_from e = n_id n.
    Proof.
      intros Hn He. unfold out_edges in He. rewrite (find_node_In n Hn) in He.
      apply In_edges_of in He. destruct He as [eid [Hi F]].
      destruct (proj2 (L_node_refs n Hn) eid Hi) as [e' [F' K]]. congruence.
    Qed.
    Lemma in_to n e : In n (g_nodes g) -> In e (in_edges g (n_id n)) -> e_to e = n_id n.
    Proof.
      intros Hn He. unfold in_edges in He. rewrite (find_node_In n Hn) in He.
      apply In_edges_of in He. destruct He as [eid [Hi F]].
      destruct (proj1 (L_node_refs n Hn) eid Hi) as [e' [F' K]]. congruence.
    Qed.

    Lemma sum_out (F : gedge -> R) :
      suml (g_nodes g) (fun n => suml (out_edges g (n_id n)) F) = suml (g_edges g) F.
    Proof.
      transitivity (suml (g_nodes g) (fun n => suml (edges_of g (n_out n)) F)).
      { apply suml_ext. intros n Hn. unfold out_edges. rewrite (find_node_In n Hn). reflexivity. }
      rewrite <- suml_flat_map. apply suml_permutation.
      apply (partition_perm g n_out (@e_from R)).
      - apply L_nodes.
      - apply L_edges.
      - intros n Hn. apply (L_lists n Hn).
      - intros n eid Hn Hi. apply (proj2 (L_node_refs n Hn) eid Hi).
      - intros e He. apply (proj1 (L_edge_refs e He)).
    Qed.
    Lemma sum_in (F : gedge -> R) :
      suml (g_nodes g) (fun n => suml (in_edges g (n_id n)) F) = suml (g_edges g) F.
    Proof.
      transitivity (suml (g_nodes g) (fun n => suml (edges_of g (n_in n)) F)).
      { apply suml_ext. intros n Hn. unfold in_edges. rewrite (find_node_In n Hn). reflexivity. }
      rewrite <- suml_flat_map. apply suml_permutation.
      apply (partition_perm g n_in (@e_to R)).
      - apply L_nodes.
      - apply L_edges.
      - intros n Hn. apply (L_lists n Hn).
      - intros n eid Hn Hi. apply (proj1 (L_node_refs n Hn) eid Hi).
      - intros e He. apply (proj2 (L_edge_refs e He)).
    Qed.

    (* moving one letter across the cut *)
    Lemma shift o u w :
      suml (g_nodes g) (fun n => den_to g u (n_id n) *r den_from g (o :: w) (n_id n)) =
      suml (g_nodes g) (fun n => den_to g (o :: u) (n_id n) *r den_from g w (n_id n)).
    Proof.
      set (F := fun e : gedge =>
                  den_to g u (e_from e) *r (opics_coeff o (e_opics e) *r den_from g w (e_to e))).
      transitivity (suml (g_edges g) F).
      - rewrite <- sum_out. apply suml_ext. intros n Hn. cbn [den_from].
        rewrite <- suml_scal_l. apply suml_ext. intros e He. unfold F.
        rewrite (out_from n e Hn He). reflexivity.
      - rewrite <- sum_in. apply suml_ext. intros n Hn. cbn [den_to].
        rewrite <- suml_scal_r. apply suml_ext. intros e He. unfold F.
        rewrite <- (in_to n e Hn He). ring.
    Qed.

    Lemma shift_all w : forall u,
      suml (g_nodes g) (fun n => den_to g u (n_id n) *r den_from g w (n_id n)) =
      suml (g_nodes g) (fun n => den_to g (rev w ++ u) (n_id n) *r den_from g [] (n_id n)).
    Proof.
      induction w as [|o w IH]; intros u; [reflexivity|].
      rewrite shift, IH.
      replace (rev (o :: w) ++ u) with (rev w ++ o :: u)
        by (simpl; rewrite <- app_assoc; reflexivity).
      reflexivity.
    Qed.

    Lemma den_eq_den_rev_linked w : den g w = den_rev g w.
    Proof.
      unfold den, den_rev. destruct L_term as [T0 T1]. pose proof L_nodes as Hn.
      transitivity (suml (g_nodes g) (fun n => den_to g [] (n_id n) *r den_from g w (n_id n))).
      - symmetry. rewrite <- (suml_delta_z (map n_id (g_nodes g)) (g_t0 g) (den_from g w) Hn T0).
        rewrite suml_map. reflexivity.
      - rewrite shift_all, app_nil_r.
        rewrite <- (suml_delta_z (map n_id (g_nodes g)) (g_t1 g) (den_to g (rev w)) Hn T1).
        rewrite suml_map. apply suml_ext. intros n _. cbn [den_from]. ring.
    Qed.
  End Linked.

  Theorem den_eq_den_rev : forall (g : graph) w, linked g = true -> den g w = den_rev g w.
  Proof. intros g w H. apply den_eq_den_rev_linked, H. Qed.
End DenRev.

Arguments linked {R} _.

(* non-vacuity: a two-path graph 0 -> {1, 2} -> 3 over Z is linked *)
Example linked_example :
  let E := @mkedge Zring in
  linked (R := Zring)
    (mkgraph [mknode 0 [] [10; 11] 0; mknode 1 [10] [12] 0; mknode 2 [11] [13] 0; mknode 3 [12; 13] [] 0]
             [E 10 0 1 [(5, 2)]; E 11 0 2 [(6, 3)]; E 12 1 3 [(5, 1); (6, 4)]; E 13 2 3 [(5, 7)]]
             0 3) = true.
Proof. vm_compute. reflexivity. Qed.

Print Assumptions den_eq_den_rev.
