(* Link 5c (C10, two-site): two-site DMRG with the Krylov-based local eigensolver [keig_lanczos] applied to the merged
   two-site problem (physical dimension d*d, merged MPO tensor).  Along the run the LAPACK-level contracts of the calls
   recorded in the trace ([lrtr2_ok]: block QR of the final normalisation; numpy.linalg.norm and eigh_tridiagonal on the
   calls of each local Lanczos run; the exact-split contract on the split_mps_tensor calls) imply the Ritz contracts
   [rtr2_ok] consumed by the whole-run theorem (Proofs/Sweeps2Run.v), because the two-site invariant Z2 makes every merged
   effective Hamiltonian self-adjoint (Hermitian MPO, Proofs/Link2Ctx.v) and every merged start tensor non-zero (norm one).
   Lock-step induction over the two-site schedule with the invariant "(Z, norm one, all earlier calls meet their Ritz /
   split / QR contracts)". *)
From Coq Require Import ZArith Arith List Lia Ring Field Setoid Bool.
From PT Require Import Base.Scalar Base.Field Base.BigSum Base.Mx Model.Tensor Model.Operation Model.Krylov Model.Sweeps
  Proofs.OperationSums Proofs.OperationEntries Proofs.OperationChains Proofs.OperationLocal Proofs.OperationUniform Proofs.OperationTwoSite
  Proofs.KrylovLanczos Proofs.KrylovRitz
  Proofs.SweepsCanon Proofs.SweepsFlow Proofs.SweepsSched Proofs.SweepsLocal Proofs.SweepsGauge Proofs.SweepsBond Proofs.SweepsInv Proofs.SweepsRun
  Proofs.Sweeps2Inv Proofs.Sweeps2Run
  Proofs.LinkFlatten Proofs.LinkLocalOps Proofs.LinkSolvers Proofs.LinkCtx Proofs.Link2Ctx.
Import ListNotations.

Section LinkDMRG2.
  Variable F : ofield.
  Notation K := (Cx F).
  Variable qr : nat -> mx K -> list BinNums.Z -> list BinNums.Z -> mx K * mx K * list BinNums.Z.
  Variable split : nat -> site K -> list BinNums.Z -> list BinNums.Z -> list BinNums.Z -> list BinNums.Z -> bool -> site K * site K * list BinNums.Z.
  Variable dnorm : list K -> F.
  Variable small : F -> bool.
  Variable deigh : list F -> list F -> list F * list (list F).
  Variable numiter : nat.
  Notation keig := (keig_lanczos F dnorm small deigh numiter).
  Variable Hs : list (osite K).
  Variable qd : list BinNums.Z.
  Variable d : nat.
  Variable DsW : list nat.
  Hypothesis Hd : 0 < d.
  Hypothesis HWs : ochain_ok (repeat d (length Hs)) DsW Hs.
  Hypothesis HhW : hd 0 DsW = 1.
  Hypothesis HWst : Forall (osite_struct d) Hs.
  Hypothesis Hherm : mpo_herm F Hs d.
  Hypothesis small_pos : small_sound F small.
  Hypothesis Hnit : 1 <= numiter.
  Notation L := (length Hs).
  Notation Zi := (Z K Hs d).
  Notation Z2i := (Z2 K Hs d).
  Notation NNi := (NN K Hs d).
  Notation EEi := (EE K Hs d).
  Notation rok := (rtr2_ok qr split keig Hs d).

  (* LAPACK-level contracts of the calls recorded in a trace of two-site DMRG *)
  Definition ldmrg2_call_ok (p : nat) (t : tcall K) : Prop :=
    let i := c_site (t_call t) in
    match c_kind (t_call t), t_envs t, t_ten t, t_qs t with
    | EIG2, [BL; BR], [Am], _ => keig_lanczos_calls_ok F dnorm small deigh numiter BL BR (Hm Hs i) Am
    | SPLITL, _, [Am], [q0; q1; q2; q3] => split_ok d true Am (split p Am q0 q1 q2 q3 true)
    | SPLITR, _, [Am], [q0; q1; q2; q3] => split_ok d false Am (split p Am q0 q1 q2 q3 false)
    | QR, _, [[M]], [q0; q1] => qr_ok M (qr p M q0 q1)
    | _, _, _, _ => True
    end.
  Fixpoint lrtr2_ok (tr : list (tcall K)) : Prop :=
    match tr with [] => True | t :: rest => ldmrg2_call_ok (length rest) t /\ lrtr2_ok rest end.
  Lemma lrtr2_ok_suffix new old : lrtr2_ok (new ++ old) -> lrtr2_ok old.
  Proof. induction new as [|t new IH]; [exact (fun H => H)|]. cbn [app lrtr2_ok]. intros [_ H]. exact (IH H). Qed.

  (* per call: an EIG2 call issued at a state satisfying the two-site invariant meets the Ritz contract for d*d *)
  Lemma eig2_entry_ok (st : sw K) i p : Z2i st i -> NNi (s_A st) = k1 K ->
    keig_lanczos_calls_ok F dnorm small deigh numiter (gBL st i) (gBR st (S i)) (Hm Hs i) (c04_merge_site (gA st i) (gA st (S i))) ->
    keig_ok (d * d) (gBL st i) (gBR st (S i)) (Hm Hs i) (c04_merge_site (gA st i) (gA st (S i)))
      (keig p (gBL st i) (gBR st (S i)) (Hm Hs i) (c04_merge_site (gA st i) (gA st (S i)))).
  Proof.
    intros HZ HN Hc.
    destruct (Z2_local_ctx F Hs d DsW Hd HWs HhW HWst st i HZ) as (Dl & Dr & Dwl & Dwr & Hwl & Hwr & HW & HBL & HBR & HA & N0 & Hsa).
    assert (Hdd : 0 < d * d) by (apply Nat.mul_pos_pos; exact Hd).
    apply (keig_from_krylov F dnorm small deigh numiter small_pos Hnit (d * d) Dl Dr Dwl Dwr); try assumption.
    - apply Hsa. exact Hherm.
    - rewrite <- N0, HN. apply (k1_neq_k0 F).
  Qed.

  (* ---- merge, minimise, split ---- *)
  Lemma pair_bridge (se : sw K * K) i left : Z2i (fst se) i -> NNi (s_A (fst se)) = k1 K -> rok (s_tr (fst se)) ->
    lrtr2_ok (s_tr (fst (dmrg2_pair split keig Hs qd se i left))) -> rok (s_tr (fst (dmrg2_pair split keig Hs qd se i left))).
  Proof.
    intros HZ HN Hold Hl. destruct se as [st en0]. cbn [fst] in HZ, HN, Hold.
    unfold dmrg2_pair in *. cbv zeta in *. cbn [fst snd] in *.
    destruct (keig_lanczos F dnorm small deigh numiter (length (s_tr st)) (gBL st i) (gBR st (S i))
                (c04_merge_osite (nth i Hs []) (nth (S i) Hs [])) (c04_merge_site (gA st i) (gA st (S i)))) as [en Am1].
    destruct (split _ _ _ _ _ _ _) as [[A0 A1] qb].
    cbn [fst snd s_tr] in *. destruct Hl as (LS & LK & _).
    split; [|split; [|exact Hold]].
    - unfold ldmrg2_call_ok in LS. unfold dmrg2_call_ok.
      destruct left; cbn [t_call c_kind c_site c_coef t_envs t_ten t_qs length] in *; exact LS.
    - exact (eig2_entry_ok st i (length (s_tr st)) HZ HN LK).
  Qed.

  Lemma lr_bridge se i : Zi (fst se) i -> NNi (s_A (fst se)) = k1 K -> S i < L -> rok (s_tr (fst se)) ->
    lrtr2_ok (s_tr (fst (dmrg2_lr split keig Hs qd se i))) -> rok (s_tr (fst (dmrg2_lr split keig Hs qd se i))).
  Proof.
    intros HZ HN HSi Hold Hl. unfold dmrg2_lr, lift in *. cbn [fst snd] in *.
    assert (Hl1 : lrtr2_ok (s_tr (fst (dmrg2_pair split keig Hs qd se i false)))) by (unfold upd_BL in Hl; cbn [s_tr] in Hl; exact (proj2 Hl)).
    unfold upd_BL. cbn [s_tr]. split; [exact I|].
    apply pair_bridge; [apply (Z_Z2_left K Hs d DsW Hd HhW); assumption|exact HN|exact Hold|exact Hl1].
  Qed.
  Lemma rl_bridge2 se i : Z2i (fst se) i -> NNi (s_A (fst se)) = k1 K -> rok (s_tr (fst se)) ->
    lrtr2_ok (s_tr (fst (dmrg2_rl split keig Hs qd se i))) -> rok (s_tr (fst (dmrg2_rl split keig Hs qd se i))).
  Proof.
    intros HZ HN Hold Hl. unfold dmrg2_rl, lift in *. cbn [fst snd] in *.
    assert (Hl1 : lrtr2_ok (s_tr (fst (dmrg2_pair split keig Hs qd se i true)))) by (unfold upd_BR in Hl; cbn [s_tr] in Hl; exact (proj2 Hl)).
    unfold upd_BR. cbn [s_tr]. split; [exact I|].
    apply pair_bridge; assumption.
  Qed.
  Lemma final_bridge (st : sw K) : rok (s_tr st) -> lrtr2_ok (s_tr (dmrg_final_qr qr qd st)) -> rok (s_tr (dmrg_final_qr qr qd st)).
  Proof.
    intros Hold Hl. unfold dmrg_final_qr, qr_right in *. cbv zeta in *. destruct (qr _ _ _ _) as [[Q0 C] qb]. cbn [s_tr] in *.
    destruct Hl as (HQ & _). split; [exact HQ|exact Hold].
  Qed.

  Let LBT : K -> Prop := fun _ => True.
  Lemma HLBT : forall A : list (site K), NNi A = k1 K -> LBT (EEi A).
  Proof. intros; exact I. Qed.

  Definition Q2 (i : nat) (se : sw K * K) : Prop := Zi (fst se) i /\ NNi (s_A (fst se)) = k1 K /\ rok (s_tr (fst se)).

  Lemma step_lr se i : Q2 i se -> S i < L -> lrtr2_ok (s_tr (fst (dmrg2_lr split keig Hs qd se i))) -> Q2 (S i) (dmrg2_lr split keig Hs qd se i).
  Proof.
    intros (HZ & HN & Hold) HSi Hl. pose proof (lr_bridge se i HZ HN HSi Hold Hl) as Hr.
    assert (Hpre : Pre F Hs d (cre (EEi (s_A (fst se)))) i se) by (split; [exact HZ|split; [exact HN|apply fle_refl]]).
    destruct (dmrg2_lr_body F qr split keig Hs qd d DsW Hd HWs HhW HWst LBT HLBT _ se i Hpre HSi Hr) as (HZ' & HN' & _).
    split; [exact HZ'|]. split; [exact HN'|exact Hr].
  Qed.
  (* right-to-left body, entered with the two-site invariant (centre on either site of the pair) *)
  Lemma step_rl2 se i : Z2i (fst se) i -> NNi (s_A (fst se)) = k1 K -> rok (s_tr (fst se)) ->
    lrtr2_ok (s_tr (fst (dmrg2_rl split keig Hs qd se i))) -> Q2 i (dmrg2_rl split keig Hs qd se i).
  Proof.
    intros HZ HN Hold Hl. pose proof (rl_bridge2 se i HZ HN Hold Hl) as Hr.
    destruct (dmrg2_rl_body2 F qr split keig Hs qd d DsW Hd HWs HhW HWst LBT HLBT (cre (EEi (s_A (fst se)))) se i HZ HN (fle_refl F _) Hr) as (HZ' & HN' & _).
    split; [exact HZ'|]. split; [exact HN'|exact Hr].
  Qed.

  Lemma sweep_bridge (st : sw K) : 2 <= L -> Q2 0 (st, k0 K) ->
    lrtr2_ok (s_tr (fst (dmrg2_sweep qr split keig Hs qd L st))) -> Q2 0 (dmrg2_sweep qr split keig Hs qd L st).
  Proof.
    intros HL2 HQ Hok. unfold dmrg2_sweep, lift in *. cbv zeta in *. cbn [fst snd] in *.
    set (se1 := fold_left (dmrg2_lr split keig Hs qd) (seq 0 (L - 2)) (st, k0 K)) in *.
    replace (L - 1) with (S (L - 2)) in * by lia. rewrite seq_S, rev_app_distr in *. cbn [rev app fold_left Nat.add] in *.
    set (sem := dmrg2_rl split keig Hs qd se1 (L - 2)) in *.
    set (se2 := fold_left (dmrg2_rl split keig Hs qd) (rev (seq 0 (L - 2))) sem) in *.
    assert (Hok2 : lrtr2_ok (s_tr (fst se2))).
    { revert Hok. generalize (fst se2) as st2. intros st2. unfold dmrg_final_qr, qr_right. cbv zeta.
      destruct (qr _ _ _ _) as [[Q0 C] qb]. cbn [s_tr]. intros (_ & H). exact H. }
    assert (Hokm : lrtr2_ok (s_tr (fst sem))).
    { destruct (fold_mono (fun se => s_tr (fst se)) (dmrg2_rl split keig Hs qd) (suf_dmrg2_rl F split keig Hs qd) (rev (seq 0 (L - 2))) sem) as [new E].
      fold se2 in E. rewrite E in Hok2. exact (lrtr2_ok_suffix _ _ Hok2). }
    assert (Hok1 : lrtr2_ok (s_tr (fst se1))).
    { destruct (suf_dmrg2_rl F split keig Hs qd se1 (L - 2)) as [new E]. fold sem in E. rewrite E in Hokm. exact (lrtr2_ok_suffix _ _ Hokm). }
    (* left-to-right *)
    assert (H1 : Q2 (0 + (L - 2)) se1).
    { unfold se1.
      apply (fold_up (fun se => s_tr (fst se)) (dmrg2_lr split keig Hs qd) (suf_dmrg2_lr F split keig Hs qd) lrtr2_ok lrtr2_ok_suffix Q2 (L - 2) 0 (st, k0 K) HQ Hok1).
      intros i s' Hi HQi Hoki. apply step_lr; [exact HQi|lia|exact Hoki]. }
    cbn [Nat.add] in H1.
    (* the rightmost pair: centre on its left site *)
    assert (Hm1 : Q2 (L - 2) sem).
    { destruct H1 as (HZ1 & HN1 & Hr1). apply (step_rl2 se1 (L - 2)); try assumption.
      apply (Z_Z2_left K Hs d DsW Hd HhW); [exact HZ1|lia]. }
    (* right-to-left: centre on the right site of each pair *)
    assert (H2 : Q2 0 se2).
    { unfold se2.
      apply (fold_down0 (fun se => s_tr (fst se)) (dmrg2_rl split keig Hs qd) (suf_dmrg2_rl F split keig Hs qd) lrtr2_ok lrtr2_ok_suffix Q2 (L - 2) sem Hm1 Hok2).
      intros i s' Hi (HZs & HNs & Hrs) Hoki.
      apply (step_rl2 s' i); try assumption. apply (Z_Z2_right K Hs d DsW Hd HhW). exact HZs. }
    destruct H2 as (HZ2 & HN2 & Hr2).
    pose proof (final_bridge (fst se2) Hr2 Hok) as Hr3.
    destruct (final_step2 F qr split keig Hs qd d DsW Hd HWs HhW (fst se2) HZ2 HN2 Hr3) as (HZ3 & HN3 & _).
    split; [exact HZ3|]. split; [exact HN3|exact Hr3].
  Qed.

  Lemma loop_bridge n : forall (st : sw K) ens, 2 <= L -> Q2 0 (st, k0 K) ->
    lrtr2_ok (s_tr (fst (dmrg_loop (dmrg2_sweep qr split keig Hs qd L) n st ens))) ->
    rok (s_tr (fst (dmrg_loop (dmrg2_sweep qr split keig Hs qd L) n st ens))).
  Proof.
    induction n as [|n IH]; intros st ens HL2 HQ Hok; cbn [dmrg_loop] in *; [cbn [fst]; apply HQ|].
    assert (Hok1 : lrtr2_ok (s_tr (fst (dmrg2_sweep qr split keig Hs qd L st)))).
    { revert Hok. destruct (dmrg2_sweep qr split keig Hs qd L st) as [st' en]. cbn [fst]. intros Hok.
      destruct (suf_dmrg2_loop F qr split keig Hs qd n st' (ens ++ [en])) as [new E]. rewrite E in Hok. exact (lrtr2_ok_suffix _ _ Hok). }
    pose proof (sweep_bridge st HL2 HQ Hok1) as HQ'.
    destruct (dmrg2_sweep qr split keig Hs qd L st) as [st' en]. apply IH; [exact HL2| |exact Hok].
    exact HQ'.
  Qed.
End LinkDMRG2.

Arguments lrtr2_ok {F} qr split dnorm small deigh numiter Hs d tr.
Arguments ldmrg2_call_ok {F} qr split dnorm small deigh numiter Hs d p t.

(* per entry: a recorded EIG2 entry whose oracle answers meet the Krylov contracts meets [keig_ok (d*d)] whenever it was
   issued at a state satisfying the two-site invariant with norm one *)
Theorem eig2_entry_from_krylov (F : ofield) dnorm small deigh numiter (Hs : list (osite (Cx F))) d DsW :
  0 < d -> ochain_ok (repeat d (length Hs)) DsW Hs -> hd 0 DsW = 1 -> Forall (osite_struct d) Hs ->
  mpo_herm F Hs d -> small_sound F small -> 1 <= numiter ->
  forall (st : sw (Cx F)) i p, Z2 (Cx F) Hs d st i -> NN (Cx F) Hs d (s_A st) = k1 (Cx F) ->
  let Am := c04_merge_site (gA st i) (gA st (S i)) in
  keig_lanczos_calls_ok F dnorm small deigh numiter (gBL st i) (gBR st (S i)) (Hm Hs i) Am ->
  keig_ok (d * d) (gBL st i) (gBR st (S i)) (Hm Hs i) Am
    (keig_lanczos F dnorm small deigh numiter p (gBL st i) (gBR st (S i)) (Hm Hs i) Am).
Proof.
  intros Hd HWs HhW HWst Hherm Hsm Hnit st i p HZ HN Am.
  exact (eig2_entry_ok F dnorm small deigh numiter Hs d DsW Hd HWs HhW HWst Hherm Hsm Hnit st i p HZ HN).
Qed.

(* the LAPACK-level trace contract implies the Ritz-level one along every run of dmrg_twosite *)
Theorem dmrg2_lapack_to_ritz (F : ofield) orth qr split dnorm small deigh numiter (H : mpo (Cx F)) psi n d DsW Ds0 A qD ens tr :
  dmrg_twosite orth qr split (keig_lanczos F dnorm small deigh numiter) H psi n = Some (A, qD, ens, tr) ->
  mpo_shapeb d DsW (o_A H) = true -> mps_shapeb d Ds0 (m_A (fst (orth psi))) = true ->
  Forall right_iso (m_A (fst (orth psi))) -> 2 <= length (o_A H) ->
  mpo_herm F (o_A H) d -> small_sound F small -> 1 <= numiter ->
  lrtr2_ok qr split dnorm small deigh numiter (o_A H) d (rev tr) ->
  rtr2_ok qr split (keig_lanczos F dnorm small deigh numiter) (o_A H) d (rev tr).
Proof.
  intros Hrun HH Hp Hiso HL2 Hherm Hsm Hnit Hok.
  unfold dmrg_twosite in Hrun. destruct (sweep_init orth H psi) as [[st nrm]|] eqn:Einit; [|discriminate].
  assert (Hd : 0 < d).
  { unfold mpo_shapeb in HH. rewrite !andb_true_iff in HH. destruct HH as (((((HH & _) & _) & _) & _) & _). apply Nat.ltb_lt. exact HH. }
  destruct (Z_init (Cx F) d Hd orth H psi st nrm DsW Ds0 Einit HH Hp Hiso) as (HZ & HN & Etr & _ & HWs & HhW).
  pose proof (mpo_shapeb_struct (Cx F) d DsW (o_A H) HH) as HWst.
  destruct (dmrg_loop (dmrg2_sweep qr split (keig_lanczos F dnorm small deigh numiter) (o_A H) (m_qd psi) (length (o_A H))) n st []) as [st' ens'] eqn:El.
  injection Hrun as <- <- <- <-. rewrite rev_involutive in *.
  pose proof (loop_bridge F qr split dnorm small deigh numiter (o_A H) (m_qd psi) d DsW Hd HWs HhW HWst Hherm Hsm Hnit n st [] HL2) as Hb.
  rewrite El in Hb. cbn [fst] in Hb. apply Hb; [|exact Hok].
  split; [exact HZ|]. split; [exact HN|]. cbn [fst]. rewrite Etr. exact I.
Qed.

(* WHOLE RUN, two-site, with the Krylov-based eigensolver: the remaining hypotheses are LAPACK-level contracts on the issued
   calls, the exact-split contract on the split_mps_tensor calls, Hermiticity of the MPO and, for the variational clause, H >= lam *)
Theorem dmrg2_run_lapack (F : ofield) orth qr split dnorm small deigh numiter (H : mpo (Cx F)) psi n d DsW Ds0 lam A qD ens tr :
  dmrg_twosite orth qr split (keig_lanczos F dnorm small deigh numiter) H psi n = Some (A, qD, ens, tr) ->
  mpo_shapeb d DsW (o_A H) = true -> mps_shapeb d Ds0 (m_A (fst (orth psi))) = true ->
  Forall right_iso (m_A (fst (orth psi))) ->
  2 <= length (o_A H) -> bounded_below d (length (o_A H)) (o_A H) lam ->
  mpo_herm F (o_A H) d -> small_sound F small -> 1 <= numiter ->
  lrtr2_ok qr split dnorm small deigh numiter (o_A H) d (rev tr) ->
  let L := length (o_A H) in
  let E0 := denergy d L (m_A (fst (orth psi))) (o_A H) in
  dnorm2 d L A = k1 (Cx F) /\ length ens = n /\
  Forall (fun e => fle F lam (cre e) /\ fle F (cre e) (cre E0)) ens /\ noninc ens /\
  (ens <> [] -> last ens (k0 (Cx F)) = denergy d L A (o_A H)).
Proof.
  intros Hrun HH Hp Hiso HL2 Hlam Hherm Hsm Hnit Hok.
  apply (dmrg2_run F orth qr split (keig_lanczos F dnorm small deigh numiter) H psi n d DsW Ds0 lam A qD ens tr); try assumption.
  apply (dmrg2_lapack_to_ritz F orth qr split dnorm small deigh numiter H psi n d DsW Ds0 A qD ens tr); assumption.
Qed.
