(* arnoldi_iteration: modified Gram-Schmidt, orthonormality, Arnoldi relation, H = V^H A V, Hessenberg shape. *)
From Coq Require Import ZArith List Bool Arith Lia Ring Field.
From PT Require Import Base.Scalar Base.Field Base.BigSum Base.Mx Model.Krylov Proofs.KrylovVec Proofs.KrylovLanczos.
Import ListNotations.

Section Arnoldi.
  Variable F : ofield.
  Notation K := (Cx F).
  Add Field Ffield_ka : (f_ft F).
  Add Ring Kring_ka : (k_rt (Cx F)).
  Notation vec := (list K).
  Variable n : nat.
  Variable Afunc : vec -> vec.
  Variable dnorm : vec -> F.
  Variable small : F -> bool.
  Notation vat := (vat F).
  Notation orthonormal := (orthonormal F n).
  Notation delta := (delta F).
  Notation cnth l i := (nth i l (k0 K)).

  Lemma orth_all (Vs : list vec) : orthonormal Vs -> forall v, In v Vs -> length v = n.
  Proof. intros [Hl _] v Hv. destruct (In_nth _ _ [] Hv) as (i & Hi & <-). apply Hl. exact Hi. Qed.

  Lemma orth_cons u (Us : list vec) : orthonormal (u :: Us) ->
    orthonormal Us /\ length u = n /\ vdot u u = k1 K /\
    (forall i, i < length Us -> vdot u (vat Us i) = k0 K /\ vdot (vat Us i) u = k0 K).
  Proof.
    intros [Hl Hd]. repeat split.
    - intros i Hi. apply (Hl (S i)). cbn [length]. lia.
    - intros i j Hi Hj. apply (Hd (S i) (S j)); cbn [length]; lia.
    - apply (Hl 0). cbn [length]. lia.
    - apply (Hd 0 0); cbn [length]; lia.
    - apply (Hd 0 (S i)); cbn [length]; lia.
    - apply (Hd (S i) 0); cbn [length]; lia.
  Qed.

  Lemma orth_snoc (Vs : list vec) x : orthonormal Vs -> length x = n ->
    (forall i, i < length Vs -> vdot (vat Vs i) x = k0 K) -> vdot x x = k1 K -> orthonormal (Vs ++ [x]).
  Proof.
    intros [Hl Hd] Lx Hx H1. split.
    - intros i Hi. rewrite app_length in Hi. cbn [length] in Hi.
      destruct (Nat.eq_dec i (length Vs)) as [->|Hne]; [rewrite vat_app2 by reflexivity; exact Lx|rewrite vat_app1 by lia; apply Hl; lia].
    - intros i j Hi Hj. rewrite app_length in Hi, Hj. cbn [length] in Hi, Hj.
      destruct (Nat.eq_dec i (length Vs)) as [->|Hi']; destruct (Nat.eq_dec j (length Vs)) as [->|Hj'].
      + rewrite !vat_app2 by reflexivity. rewrite delta_refl. exact H1.
      + rewrite vat_app2 by reflexivity. rewrite vat_app1 by lia. rewrite <- vdot_conj, Hx by lia. rewrite delta_neq by lia. apply kconj_0.
      + rewrite vat_app1 by lia. rewrite vat_app2 by reflexivity. rewrite Hx by lia. rewrite delta_neq by lia. reflexivity.
      + rewrite !vat_app1 by lia. apply Hd; lia.
  Qed.

  (* ---- modified Gram-Schmidt against an orthonormal list ---- *)
  Lemma mgs_spec (Us : list vec) : forall (w : vec) hs w', orthonormal Us -> length w = n -> mgs F Us w = (hs, w') ->
    length hs = length Us /\ length w' = n /\ w = vadd (lincomb n hs Us) w' /\
    (forall i, i < length Us -> cnth hs i = vdot (vat Us i) w) /\
    (forall i, i < length Us -> vdot (vat Us i) w' = k0 K).
  Proof.
    induction Us as [|u Us IH]; intros w hs w' Ho Lw E.
    - cbn [mgs] in E. injection E as <- <-. cbn [lincomb length]. repeat split; try (intros; lia); try assumption.
      symmetry. apply vadd_zero_l. exact Lw.
    - cbn [mgs] in E. set (h := vdot u w) in *. set (w1 := vsub w (cscale h u)) in *.
      destruct (mgs F Us w1) as [hs0 w0] eqn:E0. injection E as <- <-.
      destruct (orth_cons u Us Ho) as (Ho' & Lu & Huu & Hu).
      assert (Lhu : length (cscale h u) = n) by (apply length_cscale; exact Lu).
      assert (L1 : length w1 = n) by (apply length_vsub; assumption).
      destruct (IH w1 hs0 w0 Ho' L1 E0) as (C1 & C2 & C3 & C4 & C5).
      assert (Llc : length (lincomb n hs0 Us) = n) by (apply length_lincomb, orth_all; exact Ho').
      assert (Hu1 : vdot u w1 = k0 K).
      { unfold w1. rewrite vdot_sub_r by (rewrite Lw, Lhu; reflexivity). rewrite vdot_cscale_r, Huu. unfold h. ring. }
      assert (Hulc : vdot u (lincomb n hs0 Us) = k0 K).
      { rewrite (vdot_lincomb_r F n) by (try apply orth_all; try exact Ho'; lia). apply sumn_zero. intros j Hj.
        fold (vat Us j). rewrite (proj1 (Hu j Hj)). ring. }
      repeat split.
      + cbn [length]. lia.
      + exact C2.
      + cbn [lincomb]. rewrite vadd_assoc, <- C3. unfold w1. apply vsub_vadd'. rewrite Lw, Lhu. reflexivity.
      + intros i Hi. destruct i as [|i']; [reflexivity|]. cbn [nth]. cbn [length] in Hi.
        rewrite C4 by lia. change (vat (u :: Us) (S i')) with (vat Us i').
        unfold w1. rewrite vdot_sub_r by (rewrite Lw, Lhu; reflexivity). rewrite vdot_cscale_r, (proj2 (Hu i' ltac:(lia))). ring.
      + intros i Hi. destruct i as [|i']; cbn [length] in Hi.
        * change (vat (u :: Us) 0) with u.
          pose proof (f_equal (vdot u) C3) as E3. rewrite vdot_add_r in E3 by (rewrite Llc, C2; reflexivity).
          rewrite Hu1, Hulc in E3. rewrite E3. ring.
        * change (vat (u :: Us) (S i')) with (vat Us i'). apply C5. lia.
  Qed.

  (* ---- loop invariant ---- *)
  Definition colsok (cols : list (list K)) (Vs : list vec) (j : nat) : Prop :=
    forall i, i < j ->
      length (nth i cols []) = S (S i) /\
      Afunc (vat Vs i) = lincomb n (nth i cols []) Vs /\
      exists b, cnth (nth i cols []) (S i) = cof b /\ flt F (f0 F) b.
  Definition ainv (j : nat) (cols : list (list K)) (Vs : list vec) : Prop :=
    length Vs = S j /\ length cols = j /\ orthonormal Vs /\ colsok cols Vs j.
  Definition arnoldi_post (m : nat) (r : list (list K) * list vec * bool) : Prop :=
    let '(cols, Vs, wn) := r in
    let k := length Vs in
    1 <= k /\ k <= m /\ length cols = k /\ (wn = true <-> k < m) /\ orthonormal Vs /\
    colsok cols Vs (k - 1) /\ length (nth (k - 1) cols []) = k /\
    (forall i, i < k -> cnth (nth (k - 1) cols []) i = vdot (vat Vs i) (Afunc (vat Vs (k - 1)))).

  Hypothesis A_len : maps_len F n Afunc.
  Hypothesis small_pos : small_sound F small.

  Lemma body_mgs j (Vs : list vec) : length Vs = S j ->
    arnoldi_body F Afunc dnorm j Vs =
    let '(hs, w') := mgs F Vs (Afunc (vat Vs j)) in (hs, w', dnorm w').
  Proof. intros H. unfold arnoldi_body. rewrite firstn_all2 by (apply Nat.eq_le_incl; exact H). reflexivity. Qed.

  Lemma colsok_app cols cs (Vs Ws : list vec) j : length cols = j -> length Vs = S j -> orthonormal Vs ->
    colsok cols Vs j -> colsok (cols ++ cs) (Vs ++ Ws) j.
  Proof.
    intros Hc HV Ho H i Hi. destruct (H i Hi) as (H1 & H2 & H3).
    rewrite app_nth1 by lia. rewrite vat_app1 by lia. rewrite lincomb_more by lia. auto.
  Qed.

  Lemma ainv_step j cols (Vs : list vec) hs w' b : ainv j cols Vs ->
    mgs F Vs (Afunc (vat Vs j)) = (hs, w') -> norm_ok F (w', b) -> small b = false ->
    ainv (S j) (cols ++ [hs ++ [cof b]]) (Vs ++ [vdivr w' b]).
  Proof.
    intros (HV & Hc & Ho & Hcols) E Hn Hs. pose proof Ho as [Hl Hd].
    destruct (norm_pos F small small_pos w' b Hn Hs) as [Hbpos Hbne].
    assert (Lj : length (vat Vs j) = n) by (apply Hl; lia).
    destruct (mgs_spec Vs _ hs w' Ho (A_len _ Lj) E) as (C1 & C2 & C3 & C4 & C5).
    assert (Lnew : length (vdivr w' b) = n) by (apply length_vdivr; exact C2).
    assert (Ho' : orthonormal (Vs ++ [vdivr w' b])).
    { apply orth_snoc; try assumption.
      - intros i Hi. rewrite vdot_vdivr_r, C5 by exact Hi. ring.
      - apply unit_vdivr; assumption. }
    unfold ainv. split; [rewrite app_length; cbn [length]; lia|]. split; [rewrite app_length; cbn [length]; lia|]. split; [exact Ho'|].
    intros i Hi. destruct (Nat.eq_dec i j) as [->|Hne].
    - rewrite app_nth2, Hc, Nat.sub_diag by lia. cbn [nth]. repeat split.
      + rewrite app_length. cbn [length]. lia.
      + rewrite vat_app1 by lia. rewrite lincomb_app; [|intros v [<-|[]]; exact Lnew|exact C1].
        cbn [lincomb]. rewrite vadd_zero_r by (apply length_cscale; exact Lnew).
        change (cscale (cof b) (vdivr w' b)) with (rscale b (vdivr w' b)). rewrite rscale_vdivr by exact Hbne. exact C3.
      + exists b. split; [|exact Hbpos]. rewrite app_nth2 by lia. rewrite C1, HV, Nat.sub_diag. reflexivity.
    - apply (colsok_app cols _ Vs _ j Hc HV Ho Hcols). lia.
  Qed.

  Lemma ainv_exit j cols (Vs : list vec) hs w' m wn : ainv j cols Vs ->
    mgs F Vs (Afunc (vat Vs j)) = (hs, w') -> S j <= m -> (wn = true <-> S j < m) ->
    arnoldi_post m (cols ++ [hs], Vs, wn).
  Proof.
    intros (HV & Hc & Ho & Hcols) E Hm Hw. pose proof Ho as [Hl Hd].
    assert (Lj : length (vat Vs j) = n) by (apply Hl; lia).
    destruct (mgs_spec Vs _ hs w' Ho (A_len _ Lj) E) as (C1 & C2 & C3 & C4 & C5).
    unfold arnoldi_post. rewrite HV. replace (S j - 1) with j by lia.
    rewrite app_nth2, Hc, Nat.sub_diag by lia. cbn [nth].
    split; [lia|]. split; [lia|]. split; [rewrite app_length; cbn [length]; lia|]. split; [exact Hw|]. split; [exact Ho|].
    split; [|split; [lia|]].
    - intros i Hi. destruct (Hcols i Hi) as (H1 & H2 & H3). rewrite app_nth1 by lia. auto.
    - intros i Hi. apply C4. lia.
  Qed.

  Lemma arnoldi_loop_spec fuel : forall j cols (Vs : list vec),
    ainv j cols Vs -> Forall (norm_ok F) (arnoldi_loop_calls F Afunc dnorm small fuel j Vs) ->
    arnoldi_post (j + fuel + 1) (arnoldi_loop F Afunc dnorm small fuel j cols Vs).
  Proof.
    induction fuel as [|fuel IH]; intros j cols Vs HI HC; pose proof HI as (HV & _).
    - cbn [arnoldi_loop]. rewrite body_mgs by exact HV. destruct (mgs F Vs (Afunc (vat Vs j))) as [hs w'] eqn:E.
      apply (ainv_exit j cols Vs hs w'); [exact HI|exact E|lia|]. split; [discriminate|lia].
    - cbn [arnoldi_loop arnoldi_loop_calls] in *. rewrite body_mgs in * by exact HV.
      destruct (mgs F Vs (Afunc (vat Vs j))) as [hs w'] eqn:E.
      inversion HC as [|c cs Hc Hcs]; subst c cs.
      destruct (small (dnorm w')) eqn:Hs.
      + apply (ainv_exit j cols Vs hs w'); [exact HI|exact E|lia|]. split; [lia|reflexivity].
      + replace (j + S fuel + 1) with (S j + fuel + 1) by lia. apply IH; [|exact Hcs].
        apply (ainv_step j cols Vs hs w' (dnorm w') HI E Hc Hs).
  Qed.

  Lemma arnoldi_loop_first fuel : forall j cols (Vs : list vec), 0 < length Vs ->
    vat (snd (fst (arnoldi_loop F Afunc dnorm small fuel j cols Vs))) 0 = vat Vs 0.
  Proof.
    induction fuel as [|fuel IH]; intros j cols Vs HVs; cbn [arnoldi_loop].
    - destruct (arnoldi_body F Afunc dnorm j Vs) as [[hs w'] b]. reflexivity.
    - destruct (arnoldi_body F Afunc dnorm j Vs) as [[hs w'] b]. destruct (small b); [reflexivity|].
      rewrite IH by (rewrite app_length; cbn [length]; lia). apply vat_app1. exact HVs.
  Qed.

  Theorem arnoldi_spec (v : vec) m : length v = n -> v <> vzero n -> 1 <= m ->
    Forall (norm_ok F) (arnoldi_calls F Afunc dnorm small v m) ->
    exists cols Vs wn, arnoldi F Afunc dnorm small v m = Some (hmat (length Vs) cols, Vs, wn) /\
      arnoldi_post m (cols, Vs, wn) /\ vat Vs 0 = vdivr v (dnorm v).
  Proof.
    intros Hv Hnz Hm HC. unfold arnoldi, arnoldi_calls in *. destruct m as [|m']; [lia|].
    inversion HC as [|c cs Hc Hcs]; subst c cs.
    assert (Hne : dnorm v <> f0 F).
    { intros E. destruct Hc as [_ Hc]. cbn [fst snd] in Hc. rewrite E in Hc. apply Hnz. rewrite <- Hv. apply nrm2_zero. rewrite <- Hc. ring. }
    assert (Hpos : flt F (f0 F) (dnorm v)).
    { apply fle_neq_lt; [apply Hc|]. intros E. apply Hne. symmetry. exact E. }
    unfold fltb. unfold flt in Hpos. rewrite Hpos. cbn [negb].
    assert (HI : ainv 0 [] [vdivr v (dnorm v)]).
    { unfold ainv. split; [reflexivity|]. split; [reflexivity|]. split; [split|].
      - intros i Hi. cbn [length] in Hi. replace i with 0 by lia. apply length_vdivr. exact Hv.
      - intros i j Hi Hj. cbn [length] in Hi, Hj. replace i with 0 by lia. replace j with 0 by lia.
        unfold KrylovLanczos.vat. cbn [nth]. rewrite delta_refl. apply unit_vdivr; assumption.
      - intros i Hi. lia. }
    pose proof (arnoldi_loop_spec m' 0 [] [vdivr v (dnorm v)] HI Hcs) as HP.
    pose proof (arnoldi_loop_first m' 0 [] [vdivr v (dnorm v)] ltac:(cbn [length]; lia)) as H0.
    replace (0 + m' + 1) with (S m') in HP by lia.
    destruct (arnoldi_loop F Afunc dnorm small m' 0 [] [vdivr v (dnorm v)]) as [[cols Vs] wn].
    exists cols, Vs, wn. split; [reflexivity|]. split; [exact HP|exact H0].
  Qed.

  (* ---- consequences of the postcondition ---- *)
  Lemma hmat_entry k cols i j : i < k -> j < k -> nth j (nth i (hmat k cols) []) (k0 K) = hentry cols i j.
  Proof. intros Hi Hj. unfold hmat. rewrite nth_map_seq by exact Hi. apply nth_map_seq. exact Hj. Qed.

  (* upper Hessenberg: nothing below the first subdiagonal *)
  Theorem arnoldi_hessenberg m cols (Vs : list vec) wn : arnoldi_post m (cols, Vs, wn) ->
    forall i j, j < length Vs -> S j < i -> hentry cols i j = k0 K.
  Proof.
    intros (H1 & Hm & Hc & Hw & Ho & Hcols & Hlast & _) i j Hj Hij. unfold hentry.
    apply nth_overflow. destruct (Nat.eq_dec (S j) (length Vs)) as [E|E].
    - replace j with (length Vs - 1) by lia. rewrite Hlast. lia.
    - destruct (Hcols j ltac:(lia)) as (L & _). rewrite L. lia.
  Qed.

  (* A v_j = sum_{i <= j+1} H_ij v_i  for the columns before the last *)
  Theorem arnoldi_relation m cols (Vs : list vec) wn : arnoldi_post m (cols, Vs, wn) ->
    forall j, S j < length Vs ->
      Afunc (vat Vs j) = lincomb n (map (fun i => hentry cols i j) (seq 0 (S (S j)))) Vs /\
      exists b, hentry cols (S j) j = cof b /\ flt F (f0 F) b.
  Proof.
    intros (H1 & Hm & Hc & Hw & Ho & Hcols & _) j Hj. destruct (Hcols j ltac:(lia)) as (L & Hr & Hb).
    split; [|exact Hb]. rewrite Hr. f_equal. unfold hentry.
    apply (list_eq_nth (k0 K)).
    - rewrite map_length, seq_length. exact L.
    - intros i Hi. rewrite nth_map_seq by lia. reflexivity.
  Qed.

  (* H = V^H A V, entrywise *)
  Theorem arnoldi_projection m cols (Vs : list vec) wn : arnoldi_post m (cols, Vs, wn) ->
    forall i j, i < length Vs -> j < length Vs -> hentry cols i j = vdot (vat Vs i) (Afunc (vat Vs j)).
  Proof.
    intros (H1 & Hm & Hc & Hw & Ho & Hcols & Hlast & Hlc) i j Hi Hj. pose proof Ho as [Hl Hd]. unfold hentry.
    destruct (Nat.eq_dec (S j) (length Vs)) as [E|E].
    - replace j with (length Vs - 1) by lia. apply Hlc. exact Hi.
    - destruct (Hcols j ltac:(lia)) as (L & Hr & _). rewrite Hr.
      rewrite (vdot_lincomb_r F n) by (try apply orth_all; try exact Ho; lia).
      transitivity (sumn (length Vs) (fun l => kmul K (cnth (nth j cols []) l) (if Nat.eqb l i then k1 K else k0 K))).
      + symmetry. apply (sumn_delta_r (Cx F) (length Vs) i (fun l => cnth (nth j cols []) l)). exact Hi.
      + apply sumn_ext. intros l Hl'. fold (vat Vs l). rewrite Hd by assumption. unfold KrylovLanczos.delta.
        rewrite (Nat.eqb_sym l i). reflexivity.
  Qed.
End Arnoldi.
