(* C08/C10, two-site sweeps — executable versions of the oracle contracts of Proofs/Sweeps2Run.v (for the non-vacuity
   examples of Properties/C08.v, C10.v): boolean exact-split contract, and trace checkers for runs with the trivial
   local solvers of Proofs/SweepsCheck.v (kexp = identity; keig = Rayleigh quotient of the start tensor). *)
From Coq Require Import ZArith Arith List Lia Ring Field Setoid Bool.
From PT Require Import Base.Scalar Base.Field Base.BigSum Base.Mx Model.Tensor Model.Operation Model.Sweeps
  Proofs.OperationEntries Proofs.OperationTwoSite Proofs.SweepsCanon Proofs.SweepsGauge Proofs.SweepsInv Proofs.SweepsRun Proofs.SweepsCheck
  Proofs.Sweeps2Inv Proofs.Sweeps2Run.
Import ListNotations.

Section Check2.
  Variable R : cring.

  Definition fac2b (d Dl k Dr : nat) (M A0 A1 : site R) : bool :=
    forallb (fun s => forallb (fun t => forallb (fun a => forallb (fun e =>
      keqb R (get (sel M (s * d + t)) a e) (sumn k (fun j => kmul R (get (sel A0 s) a j) (get (sel A1 t) j e))))
      (seq 0 Dr)) (seq 0 Dl)) (seq 0 d)) (seq 0 (length A0)).
  Lemma fac2b_ok d Dl k Dr M A0 A1 : fac2b d Dl k Dr M A0 A1 = true -> fac2 d Dl k Dr M A0 A1.
  Proof.
    unfold fac2b, fac2. rewrite forallb_forall. intros H s t a e Hs Ht Ha He.
    specialize (H s ltac:(apply in_seq; lia)). rewrite forallb_forall in H.
    specialize (H t ltac:(apply in_seq; lia)). rewrite forallb_forall in H.
    specialize (H a ltac:(apply in_seq; lia)). rewrite forallb_forall in H.
    specialize (H e ltac:(apply in_seq; lia)). apply keqb_spec. exact H.
  Qed.

  Definition split_okb (d : nat) (left : bool) (Am : site R) (ans : site R * site R * list BinNums.Z) : bool :=
    let A0 := fst (fst ans) in let A1 := snd (fst ans) in
    let Dl := sdl Am in let Dr := sdr Am in let k := sdr A0 in
    Nat.ltb 0 d && site_shape d Dl k A0 && site_shape d k Dr A1 && fac2b d Dl k Dr Am A0 A1 &&
    (if left then right_isob A1 else left_isob A0).
  Lemma split_okb_ok d left Am ans : split_okb d left Am ans = true -> split_ok d left Am ans.
  Proof.
    unfold split_okb, split_ok. cbv zeta. rewrite !andb_true_iff, Nat.ltb_lt. intros ((((Hd & H0) & H1) & Hf) & Hi) Dl Dr HM.
    assert (Hdd : 0 < d * d) by (apply Nat.mul_pos_pos; exact Hd).
    destruct (site_ok_sdl R _ _ _ _ Hdd HM) as (E1 & E2 & _). rewrite E1, E2 in *.
    exists (sdr (fst (fst ans))). split; [apply site_shape_ok; exact H0|]. split; [apply site_shape_ok; exact H1|].
    split; [apply fac2b_ok; exact Hf|].
    destruct left; [apply right_isob_ok|apply left_isob_ok]; exact Hi.
  Qed.

  (* ---- two-site TDVP with the identity solver ---- *)
  Variable split : nat -> site R -> list BinNums.Z -> list BinNums.Z -> list BinNums.Z -> list BinNums.Z -> bool -> site R * site R * list BinNums.Z.

  Fixpoint splits_okb (d : nat) (tr : list (tcall R)) : bool :=
    match tr with
    | [] => true
    | t :: rest =>
        (match c_kind (t_call t), t_ten t, t_qs t with
         | SPLITL, [Am], [q0; q1; q2; q3] => split_okb d true Am (split (length rest) Am q0 q1 q2 q3 true)
         | SPLITR, [Am], [q0; q1; q2; q3] => split_okb d false Am (split (length rest) Am q0 q1 q2 q3 false)
         | _, _, _ => true
         end) && splits_okb d rest
    end.

  Lemma ttr2_ok_id Hs dt hdt d tr : splits_okb d tr = true -> ttr2_ok split kexp_id Hs dt hdt d tr.
  Proof.
    induction tr as [|t rest IH]; [intros _; exact I|]. cbn [splits_okb ttr2_ok]. rewrite andb_true_iff. intros [H1 H2].
    split; [|exact (IH H2)]. clear IH H2. unfold tdvp2_call_ok. destruct t as [[k i c] envs ten qs]. cbn [t_call c_kind c_site c_coef t_envs t_ten t_qs] in *.
    destruct k; try exact I.
    - destruct envs as [|BL [|BR [|? ?]]]; try exact I. destruct ten as [|A [|? ?]]; try exact I.
      unfold kexp_id, kexp_ok. auto.
    - destruct envs as [|BL [|BR [|? ?]]]; try exact I. destruct ten as [|A [|? ?]]; try exact I.
      unfold kexp_id, kexp_ok. auto.
    - destruct ten as [|A [|? ?]]; try exact I. destruct qs as [|q0 [|q1 [|q2 [|q3 [|? ?]]]]]; try exact I.
      apply split_okb_ok. exact H1.
    - destruct ten as [|A [|? ?]]; try exact I. destruct qs as [|q0 [|q1 [|q2 [|q3 [|? ?]]]]]; try exact I.
      apply split_okb_ok. exact H1.
  Qed.
End Check2.

Arguments fac2b {R} d Dl k Dr M A0 A1. Arguments split_okb {R} d left Am ans. Arguments splits_okb {R} split d tr.

Section Check2DMRG.
  Variable F : ofield.
  Add Field Ffield_sweeps2_check : (f_ft F).
  Notation K := (Cx F).
  Variable qr : nat -> mx K -> list BinNums.Z -> list BinNums.Z -> mx K * mx K * list BinNums.Z.
  Variable split : nat -> site K -> list BinNums.Z -> list BinNums.Z -> list BinNums.Z -> list BinNums.Z -> bool -> site K * site K * list BinNums.Z.

  Fixpoint dtr2_okb (d : nat) (tr : list (tcall K)) : bool :=
    match tr with
    | [] => true
    | t :: rest =>
        (match c_kind (t_call t), t_envs t, t_ten t, t_qs t with
         | EIG2, [BL; BR], [Am], _ => keqb K (site_dot Am Am) (k1 K)
         | SPLITL, _, [Am], [q0; q1; q2; q3] => split_okb d true Am (split (length rest) Am q0 q1 q2 q3 true)
         | SPLITR, _, [Am], [q0; q1; q2; q3] => split_okb d false Am (split (length rest) Am q0 q1 q2 q3 false)
         | QR, _, [[M]], [q0; q1] => qr_okb M (qr (length rest) M q0 q1)
         | _, _, _, _ => true
         end) && dtr2_okb d rest
    end.

  Lemma rtr2_ok_id Hs d tr : dtr2_okb d tr = true -> rtr2_ok qr split keig_id Hs d tr.
  Proof.
    induction tr as [|t rest IH]; [intros _; exact I|]. cbn [dtr2_okb rtr2_ok]. rewrite andb_true_iff. intros [H1 H2].
    split; [|exact (IH H2)]. clear IH H2. unfold dmrg2_call_ok. destruct t as [[k i c] envs ten qs]. cbn [t_call c_kind c_site c_coef t_envs t_ten t_qs] in *.
    destruct k; try exact I.
    - destruct envs as [|BL [|BR [|? ?]]]; try exact I. destruct ten as [|A [|? ?]]; try exact I.
      apply keqb_spec in H1. unfold keig_id, keig_ok, alh. cbn [fst snd]. split; [auto|]. split; [exact H1|]. split; [reflexivity|].
      rewrite H1. cbn [cre fst k1 Cx K]. eapply fle_eq; [| reflexivity | apply fle_refl].
      destruct (f_ft F) as [Rth _ _ _]. rewrite (Rmul_comm Rth), (Rmul_1_l Rth). reflexivity.
    - destruct ten as [|[|M [|? ?]] [|? ?]]; try exact I. destruct qs as [|q0 [|q1 [|? ?]]]; try exact I.
      apply qr_okb_ok. exact H1.
    - destruct ten as [|A [|? ?]]; try exact I. destruct qs as [|q0 [|q1 [|q2 [|q3 [|? ?]]]]]; try exact I.
      apply split_okb_ok. exact H1.
    - destruct ten as [|A [|? ?]]; try exact I. destruct qs as [|q0 [|q1 [|q2 [|q3 [|? ?]]]]]; try exact I.
      apply split_okb_ok. exact H1.
  Qed.
End Check2DMRG.

Arguments dtr2_okb {F} qr split d tr.
