(* Non-vacuity instances for the linking theorems (rational data of Proofs/KrylovExamples15.v). *)
From Coq Require Import ZArith QArith Qcanon List Bool Arith Lia.
From PT Require Import Base.Scalar Base.Field Base.BigSum Model.Krylov Proofs.KrylovVec Proofs.KrylovLanczos
  Proofs.KrylovMatvec Proofs.KrylovExpm Proofs.KrylovRitz Proofs.KrylovExamples Proofs.KrylovExamples15 Proofs.LinkExpmEnergy.
Import ListNotations.
Open Scope nat_scope.

Lemma ex4_energy_oracles :
  expm_h_energy_oracles_ok QcF dexp_ex (matvec ex_A4) dnorm_ex ex_small deigh_ex ex_v ex_dt 2.
Proof.
  intros al be Vs wn E. vm_compute in E. injection E as <- <- <- <-. split; [|split].
  - apply eigh_okb_ok. vm_compute. reflexivity.
  - apply eigh_sorted_row0, eigh_sortedb_ok. vm_compute. reflexivity.
  - intros l _. apply (feqb_spec QcF). vm_compute. reflexivity.
Qed.

Lemma ex4_energy :
  exists x, expm_krylov QcF (matvec ex_A4) dnorm_ex ex_small deigh_ex dexp_ex (fun M => M) ex_v ex_dt 2 true = Some x /\
            length x = 3 /\ nrm2 x = nrm2 ex_v /\ vdot x (matvec ex_A4 x) = vdot ex_v (matvec ex_A4 ex_v).
Proof.
  apply (expm_hermitian_energy QcF 3 dexp_ex (matvec ex_A4) ex4_len ex4_lin dnorm_ex ex_small deigh_ex (fun M => M) ex4_sa ex_small_sound);
    [reflexivity|exact ex_v_nonzero|lia|exact ex4_calls|exact ex4_energy_oracles].
Qed.
