(* C02, round 3: whole runs of the two-site sweeps keep the invariant of C02; the Tdvp / Dmrg steps with twosite = true of
   the history state machine; the history theorem with every sparsity hypothesis replaced by per-call contracts of the
   numerical primitives ([history_inv_contracts]). *)
From Coq Require Import ZArith List Lia Bool Arith Ring.
From PT Require Import Base.Scalar Base.Field Base.BigSum Base.Mx Model.Tensor Model.MPSOps Model.BondOps Model.Operation Model.Krylov Model.Sweeps.
From PT Require Import Model.Orthonormalize Model.History.
From PT Require Import Proofs.MPSOpsBase Proofs.MPSOpsTop Proofs.MPSOpsShape Proofs.OperationSums Proofs.OperationEntries.
From PT Require Import Proofs.SweepsFlow Proofs.SweepsRun Proofs.LinkFlatten Proofs.LinkLocalOps Proofs.LinkSolvers.
From PT Require Import Proofs.BondOpsSpec Proofs.OrthDefs Proofs.OrthQRExtra Proofs.OrthSweep Proofs.OrthTop Proofs.OrthRight.
From PT Require Import Proofs.CompressTop Proofs.CompressPartial.
From PT Require Import Proofs.HistSparse Proofs.HistChain Proofs.HistOps Proofs.HistInv Proofs.HistOrth.
From PT Require Import Proofs.Hist2Compress Proofs.Hist2Local Proofs.Hist2Krylov Proofs.Hist2Solvers Proofs.Hist2Sweep Proofs.Hist2Dmrg Proofs.Hist2Top.
From PT Require Import Proofs.Hist3Sweep2.
Import ListNotations.
Open Scope nat_scope.

(* oracles that do not occur in the traces of the respective sweep (the contracts of their call kinds are vacuous) *)
Definition no_qr (R : cring) : nat -> mx R -> list Z -> list Z -> mx R * mx R * list Z := fun _ M _ _ => (M, M, []).
Definition no_kexp (R : cring) : nat -> env R -> env R -> osite R -> site R -> R -> site R := fun _ _ _ _ X _ => X.
Definition no_kexp0 (R : cring) : nat -> env R -> env R -> mx R -> R -> mx R := fun _ _ _ C _ => C.
Definition no_keig (R : cring) : nat -> env R -> env R -> osite R -> site R -> R * site R := fun _ _ _ _ X => (k0 R, X).

Lemma sweep_init_len (R : cring) orth (H : mpo R) psi st nrm : sweep_init orth H psi = Some (st, nrm) -> 1 <= length (o_A H).
Proof.
  intros Einit. unfold sweep_init in Einit. destruct (negb _); [discriminate|]. destruct (orth psi) as [psi1 n1].
  destruct (compute_right_operator_blocks psi1 H) as [BR|] eqn:EB; [|discriminate].
  unfold compute_right_operator_blocks, compute_right_operator_blocks_sites in EB. destruct (negb _); [discriminate|].
  destruct (m_A psi1); [discriminate|]. destruct (o_A H); [discriminate|]. cbn [length]. lia.
Qed.

(* ---------- integrate_local_twosite: the returned (A, qD) satisfy the invariant of C02 ---------- *)
Theorem tdvp2_mps_ok (R : cring) orth split kexp (H : mpo R) (psi : mps R) dt hdt n A qD nrm tr :
  tdvp_twosite orth split kexp H psi dt hdt n = Some (A, qD, nrm, tr) ->
  mpo_ok H = true -> o_qd H = m_qd psi -> Forall (fun q => 0 < length q) (o_qD H) ->
  hd [] (o_qD H) = [0%Z] -> last (o_qD H) [] = [0%Z] ->
  0 < length (m_qd psi) -> m_qd (fst (orth psi)) = m_qd psi -> mps_ok (fst (orth psi)) = true ->
  length (hd [] (m_qD (fst (orth psi)))) = 1 -> length (last (m_qD (fst (orth psi))) []) = 1 ->
  sp2_tr_ok R (no_qr R) split kexp (no_kexp0 R) (no_keig R) (o_A H) (m_qd psi) (o_qD H) dt hdt (rev tr) ->
  mps_ok (mkmps (m_qd psi) qD A) = true /\ nrm = snd (orth psi) /\ 2 <= length (o_A H).
Proof.
  intros Hrun HokH Eqd Hpos Hh0 Hl0 Hd Eqd1 Hok1 Hh1 Hl1 Hok.
  unfold tdvp_twosite in Hrun. destruct (Nat.ltb (length (o_A H)) 2) eqn:EL; [discriminate|]. apply Nat.ltb_ge in EL.
  destruct (sweep_init orth H psi) as [[st nrm']|] eqn:Einit; [|discriminate].
  injection Hrun as <- <- <- <-. rewrite rev_involutive in Hok.
  apply mpo_ok_P in HokH. rewrite Eqd in HokH.
  assert (HWpos : forall j, j <= length (o_A H) -> 0 < length (nth j (o_qD H) [])).
  { intros j Hj. rewrite Forall_forall in Hpos. apply Hpos. apply nth_In. rewrite (chainP_length _ _ _ _ HokH). lia. }
  assert (HW0 : nth 0 (o_qD H) [] = [0%Z]).
  { destruct (o_qD H) as [|w0 ws]; [discriminate Hh0|]. exact Hh0. }
  destruct (ZQ_init R (m_qd psi) Hd (o_A H) (o_qD H) orth H psi st nrm' HokH HWpos HW0 Einit eq_refl eq_refl Hl0 Eqd1 Hok1 Hh1 Hl1)
    as (HZ & _ & _ & En).
  split; [|split; [exact En|exact EL]].
  apply (ZQ_mps_ok R (o_A H) (m_qd psi) (o_qD H) Hd _ 0).
  exact (tdvp2_iter_sp R (no_qr R) split kexp (no_kexp0 R) (no_keig R) (o_A H) (m_qd psi) (o_qD H) dt hdt Hd HokH HWpos n st EL HZ Hok).
Qed.

(* ---------- calculate_ground_state_local_twosite ---------- *)
Theorem dmrg2_mps_ok (R : cring) orth qr split keig (H : mpo R) (psi : mps R) n A qD ens tr :
  dmrg_twosite orth qr split keig H psi n = Some (A, qD, ens, tr) ->
  mpo_ok H = true -> o_qd H = m_qd psi -> Forall (fun q => 0 < length q) (o_qD H) ->
  hd [] (o_qD H) = [0%Z] -> last (o_qD H) [] = [0%Z] ->
  0 < length (m_qd psi) -> m_qd (fst (orth psi)) = m_qd psi -> mps_ok (fst (orth psi)) = true ->
  length (hd [] (m_qD (fst (orth psi)))) = 1 -> length (last (m_qD (fst (orth psi))) []) = 1 ->
  sp2_tr_ok R qr split (no_kexp R) (no_kexp0 R) keig (o_A H) (m_qd psi) (o_qD H) (k0 R) (k0 R) (rev tr) ->
  mps_ok (mkmps (m_qd psi) qD A) = true.
Proof.
  intros Hrun HokH Eqd Hpos Hh0 Hl0 Hd Eqd1 Hok1 Hh1 Hl1 Hok.
  unfold dmrg_twosite in Hrun. destruct (sweep_init orth H psi) as [[st nrm']|] eqn:Einit; [|discriminate].
  destruct (dmrg_loop (dmrg2_sweep qr split keig (o_A H) (m_qd psi) (length (o_A H))) n st []) as [st' ens'] eqn:El.
  injection Hrun as <- <- <- <-. rewrite rev_involutive in Hok.
  apply mpo_ok_P in HokH. rewrite Eqd in HokH.
  assert (HWpos : forall j, j <= length (o_A H) -> 0 < length (nth j (o_qD H) [])).
  { intros j Hj. rewrite Forall_forall in Hpos. apply Hpos. apply nth_In. rewrite (chainP_length _ _ _ _ HokH). lia. }
  assert (HW0 : nth 0 (o_qD H) [] = [0%Z]).
  { destruct (o_qD H) as [|w0 ws]; [discriminate Hh0|]. exact Hh0. }
  destruct (ZQ_init R (m_qd psi) Hd (o_A H) (o_qD H) orth H psi st nrm' HokH HWpos HW0 Einit eq_refl eq_refl Hl0 Eqd1 Hok1 Hh1 Hl1)
    as (HZ & HB0 & _ & _).
  pose proof (sweep_init_len R orth H psi st nrm' Einit) as HL1.
  apply (ZQ_mps_ok R (o_A H) (m_qd psi) (o_qD H) Hd _ 0).
  pose proof (dmrg2_loop_sp R qr split (no_kexp R) (no_kexp0 R) keig (o_A H) (m_qd psi) (o_qD H) (k0 R) (k0 R) Hd HokH HWpos HW0 n st [] HL1 HZ HB0) as Hrun.
  rewrite El in Hrun. cbn [fst] in Hrun. apply Hrun. exact Hok.
Qed.

(* ---------- the Krylov-based local solvers meet the two-site per-call contracts whenever the call returns ---------- *)
Section Lanczos2.
  Variable F : ofield.
  Notation K := (Cx F).
  Variable dnorm : list K -> F.
  Variable small : F -> bool.
  Variable deigh : list F -> list F -> list F * list (list F).
  Variable dexp : K -> K.
  Variable dexpm : list (list K) -> list (list K).
  Variable numiter : nat.
  Variable qr : nat -> mx K -> list Z -> list Z -> mx K * mx K * list Z.
  Variable split : nat -> site K -> list Z -> list Z -> list Z -> list Z -> bool -> site K * site K * list Z.
  Variables (Hs : list (osite K)) (qd : list Z) (qWs : list (list Z)) (dt hdt : K).
  Notation kexpL := (kexp_lanczos F dnorm small deigh dexp dexpm numiter).
  Notation kexp0L := (kexp0_lanczos F dnorm small deigh dexp dexpm numiter).
  Notation keigL := (keig_lanczos F dnorm small deigh numiter).
  Hypothesis Hd : 0 < length qd.
  Hypothesis HWs : chainP (osite_okP K qd) qWs Hs.
  Hypothesis HWpos : forall j, j <= length Hs -> 0 < length (nth j qWs []).

  (* what remains to be assumed of a recorded call: solver calls return; split / QR calls meet C12's / C11's conclusion *)
  Definition lz2_call_ok (p : nat) (t : tcall K) : Prop :=
    let i := c_site (t_call t) in
    let tm := tval dt hdt (c_coef (t_call t)) in
    match c_kind (t_call t), t_envs t, t_ten t, t_qs t with
    | KH2, [BL; BR], [Am], _ => S i < length Hs /\ kexp_lanczos_returns F dnorm small deigh dexp dexpm numiter BL BR (Hm2 K Hs i) Am tm
    | EIG2, [BL; BR], [Am], _ => S i < length Hs /\ keig_lanczos_returns F dnorm small deigh numiter BL BR (Hm2 K Hs i) Am
    | SPLITL, _, [Am], [q0; q1; q2; q3] =>
        site_okP K (Sweeps.qflat q0 q1) q2 q3 Am -> split_sp_ok K q0 q1 q2 q3 (split p Am q0 q1 q2 q3 true)
    | SPLITR, _, [Am], [q0; q1; q2; q3] =>
        site_okP K (Sweeps.qflat q0 q1) q2 q3 Am -> split_sp_ok K q0 q1 q2 q3 (split p Am q0 q1 q2 q3 false)
    | _, _, _, _ => lz_call_ok F dnorm small deigh dexp dexpm numiter qr Hs dt hdt p t
    end.

  Lemma qd2_pos : 0 < length (qd2 qd).
  Proof. unfold qd2. rewrite Sweeps_qflat_length. nia. Qed.

  Theorem lz2_call_sp p t : lz2_call_ok p t -> sp2_call_ok K qr split kexpL kexp0L keigL Hs qd qWs dt hdt p t.
  Proof.
    unfold lz2_call_ok, sp2_call_ok. cbv zeta.
    pose proof (lz_call_sp F dnorm small deigh dexp dexpm numiter qr Hs qd qWs dt hdt Hd HWs HWpos p t) as H1.
    destruct (c_kind (t_call t)); try exact H1;
      destruct (t_envs t) as [|BL [|BR [|? ?]]]; try exact H1;
      destruct (t_ten t) as [|A [|? ?]]; try exact H1;
      try (destruct (t_qs t) as [|q0 [|q1 [|q2 [|q3 [|? ?]]]]]; try exact H1; exact (fun H => H)).
    - (* KH2 *) intros [Hi Hret] ql qr' HA HL HR. assert (Hi0 : c_site (t_call t) <= length Hs) by lia.
      apply (kexp_lanczos_okP F dnorm small deigh dexp dexpm numiter (qd2 qd) (nth (c_site (t_call t)) qWs []) (nth (S (S (c_site (t_call t)))) qWs []) ql qr' BL BR
               (Hm2 K Hs (c_site (t_call t))) qd2_pos (HWpos _ Hi0) (HWpos (S (S (c_site (t_call t)))) Hi)
               (Hm2_okP K Hs qd qWs Hd HWs _ Hi) HL HR); assumption.
    - (* EIG2 *) intros [Hi Hret] ql qr' HA HL HR. assert (Hi0 : c_site (t_call t) <= length Hs) by lia.
      apply (keig_lanczos_okP F dnorm small deigh numiter (qd2 qd) (nth (c_site (t_call t)) qWs []) (nth (S (S (c_site (t_call t)))) qWs []) ql qr' BL BR
               (Hm2 K Hs (c_site (t_call t))) qd2_pos (HWpos _ Hi0) (HWpos (S (S (c_site (t_call t)))) Hi)
               (Hm2_okP K Hs qd qWs Hd HWs _ Hi) HL HR); assumption.
  Qed.

  Fixpoint lz2_tr_ok (tr : list (tcall K)) : Prop :=
    match tr with [] => True | t :: rest => lz2_call_ok (length rest) t /\ lz2_tr_ok rest end.
  Theorem lz2_tr_sp tr : lz2_tr_ok tr -> sp2_tr_ok K qr split kexpL kexp0L keigL Hs qd qWs dt hdt tr.
  Proof. induction tr as [|t tr IH]; [exact (fun H => H)|]. intros [H1 H2]. split; [apply lz2_call_sp; exact H1|apply IH; exact H2]. Qed.
End Lanczos2.

(* ---------- split_mps_tensor through the model of C03 / C12: C12's conclusion for split_matrix_svd ([svd_ans_ok], a theorem
              for every non-zero valid input: split_contract_from_C12) gives the split contract of the sweeps ---------- *)
Theorem split_sp_of_C12 (R : cring) svd ksqrt (Am : site R) q0 q1 q2 q3 distr : 0 < length q0 * length q1 ->
  (site_okP R (Sweeps.qflat q0 q1) q2 q3 Am ->
   svd_ans_ok R (split_matrix (length q0) (length q1) Am) (MPSOps.qflat q0 q2) (MPSOps.qflat (map Z.opp q1) q3)
     (svd (split_matrix (length q0) (length q1) Am) (MPSOps.qflat q0 q2) (MPSOps.qflat (map Z.opp q1) q3))) ->
  site_okP R (Sweeps.qflat q0 q1) q2 q3 Am -> split_sp_ok R q0 q1 q2 q3 (split_mps_tensor svd ksqrt Am q0 q1 q2 q3 distr).
Proof.
  intros Hd Hans HA. unfold split_sp_ok.
  assert (SA : site_shape (length q0 * length q1) (length q2) (length q3) Am = true).
  { destruct HA as [SA _]. rewrite Sweeps_qflat_length in SA. exact SA. }
  exact (HistOps.split_ok R svd ksqrt Am q0 q1 q2 q3 distr SA Hd (Hans HA)).
Qed.

(* ---------- the Tdvp / Dmrg steps with twosite = true of the history state machine ---------- *)
Section Steps2.
  Variable R : cring.
  Variable orth : mps R -> mps R * R.
  Variable qr : nat -> mx R -> list Z -> list Z -> mx R * mx R * list Z.
  Variable split : nat -> site R -> list Z -> list Z -> list Z -> list Z -> bool -> site R * site R * list Z.
  Variable kexp : nat -> env R -> env R -> osite R -> site R -> R -> site R.
  Variable keig : nat -> env R -> env R -> osite R -> site R -> R * site R.
  Variable tdvp_par : nat -> R * R * nat.
  Variable dmrg_par : nat -> nat.

  Definition tdvp2_result (tag : nat) (H : mpo R) (psi : mps R) : mps R :=
    let '(dt, hdt, n) := tdvp_par tag in
    match tdvp_twosite orth split kexp H psi dt hdt n with
    | Some (A, qD, _, _) => mkmps (m_qd psi) qD A
    | None => psi
    end.
  Definition dmrg2_result (tag : nat) (H : mpo R) (psi : mps R) : mps R :=
    match dmrg_twosite orth qr split keig H psi (dmrg_par tag) with
    | Some (A, qD, _, _) => mkmps (m_qd psi) qD A
    | None => psi
    end.

  (* contracts of the calls the run issues (nothing if the model raises) *)
  Definition tdvp2_calls_ok (tag : nat) (H : mpo R) (psi : mps R) : Prop :=
    let '(dt, hdt, n) := tdvp_par tag in
    forall A qD nrm tr, tdvp_twosite orth split kexp H psi dt hdt n = Some (A, qD, nrm, tr) ->
      sp2_tr_ok R (no_qr R) split kexp (no_kexp0 R) (no_keig R) (o_A H) (m_qd psi) (o_qD H) dt hdt (rev tr).
  Definition dmrg2_calls_ok (tag : nat) (H : mpo R) (psi : mps R) : Prop :=
    forall A qD ens tr, dmrg_twosite orth qr split keig H psi (dmrg_par tag) = Some (A, qD, ens, tr) ->
      sp2_tr_ok R qr split (no_kexp R) (no_kexp0 R) keig (o_A H) (m_qd psi) (o_qD H) (k0 R) (k0 R) (rev tr).

  Theorem tdvp2_result_ok tag H psi : mpo_ok H = true -> mps_ok psi = true -> sweep_pre R orth H psi -> tdvp2_calls_ok tag H psi ->
    mps_ok (tdvp2_result tag H psi) = true.
  Proof.
    intros HokH Hok (P1 & P2 & P3 & P4 & P5 & P6 & P7 & P8 & P9) Hc. unfold tdvp2_result, tdvp2_calls_ok in *.
    destruct (tdvp_par tag) as [[dt hdt] n].
    destruct (tdvp_twosite orth split kexp H psi dt hdt n) as [[[[A qD] nrm] tr]|] eqn:E; [|exact Hok].
    exact (proj1 (tdvp2_mps_ok R orth split kexp H psi dt hdt n A qD nrm tr E HokH P1 P2 P3 P4 P5 P6 P7 P8 P9 (Hc A qD nrm tr eq_refl))).
  Qed.
  Theorem dmrg2_result_ok tag H psi : mpo_ok H = true -> mps_ok psi = true -> sweep_pre R orth H psi -> dmrg2_calls_ok tag H psi ->
    mps_ok (dmrg2_result tag H psi) = true.
  Proof.
    intros HokH Hok (P1 & P2 & P3 & P4 & P5 & P6 & P7 & P8 & P9) Hc. unfold dmrg2_result, dmrg2_calls_ok in *.
    destruct (dmrg_twosite orth qr split keig H psi (dmrg_par tag)) as [[[[A qD] ens] tr]|] eqn:E; [|exact Hok].
    exact (dmrg2_mps_ok R orth qr split keig H psi (dmrg_par tag) A qD ens tr E HokH P1 P2 P3 P4 P5 P6 P7 P8 P9 (Hc A qD ens tr eq_refl)).
  Qed.

  Theorem tdvp2_step_contract (O : oracles R) (s : state R) (a i tag : nat) :
    or_tdvp O true = tdvp2_result ->
    (forall x p, nth_error (operators s) a = Some x -> nth_error (states s) i = Some p -> sweep_pre R orth x p /\ tdvp2_calls_ok tag x p) ->
    oracle_ok_at R O s (Tdvp true a i tag).
  Proof.
    intros EO H. simpl. intros x p Ea Ei Hx Hp. rewrite EO. destruct (H x p Ea Ei) as [Hpre Hc]. apply tdvp2_result_ok; assumption.
  Qed.
  Theorem dmrg2_step_contract (O : oracles R) (s : state R) (a i tag : nat) :
    or_dmrg O true = dmrg2_result ->
    (forall x p, nth_error (operators s) a = Some x -> nth_error (states s) i = Some p -> sweep_pre R orth x p /\ dmrg2_calls_ok tag x p) ->
    oracle_ok_at R O s (Dmrg true a i tag).
  Proof.
    intros EO H. simpl. intros x p Ea Ei Hx Hp. rewrite EO. destruct (H x p Ea Ei) as [Hpre Hc]. apply dmrg2_result_ok; assumption.
  Qed.
End Steps2.

(* ---------- the history theorem, final form: every operation of the state machine is its executable model, and the
              hypotheses are contracts of the numerical primitives on the calls actually issued ---------- *)
Section Final.
  Variable F : ofield.
  Notation CF := (Cx F).
  (* LAPACK-level oracles of orthonormalize / compress *)
  Variable dqr : mx CF -> mx CF * mx CF.
  Variable dsvd : mx CF -> mx CF * list F * mx CF.
  Variable pick : list F -> list nat.
  Variable cabs : CF -> F.
  Variable tolf : nat -> F.
  (* callees of the four sweep functions *)
  Variable orth : mps CF -> mps CF * CF.
  Variable qr : nat -> mx CF -> list Z -> list Z -> mx CF * mx CF * list Z.
  Variable split : nat -> site CF -> list Z -> list Z -> list Z -> list Z -> bool -> site CF * site CF * list Z.
  Variable kexp : nat -> env CF -> env CF -> osite CF -> site CF -> CF -> site CF.
  Variable kexp0 : nat -> env CF -> env CF -> mx CF -> CF -> mx CF.
  Variable keig : nat -> env CF -> env CF -> osite CF -> site CF -> CF * site CF.
  Variable tdvp_par : nat -> CF * CF * nat.
  Variable dmrg_par : nat -> nat.

  (* the result functions of the state machine are the executable models *)
  Definition model_oracles (O : oracles CF) : Prop :=
    or_orth O = orth_result F dqr /\ or_orth_mpo O = orth_mpo_result F dqr /\
    or_compress O = compress_result F dqr dsvd pick cabs tolf /\
    or_tdvp O false = tdvp1_result CF orth qr kexp kexp0 tdvp_par /\
    or_tdvp O true = tdvp2_result CF orth split kexp tdvp_par /\
    or_dmrg O false = dmrg1_result CF orth qr keig dmrg_par /\
    or_dmrg O true = dmrg2_result CF orth qr split keig dmrg_par.

  (* what is assumed of the calls issued by one operation: nothing for ring operations; shapes for from_vector; C12's
     conclusion for the one split_matrix_svd call of a merge + split; LAPACK's QR / SVD / argsort / abs contracts for
     orthonormalize and compress; for the four sweeps the operand conditions [sweep_pre] (operator charge neutral with
     non-empty bonds, facts of C01 about the preliminary orthonormalisation) and the per-call contracts of the trace *)
  Definition contracts_at (O : oracles CF) (s : state CF) (o : op CF) : Prop :=
    match o with
    | Orth i md =>
        forall p, nth_error (states s) i = Some p -> orth_pre F p /\ Forall (qr_call_ok F dqr) (mps_orth_calls dqr md p)
    | OrthMpo a md =>
        forall x, nth_error (operators s) a = Some x -> orth_mpo_pre F x /\ Forall (qr_call_ok F dqr) (mpo_orth_calls dqr md x)
    | Compress i tag md =>
        forall p, nth_error (states s) i = Some p -> orth_pre F p /\ compress_hyps F dqr dsvd pick cabs (tolf tag) md p
    | Tdvp false a i tag =>
        forall x p, nth_error (operators s) a = Some x -> nth_error (states s) i = Some p ->
          sweep_pre CF orth x p /\ tdvp1_calls_ok CF orth qr kexp kexp0 tdvp_par tag x p
    | Tdvp true a i tag =>
        forall x p, nth_error (operators s) a = Some x -> nth_error (states s) i = Some p ->
          sweep_pre CF orth x p /\ tdvp2_calls_ok CF orth split kexp tdvp_par tag x p
    | Dmrg false a i tag =>
        forall x p, nth_error (operators s) a = Some x -> nth_error (states s) i = Some p ->
          sweep_pre CF orth x p /\ dmrg1_calls_ok CF orth qr keig dmrg_par tag x p
    | Dmrg true a i tag =>
        forall x p, nth_error (operators s) a = Some x -> nth_error (states s) i = Some p ->
          sweep_pre CF orth x p /\ dmrg2_calls_ok CF orth qr split keig dmrg_par tag x p
    | _ => oracle_ok_at CF O s o
    end.
  Fixpoint contracts_ok (O : oracles CF) (ops : list (op CF)) (s : state CF) : Prop :=
    match ops with [] => True | o :: r => contracts_at O s o /\ contracts_ok O r (step O s o) end.

  Theorem contracts_at_oracle_ok (O : oracles CF) (s : state CF) (o : op CF) :
    model_oracles O -> contracts_at O s o -> oracle_ok_at CF O s o.
  Proof.
    intros (E1 & E2 & E3 & E4 & E5 & E6 & E7) H. destruct o; try exact H.
    - apply (orth_step_contract F dqr O s _ _ E1 H).
    - apply (compress_step_contract F dqr dsvd pick cabs tolf O s _ _ _ E3 H).
    - apply (orth_mpo_step_contract_both F dqr O s _ _ E2 H).
    - destruct twosite.
      + apply (tdvp2_step_contract CF orth split kexp tdvp_par O s a i tag E5 H).
      + apply (tdvp1_step_contract CF orth qr kexp kexp0 tdvp_par O s a i tag E4 H).
    - destruct twosite.
      + apply (dmrg2_step_contract CF orth qr split keig dmrg_par O s a i tag E7 H).
      + apply (dmrg1_step_contract CF orth qr keig dmrg_par O s a i tag E6 H).
  Qed.

  Theorem history_inv_contracts (O : oracles CF) : model_oracles O ->
    forall (ops : list (op CF)) (s : state CF), Inv CF s -> contracts_ok O ops s -> Inv CF (run O ops s).
  Proof.
    intros HO ops s HI Hc. apply history_inv_partial; [exact HI|].
    revert s HI Hc. induction ops as [|o ops IH]; intros s HI Hc; [exact I|].
    destruct Hc as [H1 H2]. pose proof (contracts_at_oracle_ok O s o HO H1) as Hor.
    split; [exact Hor|]. apply IH; [apply step_inv; assumption|exact H2].
  Qed.
End Final.
