(* C20, all lattice sizes, nearest-neighbour tables WITHOUT coincidences (Bose-Hubbard, Fermi-Hubbard), part 1: words.
   A table is a list T of two-site terms (o1, o2, charge between them) and a list S of one-site operators.
   Side conditions (decided by computation for the concrete tables):
     all operator ids differ from the identity id 0; the pairs (o1, charge) are pairwise different; the pairs (o2, charge) are
     pairwise different; no one-site operator equals the first or the second operator of a two-site term of charge 0;
     there are two different one-site operators.
   (The XXZ tables violate the fourth condition: Sz Sz has charge 0 and Sz is a one-site term - Proofs/CompactAllLXXZ*.v.) *)
From Coq Require Import ZArith List Lia Bool.
From PT Require Import Base.Scalar Model.FromOpchains Proofs.CompactAllLPart Proofs.CompactCount Proofs.CompactAllLXXZBody.
Import ListNotations.
Open Scope Z_scope.

Definition term : Type := (Z * Z * Z)%type.
Definition t1 (t : term) : Z := fst (fst t).
Definition t2 (t : term) : Z := snd (fst t).
Definition tq (t : term) : Z := snd t.

Lemma zs_nonzero : forall m k o l, zs m ++ o :: l = zs k -> o = 0.
Proof.
  induction m as [|m IH]; intros k o l H; destruct k as [|k]; cbn [zs repeat app] in H; try discriminate.
  - inversion H. reflexivity.
  - inversion H as [H1]. exact (IH k o l H1).
Qed.

Section NN.
  Variable T : list term.
  Variable S : list Z.
  Hypothesis H_T : forall t, In t T -> t1 t <> 0 /\ t2 t <> 0.
  Hypothesis H_S : forall o, In o S -> o <> 0.
  Hypothesis H_u : NoDup (map (fun t => (t1 t, tq t)) T).
  Hypothesis H_v : NoDup (map (fun t => (t2 t, tq t)) T).
  Hypothesis H_su : forall t o, In t T -> In o S -> ~ (t1 t = o /\ tq t = 0).
  Hypothesis H_sv : forall t o, In t T -> In o S -> ~ (t2 t = o /\ tq t = 0).

  Definition FutN (n : nat) (b : wbody) : Prop :=
    (exists m t, (m + 2 <= n)%nat /\ In t T /\ b = b2 n m (t1 t) (t2 t) (tq t)) \/
    (exists m o, (m + 1 <= n)%nat /\ In o S /\ b = b1 n m o).
  Definition LateN (n : nat) (b : wbody) : Prop :=
    (exists t, In t T /\ b = bp n (t2 t) (tq t)) \/ b = bd n.

  Definition sT (t : term) : Z * Z * Z := (t1 t, 0, tq t).
  Definition sO (o : Z) : Z * Z * Z := (o, 0, 0).

  Lemma FutCaseN n b : FutN (Datatypes.S n) b ->
    (usig b = sP /\ FutN n (tailb b)) \/
    (exists t, In t T /\ (1 <= n)%nat /\ usig b = sT t /\ tailb b = bp n (t2 t) (tq t)) \/
    (exists o, In o S /\ usig b = sO o /\ tailb b = bd n).
  Proof.
    intros [[m [t [Hm [Ht Hb]]]]|[m [o [Hm [Ho Hb]]]]]; subst b.
    - destruct m as [|m].
      + right. left. exists t. destruct (T2 n (t1 t) (t2 t) (tq t)) as [A B]. split; [exact Ht|]. split; [lia|]. auto.
      + left. destruct (T1 n m (t1 t) (t2 t) (tq t) ltac:(lia)) as [A B]. split; [exact B|]. rewrite A. left. exists m, t. split; [lia|auto].
    - destruct m as [|m].
      + right. right. exists o. destruct (T4 n o) as [A B]. auto.
      + left. destruct (T3 n m o ltac:(lia)) as [A B]. split; [exact B|]. rewrite A. right. exists m, o. split; [lia|auto].
  Qed.
  Lemma FutUpN n b' : FutN n b' -> exists b, FutN (Datatypes.S n) b /\ usig b = sP /\ tailb b = b'.
  Proof.
    intros [[m [t [Hm [Ht Hb]]]]|[m [o [Hm [Ho Hb]]]]]; subst b'.
    - exists (b2 (Datatypes.S n) (Datatypes.S m) (t1 t) (t2 t) (tq t)). destruct (T1 n m (t1 t) (t2 t) (tq t) ltac:(lia)) as [A B].
      split; [left; exists (Datatypes.S m), t; split; [lia|auto]|auto].
    - exists (b1 (Datatypes.S n) (Datatypes.S m) o). destruct (T3 n m o ltac:(lia)) as [A B].
      split; [right; exists (Datatypes.S m), o; split; [lia|auto]|auto].
  Qed.
  Lemma LateCaseN n b : LateN (Datatypes.S n) b -> tailb b = bd n.
  Proof. intros [[t [_ H]]|H]; subst b; [apply T5|apply T6]. Qed.
  Lemma FutN_T n t : (1 <= n)%nat -> In t T -> FutN (Datatypes.S n) (b2 (Datatypes.S n) 0 (t1 t) (t2 t) (tq t)).
  Proof. intros Hn Ht. left. exists 0%nat, t. split; [lia|auto]. Qed.
  Lemma FutN_S n o : In o S -> FutN (Datatypes.S n) (b1 (Datatypes.S n) 0 o).
  Proof. intros Ho. right. exists 0%nat, o. split; [lia|auto]. Qed.
  Lemma FutN_S' n o : (1 <= n)%nat -> In o S -> FutN n (b1 n 0 o).
  Proof. intros Hn Ho. right. exists 0%nat, o. split; [lia|auto]. Qed.
  Lemma FutN_one b : FutN 1 b -> exists o, In o S /\ b = b1 1 0 o.
  Proof. intros [[m [t [Hm _]]]|[m [o [Hm [Ho Hb]]]]]; [lia|]. exists o. replace m with 0%nat in Hb by lia. auto. Qed.

  (* a not yet started term is never a started or finished one *)
  Lemma FutN_not_late n b : FutN n b -> LateN n b -> False.
  Proof.
    intros [[m [t [Hm [Ht Hb]]]]|[m [o [Hm [Ho Hb]]]]] [[t' [Ht' Hl]]|Hl]; subst b.
    - destruct (H_T t Ht) as [A1 A2]. destruct (H_T t' Ht') as [B1 B2]. unfold b2, bp in Hl. destruct m as [|m].
      + destruct n as [|[|n]]; [lia|lia|]. cbn [zs repeat app Nat.sub] in Hl. inversion Hl. contradiction.
      + cbn [zs repeat app] in Hl. inversion Hl. congruence.
    - destruct (H_T t Ht) as [A1 _]. unfold b2, bd in Hl. pose proof (f_equal fst Hl) as H1. cbn [fst] in H1. apply zs_nonzero in H1. contradiction.
    - destruct (H_T t' Ht') as [_ B2]. unfold b1, bp in Hl. destruct m as [|m].
      + cbn [zs repeat app] in Hl. rewrite Nat.sub_0_r in Hl. inversion Hl as [[H1 H2]]. apply (H_sv t' o Ht' Ho). auto.
      + cbn [zs repeat app] in Hl. inversion Hl. congruence.
    - unfold b1, bd in Hl. pose proof (f_equal fst Hl) as H1. cbn [fst] in H1. apply zs_nonzero in H1. exact (H_S o Ho H1).
  Qed.

  (* distinctness *)
  Lemma bp_inj n t t' : In t T -> In t' T -> bp n (t2 t) (tq t) = bp n (t2 t') (tq t') -> t = t'.
  Proof.
    intros Ht Ht' H. unfold bp in H. inversion H as [[A B]].
    assert (E : (t2 t, tq t) = (t2 t', tq t')) by congruence.
    clear - H_v Ht Ht' E. induction T as [|a l IH]; [destruct Ht|]. cbn [map] in H_v. inversion H_v as [|? ? N1 N2]; subst.
    destruct Ht as [<-|Ht], Ht' as [<-|Ht']; auto.
    - exfalso. apply N1. rewrite E. apply in_map_iff. exists t'. auto.
    - exfalso. apply N1. rewrite <- E. apply in_map_iff. exists t. auto.
  Qed.
  Lemma sT_inj t t' : In t T -> In t' T -> sT t = sT t' -> t = t'.
  Proof.
    intros Ht Ht' H. unfold sT in H. assert (E : (t1 t, tq t) = (t1 t', tq t')) by (inversion H; congruence).
    clear - H_u Ht Ht' E. induction T as [|a l IH]; [destruct Ht|]. cbn [map] in H_u. inversion H_u as [|? ? N1 N2]; subst.
    destruct Ht as [<-|Ht], Ht' as [<-|Ht']; auto.
    - exfalso. apply N1. rewrite E. apply in_map_iff. exists t'. auto.
    - exfalso. apply N1. rewrite <- E. apply in_map_iff. exists t. auto.
  Qed.
  Lemma bp_not_bd n t : In t T -> bp n (t2 t) (tq t) <> bd n.
  Proof. intros Ht H. unfold bp, bd in H. rewrite zs_S in H. inversion H. exact (proj2 (H_T t Ht) H1). Qed.
  Lemma sT_not_P t : In t T -> sT t <> sP.
  Proof. intros Ht H. unfold sT, sP in H. inversion H. exact (proj1 (H_T t Ht) H1). Qed.
  Lemma sO_not_P o : In o S -> sO o <> sP.
  Proof. intros Ho H. unfold sO, sP in H. inversion H. exact (H_S o Ho H1). Qed.
  Lemma sT_not_O t o : In t T -> In o S -> sT t <> sO o.
  Proof. intros Ht Ho H. unfold sT, sO in H. inversion H. apply (H_su t o Ht Ho). auto. Qed.
  Lemma b1_inj n o o' : b1 n 0 o = b1 n 0 o' -> o = o'.
  Proof. unfold b1. cbn [zs repeat app]. intros H. inversion H. reflexivity. Qed.
End NN.
