(* Link 5d: executable versions of the LAPACK-level trace contracts of Proofs/Link2RunTDVP.v / Link2RunDMRG.v (boolean checkers
   with soundness lemmas), a boolean Hermiticity check of an MPO, and the oracles for the non-vacuity examples of
   C08_tdvp2_conserves_lapack / C10_dmrg2_whole_run_lapack on the rational instance of Proofs/Sweeps2Example.v with the
   REAL Krylov-based solvers kexp_lanczos / keig_lanczos run with numiter = 1 (one Lanczos vector: T = [alpha_0], the 1x1
   eigenproblem answered exactly by w = (alpha_0), U = [[1]]; every numpy.linalg.norm call is on a tensor of norm one, so the
   rational square-root oracle of Proofs/KrylovExamples.v is exact). *)
From Coq Require Import ZArith QArith Qcanon Arith List Lia Bool.
From PT Require Import Base.Scalar Base.Field Base.BigSum Base.Mx Model.Tensor Model.Operation Model.Krylov Model.Sweeps
  Proofs.OperationEntries Proofs.OperationTwoSite
  Proofs.KrylovVec Proofs.KrylovLanczos Proofs.KrylovMatvec Proofs.KrylovExpm Proofs.KrylovRitz Proofs.KrylovExamples Proofs.KrylovExamples15
  Proofs.SweepsCanon Proofs.SweepsGauge Proofs.SweepsInv Proofs.SweepsRun Proofs.SweepsCheck Proofs.SweepsExample
  Proofs.Sweeps2Inv Proofs.Sweeps2Run Proofs.Sweeps2Check Proofs.Sweeps2Example
  Proofs.LinkExpmEnergy Proofs.LinkFlatten Proofs.LinkLocalOps Proofs.LinkSolvers Proofs.LinkCtx Proofs.Link2RunTDVP Proofs.Link2RunDMRG.
Import ListNotations.
Open Scope nat_scope.

Section LapackCheck.
  Variable F : ofield.
  Notation K := (Cx F).
  Variable dnorm : list K -> F.
  Variable small : F -> bool.
  Variable deigh : list F -> list F -> list F * list (list F).
  Variable dexp : K -> K.
  Variable numiter : nat.

  (* ---- one call of _local_hamiltonian_step / _minimize_local_energy ---- *)
  Definition kexp_lanczos_calls_okb (BL BR : env K) (W : osite K) (A : site K) (t : K) : bool :=
    let Af := flat_op F (length A) (sdl A) (sdr A) (apply_local_hamiltonian BL BR W) in
    let v := site_vec F (length A) (sdl A) (sdr A) A in
    forallb (norm_okb F) (lanczos_calls F Af dnorm small v numiter) &&
    match lanczos F Af dnorm small v numiter with
    | Some (al, be, Vs, _) =>
        eigh_okb F (length Vs) al be (deigh al be) && eigh_sortedb F (length Vs) (deigh al be) &&
        forallb (fun l => feqb F (cnorm2 (dexp (kmul K (kopp K t) (cof (nth l (fst (deigh al be)) (f0 F)))))) (f1 F)) (seq 0 (length Vs))
    | None => true
    end.
  Lemma kexp_lanczos_calls_okb_ok BL BR W A t :
    kexp_lanczos_calls_okb BL BR W A t = true -> kexp_lanczos_calls_ok F dnorm small deigh dexp numiter BL BR W A t.
  Proof.
    unfold kexp_lanczos_calls_okb, kexp_lanczos_calls_ok, kexp_calls_ok. cbv zeta. rewrite andb_true_iff. intros [H1 H2]. split.
    - apply norm_okb_all. exact H1.
    - intros al be Vs wn E. rewrite E in H2. rewrite !andb_true_iff in H2. destruct H2 as [[H2 H3] H4].
      split; [apply eigh_okb_ok; exact H2|]. split; [apply eigh_sorted_row0, eigh_sortedb_ok; exact H3|].
      intros l Hl. apply feqb_spec. rewrite forallb_forall in H4. apply H4, in_seq. split; [apply Nat.le_0_l|exact Hl].
  Qed.

  Definition keig_lanczos_calls_okb (BL BR : env K) (W : osite K) (A : site K) : bool :=
    let Af := flat_op F (length A) (sdl A) (sdr A) (apply_local_hamiltonian BL BR W) in
    let v := site_vec F (length A) (sdl A) (sdr A) A in
    forallb (norm_okb F) (lanczos_calls F Af dnorm small v numiter) &&
    match lanczos F Af dnorm small v numiter with
    | Some (al, be, Vs, _) => eigh_okb F (length Vs) al be (deigh al be) && eigh_sortedb F (length Vs) (deigh al be)
    | None => true
    end.
  Lemma keig_lanczos_calls_okb_ok BL BR W A :
    keig_lanczos_calls_okb BL BR W A = true -> keig_lanczos_calls_ok F dnorm small deigh numiter BL BR W A.
  Proof.
    unfold keig_lanczos_calls_okb, keig_lanczos_calls_ok, keig_calls_ok. cbv zeta. rewrite andb_true_iff. intros [H1 H2].
    split; [apply norm_okb_all; exact H1|]. split.
    - intros al be Vs wn E. rewrite E in H2. rewrite andb_true_iff in H2. apply eigh_okb_ok. exact (proj1 H2).
    - intros al be Vs wn E. rewrite E in H2. rewrite andb_true_iff in H2. apply eigh_sortedb_ok. exact (proj2 H2).
  Qed.

  (* ---- Hermiticity of an MPO, word by word ---- *)
  Definition mpo_hermb (Hs : list (osite K)) (d : nat) : bool :=
    forallb (fun w => forallb (fun w' => keqb K (opamp Hs w w') (kconj K (opamp Hs w' w))) (words d (length Hs))) (words d (length Hs)).
  Lemma mpo_hermb_ok Hs d : mpo_hermb Hs d = true -> mpo_herm F Hs d.
  Proof.
    unfold mpo_hermb, mpo_herm. rewrite forallb_forall. intros H w w' Hw Hw'.
    specialize (H w Hw). rewrite forallb_forall in H. apply keqb_spec. exact (H w' Hw').
  Qed.

  (* ---- whole traces ---- *)
  Variable qr : nat -> mx K -> list BinNums.Z -> list BinNums.Z -> mx K * mx K * list BinNums.Z.
  Variable split : nat -> site K -> list BinNums.Z -> list BinNums.Z -> list BinNums.Z -> list BinNums.Z -> bool -> site K * site K * list BinNums.Z.
  Variable Hs : list (osite K).
  Variables (dt hdt : K).
  Variable d : nat.

  Fixpoint ltdvp2_okb (tr : list (tcall K)) : bool :=
    match tr with
    | [] => true
    | t :: rest =>
        (let i := c_site (t_call t) in
         let tm := tval dt hdt (c_coef (t_call t)) in
         match c_kind (t_call t), t_envs t, t_ten t, t_qs t with
         | KH, [BL; BR], [A], _ => kexp_lanczos_calls_okb BL BR (nth i Hs []) A tm
         | KH2, [BL; BR], [Am], _ => kexp_lanczos_calls_okb BL BR (Hm Hs i) Am tm
         | SPLITL, _, [Am], [q0; q1; q2; q3] => split_okb d true Am (split (length rest) Am q0 q1 q2 q3 true)
         | SPLITR, _, [Am], [q0; q1; q2; q3] => split_okb d false Am (split (length rest) Am q0 q1 q2 q3 false)
         | _, _, _, _ => true
         end) && ltdvp2_okb rest
    end.
  Lemma ltdvp2_okb_ok tr : ltdvp2_okb tr = true -> lttr2_ok split dnorm small deigh dexp numiter Hs dt hdt d tr.
  Proof.
    induction tr as [|t rest IH]; [intros _; exact I|]. cbn [ltdvp2_okb lttr2_ok]. rewrite andb_true_iff. intros [H1 H2].
    split; [|exact (IH H2)]. clear IH H2. unfold ltdvp2_call_ok. destruct t as [[k i c] envs ten qs]. cbv zeta in H1 |- *.
    cbn [t_call c_kind c_site c_coef t_envs t_ten t_qs] in *.
    destruct k; try exact I.
    - destruct envs as [|BL [|BR [|? ?]]]; try exact I. destruct ten as [|A [|? ?]]; try exact I.
      apply kexp_lanczos_calls_okb_ok. exact H1.
    - destruct envs as [|BL [|BR [|? ?]]]; try exact I. destruct ten as [|A [|? ?]]; try exact I.
      apply kexp_lanczos_calls_okb_ok. exact H1.
    - destruct ten as [|A [|? ?]]; try exact I. destruct qs as [|q0 [|q1 [|q2 [|q3 [|? ?]]]]]; try exact I.
      apply split_okb_ok. exact H1.
    - destruct ten as [|A [|? ?]]; try exact I. destruct qs as [|q0 [|q1 [|q2 [|q3 [|? ?]]]]]; try exact I.
      apply split_okb_ok. exact H1.
  Qed.

  Fixpoint ldmrg2_okb (tr : list (tcall K)) : bool :=
    match tr with
    | [] => true
    | t :: rest =>
        (let i := c_site (t_call t) in
         match c_kind (t_call t), t_envs t, t_ten t, t_qs t with
         | EIG2, [BL; BR], [Am], _ => keig_lanczos_calls_okb BL BR (Hm Hs i) Am
         | SPLITL, _, [Am], [q0; q1; q2; q3] => split_okb d true Am (split (length rest) Am q0 q1 q2 q3 true)
         | SPLITR, _, [Am], [q0; q1; q2; q3] => split_okb d false Am (split (length rest) Am q0 q1 q2 q3 false)
         | QR, _, [[M]], [q0; q1] => qr_okb M (qr (length rest) M q0 q1)
         | _, _, _, _ => true
         end) && ldmrg2_okb rest
    end.
  Lemma ldmrg2_okb_ok tr : ldmrg2_okb tr = true -> lrtr2_ok qr split dnorm small deigh numiter Hs d tr.
  Proof.
    induction tr as [|t rest IH]; [intros _; exact I|]. cbn [ldmrg2_okb lrtr2_ok]. rewrite andb_true_iff. intros [H1 H2].
    split; [|exact (IH H2)]. clear IH H2. unfold ldmrg2_call_ok. destruct t as [[k i c] envs ten qs]. cbv zeta in H1 |- *.
    cbn [t_call c_kind c_site c_coef t_envs t_ten t_qs] in *.
    destruct k; try exact I.
    - destruct envs as [|BL [|BR [|? ?]]]; try exact I. destruct ten as [|A [|? ?]]; try exact I.
      apply keig_lanczos_calls_okb_ok. exact H1.
    - destruct ten as [|[|M [|? ?]] [|? ?]]; try exact I. destruct qs as [|q0 [|q1 [|? ?]]]; try exact I.
      apply qr_okb_ok. exact H1.
    - destruct ten as [|A [|? ?]]; try exact I. destruct qs as [|q0 [|q1 [|q2 [|q3 [|? ?]]]]]; try exact I.
      apply split_okb_ok. exact H1.
    - destruct ten as [|A [|? ?]]; try exact I. destruct qs as [|q0 [|q1 [|q2 [|q3 [|? ?]]]]]; try exact I.
      apply split_okb_ok. exact H1.
  Qed.
End LapackCheck.

Arguments kexp_lanczos_calls_okb {F} dnorm small deigh dexp numiter BL BR W A t.
Arguments keig_lanczos_calls_okb {F} dnorm small deigh numiter BL BR W A.
Arguments mpo_hermb {F} Hs d.
Arguments ltdvp2_okb {F} dnorm small deigh dexp numiter split Hs dt hdt d tr.
Arguments ldmrg2_okb {F} dnorm small deigh numiter qr split Hs d tr.

(* ---- oracles for numiter = 1 ---- *)
(* eigh_tridiagonal on the 1 x 1 matrix T = [alpha_0] *)
Definition ex1_deigh (al be : list Qc) : list Qc * list (list Qc) := (al, [[qq 1 1]]).
(* a unimodular answer of numpy.exp *)
Definition ex1_dexp (z : C QcF) : C QcF := (qq 1 1, qq 0 1).
Definition ex1_kexp := kexp_lanczos QcF dnorm_ex ex_small ex1_deigh ex1_dexp (fun M => M) 1.
Definition ex1_keig := keig_lanczos QcF dnorm_ex ex_small ex1_deigh 1.


(* ---- the instance: Proofs/Sweeps2Example.v (L = 3, d = 2, bonds 1-2-2-1, H = ZIZ + ZXI + XZI) ---- *)
(* TDVP: numpy.exp answered by the constant unimodular number 3/5 + 4/5 i of Proofs/KrylovExamples15.v, so that every local step
   multiplies its tensor by that phase (the tensors and amplitudes change, norm and energy do not).  Exact split oracle for the
   states met along such a run: as in ex3_split at the two boundaries; at the pair (0,1) with 'left' distribution
   A1 = ex3B (right-isometric) and A0[s] = Am[s] . ex3B^H (exact because the rows of Am stay in the row space of ex3B). *)
Definition ex3p_split (_ : nat) (Am : site CQ) (_ _ _ _ : list BinNums.Z) (left : bool) : site CQ * site CQ * list BinNums.Z :=
  if left then (if Nat.eqb (sdr Am) 1 then (triv_right Am, [0; 0]%Z)
                else ((tabl 2 (fun s => tab 1 2 (fun _ j => sumn 2 (fun t => sumn 2 (fun e =>
                         kmul CQ (get (sel Am (s * 2 + t)) 0 e) (kconj CQ (get (sel ex3B t) j e)))))), ex3B), [0; 0]%Z))
  else (triv_left Am, [0; 0]%Z).
Definition ex1p_kexp := kexp_lanczos QcF dnorm_ex ex_small ex1_deigh dexp_ex (fun M => M) 1.

Lemma forallb_right_iso (R : cring) (l : list (site R)) : forallb right_isob l = true -> Forall right_iso l.
Proof. rewrite forallb_forall, Forall_forall. intros H A HA. apply right_isob_ok, H, HA. Qed.
(* a boolean check evaluated on the result of a run transfers to every (the) result of that run; stated so that the
   kernel never has to convert the run itself (only the vm_compute cast evaluates it) *)
Lemma opt_check {T} (o : option T) (P : T -> bool) :
  match o with Some x => P x | None => false end = true -> forall x, o = Some x -> P x = true.
Proof. intros H x E. rewrite E in H. exact H. Qed.

Lemma ex_tdvp2_lapack_trace_ok A qD nrm tr :
  tdvp_twosite ex_orth ex3p_split ex1p_kexp ex3H ex3Psi exdt exhdt 2 = Some (A, qD, nrm, tr) ->
  ltdvp2_okb dnorm_ex ex_small ex1_deigh dexp_ex 1 ex3p_split (o_A ex3H) exdt exhdt 2 (rev tr) = true.
Proof.
  intros H.
  refine (opt_check (tdvp_twosite ex_orth ex3p_split ex1p_kexp ex3H ex3Psi exdt exhdt 2)
            (fun r => ltdvp2_okb dnorm_ex ex_small ex1_deigh dexp_ex 1 ex3p_split (o_A ex3H) exdt exhdt 2 (rev (snd r))) _ (A, qD, nrm, tr) H).
  vm_compute. reflexivity.
Qed.

(* every hypothesis of tdvp2_run_lapack is discharged on the instance (boolean checks evaluated by the kernel), so its
   conclusion holds for the run of the model with the real Lanczos-based solver *)
Theorem tdvp2_run_lapack_example A qD nrm tr :
  tdvp_twosite ex_orth ex3p_split ex1p_kexp ex3H ex3Psi exdt exhdt 2 = Some (A, qD, nrm, tr) ->
  let L := length (o_A ex3H) in
  2 <= L /\ nrm = snd (ex_orth ex3Psi) /\ SweepsLocal.dnorm2 2 L A = k1 CQ /\
  SweepsLocal.denergy 2 L A (o_A ex3H) = SweepsLocal.denergy 2 L (m_A (fst (ex_orth ex3Psi))) (o_A ex3H).
Proof.
  intros Hrun. pose proof (ex_tdvp2_lapack_trace_ok A qD nrm tr Hrun) as Htr.
  assert (G1 : OperationUniform.mpo_shapeb 2 [1; 2; 2; 1] (o_A ex3H) = true) by (vm_compute; reflexivity).
  assert (G2 : OperationUniform.mps_shapeb 2 [1; 2; 2; 1] (m_A (fst (ex_orth ex3Psi))) = true) by (vm_compute; reflexivity).
  assert (G3 : Forall right_iso (m_A (fst (ex_orth ex3Psi)))) by (apply forallb_right_iso; vm_compute; reflexivity).
  assert (G4 : mpo_herm QcF (o_A ex3H) 2) by (apply mpo_hermb_ok; vm_compute; reflexivity).
  assert (G5 : lttr2_ok ex3p_split dnorm_ex ex_small ex1_deigh dexp_ex 1 (o_A ex3H) exdt exhdt 2 (rev tr)) by (apply ltdvp2_okb_ok; exact Htr).
  exact (tdvp2_run_lapack QcF ex_orth ex3p_split dnorm_ex ex_small ex1_deigh dexp_ex (fun M => M) 1 ex3H ex3Psi exdt exhdt 2 2
           [1; 2; 2; 1] [1; 2; 2; 1] A qD nrm tr Hrun G1 G2 G3 G4 ex_small_sound (le_n 1) G5).
Qed.

(* DMRG: keig_lanczos with numiter = 1 returns the Rayleigh quotient and the normalised start tensor; split oracle ex3_split *)
Lemma ex_dmrg2_lapack_trace_ok A qD ens tr :
  dmrg_twosite ex_orth ex_qr ex3_split ex1_keig ex3H ex3Psi 2 = Some (A, qD, ens, tr) ->
  ldmrg2_okb dnorm_ex ex_small ex1_deigh 1 ex_qr ex3_split (o_A ex3H) 2 (rev tr) = true.
Proof.
  intros H.
  refine (opt_check (dmrg_twosite ex_orth ex_qr ex3_split ex1_keig ex3H ex3Psi 2)
            (fun r => ldmrg2_okb dnorm_ex ex_small ex1_deigh 1 ex_qr ex3_split (o_A ex3H) 2 (rev (snd r))) _ (A, qD, ens, tr) H).
  vm_compute. reflexivity.
Qed.

(* every hypothesis of dmrg2_run_lapack except the semantic one on H (H >= lam) is discharged on the instance *)
Theorem dmrg2_run_lapack_example lam A qD ens tr :
  dmrg_twosite ex_orth ex_qr ex3_split ex1_keig ex3H ex3Psi 2 = Some (A, qD, ens, tr) ->
  SweepsLocal.bounded_below 2 (length (o_A ex3H)) (o_A ex3H) lam ->
  let L := length (o_A ex3H) in
  let E0 := SweepsLocal.denergy 2 L (m_A (fst (ex_orth ex3Psi))) (o_A ex3H) in
  SweepsLocal.dnorm2 2 L A = k1 CQ /\ length ens = 2 /\
  Forall (fun e => fle QcF lam (cre e) /\ fle QcF (cre e) (cre E0)) ens /\ SweepsRun.noninc ens /\
  (ens <> [] -> last ens (k0 CQ) = SweepsLocal.denergy 2 L A (o_A ex3H)).
Proof.
  intros Hrun Hlam. pose proof (ex_dmrg2_lapack_trace_ok A qD ens tr Hrun) as Htr.
  assert (G1 : OperationUniform.mpo_shapeb 2 [1; 2; 2; 1] (o_A ex3H) = true) by (vm_compute; reflexivity).
  assert (G2 : OperationUniform.mps_shapeb 2 [1; 2; 2; 1] (m_A (fst (ex_orth ex3Psi))) = true) by (vm_compute; reflexivity).
  assert (G3 : Forall right_iso (m_A (fst (ex_orth ex3Psi)))) by (apply forallb_right_iso; vm_compute; reflexivity).
  assert (G4 : mpo_herm QcF (o_A ex3H) 2) by (apply mpo_hermb_ok; vm_compute; reflexivity).
  assert (G5 : lrtr2_ok ex_qr ex3_split dnorm_ex ex_small ex1_deigh 1 (o_A ex3H) 2 (rev tr)) by (apply ldmrg2_okb_ok; exact Htr).
  assert (G6 : 2 <= length (o_A ex3H)) by (apply Nat.leb_le; vm_compute; reflexivity).
  exact (dmrg2_run_lapack QcF ex_orth ex_qr ex3_split dnorm_ex ex_small ex1_deigh 1 ex3H ex3Psi 2 2
           [1; 2; 2; 1] [1; 2; 2; 1] lam A qD ens tr Hrun G1 G2 G3 G6 Hlam G4 ex_small_sound (le_n 1) G5).
Qed.
