(* C06, Jordan-Wigner link for every L -- part 1: the padding lemma.
   Sitewise products of words that agree outside a window: identities to the left stay identities, the Z strings to the
   right cancel (Z Z = I, no sign), the product is decided inside the window ([wmul_IZ], [wmul_II]).  Jordan-Wigner words
   re-bracketed around a window ([jw_window]).  Normal forms of all products the Fermi-Hubbard formula needs, for every
   number of sites: hopping a+_{i,s} a_{i+1,s}, a+_{i+1,s} a_{i,s} (window of two sites = four modes) and number
   operators n_{i,s} = a+_{i,s} a_{i,s} (window of one site). *)
From Coq Require Import ZArith List Lia Bool Arith.
From PT Require Import Base.Scalar Base.BigSum Model.OpGraph Model.FromOpchains Model.Molecular Model.MolFormula
                       Proofs.HamJWDefs.
Import ListNotations.
Local Open Scope nat_scope.

Lemma wmul_app l1 l2 r1 r2 : length l1 = length l2 ->
  wmul (l1 ++ r1) (l2 ++ r2) =
  match wmul l1 l2, wmul r1 r2 with
  | Some (s, u), Some (s', u') => Some (xorb s s', u ++ u')
  | _, _ => None
  end.
Proof.
  revert l2. induction l1 as [|a l1 IH]; intros [|b l2] H; try discriminate H.
  - cbn [app wmul]. destruct (wmul r1 r2) as [[[|] u']|]; reflexivity.
  - cbn [app wmul]. rewrite IH by (inversion H; reflexivity).
    destruct (omul a b) as [|s o]; [reflexivity|].
    destruct (wmul l1 l2) as [[s1 u1]|]; [|reflexivity].
    destruct (wmul r1 r2) as [[s2 u2]|]; [|reflexivity].
    cbn [app]. f_equal. f_equal. destruct s, s1, s2; reflexivity.
Qed.
Lemma wmul_rep_I a : wmul (repeat OI a) (repeat OI a) = Some (false, repeat OI a).
Proof. induction a as [|a IH]; [reflexivity|]. cbn [repeat wmul omul]. rewrite IH. reflexivity. Qed.
Lemma wmul_rep_Z b : wmul (repeat OZ b) (repeat OZ b) = Some (false, repeat OI b).
Proof. induction b as [|b IH]; [reflexivity|]. cbn [repeat wmul omul]. rewrite IH. reflexivity. Qed.

(* the padding lemma: common identity prefix of any length, common Z string of any length *)
Lemma wmul_IZ a b l1 l2 : length l1 = length l2 ->
  wmul (repeat OI a ++ l1 ++ repeat OZ b) (repeat OI a ++ l2 ++ repeat OZ b) =
  match wmul l1 l2 with Some (s, u) => Some (s, repeat OI a ++ u ++ repeat OI b) | None => None end.
Proof.
  intros H. rewrite wmul_app by reflexivity. rewrite wmul_rep_I. rewrite (wmul_app _ _ _ _ H), wmul_rep_Z.
  destruct (wmul l1 l2) as [[[|] u]|]; reflexivity.
Qed.
Lemma wmul_II a b l1 l2 : length l1 = length l2 ->
  wmul (repeat OI a ++ l1 ++ repeat OI b) (repeat OI a ++ l2 ++ repeat OI b) =
  match wmul l1 l2 with Some (s, u) => Some (s, repeat OI a ++ u ++ repeat OI b) | None => None end.
Proof.
  intros H. rewrite wmul_app by reflexivity. rewrite wmul_rep_I. rewrite (wmul_app _ _ _ _ H), wmul_rep_I.
  destruct (wmul l1 l2) as [[[|] u]|]; reflexivity.
Qed.

(* a Jordan-Wigner word re-bracketed around the window [a, a + m) that contains its mode k = a + d *)
Lemma jw_window n k o a d m b : k = a + d -> n = a + m + b -> d < m ->
  jw n k o = repeat OI a ++ (repeat OI d ++ [o] ++ repeat OZ (m - 1 - d)) ++ repeat OZ b.
Proof.
  intros -> -> H. unfold jw. rewrite repeat_app, <- !app_assoc. f_equal. f_equal. cbn [app]. f_equal.
  replace (a + m + b - 1 - (a + d)) with ((m - 1 - d) + b) by lia. apply repeat_app.
Qed.
Lemma rep_I_window n a m b : n = a + m + b -> repeat OI n = repeat OI a ++ repeat OI m ++ repeat OI b.
Proof. intros ->. rewrite !repeat_app, app_assoc. reflexivity. Qed.

(* mode words with an explicit window *)
Definition mw (a : nat) (l : list op) (b : nat) : list op := repeat OI a ++ l ++ repeat OI b.

Section NormalForms.
  Variable L i : nat.
  (* ---- window of one site: modes 2 i, 2 i + 1 ---- *)
  Hypothesis Hi : i < L.
  Notation b1 := (2 * (L - 1 - i)).
  Lemma cre_up1 : cre (2 * L) (md i 0) = repeat OI (2 * i) ++ [OC; OZ] ++ repeat OZ b1.
  Proof. unfold cre, md. rewrite (jw_window _ _ _ (2 * i) 0 2 b1) by lia. reflexivity. Qed.
  Lemma ann_up1 : ann (2 * L) (md i 0) = repeat OI (2 * i) ++ [OA; OZ] ++ repeat OZ b1.
  Proof. unfold ann, md. rewrite (jw_window _ _ _ (2 * i) 0 2 b1) by lia. reflexivity. Qed.
  Lemma cre_dn1 : cre (2 * L) (md i 1) = repeat OI (2 * i) ++ [OI; OC] ++ repeat OZ b1.
  Proof. unfold cre, md. rewrite (jw_window _ _ _ (2 * i) 1 2 b1) by lia. reflexivity. Qed.
  Lemma ann_dn1 : ann (2 * L) (md i 1) = repeat OI (2 * i) ++ [OI; OA] ++ repeat OZ b1.
  Proof. unfold ann, md. rewrite (jw_window _ _ _ (2 * i) 1 2 b1) by lia. reflexivity. Qed.

  (* n_{i,up} = a+ a = N at mode 2 i, identities elsewhere; n_{i,dn} likewise at mode 2 i + 1 *)
  Lemma num_up_nf : wmul (cre (2 * L) (md i 0)) (ann (2 * L) (md i 0)) = Some (false, mw (2 * i) [ON; OI] b1).
  Proof. rewrite cre_up1, ann_up1, wmul_IZ by reflexivity. reflexivity. Qed.
  Lemma num_dn_nf : wmul (cre (2 * L) (md i 1)) (ann (2 * L) (md i 1)) = Some (false, mw (2 * i) [OI; ON] b1).
  Proof. rewrite cre_dn1, ann_dn1, wmul_IZ by reflexivity. reflexivity. Qed.
  Lemma one_nf : repeat OI (2 * L) = mw (2 * i) [OI; OI] b1.
  Proof. unfold mw. rewrite (rep_I_window (2 * L) (2 * i) 2 b1) by lia. reflexivity. Qed.
  (* products of words supported on site i *)
  Lemma site_mul l1 l2 : length l1 = length l2 ->
    wmul (mw (2 * i) l1 b1) (mw (2 * i) l2 b1) =
    match wmul l1 l2 with Some (s, u) => Some (s, mw (2 * i) u b1) | None => None end.
  Proof. apply wmul_II. Qed.
End NormalForms.

Section Hopping.
  Variable L i : nat.
  (* ---- window of two sites: modes 2 i .. 2 i + 3 ---- *)
  Hypothesis Hi : S i < L.
  Notation b2 := (2 * (L - 2 - i)).
  Ltac win d := rewrite (jw_window _ _ _ (2 * i) d 4 b2) by lia; reflexivity.
  Lemma cre_up0 : cre (2 * L) (md i 0) = repeat OI (2 * i) ++ [OC; OZ; OZ; OZ] ++ repeat OZ b2.
  Proof. unfold cre, md. win 0. Qed.
  Lemma ann_up0 : ann (2 * L) (md i 0) = repeat OI (2 * i) ++ [OA; OZ; OZ; OZ] ++ repeat OZ b2.
  Proof. unfold ann, md. win 0. Qed.
  Lemma cre_dn0 : cre (2 * L) (md i 1) = repeat OI (2 * i) ++ [OI; OC; OZ; OZ] ++ repeat OZ b2.
  Proof. unfold cre, md. win 1. Qed.
  Lemma ann_dn0 : ann (2 * L) (md i 1) = repeat OI (2 * i) ++ [OI; OA; OZ; OZ] ++ repeat OZ b2.
  Proof. unfold ann, md. win 1. Qed.
  Lemma cre_up1' : cre (2 * L) (md (S i) 0) = repeat OI (2 * i) ++ [OI; OI; OC; OZ] ++ repeat OZ b2.
  Proof. unfold cre, md. win 2. Qed.
  Lemma ann_up1' : ann (2 * L) (md (S i) 0) = repeat OI (2 * i) ++ [OI; OI; OA; OZ] ++ repeat OZ b2.
  Proof. unfold ann, md. win 2. Qed.
  Lemma cre_dn1' : cre (2 * L) (md (S i) 1) = repeat OI (2 * i) ++ [OI; OI; OI; OC] ++ repeat OZ b2.
  Proof. unfold cre, md. win 3. Qed.
  Lemma ann_dn1' : ann (2 * L) (md (S i) 1) = repeat OI (2 * i) ++ [OI; OI; OI; OA] ++ repeat OZ b2.
  Proof. unfold ann, md. win 3. Qed.

  (* the four hopping products, every L: the Z strings cancel outside sites i, i + 1, no sign survives, and the window
     carries the pairs  (C,Z)(A,I) = CZ AI,  (A,Z)(C,I) = AZ CI,  (I,C)(Z,A) = IC ZA,  (I,A)(Z,C) = IA ZC *)
  Lemma hop_up_nf : wmul (cre (2 * L) (md i 0)) (ann (2 * L) (md (S i) 0)) = Some (false, mw (2 * i) [OC; OZ; OA; OI] b2).
  Proof. rewrite cre_up0, ann_up1', wmul_IZ by reflexivity. reflexivity. Qed.
  Lemma hop_up_rev_nf : wmul (cre (2 * L) (md (S i) 0)) (ann (2 * L) (md i 0)) = Some (false, mw (2 * i) [OA; OZ; OC; OI] b2).
  Proof. rewrite cre_up1', ann_up0, wmul_IZ by reflexivity. reflexivity. Qed.
  Lemma hop_dn_nf : wmul (cre (2 * L) (md i 1)) (ann (2 * L) (md (S i) 1)) = Some (false, mw (2 * i) [OI; OC; OZ; OA] b2).
  Proof. rewrite cre_dn0, ann_dn1', wmul_IZ by reflexivity. reflexivity. Qed.
  Lemma hop_dn_rev_nf : wmul (cre (2 * L) (md (S i) 1)) (ann (2 * L) (md i 1)) = Some (false, mw (2 * i) [OI; OA; OZ; OC] b2).
  Proof. rewrite cre_dn1', ann_dn0, wmul_IZ by reflexivity. reflexivity. Qed.
End Hopping.
