(* C17, operator trees: the graph built by OpGraph.from_optrees (before simplify) denotes the sum of
   the trees' symbolic meanings.  Uses the path sums / invariant of Proofs/C17GraphSem.v. *)
From Coq Require Import ZArith List Lia Bool Permutation Ring.
From PT Require Import Base.Scalar Base.BigSum Model.OpGraph Model.C17Common Model.OpTree Proofs.C17GraphSem.
Import ListNotations.
Open Scope Z_scope.

Section OpTreeProofs.
  Variable R : cring.
  Add Ring Rring_c17optree : (k_rt R).
  Notation "0r" := (k0 R). Notation "1r" := (k1 R).
  Infix "+r" := (kadd R) (at level 50, left associativity).
  Infix "*r" := (kmul R) (at level 40, left associativity).
  Notation graph := (graph R).
  Notation gedge := (gedge R).
  Notation tree := (tree R).

  (* ---------- zmax ---------- *)
  Lemma fold_max_ge_acc t x : x <= fold_left Z.max t x.
  Proof. revert x; induction t as [|y t IH]; intros x; simpl; [lia|]. specialize (IH (Z.max x y)). lia. Qed.

  Lemma fold_max_ge_in t : forall x y, In y t -> y <= fold_left Z.max t x.
  Proof.
    induction t as [|z t IH]; intros x y Hin; simpl in *; [destruct Hin|].
    destruct Hin as [->|Hin].
    - pose proof (fold_max_ge_acc t (Z.max x y)). lia.
    - apply IH; assumption.
  Qed.

  Lemma zmax_ge l d x : In x l -> x <= zmax l d.
  Proof.
    destruct l as [|z l]; simpl; [intros []|]. intros [->|H]; [apply fold_max_ge_acc|apply fold_max_ge_in; auto].
  Qed.

  Lemma fold_max_in t : forall x, fold_left Z.max t x = x \/ In (fold_left Z.max t x) t.
  Proof.
    induction t as [|a t IH]; intros x; simpl; [left; reflexivity|].
    destruct (IH (Z.max x a)) as [E|E].
    - rewrite E. destruct (Z.max_spec x a) as [[_ E2]|[_ E2]]; rewrite E2; [right; left; reflexivity|left; reflexivity].
    - right; right; exact E.
  Qed.

  Lemma zmax_in l d : l <> [] -> In (zmax l d) l.
  Proof.
    destruct l as [|z l]; [congruence|]. intros _. simpl.
    destruct (fold_max_in l z) as [E|E]; [left; symmetry; exact E|right; exact E].
  Qed.

  Lemma zmax_mono l l' d : incl l l' -> l <> [] -> zmax l d <= zmax l' d.
  Proof. intros Hi Hne. apply zmax_ge. apply Hi. apply zmax_in. exact Hne. Qed.

  Lemma zmax_snoc l x d : l <> [] -> zmax (l ++ [x]) d = Z.max (zmax l d) x.
  Proof. destruct l as [|z l]; [congruence|]. intros _. simpl. rewrite fold_left_app. reflexivity. Qed.

  Definition ids (g : graph) : list Z := map n_id (g_nodes g).
  Definition nmax (g : graph) : Z := zmax (ids g) 0.

  Lemma In_ids_has (g : graph) x : In x (ids g) <-> has_node g x = true.
  Proof.
    unfold ids. rewrite has_node_true, in_map_iff. split; intros [n [H1 H2]]; exists n; tauto.
  Qed.

  Lemma max_nid_ok (g : graph) m : max_nid g = Ok m -> m = nmax g.
  Proof. unfold max_nid, nmax, ids. destruct (g_nodes g); intros H; inversion H; reflexivity. Qed.

  Lemma nmax_ge (g : graph) x : In x (ids g) -> x <= nmax g.
  Proof. apply zmax_ge. Qed.

  Lemma nmax_mono (g g' : graph) x : In x (ids g) -> incl (ids g) (ids g') -> nmax g <= nmax g'.
  Proof. intros Hx Hi. apply zmax_mono; [exact Hi|]. intros E. rewrite E in Hx. destruct Hx. Qed.

  Lemma bind_ok {A B} (r : res A) (f : A -> res B) b : bind r f = Ok b -> exists a, r = Ok a /\ f a = Ok b.
  Proof. destruct r as [a|e]; simpl; intros H; [eauto|discriminate]. Qed.

  Lemma of_opt_ok {A} e (o : option A) a : of_opt e o = Ok a -> o = Some a.
  Proof. destruct o; simpl; intros H; inversion H; reflexivity. Qed.

  (* ---------- path sums: general lemmas ---------- *)
  Lemma dene_nil es b x : dene es b [] x = if x =? b then 1r else 0r.
  Proof. reflexivity. Qed.
  Lemma dene_cons es b o w x :
    dene es b (o :: w) x = suml es (fun e => if e_from e =? x then opics_coeff o (e_opics e) *r dene es b w (e_to e) else 0r).
  Proof. reflexivity. Qed.

  Lemma dene_restrict (S : Z -> bool) (a sub c : list gedge) b :
    (forall e, In e a -> S (e_from e) = false) ->
    (forall e, In e c -> S (e_from e) = false) ->
    (forall e, In e sub -> S (e_to e) = true) ->
    forall w x, S x = true -> dene (a ++ sub ++ c) b w x = dene sub b w x.
  Proof.
    intros Ha Hc Hs. induction w as [|o w IH]; intros x Hx; [reflexivity|].
    rewrite !dene_cons. rewrite !suml_app.
    rewrite (suml_zero R a), (suml_zero R c).
    - transitivity (suml sub (fun e => if e_from e =? x then opics_coeff o (e_opics e) *r dene sub b w (e_to e) else 0r)); [|ring_simplify; reflexivity].
      ring_simplify. apply suml_ext. intros e He. destruct (e_from e =? x); [|reflexivity].
      rewrite IH; [reflexivity|]. apply Hs; exact He.
    - intros e He. destruct (Z.eqb_spec (e_from e) x) as [E|]; [|reflexivity].
      apply Hc in He. rewrite E in He. congruence.
    - intros e He. destruct (Z.eqb_spec (e_from e) x) as [E|]; [|reflexivity].
      apply Ha in He. rewrite E in He. congruence.
  Qed.

  Lemma dene_sink es b w x : (forall e, In e es -> e_from e <> x) ->
    dene es b w x = match w with [] => if x =? b then 1r else 0r | _ => 0r end.
  Proof.
    intros H. destruct w as [|o w]; [reflexivity|]. rewrite dene_cons. apply suml_zero.
    intros e He. destruct (Z.eqb_spec (e_from e) x) as [E|]; [|reflexivity]. exfalso. eapply H; eauto.
  Qed.

  (* old edges [es] + new edges: from a node x whose old out-edges lead into a set C closed under es and
     untouched by the new edges, while new edges lead into a set S where no old edge starts *)
  Lemma dene_split (C S : Z -> bool) (es new : list gedge) b x :
    (forall e, In e es -> C (e_from e) = true -> C (e_to e) = true) ->
    (forall e, In e new -> C (e_from e) = false) ->
    (forall e, In e es -> e_from e = x -> C (e_to e) = true) ->
    (forall e, In e es -> S (e_from e) = false) ->
    (forall e, In e new -> S (e_to e) = true) ->
    x <> b ->
    forall w, dene (es ++ new) b w x = dene es b w x +r dene new b w x.
  Proof.
    intros Hcl Hnew Hx HS1 HS2 Hxb w. destruct w as [|o w].
    - rewrite !dene_nil. destruct (Z.eqb_spec x b); [contradiction|ring].
    - rewrite !dene_cons. rewrite suml_app. f_equal.
      + apply suml_ext. intros e He. destruct (Z.eqb_spec (e_from e) x) as [E|]; [|reflexivity].
        rewrite (dene_closed_ext R C es new b Hcl Hnew); [reflexivity|]. apply Hx; assumption.
      + apply suml_ext. intros e He. destruct (e_from e =? x); [|reflexivity].
        pose proof (dene_restrict S es new [] b HS1 (fun e (H : In e []) => match H with end) HS2 w (e_to e) (HS2 e He)) as E.
        rewrite app_nil_r in E. rewrite E. reflexivity.
  Qed.
  (* ---------- identity chains ---------- *)
  Variable oid_id : Z.
  Definition idc (e : gedge) : Prop := forall o, opics_coeff o (e_opics e) = if oid_id =? o then 1r else 0r.

  (* a -> k -> k+1 -> ... -> b, all edges carrying the identity with coefficient 1 *)
  Fixpoint chainP (a k : Z) (ch : list gedge) (b : Z) : Prop :=
    match ch with
    | [] => False
    | e :: r => e_from e = a /\ idc e /\
                match r with [] => e_to e = b | _ => e_to e = k /\ chainP k (k + 1) r b end
    end.
  (* the same without the last edge; z is the node reached *)
  Fixpoint openP (a k : Z) (ch : list gedge) (z : Z) : Prop :=
    match ch with
    | [] => z = a
    | e :: r => e_from e = a /\ idc e /\ e_to e = k /\ openP k (k + 1) r z
    end.

  Lemma open_close ch : forall a k z e b, openP a k ch z -> e_from e = z -> idc e -> e_to e = b ->
    chainP a k (ch ++ [e]) b.
  Proof.
    induction ch as [|e' r IH]; intros a k z e b Ho Hf Hi Ht.
    - simpl in *. subst. auto.
    - destruct Ho as [H1 [H2 [H3 H4]]]. specialize (IH k (k + 1) z e b H4 Hf Hi Ht).
      change ((e' :: r) ++ [e]) with (e' :: (r ++ [e])).
      destruct (r ++ [e]) as [|x y] eqn:E.
      + destruct r; discriminate.
      + simpl. auto.
  Qed.

  Lemma open_end ch : forall a k z, openP a k ch z -> z = match ch with [] => a | _ => k + Z.of_nat (length ch) - 1 end.
  Proof.
    induction ch as [|e r IH]; intros a k z H; [exact H|].
    destruct H as [_ [_ [_ H]]]. apply IH in H. destruct r as [|e' r'].
    - simpl. lia.
    - rewrite H. simpl length. lia.
  Qed.

  Lemma chain_bounds ch : forall a k b, chainP a k ch b -> forall e, In e ch ->
    (e_from e = a \/ k <= e_from e <= k + Z.of_nat (length ch) - 2) /\
    (e_to e = b \/ k <= e_to e <= k + Z.of_nat (length ch) - 2).
  Proof.
    induction ch as [|e' r IH]; intros a k b H e He; [destruct H|].
    destruct H as [H1 [H2 H3]]. destruct r as [|e'' r'].
    - destruct He as [<-|[]]. auto.
    - destruct H3 as [H3 H4]. destruct He as [<-|He].
      + split; [left; exact H1|right]. simpl length. lia.
      + destruct (IH k (k + 1) b H4 e He) as [B1 B2]. simpl length in *. split.
        * right. lia.
        * destruct B2 as [B2|B2]; [left; exact B2|right; lia].
  Qed.

  Lemma all_identity_cons o w : all_identity oid_id (o :: w) = (o =? oid_id) && all_identity oid_id w.
  Proof. reflexivity. Qed.

  Lemma chain_dene b t ch : forall a k pre post w,
    chainP a k ch b -> a < k -> t < k -> t <> a ->
    (forall e, In e (pre ++ post) -> e_from e <> a /\ (e_from e < k \/ k + Z.of_nat (length ch) - 1 <= e_from e)) ->
    dene (pre ++ ch ++ post) t w a =
    if (length ch <=? length w)%nat
    then if all_identity oid_id (firstn (length ch) w) then dene (pre ++ ch ++ post) t (skipn (length ch) w) b else 0r
    else 0r.
  Proof.
    induction ch as [|e r IH]; intros a k pre post w Hch Hak Htk Hta Hout; [destruct Hch|].
    destruct w as [|o w].
    - rewrite dene_nil. simpl. destruct (Z.eqb_spec a t); [congruence|reflexivity].
    - rewrite dene_cons.
      set (F := fun e0 : gedge => if e_from e0 =? a
                 then opics_coeff o (e_opics e0) *r dene (pre ++ (e :: r) ++ post) t w (e_to e0) else 0r).
      change ((e :: r) ++ post) with (e :: (r ++ post)).
      rewrite suml_app. simpl suml. rewrite suml_app.
      assert (Zpre : suml pre F = 0r).
      { apply suml_zero. intros x Hx. unfold F. destruct (Z.eqb_spec (e_from x) a) as [E|]; [|reflexivity].
        exfalso. apply (Hout x); [apply in_or_app; left; exact Hx|exact E]. }
      assert (Zpost : suml post F = 0r).
      { apply suml_zero. intros x Hx. unfold F. destruct (Z.eqb_spec (e_from x) a) as [E|]; [|reflexivity].
        exfalso. apply (Hout x); [apply in_or_app; right; exact Hx|exact E]. }
      destruct Hch as [H1 [H2 H3]].
      assert (Zr : suml r F = 0r).
      { apply suml_zero. intros x Hx. unfold F. destruct (Z.eqb_spec (e_from x) a) as [E|]; [|reflexivity].
        exfalso. destruct r as [|e' r']; [destruct Hx|]. destruct H3 as [_ H3].
        destruct (chain_bounds _ _ _ _ H3 x Hx) as [[B|B] _]; lia. }
      rewrite Zpre, Zpost, Zr. unfold F. rewrite H1, Z.eqb_refl, H2.
      change (length (e :: r) <=? length (o :: w))%nat with (length r <=? length w)%nat.
      change (firstn (length (e :: r)) (o :: w)) with (o :: firstn (length r) w).
      change (skipn (length (e :: r)) (o :: w)) with (skipn (length r) w).
      rewrite all_identity_cons, (Z.eqb_sym o oid_id).
      destruct r as [|e' r'].
      + rewrite H3. simpl. destruct (oid_id =? o); simpl; ring.
      + destruct H3 as [H3 H4].
        assert (IHa := IH k (k + 1) (pre ++ [e]) post w H4).
        rewrite <- (app_assoc pre [e] ((e' :: r') ++ post)) in IHa. change ([e] ++ (e' :: r') ++ post) with ((e :: e' :: r') ++ post) in IHa.
        rewrite H3, IHa.
        * change ((e :: e' :: r') ++ post) with (e :: (e' :: r') ++ post).
          destruct (oid_id =? o); cbn [andb];
          destruct (length (e' :: r') <=? length w)%nat; try ring;
          destruct (all_identity oid_id (firstn (length (e' :: r')) w)); ring.
        * lia.
        * lia.
        * lia.
        * intros x Hx. rewrite <- app_assoc in Hx. apply in_app_or in Hx.
          simpl length in *. destruct Hx as [Hx|Hx].
          -- destruct (Hout x) as [B1 B2]; [apply in_or_app; left; exact Hx|]. lia.
          -- destruct Hx as [<-|Hx].
             ++ lia.
             ++ destruct (Hout x) as [B1 B2]; [apply in_or_app; right; exact Hx|]. lia.
  Qed.
  (* ---------- graph growth ---------- *)
  Definition Grow (g g' : graph) (new : list gedge) : Prop :=
    g_edges g' = g_edges g ++ new /\ OutInv g' /\ incl (ids g) (ids g') /\ g_t0 g' = g_t0 g /\ g_t1 g' = g_t1 g.

  Lemma Grow_refl g : OutInv g -> Grow g g [].
  Proof. intros H. unfold Grow. rewrite app_nil_r. split; [reflexivity|split; [exact H|split; [apply incl_refl|split; reflexivity]]]. Qed.

  Lemma Grow_intro (g g' : graph) new : g_edges g' = g_edges g ++ new -> OutInv g' -> incl (ids g) (ids g') ->
    g_t0 g' = g_t0 g -> g_t1 g' = g_t1 g -> Grow g g' new.
  Proof. unfold Grow. auto. Qed.

  Lemma Grow_trans g g1 g2 n1 n2 : Grow g g1 n1 -> Grow g1 g2 n2 -> Grow g g2 (n1 ++ n2).
  Proof.
    intros [A1 [A2 [A3 [A4 A5]]]] [B1 [B2 [B3 [B4 B5]]]]. unfold Grow.
    apply Grow_intro; try congruence; [rewrite B1, A1, app_assoc; reflexivity|eapply incl_tran; eauto].
  Qed.

  Lemma Grow_nmax g g' new : Grow g g' new -> In 1 (ids g) -> nmax g <= nmax g'.
  Proof. intros [_ [_ [Hi _]]] H1. eapply nmax_mono; eauto. Qed.

  Lemma idc_new_edge eid a b : idc (new_edge eid a b [(oid_id, 1r)]).
  Proof. intros o. unfold new_edge. simpl e_opics. rewrite opics_coeff_norm, opics_coeff_single. reflexivity. Qed.

  (* ---------- _insert_opchain with identities ---------- *)
  Lemma opchain_loop_cons (g : graph) cur nn en oid c q rest :
    opchain_loop 1 g cur nn en ((oid, c, q) :: rest) =
    bind (of_opt EValue (add_node g (mknode nn [] [] q))) (fun g1 =>
    bind (of_opt EValue (add_connect_edge g1 (new_edge en cur nn [(oid, c)]))) (fun g2 =>
    opchain_loop 1 g2 nn (nn + 1) (en + 1) rest)).
  Proof. reflexivity. Qed.

  Lemma opchain_loop_spec ocq : forall (g : graph) cur nn en g1 cur' nn' en',
    opchain_loop 1 g cur nn en ocq = Ok (g1, cur', nn', en') ->
    OutInv g -> In cur (ids g) -> nn = nmax g + 1 ->
    (forall p, In p ocq -> fst (fst p) = oid_id /\ snd (fst p) = 1r) ->
    exists ch, Grow g g1 ch /\ openP cur nn ch cur' /\ length ch = length ocq /\
               In cur' (ids g1) /\ nn' = nmax g1 + 1 /\ nmax g1 = nmax g + Z.of_nat (length ocq).
  Proof.
    induction ocq as [|[[oid c] q] rest IH]; intros g cur nn en g1 cur' nn' en' H Hinv Hcur Hnn Hall.
    - simpl in H. inversion H; subst. exists []. simpl.
      split; [apply Grow_refl; exact Hinv|]. repeat split; auto; lia.
    - rewrite opchain_loop_cons in H.
      apply bind_ok in H. destruct H as [ga [Ha H]]. apply of_opt_ok in Ha.
      apply bind_ok in H. destruct H as [gb [Hb H]]. apply of_opt_ok in Hb.
      destruct (add_node_inv R g ga _ Hinv Ha eq_refl) as [Ia [Ea [Na [T0a T1a]]]].
      assert (Hida : ids ga = ids g ++ [nn]) by (unfold ids; rewrite Na, map_app; reflexivity).
      assert (Hcura : has_node ga cur = true).
      { apply In_ids_has. rewrite Hida. apply in_or_app. left; exact Hcur. }
      destruct (add_connect_edge_inv R ga gb (new_edge en cur nn [(oid, c)]) Ia Hcura Hb) as [Ib [Eb [Nb [T0b [T1b _]]]]].
      assert (Hidb : ids gb = ids g ++ [nn]) by (unfold ids in *; rewrite Nb; exact Hida).
      assert (Hmb : nmax gb = nn).
      { unfold nmax. rewrite Hidb, zmax_snoc.
        - fold (nmax g). lia.
        - intros E. rewrite E in Hcur. destruct Hcur. }
      destruct (Hall (oid, c, q)) as [Ho Hc]; [left; reflexivity|]. simpl in Ho, Hc. subst oid c.
      destruct (IH gb nn (nn + 1) (en + 1) g1 cur' nn' en' H Ib) as [ch [G [O [Len [Hc' [Hn' Hm']]]]]].
      + rewrite Hidb. apply in_or_app. right. left. reflexivity.
      + lia.
      + intros p Hp. apply Hall. right. exact Hp.
      + exists (new_edge en cur nn [(oid_id, 1r)] :: ch).
        split; [|split; [|split; [|split; [|split]]]].
        * change (new_edge en cur nn [(oid_id, 1r)] :: ch) with ([new_edge en cur nn [(oid_id, 1r)]] ++ ch).
          eapply Grow_trans; [|exact G]. apply Grow_intro; try congruence.
          rewrite Hidb. apply incl_appl. apply incl_refl.
        * simpl. repeat split; auto. apply idc_new_edge.
        * simpl. congruence.
        * exact Hc'.
        * exact Hn'.
        * rewrite Hm', Hmb. simpl length. lia.
  Qed.

  Lemma removelast_repeat {A} (x : A) k : removelast (repeat x (S k)) = repeat x k.
  Proof. induction k as [|k IH]; [reflexivity|]. change (repeat x (S (S k))) with (x :: repeat x (S k)).
    change (removelast (x :: repeat x (S k))) with (x :: removelast (repeat x (S k))). rewrite IH. reflexivity. Qed.
  Lemma last_repeat {A} (x d : A) k : last (repeat x (S k)) d = x.
  Proof. induction k as [|k IH]; [reflexivity|]. change (repeat x (S (S k))) with (x :: repeat x (S k)).
    change (last (x :: repeat x (S k)) d) with (last (repeat x (S k)) d). exact IH. Qed.

  Lemma insert_identities_spec (g : graph) a b n g' :
    OutInv g -> insert_identities g a b n oid_id = Ok g' ->
    exists ch, Grow g g' ch /\ chainP a (nmax g + 1) ch b /\ Z.of_nat (length ch) = n /\
               nmax g' = nmax g + n - 1 /\ In a (ids g).
  Proof.
    intros Hinv H. unfold insert_identities, insert_opchain in H.
    destruct (has_node g a) eqn:Ha; cbn [negb] in H; [|discriminate H].
    destruct (has_node g b) eqn:Hb; cbn [negb] in H; [|discriminate H].
    rewrite !repeat_length, Nat.eqb_refl in H. cbn [negb] in H.
    destruct (Nat.eqb_spec (Z.to_nat n) (S (Z.to_nat (n - 1)))) as [En|]; cbn [negb] in H; [|discriminate H].
    remember (Z.to_nat (n - 1)) as k eqn:Ek. rewrite En in H.
    rewrite !removelast_repeat, !last_repeat in H.
    apply bind_ok in H. destruct H as [m [Hm H]]. apply max_nid_ok in Hm. subst m.
    apply bind_ok in H. destruct H as [[[[g1 cur] nn'] eid] [Hl H]]. apply of_opt_ok in H.
    apply In_ids_has in Ha.
    destruct (opchain_loop_spec _ _ _ _ _ _ _ _ _ Hl Hinv Ha eq_refl) as [ch [G [O [Len [Hc [_ Hm1]]]]]].
    { intros [[o c] q] Hp. simpl. apply in_combine_l in Hp. split.
      - apply in_combine_l in Hp. apply repeat_spec in Hp. exact Hp.
      - apply in_combine_r in Hp. apply repeat_spec in Hp. exact Hp. }
    rewrite !combine_length, !repeat_length, !Nat.min_id in Len, Hm1.
    destruct G as [G1 [G2 [G3 [G4 G5]]]].
    assert (Hcur : has_node g1 cur = true) by (apply In_ids_has; exact Hc).
    destruct (add_connect_edge_inv R g1 g' (new_edge eid cur b [(oid_id, 1r)]) G2 Hcur H) as [I' [E' [N' [T0' [T1' _]]]]].
    exists (ch ++ [new_edge eid cur b [(oid_id, 1r)]]).
    split; [|split; [|split; [|split]]].
    - apply Grow_intro; try congruence.
      + rewrite E', G1, app_assoc. reflexivity.
      + unfold ids in *. rewrite N'. exact G3.
    - eapply open_close; [exact O|reflexivity|apply idc_new_edge|reflexivity].
    - rewrite app_length, Len. simpl length. lia.
    - unfold nmax, ids in *. rewrite N', Hm1. lia.
    - exact Ha.
  Qed.
  Ltac zb := repeat (rewrite ?orb_true_iff, ?orb_false_iff, ?andb_true_iff, ?andb_false_iff, ?Z.eqb_eq, ?Z.eqb_neq,
                             ?Z.ltb_lt, ?Z.ltb_ge, ?Z.leb_le, ?Z.leb_gt); lia.

  Definition EdgesIn (lo hi root : Z) (new : list gedge) : Prop :=
    forall e, In e new -> e_from e <> 1 /\ (e_from e = root \/ lo < e_from e <= hi) /\ (e_to e = 1 \/ lo < e_to e <= hi).

  Lemma EdgesIn_weaken lo hi r new lo' hi' r' :
    EdgesIn lo hi r new -> lo' <= lo -> hi <= hi' -> (r = 1 \/ r = r' \/ lo' < r <= hi') -> EdgesIn lo' hi' r' new.
  Proof. intros H H1 H2 H3 e He. destruct (H e He) as [A [B C]]. lia. Qed.

  Lemma EdgesIn_app lo hi r a b : EdgesIn lo hi r a -> EdgesIn lo hi r b -> EdgesIn lo hi r (a ++ b).
  Proof. intros Ha Hb e He. apply in_app_or in He. destruct He; auto. Qed.

  (* ---------- leaf: identity padding up to the end node ---------- *)
  Lemma leaf_sem ch a k : chainP a k ch 1 -> a < k -> 1 < k -> a <> 1 ->
    forall w, dene ch 1 w a =
      if Z.of_nat (length w) =? Z.of_nat (length ch) then (if all_identity oid_id w then 1r else 0r) else 0r.
  Proof.
    intros Hch Hak H1k Ha1 w.
    assert (E := chain_dene 1 1 ch a k [] [] w Hch Hak H1k (not_eq_sym Ha1)).
    simpl app in E. rewrite app_nil_r in E. rewrite E; [|intros e []]. clear E.
    rewrite dene_sink.
    2:{ intros e He. destruct (chain_bounds _ _ _ _ Hch e He) as [[B|B] _]; lia. }
    destruct (Nat.leb_spec (length ch) (length w)) as [Hle|Hgt].
    - destruct (Z.eqb_spec (Z.of_nat (length w)) (Z.of_nat (length ch))) as [E|Hne].
      + assert (E' : length ch = length w) by lia. rewrite E', firstn_all, skipn_all.
        destruct (all_identity oid_id w); reflexivity.
      + destruct (skipn (length ch) w) as [|x y] eqn:Es.
        * exfalso. assert (L := skipn_length (length ch) w). rewrite Es in L. simpl in L. lia.
        * destruct (all_identity oid_id (firstn (length ch) w)); reflexivity.
    - destruct (Z.eqb_spec (Z.of_nat (length w)) (Z.of_nat (length ch))) as [E|Hne]; [lia|reflexivity].
  Qed.

  (* ---------- induction principle for the nested tree type ---------- *)
  Lemma tree_ind' (P : tree -> Prop) :
    (forall q ch, Forall (fun p => P (snd p)) ch -> P (TNode q ch)) -> forall t, P t.
  Proof.
    intros H. fix IH 1. intros [q ch]. apply H.
    induction ch as [|p r IHr]; constructor; [apply IH|exact IHr].
  Qed.

  (* ---------- one-step unfoldings ---------- *)
  Definition ins_children (root td : Z) : list (Z * R * tree) -> graph -> res graph :=
    fix go (ch : list (Z * R * tree)) (g : graph) : res graph :=
      match ch with
      | [] => Ok g
      | (oid, c, s) :: rest =>
          bind (if 1 <? td then bind (max_nid g) (fun m => Ok (m + 1)) else Ok (g_t1 g)) (fun nid_next =>
          let eid_next := max_eid g + 1 in
          let g1 := upd_node g root (node_add_eid eid_next 1) in
          bind (of_opt EValue (add_edge g1 (new_edge eid_next root nid_next [(oid, c)]))) (fun g2 =>
          bind (if 1 <? td
                then of_opt EValue (add_node g2 (mknode nid_next [eid_next] [] (tree_q s)))
                else if has_node g2 nid_next then Ok (upd_node g2 nid_next (node_add_eid eid_next 0))
                     else Err EKey) (fun g3 =>
          bind (insert_subtree oid_id s g3 nid_next (td - 1)) (fun g4 => go rest g4))))
      end.

  Lemma insert_subtree_eq q ch (g : graph) root td :
    insert_subtree oid_id (TNode q ch) g root td =
    if td <? 0 then Err EValue else
    match find_node g root with
    | None => Err EKey
    | Some node =>
        if negb (n_q node =? q) then Err ERuntime else
        match ch with
        | [] => if 0 <? td then insert_identities g root (g_t1 g) td oid_id
                else if root =? g_t1 g then Ok g else Err EAssert
        | _ => ins_children root td ch g
        end
    end.
  Proof. destruct ch; reflexivity. Qed.

  Lemma ins_children_cons root td oid c s rest (g : graph) :
    ins_children root td ((oid, c, s) :: rest) g =
    bind (if 1 <? td then bind (max_nid g) (fun m => Ok (m + 1)) else Ok (g_t1 g)) (fun nid_next =>
    bind (of_opt EValue (add_edge (upd_node g root (node_add_eid (max_eid g + 1) 1))
                                  (new_edge (max_eid g + 1) root nid_next [(oid, c)]))) (fun g2 =>
    bind (if 1 <? td
          then of_opt EValue (add_node g2 (mknode nid_next [max_eid g + 1] [] (tree_q s)))
          else if has_node g2 nid_next then Ok (upd_node g2 nid_next (node_add_eid (max_eid g + 1) 0))
               else Err EKey) (fun g3 =>
    bind (insert_subtree oid_id s g3 nid_next (td - 1)) (fun g4 => ins_children root td rest g4)))).
  Proof. reflexivity. Qed.

  Definition tden_children (o : Z) (w' : list Z) : list (Z * R * tree) -> R :=
    fix go (ch : list (Z * R * tree)) : R :=
      match ch with
      | [] => 0r
      | (oid, c, s) :: r => kadd R (if oid =? o then kmul R c (tree_den oid_id s w') else 0r) (go r)
      end.

  Lemma tree_den_eq q ch w :
    tree_den oid_id (TNode q ch) w =
    match ch with
    | [] => if all_identity oid_id w then 1r else 0r
    | _ => match w with [] => 0r | o :: w' => tden_children o w' ch end
    end.
  Proof. destruct ch; reflexivity. Qed.

  Lemma tden_children_cons o w oid c s r :
    tden_children o w ((oid, c, s) :: r) = (if oid =? o then c *r tree_den oid_id s w else 0r) +r tden_children o w r.
  Proof. reflexivity. Qed.

  Lemma subtree_td_nonneg t (g : graph) root td g' : insert_subtree oid_id t g root td = Ok g' -> 0 <= td.
  Proof.
    destruct t as [q ch]. rewrite insert_subtree_eq. destruct (Z.ltb_spec td 0); [discriminate|lia].
  Qed.
  (* ---------- one child: new edge root -> next, new node (or the end node) ---------- *)
  Lemma child_step (g : graph) root td next oid c q g2 g3 :
    OutInv g -> g_t1 g = 1 -> In 1 (ids g) -> In root (ids g) ->
    (if 1 <? td then bind (max_nid g) (fun m => Ok (m + 1)) else Ok (g_t1 g)) = Ok next ->
    of_opt EValue (add_edge (upd_node g root (node_add_eid (max_eid g + 1) 1))
                            (new_edge (max_eid g + 1) root next [(oid, c)])) = Ok g2 ->
    (if 1 <? td
     then of_opt EValue (add_node g2 (mknode next [max_eid g + 1] [] q))
     else if has_node g2 next then Ok (upd_node g2 next (node_add_eid (max_eid g + 1) 0))
          else Err EKey) = Ok g3 ->
    Grow g g3 [new_edge (max_eid g + 1) root next [(oid, c)]] /\ In next (ids g3) /\
    (if 1 <? td then nmax g < next else next = 1).
  Proof.
    intros Hinv Ht1 H1 Hroot H0 Hadd Hnode.
    set (eid := max_eid g + 1) in *. set (e := new_edge eid root next [(oid, c)]) in *.
    apply of_opt_ok in Hadd. unfold add_edge in Hadd.
    destruct (has_edge_id (upd_node g root (node_add_eid eid 1)) (e_id e)) eqn:He; [discriminate Hadd|].
    change (has_edge_id g (e_id e) = false) in He.
    assert (E2 : g2 = mkgraph (map (fun n => if n_id n =? e_from e then node_add_eid (e_id e) 1 n else n) (g_nodes g))
                              (g_edges g ++ [e]) (g_t0 g) (g_t1 g)).
    { inversion Hadd. reflexivity. }
    clear Hadd.
    assert (Hr : has_node g (e_from e) = true) by (apply In_ids_has; exact Hroot).
    assert (I2 : OutInv g2) by (rewrite E2; exact (OutInv_out_edge R g e Hinv Hr He)).
    assert (Ed2 : g_edges g2 = g_edges g ++ [e]) by (rewrite E2; reflexivity).
    assert (Id2 : ids g2 = ids g).
    { rewrite E2. unfold ids. simpl g_nodes. apply map_id_upd. intros n. reflexivity. }
    assert (T02 : g_t0 g2 = g_t0 g) by (rewrite E2; reflexivity).
    assert (T12 : g_t1 g2 = g_t1 g) by (rewrite E2; reflexivity).
    destruct (1 <? td).
    - apply bind_ok in H0. destruct H0 as [m [Hm H0]]. apply max_nid_ok in Hm. inversion H0; subst next m. clear H0.
      apply of_opt_ok in Hnode.
      destruct (add_node_inv R g2 g3 _ I2 Hnode eq_refl) as [I3 [Ed3 [N3 [T03 T13]]]].
      assert (Id3 : ids g3 = ids g ++ [nmax g + 1]).
      { unfold ids in *. rewrite N3, map_app, Id2. reflexivity. }
      split; [|split].
      + apply Grow_intro; try congruence. rewrite Id3. apply incl_appl, incl_refl.
      + rewrite Id3. apply in_or_app. right. left. reflexivity.
      + lia.
    - inversion H0; subst next. clear H0. rewrite Ht1 in *.
      destruct (has_node g2 1) eqn:Hn; [|discriminate Hnode]. inversion Hnode; subst g3. clear Hnode.
      assert (Id3 : ids (upd_node g2 1 (node_add_eid eid 0)) = ids g).
      { unfold ids, upd_node. simpl g_nodes. rewrite map_id_upd; [exact Id2|]. intros n. reflexivity. }
      split; [|split].
      + apply Grow_intro.
        * exact Ed2.
        * apply OutInv_upd_in. exact I2.
        * rewrite Id3. apply incl_refl.
        * exact T02.
        * simpl. congruence.
      + rewrite Id3. exact H1.
      + reflexivity.
  Qed.

  (* ---------- _insert_subtree ---------- *)
  Definition SubSpec (t : tree) : Prop := forall (g : graph) root td g',
    OutInv g -> g_t1 g = 1 -> In 1 (ids g) -> (0 < td -> root <> 1) ->
    insert_subtree oid_id t g root td = Ok g' ->
    exists new, Grow g g' new /\ EdgesIn (nmax g) (nmax g') root new /\
      forall w, dene new 1 w root = if Z.of_nat (length w) =? td then tree_den oid_id t w else 0r.

  Lemma children_spec root td ch : Forall (fun p => SubSpec (snd p)) ch -> forall (g g' : graph),
    OutInv g -> g_t1 g = 1 -> In 1 (ids g) -> In root (ids g) -> (0 < td -> root <> 1) ->
    ins_children root td ch g = Ok g' ->
    exists new, Grow g g' new /\ EdgesIn (nmax g) (nmax g') root new /\ (ch <> [] -> 0 < td) /\
      forall o w, dene new 1 (o :: w) root = if Z.of_nat (length w) =? td - 1 then tden_children o w ch else 0r.
  Proof.
    induction 1 as [|[[oid c] s] rest Hs _ IH]; intros g g' Hinv Ht1 H1 Hroot Hr1 H.
    - simpl in H. inversion H; subst g'. exists []. split; [apply Grow_refl; exact Hinv|].
      split; [intros e []|]. split; [congruence|].
      intros o w. rewrite dene_cons. simpl. destruct (Z.of_nat (length w) =? td - 1); reflexivity.
    - simpl snd in Hs. rewrite ins_children_cons in H.
      apply bind_ok in H. destruct H as [next [H0 H]].
      apply bind_ok in H. destruct H as [g2 [Hadd H]].
      apply bind_ok in H. destruct H as [g3 [Hnode H]].
      apply bind_ok in H. destruct H as [g4 [Hsub Hrest]].
      destruct (child_step g root td next oid c (tree_q s) g2 g3 Hinv Ht1 H1 Hroot H0 Hadd Hnode) as [G3 [Hn3 Hnext]].
      set (e := new_edge (max_eid g + 1) root next [(oid, c)]) in *.
      assert (Htd : 0 < td) by (apply subtree_td_nonneg in Hsub; lia).
      specialize (Hr1 Htd).
      assert (M3 := Grow_nmax _ _ _ G3 H1).
      destruct G3 as [E3 [I3 [Inc3 [T03 T13]]]].
      assert (H13 : In 1 (ids g3)) by (apply Inc3; exact H1).
      assert (Hnx : 0 < td - 1 -> next <> 1).
      { intros Hlt. destruct (Z.ltb_spec 1 td); [|lia]. pose proof (nmax_ge g 1 H1). lia. }
      destruct (Hs g3 next (td - 1) g4 I3 (eq_trans T13 Ht1) H13 Hnx Hsub) as [new_s [G4 [B4 S4]]].
      assert (M4 := Grow_nmax _ _ _ G4 H13).
      destruct G4 as [E4 [I4 [Inc4 [T04 T14]]]].
      assert (H14 : In 1 (ids g4)) by (apply Inc4; exact H13).
      assert (Hroot4 : In root (ids g4)) by (apply Inc4, Inc3; exact Hroot).
      assert (Ht14 : g_t1 g4 = 1) by congruence.
      destruct (IH g4 g' I4 Ht14 H14 Hroot4 (fun _ => Hr1) Hrest) as [new_r [G' [B' [_ S']]]].
      assert (M' := Grow_nmax _ _ _ G' H14).
      pose proof (nmax_ge g root Hroot) as Hrm.
      pose proof (nmax_ge g 1 H1) as H1m.
      pose proof (nmax_ge g3 next Hn3) as Hnm.
      assert (Hnext' : next = 1 \/ nmax g < next) by (destruct (1 <? td); lia).
      exists ([e] ++ new_s ++ new_r).
      split; [|split; [|split; [intros _; exact Htd|]]].
      + eapply Grow_trans; [apply Grow_intro; eauto|]. eapply Grow_trans; [apply Grow_intro; eauto|exact G'].
      + apply EdgesIn_app; [|apply EdgesIn_app].
        * intros x [<-|[]]. simpl e_from. simpl e_to. lia.
        * eapply EdgesIn_weaken; [exact B4|lia|lia|lia].
        * eapply EdgesIn_weaken; [exact B'|lia|lia|lia].
      + intros o w.
        set (new := [e] ++ new_s ++ new_r).
        assert (Es : forall w y, (y =? 1) || ((nmax g <? y) && (y <=? nmax g4)) = true -> dene new 1 w y = dene new_s 1 w y).
        { apply dene_restrict.
          - intros x [<-|[]]. simpl e_from. zb.
          - intros x Hx. destruct (B' x Hx) as [A1 [A2 _]]. zb.
          - intros x Hx. destruct (B4 x Hx) as [_ [_ A3]]. zb. }
        assert (Er : forall w y, (y =? 1) || (nmax g4 <? y) = true -> dene new 1 w y = dene new_r 1 w y).
        { intros w0 y Hy.
          assert (E := dene_restrict (fun y => (y =? 1) || (nmax g4 <? y)) ([e] ++ new_s) new_r [] 1).
          rewrite app_nil_r, <- app_assoc in E. apply E; [| |intros x Hx|exact Hy].
          - intros x Hx. apply in_app_or in Hx. destruct Hx as [[<-|[]]|Hx].
            + simpl e_from. zb.
            + destruct (B4 x Hx) as [A1 [A2 _]]. zb.
          - intros x [].
          - destruct (B' x Hx) as [_ [_ A3]]. zb. }
        rewrite dene_cons. unfold new at 1. change ([e] ++ new_s ++ new_r) with (e :: (new_s ++ new_r)).
        simpl suml. rewrite suml_app.
        rewrite (suml_zero R new_s).
        2:{ intros x Hx. destruct (Z.eqb_spec (e_from x) root) as [E|]; [|reflexivity].
            exfalso. destruct (B4 x Hx) as [A1 [A2 _]]. lia. }
        rewrite (suml_ext R new_r _ (fun x => if e_from x =? root then opics_coeff o (e_opics x) *r dene new_r 1 w (e_to x) else 0r)).
        2:{ intros x Hx. destruct (e_from x =? root); [|reflexivity]. rewrite Er; [reflexivity|].
            destruct (B' x Hx) as [_ [_ A3]]. zb. }
        rewrite <- dene_cons, S'.
        simpl e_from. rewrite Z.eqb_refl. rewrite Es by zb. rewrite S4.
        rewrite opics_coeff_norm, opics_coeff_single.
        rewrite tden_children_cons.
        destruct (Z.of_nat (length w) =? td - 1); destruct (oid =? o); ring.
  Qed.

  Lemma subtree_spec : forall t, SubSpec t.
  Proof.
    apply tree_ind'. intros q ch HF g root td g' Hinv Ht1 H1 Hr1 H.
    rewrite insert_subtree_eq in H.
    destruct (Z.ltb_spec td 0) as [|Htd0]; [discriminate H|].
    destruct (find_node g root) as [node|] eqn:Hf; [|discriminate H].
    destruct (negb (n_q node =? q)); [discriminate H|].
    apply find_node_some in Hf. destruct Hf as [Hin Hid].
    assert (Hroot : In root (ids g)) by (unfold ids; rewrite <- Hid; apply in_map; exact Hin).
    pose proof (nmax_ge g 1 H1) as H1m. pose proof (nmax_ge g root Hroot) as Hrm.
    destruct ch as [|p r].
    - destruct (Z.ltb_spec 0 td) as [Hpos|Hz].
      + destruct (insert_identities_spec g root (g_t1 g) td g' Hinv H) as [chn [G [Hch [Len [Hm _]]]]].
        rewrite Ht1 in Hch. specialize (Hr1 Hpos).
        exists chn. split; [exact G|]. split.
        * intros e He. destruct (chain_bounds _ _ _ _ Hch e He) as [B1 B2]. lia.
        * intros w. rewrite (leaf_sem chn root (nmax g + 1) Hch) by lia.
          rewrite Len, tree_den_eq. reflexivity.
      + destruct (Z.eqb_spec root (g_t1 g)) as [E|]; [|discriminate H]. inversion H; subst g'.
        exists []. split; [apply Grow_refl; exact Hinv|]. split; [intros e []|].
        assert (td = 0) by lia. subst td. rewrite Ht1 in E.
        intros w. rewrite E, tree_den_eq. destruct w as [|o w]; [reflexivity|].
        rewrite dene_cons. reflexivity.
    - destruct (children_spec root td (p :: r) HF g g' Hinv Ht1 H1 Hroot Hr1 H) as [new [G [B [Htd S']]]].
      assert (Hpos : 0 < td) by (apply Htd; discriminate). specialize (Hr1 Hpos).
      exists new. split; [exact G|]. split; [exact B|].
      intros w. rewrite tree_den_eq. destruct w as [|o w].
      + rewrite dene_nil. destruct (Z.eqb_spec root 1); [contradiction|].
        destruct (Z.eqb_spec (Z.of_nat (length (@nil Z))) td) as [E|]; [simpl in E; lia|reflexivity].
      + rewrite S'. simpl length.
        destruct (Z.eqb_spec (Z.of_nat (length w)) (td - 1)), (Z.eqb_spec (Z.of_nat (S (length w))) td); try lia; reflexivity.
  Qed.
  (* ---------- from_optrees: the loop over the trees ---------- *)
  Ltac zb2 := repeat (rewrite ?negb_true_iff, ?negb_false_iff, ?orb_true_iff, ?orb_false_iff, ?andb_true_iff, ?andb_false_iff,
                              ?Z.eqb_eq, ?Z.eqb_neq, ?Z.ltb_lt, ?Z.ltb_ge, ?Z.leb_le, ?Z.leb_gt); lia.

  Record TI (g : graph) : Prop := {
    ti_out : OutInv g; ti_t0 : g_t0 g = 0; ti_t1 : g_t1 g = 1; ti_one : In 1 (ids g);
    ti_edges : forall e, In e (g_edges g) -> e_to e <> 0 /\ e_from e <> 1 /\ e_to e <= nmax g /\ e_from e <= nmax g
  }.

  Lemma extend_TI (g g' : graph) new : TI g -> Grow g g' new -> EdgesIn (nmax g) (nmax g') 0 new ->
    TI g' /\ forall w, dene (g_edges g') 1 w 0 = dene (g_edges g) 1 w 0 +r dene new 1 w 0.
  Proof.
    intros [Hinv T0 T1 H1 Hed] G B.
    assert (M := Grow_nmax _ _ _ G H1). pose proof (nmax_ge g 1 H1) as H1m.
    destruct G as [E [I' [Inc [T0' T1']]]]. split.
    - constructor; try congruence; [apply Inc; exact H1|].
      intros e He. rewrite E in He. apply in_app_or in He. destruct He as [He|He].
      + destruct (Hed e He) as [A1 [A2 [A3 A4]]]. lia.
      + destruct (B e He) as [A1 [A2 A3]]. lia.
    - intros w. rewrite E.
      apply (dene_split (fun y => negb (y =? 0) && (y <=? nmax g)) (fun y => (y =? 1) || (nmax g <? y))).
      + intros e He _. destruct (Hed e He) as [A1 [A2 [A3 A4]]]. zb2.
      + intros e He. destruct (B e He) as [A1 [A2 A3]]. zb2.
      + intros e He _. destruct (Hed e He) as [A1 [A2 [A3 A4]]]. zb2.
      + intros e He. destruct (Hed e He) as [A1 [A2 [A3 A4]]]. zb2.
      + intros e He. destruct (B e He) as [A1 [A2 A3]]. zb2.
      + lia.
  Qed.

  Variable L : nat.

  Lemma insert_optree_spec (g g' : graph) (t : optree R) :
    TI g -> insert_optree oid_id (Z.of_nat L) (Ok g) t = Ok g' ->
    TI g' /\ forall w, (0 <= ot_istart t \/ length w = L) ->
      dene (g_edges g') 1 w 0 = dene (g_edges g) 1 w 0 +r optree_den oid_id L t w.
  Proof.
    intros HTI H. pose proof HTI as [Hinv T0 T1 H1 Hed]. pose proof (nmax_ge g 1 H1) as H1m.
    unfold insert_optree in H. simpl bind in H.
    apply bind_ok in H. destruct H as [[gs root] [Hgr Hsub]]. simpl fst in Hsub. simpl snd in Hsub.
    set (s := ot_istart t) in *.
    destruct (Z.ltb_spec 0 s) as [Hpos|Hnp].
    - apply bind_ok in Hgr. destruct Hgr as [m [Hm Hgr]]. apply max_nid_ok in Hm. subst m.
      apply bind_ok in Hgr. destruct Hgr as [g1 [Hadd Hgr]]. apply of_opt_ok in Hadd.
      apply bind_ok in Hgr. destruct Hgr as [g2 [Hid Hgr]]. inversion Hgr; subst gs root. clear Hgr.
      set (root := nmax g + 1) in *.
      destruct (add_node_inv R g g1 _ Hinv Hadd eq_refl) as [I1 [E1 [N1 [T01 T11]]]].
      assert (Id1 : ids g1 = ids g ++ [root]) by (unfold ids; rewrite N1, map_app; reflexivity).
      assert (M1 : nmax g1 = root).
      { unfold nmax. rewrite Id1, zmax_snoc.
        - fold (nmax g). lia.
        - intros E. rewrite E in H1. destruct H1. }
      destruct (insert_identities_spec g1 0 root s g2 I1 Hid) as [ch [G2 [Hch [Len [M2 _]]]]].
      rewrite M1 in Hch, M2.
      assert (H11 : In 1 (ids g1)) by (rewrite Id1; apply in_or_app; left; exact H1).
      pose proof G2 as [E2 [I2 [Inc2 [T02 T12]]]].
      assert (H12 : In 1 (ids g2)) by (apply Inc2; exact H11).
      assert (Ht2 : g_t1 g2 = 1) by congruence.
      destruct (subtree_spec (ot_root t) g2 root (Z.of_nat L - s) g' I2 Ht2 H12 (fun _ => ltac:(lia)) Hsub)
        as [sub [G' [B' S']]].
      assert (M' := Grow_nmax _ _ _ G' H12).
      assert (Htd := subtree_td_nonneg _ _ _ _ _ Hsub).
      assert (G : Grow g g' (ch ++ sub)).
      { change (ch ++ sub) with ([] ++ ch ++ sub).
        eapply Grow_trans; [|eapply Grow_trans; [exact G2|exact G']].
        apply Grow_intro; try congruence; [rewrite app_nil_r; exact E1|].
        rewrite Id1. apply incl_appl, incl_refl. }
      assert (B : EdgesIn (nmax g) (nmax g') 0 (ch ++ sub)).
      { apply EdgesIn_app.
        - intros e He. destruct (chain_bounds _ _ _ _ Hch e He) as [A1 A2]. lia.
        - eapply EdgesIn_weaken; [exact B'|lia|lia|lia]. }
      destruct (extend_TI g g' _ HTI G B) as [HTI' Hsem]. split; [exact HTI'|].
      intros w _. rewrite Hsem. f_equal.
      assert (E := chain_dene root 1 ch 0 (root + 1) [] sub w Hch).
      simpl app in E. rewrite E; try lia.
      2:{ intros e He. destruct (B' e He) as [A1 [A2 A3]]. lia. }
      clear E.
      assert (Er : forall w', dene (ch ++ sub) 1 w' root = dene sub 1 w' root).
      { intros w'.
        assert (E := dene_restrict (fun y => (y =? 1) || (y =? root) || (nmax g2 <? y)) ch sub [] 1).
        rewrite app_nil_r in E. apply E.
        - intros e He. destruct (chain_bounds _ _ _ _ Hch e He) as [A1 A2]. zb2.
        - intros e [].
        - intros e He. destruct (B' e He) as [A1 [A2 A3]]. zb2.
        - zb2. }
      rewrite Er, S'. unfold optree_den. fold s.
      assert (En : Z.to_nat s = length ch) by lia. rewrite En.
      assert (Ls := skipn_length (length ch) w).
      destruct (Z.leb_spec 0 s); [|lia]. simpl andb.
      destruct (Nat.leb_spec (length ch) (length w)), (Nat.eqb_spec (length w) L), (Nat.leb_spec (length ch) L);
        simpl andb; cbv iota; try lia;
        destruct (Z.eqb_spec (Z.of_nat (length (skipn (length ch) w))) (Z.of_nat L - s)); try lia;
        destruct (all_identity oid_id (firstn (length ch) w)); reflexivity.
    - inversion Hgr; subst gs root. clear Hgr.
      destruct (subtree_spec (ot_root t) g 0 (Z.of_nat L - s) g' Hinv T1 H1 (fun _ => ltac:(lia)) Hsub)
        as [new [G [B S']]].
      destruct (extend_TI g g' _ HTI G B) as [HTI' Hsem]. split; [exact HTI'|].
      intros w Hw. rewrite Hsem, S'. f_equal. unfold optree_den. fold s.
      destruct (Z.leb_spec 0 s) as [H0s|Hneg].
      + assert (s = 0) by lia. replace s with 0 in * by lia. simpl Z.to_nat. simpl firstn. simpl skipn.
        simpl all_identity. simpl Nat.leb. rewrite Z.sub_0_r, andb_true_r. simpl andb.
        destruct (Z.eqb_spec (Z.of_nat (length w)) (Z.of_nat L)), (Nat.eqb_spec (length w) L); try lia; reflexivity.
      + simpl andb. destruct Hw as [Hw|Hw]; [lia|].
        destruct (Z.eqb_spec (Z.of_nat (length w)) (Z.of_nat L - s)); [lia|reflexivity].
  Qed.

  Lemma fold_err (ts : list (optree R)) e : fold_left (insert_optree oid_id (Z.of_nat L)) ts (Err e) = Err e.
  Proof. induction ts as [|t ts IH]; simpl; [reflexivity|exact IH]. Qed.

  Lemma fold_spec (ts : list (optree R)) : forall (g g' : graph), TI g ->
    fold_left (insert_optree oid_id (Z.of_nat L)) ts (Ok g) = Ok g' ->
    TI g' /\ forall w, (Forall (fun t => 0 <= ot_istart t) ts \/ length w = L) ->
      dene (g_edges g') 1 w 0 = dene (g_edges g) 1 w 0 +r suml ts (fun t => optree_den oid_id L t w).
  Proof.
    induction ts as [|t ts IH]; intros g g' HTI H.
    - simpl in H. inversion H; subst g'. split; [exact HTI|]. intros w _. simpl. ring.
    - change (fold_left (insert_optree oid_id (Z.of_nat L)) ts (insert_optree oid_id (Z.of_nat L) (Ok g) t) = Ok g') in H.
      destruct (insert_optree oid_id (Z.of_nat L) (Ok g) t) as [g1|e] eqn:E1; [|rewrite fold_err in H; discriminate H].
      destruct (insert_optree_spec g g1 t HTI E1) as [HTI1 S1].
      destruct (IH g1 g' HTI1 H) as [HTI' S']. split; [exact HTI'|].
      intros w Hw. rewrite S', S1.
      + simpl suml. ring.
      + destruct Hw as [Hw|Hw]; [left; inversion Hw; assumption|right; exact Hw].
      + destruct Hw as [Hw|Hw]; [left; inversion Hw; assumption|right; exact Hw].
  Qed.

  Definition g_init : graph := mkgraph [mknode 0 [] [] 0; mknode 1 [] [] 0] [] 0 1.

  Lemma TI_init : TI g_init.
  Proof.
    constructor; try reflexivity.
    - constructor; simpl.
      + constructor; [simpl; intros [H|[]]; discriminate H|]. constructor; [intros []|constructor].
      + constructor.
      + intros n [<-|[<-|[]]]; simpl; constructor.
      + intros e [].
    - simpl. auto.
    - intros e [].
  Qed.

  Lemma from_optrees_raw_sem (ts : list (optree R)) (g : graph) :
    from_optrees_raw ts (Z.of_nat L) oid_id = Some g ->
    TI g /\ forall w, (Forall (fun t => 0 <= ot_istart t) ts \/ length w = L) -> den g w = optrees_den oid_id L ts w.
  Proof.
    unfold from_optrees_raw, from_optrees_raw_r. fold g_init.
    destruct (fold_left (insert_optree oid_id (Z.of_nat L)) ts (Ok g_init)) as [g'|e] eqn:E; simpl; intros H; [|discriminate H].
    inversion H; subst g'. destruct (fold_spec ts g_init g TI_init E) as [HTI S]. split; [exact HTI|].
    intros w Hw. rewrite (den_dene R g (ti_out g HTI)), (ti_t0 g HTI), (ti_t1 g HTI), (S w Hw).
    unfold optrees_den. simpl g_edges. destruct w; simpl; ring.
  Qed.
End OpTreeProofs.

(* ---------- the statements used by Properties/C17.v ---------- *)
(* words of the system length: no side condition *)
Theorem from_optrees_raw_den_len : forall (R : cring) (ts : list (optree R)) (L : nat) (oid_id : Z) (g : graph R),
  from_optrees_raw ts (Z.of_nat L) oid_id = Some g ->
  forall w, length w = L -> den g w = optrees_den oid_id L ts w.
Proof. intros R ts L oid_id g H w Hw. apply (from_optrees_raw_sem R oid_id L ts g H). right. exact Hw. Qed.

(* all words, for trees with non-negative start site *)
Theorem from_optrees_raw_den : forall (R : cring) (ts : list (optree R)) (L : nat) (oid_id : Z) (g : graph R),
  Forall (fun t => 0 <= ot_istart t) ts ->
  from_optrees_raw ts (Z.of_nat L) oid_id = Some g ->
  forall w, den g w = optrees_den oid_id L ts w.
Proof. intros R ts L oid_id g Hs H w. apply (from_optrees_raw_sem R oid_id L ts g H). left. exact Hs. Qed.

Theorem from_optrees_raw_outinv : forall (R : cring) (ts : list (optree R)) (L : nat) (oid_id : Z) (g : graph R),
  from_optrees_raw ts (Z.of_nat L) oid_id = Some g -> OutInv g.
Proof. intros R ts L oid_id g H. apply ti_out. apply (from_optrees_raw_sem R oid_id L ts g H). Qed.

Print Assumptions from_optrees_raw_den_len.
Print Assumptions from_optrees_raw_den.
Print Assumptions from_optrees_raw_outinv.

(* non-vacuity: a tree starting at site 1 of 3 sites; and the reason for the side condition on the start
   sites in [from_optrees_raw_den]: a negative start site yields paths longer than L *)
Example from_optrees_raw_example :
  exists g, from_optrees_raw [mkoptree (@TNode Zring 0 [(5, 2, @TNode Zring 0 [])]) 1] (Z.of_nat 3) 0 = Some g /\
            den g [0; 5; 0] = 2 /\ den g [0; 5; 5] = 0.
Proof. eexists. split; [vm_compute; reflexivity|]. vm_compute. auto. Qed.

Example from_optrees_raw_negative_start :
  exists g, from_optrees_raw [mkoptree (@TNode Zring 0 []) (-1)] (Z.of_nat 1) 0 = Some g /\
            den g [0; 0] = 1 /\ optrees_den 0 1 [mkoptree (@TNode Zring 0 []) (-1)] [0; 0] = 0.
Proof. eexists. split; [vm_compute; reflexivity|]. vm_compute. auto. Qed.
