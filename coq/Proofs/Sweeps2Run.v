(* C08/C10, two-site sweeps — induction over whole runs of tdvp_twosite / dmrg_twosite (Model/Sweeps.v).
   The prologue establishes the one-site mixed-canonical invariant Z (Proofs/SweepsRun.v: Z_init); every two-site local
   problem is entered through the two-site invariant Z2 (Proofs/Sweeps2Inv.v) with the centre on the left site of the pair
   (left-to-right sweep, rightmost pair) or on the right site (right-to-left sweep), and left through the exact-split
   contract: the tensor that was split factors entrywise through the two answers and the factor on the orthonormal side
   is an isometry, so the centre is handed over to site i+1 ('right' distribution) or stays at site i ('left').
   All contracts are assumed only for the calls the run issues, read off the emitted trace. *)
From Coq Require Import ZArith Arith List Lia Ring Field Setoid Bool.
From PT Require Import Base.Scalar Base.Field Base.BigSum Base.Mx Model.Tensor Model.Operation Model.Sweeps
  Proofs.OperationSums Proofs.OperationEntries Proofs.OperationChains Proofs.OperationLocal Proofs.OperationUniform
  Proofs.OperationTwoSite Proofs.SweepsCanon Proofs.SweepsFlow Proofs.SweepsSched Proofs.SweepsLocal Proofs.SweepsGauge Proofs.SweepsBond
  Proofs.SweepsInv Proofs.SweepsRun Proofs.Sweeps2Inv.
Import ListNotations.

(* indices n-1, ..., 0; the body at index i takes the centre from i+1 to i *)
Section Loops0.
  Context {S T : Type}.
  Variable tr_of : S -> list T.
  Variable body : S -> nat -> S.
  Hypothesis mono : forall s i, exists new, tr_of (body s i) = new ++ tr_of s.
  Variable ok : list T -> Prop.
  Hypothesis ok_suffix : forall new old, ok (new ++ old) -> ok old.

  Lemma fold_down0 (P : nat -> S -> Prop) n : forall s,
    P n s -> ok (tr_of (fold_left body (rev (seq 0 n)) s)) ->
    (forall i s', i < n -> P (Datatypes.S i) s' -> ok (tr_of (body s' i)) -> P i (body s' i)) ->
    P 0 (fold_left body (rev (seq 0 n)) s).
  Proof.
    induction n as [|n IH]; intros s HP Hok Hstep; [exact HP|].
    rewrite seq_S, rev_app_distr in *. cbn [rev app fold_left Nat.add] in *. apply IH.
    - apply Hstep; [lia|exact HP|].
      destruct (fold_mono tr_of body mono (rev (seq 0 n)) (body s n)) as [new E]. rewrite E in Hok. exact (ok_suffix _ _ Hok).
    - exact Hok.
    - intros i s' Hi. apply Hstep. lia.
  Qed.
End Loops0.

(* ---------------- the exact-split contract ---------------- *)
Section SplitContract.
  Variable R : cring.
  (* split_mps_tensor(Am, ..., svd_distr, tol = 0) = (A0, A1, qbond): Am[s*d+t] = A0[s] . A1[t] entrywise (merging undoes the
     split: C03_merge_split_id), and the factor that did not receive the singular values is an isometry
     ('left' distribution: A1 right-isometric, 'right': A0 left-isometric; U^H U = I resp. V V^H = I of the SVD, C12) *)
  Definition split_ok (d : nat) (left : bool) (Am : site R) (ans : site R * site R * list BinNums.Z) : Prop :=
    forall Dl Dr, site_ok (d * d) Dl Dr Am ->
      exists k, site_ok d Dl k (fst (fst ans)) /\ site_ok d k Dr (snd (fst ans)) /\
        fac2 d Dl k Dr Am (fst (fst ans)) (snd (fst ans)) /\
        (if left then right_iso (snd (fst ans)) else left_iso (fst (fst ans))).
End SplitContract.
Arguments split_ok {R} d left Am ans.

(* the contract spelled out *)
Lemma split_ok_spec (R : cring) d left (Am A0 A1 : site R) q :
  split_ok d left Am (A0, A1, q) <->
  (forall Dl Dr, site_ok (d * d) Dl Dr Am ->
     exists k, site_ok d Dl k A0 /\ site_ok d k Dr A1 /\
       (forall s t a e, s < length A0 -> t < d -> a < Dl -> e < Dr ->
          get (sel Am (s * d + t)) a e = sumn k (fun j => kmul R (get (sel A0 s) a j) (get (sel A1 t) j e))) /\
       (if left then right_iso A1 else left_iso A0)).
Proof. split; intros H; exact H. Qed.

Lemma upd_BR_S (R : cring) (Hs : list (osite R)) (st : sw R) i : s_BR (upd_BR Hs st (S i)) =
  lset (s_BR st) i (contraction_operator_step_right (gA st (S i)) (gA st (S i)) (nth (S i) Hs []) (gBR st (S i))).
Proof. unfold upd_BR. cbn [s_BR]. replace (S i - 1) with i by lia. reflexivity. Qed.

(* ======================= TDVP, two-site ======================= *)
Section TDVP2.
  Variable R : cring.
  Add Ring Rring_sweeps2_run_tdvp : (k_rt R).
  Variable split : nat -> site R -> list BinNums.Z -> list BinNums.Z -> list BinNums.Z -> list BinNums.Z -> bool -> site R * site R * list BinNums.Z.
  Variable kexp : nat -> env R -> env R -> osite R -> site R -> R -> site R.
  Variable Hs : list (osite R).
  Variable qd : list BinNums.Z.
  Variables (dt hdt : R).
  Variable d : nat.
  Variable DsW : list nat.
  Hypothesis Hd : 0 < d.
  Hypothesis HWs : ochain_ok (repeat d (length Hs)) DsW Hs.
  Hypothesis HhW : hd 0 DsW = 1.
  Hypothesis HWst : Forall (osite_struct d) Hs.
  Notation L := (length Hs).
  Notation Zi := (Z R Hs d).
  Notation Z2i := (Z2 R Hs d).
  Notation NNi := (NN R Hs d).
  Notation EEi := (EE R Hs d).

  (* contracts of the calls recorded in a trace of the two-site integrator *)
  Definition tdvp2_call_ok (p : nat) (t : tcall R) : Prop :=
    let i := c_site (t_call t) in
    let tm := tval dt hdt (c_coef (t_call t)) in
    match c_kind (t_call t), t_envs t, t_ten t, t_qs t with
    | KH, [BL; BR], [A], _ => kexp_ok d BL BR (nth i Hs []) A (kexp p BL BR (nth i Hs []) A tm)
    | KH2, [BL; BR], [Am], _ => kexp_ok (d * d) BL BR (Hm Hs i) Am (kexp p BL BR (Hm Hs i) Am tm)
    | SPLITL, _, [Am], [q0; q1; q2; q3] => split_ok d true Am (split p Am q0 q1 q2 q3 true)
    | SPLITR, _, [Am], [q0; q1; q2; q3] => split_ok d false Am (split p Am q0 q1 q2 q3 false)
    | _, _, _, _ => True
    end.
  Fixpoint ttr2_ok (tr : list (tcall R)) : Prop :=
    match tr with [] => True | t :: rest => tdvp2_call_ok (length rest) t /\ ttr2_ok rest end.
  Lemma ttr2_ok_suffix new old : ttr2_ok (new ++ old) -> ttr2_ok old.
  Proof. induction new as [|t new IH]; [exact (fun H => H)|]. cbn [app ttr2_ok]. intros [_ H]. exact (IH H). Qed.

  (* ---- merge, evolve, split ---- *)
  Lemma tdvp2_pair_step (st : sw R) i c left : Z2i st i ->
    ttr2_ok (s_tr (tdvp2_pair split kexp Hs qd dt hdt st i c left)) ->
    let st' := tdvp2_pair split kexp Hs qd dt hdt st i c left in
    Z2i st' i /\ NNi (s_A st') = NNi (s_A st) /\ EEi (s_A st') = EEi (s_A st) /\
    (if left then right_iso (gA st' (S i)) else left_iso (gA st' i)).
  Proof.
    intros HZ Hok. unfold tdvp2_pair in *. cbv zeta in *.
    set (Am := c04_merge_site (gA st i) (gA st (S i))) in *.
    set (W2 := c04_merge_osite (nth i Hs []) (nth (S i) Hs [])) in *.
    set (Am1 := kexp (length (s_tr st)) (gBL st i) (gBR st (S i)) W2 Am (tval dt hdt c)) in *.
    destruct (split (S (length (s_tr st))) Am1 qd qd (gq st i) (gq st (S (S i))) left) as [[A0 A1] qb] eqn:Es.
    cbn [s_tr] in Hok. destruct Hok as (HcS & HcK & _).
    unfold tdvp2_call_ok in HcK. cbn [t_call c_kind c_site c_coef t_envs t_ten t_qs length] in HcK.
    change (c04_merge_osite (nth i Hs []) (nth (S i) Hs [])) with W2 in HcK. fold Am1 in HcK.
    assert (HS : split_ok d left Am1 (A0, A1, qb)).
    { unfold tdvp2_call_ok in HcS. destruct left; cbn [t_call c_kind c_site c_coef t_envs t_ten t_qs length] in HcS; rewrite Es in HcS; exact HcS. }
    clear HcS.
    destruct (Z2_center R Hs d DsW Hd HWs HhW HWst st i HZ) as (Dl & Dr & HM & N0 & E0 & Hrep). fold Am in HM, N0, E0.
    destruct HcK as (Hsh & Hn & He).
    destruct (HS Dl Dr (Hsh _ _ HM)) as (k & HA0 & HA1 & Hfac & Hiso). cbn [fst snd] in *.
    match goal with |- Z2 _ _ _ ?s _ /\ _ =>
      destruct (Hrep Am1 A0 A1 k s (Hsh _ _ HM) HA0 HA1 Hfac eq_refl eq_refl eq_refl) as (HZ' & N1 & E1 & G0 & G1) end.
    split; [exact HZ'|]. cbn [s_A] in N1, E1 |- *. rewrite N1, E1, N0, E0. split; [exact Hn|]. split; [exact He|].
    destruct left; [rewrite G1|rewrite G0]; exact Hiso.
  Qed.

  (* ---- one-site evolution of the centre (the backward step) ---- *)
  Lemma evolve_site_step (st : sw R) j c : Zi st j ->
    ttr2_ok (s_tr (evolve_site kexp Hs dt hdt st j c)) ->
    let st' := evolve_site kexp Hs dt hdt st j c in
    Zi st' j /\ NNi (s_A st') = NNi (s_A st) /\ EEi (s_A st') = EEi (s_A st).
  Proof.
    intros HZ Hok. unfold evolve_site in *. cbn [s_tr] in Hok. destruct Hok as [Hc _].
    unfold tdvp2_call_ok in Hc. cbn [t_call c_kind c_site c_coef t_envs t_ten t_qs] in Hc.
    cbv zeta. apply (evolve_center R Hs d DsW Hd HWs HhW st _ j _ HZ Hc); reflexivity.
  Qed.

  (* ---- the three loop bodies ---- *)
  Lemma tdvp2_lr_step (st : sw R) i : Zi st i -> S i < L ->
    ttr2_ok (s_tr (tdvp2_lr split kexp Hs qd dt hdt st i)) ->
    let st' := tdvp2_lr split kexp Hs qd dt hdt st i in
    Zi st' (S i) /\ NNi (s_A st') = NNi (s_A st) /\ EEi (s_A st') = EEi (s_A st).
  Proof.
    intros HZ HSi Hok. unfold tdvp2_lr in *.
    set (st1 := tdvp2_pair split kexp Hs qd dt hdt st i 1 false) in *.
    assert (Hok2 : ttr2_ok (s_tr (upd_BL Hs st1 i))) by (unfold evolve_site in Hok; cbn [s_tr] in Hok; exact (proj2 Hok)).
    assert (Hok1 : ttr2_ok (s_tr st1)) by (unfold upd_BL in Hok2; cbn [s_tr] in Hok2; exact (proj2 Hok2)).
    destruct (tdvp2_pair_step st i 1 false (Z_Z2_left R Hs d DsW Hd HhW st i HZ HSi) Hok1) as (HZ1 & N1 & E1 & Hiso). fold st1 in HZ1, N1, E1, Hiso.
    assert (HZ2 : Zi (upd_BL Hs st1 i) (S i)) by (apply (Z2_to_right R Hs d DsW Hd HhW st1 _ i HZ1 Hiso); reflexivity).
    destruct (evolve_site_step (upd_BL Hs st1 i) (S i) (-1) HZ2 Hok) as (HZ3 & N3 & E3).
    split; [exact HZ3|]. rewrite N3, E3. cbn [upd_BL s_A]. split; assumption.
  Qed.

  Lemma tdvp2_mid_step (st : sw R) i : Zi st i -> S i < L ->
    ttr2_ok (s_tr (tdvp2_mid split kexp Hs qd dt hdt st i)) ->
    let st' := tdvp2_mid split kexp Hs qd dt hdt st i in
    Zi st' i /\ NNi (s_A st') = NNi (s_A st) /\ EEi (s_A st') = EEi (s_A st).
  Proof.
    intros HZ HSi Hok. unfold tdvp2_mid in *.
    set (st1 := tdvp2_pair split kexp Hs qd dt hdt st i 2 true) in *.
    assert (Hok1 : ttr2_ok (s_tr st1)) by (unfold upd_BR in Hok; cbn [s_tr] in Hok; exact (proj2 Hok)).
    destruct (tdvp2_pair_step st i 2 true (Z_Z2_left R Hs d DsW Hd HhW st i HZ HSi) Hok1) as (HZ1 & N1 & E1 & Hiso). fold st1 in HZ1, N1, E1, Hiso.
    split; [apply (Z2_to_left R Hs d DsW Hd HhW st1 _ i HZ1 Hiso); [reflexivity|reflexivity|apply upd_BR_S]|].
    cbn [upd_BR s_A]. split; assumption.
  Qed.

  Lemma tdvp2_rl_step (st : sw R) i : Zi st (S i) ->
    ttr2_ok (s_tr (tdvp2_rl split kexp Hs qd dt hdt st i)) ->
    let st' := tdvp2_rl split kexp Hs qd dt hdt st i in
    Zi st' i /\ NNi (s_A st') = NNi (s_A st) /\ EEi (s_A st') = EEi (s_A st).
  Proof.
    intros HZ Hok. unfold tdvp2_rl in *.
    set (st0 := evolve_site kexp Hs dt hdt st (S i) (-1)) in *.
    set (st1 := tdvp2_pair split kexp Hs qd dt hdt st0 i 1 true) in *.
    assert (Hok1 : ttr2_ok (s_tr st1)) by (unfold upd_BR in Hok; cbn [s_tr] in Hok; exact (proj2 Hok)).
    assert (Hok0 : ttr2_ok (s_tr st0)).
    { unfold st1, tdvp2_pair in Hok1. cbv zeta in Hok1. destruct (split _ _ _ _ _ _ _) as [[A0 A1] qb]. cbn [s_tr] in Hok1. exact (proj2 (proj2 Hok1)). }
    destruct (evolve_site_step st (S i) (-1) HZ Hok0) as (HZ0 & N0 & E0). fold st0 in HZ0, N0, E0.
    destruct (tdvp2_pair_step st0 i 1 true (Z_Z2_right R Hs d DsW Hd HhW st0 i HZ0) Hok1) as (HZ1 & N1 & E1 & Hiso). fold st1 in HZ1, N1, E1, Hiso.
    split; [apply (Z2_to_left R Hs d DsW Hd HhW st1 _ i HZ1 Hiso); [reflexivity|reflexivity|apply upd_BR_S]|].
    cbn [upd_BR s_A]. rewrite N1, E1. split; assumption.
  Qed.

  (* ---- trace suffixes ---- *)
  Lemma suf_tdvp2_lr st i : exists new, s_tr (tdvp2_lr split kexp Hs qd dt hdt st i) = new ++ s_tr st.
  Proof.
    unfold tdvp2_lr, evolve_site, upd_BL, tdvp2_pair. cbv zeta. destruct (split _ _ _ _ _ _ _) as [[A0 A1] qb]. cbn [s_tr].
    eexists [_; _; _; _]. reflexivity.
  Qed.
  Lemma suf_tdvp2_mid st i : exists new, s_tr (tdvp2_mid split kexp Hs qd dt hdt st i) = new ++ s_tr st.
  Proof.
    unfold tdvp2_mid, upd_BR, tdvp2_pair. cbv zeta. destruct (split _ _ _ _ _ _ _) as [[A0 A1] qb]. cbn [s_tr].
    eexists [_; _; _]. reflexivity.
  Qed.
  Lemma suf_tdvp2_rl st i : exists new, s_tr (tdvp2_rl split kexp Hs qd dt hdt st i) = new ++ s_tr st.
  Proof.
    unfold tdvp2_rl, upd_BR, tdvp2_pair. cbv zeta. destruct (split _ _ _ _ _ _ _) as [[A0 A1] qb]. cbn [s_tr].
    unfold evolve_site. cbn [s_tr]. eexists [_; _; _; _]. reflexivity.
  Qed.
  Lemma suf_tdvp2_step st : exists new, s_tr (tdvp2_step split kexp Hs qd dt hdt L st) = new ++ s_tr st.
  Proof.
    unfold tdvp2_step. cbv zeta.
    set (st1 := fold_left (tdvp2_lr split kexp Hs qd dt hdt) (seq 0 (L - 2)) st).
    destruct (fold_mono (@s_tr R) (tdvp2_lr split kexp Hs qd dt hdt) suf_tdvp2_lr (seq 0 (L - 2)) st) as [n1 E1]. fold st1 in E1.
    destruct (suf_tdvp2_mid st1 (L - 2)) as [n2 E2].
    destruct (fold_mono (@s_tr R) (tdvp2_rl split kexp Hs qd dt hdt) suf_tdvp2_rl (rev (seq 0 (L - 2))) (tdvp2_mid split kexp Hs qd dt hdt st1 (L - 2))) as [n3 E3].
    rewrite E3, E2, E1. exists (n3 ++ n2 ++ n1). rewrite <- !app_assoc. reflexivity.
  Qed.

  (* ---- one time step, any number of steps ---- *)
  Notation TPi := (TP R Hs d).

  Lemma tdvp2_step_run n0 e0 (st : sw R) : 2 <= L -> TPi n0 e0 0 st ->
    ttr2_ok (s_tr (tdvp2_step split kexp Hs qd dt hdt L st)) ->
    TPi n0 e0 0 (tdvp2_step split kexp Hs qd dt hdt L st).
  Proof.
    intros HL2 HT Hok. unfold tdvp2_step in *. cbv zeta in *.
    set (st1 := fold_left (tdvp2_lr split kexp Hs qd dt hdt) (seq 0 (L - 2)) st) in *.
    set (st2 := tdvp2_mid split kexp Hs qd dt hdt st1 (L - 2)) in *.
    assert (Hok2 : ttr2_ok (s_tr st2)).
    { destruct (fold_mono (@s_tr R) (tdvp2_rl split kexp Hs qd dt hdt) suf_tdvp2_rl (rev (seq 0 (L - 2))) st2) as [new E].
      rewrite E in Hok. exact (ttr2_ok_suffix _ _ Hok). }
    assert (Hok1 : ttr2_ok (s_tr st1)).
    { destruct (suf_tdvp2_mid st1 (L - 2)) as [new E]. fold st2 in E. rewrite E in Hok2. exact (ttr2_ok_suffix _ _ Hok2). }
    assert (H1 : TPi n0 e0 (0 + (L - 2)) st1).
    { unfold st1.
      apply (fold_up (@s_tr R) (tdvp2_lr split kexp Hs qd dt hdt) suf_tdvp2_lr ttr2_ok ttr2_ok_suffix (TPi n0 e0) (L - 2) 0 st HT Hok1).
      intros i s' Hi (HZ & HN & HE) Hoki. destruct (tdvp2_lr_step s' i HZ ltac:(lia) Hoki) as (HZ' & N' & E').
      split; [exact HZ'|]. split; congruence. }
    cbn [Nat.add] in H1.
    assert (H2 : TPi n0 e0 (L - 2) st2).
    { destruct H1 as (HZ & HN & HE). destruct (tdvp2_mid_step st1 (L - 2) HZ ltac:(lia) Hok2) as (HZ' & N' & E').
      fold st2 in HZ', N', E'. split; [exact HZ'|]. split; congruence. }
    apply (fold_down0 (@s_tr R) (tdvp2_rl split kexp Hs qd dt hdt) suf_tdvp2_rl ttr2_ok ttr2_ok_suffix (TPi n0 e0) (L - 2) st2 H2 Hok).
    intros i s' Hi (HZ & HN & HE) Hoki. destruct (tdvp2_rl_step s' i HZ Hoki) as (HZ' & N' & E').
    split; [exact HZ'|]. split; congruence.
  Qed.

  Lemma suf_tdvp2_iter n : forall st, exists new, s_tr (iter n (tdvp2_step split kexp Hs qd dt hdt L) st) = new ++ s_tr st.
  Proof.
    induction n as [|n IH]; intros st; cbn [iter]; [exists []; reflexivity|].
    destruct (IH (tdvp2_step split kexp Hs qd dt hdt L st)) as [n1 E1]. destruct (suf_tdvp2_step st) as [n2 E2].
    exists (n1 ++ n2). rewrite E1, E2, app_assoc. reflexivity.
  Qed.
  Lemma tdvp2_iter_run n0 e0 n : forall st, 2 <= L -> TPi n0 e0 0 st ->
    ttr2_ok (s_tr (iter n (tdvp2_step split kexp Hs qd dt hdt L) st)) ->
    TPi n0 e0 0 (iter n (tdvp2_step split kexp Hs qd dt hdt L) st).
  Proof.
    induction n as [|n IH]; intros st HL2 HT Hok; cbn [iter] in *; [exact HT|].
    apply IH; [exact HL2| |exact Hok]. apply tdvp2_step_run; [exact HL2|exact HT|].
    destruct (suf_tdvp2_iter n (tdvp2_step split kexp Hs qd dt hdt L st)) as [new E]. rewrite E in Hok. exact (ttr2_ok_suffix _ _ Hok).
  Qed.
End TDVP2.

Arguments ttr2_ok {R} split kexp Hs dt hdt d tr. Arguments tdvp2_call_ok {R} split kexp Hs dt hdt d p t.

Theorem tdvp2_run (R : cring) orth split kexp (H : mpo R) psi dt hdt n d DsW Ds0 A qD nrm tr :
  tdvp_twosite orth split kexp H psi dt hdt n = Some (A, qD, nrm, tr) ->
  mpo_shapeb d DsW (o_A H) = true -> mps_shapeb d Ds0 (m_A (fst (orth psi))) = true ->
  Forall right_iso (m_A (fst (orth psi))) ->
  ttr2_ok split kexp (o_A H) dt hdt d (rev tr) ->
  let L := length (o_A H) in
  2 <= L /\ nrm = snd (orth psi) /\
  dnorm2 d L A = k1 R /\
  denergy d L A (o_A H) = denergy d L (m_A (fst (orth psi))) (o_A H).
Proof.
  intros Hrun HH Hp Hiso Hok L.
  unfold tdvp_twosite in Hrun. destruct (Nat.ltb (length (o_A H)) 2) eqn:EL; [discriminate|]. apply Nat.ltb_ge in EL.
  destruct (sweep_init orth H psi) as [[st nrm']|] eqn:Einit; [|discriminate].
  assert (Hd : 0 < d).
  { unfold mpo_shapeb in HH. rewrite !andb_true_iff in HH. destruct HH as (((((HH0 & _) & _) & _) & _) & _). apply Nat.ltb_lt. exact HH0. }
  destruct (Z_init R d Hd orth H psi st nrm' DsW Ds0 Einit HH Hp Hiso) as (HZ & HN & Etr & Enrm & HWs & HhW).
  pose proof (mpo_shapeb_struct R d DsW (o_A H) HH) as HWst.
  pose proof (sweep_init_blocks R orth H psi st nrm' Einit) as (EA & _).
  injection Hrun as <- <- <- <-. rewrite rev_involutive in Hok.
  assert (HT : TP R (o_A H) d (k1 R) (EE R (o_A H) d (s_A st)) 0 st) by (split; [exact HZ|split; [exact HN|reflexivity]]).
  destruct (tdvp2_iter_run R split kexp (o_A H) (m_qd psi) dt hdt d DsW Hd HWs HhW HWst _ _ n st EL HT Hok) as (_ & N' & E').
  split; [exact EL|]. split; [exact Enrm|]. split; [exact N'|]. rewrite <- EA. exact E'.
Qed.

(* ======================= DMRG, two-site ======================= *)
Section DMRG2.
  Variable F : ofield.
  Add Field Ffield_sweeps2_run : (f_ft F).
  Notation K := (Cx F).
  Add Ring Kring_sweeps2_run : (k_rt (Cx F)).
  Variable qr : nat -> mx K -> list BinNums.Z -> list BinNums.Z -> mx K * mx K * list BinNums.Z.
  Variable split : nat -> site K -> list BinNums.Z -> list BinNums.Z -> list BinNums.Z -> list BinNums.Z -> bool -> site K * site K * list BinNums.Z.
  Variable keig : nat -> env K -> env K -> osite K -> site K -> K * site K.
  Variable Hs : list (osite K).
  Variable qd : list BinNums.Z.
  Variable d : nat.
  Variable DsW : list nat.
  Hypothesis Hd : 0 < d.
  Hypothesis HWs : ochain_ok (repeat d (length Hs)) DsW Hs.
  Hypothesis HhW : hd 0 DsW = 1.
  Hypothesis HWst : Forall (osite_struct d) Hs.
  Notation L := (length Hs).
  Notation Zi := (Z K Hs d).
  Notation Z2i := (Z2 K Hs d).
  Notation NNi := (NN K Hs d).
  Notation EEi := (EE K Hs d).
  Variable LB : K -> Prop.
  Hypothesis HLB : forall A : list (site K), NNi A = k1 K -> LB (EEi A).

  (* contracts of the calls recorded in a trace of two-site DMRG: Ritz contract for the merged problem, exact split, QR *)
  Definition dmrg2_call_ok (p : nat) (t : tcall K) : Prop :=
    let i := c_site (t_call t) in
    match c_kind (t_call t), t_envs t, t_ten t, t_qs t with
    | EIG2, [BL; BR], [Am], _ => keig_ok (d * d) BL BR (Hm Hs i) Am (keig p BL BR (Hm Hs i) Am)
    | SPLITL, _, [Am], [q0; q1; q2; q3] => split_ok d true Am (split p Am q0 q1 q2 q3 true)
    | SPLITR, _, [Am], [q0; q1; q2; q3] => split_ok d false Am (split p Am q0 q1 q2 q3 false)
    | QR, _, [[M]], [q0; q1] => qr_ok M (qr p M q0 q1)
    | _, _, _, _ => True
    end.
  Fixpoint rtr2_ok (tr : list (tcall K)) : Prop :=
    match tr with [] => True | t :: rest => dmrg2_call_ok (length rest) t /\ rtr2_ok rest end.
  Lemma rtr2_ok_suffix new old : rtr2_ok (new ++ old) -> rtr2_ok old.
  Proof. induction new as [|t new IH]; [exact (fun H => H)|]. cbn [app rtr2_ok]. intros [_ H]. exact (IH H). Qed.

  (* ---- merge, minimise, split ---- *)
  Lemma dmrg2_pair_step (se : sw K * K) i left e_in :
    Z2i (fst se) i -> NNi (s_A (fst se)) = k1 K -> fle F (cre (EEi (s_A (fst se)))) e_in ->
    rtr2_ok (s_tr (fst (dmrg2_pair split keig Hs qd se i left))) ->
    let se' := dmrg2_pair split keig Hs qd se i left in
    Z2i (fst se') i /\ NNi (s_A (fst se')) = k1 K /\ snd se' = EEi (s_A (fst se')) /\
    LB (snd se') /\ fle F (cre (snd se')) e_in /\
    (if left then right_iso (gA (fst se') (S i)) else left_iso (gA (fst se') i)).
  Proof.
    intros HZ HN He Hok. unfold dmrg2_pair in *. cbv zeta in *. destruct se as [st en0]. cbn [fst snd] in *.
    set (Am := c04_merge_site (gA st i) (gA st (S i))) in *.
    set (W2 := c04_merge_osite (nth i Hs []) (nth (S i) Hs [])) in *.
    destruct (keig (length (s_tr st)) (gBL st i) (gBR st (S i)) W2 Am) as [en Am1] eqn:Ek.
    destruct (split (S (length (s_tr st))) Am1 qd qd (gq st i) (gq st (S (S i))) left) as [[A0 A1] qb] eqn:Es.
    cbn [fst snd s_tr] in *. destruct Hok as (HcS & HcK & _).
    unfold dmrg2_call_ok in HcK. cbn [t_call c_kind c_site c_coef t_envs t_ten t_qs length] in HcK.
    change (Hm Hs i) with W2 in HcK. rewrite Ek in HcK.
    assert (HS : split_ok d left Am1 (A0, A1, qb)).
    { unfold dmrg2_call_ok in HcS. destruct left; cbn [t_call c_kind c_site c_coef t_envs t_ten t_qs length] in HcS; rewrite Es in HcS; exact HcS. }
    clear HcS.
    destruct (Z2_center K Hs d DsW Hd HWs HhW HWst st i HZ) as (Dl & Dr & HM & N0 & E0 & Hrep). fold Am in HM, N0, E0.
    destruct HcK as (Hsh & Hn1 & Hval & Hritz). cbn [fst snd] in *.
    destruct (HS Dl Dr (Hsh _ _ HM)) as (k & HA0 & HA1 & Hfac & Hiso). cbn [fst snd] in *.
    match goal with |- Z2 _ _ _ ?s _ /\ _ =>
      destruct (Hrep Am1 A0 A1 k s (Hsh _ _ HM) HA0 HA1 Hfac eq_refl eq_refl eq_refl) as (HZ' & N1 & E1 & G0 & G1) end.
    cbn [s_A] in N1, E1 |- *. split; [exact HZ'|]. rewrite N1, E1. split; [exact Hn1|].
    unfold heff2. fold W2. change (Hm Hs i) with W2. split; [exact Hval|].
    split.
    - rewrite Hval. unfold heff2 in E1. change (Hm Hs i) with W2 in E1. unfold alh in *. rewrite <- E1. apply HLB. rewrite N1. exact Hn1.
    - split; [|destruct left; [rewrite G1|rewrite G0]; exact Hiso].
      unfold heff2 in E0. change (Hm Hs i) with W2 in E0. unfold alh in *.
      rewrite <- N0, HN, cre_one, <- E0 in Hritz.
      eapply fle_trans; [|exact He]. eapply fle_eq; [| reflexivity | exact Hritz]. ring.
  Qed.

  Notation Prei := (Pre F Hs d).
  Notation PPi := (PP F Hs d LB).

  Lemma PP_Pre2 e_in i se : PPi e_in i se -> Prei e_in i se.
  Proof. intros (H1 & H2 & H3 & _ & H5). split; [exact H1|]. split; [exact H2|]. rewrite <- H3. exact H5. Qed.

  Lemma dmrg2_lr_body e_in se i : Prei e_in i se -> S i < L ->
    rtr2_ok (s_tr (fst (dmrg2_lr split keig Hs qd se i))) -> PPi e_in (S i) (dmrg2_lr split keig Hs qd se i).
  Proof.
    intros (HZ & HN & He) HSi Hok. unfold dmrg2_lr, lift in *. cbn [fst snd] in *.
    assert (Hok1 : rtr2_ok (s_tr (fst (dmrg2_pair split keig Hs qd se i false)))) by (unfold upd_BL in Hok; cbn [s_tr] in Hok; exact (proj2 Hok)).
    destruct (dmrg2_pair_step se i false e_in (Z_Z2_left K Hs d DsW Hd HhW (fst se) i HZ HSi) HN He Hok1) as (HZ1 & HN1 & Hs1 & Hl1 & He1 & Hiso).
    unfold PP. cbn [fst snd upd_BL s_A].
    split; [apply (Z2_to_right K Hs d DsW Hd HhW _ _ i HZ1 Hiso); reflexivity|]. auto.
  Qed.

  (* right-to-left body, entered with the two-site invariant (centre on either site of the pair) *)
  Lemma dmrg2_rl_body2 e_in se i : Z2i (fst se) i -> NNi (s_A (fst se)) = k1 K -> fle F (cre (EEi (s_A (fst se)))) e_in ->
    rtr2_ok (s_tr (fst (dmrg2_rl split keig Hs qd se i))) -> PPi e_in i (dmrg2_rl split keig Hs qd se i).
  Proof.
    intros HZ HN He Hok. unfold dmrg2_rl, lift in *. cbn [fst snd] in *.
    assert (Hok1 : rtr2_ok (s_tr (fst (dmrg2_pair split keig Hs qd se i true)))) by (unfold upd_BR in Hok; cbn [s_tr] in Hok; exact (proj2 Hok)).
    destruct (dmrg2_pair_step se i true e_in HZ HN He Hok1) as (HZ1 & HN1 & Hs1 & Hl1 & He1 & Hiso).
    unfold PP. cbn [fst snd].
    split; [apply (Z2_to_left K Hs d DsW Hd HhW _ _ i HZ1 Hiso); [reflexivity|reflexivity|apply upd_BR_S]|]. cbn [upd_BR s_A]. auto.
  Qed.

  (* ---- trace suffixes ---- *)
  Lemma suf_dmrg2_lr se i : exists new, s_tr (fst (dmrg2_lr split keig Hs qd se i)) = new ++ s_tr (fst se).
  Proof.
    unfold dmrg2_lr, lift, upd_BL, dmrg2_pair. cbv zeta. destruct (keig _ _ _ _ _) as [en A1]. destruct (split _ _ _ _ _ _ _) as [[A0 A1'] qb].
    cbn [fst snd s_tr]. eexists [_; _; _]. reflexivity.
  Qed.
  Lemma suf_dmrg2_rl se i : exists new, s_tr (fst (dmrg2_rl split keig Hs qd se i)) = new ++ s_tr (fst se).
  Proof.
    unfold dmrg2_rl, lift, upd_BR, dmrg2_pair. cbv zeta. destruct (keig _ _ _ _ _) as [en A1]. destruct (split _ _ _ _ _ _ _) as [[A0 A1'] qb].
    cbn [fst snd s_tr]. eexists [_; _; _]. reflexivity.
  Qed.

  (* ---- the final normalising QR of a sweep: Proofs/SweepsRun.v final_step, whose contract hypothesis only concerns the
          QR call itself, applied to the state with an inert trace of the same length ---- *)
  Definition inert : tcall K := mkt (mkcall STL 0 0) [] [] [].
  Lemma rtr_ok_inert n : rtr_ok qr keig Hs d (repeat inert n).
  Proof. induction n as [|n IH]; [exact I|]. cbn [repeat rtr_ok]. split; [exact I|exact IH]. Qed.
  Lemma final_step2 (st : sw K) : Zi st 0 -> NNi (s_A st) = k1 K ->
    rtr2_ok (s_tr (dmrg_final_qr qr qd st)) ->
    let st' := dmrg_final_qr qr qd st in
    Zi st' 0 /\ NNi (s_A st') = k1 K /\ EEi (s_A st') = EEi (s_A st).
  Proof.
    destruct st as [A q BL BR tr]. intros HZ HN Hok.
    pose (st0 := mksw A q BL BR (repeat inert (length tr))).
    assert (HZ0 : Zi st0 0) by exact HZ.
    pose proof (final_step F qr keig Hs qd d DsW Hd HWs HhW st0 HZ0 HN) as Hfin.
    unfold st0, dmrg_final_qr, qr_right, gA, gq in *. cbv zeta in *. cbn [s_A s_qD s_BL s_BR s_tr] in *. rewrite repeat_length in Hfin.
    revert Hok Hfin. destruct (qr _ _ _ _) as [[Q C] qb]. cbn [s_A s_qD s_BL s_BR s_tr]. intros Hok Hfin.
    destruct Hok as (Hc & _).
    lapply Hfin; [intros (HZ' & HN' & HE'); split; [exact HZ'|split; [exact HN'|exact HE']]|].
    split; [|apply rtr_ok_inert].
    unfold dmrg2_call_ok in Hc. unfold dmrg_call_ok. cbn [at_site t_call c_kind c_site t_envs t_ten t_qs] in *. rewrite repeat_length.
    exact Hc.
  Qed.

  (* ---- one sweep (L >= 2) ---- *)
  Lemma sweep2_step (st : sw K) : 2 <= L -> Zi st 0 -> NNi (s_A st) = k1 K ->
    rtr2_ok (s_tr (fst (dmrg2_sweep qr split keig Hs qd L st))) ->
    PPi (cre (EEi (s_A st))) 0 (dmrg2_sweep qr split keig Hs qd L st).
  Proof.
    intros HL2 HZ HN Hok. set (e_in := cre (EEi (s_A st))). unfold dmrg2_sweep, lift in *. cbv zeta in *. cbn [fst snd] in *.
    set (se1 := fold_left (dmrg2_lr split keig Hs qd) (seq 0 (L - 2)) (st, k0 K)) in *.
    replace (L - 1) with (S (L - 2)) in * by lia. rewrite seq_S, rev_app_distr in *. cbn [rev app fold_left Nat.add] in *.
    set (sem := dmrg2_rl split keig Hs qd se1 (L - 2)) in *.
    set (se2 := fold_left (dmrg2_rl split keig Hs qd) (rev (seq 0 (L - 2))) sem) in *.
    assert (Hok2 : rtr2_ok (s_tr (fst se2))).
    { revert Hok. generalize (fst se2) as st2. intros st2. unfold dmrg_final_qr, qr_right. cbv zeta.
      destruct (qr _ _ _ _) as [[Q C] qb]. cbn [s_tr]. intros (_ & H). exact H. }
    assert (Hokm : rtr2_ok (s_tr (fst sem))).
    { destruct (fold_mono (fun se => s_tr (fst se)) (dmrg2_rl split keig Hs qd) suf_dmrg2_rl (rev (seq 0 (L - 2))) sem) as [new E].
      fold se2 in E. rewrite E in Hok2. exact (rtr2_ok_suffix _ _ Hok2). }
    assert (Hok1 : rtr2_ok (s_tr (fst se1))).
    { destruct (suf_dmrg2_rl se1 (L - 2)) as [new E]. fold sem in E. rewrite E in Hokm. exact (rtr2_ok_suffix _ _ Hokm). }
    (* left-to-right *)
    assert (H1 : Prei e_in (0 + (L - 2)) se1).
    { unfold se1.
      apply (fold_up (fun se => s_tr (fst se)) (dmrg2_lr split keig Hs qd) suf_dmrg2_lr rtr2_ok rtr2_ok_suffix
               (fun i se => Prei e_in i se) (L - 2) 0 (st, k0 K)).
      - split; [exact HZ|]. split; [exact HN|]. apply fle_refl.
      - exact Hok1.
      - intros i s' Hi Hpre Hoki. apply PP_Pre2. apply (dmrg2_lr_body e_in s' i Hpre ltac:(lia) Hoki). }
    cbn [Nat.add] in H1.
    (* the rightmost pair: centre on its left site *)
    assert (Hm1 : PPi e_in (L - 2) sem).
    { destruct H1 as (HZ1 & HN1 & He1). apply (dmrg2_rl_body2 e_in se1 (L - 2)); try assumption.
      apply (Z_Z2_left K Hs d DsW Hd HhW); [exact HZ1|lia]. }
    (* right-to-left: centre on the right site of each pair *)
    assert (H2 : PPi e_in 0 se2).
    { unfold se2.
      apply (fold_down0 (fun se => s_tr (fst se)) (dmrg2_rl split keig Hs qd) suf_dmrg2_rl rtr2_ok rtr2_ok_suffix
               (fun i se => PPi e_in i se) (L - 2) sem Hm1 Hok2).
      intros i s' Hi Hpp Hoki. destruct (PP_Pre2 _ _ _ Hpp) as (HZs & HNs & Hes).
      apply (dmrg2_rl_body2 e_in s' i); try assumption. apply (Z_Z2_right K Hs d DsW Hd HhW). exact HZs. }
    destruct H2 as (HZ2 & HN2 & Hs2 & Hl2 & He2).
    destruct (final_step2 (fst se2) HZ2 HN2 Hok) as (HZ3 & HN3 & HE3).
    unfold PP. cbn [fst snd]. split; [exact HZ3|]. split; [exact HN3|]. split; [rewrite HE3; exact Hs2|]. split; assumption.
  Qed.

  (* ---- all sweeps ---- *)
  Lemma suf_dmrg2_sweep st : exists new, s_tr (fst (dmrg2_sweep qr split keig Hs qd L st)) = new ++ s_tr st.
  Proof.
    unfold dmrg2_sweep, lift. cbv zeta. cbn [fst].
    set (se1 := fold_left (dmrg2_lr split keig Hs qd) (seq 0 (L - 2)) (st, k0 K)).
    set (se2 := fold_left (dmrg2_rl split keig Hs qd) (rev (seq 0 (L - 1))) se1).
    destruct (fold_mono (fun se => s_tr (fst se)) (dmrg2_lr split keig Hs qd) suf_dmrg2_lr (seq 0 (L - 2)) (st, k0 K)) as [n1 E1].
    destruct (fold_mono (fun se => s_tr (fst se)) (dmrg2_rl split keig Hs qd) suf_dmrg2_rl (rev (seq 0 (L - 1))) se1) as [n2 E2].
    fold se1 in E1. fold se2 in E2. cbn [fst] in E1.
    unfold dmrg_final_qr, qr_right. cbv zeta. destruct (qr _ _ _ _) as [[Q C] qb]. cbn [s_tr].
    rewrite E2, E1. eexists (_ :: n2 ++ n1). cbn [app]. rewrite app_assoc. reflexivity.
  Qed.
  Lemma suf_dmrg2_loop n : forall st ens, exists new, s_tr (fst (dmrg_loop (dmrg2_sweep qr split keig Hs qd L) n st ens)) = new ++ s_tr st.
  Proof.
    induction n as [|n IH]; intros st ens; cbn [dmrg_loop]; [exists []; reflexivity|].
    destruct (suf_dmrg2_sweep st) as [n1 E1]. destruct (dmrg2_sweep qr split keig Hs qd L st) as [st' en]. cbn [fst] in E1.
    destruct (IH st' (ens ++ [en])) as [n2 E2]. exists (n2 ++ n1). rewrite E2, E1, app_assoc. reflexivity.
  Qed.

  Notation Goodi := (Good F Hs d LB).

  Lemma loop2_run e0 n : forall st ens, 2 <= L -> Zi st 0 -> NNi (s_A st) = k1 K -> Goodi e0 st ens ->
    rtr2_ok (s_tr (fst (dmrg_loop (dmrg2_sweep qr split keig Hs qd L) n st ens))) ->
    let r := dmrg_loop (dmrg2_sweep qr split keig Hs qd L) n st ens in
    Zi (fst r) 0 /\ NNi (s_A (fst r)) = k1 K /\ Goodi e0 (fst r) (snd r).
  Proof.
    induction n as [|n IH]; intros st ens HL2 HZ HN HG Hok; cbn [dmrg_loop] in *; [cbn [fst snd]; auto|].
    assert (Hok1 : rtr2_ok (s_tr (fst (dmrg2_sweep qr split keig Hs qd L st)))).
    { revert Hok. destruct (dmrg2_sweep qr split keig Hs qd L st) as [st' en]. cbn [fst]. intros Hok.
      destruct (suf_dmrg2_loop n st' (ens ++ [en])) as [new E]. rewrite E in Hok. exact (rtr2_ok_suffix _ _ Hok). }
    pose proof (sweep2_step st HL2 HZ HN Hok1) as Hpp.
    destruct (dmrg2_sweep qr split keig Hs qd L st) as [st' en]. destruct Hpp as (HZ' & HN' & Hs' & Hl' & He'). cbn [fst snd] in *.
    destruct HG as (G1 & G2 & G3 & G4).
    apply IH; try assumption.
    assert (Hle : fle F (cre en) e0) by (eapply fle_trans; [exact He'|exact G1]).
    split; [rewrite <- Hs'; exact Hle|].
    split; [apply Forall_app; split; [exact G2|constructor; [split; assumption|constructor]]|].
    split.
    - apply noninc_snoc; [exact G3|]. destruct ens as [|a t]; [left; reflexivity|right]. rewrite G4 by discriminate. exact He'.
    - intros _. rewrite last_last. exact Hs'.
  Qed.
End DMRG2.

Arguments rtr2_ok {F} qr split keig Hs d tr. Arguments dmrg2_call_ok {F} qr split keig Hs d p t.

Theorem dmrg2_run_gen (F : ofield) orth qr split keig (H : mpo (Cx F)) psi n d DsW Ds0 (LB : Cx F -> Prop) A qD ens tr :
  dmrg_twosite orth qr split keig H psi n = Some (A, qD, ens, tr) ->
  mpo_shapeb d DsW (o_A H) = true -> mps_shapeb d Ds0 (m_A (fst (orth psi))) = true ->
  Forall right_iso (m_A (fst (orth psi))) ->
  2 <= length (o_A H) ->
  (forall B : list (site (Cx F)), dnorm2 d (length (o_A H)) B = k1 (Cx F) -> LB (denergy d (length (o_A H)) B (o_A H))) ->
  rtr2_ok qr split keig (o_A H) d (rev tr) ->
  let L := length (o_A H) in
  let E0 := denergy d L (m_A (fst (orth psi))) (o_A H) in
  dnorm2 d L A = k1 (Cx F) /\ length ens = n /\
  Forall (fun e => LB e /\ fle F (cre e) (cre E0)) ens /\ noninc ens /\
  (ens <> [] -> last ens (k0 (Cx F)) = denergy d L A (o_A H)).
Proof.
  intros Hrun HH Hp Hiso HL2 HLB Hok L E0.
  assert (Hlen : length ens = n) by (apply (dmrg2_trace (Cx F) orth qr split keig H psi n A qD ens tr Hrun)).
  unfold dmrg_twosite in Hrun. destruct (sweep_init orth H psi) as [[st nrm]|] eqn:Einit; [|discriminate].
  assert (Hd : 0 < d).
  { unfold mpo_shapeb in HH. rewrite !andb_true_iff in HH. destruct HH as (((((HH & _) & _) & _) & _) & _). apply Nat.ltb_lt. exact HH. }
  destruct (Z_init (Cx F) d Hd orth H psi st nrm DsW Ds0 Einit HH Hp Hiso) as (HZ & HN & Etr & _ & HWs & HhW).
  pose proof (mpo_shapeb_struct (Cx F) d DsW (o_A H) HH) as HWst.
  pose proof (sweep_init_blocks (Cx F) orth H psi st nrm Einit) as (EA & _).
  destruct (dmrg_loop (dmrg2_sweep qr split keig (o_A H) (m_qd psi) (length (o_A H))) n st []) as [st' ens'] eqn:El.
  injection Hrun as <- <- <- <-. rewrite rev_involutive in Hok.
  assert (HG : Good F (o_A H) d LB (cre E0) st []).
  { split; [unfold E0, L; rewrite <- EA; apply fle_refl|]. split; [constructor|]. split; [exact I|]. intros C; exfalso; apply C; reflexivity. }
  pose proof (loop2_run F qr split keig (o_A H) (m_qd psi) d DsW Hd HWs HhW HWst LB HLB (cre E0) n st [] HL2 HZ HN HG) as Hrunl.
  rewrite El in Hrunl. cbn [fst snd] in Hrunl. destruct (Hrunl Hok) as (HZ' & HN' & (G1 & G2 & G3 & G4)).
  split; [exact HN'|]. split; [exact Hlen|]. split; [exact G2|]. split; [exact G3|exact G4].
Qed.

Theorem dmrg2_run (F : ofield) orth qr split keig (H : mpo (Cx F)) psi n d DsW Ds0 lam A qD ens tr :
  dmrg_twosite orth qr split keig H psi n = Some (A, qD, ens, tr) ->
  mpo_shapeb d DsW (o_A H) = true -> mps_shapeb d Ds0 (m_A (fst (orth psi))) = true ->
  Forall right_iso (m_A (fst (orth psi))) ->
  2 <= length (o_A H) -> bounded_below d (length (o_A H)) (o_A H) lam ->
  rtr2_ok qr split keig (o_A H) d (rev tr) ->
  let L := length (o_A H) in
  let E0 := denergy d L (m_A (fst (orth psi))) (o_A H) in
  dnorm2 d L A = k1 (Cx F) /\ length ens = n /\
  Forall (fun e => fle F lam (cre e) /\ fle F (cre e) (cre E0)) ens /\ noninc ens /\
  (ens <> [] -> last ens (k0 (Cx F)) = denergy d L A (o_A H)).
Proof.
  intros Hrun HH Hp Hiso HL2 Hlam Hok.
  apply (dmrg2_run_gen F orth qr split keig H psi n d DsW Ds0 (fun e => fle F lam (cre e)) A qD ens tr); try assumption.
  intros B HB. pose proof (Hlam (amp B)) as Hb.
  change (fle F (fmul F lam (cre (dnorm2 d (length (o_A H)) B))) (cre (denergy d (length (o_A H)) B (o_A H)))) in Hb.
  rewrite HB in Hb. eapply fle_eq; [| reflexivity | exact Hb]. cbn [cre fst k1 K Cx].
  destruct (f_ft F) as [Rth _ _ _]. rewrite (Rmul_comm Rth), (Rmul_1_l Rth). reflexivity.
Qed.
