(* C05: the headline with the length clause — well-formed chains, the proved model of minimum_vertex_cover:
   Ok g, linked, the consistency check cannot fail, glength g = Some L, den g = chain sum. *)
From Coq Require Import ZArith List Lia Bool.
From PT Require Import Base.Scalar Base.BigSum Model.OpGraph Model.FromOpchains
                       Proofs.DenRev_C05 Proofs.C05Total Proofs.FromOpchainsLen.
Import ListNotations.
Open Scope Z_scope.

Theorem from_opchains_total_model_len (R : cring) (chains : list (chain R)) L idn :
  wf_chains L chains = true -> (1 <= L)%nat ->
  exists g, from_opchains cover_model chains L idn = Ok g /\ linked g = true /\
            (forall fuel b, is_consistent_fuel fuel g = Some b -> b = true) /\
            glength g = Some L /\
            forall w, den g w = chains_den L idn chains w.
Proof.
  intros Hwf HL. destruct (from_opchains_total_model_cons R chains L idn Hwf HL) as [g [Hg [Hl [Hc Hd]]]].
  exists g. split; [exact Hg|]. split; [exact Hl|]. split; [exact Hc|]. split; [|exact Hd].
  apply (from_opchains_glength R cover_model chains L idn g HL Hg).
Qed.
