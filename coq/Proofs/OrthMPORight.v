(* C13 — MPO.orthonormalize(mode='right'): [orth_right_spec] transported through the view p = s*d + t
   (same argument as Proofs/OrthMPO.v). *)
From Coq Require Import ZArith List Bool Lia Arith Ring.
From PT Require Import Base.Scalar Base.Field Base.BigSum Base.Mx Model.Tensor Model.BondOps Model.Orthonormalize.
From PT Require Import Proofs.BondOpsPerm Proofs.BondOpsLoop Proofs.BondOpsSpec Proofs.MPSOpsBase Proofs.MPSOpsShape Proofs.MPSOpsMul.
From PT Require Import Proofs.OrthDefs Proofs.OrthQRExtra Proofs.OrthGram Proofs.OrthLocal Proofs.OrthSweep Proofs.OrthTop.
From PT Require Import Proofs.OrthRight Proofs.OrthMPO.
Import ListNotations.

Section MPORight.
  Variable F : ofield.
  Notation CF := (Cx F).
  Variable dqr : mx CF -> mx CF * mx CF.

  Theorem mpo_orth_right_spec (o : mpo CF) (d : nat) :
    1 <= d -> length (o_qd o) = d -> o_A o <> [] -> mpo_ok o = true ->
    length (hd [] (o_qD o)) = 1 -> length (last (o_qD o) []) = 1 ->
    Forall (fun q => 1 <= length q) (o_qD o) ->
    Forall (qr_call_ok F dqr) (mpo_orth_calls dqr false o) ->
    exists o' nrm, mpo_orthonormalize dqr false o = Some (o', nrm) /\
      o_qd o' = o_qd o /\ length (o_A o') = length (o_A o) /\ mpo_ok o' = true /\
      last (o_qD o') [] = last (o_qD o) [] /\ length (hd [] (o_qD o')) = 1 /\
      Forall (fun q => 1 <= length q) (o_qD o') /\
      bond_bound (d * d) (rev (lens (o_qD o'))) (rev (lens (o_qD o))) /\
      chain_riso (lens (o_qD o')) (map oview (o_A o')) /\
      fle F (f0 F) nrm /\
      (forall w w', length w = length (o_A o) -> length w' = length (o_A o) -> letters d w -> letters d w' ->
         opamp (o_A o) w w' = kmul CF (cof nrm) (opamp (o_A o') w w')) /\
      norm2 (d * d) (map oview (o_A o)) = cof (fmul F nrm nrm) /\
      norm2 (d * d) (map oview (o_A o')) = k1 CF.
  Proof.
    intros Hd Lqd Hne Hok Hfirst Hlast Hpos Hcalls.
    assert (Hosh : ochain_shape d (lens (o_qD o)) (o_A o) = true).
    { unfold mpo_ok in Hok. apply andb_true_iff in Hok. rewrite Lqd in Hok. exact (proj1 Hok). }
    assert (Lqv : length (m_qd (mpo_view o)) = d * d).
    { cbn [mpo_view m_qd]. rewrite qflat_length, zneg_length, Lqd. reflexivity. }
    destruct (orth_right_spec F dqr (mpo_view o) (d * d)) as
      (p' & nrm & E & Eqd & Hlen & Hok2 & Hlst & Hhd2 & Hpos2 & Hbb & Hiso & Hnn & Hamp & Hn & Hn1).
    - nia.
    - exact Lqv.
    - cbn [mpo_view m_A]. intros E. apply map_eq_nil in E. contradiction.
    - apply mps_ok_view. exact Hok.
    - exact Hfirst.
    - exact Hlast.
    - exact Hpos.
    - exact Hcalls.
    - cbn [mpo_view m_qd m_qD m_A] in Eqd, Hlen, Hlst, Hbb, Hamp, Hn. rewrite map_length in Hlen, Hamp.
      assert (Hlens : Forall (fun A => length A = d * d) (m_A p')).
      { unfold mps_ok in Hok2. apply andb_true_iff in Hok2. destruct Hok2 as [Hs _].
        rewrite Eqd, qflat_length, zneg_length, Lqd in Hs. exact (chain_shape_all_len CF (d * d) _ _ Hs). }
      assert (Hrt : map oview (o_A (mpo_unview (o_qd o) p')) = m_A p').
      { cbn [mpo_unview o_A]. rewrite Lqd. apply map_oview_ounview. exact Hlens. }
      exists (mpo_unview (o_qd o) p'), nrm.
      split. { unfold mpo_orthonormalize. rewrite E. reflexivity. }
      split; [reflexivity|].
      split. { cbn [mpo_unview o_A]. rewrite map_length. exact Hlen. }
      split. { apply mpo_ok_unview; assumption. }
      rewrite Hrt.
      split; [exact Hlst|]. split; [exact Hhd2|]. split; [exact Hpos2|]. split; [exact Hbb|]. split; [exact Hiso|].
      split; [exact Hnn|].
      split; [|split; [exact Hn|exact Hn1]].
      intros w w' Hlw Hlw' Hw Hw'.
      rewrite (opamp_view CF d (o_A o) _ w w' Hosh Hlw Hlw' Hw Hw').
      rewrite Hamp by (try (rewrite pairw_length; lia); apply pairw_letters; assumption).
      cbn [mpo_unview o_A]. rewrite Lqd. rewrite (opamp_unview CF d (m_A p') w w') by (try lia; assumption). reflexivity.
  Qed.
End MPORight.

Print Assumptions mpo_orth_right_spec.
