(* C17, "both graphs are consistent and of the requested length", shared part.
   [PW g lv]: the cross-reference half of C16's well-formedness [WF] (unique keys, duplicate-free edge-id lists,
   node <-> edge references in both directions, sorted opics) together with a level function [lv] that every
   edge raises by exactly one.  It is preserved by the two primitives from which from_automaton and from_optrees
   assemble their graphs: a fresh node without edges, and add_connect_edge between two existing nodes.
   [hasin]/[hasout] record that a node already owns an incoming / outgoing edge (monotone facts, from which "no
   dangling nodes" is obtained at the end).
   Assembly: PW + terminal levels 0 and L + all levels in 0..L + no dangling nodes  ==>  C16's [WF] (hence
   is_consistent never answers False) and [glength g = Some L]. *)
From Coq Require Import ZArith List Lia Bool Permutation.
From PT Require Import Base.Scalar Base.BigSum Model.OpGraph Model.Rewrites
                       Proofs.RewritesBase Proofs.RewritesOpics Proofs.RewritesConsistent.
Import ListNotations.
Open Scope Z_scope.

Lemma NoDup_snoc {A} (l : list A) (x : A) : NoDup l -> ~ In x l -> NoDup (l ++ [x]).
Proof.
  intros Hl Hx. induction l as [|y t IH]; simpl.
  - constructor; [intros []|constructor].
  - inversion Hl; subst. constructor.
    + rewrite in_app_iff. simpl. intros [H|[H|[]]]; [auto|]. subst. apply Hx. left; reflexivity.
    + apply IH; auto. intros H. apply Hx. right; exact H.
Qed.

Section LenBase.
  Variable R : cring.
  Notation graph := (graph R).
  Notation gedge := (gedge R).

  Lemma new_edge_sorted eid a b (l : list (Z * R)) : sorted_opics (e_opics (new_edge eid a b l)) = true.
  Proof.
    unfold new_edge. cbn [e_opics]. unfold opics_norm. apply opics_sort_sorted. apply opics_fold_nodup. constructor.
  Qed.

  Record PW (g : graph) (lv : Z -> Z) : Prop := mkPW {
    pw_nids : NoDup (nids R g);
    pw_eids : NoDup (eids R g);
    pw_ref0 : RefOK R g 0;
    pw_ref1 : RefOK R g 1;
    pw_sorted : forall e, In e (g_edges g) -> sorted_opics (e_opics e) = true;
    pw_lev : forall e, In e (g_edges g) -> lv (e_to e) = lv (e_from e) + 1 }.

  Lemma pw_ref (g : graph) lv d : PW g lv -> (d <= 1)%nat -> RefOK R g d.
  Proof. intros W Hd. destruct d as [|[|d]]; [apply W|apply W|lia]. Qed.

  Lemma PW_ends (g : graph) lv e : PW g lv -> In e (g_edges g) -> In (e_from e) (nids R g) /\ In (e_to e) (nids R g).
  Proof.
    intros W He. split.
    - destruct (pw_ref0 g lv W) as [_ [_ R3]]. destruct (R3 e He) as [n [Hn [Hid _]]]. cbn [end_d] in Hid.
      rewrite <- Hid. apply in_map. exact Hn.
    - destruct (pw_ref1 g lv W) as [_ [_ R3]]. destruct (R3 e He) as [n [Hn [Hid _]]]. cbn [end_d] in Hid.
      rewrite <- Hid. apply in_map. exact Hn.
  Qed.

  Lemma PW_lv_ext (g : graph) lv lv' : PW g lv -> (forall x, In x (nids R g) -> lv' x = lv x) -> PW g lv'.
  Proof.
    intros W Hag. destruct W as [A B C D E F]. constructor; auto.
    intros e He. destruct (PW_ends g lv e (mkPW g lv A B C D E F) He) as [H1 H2].
    rewrite (Hag _ H1), (Hag _ H2). apply F. exact He.
  Qed.

  Lemma In_nids (g : graph) x : In x (nids R g) <-> exists n, In n (g_nodes g) /\ n_id n = x.
  Proof. unfold nids. rewrite in_map_iff. split; intros [n [H1 H2]]; exists n; auto. Qed.
  Lemma In_nids_has (g : graph) x : In x (nids R g) <-> has_node g x = true.
  Proof. unfold has_node. rewrite (existsb_key n_id). reflexivity. Qed.
  Lemma In_eids_has (g : graph) x : In x (eids R g) <-> has_edge_id g x = true.
  Proof. unfold has_edge_id. rewrite (existsb_key (@e_id R)). reflexivity. Qed.

  (* ---------- a node already owns an incoming / outgoing edge ---------- *)
  Definition hasin (g : graph) (x : Z) : Prop := exists n, In n (g_nodes g) /\ n_id n = x /\ n_in n <> [].
  Definition hasout (g : graph) (x : Z) : Prop := exists n, In n (g_nodes g) /\ n_id n = x /\ n_out n <> [].
  (* the node carries no edge ids at all (the dummy end node of from_automaton) *)
  Definition isolated (g : graph) (x : Z) : Prop :=
    forall n, In n (g_nodes g) -> n_id n = x -> n_in n = [] /\ n_out n = [].

  Lemma hasin_nids (g : graph) x : hasin g x -> In x (nids R g).
  Proof. intros [n [H1 [H2 _]]]. apply In_nids. eauto. Qed.
  Lemma hasout_nids (g : graph) x : hasout g x -> In x (nids R g).
  Proof. intros [n [H1 [H2 _]]]. apply In_nids. eauto. Qed.

  (* ---------- primitive 1: a fresh node without edges ---------- *)
  Lemma add_node_PW (g g' : graph) lv nid q :
    PW g lv -> add_node g (mknode nid [] [] q) = Some g' ->
    PW g' lv /\ ~ In nid (nids R g) /\ nids R g' = nids R g ++ [nid] /\
    g_nodes g' = g_nodes g ++ [mknode nid [] [] q] /\ g_edges g' = g_edges g /\
    g_t0 g' = g_t0 g /\ g_t1 g' = g_t1 g.
  Proof.
    intros W H. unfold add_node in H. cbn [n_id] in H.
    destruct (has_node g nid) eqn:Hn; [discriminate|]. inversion H; subst g'; clear H.
    assert (Hfresh : ~ In nid (nids R g)).
    { intros Hin. apply In_nids_has in Hin. congruence. }
    assert (Hids : nids R (mkgraph (g_nodes g ++ [mknode nid [] [] q]) (g_edges g) (g_t0 g) (g_t1 g)) = nids R g ++ [nid]).
    { unfold nids. cbn [g_nodes]. rewrite map_app. reflexivity. }
    split; [|repeat split; auto].
    destruct W as [A B C D E F]. constructor; auto.
    - rewrite Hids. apply NoDup_snoc; assumption.
    - destruct C as [C1 [C2 C3]]. split; [|split]; cbn [g_nodes g_edges].
      + intros n Hn'. apply in_app_or in Hn'. destruct Hn' as [Hn'|[<-|[]]]; [apply C1; exact Hn'|constructor].
      + intros n eid Hn' Hin. apply in_app_or in Hn'. destruct Hn' as [Hn'|[<-|[]]]; [apply C2; assumption|destruct Hin].
      + intros e He. destruct (C3 e He) as [n [Hn' Hr]]. exists n. split; [apply in_or_app; left; exact Hn'|exact Hr].
    - destruct D as [C1 [C2 C3]]. split; [|split]; cbn [g_nodes g_edges].
      + intros n Hn'. apply in_app_or in Hn'. destruct Hn' as [Hn'|[<-|[]]]; [apply C1; exact Hn'|constructor].
      + intros n eid Hn' Hin. apply in_app_or in Hn'. destruct Hn' as [Hn'|[<-|[]]]; [apply C2; assumption|destruct Hin].
      + intros e He. destruct (C3 e He) as [n [Hn' Hr]]. exists n. split; [apply in_or_app; left; exact Hn'|exact Hr].
  Qed.

  Lemma add_node_mono (g g' : graph) nid q : g_nodes g' = g_nodes g ++ [mknode nid [] [] q] ->
    (forall x, hasin g x -> hasin g' x) /\ (forall x, hasout g x -> hasout g' x) /\
    (forall x, isolated g x -> isolated g' x).
  Proof.
    intros E. split; [|split].
    - intros x [n [H1 H2]]. exists n. rewrite E. split; [apply in_or_app; left; exact H1|exact H2].
    - intros x [n [H1 H2]]. exists n. rewrite E. split; [apply in_or_app; left; exact H1|exact H2].
    - intros x Hx n Hn Hid. rewrite E in Hn. apply in_app_or in Hn. destruct Hn as [Hn|[<-|[]]]; [apply Hx; assumption|].
      split; reflexivity.
  Qed.

  (* ---------- primitive 2: add_connect_edge between two existing nodes ---------- *)
  Definition conn (e : gedge) (n : gnode) : gnode :=
    mknode (n_id n) (n_in n ++ (if n_id n =? e_to e then [e_id e] else []))
                    (n_out n ++ (if n_id n =? e_from e then [e_id e] else [])) (n_q n).

  Lemma conn_id e n : n_id (conn e n) = n_id n.
  Proof. reflexivity. Qed.
  Lemma conn_eids e n d : (d <= 1)%nat ->
    node_eids (conn e n) (1 - d) = node_eids n (1 - d) ++ (if n_id n =? end_d R d e then [e_id e] else []).
  Proof. intros Hd. destruct d as [|[|d]]; [reflexivity|reflexivity|lia]. Qed.

  Lemma add_connect_edge_eq (g g' : graph) (e : gedge) : add_connect_edge g e = Some g' ->
    ~ In (e_id e) (eids R g) /\ g' = mkgraph (map (conn e) (g_nodes g)) (g_edges g ++ [e]) (g_t0 g) (g_t1 g).
  Proof.
    unfold add_connect_edge, add_edge. destruct (has_edge_id g (e_id e)) eqn:He; [discriminate|].
    intros H. inversion H; subst g'; clear H. split.
    - intros Hin. apply In_eids_has in Hin. congruence.
    - unfold upd_node. cbn [g_nodes g_edges g_t0 g_t1]. f_equal. rewrite map_map. apply map_ext. intros n.
      unfold conn. destruct n as [i a b q]. cbn [n_id n_in n_out n_q].
      destruct (i =? e_from e) eqn:E1; cbn [node_add_eid n_id n_in n_out n_q]; destruct (i =? e_to e) eqn:E2;
        cbn [node_add_eid n_id n_in n_out n_q]; rewrite ?app_nil_r; reflexivity.
  Qed.

  Lemma conn_RefOK (g : graph) lv (e : gedge) d : (d <= 1)%nat ->
    PW g lv -> In (end_d R d e) (nids R g) -> ~ In (e_id e) (eids R g) ->
    RefOK R (mkgraph (map (conn e) (g_nodes g)) (g_edges g ++ [e]) (g_t0 g) (g_t1 g)) d.
  Proof.
    intros Hd W Hend Hfresh. destruct (pw_ref g lv d W Hd) as [C1 [C2 C3]].
    split; [|split]; cbn [g_nodes g_edges].
    - intros n' Hn'. apply in_map_iff in Hn'. destruct Hn' as [n [<- Hn]]. rewrite conn_eids by exact Hd.
      destruct (n_id n =? end_d R d e); [|rewrite app_nil_r; apply C1; exact Hn].
      apply NoDup_snoc; [apply C1; exact Hn|]. intros Hin. destruct (C2 n _ Hn Hin) as [e' [He' [Hid _]]].
      apply Hfresh. rewrite <- Hid. apply in_map. exact He'.
    - intros n' eid Hn' Hin. apply in_map_iff in Hn'. destruct Hn' as [n [<- Hn]]. rewrite conn_eids in Hin by exact Hd.
      rewrite conn_id. apply in_app_or in Hin. destruct Hin as [Hin|Hin].
      + destruct (C2 n eid Hn Hin) as [e' [He' Hr]]. exists e'. split; [apply in_or_app; left; exact He'|exact Hr].
      + destruct (Z.eqb_spec (n_id n) (end_d R d e)) as [E|]; [|destruct Hin]. destruct Hin as [<-|[]].
        exists e. split; [apply in_or_app; right; left; reflexivity|]. split; [reflexivity|symmetry; exact E].
    - intros e' He'. apply in_app_or in He'. destruct He' as [He'|[<-|[]]].
      + destruct (C3 e' He') as [n [Hn [Hid Hl]]]. exists (conn e n). split; [apply in_map; exact Hn|].
        split; [exact Hid|]. rewrite conn_eids by exact Hd. apply in_or_app. left. exact Hl.
      + apply In_nids in Hend. destruct Hend as [n [Hn Hid]]. exists (conn e n). split; [apply in_map; exact Hn|].
        split; [exact Hid|]. rewrite conn_eids by exact Hd. apply in_or_app. right. rewrite Hid, Z.eqb_refl. left. reflexivity.
  Qed.

  Lemma add_connect_edge_PW (g g' : graph) lv (e : gedge) :
    PW g lv -> In (e_from e) (nids R g) -> In (e_to e) (nids R g) -> lv (e_to e) = lv (e_from e) + 1 ->
    sorted_opics (e_opics e) = true -> add_connect_edge g e = Some g' ->
    PW g' lv /\ nids R g' = nids R g /\ g_edges g' = g_edges g ++ [e] /\ g_t0 g' = g_t0 g /\ g_t1 g' = g_t1 g /\
    (forall x, hasin g x -> hasin g' x) /\ (forall x, hasout g x -> hasout g' x) /\
    hasin g' (e_to e) /\ hasout g' (e_from e) /\
    (forall x, x <> e_from e -> x <> e_to e -> isolated g x -> isolated g' x).
  Proof.
    intros W Hf Ht Hlv Hs H. destruct (add_connect_edge_eq g g' e H) as [Hfresh ->]. clear H.
    assert (Hids : nids R (mkgraph (map (conn e) (g_nodes g)) (g_edges g ++ [e]) (g_t0 g) (g_t1 g)) = nids R g).
    { unfold nids. cbn [g_nodes]. rewrite map_map. apply map_ext. intros n. reflexivity. }
    split; [|split; [exact Hids|split; [reflexivity|split; [reflexivity|split; [reflexivity|]]]]].
    - constructor.
      + rewrite Hids. apply W.
      + unfold eids. cbn [g_edges]. rewrite map_app. cbn [map]. apply NoDup_snoc; [apply W|exact Hfresh].
      + apply (conn_RefOK g lv e 0); auto.
      + apply (conn_RefOK g lv e 1); auto.
      + cbn [g_edges]. intros e' He'. apply in_app_or in He'. destruct He' as [He'|[<-|[]]]; [apply W; exact He'|exact Hs].
      + cbn [g_edges]. intros e' He'. apply in_app_or in He'. destruct He' as [He'|[<-|[]]]; [apply W; exact He'|exact Hlv].
    - cbn [g_nodes]. split; [|split; [|split; [|split]]].
      + intros x [n [H1 [H2 H3]]]. exists (conn e n). split; [apply in_map; exact H1|]. split; [exact H2|].
        cbn [conn n_in]. intros E. apply app_eq_nil in E. destruct E as [E _]. contradiction.
      + intros x [n [H1 [H2 H3]]]. exists (conn e n). split; [apply in_map; exact H1|]. split; [exact H2|].
        cbn [conn n_out]. intros E. apply app_eq_nil in E. destruct E as [E _]. contradiction.
      + apply In_nids in Ht. destruct Ht as [n [H1 H2]]. exists (conn e n). split; [apply in_map; exact H1|].
        split; [exact H2|]. cbn [conn n_in]. rewrite H2, Z.eqb_refl. intros E. apply app_eq_nil in E. destruct E as [_ E]. discriminate.
      + apply In_nids in Hf. destruct Hf as [n [H1 H2]]. exists (conn e n). split; [apply in_map; exact H1|].
        split; [exact H2|]. cbn [conn n_out]. rewrite H2, Z.eqb_refl. intros E. apply app_eq_nil in E. destruct E as [_ E]. discriminate.
      + intros x Hx1 Hx2 Hiso n' Hn' Hid. apply in_map_iff in Hn'. destruct Hn' as [n [<- Hn]]. rewrite conn_id in Hid.
        destruct (Hiso n Hn Hid) as [I1 I2]. cbn [conn n_in n_out]. rewrite I1, I2.
        destruct (Z.eqb_spec (n_id n) (e_to e)); [congruence|]. destruct (Z.eqb_spec (n_id n) (e_from e)); [congruence|].
        split; reflexivity.
  Qed.

  (* ---------- removing an isolated node ---------- *)
  Lemma remove_isolated_PW (g : graph) lv x a b :
    PW g lv -> isolated g x -> PW (remove_node (mkgraph (g_nodes g) (g_edges g) a b) x) lv.
  Proof.
    intros W Hiso. unfold remove_node. cbn [g_nodes g_edges g_t0 g_t1].
    set (keep := fun n : gnode => negb (n_id n =? x)).
    assert (Hsub : forall n, In n (filter keep (g_nodes g)) -> In n (g_nodes g)) by (intros n Hn; apply filter_In in Hn; tauto).
    assert (Hkeep : forall n eid d, (d <= 1)%nat -> In n (g_nodes g) -> In eid (node_eids n (1 - d)) -> In n (filter keep (g_nodes g))).
    { intros n eid d Hd Hn Hin. apply filter_In. split; [exact Hn|]. unfold keep. apply negb_true_iff, Z.eqb_neq. intros E.
      destruct (Hiso n Hn E) as [I1 I2]. destruct d as [|[|d]]; [| |lia]; cbn [node_eids Nat.sub] in Hin.
      - rewrite I2 in Hin. destruct Hin.
      - rewrite I1 in Hin. destruct Hin. }
    assert (Href : forall d, (d <= 1)%nat -> RefOK R (mkgraph (filter keep (g_nodes g)) (g_edges g) a b) d).
    { intros d Hd. destruct (pw_ref g lv d W Hd) as [C1 [C2 C3]]. split; [|split]; cbn [g_nodes g_edges].
      - intros n Hn. apply C1. apply Hsub. exact Hn.
      - intros n eid Hn Hin. apply C2; [apply Hsub; exact Hn|exact Hin].
      - intros e He. destruct (C3 e He) as [n [Hn [Hid Hl]]]. exists n. split; [|split; assumption].
        apply (Hkeep n (e_id e) d Hd Hn Hl). }
    destruct W as [A B C D E F]. constructor; cbn [g_nodes g_edges]; auto.
    unfold nids. cbn [g_nodes]. clear -A. unfold nids in A. induction (g_nodes g) as [|n t IH]; [constructor|].
    cbn [map filter] in *. inversion A; subst. destruct (keep n); cbn [map]; [constructor|]; auto.
    intros Hin. apply in_map_iff in Hin. destruct Hin as [m [Hm1 Hm2]]. apply filter_In in Hm2.
    match goal with H : ~ In (n_id n) _ |- _ => apply H end. rewrite <- Hm1. apply in_map. tauto.
  Qed.

  (* ---------- assembly ---------- *)
  Record LevB (g : graph) (lv : Z -> Z) (L : Z) : Prop := mkLevB {
    lb_t0 : In (g_t0 g) (nids R g);
    lb_t1 : In (g_t1 g) (nids R g);
    lb_l0 : lv (g_t0 g) = 0;
    lb_l1 : lv (g_t1 g) = L;
    lb_b : forall x, In x (nids R g) -> 0 <= lv x <= L }.

  Lemma PW_TermOK (g : graph) lv L : PW g lv -> LevB g lv L -> TermOK R g 0 /\ TermOK R g 1.
  Proof.
    intros W B. split.
    - destruct (proj1 (In_nids g _) (lb_t0 g lv L B)) as [n [Hn Hid]]. exists n. split; [exact Hn|]. split; [exact Hid|].
      cbn [node_eids]. destruct (n_in n) as [|eid t] eqn:E; [reflexivity|exfalso].
      destruct (pw_ref1 g lv W) as [_ [C2 _]]. destruct (C2 n eid Hn) as [e [He [_ Hend]]]; [cbn [node_eids Nat.sub]; rewrite E; left; reflexivity|].
      cbn [end_d] in Hend. pose proof (pw_lev g lv W e He) as Hl. destruct (PW_ends g lv e W He) as [Hf _].
      pose proof (lb_b g lv L B _ Hf) as Hb. rewrite Hend, Hid, (lb_l0 g lv L B) in Hl. lia.
    - destruct (proj1 (In_nids g _) (lb_t1 g lv L B)) as [n [Hn Hid]]. exists n. split; [exact Hn|]. split; [exact Hid|].
      cbn [node_eids]. destruct (n_out n) as [|eid t] eqn:E; [reflexivity|exfalso].
      destruct (pw_ref0 g lv W) as [_ [C2 _]]. destruct (C2 n eid Hn) as [e [He [_ Hend]]]; [cbn [node_eids Nat.sub]; rewrite E; left; reflexivity|].
      cbn [end_d] in Hend. pose proof (pw_lev g lv W e He) as Hl. destruct (PW_ends g lv e W He) as [_ Ht].
      pose proof (lb_b g lv L B _ Ht) as Hb. rewrite Hend, Hid, (lb_l1 g lv L B) in Hl. lia.
  Qed.

  Lemma hasin_NoDangle (g : graph) lv : PW g lv ->
    (forall x, In x (nids R g) -> x <> g_t0 g -> hasin g x) -> NoDangle R g 0.
  Proof.
    intros W H n Hn Hne. cbn [terminal] in Hne. cbn [node_eids].
    destruct (H (n_id n)) as [n' [Hn' [Hid Hin]]]; [apply in_map; exact Hn|exact Hne|].
    assert (n' = n) by (apply (key_inj n_id (g_nodes g)); [apply W|assumption|assumption|exact Hid]). subst n'. exact Hin.
  Qed.
  Lemma hasout_NoDangle (g : graph) lv : PW g lv ->
    (forall x, In x (nids R g) -> x <> g_t1 g -> hasout g x) -> NoDangle R g 1.
  Proof.
    intros W H n Hn Hne. cbn [terminal] in Hne. cbn [node_eids].
    destruct (H (n_id n)) as [n' [Hn' [Hid Hin]]]; [apply in_map; exact Hn|exact Hne|].
    assert (n' = n) by (apply (key_inj n_id (g_nodes g)); [apply W|assumption|assumption|exact Hid]). subst n'. exact Hin.
  Qed.

  Theorem PW_WF (g : graph) lv L : PW g lv -> LevB g lv L ->
    (forall x, In x (nids R g) -> x <> g_t0 g -> hasin g x) ->
    (forall x, In x (nids R g) -> x <> g_t1 g -> hasout g x) -> WF R g.
  Proof.
    intros W B H0 H1. destruct (PW_TermOK g lv L W B) as [T0 T1]. constructor; try apply W; auto.
    - eapply hasin_NoDangle; eauto.
    - eapply hasout_NoDangle; eauto.
    - exists lv. apply W.
  Qed.

  (* ---------- the length of a well-formed levelled graph ---------- *)
  Lemma depth_path (g : graph) lv L : WF R g -> LevB g lv L ->
    (forall e, In e (g_edges g) -> lv (e_to e) = lv (e_from e) + 1) ->
    forall d x, In x (nids R g) -> lv x + Z.of_nat d = L ->
      exists p, length p = S d /\ incl p (nids R g) /\ (forall y, In y p -> lv x <= lv y) /\ NoDup p /\
                forall f, (d < f)%nat -> node_depth_fuel f g x 1 = Some d.
  Proof.
    intros W B Hlv. induction d as [|d IH]; intros x Hx Hl.
    - apply In_nids in Hx. destruct Hx as [n [Hn Hid]].
      assert (Hout : n_out n = []).
      { destruct (n_out n) as [|eid t] eqn:E; [reflexivity|exfalso].
        destruct (wf_ref0 R g W) as [_ [C2 _]]. destruct (C2 n eid Hn) as [e [He [_ Hend]]]; [cbn [node_eids Nat.sub]; rewrite E; left; reflexivity|].
        cbn [end_d] in Hend. pose proof (Hlv e He) as Hl'.
        destruct (wf_ref1 R g W) as [_ [_ C3]]. destruct (C3 e He) as [m [Hm [Hidm _]]]. cbn [end_d] in Hidm.
        assert (Hb : 0 <= lv (e_to e) <= L) by (apply (lb_b g lv L B); rewrite <- Hidm; apply in_map; exact Hm).
        rewrite Hend, Hid in Hl'. cbn [Z.of_nat] in Hl. lia. }
      exists [x]. split; [reflexivity|]. split; [intros y [<-|[]]; apply In_nids; eauto|]. split; [intros y [<-|[]]; lia|].
      split; [constructor; [intros []|constructor]|]. intros f Hf. destruct f as [|f]; [lia|]. cbn [node_depth_fuel].
      rewrite <- Hid, (find_node_In R g n (wf_nids R g W) Hn). cbn [node_eids]. rewrite Hout. reflexivity.
    - pose proof Hx as Hx'. apply In_nids in Hx. destruct Hx as [n [Hn Hid]].
      assert (Hne : x <> g_t1 g).
      { intros E. rewrite E, (lb_l1 g lv L B) in Hl. lia. }
      pose proof (wf_nd1 R g W n Hn) as Hnd. cbn [terminal node_eids] in Hnd. rewrite Hid in Hnd. specialize (Hnd Hne).
      destruct (n_out n) as [|eid t] eqn:E; [congruence|].
      destruct (wf_ref0 R g W) as [_ [C2 _]]. destruct (C2 n eid Hn) as [e [He [Heid Hend]]]; [cbn [node_eids Nat.sub]; rewrite E; left; reflexivity|].
      cbn [end_d] in Hend. pose proof (Hlv e He) as Hl'.
      destruct (wf_ref1 R g W) as [_ [_ C3]]. destruct (C3 e He) as [m [Hm [Hidm _]]]. cbn [end_d] in Hidm.
      assert (Hto : In (e_to e) (nids R g)) by (rewrite <- Hidm; apply in_map; exact Hm).
      rewrite Hend, Hid in Hl'.
      destruct (IH (e_to e) Hto) as [p [P1 [P2 [P3 [P4 P5]]]]]; [rewrite Nat2Z.inj_succ in Hl; lia|].
      exists (x :: p). split; [cbn [length]; congruence|]. split; [intros y [<-|Hy]; [exact Hx'|apply P2; exact Hy]|].
      split; [intros y [<-|Hy]; [lia|specialize (P3 y Hy); lia]|].
      split; [constructor; [intros Hin; specialize (P3 x Hin); lia|exact P4]|].
      intros f Hf. destruct f as [|f]; [lia|]. cbn [node_depth_fuel].
      rewrite <- Hid, (find_node_In R g n (wf_nids R g W) Hn). cbn [node_eids]. rewrite E.
      rewrite <- Heid, (find_edge_In R g e (wf_eids R g W) He). cbn [edge_nid]. rewrite P5 by lia. reflexivity.
  Qed.

  Theorem WF_glength (g : graph) lv (L : nat) : WF R g -> LevB g lv (Z.of_nat L) ->
    (forall e, In e (g_edges g) -> lv (e_to e) = lv (e_from e) + 1) -> glength g = Some L.
  Proof.
    intros W B Hlv.
    destruct (depth_path g lv (Z.of_nat L) W B Hlv L (g_t0 g) (lb_t0 g lv _ B)) as [p [P1 [P2 [_ [P4 P5]]]]].
    { rewrite (lb_l0 g lv _ B). lia. }
    unfold glength. apply P5.
    pose proof (NoDup_incl_length P4 P2) as Hlen. unfold nids in Hlen. rewrite map_length in Hlen. lia.
  Qed.

  (* everything the constructions have to establish, and what follows from it *)
  Definition Built (g : graph) (L : nat) : Prop :=
    exists lv, PW g lv /\ LevB g lv (Z.of_nat L) /\
      (forall x, In x (nids R g) -> x <> g_t0 g -> hasin g x) /\
      (forall x, In x (nids R g) -> x <> g_t1 g -> hasout g x).

  Theorem Built_WF (g : graph) L : Built g L -> WF R g.
  Proof. intros [lv [W [B [H0 H1]]]]. eapply PW_WF; eauto. Qed.
  Theorem Built_glength (g : graph) L : Built g L -> glength g = Some L.
  Proof.
    intros H. pose proof (Built_WF g L H) as W. destruct H as [lv [P [B _]]].
    apply (WF_glength g lv L W B). apply P.
  Qed.
  Theorem Built_consistent (g : graph) L fuel b : Built g L -> is_consistent_fuel fuel g = Some b -> b = true.
  Proof. intros H. apply WF_is_consistent_true. eapply Built_WF; eauto. Qed.
End LenBase.
