(* C04 — chains of sites: words with per-site physical dimensions, column amplitudes, and the
   transfer invariants of the right-to-left contractions (vdot, operator_inner_product,
   operator_density_average). *)
From Coq Require Import Arith List Lia Ring Setoid Morphisms Bool.
From PT Require Import Base.Scalar Base.BigSum Base.Mx Model.Tensor Model.Operation
  Proofs.OperationSums Proofs.OperationEntries.
Import ListNotations.

(* words with per-site dimensions  ds = [d_1; ...; d_n]  (two-site problems have a site of dimension d^2) *)
Fixpoint gwords (ds : list nat) : list (list nat) :=
  match ds with
  | [] => [[]]
  | d :: ds' => flat_map (fun s => map (cons s) (gwords ds')) (seq 0 d)
  end.

Lemma gwords_repeat d L : gwords (repeat d L) = words d L.
Proof. induction L; simpl; [reflexivity|]. rewrite IHL. reflexivity. Qed.

Lemma in_gwords_cons d ds w : In w (gwords (d :: ds)) -> exists s w', w = s :: w' /\ s < d /\ In w' (gwords ds).
Proof.
  simpl. rewrite in_flat_map. intros (s & Hs & Hw). apply in_map_iff in Hw. destruct Hw as (w' & <- & Hw').
  apply in_seq in Hs. exists s, w'. split; [reflexivity|]. split; [lia|assumption].
Qed.

Section Chains.
  Variable R : cring.
  Add Ring Rring_c04_chains : (k_rt R).
  Notation "0" := (k0 R). Notation "1" := (k1 R).
  Infix "+" := (kadd R). Infix "*" := (kmul R).
  Notation site := (site R).
  Notation osite := (osite R).
  Notation env := (env R).
  Notation mx := (mx R).
  Notation cj := (kconj R).

  (* ---- products of shape-compatible matrices ending in bond dimension 1 ---- *)
  Fixpoint mats_ok (Ds : list nat) (Ms : list mx) : Prop :=
    match Ms, Ds with
    | [], [D] => D = 1%nat
    | M :: Ms', Dl :: ((Dr :: _) as Ds') => nr M = Dl /\ nc M = Dr /\ mats_ok Ds' Ms'
    | _, _ => False
    end.

  Lemma mats_ok_nil_inv Ds : mats_ok Ds [] -> Ds = [1%nat].
  Proof. destruct Ds as [|D [|? ?]]; simpl; try tauto. intros ->. reflexivity. Qed.
  Lemma mats_ok_cons_inv Ds M Ms : mats_ok Ds (M :: Ms) ->
    exists Dl Dr Ds', Ds = Dl :: Dr :: Ds' /\ nr M = Dl /\ nc M = Dr /\ mats_ok (Dr :: Ds') Ms.
  Proof.
    destruct Ds as [|Dl [|Dr Ds']]; try (simpl; tauto). intros H. exists Dl, Dr, Ds'. split; [reflexivity|]. exact H.
  Qed.
  Lemma mats_ok_cons Dl Dr Ds M Ms : nr M = Dl -> nc M = Dr -> mats_ok (Dr :: Ds) Ms -> mats_ok (Dl :: Dr :: Ds) (M :: Ms).
  Proof. intros H1 H2 H3. split; [exact H1|]. split; [exact H2|]. exact H3. Qed.

  Lemma mprod_start Dr Ds Ms : mats_ok (Dr :: Ds) Ms -> mprod Dr Ms = mprod 1 Ms.
  Proof.
    destruct Ms as [|M Ms]; [|reflexivity]. intros H. apply mats_ok_nil_inv in H. inversion H. reflexivity.
  Qed.

  Lemma c04_mprod_shape Ds Ms : mats_ok Ds Ms -> nr (mprod 1 Ms) = hd 0%nat Ds /\ nc (mprod 1 Ms) = 1%nat.
  Proof.
    revert Ds. induction Ms as [|M Ms IH]; intros Ds H.
    - apply mats_ok_nil_inv in H. subst. split; reflexivity.
    - apply mats_ok_cons_inv in H. destruct H as (Dl & Dr & Ds' & -> & H1 & H2 & H3).
      cbn [mprod hd]. rewrite nr_mulmx, nc_mulmx. split; [exact H1|].
      rewrite H2, (mprod_start _ _ _ H3). apply (IH _ H3).
  Qed.

  Lemma mprod_cons_entry Dl Dr Ds M Ms a : mats_ok (Dl :: Dr :: Ds) (M :: Ms) -> a < Dl ->
    get (mprod 1 (M :: Ms)) a 0 = sumn Dr (fun c => get M a c * get (mprod 1 Ms) c 0).
  Proof.
    intros H Ha. apply mats_ok_cons_inv in H. destruct H as (Dl' & Dr' & Ds' & E & H1 & H2 & H3).
    injection E as <- <- <-.
    cbn [mprod]. rewrite H2, (mprod_start _ _ _ H3).
    destruct (c04_mprod_shape _ _ H3) as [S1 S2].
    rewrite get_mulmx by lia. rewrite H2. reflexivity.
  Qed.

  (* ---- MPS / MPO chains ---- *)
  Fixpoint chain_ok (ds Ds : list nat) (As : list site) : Prop :=
    match As, ds, Ds with
    | [], [], [D] => D = 1%nat
    | A :: As', d :: ds', Dl :: ((Dr :: _) as Ds') => 0 < d /\ site_ok d Dl Dr A /\ chain_ok ds' Ds' As'
    | _, _, _ => False
    end.
  Fixpoint ochain_ok (ds Ds : list nat) (Ws : list osite) : Prop :=
    match Ws, ds, Ds with
    | [], [], [D] => D = 1%nat
    | W :: Ws', d :: ds', Dl :: ((Dr :: _) as Ds') => 0 < d /\ 0 < Dr /\ osite_ok d Dl Dr W /\ ochain_ok ds' Ds' Ws'
    | _, _, _ => False
    end.

  Lemma chain_ok_nil_inv ds Ds : chain_ok ds Ds [] -> ds = [] /\ Ds = [1%nat].
  Proof. destruct ds; destruct Ds as [|D [|? ?]]; simpl; try tauto. intros ->. auto. Qed.
  Lemma chain_ok_cons_inv ds Ds A As : chain_ok ds Ds (A :: As) ->
    exists d ds' Dl Dr Ds', ds = d :: ds' /\ Ds = Dl :: Dr :: Ds' /\ 0 < d /\ site_ok d Dl Dr A /\ chain_ok ds' (Dr :: Ds') As.
  Proof.
    destruct ds as [|d ds']; destruct Ds as [|Dl [|Dr Ds']]; try (simpl; tauto).
    intros H. exists d, ds', Dl, Dr, Ds'. split; [reflexivity|]. split; [reflexivity|]. exact H.
  Qed.
  Lemma chain_ok_cons d ds Dl Dr Ds A As : 0 < d -> site_ok d Dl Dr A -> chain_ok ds (Dr :: Ds) As ->
    chain_ok (d :: ds) (Dl :: Dr :: Ds) (A :: As).
  Proof. intros H1 H2 H3. split; [exact H1|]. split; [exact H2|]. exact H3. Qed.
  Lemma ochain_ok_nil_inv ds Ds : ochain_ok ds Ds [] -> ds = [] /\ Ds = [1%nat].
  Proof. destruct ds; destruct Ds as [|D [|? ?]]; simpl; try tauto. intros ->. auto. Qed.
  Lemma ochain_ok_cons_inv ds Ds W Ws : ochain_ok ds Ds (W :: Ws) ->
    exists d ds' Dl Dr Ds', ds = d :: ds' /\ Ds = Dl :: Dr :: Ds' /\ 0 < d /\ 0 < Dr /\ osite_ok d Dl Dr W /\ ochain_ok ds' (Dr :: Ds') Ws.
  Proof.
    destruct ds as [|d ds']; destruct Ds as [|Dl [|Dr Ds']]; try (simpl; tauto).
    intros H. exists d, ds', Dl, Dr, Ds'. split; [reflexivity|]. split; [reflexivity|]. exact H.
  Qed.
  Lemma ochain_ok_cons d ds Dl Dr Ds W Ws : 0 < d -> 0 < Dr -> osite_ok d Dl Dr W -> ochain_ok ds (Dr :: Ds) Ws ->
    ochain_ok (d :: ds) (Dl :: Dr :: Ds) (W :: Ws).
  Proof. intros H1 H0 H2 H3. split; [exact H1|]. split; [exact H0|]. split; [exact H2|]. exact H3. Qed.

  Lemma chain_ok_pick ds Ds As w : chain_ok ds Ds As -> In w (gwords ds) -> mats_ok Ds (pick As w).
  Proof.
    revert ds Ds w. induction As as [|A As IH]; intros ds Ds w H Hw.
    - apply chain_ok_nil_inv in H. destruct H as [-> ->]. destruct w; simpl; reflexivity.
    - apply chain_ok_cons_inv in H. destruct H as (d & ds' & Dl & Dr & Ds' & -> & -> & Hd & HA & Hc).
      apply in_gwords_cons in Hw. destruct Hw as (s & w' & -> & Hs & Hw').
      cbn [pick]. destruct HA as [_ HA]. destruct (HA s Hs) as [F1 F2].
      apply mats_ok_cons; [exact F1|exact F2|]. apply (IH _ _ _ Hc Hw').
  Qed.

  Lemma ochain_ok_opick ds Ds Ws u u' :
    ochain_ok ds Ds Ws -> In u (gwords ds) -> In u' (gwords ds) -> mats_ok Ds (opick Ws u u').
  Proof.
    revert ds Ds u u'. induction Ws as [|W Ws IH]; intros ds Ds u u' H Hu Hu'.
    - apply ochain_ok_nil_inv in H. destruct H as [-> ->]. destruct u; simpl; reflexivity.
    - apply ochain_ok_cons_inv in H. destruct H as (d & ds' & Dl & Dr & Ds' & -> & -> & Hd & HDr & HW & Hc).
      apply in_gwords_cons in Hu. destruct Hu as (s & v & -> & Hs & Hv).
      apply in_gwords_cons in Hu'. destruct Hu' as (t & v' & -> & Ht & Hv').
      cbn [opick]. destruct HW as [_ HW]. destruct (HW s t Hs Ht) as [F1 F2].
      apply mats_ok_cons; [exact F1|exact F2|]. apply (IH _ _ _ _ Hc Hv Hv').
  Qed.

  (* column amplitudes: amp As w = cvec As w 0, opamp Ws u u' = ocvec Ws u u' 0 *)
  Definition cvec (As : list site) (w : list nat) (a : nat) : R := get (mprod 1 (pick As w)) a 0.
  Definition ocvec (Ws : list osite) (u u' : list nat) (a : nat) : R := get (mprod 1 (opick Ws u u')) a 0.

  Lemma amp_cvec As w : amp As w = cvec As w 0. Proof. reflexivity. Qed.
  Lemma opamp_ocvec Ws u u' : opamp Ws u u' = ocvec Ws u u' 0. Proof. reflexivity. Qed.

  Lemma cvec_cons d ds Dl Dr Ds A As s w a :
    chain_ok (d :: ds) (Dl :: Dr :: Ds) (A :: As) -> s < d -> In w (gwords ds) -> a < Dl ->
    cvec (A :: As) (s :: w) a = sumn Dr (fun c => get (sel A s) a c * cvec As w c).
  Proof.
    intros H Hs Hw Ha. unfold cvec. cbn [pick].
    apply (mprod_cons_entry Dl Dr Ds). 2: exact Ha.
    change (sel A s :: pick As w) with (pick (A :: As) (s :: w)).
    apply (chain_ok_pick (d :: ds)); [exact H|].
    simpl. apply in_flat_map. exists s. split; [apply in_seq; lia|]. apply in_map. exact Hw.
  Qed.

  Lemma ocvec_cons d ds Dl Dr Ds W Ws s t u u' a :
    ochain_ok (d :: ds) (Dl :: Dr :: Ds) (W :: Ws) -> s < d -> t < d -> In u (gwords ds) -> In u' (gwords ds) -> a < Dl ->
    ocvec (W :: Ws) (s :: u) (t :: u') a = sumn Dr (fun c => get (osel W s t) a c * ocvec Ws u u' c).
  Proof.
    intros H Hs Ht Hu Hu' Ha. unfold ocvec. cbn [opick].
    apply (mprod_cons_entry Dl Dr Ds). 2: exact Ha.
    change (osel W s t :: opick Ws u u') with (opick (W :: Ws) (s :: u) (t :: u')).
    apply (ochain_ok_opick (d :: ds)); [exact H| |];
      simpl; apply in_flat_map; [exists s | exists t]; (split; [apply in_seq; lia|]); apply in_map; assumption.
  Qed.

  Lemma cvec_nil : cvec [] [] 0 = 1.
  Proof. unfold cvec. simpl. apply get_idmx; lia. Qed.
  Lemma ocvec_nil : ocvec [] [] [] 0 = 1.
  Proof. unfold ocvec. simpl. apply get_idmx; lia. Qed.

  Lemma suml_gwords_cons d ds (f : list nat -> R) :
    suml (gwords (d :: ds)) f = suml (seq 0 d) (fun s => suml (gwords ds) (fun w => f (s :: w))).
  Proof.
    cbn [gwords]. rewrite c04_suml_flat_map. apply suml_ext; intros s _. apply suml_map.
  Qed.

  (* ---- boolean shapes of Model/Tensor.v imply the Prop-level ones ---- *)
  Lemma chain_shape_ok d Ds As : 0 < d -> chain_shape d Ds As = true -> last Ds 0%nat = 1%nat ->
    chain_ok (repeat d (length As)) Ds As.
  Proof.
    intros Hd. revert Ds. induction As as [|A As IH]; intros Ds H Hl.
    - destruct Ds as [|D [|? ?]]; simpl in H; try discriminate. simpl in *. exact Hl.
    - destruct Ds as [|Dl [|Dr Ds]]; simpl in H; try discriminate.
      apply andb_true_iff in H. destruct H as [H1 H2]. cbn [length repeat].
      apply chain_ok_cons; [exact Hd|apply site_shape_ok; exact H1|]. apply IH; [exact H2|]. exact Hl.
  Qed.
  Lemma ochain_shape_ok d Ds Ws : 0 < d -> ochain_shape d Ds Ws = true -> last Ds 0%nat = 1%nat ->
    forallb (Nat.ltb 0) Ds = true -> ochain_ok (repeat d (length Ws)) Ds Ws.
  Proof.
    intros Hd. revert Ds. induction Ws as [|W Ws IH]; intros Ds H Hl Hp.
    - destruct Ds as [|D [|? ?]]; simpl in H; try discriminate. simpl in *. exact Hl.
    - destruct Ds as [|Dl [|Dr Ds]]; simpl in H; try discriminate.
      apply andb_true_iff in H. destruct H as [H1 H2]. cbn [length repeat].
      cbn [forallb] in Hp. apply andb_true_iff in Hp. destruct Hp as [_ Hp].
      assert (HDr : 0 < Dr). { cbn [forallb] in Hp. apply andb_true_iff in Hp. destruct Hp as [Hp _]. apply Nat.ltb_lt. exact Hp. }
      apply ochain_ok_cons; [exact Hd|exact HDr|apply osite_shape_ok; exact H1|]. apply IH; [exact H2| |exact Hp]. exact Hl.
  Qed.
End Chains.

Arguments mats_ok {R} Ds Ms. Arguments chain_ok {R} ds Ds As. Arguments ochain_ok {R} ds Ds Ws.
Arguments cvec {R} As w a. Arguments ocvec {R} Ws u u' a.
