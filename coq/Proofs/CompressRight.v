(* C13 — MPS.compress(tol, mode='right'): the right SVD step, seen on the mirrored chain (sites reversed, matrices
   transposed, bond charges negated), meets the orientation-free [local_spec]; a sweep of any step function is the mirror
   image of the sweep of its mirrored step; the specification of the model's result follows as in Proofs/OrthRight.v. *)
From Coq Require Import ZArith List Bool Lia Arith Ring Field.
From PT Require Import Base.Scalar Base.Field Base.BigSum Base.Mx Model.Tensor Model.BondOps Model.Orthonormalize.
From PT Require Import Proofs.BondOpsPerm Proofs.BondOpsLoop Proofs.BondOpsSpec Proofs.MPSOpsBase Proofs.MPSOpsShape Proofs.MPSOpsMul.
From PT Require Import Proofs.BondOpsRetained Proofs.BondOpsSVD.
From PT Require Import Proofs.OrthDefs Proofs.OrthQRExtra Proofs.OrthGram Proofs.OrthLocal Proofs.OrthSweep Proofs.OrthTop Proofs.OrthRight.
From PT Require Import Proofs.CompressPartial Proofs.CompressSVD Proofs.CompressLocal Proofs.CompressSweep Proofs.CompressTop Proofs.CompressError.
Import ListNotations.

(* ---------- sums over all words are invariant under reversal of the words ---------- *)
Section WordsRev.
  Variable R : cring.
  Add Ring Rring_cright0 : (k_rt R).
  Lemma suml_words_snoc d n : forall (f : list nat -> R),
    suml (words d (S n)) f = suml (words d n) (fun u => sumn d (fun s => f (u ++ [s]))).
  Proof.
    induction n as [|n IH]; intros f.
    - rewrite (suml_words_S R d 0). cbn [words suml].
      transitivity (sumn d (fun s => f [s])); [apply sumn_ext; intros s _; cbn [app]; ring|]. cbn [app]. ring.
    - rewrite (suml_words_S R d (S n)).
      transitivity (sumn d (fun s0 => suml (words d n) (fun u => sumn d (fun s => f (s0 :: u ++ [s]))))).
      { apply sumn_ext. intros s0 _. apply (IH (fun w => f (s0 :: w))). }
      rewrite (suml_words_S R d n (fun u' => sumn d (fun s => f (u' ++ [s])))). reflexivity.
  Qed.
  Lemma suml_words_rev d n : forall (f : list nat -> R), suml (words d n) (fun w => f (rev w)) = suml (words d n) f.
  Proof.
    induction n as [|n IH]; intros f; [reflexivity|].
    rewrite (suml_words_S R d n (fun w => f (rev w))).
    transitivity (sumn d (fun s => suml (words d n) (fun u => f (u ++ [s])))).
    { apply sumn_ext. intros s _. apply (IH (fun u => f (u ++ [s]))). }
    rewrite (sumn_suml_exch R). symmetry. apply suml_words_snoc.
  Qed.
End WordsRev.

(* ---------- the sweep of a step function and of its mirrored step ---------- *)
Section MirrorGen.
  Variable R : cring.
  Notation site := (site R).
  Definition mirA (a : site * list Z * list Z) : site * list Z * list Z :=
    (trs (fst (fst a)), zneg (snd (fst a)), zneg (snd a)).
  Variables sR sM : step_t R.
  Hypothesis Hrel : forall c n qb qa, Forall (@wf R) c -> Forall (@wf R) n ->
    sR c n qb qa = omap (mir3 R) (sM (trs c) (trs n) (zneg qb) (zneg qa)).
  Hypothesis HwfM : forall c n qb qa B Bn q, sM c n qb qa = Some (B, Bn, q) -> Forall (@wf R) Bn.

  Lemma wf_one_site : Forall (@wf R) (@one_site R).
  Proof. constructor; [apply wf_tab|constructor]. Qed.
  Lemma wf_trs (A : site) : Forall (@wf R) (trs A).
  Proof. apply Forall_forall. intros X HX. apply in_map_iff in HX. destruct HX as (Y & <- & _). apply wf_trmx. Qed.

  Lemma sweep_mirror_gen : forall (rest : list site) (cur : site) (qb : list Z) (qrest : list (list Z)),
    Forall (@wf R) cur -> Forall (Forall (@wf R)) rest ->
    sweep sR cur qb rest qrest = omap (mirS R) (sweep sM (trs cur) (zneg qb) (map (@trs R) rest) (map zneg qrest)) /\
    sweep_args sR cur qb rest qrest = map mirA (sweep_args sM (trs cur) (zneg qb) (map (@trs R) rest) (map zneg qrest)).
  Proof.
    induction rest as [|An rest IH]; intros cur qb qrest Hw Hwr.
    - destruct qrest as [|qa [|qa2 qrest]]; try (split; reflexivity).
      cbn [sweep sweep_args map]. rewrite (Hrel cur one_site qb qa Hw wf_one_site). rewrite trs_one_site.
      split.
      + destruct (sM (trs cur) one_site (zneg qb) (zneg qa)) as [[[B T] q']|]; [|reflexivity].
        simpl. rewrite zneg_invol. reflexivity.
      + unfold mirA. cbn [map fst snd]. rewrite (trs_invol R cur Hw), !zneg_invol. reflexivity.
    - destruct qrest as [|qa qrest]; [split; reflexivity|].
      cbn [sweep sweep_args map]. rewrite (Hrel cur An qb qa Hw (Forall_inv Hwr)).
      destruct (sM (trs cur) (trs An) (zneg qb) (zneg qa)) as [[[B Bn] q']|] eqn:EM.
      + cbn [omap mir3].
        destruct (IH (trs Bn) (zneg q') qrest (wf_trs Bn) (Forall_inv_tail Hwr)) as [IH1 IH2].
        rewrite IH1, IH2. rewrite zneg_invol. rewrite (trs_invol R Bn (HwfM _ _ _ _ _ _ _ EM)).
        split.
        * destruct (sweep sM Bn q' (map (@trs R) rest) (map zneg qrest)) as [[[Bs qs] T]|]; [|reflexivity].
          simpl. rewrite zneg_invol. reflexivity.
        * unfold mirA at 2. cbn [map fst snd]. rewrite (trs_invol R cur Hw), !zneg_invol. reflexivity.
      + cbn [omap]. split; [reflexivity|]. unfold mirA. cbn [map fst snd]. rewrite (trs_invol R cur Hw), !zneg_invol. reflexivity.
  Qed.
End MirrorGen.
Arguments mirA {R} a.

(* ---------- the right step on the mirrored chain ---------- *)
Section CRightLocal.
  Variable F : ofield.
  Add Field Ffield_cright : (f_ft F).
  Notation CF := (Cx F).
  Add Ring CFring_cright : (k_rt CF).
  Notation mx := (mx CF).
  Notation site := (site CF).
  Notation cO := (k0 CF). Notation cI := (k1 CF).
  Infix "*!" := (kmul CF) (at level 40, left associativity).
  Notation cj := (kconj CF).
  Notation emb := (@cof F).

  Lemma frob_trmx (N : mx) : frob (trmx N) (trmx N) = frob N N.
  Proof.
    unfold frob. change (nr (trmx N)) with (nc N). change (nc (trmx N)) with (nr N). rewrite sumn_exch.
    apply sumn_ext. intros i Hi. apply sumn_ext. intros j Hj. unfold trmx. rewrite !get_tab by assumption. reflexivity.
  Qed.

  Lemma site_shape_Forall d Dl Dr (A : site) : site_shape d Dl Dr A = true ->
    Forall (fun x : mx => wf x /\ nr x = Dl /\ nc x = Dr) A.
  Proof.
    unfold site_shape. rewrite andb_true_iff, forallb_forall. intros [_ H]. apply Forall_forall. intros x Hx.
    specialize (H x Hx). rewrite !andb_true_iff, !Nat.eqb_eq in H. destruct H as [[H1 H2] H3].
    split; [apply wfb_wf; exact H1|]. split; assumption.
  Qed.

  Lemma get_site_mx_r d Dl Dr (A : site) s a b : 1 <= d -> site_ok d Dl Dr A -> s < d -> a < Dl -> b < Dr ->
    get (site_mx_r A) a (s * Dr + b) = get (sel A s) a b.
  Proof.
    intros Hd HA Hs Ha Hb. destruct (site_ok_dims CF d Dl Dr A Hd HA) as (E1 & E2 & E3).
    unfold site_mx_r. rewrite E1, E2, E3. rewrite get_tab by (try nia; exact Ha).
    destruct (divmod_row s Dr b Hb) as [-> ->]. reflexivity.
  Qed.

  Lemma frob_site_mx_r d Dl Dr (A : site) : 1 <= d -> site_ok d Dl Dr A ->
    frob (site_mx_r A) (site_mx_r A) = cn2 A.
  Proof.
    intros Hd HA. destruct (site_ok_dims CF d Dl Dr A Hd HA) as (E1 & E2 & E3).
    unfold frob, cn2. change (nr (site_mx_r A)) with (sDl A). change (nc (site_mx_r A)) with (length A * sDr A).
    rewrite E1, E2, E3.
    transitivity (sumn Dl (fun a => sumn d (fun s => sumn Dr (fun b => cj (get (sel A s) a b) *! get (sel A s) a b)))).
    { apply sumn_ext. intros a Ha. rewrite (sumn_flatten CF d Dr). apply sumn_ext. intros s Hs. apply sumn_ext. intros b Hb.
      rewrite (get_site_mx_r d Dl Dr A s a b Hd HA Hs Ha Hb). reflexivity. }
    rewrite sumn_exch. apply sumn_ext. intros s Hs. destruct HA as [_ HA']. destruct (HA' s Hs) as (_ & Hr & Hc).
    unfold frob. rewrite Hr, Hc. reflexivity.
  Qed.

  Lemma cn2_trs (A : site) : cn2 (trs A) = cn2 A.
  Proof.
    unfold cn2. rewrite length_trs. apply sumn_ext. intros s Hs. rewrite (sel_trs CF). apply frob_trmx.
  Qed.

  Lemma valid_in_site_mx_r d Dl Dr (A : site) qd ql qr :
    1 <= d -> length qd = d -> length ql = Dl -> length qr = Dr ->
    site_ok d Dl Dr A -> site_qsp qd ql qr A ->
    valid_in (site_mx_r A) ql (qflat (zneg qd) qr) = true.
  Proof.
    intros Hd Lqd Lql Lqr HA Hsp. destruct (site_ok_dims CF d Dl Dr A Hd HA) as (E1 & E2 & E3).
    unfold valid_in. rewrite !andb_true_iff. repeat split.
    - unfold site_mx_r. apply wfb_tab.
    - apply Nat.eqb_eq. change (nr (site_mx_r A)) with (sDl A). congruence.
    - apply Nat.eqb_eq. rewrite qflat_length, zneg_length. change (nc (site_mx_r A)) with (length A * sDr A). congruence.
    - unfold qsparseb. change (nr (site_mx_r A)) with (sDl A). change (nc (site_mx_r A)) with (length A * sDr A).
      rewrite E1, E2, E3.
      apply forallb_forall. intros i Hi. apply in_seq in Hi.
      apply forallb_forall. intros j Hj. apply in_seq in Hj.
      destruct (row_split d Dr j ltac:(lia)) as (s & b & Hs & Hb & ->).
      rewrite (get_site_mx_r d Dl Dr A s i b Hd HA Hs ltac:(lia) Hb).
      destruct (keqb CF (get (sel A s) i b) cO) eqn:E; [reflexivity|]. simpl.
      apply Z.eqb_eq. rewrite <- Lqr at 1. rewrite qflat_nth by (rewrite ?zneg_length; lia). rewrite zneg_nth.
      assert (H := Hsp s i b ltac:(lia) ltac:(lia) ltac:(lia) (proj1 (keqb_false CF _ _) E)). unfold zget in H. lia.
  Qed.

  Lemma scale_site_trs (c : CF) (A : site) : scale_site c (trs A) = trs (scale_site c A).
  Proof.
    unfold scale_site, trs. rewrite !map_map. apply map_ext. intros M. unfold scalemx, trmx.
    rewrite !nr_tab, !nc_tab. apply tab_ext. intros i j Hi Hj. rewrite !get_tab by assumption. reflexivity.
  Qed.
  Lemma map_last_scale_trs (c : CF) (As : list site) :
    map_last (scale_site c) (map (@trs CF) As) = map (@trs CF) (map_last (scale_site c) As).
  Proof.
    induction As as [|A [|A2 As] IH]; [reflexivity| |].
    - simpl. rewrite scale_site_trs. reflexivity.
    - change (map (@trs CF) (A :: A2 :: As)) with (trs A :: map (@trs CF) (A2 :: As)).
      change (map_last (scale_site c) (A :: A2 :: As)) with (A :: map_last (scale_site c) (A2 :: As)).
      cbn [map]. cbn [map] in IH. rewrite <- IH. reflexivity.
  Qed.

  Lemma trs_rmul_trs (N : mx) (X : site) : Forall (fun x : mx => wf x /\ nr x = nr N) X ->
    trs (rmul (trs X) N) = lmul (trmx N) X.
  Proof.
    intros H. unfold trs, rmul, lmul. rewrite !map_map. apply map_ext_in. intros x Hx.
    rewrite Forall_forall in H. destruct (H x Hx) as [Hw Hr].
    rewrite (trmx_mulmx CF (trmx x) N) by exact Hr. rewrite (trmx_invol CF x Hw). reflexivity.
  Qed.

  Variable d : nat.
  Variable qd : list Z.
  Variable tol : F.
  Variable dsvd : mx -> mx * list F * mx.
  Variable pick : list F -> list nat.
  Hypothesis Hd : 1 <= d.
  Hypothesis Lqd : length qd = d.
  Hypothesis Htol0 : fle F (f0 F) tol.
  Hypothesis Htol1 : flt F tol (f1 F).

  Definition okR (c : site) (qb qa : list Z) : Prop := svd_call_ok dsvd pick (site_mx_r c) qa (qflat (zneg qd) qb).
  Definition epsR (c : site) (qb qa : list Z) : F := svd_eps tol dsvd pick (site_mx_r c) qa (qflat (zneg qd) qb).
  Definition stepM : step_t CF :=
    fun c n qb qa => omap (mir3 CF) (stepRs dsvd pick tol qd (trs c) (trs n) (zneg qb) (zneg qa)).
  Definition okM (c : site) (qb qa : list Z) : Prop := okR (trs c) (zneg qb) (zneg qa).
  Definition epsM (c : site) (qb qa : list Z) : F := epsR (trs c) (zneg qb) (zneg qa).

  Lemma stepRs_out_wf c n qb qa B Bn q : stepRs dsvd pick tol qd c n qb qa = Some (B, Bn, q) ->
    Forall (@wf CF) B /\ Forall (@wf CF) Bn.
  Proof.
    unfold stepRs, local_right_svd.
    destruct (block_svd dsvd pick (site_mx_r c) qa (qflat (zneg qd) qb) tol) as [[[[U sv] V] q']|]; [|discriminate].
    destruct (Nat.eqb (nr U) (sDr n)); [|discriminate]. intros E. inversion E; subst. split.
    - unfold mx_site_r. apply Forall_forall. intros X HX. apply in_map_iff in HX. destruct HX as (s & <- & _). apply wf_tab.
    - unfold rmul. apply Forall_forall. intros X HX. apply in_map_iff in HX. destruct HX as (Y & <- & _). apply wf_mulmx.
  Qed.

  Lemma stepRs_rel c n qb qa : Forall (@wf CF) c -> Forall (@wf CF) n ->
    stepRs dsvd pick tol qd c n qb qa = omap (mir3 CF) (stepM (trs c) (trs n) (zneg qb) (zneg qa)).
  Proof.
    intros Hc Hn. unfold stepM. rewrite (trs_invol CF c Hc), (trs_invol CF n Hn), !zneg_invol.
    destruct (stepRs dsvd pick tol qd c n qb qa) as [[[B Bn] q]|] eqn:E; [|reflexivity].
    destruct (stepRs_out_wf _ _ _ _ _ _ _ E) as [HB HBn].
    cbn [omap mir3]. rewrite (trs_invol CF B HB), (trs_invol CF Bn HBn), zneg_invol. reflexivity.
  Qed.
  Lemma stepM_out_wf c n qb qa B Bn q : stepM c n qb qa = Some (B, Bn, q) -> Forall (@wf CF) Bn.
  Proof.
    unfold stepM. destruct (stepRs dsvd pick tol qd (trs c) (trs n) (zneg qb) (zneg qa)) as [[[B' Bn'] q']|]; [|discriminate].
    cbn [omap mir3]. intros E. inversion E; subst. apply wf_trs.
  Qed.

  Lemma local_right_svd_spec : local_spec d qd tol stepM okM epsM.
  Proof.
    intros dn Dn cur next qb qa c Hpb Hpa Hdn HsA HspA HsN Hcn Hc Hok.
    assert (HsT : site_shape d (length qa) (length qb) (trs cur) = true) by (apply site_shape_trs; exact HsA).
    assert (HspT : site_qsparse qd (zneg qa) (zneg qb) (trs cur) = true) by (apply (site_qsparse_trs CF d); assumption).
    assert (HsNT : site_shape dn Dn (length qa) (trs next) = true) by (apply site_shape_trs; exact HsN).
    assert (HT := site_shape_site_ok CF d _ _ (trs cur) HsT).
    assert (HNT := site_shape_site_ok CF dn _ _ (trs next) HsNT).
    destruct (site_ok_dims CF d _ _ (trs cur) Hd HT) as (E1 & E2 & E3).
    destruct (site_ok_dims CF dn _ _ (trs next) Hdn HNT) as (F1 & F2 & F3).
    set (M := site_mx_r (trs cur)) in *.
    assert (Hnr : nr M = length qa) by exact E1.
    assert (Hnc : nc M = d * length qb) by (change (nc M) with (length (trs cur) * sDr (trs cur)); congruence).
    assert (Hv : valid_in M (zneg qa) (qflat (zneg qd) (zneg qb)) = true).
    { apply (valid_in_site_mx_r d (length qa) (length qb) (trs cur) qd (zneg qa) (zneg qb) Hd Lqd);
        [apply zneg_length|apply zneg_length|exact HT|apply (site_qsparse_qsp CF); exact HspT]. }
    assert (Hfr : frob M M = emb c).
    { unfold M. rewrite (frob_site_mx_r d _ _ (trs cur) Hd HT). rewrite cn2_trs. exact Hcn. }
    destruct (svd_step_facts F d qd tol dsvd pick Hd Lqd Htol0 Htol1 M (zneg qa) (qflat (zneg qd) (zneg qb)) c Hv Hfr Hc Hok)
      as (u & s & v & q & E & Hwu & Hwv & Hnru & Hncu & Hnrv & Hncv & Hls & Hq1 & Hmin & Huu & Hvv & Hspu & Hspv & He0 & He1 & _ & Hex & _ & Hort2 & HfG & _).
    rewrite Hnr in Hnru. rewrite Hnc in Hncv. rewrite Hnr, Hnc in Hmin.
    set (B := trs (mx_site_r d (length qb) v)). set (G := trmx (scalecols F u s)).
    assert (HnrG : nr G = length q) by exact Hncu.
    assert (HncG : nc G = length qa) by exact Hnru.
    assert (GG : forall i j, i < length q -> j < length qa -> get G i j = get u j i *! emb (nth i s (f0 F))).
    { intros i j Hi Hj. unfold G, trmx. rewrite get_tab by (rewrite ?nc_scalecols, ?nr_scalecols; lia).
      unfold scalecols. rewrite get_tab by lia. reflexivity. }
    assert (HsB : site_shape d (length qb) (length q) B = true).
    { unfold B. apply site_shape_trs. rewrite <- Hnrv. unfold mx_site_r. apply (site_shape_map CF).
      intros s0 _. split; [apply wfb_tab|split; reflexivity]. }
    assert (GB : forall s0 b c', s0 < d -> b < length qb -> c' < length q ->
               get (sel B s0) b c' = get v c' (s0 * length qb + b)).
    { intros s0 b c' Hs0 Hb Hc'. unfold B. rewrite (sel_trs CF). unfold mx_site_r, sel.
      rewrite (nth_map_seq (zeromx 0 0) d (fun s1 => tab (nr v) (length qb) (fun c0 b0 => get v c0 (s1 * length qb + b0))) s0 Hs0).
      unfold trmx. rewrite get_tab by (rewrite ?nr_tab, ?nc_tab; lia). rewrite get_tab by lia. reflexivity. }
    assert (GC : forall s0 a b, s0 < d -> a < length qa -> b < length qb ->
               get M a (s0 * length qb + b) = get (sel cur s0) b a).
    { intros s0 a b Hs0 Ha Hb. unfold M. rewrite (get_site_mx_r d (length qa) (length qb) (trs cur) s0 a b Hd HT Hs0 Ha Hb).
      rewrite (sel_trs CF). destruct (site_shape_sel CF d _ _ cur s0 HsA Hs0) as (_ & Hr & Hc0).
      unfold trmx. rewrite get_tab by lia. reflexivity. }
    exists B, G, (zneg q). rewrite !zneg_length.
    split.
    { unfold stepM, stepRs, local_right_svd. fold M. rewrite E. rewrite Hnru, F2, Nat.eqb_refl. cbn [omap mir3].
      rewrite E3, E2. fold B. f_equal. f_equal. f_equal.
      apply (trs_rmul_trs (scalecols F u s) next).
      apply (Forall_impl _ (P := fun x : mx => wf x /\ nr x = length qa /\ nc x = Dn)); [|apply (site_shape_Forall dn); exact HsN].
      intros x (Hw & Hr & _). split; [exact Hw|]. rewrite nr_scalecols. congruence. }
    split; [apply wf_trmx|]. split; [exact HnrG|]. split; [exact HncG|].
    split; [exact Hq1|]. split; [lia|]. split; [lia|].
    split.
    { intros i j Hi Hj Hnz. rewrite HnrG in Hi. rewrite HncG in Hj. rewrite GG in Hnz by assumption.
      apply (mul_nonzero CF) in Hnz. destruct Hnz as [Hnz _].
      assert (H := Hspu j i ltac:(lia) ltac:(lia) Hnz). rewrite zneg_nth in *. lia. }
    split; [exact HsB|].
    split.
    { apply (site_qsp_qsparse CF). intros s0 b c' Hs0 Hb Hc' Hnz. rewrite zneg_length in Hc'.
      rewrite GB in Hnz by lia.
      assert (H := Hspv c' (s0 * length qb + b) ltac:(lia) ltac:(rewrite Hncv; nia) Hnz).
      replace (s0 * length qb + b) with (s0 * length (zneg qb) + b) in H by (rewrite zneg_length; reflexivity).
      rewrite qflat_nth in H by (rewrite ?zneg_length; lia). rewrite !zneg_nth in H.
      unfold zget. rewrite zneg_nth. lia. }
    split.
    { intros k1 k2 Hk1 Hk2. unfold B at 1. rewrite length_trs. unfold mx_site_r at 1. rewrite map_length, seq_length.
      transitivity (sumn (d * length qb) (fun col => cj (get v k1 col) *! get v k2 col)).
      { rewrite (sumn_flatten CF d (length qb)). apply sumn_ext. intros s0 Hs0. apply sumn_ext. intros a Ha.
        rewrite !GB by assumption. reflexivity. }
      assert (Eg : get (mulmx v (adjmx v)) k2 k1 = get (idmx (length q)) k2 k1) by (rewrite Hvv; reflexivity).
      rewrite get_mulmx in Eg by (rewrite ?nc_adjmx; lia). rewrite get_idmx in Eg by lia.
      rewrite Hncv in Eg. unfold delta. rewrite (Nat.eqb_sym k1 k2). rewrite <- Eg.
      apply sumn_ext. intros col Hcol. rewrite get_adjmx by lia. ring. }
    split; [exact He0|]. split; [exact He1|].
    split; [unfold G; rewrite frob_trmx; exact HfG|].
    split.
    - intros Ht s0 Hs0.
      destruct (site_shape_sel CF d _ _ cur s0 HsA Hs0) as (Hwc & Hrc & Hcc).
      destruct (site_shape_sel CF d _ _ B s0 HsB Hs0) as (Hwb & Hrb & Hcb).
      apply mx_ext; [apply wf_mulmx|exact Hwc|rewrite nr_mulmx; congruence|rewrite nc_mulmx; congruence|].
      rewrite nr_mulmx, nc_mulmx, Hrb, HncG. intros i j Hi Hj.
      rewrite get_mulmx by lia. rewrite Hcb.
      rewrite <- (GC s0 j i Hs0 Hj Hi). rewrite <- (Hex Ht).
      rewrite get_mulmx by (rewrite ?nc_srows; nia). rewrite Hncu.
      apply sumn_ext. intros c' Hc'. rewrite GB, GG by assumption.
      unfold srows. rewrite get_tab by (try nia; lia). ring.
    - intros k1 l Hk1 Hl. rewrite GG by assumption.
      assert (Eg : get (mulmx M (adjmx v)) l k1 = get (scalecols F u s) l k1) by (rewrite Hort2; reflexivity).
      unfold scalecols in Eg at 1. rewrite get_tab in Eg by lia. rewrite <- Eg.
      rewrite get_mulmx by (rewrite ?nc_adjmx; lia). rewrite Hnc.
      rewrite (sumn_flatten CF d (length qb)). apply sumn_ext. intros s0 Hs0. apply sumn_ext. intros a Ha.
      rewrite GB by assumption. rewrite (GC s0 l a Hs0 Hl Ha). rewrite get_adjmx by (try nia; lia). ring.
  Qed.
End CRightLocal.

Arguments okR {F} qd dsvd pick c qb qa. Arguments epsR {F} qd tol dsvd pick c qb qa.
Arguments stepM {F} qd tol dsvd pick. Arguments okM {F} qd dsvd pick c qb qa. Arguments epsM {F} qd tol dsvd pick c qb qa.

(* ---------- mode = 'right' ---------- *)
Section CRightTop.
  Variable F : ofield.
  Add Field Ffield_cright2 : (f_ft F).
  Notation CF := (Cx F).
  Add Ring CFring_cright2 : (k_rt CF).
  Notation mx := (mx CF).
  Notation site := (site CF).
  Infix "*!" := (kmul CF) (at level 40, left associativity).
  Notation cj := (kconj CF).
  Notation emb := (@cof F).

  Variable dqr : mx -> mx * mx.
  Variable dsvd : mx -> mx * list F * mx.
  Variable pick : list F -> list nat.
  Variable cabs : CF -> F.

  Lemma compress_core_mirror (sR sM : step_t CF) (A0 : site) rest q0 qrest :
    sweep sR A0 q0 rest qrest = omap (mirS CF) (sweep sM (trs A0) (zneg q0) (map (@trs CF) rest) (map zneg qrest)) ->
    compress_core cabs sR (A0 :: rest) (q0 :: qrest) =
    omap (mirC F) (compress_core cabs sM (trs A0 :: map (@trs CF) rest) (zneg q0 :: map zneg qrest)).
  Proof.
    intros H. unfold compress_core. rewrite H.
    destruct (sweep sM (trs A0) (zneg q0) (map (@trs CF) rest) (map zneg qrest)) as [[[Bs qs] T]|]; [|reflexivity].
    cbn [omap mirS]. rewrite (is111_trs CF). destruct (is111 T) eqn:E1; [|reflexivity].
    rewrite (get00_trs CF T E1). cbn [omap mirC]. rewrite map_last_scale_trs. reflexivity.
  Qed.

  Lemma chain_shape_wf d Ds (As : list site) : chain_shape d Ds As = true -> Forall (Forall (@wf CF)) As.
  Proof.
    intros H. apply (chain_shape_P CF) in H.
    apply (chainP_Forall (fun Dl Dr A => site_shape d Dl Dr A = true) (Forall (@wf CF))) with (Ds := Ds); [|exact H].
    intros l r A Hs. apply (Forall_impl _ (P := fun x : mx => wf x /\ nr x = l /\ nc x = r)); [tauto|apply (site_shape_Forall F d); exact Hs].
  Qed.

  Theorem compress_right_spec (p : mps CF) (d : nat) (tol : F) :
    1 <= d -> length (m_qd p) = d -> m_A p <> [] -> mps_ok p = true ->
    length (hd [] (m_qD p)) = 1 -> length (last (m_qD p) []) = 1 ->
    Forall (fun q => 1 <= length q) (m_qD p) ->
    fle F (f0 F) tol -> flt F tol (f1 F) ->
    Forall (qr_call_ok F dqr) (mps_orth_calls dqr true p) ->
    (forall p1 n1, mps_orthonormalize dqr true p = Some (p1, n1) -> compress_ok dsvd pick tol false p1) ->
    (forall t, compress_T dqr dsvd pick tol false p = Some t -> abs_ok cabs t) ->
    exists p1 p' nrm sc,
      mps_orthonormalize dqr true p = Some (p1, nrm) /\
      mps_compress dqr dsvd pick cabs tol false p = Some (p', nrm, sc) /\
      m_qd p' = m_qd p /\ length (m_A p') = length (m_A p) /\ mps_ok p' = true /\
      length (hd [] (m_qD p')) = 1 /\ length (last (m_qD p') []) = 1 /\
      Forall (fun q => 1 <= length q) (m_qD p') /\
      bond_bound d (rev (lens (m_qD p'))) (rev (lens (m_qD p1))) /\
      Forall2 le (lens (m_qD p')) (lens (m_qD p)) /\
      chain_riso (lens (m_qD p')) (m_A p') /\
      norm2 d (m_A p') = k1 CF /\
      fle F (f0 F) nrm /\ norm2 d (m_A p) = emb (fmul F nrm nrm) /\
      fle F (f0 F) sc /\
      length (compress_eps dsvd pick tol false p1) = length (m_A p) /\
      (forall e, In e (compress_eps dsvd pick tol false p1) -> fle F (f0 F) e /\ fle F e tol) /\
      fmul F sc sc = fprod (map (fun e => fsub F (f1 F) e) (compress_eps dsvd pick tol false p1)) /\
      (tol = f0 F -> sc = f1 F /\ forall w, length w = length (m_A p) -> letters d w ->
         amp (m_A p) w = emb nrm *! emb sc *! amp (m_A p') w) /\
      suml (words d (length (m_A p))) (fun w => cj (amp (m_A p') w) *! amp (m_A p) w) = emb (fmul F nrm sc).
  Proof.
    intros Hd Lqd Hne Hok Hfirst Hlast Hpos Htol0 Htol1 Hcalls Hsvd Habs.
    destruct (orth_left_spec F dqr p d Hd Lqd Hne Hok Hfirst Hlast Hpos Hcalls)
      as (p1 & nrm & E1 & Hqd1 & Hlen1 & Hok1 & Hhd1 & Hlast1 & Hpos1 & Hbb1 & Hliso1 & Hnrm & Hamp1 & Hn2 & Hn1).
    specialize (Hsvd p1 nrm E1).
    destruct p1 as [qd1 qDs1 As1]. cbn [m_qd m_qD m_A] in *. subst qd1.
    set (qd := m_qd p) in *.
    assert (HneA1 : As1 <> []) by (intros ->; destruct (m_A p); [congruence|simpl in Hlen1; discriminate]).
    unfold mps_ok in Hok1. cbn [m_qd m_qD m_A] in Hok1. rewrite Lqd in Hok1.
    apply andb_true_iff in Hok1. destruct Hok1 as [Hshape1 Hsparse1]. fold (lens qDs1) in Hshape1.
    assert (Hh1 : hd 0 (lens qDs1) = 1) by (rewrite hd_lens, Hhd1; exact Hfirst).
    assert (Hl1 : last (lens qDs1) 0 = 1) by (rewrite last_lens; exact Hlast1).
    destruct (ok_mirror CF d qd As1 qDs1 Lqd Hshape1 Hsparse1) as [HshapeM HsparseM].
    assert (HrisoM : chain_riso (lens (rev (map zneg qDs1))) (rev (map (@trs CF) As1))).
    { rewrite lens_mirror. apply (chain_riso_mirror CF d); assumption. }
    assert (HposM : Forall (fun q => 1 <= length q) (rev (map zneg qDs1))) by (apply pos_mirror; exact Hpos1).
    assert (HhdM : length (hd [] (rev (map zneg qDs1))) = 1).
    { rewrite hd_rev. change (@nil Z) with (zneg []). rewrite last_map_f, zneg_length. exact Hlast1. }
    assert (HlastM : length (last (rev (map zneg qDs1)) []) = 1).
    { rewrite last_rev. change (@nil Z) with (zneg []). rewrite hd_map_f, zneg_length. rewrite Hhd1. exact Hfirst. }
    assert (HwfA1 : Forall (Forall (@wf CF)) (rev As1)) by (apply Forall_rev; apply (chain_shape_wf d (lens qDs1)); exact Hshape1).
    assert (HampM1 : forall w, length w = length As1 -> letters d w -> amp (rev (map (@trs CF) As1)) (rev w) = amp As1 w).
    { intros w Hlw Hw. apply (amp_mirror CF d (lens qDs1)); assumption. }
    rewrite <- (map_rev (@trs CF) As1) in HshapeM, HsparseM, HrisoM, HampM1.
    rewrite <- (map_rev zneg qDs1) in HshapeM, HsparseM, HrisoM, HposM, HhdM, HlastM.
    unfold compress_ok, compress_args in Hsvd. cbn [m_qd m_qD m_A] in Hsvd.
    unfold compress_eps, compress_args. cbn [m_qd m_qD m_A].
    assert (HT : forall t, compress_T dqr dsvd pick tol false p = Some t -> abs_ok cabs t) by exact Habs.
    unfold compress_T in HT. cbn [negb] in HT. rewrite E1 in HT. cbn [m_qd m_qD m_A] in HT. fold qd in HT.
    unfold mps_compress. cbn [negb]. rewrite E1. cbn [m_qd m_qD m_A]. fold qd.
    destruct (rev As1) as [|A0 rest] eqn:EA.
    { exfalso. apply HneA1. rewrite <- (rev_involutive As1), EA. reflexivity. }
    destruct (rev qDs1) as [|q0 qrest] eqn:EQ.
    { unfold lens in HshapeM. cbn [map chain_shape] in HshapeM. discriminate. }
    cbn [map] in *.
    destruct (sweep_mirror_gen CF (stepRs dsvd pick tol qd) (stepM qd tol dsvd pick)
                (stepRs_rel F d qd tol dsvd pick Hd Lqd) (stepM_out_wf F d qd tol dsvd pick Hd Lqd)
                rest A0 q0 qrest (Forall_inv HwfA1) (Forall_inv_tail HwfA1)) as [HSW HARGS].
    assert (Hq0 : length (zneg q0) = 1) by exact HhdM.
    assert (Hlast' : length (last (map zneg qrest) (zneg q0)) = 1).
    { destruct (map zneg qrest) as [|q1 l]; [exact HhdM|]. rewrite (last_irrel q1 l (zneg q0) []). exact HlastM. }
    destruct (compress_core_spec F cabs d qd tol Hd Lqd Htol1 (stepM qd tol dsvd pick) (okM qd dsvd pick) (epsM qd tol dsvd pick)
                (local_right_svd_spec F d qd tol dsvd pick Hd Lqd Htol0 Htol1)
                (trs A0) (map (@trs CF) rest) (zneg q0) (map zneg qrest) HshapeM HsparseM HposM Hq0 Hlast' HrisoM)
      as (Bs & qsM & sc & EC & HlAs & HsAs & HqAs & HpAs & HlastAs & Hbb & Hli & Hn1' & Hsc0 & Hlen & Heps & Hsq & Hex & Hovl).
    { apply Forall_forall. intros a Ha. rewrite Forall_forall in Hsvd. rewrite HARGS in Hsvd.
      exact (Hsvd (mirA a) (in_map mirA _ a Ha)). }
    { intros T (As & qs & ES) H111. apply HT. rewrite HSW, ES. cbn [omap mirS]. rewrite (get00_trs CF T H111). reflexivity. }
    rewrite (compress_core_mirror _ _ A0 rest q0 qrest HSW). rewrite EC. cbn [omap mirC].
    set (qs2 := zneg q0 :: qsM) in *.
    eexists. eexists. exists nrm, sc. split; [reflexivity|]. split; [reflexivity|]. cbn [m_qd m_qD m_A].
    rewrite map_length in HlAs.
    assert (HL : length (m_A p) = S (length rest)).
    { rewrite <- Hlen1. rewrite <- (rev_length As1), EA. reflexivity. }
    destruct (ok_mirror CF d qd Bs qs2 Lqd HsAs HqAs) as [Hshape3 Hsparse3].
    assert (Hhd2 : hd 0 (lens qs2) = 1) by exact Hq0.
    assert (Hls2 : last (lens qs2) 0 = 1) by (unfold lens, qs2; rewrite (last_lens_cons (zneg q0) qsM); exact HlastAs).
    assert (HneB : Bs <> []) by (intros ->; simpl in HlAs; discriminate).
    assert (Hriso : chain_riso (lens (rev (map zneg qs2))) (rev (map (@trs CF) Bs))).
    { rewrite lens_mirror. apply (chain_riso_mirror CF d); assumption. }
    assert (HampM2 : forall w, length w = length Bs -> letters d w -> amp (rev (map (@trs CF) Bs)) w = amp Bs (rev w)).
    { intros w Hlw Hw. rewrite <- (rev_involutive w) at 1.
      apply (amp_mirror CF d (lens qs2) Bs (rev w) HsAs Hhd2 Hls2 HneB); [rewrite rev_length; exact Hlw|apply Forall_rev; exact Hw]. }
    assert (HlA1 : length As1 = S (length rest)) by lia.
    split; [reflexivity|]. split; [rewrite rev_length, map_length; lia|].
    split. { unfold mps_ok. cbn [m_qd m_qD m_A]. fold qd. rewrite Lqd. fold (lens (rev (map zneg qs2))). rewrite Hshape3, Hsparse3. reflexivity. }
    split. { rewrite hd_rev. change (@nil Z) with (zneg []). rewrite last_map_f, zneg_length.
             unfold qs2. destruct qsM as [|q1 l]; [exact Hq0|]. change (length (last (q1 :: l) []) = 1). rewrite (last_irrel q1 l [] (zneg q0)). exact HlastAs. }
    split. { rewrite last_rev. change (@nil Z) with (zneg []). rewrite hd_map_f, zneg_length. exact Hq0. }
    split; [apply pos_mirror; exact HpAs|].
    assert (Elens : rev (lens qDs1) = lens (zneg q0 :: map zneg qrest)).
    { unfold lens. rewrite <- map_rev, EQ. cbn [map]. rewrite zneg_length, map_map. f_equal. apply map_ext. intros x. symmetry. apply zneg_length. }
    split. { rewrite lens_mirror, rev_involutive. rewrite Elens. exact Hbb. }
    split.
    { rewrite lens_mirror. apply (Forall2_le_trans _ (lens qDs1)).
      - rewrite <- (rev_involutive (lens qDs1)). apply Forall2_rev_c13. rewrite Elens.
        apply (bond_bound_le d); [exact Hbb|lia].
      - destruct (lens qDs1) as [|x a] eqn:Ea; destruct (lens (m_qD p)) as [|y b] eqn:Eb; try (simpl in Hbb1; contradiction).
        { destruct a; simpl in Hbb1; contradiction. }
        apply (bond_bound_le d); [exact Hbb1|].
        assert (Hx : x = 1) by (simpl in Hh1; exact Hh1).
        assert (Hy : y = length (hd [] (m_qD p))) by (rewrite <- hd_lens, Eb; reflexivity). lia. }
    split; [exact Hriso|].
    assert (Hn1'' : norm2 d (rev (map (@trs CF) Bs)) = k1 CF).
    { apply (riso_chain_norm CF d (lens (rev (map zneg qs2)))); [exact Hshape3|exact Hriso| |].
      - rewrite lens_mirror, hd_rev. exact Hls2.
      - rewrite lens_mirror, last_rev. exact Hhd2. }
    split; [exact Hn1''|]. split; [exact Hnrm|]. split; [exact Hn2|]. split; [exact Hsc0|].
    rewrite EA, EQ, HARGS.
    split; [rewrite !map_length, Hlen, map_length; lia|].
    split. { intros e He. apply in_map_iff in He. destruct He as (a' & <- & Ha'). apply in_map_iff in Ha'. destruct Ha' as (a & <- & Ha).
             rewrite Forall_forall in Heps. exact (Heps a Ha). }
    split. { rewrite Hsq. rewrite !map_map. reflexivity. }
    split.
    - intros Ht. destruct (Hex Ht) as [Hone Hw]. split; [exact Hone|].
      intros w Hlw Hlet. rewrite (Hamp1 w Hlw Hlet).
      rewrite <- (HampM1 w ltac:(lia) Hlet).
      rewrite (Hw (rev w) ltac:(rewrite rev_length, map_length; lia) ltac:(apply Forall_rev; exact Hlet)).
      rewrite (HampM2 w ltac:(lia) Hlet). ring.
    - rewrite HL. rewrite map_length in Hovl.
      rewrite cof_mul. rewrite <- Hovl.
      rewrite <- (suml_words_rev CF d (S (length rest)) (fun u => cj (amp Bs u) *! amp (trs A0 :: map (@trs CF) rest) u)).
      rewrite <- suml_scal_l. apply suml_ext. intros w Hw.
      apply words_ok in Hw. destruct Hw as [Hlw Hw].
      rewrite (HampM2 w ltac:(lia) Hw). rewrite (HampM1 w ltac:(lia) Hw). rewrite (Hamp1 w ltac:(lia) Hw). ring.
  Qed.

  Theorem compress_right_error (p : mps CF) (d : nat) (tol : F) :
    1 <= d -> length (m_qd p) = d -> m_A p <> [] -> mps_ok p = true ->
    length (hd [] (m_qD p)) = 1 -> length (last (m_qD p) []) = 1 ->
    Forall (fun q => 1 <= length q) (m_qD p) ->
    fle F (f0 F) tol -> flt F tol (f1 F) ->
    Forall (qr_call_ok F dqr) (mps_orth_calls dqr true p) ->
    (forall p1 n1, mps_orthonormalize dqr true p = Some (p1, n1) -> compress_ok dsvd pick tol false p1) ->
    (forall t, compress_T dqr dsvd pick tol false p = Some t -> abs_ok cabs t) ->
    exists p' nrm sc,
      mps_compress dqr dsvd pick cabs tol false p = Some (p', nrm, sc) /\
      fle F (fsub F (f1 F) (nsmul (length (m_A p)) tol)) (fmul F sc sc) /\ fle F (fmul F sc sc) (f1 F) /\
      dist2 d (emb (fmul F nrm sc)) (m_A p') (m_A p) = emb (fmul F (fmul F nrm nrm) (fsub F (f1 F) (fmul F sc sc))) /\
      fle F (fmul F (fmul F nrm nrm) (fsub F (f1 F) (fmul F sc sc))) (fmul F (fmul F nrm nrm) (nsmul (length (m_A p)) tol)).
  Proof.
    intros Hd Lqd Hne Hok Hf Hl Hpos Ht0 Ht1 Hq Hs Ha.
    destruct (compress_right_spec p d tol Hd Lqd Hne Hok Hf Hl Hpos Ht0 Ht1 Hq Hs Ha)
      as (p1 & p' & nrm & sc & _ & E & _ & Hlen & _ & _ & _ & _ & _ & _ & _ & Hn1 & _ & Hn2 & _ & Hle & Heps & Hsq & _ & Hov).
    exists p', nrm, sc. split; [exact E|]. rewrite <- Hle.
    apply (scale_and_error F d (m_A p) (m_A p') nrm sc tol (compress_eps dsvd pick tol false p1)); assumption.
  Qed.
End CRightTop.
