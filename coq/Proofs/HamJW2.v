(* C06, Jordan-Wigner link for every L -- part 2: both sides as explicit formal sums, and the main theorem
     fh_expand half (fermi_formula t U mu L) v  =  pcoef (fh_jw half t U mu L) v        for every L and every mode word v.
   Left: linearity of [fh_expand]; the expansion of a padded local word is a short explicit formal sum ([Ew_cons],
   [Ew_pad_left], [Ew_rep0]).  Right: [pcoef] of sums, multiples and products of monomials, with the normal forms of part 1. *)
From Coq Require Import ZArith List Lia Bool Arith Ring.
From PT Require Import Base.Scalar Base.BigSum Base.Mx Model.OpGraph Model.FromOpchains Model.GraphMPO Model.Molecular Model.MolFormula
                       Model.Hamiltonians Model.HamFormulas Proofs.PampDen_C05 Proofs.HamJWDefs Proofs.HamJW1.
Import ListNotations.
Local Open Scope nat_scope.

Lemma list_ind2 {A} (P : list A -> Prop) :
  P [] -> (forall x, P [x]) -> (forall x y v, P v -> P (x :: y :: v)) -> forall v, P v.
Proof. intros H0 H1 H2. fix IH 1. intros [|x [|y v]]; [exact H0|apply H1|apply H2, IH]. Qed.

Lemma fh_etab_out (R : cring) (half : R) o : ~ In o fh_alpha -> fh_etab half o = [].
Proof.
  intros H. unfold fh_etab.
  repeat match goal with |- context [Z.eqb o ?k] => destruct (Z.eqb_spec o k) as [E|_]; [exfalso; apply H; rewrite E; cbn; tauto|] end.
  reflexivity.
Qed.
Lemma fh_alpha_nodup : NoDup fh_alpha.
Proof. unfold fh_alpha. repeat (constructor; [cbn; intros H; repeat (destruct H as [H|H]; [discriminate H|]); exact H|]). constructor. Qed.

Section JW2.
  Variable R : cring.
  Add Ring Rring_jw2 : (k_rt R).
  Notation "0r" := (k0 R). Notation "1r" := (k1 R).
  Infix "+r" := (kadd R) (at level 50, left associativity).
  Infix "*r" := (kmul R) (at level 40, left associativity).
  Infix "-r" := (ksub R) (at level 50, left associativity).
  Notation pol := (pol R).
  Variable half : R.
  Notation E := (fh_expand half). Notation Ew := (fh_Ew half). Notation e := (fh_e half).

  Lemma indb_and b c : @indb R (b && c) = indb b *r indb c.
  Proof. destruct b, c; cbn; ring. Qed.

  (* ---------------- pcoef calculus ---------------- *)
  Lemma suml_flat_map' {A B} (f : A -> list B) (l : list A) (g : B -> R) :
    suml (flat_map f l) g = suml l (fun a => suml (f a) g).
  Proof. induction l as [|a l IH]; cbn [flat_map suml]; [reflexivity|]. rewrite suml_app, IH. reflexivity. Qed.
  Lemma pcoef_app (p q : pol) v : pcoef (padd p q) v = pcoef p v +r pcoef q v.
  Proof. apply suml_app. Qed.
  Lemma pcoef_scal c (p : pol) v : pcoef (pscal c p) v = c *r pcoef p v.
  Proof. unfold pcoef, pscal. rewrite suml_map, <- suml_scal_l. apply suml_ext. intros a _. cbn [fst snd]. ring. Qed.
  Lemma pcoef_psum n (F : nat -> pol) v : pcoef (psum n F) v = sumn n (fun i => pcoef (F i) v).
  Proof. unfold pcoef at 1, psum. rewrite suml_flat_map', suml_seq. reflexivity. Qed.
  Lemma pcoef_single c u v : pcoef [(c, u)] v = c *r indb (opw_eqb u v).
  Proof. unfold pcoef. cbn [suml fst snd]. ring. Qed.
  Lemma pcoef_nil v : pcoef (@nil (R * list op)) v = 0r.
  Proof. reflexivity. Qed.
  Lemma pcoef_cons a (p : pol) v : pcoef (a :: p) v = fst a *r indb (opw_eqb (snd a) v) +r pcoef p v.
  Proof. reflexivity. Qed.
  Lemma pmul_mono (c1 c2 : R) u1 u2 u : wmul u1 u2 = Some (false, u) -> pmul [(c1, u1)] [(c2, u2)] = [(c1 *r c2, u)].
  Proof. intros H. unfold pmul, mono_mul. cbn [flat_map fst snd app]. rewrite H. reflexivity. Qed.

  (* ---------------- linearity of the letter substitution ---------------- *)
  Lemma E_ext f g v : (forall w, f w = g w) -> E f v = E g v.
  Proof.
    revert f g. induction v as [| x | x y v IH] using list_ind2; intros f g H; cbn [fh_expand]; [apply H|reflexivity|].
    apply suml_ext. intros o _. f_equal. apply IH. intros w. apply H.
  Qed.
  Lemma E_zero v : E (fun _ => 0r) v = 0r.
  Proof.
    induction v as [| x | x y v IH] using list_ind2; cbn [fh_expand]; try reflexivity.
    apply suml_zero. intros o _. rewrite IH. ring.
  Qed.
  Lemma E_add f g v : E (fun w => f w +r g w) v = E f v +r E g v.
  Proof.
    revert f g. induction v as [| x | x y v IH] using list_ind2; intros f g; cbn [fh_expand]; [reflexivity|ring|].
    rewrite <- suml_add. apply suml_ext. intros o _. rewrite IH. ring.
  Qed.
  Lemma E_scal c f v : E (fun w => c *r f w) v = c *r E f v.
  Proof.
    revert f. induction v as [| x | x y v IH] using list_ind2; intros f; cbn [fh_expand]; [reflexivity|ring|].
    rewrite <- suml_scal_l. apply suml_ext. intros o _. rewrite IH. ring.
  Qed.
  Lemma E_sub f g v : E (fun w => f w -r g w) v = E f v -r E g v.
  Proof.
    rewrite (E_ext _ (fun w => f w +r kopp R 1r *r g w)) by (intros; ring).
    rewrite E_add, E_scal. ring.
  Qed.
  Lemma E_sumn n (F : nat -> list Z -> R) v : E (fun w => sumn n (fun i => F i w)) v = sumn n (fun i => E (F i) v).
  Proof.
    induction n as [|n IH]; cbn [sumn]; [apply E_zero|]. rewrite E_add, IH. reflexivity.
  Qed.

  Lemma e_out o x y : ~ In o fh_alpha -> e o x y = 0r.
  Proof. intros H. unfold fh_e. rewrite fh_etab_out by exact H. reflexivity. Qed.

  (* a single word: the sum over site words collapses *)
  Lemma E_word w0 v : E (fun w => indb (zlist_eqb w0 w)) v = Ew w0 v.
  Proof.
    revert w0. induction v as [| x | x y v IH] using list_ind2; intros w0.
    - destruct w0; reflexivity.
    - destruct w0; reflexivity.
    - cbn [fh_expand]. destruct w0 as [|o0 w0]; cbn [fh_Ew].
      + apply suml_zero. intros o _. cbn [zlist_eqb indb]. rewrite E_zero. ring.
      + rewrite (suml_ext _ _ _ (fun o => if Z.eqb o0 o then e o0 x y *r Ew w0 v else 0r)).
        * destruct (in_dec Z.eq_dec o0 fh_alpha) as [Hin|Hout].
          -- rewrite (suml_single_z R fh_alpha o0); [rewrite Z.eqb_refl; reflexivity|apply fh_alpha_nodup|exact Hin|].
             intros o _ Hne. destruct (Z.eqb_spec o0 o); [congruence|reflexivity].
          -- rewrite (e_out _ _ _ Hout). rewrite suml_zero; [ring|]. intros o _. destruct (o0 =? o)%Z; ring.
        * intros o _. cbn [zlist_eqb]. destruct (Z.eqb_spec o0 o) as [->|_]; cbn [andb].
          -- rewrite IH. reflexivity.
          -- cbn [indb]. rewrite E_zero. ring.
  Qed.

  (* ---------------- the expansion of a padded local word is a short explicit formal sum ---------------- *)
  Definition tens (T : list (R * (op * op))) (P : pol) : pol :=
    flat_map (fun c => map (fun a => (fst c *r fst a, fst (snd c) :: snd (snd c) :: snd a)) P) T.
  Definition pre (l : list op) (P : pol) : pol := map (fun a => (fst a, l ++ snd a)) P.

  Lemma Ew_cons o w (P : pol) : (forall v', Ew w v' = pcoef P v') ->
    forall v, Ew (o :: w) v = pcoef (tens (fh_etab half o) P) v.
  Proof.
    intros H v. unfold tens, pcoef. rewrite suml_flat_map'.
    destruct v as [|x [|y v']]; cbn [fh_Ew].
    - symmetry. apply suml_zero. intros c _. rewrite suml_map. apply suml_zero. intros a _. cbn [fst snd opw_eqb indb]. ring.
    - symmetry. apply suml_zero. intros c _. rewrite suml_map. apply suml_zero. intros a _. cbn [fst snd opw_eqb].
      rewrite andb_false_r. cbn [indb]. ring.
    - rewrite H. unfold fh_e, pcoef. rewrite <- suml_scal_r. apply suml_ext. intros c _.
      rewrite suml_map, <- suml_scal_l. apply suml_ext. intros a _. cbn [fst snd opw_eqb]. rewrite !indb_and. ring.
  Qed.
  Lemma Ew_nil v : Ew [] v = pcoef [(1r, [])] v.
  Proof. rewrite pcoef_single. destruct v; cbn [fh_Ew opw_eqb indb]; ring. Qed.
  Lemma two_S r : 2 * S r = S (S (2 * r)).
  Proof. lia. Qed.
  Lemma Ew_rep0 r : forall v, Ew (repeat 0%Z r) v = pcoef [(1r, repeat OI (2 * r))] v.
  Proof.
    induction r as [|r IH]; intros v; [apply Ew_nil|].
    cbn [repeat]. rewrite (Ew_cons 0%Z _ _ IH). change (fh_etab half 0) with [(1r, (OI, OI))].
    cbn [tens flat_map map app fst snd]. rewrite two_S. cbn [repeat]. rewrite !pcoef_single. ring.
  Qed.
  Lemma Ew_pad_left i w (P : pol) : (forall v', Ew w v' = pcoef P v') ->
    forall v, Ew (repeat 0%Z i ++ w) v = pcoef (pre (repeat OI (2 * i)) P) v.
  Proof.
    intros H. induction i as [|i IH]; intros v.
    - cbn [repeat app]. rewrite H. unfold pre, pcoef. rewrite suml_map. reflexivity.
    - cbn [repeat app]. rewrite (Ew_cons 0%Z _ _ IH). change (fh_etab half 0) with [(1r, (OI, OI))].
      unfold tens, pre, pcoef. cbn [flat_map]. rewrite app_nil_r, !suml_map. apply suml_ext. intros a _.
      cbn [fst snd]. rewrite two_S. cbn [repeat app]. ring.
  Qed.

  (* two-site words whose letters are single pairs *)
  Lemma Ew_two L i a b x1 y1 x2 y2 : fh_etab half a = [(1r, (x1, y1))] -> fh_etab half b = [(1r, (x2, y2))] ->
    forall v, Ew (padw L 0 [a; b] i) v = pcoef [(1r, mw (2 * i) [x1; y1; x2; y2] (2 * (L - 2 - i)))] v.
  Proof.
    intros Ha Hb v. unfold padw. cbn [length app].
    rewrite (Ew_pad_left i _ _ (Ew_cons a _ _ (Ew_cons b _ _ (Ew_rep0 (L - 2 - i))))). rewrite Ha, Hb.
    cbn [tens pre flat_map map app fst snd]. unfold mw. cbn [app]. rewrite !pcoef_single. ring.
  Qed.
  (* one-site words *)
  Lemma Ew_one L i a : forall v, Ew (padw L 0 [a] i) v =
    pcoef (pre (repeat OI (2 * i)) (tens (fh_etab half a) [(1r, repeat OI (2 * (L - 1 - i)))])) v.
  Proof.
    intros v. unfold padw. cbn [length app]. apply (Ew_pad_left i _ _ (Ew_cons a _ _ (Ew_rep0 (L - 1 - i)))).
  Qed.

  (* ---------------- term by term ---------------- *)
  Lemma hop_term L i v : S i < L ->
    E (fun w => T2 L 3 2 i w +r T2 L 4 1 i w +r T2 L 5 8 i w +r T2 L 6 7 i w) v =
    pcoef (psum 2 (fun s => padd (pmul (pcre (2 * L) (md i s)) (pann (2 * L) (md (S i) s)))
                                 (pmul (pcre (2 * L) (md (S i) s)) (pann (2 * L) (md i s))))) v.
  Proof.
    intros Hi. rewrite !E_add. unfold T2, is_word. rewrite !E_word.
    rewrite (Ew_two L i 3 2 OC OZ OA OI), (Ew_two L i 4 1 OA OZ OC OI), (Ew_two L i 5 8 OI OC OZ OA),
            (Ew_two L i 6 7 OI OA OZ OC) by reflexivity.
    rewrite pcoef_psum. cbn [sumn]. rewrite !pcoef_app. unfold pcre, pann.
    rewrite (pmul_mono _ _ _ _ _ (hop_up_nf L i Hi)), (pmul_mono _ _ _ _ _ (hop_up_rev_nf L i Hi)),
            (pmul_mono _ _ _ _ _ (hop_dn_nf L i Hi)), (pmul_mono _ _ _ _ _ (hop_dn_rev_nf L i Hi)).
    rewrite !pcoef_single. ring.
  Qed.
  Lemma pnum_up L i : i < L -> pnum (2 * L) (md i 0) = [(1r *r 1r, mw (2 * i) [ON; OI] (2 * (L - 1 - i)))].
  Proof. intros Hi. unfold pnum, pcre, pann. apply pmul_mono, num_up_nf, Hi. Qed.
  Lemma pnum_dn L i : i < L -> pnum (2 * L) (md i 1) = [(1r *r 1r, mw (2 * i) [OI; ON] (2 * (L - 1 - i)))].
  Proof. intros Hi. unfold pnum, pcre, pann. apply pmul_mono, num_dn_nf, Hi. Qed.
  Lemma num_term L i v : i < L ->
    E (fun w => T1 L 9 i w) v = pcoef (padd (pnum (2 * L) (md i 0)) (pnum (2 * L) (md i 1))) v.
  Proof.
    intros Hi. unfold T1, is_word. rewrite E_word, Ew_one. change (fh_etab half 9) with [(1r, (ON, OI)); (1r, (OI, ON))].
    rewrite (pnum_up L i Hi), (pnum_dn L i Hi), pcoef_app.
    cbn [tens pre flat_map map app fst snd]. unfold mw. cbn [app]. rewrite !pcoef_cons, !pcoef_nil. cbn [fst snd]. ring.
  Qed.
  Lemma int_term L i v : i < L ->
    E (fun w => T1 L 10 i w) v =
    pcoef (pmul (psub (pnum (2 * L) (md i 0)) (pscal half (pone (2 * L)))) (psub (pnum (2 * L) (md i 1)) (pscal half (pone (2 * L))))) v.
  Proof.
    intros Hi. unfold T1, is_word. rewrite E_word, Ew_one.
    change (fh_etab half 10) with [(1r, (ON, ON)); (kopp R half, (ON, OI)); (kopp R half, (OI, ON)); (half *r half, (OI, OI))].
    rewrite (pnum_up L i Hi), (pnum_dn L i Hi). unfold pone. rewrite (one_nf L i Hi).
    unfold psub, pscal, padd. cbn [map app fst snd]. unfold pmul. cbn [flat_map app]. unfold mono_mul. cbn [fst snd].
    rewrite !(site_mul L i) by reflexivity. cbn [wmul omul xorb app].
    cbn [tens pre flat_map map app fst snd]. unfold mw. cbn [app]. rewrite !pcoef_cons, !pcoef_nil. cbn [fst snd]. ring.
  Qed.

  (* ---------------- the theorem ---------------- *)
  Theorem fermi_jw_all_L (t U mu : R) L v :
    E (fermi_formula t U mu L) v = pcoef (fh_jw half t U mu L) v.
  Proof.
    unfold fermi_formula, fh_jw. cbv zeta.
    rewrite E_add, E_sub, !E_scal, !E_sumn.
    rewrite !pcoef_app, !pcoef_scal, !pcoef_psum.
    match goal with
    | |- _ *r sumn ?n1 ?f1 -r _ *r sumn ?n2 ?f2 +r _ *r sumn ?n3 ?f3 = _ *r sumn _ ?g1 +r _ *r sumn _ ?g3 +r _ *r sumn _ ?g2 =>
        rewrite (sumn_ext R n1 f1 g1), (sumn_ext R n2 f2 g2), (sumn_ext R n3 f3 g3)
    end.
    - ring.
    - intros i Hi. apply int_term. exact Hi.
    - intros i Hi. apply num_term. exact Hi.
    - intros i Hi. apply hop_term. lia.
  Qed.
End JW2.
