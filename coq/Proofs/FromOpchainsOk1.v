(* C05 success, part 1: helper lemmas (folds over [res], adjacency lists, premove on duplicate-free lists,
   freshness, extra facts about the site partition). *)
From Coq Require Import ZArith List Lia Bool.
From PT Require Import Base.Scalar Base.BigSum Model.OpGraph Model.FromOpchains
                       Proofs.FromOpchainsGraph Proofs.FromOpchainsPart Proofs.FromOpchainsSem.
Import ListNotations.
Open Scope Z_scope.

(* a fold over [res] succeeds when every step does; the invariant is indexed by the number of processed items *)
Lemma fold_res_ok {A B} (f : res A -> B -> res A) : forall (l : list B) (I : nat -> A -> Prop) a,
  I O a ->
  (forall n a b, nth_error l n = Some b -> I n a -> exists a', f (Ok a) b = Ok a' /\ I (S n) a') ->
  exists a', fold_left f l (Ok a) = Ok a' /\ I (length l) a'.
Proof.
  induction l as [|b l IH]; intros I a H0 Hs; simpl.
  - exists a. auto.
  - destruct (Hs O a b eq_refl H0) as [a1 [E1 I1]]. rewrite E1.
    apply (IH (fun n => I (S n)) a1 I1). intros n x y Hn Hx. apply (Hs (S n) x y Hn Hx).
Qed.

Lemma firstn_S_nth {A} (l : list A) n b : nth_error l n = Some b -> firstn (S n) l = firstn n l ++ [b].
Proof.
  revert n. induction l as [|a l IH]; intros [|n] H; simpl in *; try discriminate.
  - inversion H; reflexivity.
  - f_equal. apply IH. exact H.
Qed.
Lemma nth_notin_firstn {A} (l : list A) n b : NoDup l -> nth_error l n = Some b -> ~ In b (firstn n l).
Proof.
  revert n. induction l as [|a l IH]; intros [|n] Hn H; simpl in *; try discriminate; auto.
  inversion Hn; subst. intros [E|E].
  - subst. apply H2. eapply nth_error_In. exact H.
  - revert E. apply IH; auto.
Qed.

(* ---- nat lists ---- *)
Lemma nmem_In x l : existsb (Nat.eqb x) l = true <-> In x l.
Proof.
  rewrite existsb_exists. split.
  - intros [y [H E]]. apply Nat.eqb_eq in E. subst. exact H.
  - intros H. exists x. split; auto. apply Nat.eqb_refl.
Qed.
Lemma nodupn_NoDup l : nodupn l = true -> NoDup l.
Proof.
  induction l as [|x l IH]; simpl; intros H; [constructor|]. apply andb_true_iff in H. destruct H as [H1 H2].
  constructor; [|apply IH; exact H2]. intros Hin. apply nmem_In in Hin. rewrite Hin in H1. discriminate.
Qed.

(* ---- adjacency lists of BipartiteGraph ---- *)
Lemma adj_gen_spec (key val : nat * nat -> nat) (es : list (nat * nat)) (i : nat) : forall acc,
  NoDup acc ->
  let r := fold_left (fun acc e => if Nat.eqb (key e) i then (if existsb (Nat.eqb (val e)) acc then acc else acc ++ [val e]) else acc) es acc in
  NoDup r /\ forall j, In j r <-> In j acc \/ exists e, In e es /\ key e = i /\ val e = j.
Proof.
  induction es as [|e es IH]; intros acc Hn; cbn [fold_left].
  - cbn zeta. split; [exact Hn|]. intros j. split; [auto|]. intros [H|[e [[] _]]]. exact H.
  - destruct (Nat.eqb (key e) i) eqn:E.
    + apply Nat.eqb_eq in E. destruct (existsb (Nat.eqb (val e)) acc) eqn:Em.
      * destruct (IH acc Hn) as [A B]. cbn zeta. split; [exact A|]. intros j. rewrite B. split.
        -- intros [H|[x [Hx Hk]]]; [left; exact H|right; exists x; split; [right; exact Hx|exact Hk]].
        -- intros [H|[x [[Hx|Hx] [Hk Hv]]]]; [left; exact H| |right; exists x; auto].
           subst x. left. apply nmem_In in Em. congruence.
      * assert (Hn' : NoDup (acc ++ [val e])).
        { apply NoDup_app_end; [exact Hn|]. intros Hin. apply nmem_In in Hin. congruence. }
        destruct (IH _ Hn') as [A B]. cbn zeta. split; [exact A|]. intros j. rewrite B, in_app_iff. split.
        -- intros [[H|[H|[]]]|[x [Hx Hk]]]; [left; exact H| |right; exists x; split; [right; exact Hx|exact Hk]].
           right. exists e. split; [left; reflexivity|auto].
        -- intros [H|[x [[Hx|Hx] [Hk Hv]]]]; [left; left; exact H| |right; exists x; auto].
           subst x. left. right. left. exact Hv.
    + destruct (IH acc Hn) as [A B]. cbn zeta. split; [exact A|]. intros j. rewrite B. split.
      * intros [H|[x [Hx Hk]]]; [left; exact H|right; exists x; split; [right; exact Hx|exact Hk]].
      * intros [H|[x [[Hx|Hx] [Hk Hv]]]]; [left; exact H| |right; exists x; auto].
        subst x. apply Nat.eqb_neq in E. contradiction.
Qed.
Lemma adj_u_spec es i : NoDup (adj_u es i) /\ forall j, In j (adj_u es i) <-> In (i, j) es.
Proof.
  destruct (adj_gen_spec fst snd es i [] (NoDup_nil _)) as [A B]. split; [exact A|].
  intros j. unfold adj_u. rewrite B. split.
  - intros [[]|[[a b] [H [E1 E2]]]]. simpl in *. subst. exact H.
  - intros H. right. exists (i, j). auto.
Qed.
Lemma adj_v_spec es j : NoDup (adj_v es j) /\ forall i, In i (adj_v es j) <-> In (i, j) es.
Proof.
  destruct (adj_gen_spec snd fst es j [] (NoDup_nil _)) as [A B]. split; [exact A|].
  intros i. unfold adj_v. rewrite B. split.
  - intros [[]|[[a b] [H [E1 E2]]]]. simpl in *. subst. exact H.
  - intros H. right. exists (i, j). auto.
Qed.

(* ---- list.remove on a duplicate-free list ---- *)
Lemma premove_spec e l : NoDup l -> NoDup (premove e l) /\ forall x, In x (premove e l) <-> In x l /\ x <> e.
Proof.
  induction l as [|a l IH]; simpl; intros Hn.
  - split; [constructor|]. intros x. tauto.
  - inversion Hn as [|? ? Ha Hl]; subst. destruct (pair_eqb e a) eqn:E.
    + apply pair_eqb_eq in E. subst a. split; [exact Hl|]. intros x. split.
      * intros H. split; [right; exact H|]. intros ->. contradiction.
      * intros [[H|H] Hne]; [congruence|exact H].
    + destruct (IH Hl) as [A B]. split.
      * constructor; [|exact A]. rewrite B. tauto.
      * intros x. simpl. rewrite B. split.
        -- intros [H|[H1 H2]]; [subst; split; [left; reflexivity|]|tauto].
           intros ->. assert (pair_eqb e e = true) by (apply pair_eqb_eq; reflexivity). congruence.
        -- intros [[H|H] Hne]; [left; exact H|right; tauto].
Qed.

Section Fresh.
  Variable R : cring.
  Notation graph := (graph R).

  Lemma has_node_fresh (g : graph) nb eb : ginv R g nb eb -> has_node g nb = false.
  Proof.
    intros [H _]. unfold has_node. destruct (existsb (fun n => n_id n =? nb) (g_nodes g)) eqn:E; [|reflexivity].
    apply existsb_exists in E. destruct E as [n [Hn E]]. apply Z.eqb_eq in E.
    rewrite Forall_forall in H. destruct (H n Hn) as [A _]. lia.
  Qed.
  Lemma has_edge_fresh (g : graph) nb eb : ginv R g nb eb -> has_edge_id g eb = false.
  Proof.
    intros [_ H]. unfold has_edge_id. destruct (existsb (fun e => e_id e =? eb) (g_edges g)) eqn:E; [|reflexivity].
    apply existsb_exists in E. destruct E as [e [He E]]. apply Z.eqb_eq in E.
    rewrite Forall_forall in H. specialize (H e He). simpl in H. lia.
  Qed.

  (* nodes persist with their charges *)
  Definition keeps (g g' : graph) : Prop :=
    forall m n, find_node g m = Some n -> exists n', find_node g' m = Some n' /\ n_q n' = n_q n.
  Lemma keeps_refl g : keeps g g. Proof. intros m n H. exists n. auto. Qed.
  Lemma keeps_trans g1 g2 g3 : keeps g1 g2 -> keeps g2 g3 -> keeps g1 g3.
  Proof. intros A B m n H. destruct (A m n H) as [n' [H1 E1]]. destruct (B m n' H1) as [n'' [H2 E2]]. exists n''. split; [exact H2|congruence]. Qed.
  Lemma keeps_upd_eid (g : graph) a x d : keeps g (upd_node g a (node_add_eid x d)).
  Proof.
    intros m n H. rewrite find_node_upd by (intros; apply node_add_eid_id). rewrite H. simpl.
    eexists. split; [reflexivity|]. destruct (n_id n =? a); [destruct d; reflexivity|reflexivity].
  Qed.
  Lemma keeps_add_edge (g : graph) e g1 : add_edge g e = Some g1 -> keeps g g1.
  Proof. intros H. apply add_edge_spec in H. destruct H as [-> _]. intros m n Hm. exists n. auto. Qed.
  Lemma keeps_add_node (g : graph) n0 g1 : add_node g n0 = Some g1 -> keeps g g1.
  Proof.
    intros H. apply add_node_spec in H. destruct H as [-> Hn]. intros m n Hm. exists n. split; [|reflexivity].
    unfold find_node in *. cbn [g_nodes]. rewrite find_app, Hm. reflexivity.
  Qed.
  Lemma keeps_connect (g : graph) e g1 : add_connect_edge g e = Some g1 -> keeps g g1.
  Proof.
    unfold add_connect_edge. destruct (add_edge g e) as [ga|] eqn:Ea; [|discriminate]. intros H. inversion H; subst.
    eapply keeps_trans; [eapply keeps_add_edge; eauto|]. eapply keeps_trans; apply keeps_upd_eid.
  Qed.
End Fresh.

Lemma zlist_eqb_refl_p a : zlist_eqb a a = true.
Proof. apply zlist_eqb_eq. reflexivity. Qed.

(* ---- more about the site partition: a relation between the U and V ends of every edge, non-emptiness ---- *)
Section PartMore.
  Variable R : cring.
  Notation part := (part R).

  Definition edge_rel (Q : unode -> hchain -> Prop) (p : part) : Prop :=
    forall e, In e (p_edges p) -> Q (nthu R p (fst e)) (nthv R p (snd e)).
  (* every U vertex and every V vertex has an edge *)
  Definition covered (p : part) : Prop :=
    (forall i, (i < length (p_u p))%nat -> exists j, In (i, j) (p_edges p)) /\
    (forall j, (j < length (p_v p))%nat -> exists i, In (i, j) (p_edges p)).

  Lemma part_step_rel Q p hc : pinv R p -> edge_rel Q p -> covered p ->
    Q (split_u (fst hc)) (split_v (fst hc)) ->
    edge_rel Q (part_step p hc) /\ covered (part_step p hc) /\ p_gamma (part_step p hc) <> [].
  Proof.
    intros [Hr Hn] HQ [Cu Cv] Hq. unfold part_step.
    set (u := split_u (fst hc)) in *. set (v := split_v (fst hc)) in *.
    assert (LU : exists ul i, (match index_of unode_eqb u (p_u p) with
                                  | Some i => (p_u p, i) | None => (p_u p ++ [u], length (p_u p)) end) = (ul, i) /\
                 nth_error ul i = Some u /\ (forall k, (k < length (p_u p))%nat -> nth k ul (du) = nth k (p_u p) du) /\
                 (length (p_u p) <= length ul)%nat /\ (forall k, (k < length ul)%nat -> (k < length (p_u p))%nat \/ k = i)).
    { destruct (index_of unode_eqb u (p_u p)) as [i|] eqn:E.
      - exists (p_u p), i. repeat split; auto. apply (index_of_Some unode_eqb u _ (unode_eqb_eq u)). exact E.
      - exists (p_u p ++ [u]), (length (p_u p)). repeat split; auto.
        + apply nth_error_app_end.
        + intros k Hk. apply app_nth1. exact Hk.
        + rewrite app_length. simpl. lia.
        + intros k. rewrite app_length. simpl. lia. }
    assert (LV : exists vl j, (match index_of hchain_eqb v (p_v p) with
                                  | Some j => (p_v p, j) | None => (p_v p ++ [v], length (p_v p)) end) = (vl, j) /\
                 nth_error vl j = Some v /\ (forall k, (k < length (p_v p))%nat -> nth k vl (dv) = nth k (p_v p) dv) /\
                 (length (p_v p) <= length vl)%nat /\ (forall k, (k < length vl)%nat -> (k < length (p_v p))%nat \/ k = j)).
    { destruct (index_of hchain_eqb v (p_v p)) as [j|] eqn:E.
      - exists (p_v p), j. repeat split; auto. apply (index_of_Some hchain_eqb v _ (hchain_eqb_eq v)). exact E.
      - exists (p_v p ++ [v]), (length (p_v p)). repeat split; auto.
        + apply nth_error_app_end.
        + intros k Hk. apply app_nth1. exact Hk.
        + rewrite app_length. simpl. lia.
        + intros k. rewrite app_length. simpl. lia. }
    destruct LU as [ul [i [EU [Hi [Su [Lu Cu']]]]]]. destruct LV as [vl [j [EV [Hj [Sv [Lv Cv']]]]]].
    rewrite EU, EV. cbn zeta.
    assert (Keys : forall e, In e (map fst (gamma_add (i, j) (snd hc) (p_gamma p))) <-> In e (p_edges p) \/ e = (i, j)).
    { intros e. rewrite gamma_add_keys. unfold p_edges. destruct (pmem (i, j) (map fst (p_gamma p))) eqn:Em.
      - apply pmem_In in Em. split; [auto|]. intros [H|H]; [exact H|subst e; exact Em].
      - rewrite in_app_iff. simpl. split; [intros [H|[H|[]]]; auto|intros [H|H]; auto]. }
    split; [|split].
    - intros e He. unfold p_edges in He. cbn [p_gamma] in He. apply Keys in He. unfold nthu, nthv. cbn [p_u p_v].
      destruct He as [He| ->].
      + rewrite Forall_forall in Hr. destruct (Hr e He) as [A B]. rewrite Su, Sv by assumption. apply HQ. exact He.
      + cbn [fst snd]. rewrite (nth_error_nth _ _ _ Hi), (nth_error_nth _ _ _ Hj). exact Hq.
    - unfold covered, p_edges. cbn [p_u p_v p_gamma]. split.
      + intros k Hk. destruct (Cu' k Hk) as [H| ->].
        * destruct (Cu k H) as [j' Hj']. exists j'. apply Keys. left. exact Hj'.
        * exists j. apply Keys. right. reflexivity.
      + intros k Hk. destruct (Cv' k Hk) as [H| ->].
        * destruct (Cv k H) as [i' Hi']. exists i'. apply Keys. left. exact Hi'.
        * exists i. apply Keys. right. reflexivity.
    - cbn [p_gamma]. intros E. assert (In (i, j) (map fst (gamma_add (i, j) (snd hc) (p_gamma p)))) by (apply Keys; auto).
      rewrite E in H. contradiction.
  Qed.

  Lemma fold_part_rel Q : forall hcs p, pinv R p -> edge_rel Q p -> covered p ->
    (forall hc, In hc hcs -> Q (split_u (fst hc)) (split_v (fst hc))) ->
    let p' := fold_left (@part_step R) hcs p in
    edge_rel Q p' /\ covered p' /\ (hcs <> [] -> p_gamma p' <> []).
  Proof.
    induction hcs as [|hc hcs IH]; intros p Hp HQ Hc Hq; cbn [fold_left]; cbn zeta.
    - split; [exact HQ|]. split; [exact Hc|]. intros H; contradiction.
    - destruct (part_step_spec R p hc Hp) as [Hp1 _].
      destruct (part_step_rel Q p hc Hp HQ Hc (Hq hc (or_introl eq_refl))) as [A [B C]].
      destruct (IH _ Hp1 A B (fun x Hx => Hq x (or_intror Hx))) as [A' [B' C']].
      split; [exact A'|]. split; [exact B'|]. intros _.
      destruct hcs as [|h2 hcs']; [exact C|]. apply C'. discriminate.
  Qed.

  Theorem site_partition_rel (Q : unode -> hchain -> Prop) (hcs : list (hchain * R)) :
    (forall hc, In hc hcs -> Q (split_u (fst hc)) (split_v (fst hc))) ->
    let p := site_partition hcs in
    edge_rel Q p /\ covered p /\ (hcs <> [] -> p_edges p <> []).
  Proof.
    intros Hq. assert (H0 : pinv R (mkpart [] [] [])) by (split; constructor).
    destruct (fold_part_rel Q hcs _ H0 (fun e (H : In e []) => match H with end)
                (conj (fun i (H : (i < 0)%nat) => ltac:(lia)) (fun i (H : (i < 0)%nat) => ltac:(lia))) Hq) as [A [B C]].
    cbn zeta. unfold site_partition. split; [exact A|]. split; [exact B|].
    intros H E. apply (C H). unfold p_edges in E. destruct (p_gamma (fold_left (@part_step R) hcs (mkpart [] [] []))); [reflexivity|discriminate].
  Qed.

  (* when all V halves are equal there is a single V vertex *)
  Lemma fold_part_single v0 : forall hcs p, (p_v p = [] \/ p_v p = [v0]) ->
    (forall hc, In hc hcs -> split_v (fst hc) = v0) ->
    let p' := fold_left (@part_step R) hcs p in p_v p' = [] \/ p_v p' = [v0].
  Proof.
    induction hcs as [|hc hcs IH]; intros p Hp Hv; cbn [fold_left]; cbn zeta; [exact Hp|].
    apply IH; [|intros x Hx; apply Hv; right; exact Hx].
    unfold part_step. rewrite (Hv hc (or_introl eq_refl)).
    destruct (index_of unode_eqb (split_u (fst hc)) (p_u p)); cbn zeta.
    - destruct Hp as [E|E]; rewrite E; simpl.
      + right. reflexivity.
      + assert (X : hchain_eqb v0 v0 = true) by (unfold hchain_eqb; rewrite !zlist_eqb_refl_p, Z.eqb_refl; reflexivity).
        rewrite X. simpl. right. reflexivity.
    - destruct Hp as [E|E]; rewrite E; simpl.
      + right. reflexivity.
      + assert (X : hchain_eqb v0 v0 = true) by (unfold hchain_eqb; rewrite !zlist_eqb_refl_p, Z.eqb_refl; reflexivity).
        rewrite X. simpl. right. reflexivity.
  Qed.
End PartMore.
