(* C03 — the results of add / multiply / apply / identity are again well-formed (shapes fit the combined
   quantum-number lists, boundary bond dimension 1), so that the dense-form theorems compose. *)
From Coq Require Import ZArith List Lia Bool Arith Ring.
From PT Require Import Base.Scalar Base.BigSum Base.Mx Model.Tensor Model.MPSOps.
From PT Require Import Proofs.MPSOpsBase Proofs.MPSOpsAdd Proofs.MPSOpsMul Proofs.MPSOpsDense Proofs.MPSOpsTop.
Import ListNotations.

(* bond dimensions of a sum *)
Fixpoint add_D_mid (Da Db : list nat) : list nat :=
  match Da, Db with
  | a :: Da', b :: Db' => match Da' with [] => [a] | _ => (a + b)%nat :: add_D_mid Da' Db' end
  | _, _ => []
  end.
Definition add_D (Da Db : list nat) : list nat :=
  match Da, Db with a :: Da', _ :: Db' => a :: add_D_mid Da' Db' | _, _ => [] end.

Lemma bdims_add_qD_mid qa qb : bdims (add_qD_mid qa qb) = add_D_mid (bdims qa) (bdims qb).
Proof.
  unfold bdims. revert qb; induction qa as [|a qa IH]; intros [|b qb]; try reflexivity.
  destruct qa as [|a2 qa]; [reflexivity|].
  change (add_qD_mid (a :: a2 :: qa) (b :: qb)) with ((a ++ b) :: add_qD_mid (a2 :: qa) qb).
  change (map (@length Z) (a :: a2 :: qa)) with (length a :: map (@length Z) (a2 :: qa)).
  change (map (@length Z) (b :: qb)) with (length b :: map (@length Z) qb).
  change (map (@length Z) ((a ++ b) :: add_qD_mid (a2 :: qa) qb))
    with (length (a ++ b) :: map (@length Z) (add_qD_mid (a2 :: qa) qb)).
  rewrite IH, app_length. reflexivity.
Qed.
Lemma bdims_add_qD qa qb : bdims (add_qD qa qb) = add_D (bdims qa) (bdims qb).
Proof.
  destruct qa as [|a qa], qb as [|b qb]; try reflexivity.
  change (bdims (add_qD (a :: qa) (b :: qb))) with (length a :: bdims (add_qD_mid qa qb)).
  rewrite bdims_add_qD_mid. reflexivity.
Qed.

Lemma last_add_D_mid Da Db x : Da <> [] -> length Da = length Db -> last (add_D_mid Da Db) x = last Da x.
Proof.
  revert Db; induction Da as [|a Da IH]; intros Db Hne HL; [contradiction|].
  destruct Db as [|b Db]; [discriminate HL|].
  destruct Da as [|a2 Da]; [reflexivity|]. destruct Db as [|b2 Db]; [discriminate HL|].
  change (add_D_mid (a :: a2 :: Da) (b :: b2 :: Db)) with ((a + b)%nat :: add_D_mid (a2 :: Da) (b2 :: Db)).
  assert (E : add_D_mid (a2 :: Da) (b2 :: Db) <> []).
  { destruct Da; simpl; discriminate. }
  destruct (add_D_mid (a2 :: Da) (b2 :: Db)) as [|x0 l0] eqn:El; [contradiction|].
  rewrite last_cons_cons. rewrite <- El. rewrite IH; [| discriminate | simpl in *; lia].
  rewrite last_cons_cons. reflexivity.
Qed.

Lemma bdim1_add_D Da Db : bdim1 Da = true -> length Da = length Db -> (2 <= length Da)%nat -> bdim1 (add_D Da Db) = true.
Proof.
  intros H HL H2. apply bdim1_spec in H. destruct H as [Hh Hl].
  destruct Da as [|a [|a2 Da]]; simpl in H2; try lia.
  destruct Db as [|b [|b2 Db]]; simpl in HL; try lia.
  unfold bdim1. simpl in Hh. subst a.
  change (add_D (1%nat :: a2 :: Da) (b :: b2 :: Db)) with (1%nat :: add_D_mid (a2 :: Da) (b2 :: Db)).
  assert (E : add_D_mid (a2 :: Da) (b2 :: Db) <> []).
  { destruct Da; simpl; discriminate. }
  destruct (add_D_mid (a2 :: Da) (b2 :: Db)) as [|x0 l0] eqn:El; [contradiction|].
  rewrite last_cons_cons, <- El. rewrite last_add_D_mid; [| discriminate | simpl in *; lia].
  rewrite last_cons_cons in Hl. rewrite Hl. reflexivity.
Qed.

Lemma last_zipw_mul Da Db : length Da = length Db -> last (zipw Nat.mul Da Db) 0%nat = (last Da 0 * last Db 0)%nat.
Proof.
  revert Db; induction Da as [|a Da IH]; intros [|b Db] HL; try discriminate HL; [reflexivity|].
  destruct Da as [|a2 Da]; destruct Db as [|b2 Db]; try discriminate HL; [reflexivity|].
  change (zipw Nat.mul (a :: a2 :: Da) (b :: b2 :: Db)) with ((a * b)%nat :: (a2 * b2)%nat :: zipw Nat.mul Da Db).
  rewrite !last_cons_cons. rewrite <- (IH (b2 :: Db)) by (simpl in *; lia). reflexivity.
Qed.
Lemma bdim1_zipw_mul Da Db : bdim1 Da = true -> bdim1 Db = true -> length Da = length Db -> bdim1 (zipw Nat.mul Da Db) = true.
Proof.
  intros HA HB HL. apply bdim1_spec in HA. apply bdim1_spec in HB. destruct HA as [HhA HlA], HB as [HhB HlB].
  unfold bdim1. rewrite last_zipw_mul by exact HL. rewrite HlA, HlB.
  destruct Da as [|a Da], Db as [|b Db]; simpl in *; try discriminate; subst. reflexivity.
Qed.
Lemma bdims_zipw_qflat qa qb : bdims (zipw qflat qa qb) = zipw Nat.mul (bdims qa) (bdims qb).
Proof.
  unfold bdims. revert qb; induction qa as [|a qa IH]; intros [|b qb]; try reflexivity.
  simpl. rewrite qflat_length, IH. reflexivity.
Qed.
Lemma bdims_length qD : length (bdims qD) = length qD.
Proof. apply map_length. Qed.

Section Shape.
  Variable R : cring.
  Notation mx := (mx R).
  Notation site := (site R). Notation osite := (osite R).
  Notation mps := (mps R). Notation mpo := (mpo R).

  Lemma wfb_tab m n (f : nat -> nat -> R) : wfb (tab m n f) = true.
  Proof.
    unfold wfb, tab; cbn [dat nr nc]. rewrite map_length, seq_length, Nat.eqb_refl. simpl.
    apply forallb_forall. intros r Hr. apply in_map_iff in Hr. destruct Hr as (i & <- & _).
    rewrite map_length, seq_length. apply Nat.eqb_refl.
  Qed.

  Lemma site_shape_stab d m n (f : nat -> mx) :
    (forall s, (s < d)%nat -> wfb (f s) = true /\ nr (f s) = m /\ nc (f s) = n) -> site_shape d m n (stab d f) = true.
  Proof.
    intros H. unfold site_shape. rewrite length_stab, Nat.eqb_refl. simpl.
    apply forallb_forall. intros M HM. unfold stab in HM. apply in_map_iff in HM. destruct HM as (s & <- & Hs).
    apply in_seq in Hs. destruct (H s) as (Hw & Hr & Hc); [lia|]. rewrite Hw, Hr, Hc, !Nat.eqb_refl. reflexivity.
  Qed.
  Lemma osite_shape_otab d m n (f : nat -> nat -> mx) :
    (forall s t, (s < d)%nat -> (t < d)%nat -> wfb (f s t) = true /\ nr (f s t) = m /\ nc (f s t) = n) ->
    osite_shape d m n (otab d f) = true.
  Proof.
    intros H. unfold osite_shape. rewrite length_otab, Nat.eqb_refl. simpl.
    apply forallb_forall. intros r Hr. unfold otab in Hr. apply in_map_iff in Hr. destruct Hr as (s & <- & Hs).
    apply in_seq in Hs. apply (site_shape_stab d m n (fun t => f s t)). intros t Ht. apply H; lia.
  Qed.

  (* ---------- sums ---------- *)
  Lemma site_shape_zip d f m n a0 a1 b0 b1 (A B : site) :
    site_shape d a0 a1 A = true -> site_shape d b0 b1 B = true ->
    (forall M N : mx, nr M = a0 -> nc M = a1 -> nr N = b0 -> nc N = b1 -> wfb (f M N) = true /\ nr (f M N) = m /\ nc (f M N) = n) ->
    site_shape d m n (site_zip f A B) = true.
  Proof.
    intros HA HB Hf. unfold site_zip. rewrite (site_shape_length _ _ _ _ _ HA). apply site_shape_stab. intros s Hs.
    destruct (site_shape_sel _ _ _ _ _ s HA Hs) as (_ & rA & cA). destruct (site_shape_sel _ _ _ _ _ s HB Hs) as (_ & rB & cB).
    apply Hf; assumption.
  Qed.
  Lemma osite_shape_zip d f m n a0 a1 b0 b1 (A B : osite) :
    osite_shape d a0 a1 A = true -> osite_shape d b0 b1 B = true ->
    (forall M N : mx, nr M = a0 -> nc M = a1 -> nr N = b0 -> nc N = b1 -> wfb (f M N) = true /\ nr (f M N) = m /\ nc (f M N) = n) ->
    osite_shape d m n (osite_zip f A B) = true.
  Proof.
    intros HA HB Hf. unfold osite_zip. rewrite (osite_shape_length _ _ _ _ _ HA). apply osite_shape_otab. intros s t Hs Ht.
    destruct (osite_shape_osel _ _ _ _ _ s t HA Hs Ht) as (_ & rA & cA).
    destruct (osite_shape_osel _ _ _ _ _ s t HB Hs Ht) as (_ & rB & cB).
    apply Hf; assumption.
  Qed.

  Lemma blk_col_shape a0 a1 b0 (M N : mx) : nr M = a0 -> nc M = a1 -> nr N = b0 -> nc N = a1 ->
    wfb (col_mx M N) = true /\ nr (col_mx M N) = (a0 + b0)%nat /\ nc (col_mx M N) = a1.
  Proof. intros. split; [apply wfb_tab|]. rewrite nr_col_mx, nc_col_mx. split; congruence. Qed.
  Lemma blk_diag_shape a0 a1 b0 b1 (M N : mx) : nr M = a0 -> nc M = a1 -> nr N = b0 -> nc N = b1 ->
    wfb (diag_mx M N) = true /\ nr (diag_mx M N) = (a0 + b0)%nat /\ nc (diag_mx M N) = (a1 + b1)%nat.
  Proof. intros. split; [apply wfb_tab|]. rewrite nr_diag_mx, nc_diag_mx. split; congruence. Qed.
  Lemma blk_row_shape (alpha : R) a0 a1 b1 (M N : mx) : nr M = a0 -> nc M = a1 -> nr N = a0 -> nc N = b1 ->
    wfb (blk_row alpha M N) = true /\ nr (blk_row alpha M N) = a0 /\ nc (blk_row alpha M N) = (a1 + b1)%nat.
  Proof. intros. split; [apply wfb_tab|]. unfold blk_row. rewrite nr_row_mx, nc_row_mx, nc_scalemx. split; congruence. Qed.
  Lemma blk_add_shape (alpha : R) a0 a1 (M N : mx) : nr M = a0 -> nc M = a1 -> nr N = a0 -> nc N = a1 ->
    wfb (blk_add alpha M N) = true /\ nr (blk_add alpha M N) = a0 /\ nc (blk_add alpha M N) = a1.
  Proof. intros. split; [apply wfb_tab|]. unfold blk_add. rewrite nr_addmx, nc_addmx. split; congruence. Qed.

  Lemma chain_shape_add_mid d (As : list site) : forall Bs Da Db,
    As <> [] -> length As = length Bs -> chain_shape d Da As = true -> chain_shape d Db Bs = true ->
    last Da 0%nat = last Db 0%nat ->
    chain_shape d ((hd 0 Da + hd 0 Db)%nat :: add_D_mid (tl Da) (tl Db)) (add_mid site_zip As Bs) = true.
  Proof.
    induction As as [|A As IH]; intros Bs Da Db Hne HL HA HB Hlast; [contradiction|].
    destruct Bs as [|B Bs]; [discriminate HL|].
    destruct Da as [|a0 [|a1 Da]]; [discriminate HA | discriminate HA |].
    destruct Db as [|b0 [|b1 Db]]; [discriminate HB | discriminate HB |].
    rewrite chain_shape_cons in HA, HB. apply andb_true_iff in HA, HB. destruct HA as [HA1 HA], HB as [HB1 HB].
    cbn [hd tl].
    destruct As as [|A2 As].
    - destruct Bs; [|discriminate HL]. rewrite add_mid_single.
      destruct Da; [|discriminate HA]. destruct Db; [|discriminate HB]. simpl in Hlast. subst b1.
      simpl add_D_mid. rewrite chain_shape_cons. apply andb_true_iff. split; [|reflexivity].
      eapply site_shape_zip; eauto. intros. apply blk_col_shape; assumption.
    - destruct Bs as [|B2 Bs]; [discriminate HL|]. rewrite add_mid_cons.
      destruct Da as [|a2 Da]; [discriminate HA|]. destruct Db as [|b2 Db]; [discriminate HB|].
      change (add_D_mid (a1 :: a2 :: Da) (b1 :: b2 :: Db)) with ((a1 + b1)%nat :: add_D_mid (a2 :: Da) (b2 :: Db)).
      rewrite chain_shape_cons. apply andb_true_iff. split.
      + eapply site_shape_zip; eauto. intros. apply blk_diag_shape; assumption.
      + apply (IH (B2 :: Bs) (a1 :: a2 :: Da) (b1 :: b2 :: Db)); [discriminate | simpl in *; lia | exact HA | exact HB |].
        rewrite !last_cons_cons in Hlast. rewrite !last_cons_cons. exact Hlast.
  Qed.

  Lemma chain_shape_add d (alpha : R) (As Bs : list site) Da Db :
    As <> [] -> length As = length Bs -> chain_shape d Da As = true -> chain_shape d Db Bs = true ->
    hd 0%nat Da = hd 0%nat Db -> last Da 0%nat = last Db 0%nat ->
    chain_shape d (add_D Da Db) (add_chain site_zip alpha As Bs) = true.
  Proof.
    intros Hne HL HA HB Hhd Hlast. destruct As as [|A As]; [contradiction|].
    destruct Bs as [|B Bs]; [discriminate HL|].
    destruct Da as [|a0 [|a1 Da]]; [discriminate HA | discriminate HA |].
    destruct Db as [|b0 [|b1 Db]]; [discriminate HB | discriminate HB |].
    rewrite chain_shape_cons in HA, HB. apply andb_true_iff in HA, HB. destruct HA as [HA1 HA], HB as [HB1 HB].
    simpl in Hhd. subst b0.
    destruct As as [|A2 As].
    - destruct Bs; [|discriminate HL]. rewrite add_chain_single.
      destruct Da; [|discriminate HA]. destruct Db; [|discriminate HB]. simpl in Hlast. subst b1.
      simpl add_D. rewrite chain_shape_cons. apply andb_true_iff. split; [|reflexivity].
      eapply site_shape_zip; eauto. intros. apply blk_add_shape; assumption.
    - destruct Bs as [|B2 Bs]; [discriminate HL|]. rewrite add_chain_cons.
      destruct Da as [|a2 Da]; [discriminate HA|]. destruct Db as [|b2 Db]; [discriminate HB|].
      change (add_D (a0 :: a1 :: a2 :: Da) (a0 :: b1 :: b2 :: Db))
        with (a0 :: (a1 + b1)%nat :: add_D_mid (a2 :: Da) (b2 :: Db)).
      rewrite chain_shape_cons. apply andb_true_iff. split.
      + eapply site_shape_zip; eauto. intros. apply blk_row_shape; assumption.
      + apply (chain_shape_add_mid d (A2 :: As) (B2 :: Bs) (a1 :: a2 :: Da) (b1 :: b2 :: Db));
          [discriminate | simpl in *; lia | exact HA | exact HB |].
        rewrite !last_cons_cons in Hlast. rewrite !last_cons_cons. exact Hlast.
  Qed.

  Lemma ochain_shape_add_mid d (As : list osite) : forall Bs Da Db,
    As <> [] -> length As = length Bs -> ochain_shape d Da As = true -> ochain_shape d Db Bs = true ->
    last Da 0%nat = last Db 0%nat ->
    ochain_shape d ((hd 0 Da + hd 0 Db)%nat :: add_D_mid (tl Da) (tl Db)) (add_mid osite_zip As Bs) = true.
  Proof.
    induction As as [|A As IH]; intros Bs Da Db Hne HL HA HB Hlast; [contradiction|].
    destruct Bs as [|B Bs]; [discriminate HL|].
    destruct Da as [|a0 [|a1 Da]]; [discriminate HA | discriminate HA |].
    destruct Db as [|b0 [|b1 Db]]; [discriminate HB | discriminate HB |].
    rewrite ochain_shape_cons in HA, HB. apply andb_true_iff in HA, HB. destruct HA as [HA1 HA], HB as [HB1 HB].
    cbn [hd tl].
    destruct As as [|A2 As].
    - destruct Bs; [|discriminate HL]. rewrite add_mid_single.
      destruct Da; [|discriminate HA]. destruct Db; [|discriminate HB]. simpl in Hlast. subst b1.
      simpl add_D_mid. rewrite ochain_shape_cons. apply andb_true_iff. split; [|reflexivity].
      eapply osite_shape_zip; eauto. intros. apply blk_col_shape; assumption.
    - destruct Bs as [|B2 Bs]; [discriminate HL|]. rewrite add_mid_cons.
      destruct Da as [|a2 Da]; [discriminate HA|]. destruct Db as [|b2 Db]; [discriminate HB|].
      change (add_D_mid (a1 :: a2 :: Da) (b1 :: b2 :: Db)) with ((a1 + b1)%nat :: add_D_mid (a2 :: Da) (b2 :: Db)).
      rewrite ochain_shape_cons. apply andb_true_iff. split.
      + eapply osite_shape_zip; eauto. intros. apply blk_diag_shape; assumption.
      + apply (IH (B2 :: Bs) (a1 :: a2 :: Da) (b1 :: b2 :: Db)); [discriminate | simpl in *; lia | exact HA | exact HB |].
        rewrite !last_cons_cons in Hlast. rewrite !last_cons_cons. exact Hlast.
  Qed.

  Lemma ochain_shape_add d (alpha : R) (As Bs : list osite) Da Db :
    As <> [] -> length As = length Bs -> ochain_shape d Da As = true -> ochain_shape d Db Bs = true ->
    hd 0%nat Da = hd 0%nat Db -> last Da 0%nat = last Db 0%nat ->
    ochain_shape d (add_D Da Db) (add_chain osite_zip alpha As Bs) = true.
  Proof.
    intros Hne HL HA HB Hhd Hlast. destruct As as [|A As]; [contradiction|].
    destruct Bs as [|B Bs]; [discriminate HL|].
    destruct Da as [|a0 [|a1 Da]]; [discriminate HA | discriminate HA |].
    destruct Db as [|b0 [|b1 Db]]; [discriminate HB | discriminate HB |].
    rewrite ochain_shape_cons in HA, HB. apply andb_true_iff in HA, HB. destruct HA as [HA1 HA], HB as [HB1 HB].
    simpl in Hhd. subst b0.
    destruct As as [|A2 As].
    - destruct Bs; [|discriminate HL]. rewrite add_chain_single.
      destruct Da; [|discriminate HA]. destruct Db; [|discriminate HB]. simpl in Hlast. subst b1.
      simpl add_D. rewrite ochain_shape_cons. apply andb_true_iff. split; [|reflexivity].
      eapply osite_shape_zip; eauto. intros. apply blk_add_shape; assumption.
    - destruct Bs as [|B2 Bs]; [discriminate HL|]. rewrite add_chain_cons.
      destruct Da as [|a2 Da]; [discriminate HA|]. destruct Db as [|b2 Db]; [discriminate HB|].
      change (add_D (a0 :: a1 :: a2 :: Da) (a0 :: b1 :: b2 :: Db))
        with (a0 :: (a1 + b1)%nat :: add_D_mid (a2 :: Da) (b2 :: Db)).
      rewrite ochain_shape_cons. apply andb_true_iff. split.
      + eapply osite_shape_zip; eauto. intros. apply blk_row_shape; assumption.
      + apply (ochain_shape_add_mid d (A2 :: As) (B2 :: Bs) (a1 :: a2 :: Da) (b1 :: b2 :: Db));
          [discriminate | simpl in *; lia | exact HA | exact HB |].
        rewrite !last_cons_cons in Hlast. rewrite !last_cons_cons. exact Hlast.
  Qed.

  Lemma length_add_mid T zip (As Bs : list T) : length As = length Bs -> length (add_mid (R:=R) zip As Bs) = length As.
  Proof.
    revert Bs; induction As as [|A As IH]; intros [|B Bs] HL; try discriminate HL; [reflexivity|].
    destruct As as [|A2 As]; [reflexivity|]. destruct Bs as [|B2 Bs]; [discriminate HL|].
    rewrite add_mid_cons. cbn [length]. rewrite IH by (simpl in *; lia). reflexivity.
  Qed.
  Lemma length_add_chain T zip (alpha : R) (As Bs : list T) : length As = length Bs -> length (add_chain zip alpha As Bs) = length As.
  Proof.
    destruct As as [|A As], Bs as [|B Bs]; intros HL; try discriminate HL; [reflexivity|].
    destruct As as [|A2 As]; [reflexivity|]. destruct Bs as [|B2 Bs]; [discriminate HL|].
    rewrite add_chain_cons. cbn [length]. rewrite length_add_mid by (simpl in *; lia). reflexivity.
  Qed.

  Theorem add_mps_wf (alpha : R) (p q : mps) : mps_wf p = true -> mps_wf q = true ->
    length (m_qd p) = length (m_qd q) -> length (m_A p) = length (m_A q) -> mps_wf (add_mps alpha p q) = true.
  Proof.
    intros Hp Hq Hd HL. apply mps_wf_spec in Hp. apply mps_wf_spec in Hq.
    destruct Hp as (Hp1 & Hp2 & Hp3). destruct Hq as (Hq1 & Hq2 & Hq3). rewrite <- Hd in Hq1.
    pose proof (chain_shape_length _ _ _ _ Hp1) as Lp. pose proof (chain_shape_length _ _ _ _ Hq1) as Lq.
    destruct (bdim1_spec _ Hp2) as [Hhp Hlp]. destruct (bdim1_spec _ Hq2) as [Hhq Hlq].
    unfold mps_wf, add_mps. cbn [m_qd m_qD m_A]. rewrite bdims_add_qD.
    rewrite (chain_shape_add (length (m_qd p)) alpha _ _ _ _ Hp3 HL Hp1 Hq1) by congruence.
    rewrite bdim1_add_D; [| exact Hp2 | congruence |].
    - rewrite length_add_chain by exact HL. simpl. destruct (m_A p); [contradiction|reflexivity].
    - rewrite Lp. destruct (m_A p); [contradiction|simpl; lia].
  Qed.

  Theorem add_mpo_wf (alpha : R) (a b : mpo) : mpo_wf a = true -> mpo_wf b = true ->
    length (o_qd a) = length (o_qd b) -> length (o_A a) = length (o_A b) -> mpo_wf (add_mpo alpha a b) = true.
  Proof.
    intros Hp Hq Hd HL. apply mpo_wf_spec in Hp. apply mpo_wf_spec in Hq.
    destruct Hp as (Hp1 & Hp2 & Hp3). destruct Hq as (Hq1 & Hq2 & Hq3). rewrite <- Hd in Hq1.
    pose proof (ochain_shape_length _ _ _ _ Hp1) as Lp. pose proof (ochain_shape_length _ _ _ _ Hq1) as Lq.
    destruct (bdim1_spec _ Hp2) as [Hhp Hlp]. destruct (bdim1_spec _ Hq2) as [Hhq Hlq].
    unfold mpo_wf, add_mpo. cbn [o_qd o_qD o_A]. rewrite bdims_add_qD.
    rewrite (ochain_shape_add (length (o_qd a)) alpha _ _ _ _ Hp3 HL Hp1 Hq1) by congruence.
    rewrite bdim1_add_D; [| exact Hp2 | congruence |].
    - rewrite length_add_chain by exact HL. simpl. destruct (o_A a); [contradiction|reflexivity].
    - rewrite Lp. destruct (o_A a); [contradiction|simpl; lia].
  Qed.

  (* ---------- products ---------- *)
  Lemma ochain_shape_mul d (As : list osite) : forall Bs Da Db,
    length As = length Bs -> ochain_shape d Da As = true -> ochain_shape d Db Bs = true ->
    ochain_shape d (zipw Nat.mul Da Db) (zipw mul_osite As Bs) = true.
  Proof.
    induction As as [|A As IH]; intros Bs Da Db HL HA HB.
    - destruct Bs; [|discriminate HL]. destruct Da as [|a [|? ?]]; try discriminate HA.
      destruct Db as [|b [|? ?]]; try discriminate HB. reflexivity.
    - destruct Bs as [|B Bs]; [discriminate HL|].
      destruct Da as [|a0 [|a1 Da]]; [discriminate HA | discriminate HA |].
      destruct Db as [|b0 [|b1 Db]]; [discriminate HB | discriminate HB |].
      rewrite ochain_shape_cons in HA, HB. apply andb_true_iff in HA, HB. destruct HA as [HA1 HA], HB as [HB1 HB].
      change (zipw Nat.mul (a0 :: a1 :: Da) (b0 :: b1 :: Db)) with ((a0 * b0)%nat :: (a1 * b1)%nat :: zipw Nat.mul Da Db).
      change (zipw mul_osite (A :: As) (B :: Bs)) with (mul_osite A B :: zipw mul_osite As Bs).
      rewrite ochain_shape_cons. apply andb_true_iff. split.
      + unfold mul_osite. rewrite (osite_shape_length _ _ _ _ _ HA1). apply osite_shape_otab. intros s t Hs Ht.
        split; [apply wfb_tab|]. unfold skron. rewrite nr_tab, nc_tab.
        destruct (osite_shape_osel _ _ _ _ _ s 0%nat HA1 Hs ltac:(lia)) as (_ & r1 & c1).
        destruct (osite_shape_osel _ _ _ _ _ 0%nat t HB1 ltac:(lia) Ht) as (_ & r2 & c2).
        rewrite r1, c1, r2, c2. split; reflexivity.
      + apply (IH Bs (a1 :: Da) (b1 :: Db)); [simpl in HL; lia | exact HA | exact HB].
  Qed.
  Lemma chain_shape_apply d (Ws : list osite) : forall (As : list site) Dw Da,
    length Ws = length As -> ochain_shape d Dw Ws = true -> chain_shape d Da As = true ->
    chain_shape d (zipw Nat.mul Dw Da) (zipw apply_site Ws As) = true.
  Proof.
    induction Ws as [|W Ws IH]; intros As Dw Da HL HW HA.
    - destruct As; [|discriminate HL]. destruct Dw as [|a [|? ?]]; try discriminate HW.
      destruct Da as [|b [|? ?]]; try discriminate HA. reflexivity.
    - destruct As as [|A As]; [discriminate HL|].
      destruct Dw as [|a0 [|a1 Dw]]; [discriminate HW | discriminate HW |].
      destruct Da as [|b0 [|b1 Da]]; [discriminate HA | discriminate HA |].
      rewrite ochain_shape_cons in HW. rewrite chain_shape_cons in HA.
      apply andb_true_iff in HW, HA. destruct HW as [HW1 HW], HA as [HA1 HA].
      change (zipw Nat.mul (a0 :: a1 :: Dw) (b0 :: b1 :: Da)) with ((a0 * b0)%nat :: (a1 * b1)%nat :: zipw Nat.mul Dw Da).
      change (zipw apply_site (W :: Ws) (A :: As)) with (apply_site W A :: zipw apply_site Ws As).
      rewrite chain_shape_cons. apply andb_true_iff. split.
      + unfold apply_site. rewrite (osite_shape_length _ _ _ _ _ HW1). apply site_shape_stab. intros s Hs.
        split; [apply wfb_tab|]. unfold skron. rewrite nr_tab, nc_tab.
        destruct (osite_shape_osel _ _ _ _ _ s 0%nat HW1 Hs ltac:(lia)) as (_ & r1 & c1).
        destruct (site_shape_sel _ _ _ _ _ 0%nat HA1 ltac:(lia)) as (_ & r2 & c2).
        rewrite r1, c1, r2, c2. split; reflexivity.
      + apply (IH As (a1 :: Dw) (b1 :: Da)); [simpl in HL; lia | exact HW | exact HA].
  Qed.

  Theorem multiply_mpo_wf (a b : mpo) : mpo_wf a = true -> mpo_wf b = true ->
    length (o_qd a) = length (o_qd b) -> length (o_A a) = length (o_A b) -> mpo_wf (multiply_mpo a b) = true.
  Proof.
    intros Hp Hq Hd HL. apply mpo_wf_spec in Hp. apply mpo_wf_spec in Hq.
    destruct Hp as (Hp1 & Hp2 & Hp3). destruct Hq as (Hq1 & Hq2 & Hq3). rewrite <- Hd in Hq1.
    pose proof (ochain_shape_length _ _ _ _ Hp1) as Lp. pose proof (ochain_shape_length _ _ _ _ Hq1) as Lq.
    unfold mpo_wf, multiply_mpo. cbn [o_qd o_qD o_A]. rewrite bdims_zipw_qflat.
    rewrite (ochain_shape_mul _ _ _ _ _ HL Hp1 Hq1).
    rewrite bdim1_zipw_mul by (try assumption; congruence).
    rewrite zipw_length by exact HL. simpl. destruct (o_A a); [contradiction|reflexivity].
  Qed.
  Theorem apply_operator_wf (o : mpo) (p : mps) : mpo_wf o = true -> mps_wf p = true ->
    length (o_qd o) = length (m_qd p) -> length (o_A o) = length (m_A p) -> mps_wf (apply_operator o p) = true.
  Proof.
    intros Hp Hq Hd HL. apply mpo_wf_spec in Hp. apply mps_wf_spec in Hq.
    destruct Hp as (Hp1 & Hp2 & Hp3). destruct Hq as (Hq1 & Hq2 & Hq3). rewrite Hd in Hp1.
    pose proof (ochain_shape_length _ _ _ _ Hp1) as Lp. pose proof (chain_shape_length _ _ _ _ Hq1) as Lq.
    unfold mps_wf, apply_operator. cbn [m_qd m_qD m_A]. rewrite bdims_zipw_qflat.
    rewrite (chain_shape_apply _ _ _ _ _ HL Hp1 Hq1).
    rewrite bdim1_zipw_mul by (try assumption; congruence).
    rewrite zipw_length by exact HL. simpl. destruct (o_A o); [contradiction|reflexivity].
  Qed.

  (* ---------- identity ---------- *)
  Lemma ochain_shape_identity d (scale : R) L : ochain_shape d (repeat 1%nat (S L)) (repeat (id_osite d scale) L) = true.
  Proof.
    induction L as [|L IH]; [reflexivity|].
    change (repeat 1%nat (S (S L))) with (1%nat :: 1%nat :: repeat 1%nat L).
    change (repeat (id_osite d scale) (S L)) with (id_osite d scale :: repeat (id_osite d scale) L).
    rewrite ochain_shape_cons. apply andb_true_iff. split; [|exact IH].
    unfold id_osite. apply osite_shape_otab. intros s t _ _. split; [apply wfb_tab|]. split; reflexivity.
  Qed.
  Theorem mpo_identity_wf (qd : list Z) L (scale : R) : (0 < L)%nat -> mpo_wf (mpo_identity qd L scale) = true.
  Proof.
    intros HL. unfold mpo_wf, mpo_identity. cbn [o_qd o_qD o_A].
    assert (E : bdims (repeat [0%Z] (S L)) = repeat 1%nat (S L)).
    { unfold bdims. generalize (S L). intros n. induction n; simpl; [reflexivity|]. rewrite IHn. reflexivity. }
    rewrite E, ochain_shape_identity. rewrite repeat_length.
    assert (B : bdim1 (repeat 1%nat (S L)) = true).
    { unfold bdim1. simpl hd. replace (last (repeat 1%nat (S L)) 0%nat) with 1%nat; [reflexivity|].
      clear. induction L as [|L IH]; [reflexivity|]. change (repeat 1%nat (S (S L))) with (1%nat :: 1%nat :: repeat 1%nat L).
      rewrite last_cons_cons. exact IH. }
    rewrite B. destruct L; [lia|reflexivity].
  Qed.
End Shape.
