(* C02: the contract assumed of split_matrix_svd by the SplitMerge step is what C12 proves of the executable model
   [block_svd] (Model/BondOps.v) for every non-zero valid input, under LAPACK's contract for numpy.linalg.svd. *)
From Coq Require Import ZArith List Lia Bool Arith.
From PT Require Import Base.Scalar Base.Field Base.BigSum Base.Mx Model.Tensor Model.BondOps Model.History.
From PT Require Import Proofs.BondOpsPerm Proofs.BondOpsLoop Proofs.BondOpsSpec Proofs.BondOpsRetained Proofs.BondOpsSVD.
From PT Require Import Proofs.HistOps.
Import ListNotations.
Open Scope nat_scope.

Section HistSplit.
  Variable F : ofield.
  Notation CF := (Cx F).
  Variable dsvd : mx CF -> mx CF * list F * mx CF.
  Variable pick : list F -> list nat.
  Variable tol : F.

  (* split_matrix_svd(A, q0, q1, tol) as given by the executable model; singular values embedded into the scalars *)
  Definition svd_result (A : mx CF) (q0 q1 : list Z) : mx CF * list CF * mx CF * list Z :=
    match block_svd dsvd pick A q0 q1 tol with
    | Some (u, s, v, q) => (u, map (@cof F) s, v, q)
    | None => (A, [], A, [])
    end.

  Theorem split_contract_from_C12 (A : mx CF) (q0 q1 : list Z) :
    valid_in A q0 q1 = true -> is_zeromx A = false ->
    fle F (f0 F) tol -> flt F tol (f1 F) ->
    Forall (fun B => dsvd_ok F B (dsvd B)) (block_svd_calls A q0 q1) ->
    (let S := block_svd_spectrum F dsvd A q0 q1 in pick_ok F (normsq S) (pick (normsq S))) ->
    svd_ans_ok CF A q0 q1 (svd_result A q0 q1).
  Proof.
    intros Hv Hnz Ht0 Ht1 Hc Hp.
    destruct (block_svd_spec_gen F dsvd pick A q0 q1 tol Hv Hnz Ht0 Ht1 Hc Hp) as (_ & _ & [[[u s] v] q] & E & H).
    destruct H as (_ & _ & _ & _ & ru & cu & rv & cv & Lq & _ & _ & _ & _ & Hu & Hv' & _).
    unfold svd_result. rewrite E. unfold svd_ans_ok. rewrite map_length.
    repeat split; try assumption.
  Qed.
End HistSplit.
