(* C05: the path-wise matrix element [pamp] of an operator graph (the quantity the assembled MPO is
   proved to compute in Proofs/GraphMPOSem.v) is the sum, over all words of operator ids of the right
   length, of the word coefficient [den_from] times the product of the local matrix elements. *)
From Coq Require Import ZArith List Lia Bool Ring Permutation.
From PT Require Import Base.Scalar Base.BigSum Base.Mx Model.OpGraph Model.Tensor Model.FromOpchains
                       Model.GraphMPO Proofs.GraphMPOSem Proofs.DenRev_C05.
Import ListNotations.
Open Scope Z_scope.

(* all words of length n over the alphabet al *)
Fixpoint zwords (al : list Z) (n : nat) : list (list Z) :=
  match n with
  | O => [[]]
  | S m => flat_map (fun o => map (cons o) (zwords al m)) al
  end.

Section PampDen.
  Variable R : cring.
  Add Ring Rring_pampden : (k_rt R).
  Notation "0r" := (k0 R). Notation "1r" := (k1 R).
  Infix "+r" := (kadd R) (at level 50, left associativity).
  Infix "*r" := (kmul R) (at level 40, left associativity).
  Notation graph := (graph R).
  Notation gedge := (gedge R).
  Notation mx := (mx R).

  (* the operator ids occurring on the edges of g, each once *)
  Definition alphabet (g : graph) : list Z :=
    nodup Z.eq_dec (flat_map (fun e => map fst (e_opics e)) (g_edges g)).

  (* <w| op(word_1) (x) op(word_2) (x) ... |w'> *)
  Fixpoint wprod (opmap : Z -> mx) (word : list Z) (w w' : list nat) : R :=
    match word, w, w' with
    | o :: r, s :: u, t :: u' => get (opmap o) s t *r wprod opmap r u u'
    | _, _, _ => 1r
    end.

  Lemma suml_single_z (l : list Z) t (f : Z -> R) : NoDup l -> In t l ->
    (forall x, In x l -> x <> t -> f x = 0r) -> suml l f = f t.
  Proof.
    induction l as [|a l IH]; intros Hn Hi Hz; [contradiction|].
    inversion Hn as [|? ? Ha Hl]; subst. simpl. destruct (Z.eq_dec a t) as [E|E].
    - subst. rewrite suml_zero; [ring|]. intros x Hx. apply Hz; [right; exact Hx|].
      intros E. subst. contradiction.
    - destruct Hi as [Hi|Hi]; [contradiction|].
      rewrite (Hz a) by (auto; left; reflexivity).
      rewrite IH; [ring | assumption | assumption |]. intros x Hx. apply Hz. right; exact Hx.
  Qed.

  Lemma opsum_over (opmap : Z -> mx) s t (al : list Z) (opics : list (Z * R)) :
    NoDup al -> (forall p, In p opics -> In (fst p) al) ->
    opsum opmap s t opics = suml al (fun o => opics_coeff o opics *r get (opmap o) s t).
  Proof.
    intros Hn Hin. unfold opsum, opics_coeff.
    transitivity (suml al (fun o => suml opics (fun p =>
                    (if fst p =? o then snd p else 0r) *r get (opmap o) s t))).
    - rewrite suml_exch. apply suml_ext. intros p Hp. symmetry.
      rewrite (suml_single_z al (fst p)); [|exact Hn|apply Hin, Hp|].
      + rewrite Z.eqb_refl. reflexivity.
      + intros x _ Hne. destruct (fst p =? x) eqn:E; [apply Z.eqb_eq in E; congruence | ring].
    - apply suml_ext. intros o _. rewrite suml_scal_r. reflexivity.
  Qed.

  Lemma out_edges_In (g : graph) nid e : In e (out_edges g nid) -> In e (g_edges g).
  Proof.
    unfold out_edges. destruct (find_node g nid) as [n|]; [|intros []].
    intros H. apply In_edges_of in H. destruct H as [eid [_ F]].
    apply find_edge_spec in F. apply F.
  Qed.

  Lemma opsum_alphabet (g : graph) (opmap : Z -> mx) s t e : In e (g_edges g) ->
    opsum opmap s t (e_opics e) =
    suml (alphabet g) (fun o => opics_coeff o (e_opics e) *r get (opmap o) s t).
  Proof.
    intros He. apply opsum_over.
    - apply NoDup_nodup.
    - intros p Hp. unfold alphabet. apply nodup_In. apply in_flat_map.
      exists e. split; [exact He | apply in_map, Hp].
  Qed.

  Theorem pamp_den : forall (g : graph) (opmap : Z -> mx) w w' nid, length w = length w' ->
    pamp R g opmap w w' nid =
    suml (zwords (alphabet g) (length w)) (fun word => den_from g word nid *r wprod opmap word w w').
  Proof.
    intros g opmap w. induction w as [|s u IH]; intros w' nid Hl; destruct w' as [|t u']; try discriminate.
    - simpl. ring.
    - cbn [pamp length zwords]. rewrite suml_flat_map.
      transitivity (suml (out_edges g nid) (fun e => suml (alphabet g) (fun o =>
                      suml (zwords (alphabet g) (length u)) (fun r =>
                        opics_coeff o (e_opics e) *r get (opmap o) s t *r
                        (den_from g r (e_to e) *r wprod opmap r u u'))))).
      + apply suml_ext. intros e He.
        rewrite (opsum_alphabet g opmap s t e (out_edges_In g nid e He)).
        rewrite (IH u' (e_to e)) by (simpl in Hl; lia).
        rewrite <- suml_scal_r. apply suml_ext. intros o _. rewrite <- suml_scal_l. reflexivity.
      + rewrite suml_exch. apply suml_ext. intros o _. rewrite suml_map, suml_exch.
        apply suml_ext. intros r _. cbn [den_from wprod]. rewrite <- suml_scal_r.
        apply suml_ext. intros e _. ring.
  Qed.
End PampDen.

Arguments alphabet {R} _. Arguments wprod {R} _ _ _ _.

Print Assumptions pamp_den.
