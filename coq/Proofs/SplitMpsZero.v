(* C12 / split_mps_tensor on the zero tensor: no failure, and the two returned tensors merge to the (zero) input for
   every tolerance, every distribution and every square-root oracle. *)
From Coq Require Import ZArith List Bool Lia Arith Permutation Sorted Ring Field.
From PT Require Import Base.Scalar Base.Field Base.BigSum Base.Mx Model.Tensor Model.MPSOps Model.BondOps Model.SplitMps.
From PT Require Import Proofs.MPSOpsBase Proofs.MPSOpsTop Proofs.MPSOpsShape Proofs.HistSparse.
From PT Require Import Proofs.BondOpsPerm Proofs.BondOpsLoop Proofs.BondOpsSpec Proofs.BondOpsRetained Proofs.BondOpsFrob Proofs.BondOpsSVD.
From PT Require Import Proofs.SplitMpsReshape Proofs.SplitMpsAgree Proofs.SplitMpsSpec.
Import ListNotations.
Open Scope nat_scope.

Section Zero.
  Variable F : ofield.
  Add Field Ffield_splitzero : (f_ft F).
  Notation CF := (Cx F).
  Add Ring CFring_splitzero : (k_rt CF).
  Notation mx := (mx CF).
  Notation site := (site CF).
  Notation cO := (k0 CF). Notation cI := (k1 CF).
  Infix "*!" := (kmul CF) (at level 40, left associativity).
  Notation cj := (kconj CF).
  Notation emb := (@cof F).

  (* block_svd_zero (Proofs/BondOpsSVD.v) with what it leaves implicit: on a zero matrix either no singular value is
     kept or (disjoint charges, dummy bond) the right factor is the zero matrix; the label list fits *)
  Theorem block_svd_zero_ext : forall dsvd pick (A : mx) q0 q1 tol,
    valid_in A q0 q1 = true -> is_zeromx A = true ->
    Forall (fun B => dsvd_ok F B (dsvd B)) (block_svd_calls A q0 q1) ->
    exists u s v q, block_svd dsvd pick A q0 q1 tol = Some (u, s, v, q) /\
      nr u = nr A /\ nc u = length s /\ nr v = length s /\ nc v = nc A /\
      (0 < nr A -> length q = length s) /\
      (s = [] \/ forall i j, get v i j = cO).
  Proof.
    intros dsvd pick A q0 q1 tol Hv Hzero Hcalls.
    destruct (valid_in_spec CF A q0 q1 Hv) as (HwfA & Hl0 & Hl1 & HspA).
    assert (Hz := is_zeromx_spec F A Hzero).
    unfold block_svd. rewrite Hv, Hzero. cbn [negb].
    destruct (intersect1d q0 q1) as [|x qs] eqn:Eq.
    { do 4 eexists. split; [reflexivity|]. repeat split.
      - intros Hn. destruct q0 as [|y q0']; [simpl in Hl0; lia|reflexivity].
      - right. intros i j. apply get_zeromx. }
    remember (x :: qs) as qis eqn:Eqis.
    destruct (sel_choice CF q0 (nr A) Hl0) as (p0 & i0 & Hp0 & Hi0 & Hinv0 & Eq0 & Hz0 & Hrow0 & _ & Hunrow0 & _).
    destruct (sel_choice CF q1 (nc A) Hl1) as (p1 & i1 & Hp1 & Hi1 & Hinv1 & Eq1 & Hz1 & _ & Hcol1 & _ & Huncol1).
    assert (EA : sA (sort_input A q0 q1) = colsel p1 (rowsel p0 A)).
    { unfold sort_input. cbn [sA]. rewrite (Hrow0 A HwfA eq_refl). apply Hcol1; [apply wf_tab|reflexivity]. }
    assert (E0 : sq0 (sort_input A q0 q1) = takez p0 q0) by (unfold sort_input; cbn [sq0]; exact Eq0).
    assert (E1 : sq1 (sort_input A q0 q1) = takez p1 q1) by (unfold sort_input; cbn [sq1]; exact Eq1).
    unfold block_svd_calls, block_calls in Hcalls. rewrite Eq, EA, E0, E1 in Hcalls.
    assert (Hp0' : Permutation p0 (seq 0 (length q0))) by (rewrite Hl0; exact Hp0).
    assert (Hp1' : Permutation p1 (seq 0 (length q1))) by (rewrite Hl1; exact Hp1).
    assert (L0 : length (takez p0 q0) = nr (colsel p1 (rowsel p0 A))) by (eapply lenq0'; eauto).
    assert (L1 : length (takez p1 q1) = nc (colsel p1 (rowsel p0 A))) by (eapply lenq1'; eauto).
    assert (NR : nr (colsel p1 (rowsel p0 A)) = nr A) by (eapply nrA'; eauto).
    assert (NC : nc (colsel p1 (rowsel p0 A)) = nc A) by (eapply ncA'; eauto).
    destruct (loop_ok CF F emb True (nonneg F) dsvd (colsel p1 (rowsel p0 A)) (takez p0 q0) (takez p1 q1)
                L0 L1 Hz0 Hz1 qis) as (st & E & P).
    { rewrite <- Eq. apply intersect1d_sorted. }
    { intros y. rewrite <- Eq. rewrite intersect1d_In, (takez_In p0 q0 y Hp0'), (takez_In p1 q1 y Hp1'). tauto. }
    { eapply qspA'; eauto. }
    { intros y Hy. apply dsvd_fac_ok. rewrite Forall_forall in Hcalls. apply Hcalls. apply in_map. exact Hy. }
    rewrite EA, E0, E1. rewrite E.
    assert (Pfull : post CF F emb True (nonneg F) A q0 q1 True (mkbst (rowsel i0 (bU st)) (colsel i1 (bV st)) (bS st) (bq st) (bD st)))
      by (apply (lift CF F emb True (nonneg F) A q0 q1 p0 i0 p1 i1); assumption).
    assert (HlenS : length (bS st) = bD st) by (apply (p_lenS _ _ _ _ _ _ _ _ _ _ P)).
    (* all singular values vanish: || A ||_F^2 = sum sigma^2 *)
    assert (Hsq : sqsum (bS st) = f0 F).
    { apply (cof_inj F). change (emb (f0 F)) with cO.
      rewrite <- (sumn_sq F). rewrite HlenS.
      rewrite <- (frob_usv CF (nr A) (nc A) (bD st) (fun i c => get (rowsel i0 (bU st)) i c)
                    (fun c j => get (colsel i1 (bV st)) c j) (fun c => emb (nth c (bS st) (f0 F)))).
      - apply (sumn_zero CF). intros i Hi. apply (sumn_zero CF). intros j Hj.
        assert (E2 : sumn (bD st) (fun c => get (rowsel i0 (bU st)) i c *! emb (nth c (bS st) (f0 F)) *! get (colsel i1 (bV st)) c j) = cO).
        { rewrite <- (Hz i j Hi Hj). rewrite <- (p_prod _ _ _ _ _ _ _ _ _ _ Pfull I i j Hi Hj). cbn [bU bV bS bD].
          apply sumn_ext. intros c Hc. rewrite (wt_cof F) by (rewrite HlenS; exact Hc). reflexivity. }
        rewrite E2. ring.
      - intros k l Hk Hl. apply (p_orth _ _ _ _ _ _ _ _ _ _ Pfull k l Hk Hl).
      - intros k l Hk Hl. apply (p_co _ _ _ _ _ _ _ _ _ _ Pfull I k l Hk Hl). }
    assert (HK : retained pick (bS st) tol = []).
    { unfold retained. rewrite Hsq. replace (feqb F (f0 F) (f0 F)) with true by (symmetry; apply feqb_spec; reflexivity). reflexivity. }
    rewrite HK. cbn [map takez].
    assert (EU : unperm_rows (sort_input A q0 q1) (colsel [] (bU st)) = rowsel i0 (colsel [] (bU st))).
    { unfold unperm_rows, sort_input. cbn [sperm0 sidx0]. apply Hunrow0; [apply wf_tab|].
      unfold colsel. rewrite nr_tab. rewrite (p_nrU _ _ _ _ _ _ _ _ _ _ P). exact NR. }
    assert (EV : unperm_cols (sort_input A q0 q1) (rowsel [] (bV st)) = colsel i1 (rowsel [] (bV st))).
    { unfold unperm_cols, sort_input. cbn [sperm1 sidx1]. apply Huncol1; [apply wf_tab|].
      unfold rowsel. rewrite nc_tab. rewrite (p_ncV _ _ _ _ _ _ _ _ _ _ P). exact NC. }
    rewrite EU, EV. do 4 eexists. split; [reflexivity|].
    assert (Li0 := perm_length _ _ Hi0). assert (Li1 := perm_length _ _ Hi1).
    repeat split; try assumption. left. reflexivity.
  Qed.

  Variable dsvd : mx -> mx * list F * mx.
  Variable pick : list F -> list nat.
  Variable ksqrt : F -> F.

  Lemma shape_lsite d0 D0 k (p : nat -> nat -> CF) : site_shape d0 D0 k (lsite d0 D0 k p) = true.
  Proof. unfold lsite. apply site_shape_stab. intros s _. split; [apply wfb_tab|split; reflexivity]. Qed.
  Lemma shape_rsite d1 D2 k (q : nat -> nat -> CF) : site_shape d1 k D2 (rsite d1 D2 k q) = true.
  Proof. unfold rsite. apply site_shape_stab. intros s _. split; [apply wfb_tab|split; reflexivity]. Qed.

  (* a zero matrix passes the assertions of split_matrix_svd for any charge vectors of the right lengths *)
  Lemma valid_in_zero (M : mx) q0 q1 : wfb M = true -> length q0 = nr M -> length q1 = nc M -> is_zeromx M = true ->
    valid_in M q0 q1 = true.
  Proof.
    intros Hw H0 H1 Hz. unfold valid_in. rewrite Hw, H0, H1, !Nat.eqb_refl. cbn [andb].
    unfold qsparseb. apply forallb_forall. intros i Hi. apply forallb_forall. intros j Hj.
    apply in_seq in Hi. apply in_seq in Hj.
    rewrite (is_zeromx_spec F M Hz i j) by lia.
    replace (keqb CF cO cO) with true by (symmetry; apply keqb_spec; reflexivity). reflexivity.
  Qed.

  Theorem split_mps_zero (A : site) (qd0 qd1 qD0 qD2 : list Z) (rest : list (list Z)) (distr : nat) (tol : F) :
    let d0 := length qd0 in let d1 := length qd1 in let D0 := length qD0 in let D2 := length qD2 in
    0 < d0 * d1 ->
    site_shape (d0 * d1) D0 D2 A = true -> site_is_zero A = true -> distr <= 2 ->
    Forall (fun B => dsvd_ok F B (dsvd B)) (split_mps_calls A qd0 qd1 qD0 qD2) ->
    exists A0 A1 qb k,
      split_mps_tensor_full dsvd pick ksqrt A qd0 qd1 (qD0 :: qD2 :: rest) distr tol = Some (A0, A1, qb) /\
      site_shape d0 D0 k A0 = true /\ site_shape d1 k D2 A1 = true /\ (0 < D0 -> length qb = k) /\
      merge_mps_tensor_pair A0 A1 = A /\ site_is_zero (merge_mps_tensor_pair A0 A1) = true.
  Proof.
    intros d0 d1 D0 D2 Hpos HA HZ Hd Hcalls.
    set (M := split_arg_M A qd0 qd1) in *. set (q0 := split_arg_q0 qd0 qD0) in *. set (q1 := split_arg_q1 qd1 qD2) in *.
    destruct (site_shape_sel _ _ _ _ _ 0 HA Hpos) as (_ & rA0 & cA0).
    assert (HrM : nr M = d0 * D0) by (apply (nr_split_matrix CF d0 d1 D0 D2 A HA Hpos)).
    assert (HcM : nc M = d1 * D2) by (apply (nc_split_matrix CF d0 d1 D0 D2 A HA Hpos)).
    assert (HzM : is_zeromx M = true) by (apply (matrix_zero_of_site F d0 d1 D0 D2 A HA Hpos HZ)).
    assert (Hv : valid_in M q0 q1 = true).
    { apply valid_in_zero; [apply wfb_tab| | |exact HzM].
      - unfold q0, split_arg_q0. rewrite qflat_length, HrM. reflexivity.
      - unfold q1, split_arg_q1. rewrite qflat_length, map_length, HcM. reflexivity. }
    destruct (block_svd_zero_ext dsvd pick M q0 q1 tol Hv HzM Hcalls) as (u & s & v & qb & E & ru & cu & rv & cv & Lq & Hcase).
    assert (HA' : site_shape (length qd0 * length qd1) (nr (sel A 0)) (nc (sel A 0)) A = true) by (rewrite rA0, cA0; exact HA).
    pose proof (full_unfold F dsvd pick ksqrt A qd0 qd1 qD0 qD2 rest distr tol u s v qb HA' E Hd) as Hfull.
    rewrite rA0, cA0 in Hfull. fold d0 d1 in Hfull.
    set (p := fun r i => get u r i *! wleft ksqrt distr s i) in *.
    set (q := fun i c => wright ksqrt distr s i *! get v i c) in *.
    assert (Hm : merge_mps_tensor_pair (lsite d0 D0 (length s) p) (rsite d1 D2 (length s) q) = A).
    { apply (merge_lr_exact CF d0 d1 D0 D2 (length s) p q A HA Hpos). intros i j Hi Hj.
      change (split_matrix d0 d1 A) with M. rewrite (is_zeromx_spec F M HzM i j) by lia.
      destruct Hcase as [->|Hv0]; [reflexivity|].
      apply sumn_zero. intros l Hl. unfold q. rewrite Hv0. ring. }
    exists (lsite d0 D0 (length s) p), (rsite d1 D2 (length s) q), qb, (length s).
    split; [exact Hfull|]. split; [apply shape_lsite|]. split; [apply shape_rsite|].
    split; [intros HD0; apply Lq; rewrite HrM; nia|].
    split; [exact Hm|]. rewrite Hm. exact HZ.
  Qed.
End Zero.
