(* C05 structure, part 5: a graph with the cross-reference invariant GS, clean terminals and a level function
   never fails pytenet's own consistency check; every graph returned by from_opchains is such a graph. *)
From Coq Require Import ZArith List Lia Bool.
From PT Require Import Base.Scalar Base.BigSum Model.OpGraph Model.FromOpchains
                       Proofs.FromOpchainsGraph Proofs.FromOpchainsPart Proofs.FromOpchainsSem Proofs.FromOpchainsMain
                       Proofs.FromOpchainsThm Proofs.FromOpchainsWF1 Proofs.FromOpchainsWF2 Proofs.FromOpchainsWF3 Proofs.FromOpchainsWF4.
Import ListNotations.
Open Scope Z_scope.

Section Cons.
  Variable R : cring.
  Notation graph := (graph R).
  Notation gedge := (gedge R).

  Record CW (g : graph) : Prop := mkCW {
    cw_gs : exists nb eb, GS R g nb eb;
    cw_t0 : exists n, In n (g_nodes g) /\ n_id n = g_t0 g /\ n_in n = [];
    cw_t1 : exists n, In n (g_nodes g) /\ n_id n = g_t1 g /\ n_out n = [];
    cw_lv : exists lv, layered_by R g lv }.

  (* an edge listed by a node is the edge of the graph with that id, and ends at the node *)
  Lemma listed_edge (g : graph) nb eb nid n e dir : GS R g nb eb -> find_node g nid = Some n ->
    In e (edges_of g (node_eids n dir)) -> In e (g_edges g) /\ edge_nid e (1 - dir) = nid.
  Proof.
    intros Hg Fn He. apply edges_of_In in He. destruct He as [He Hx]. split; [exact He|].
    destruct (find_node_id R _ _ _ Fn) as [Eid Hn].
    assert (Huniq : forall e', In e' (g_edges g) -> e_id e' = e_id e -> e' = e).
    { intros e' He' E. pose proof (find_edge_In_nd R g e (gs_ne R _ _ _ Hg) He) as F1.
      pose proof (find_edge_In_nd R g e' (gs_ne R _ _ _ Hg) He') as F2. rewrite E in F2. congruence. }
    destruct dir as [|dir]; cbn [node_eids] in Hx.
    - destruct (gs_in R _ _ _ Hg n (e_id e) Hn Hx) as [e' [He' [E1 E2]]]. rewrite (Huniq e' He' E1) in E2. cbn. congruence.
    - destruct (gs_out R _ _ _ Hg n (e_id e) Hn Hx) as [e' [He' [E1 E2]]]. rewrite (Huniq e' He' E1) in E2.
      destruct dir; cbn; congruence.
  Qed.

  Definition LvInv (l : Z -> Z) (s c : Z) (q : list (Z * nat)) : Prop :=
    forall nid k, In (nid, k) q -> Z.of_nat k = s * l nid - c.

  Lemma levels_not_false (g : graph) (l : Z -> Z) (s c : Z) dir :
    (forall nid n e, find_node g nid = Some n -> In e (edges_of g (node_eids n (1 - dir))) ->
        s * l (edge_nid e (1 - dir)) = s * l nid + 1) ->
    forall fuel queue tab, LvInv l s c queue -> LvInv l s c tab -> levels_ok_fuel R fuel g dir queue tab <> Some false.
  Proof.
    intros Hstep. induction fuel as [|f IH]; intros queue tab Hq Ht.
    - destruct queue as [|[nid k] q']; simpl; discriminate.
    - destruct queue as [|[nid k] q']; [simpl; discriminate|]. cbn [levels_ok_fuel].
      assert (Hsucc : forall n, find_node g nid = Some n ->
                LvInv l s c (q' ++ map (fun e => (edge_nid e (1 - dir), S k)) (edges_of g (node_eids n (1 - dir))))).
      { intros n Fn x j Hin. apply in_app_iff in Hin. destruct Hin as [Hin|Hin]; [apply Hq; right; exact Hin|].
        apply in_map_iff in Hin. destruct Hin as [e [Heq He]]. inversion Heq; subst x j.
        pose proof (Hstep nid n e Fn He) as Hs. assert (Hk : Z.of_nat k = s * l nid - c) by (apply Hq; left; reflexivity).
        rewrite Nat2Z.inj_succ. change (match dir with O => 1%nat | S _ => 0%nat end) with (1 - dir)%nat. lia. }
      destruct (find (fun p : Z * nat => fst p =? nid) tab) as [[nid' k']|] eqn:Ff.
      + apply find_some in Ff. destruct Ff as [Hin Heq]. simpl in Heq. apply Z.eqb_eq in Heq. subst nid'.
        assert (Hk : Z.of_nat k = s * l nid - c) by (apply Hq; left; reflexivity).
        assert (Hk' : Z.of_nat k' = s * l nid - c) by (apply Ht; exact Hin).
        assert (k = k') by lia. subst k'. rewrite Nat.eqb_refl.
        destruct (find_node g nid) as [n|] eqn:Fn; [|discriminate]. apply IH; [apply Hsucc; reflexivity|exact Ht].
      + destruct (find_node g nid) as [n|] eqn:Fn; [|discriminate]. apply IH; [apply Hsucc; reflexivity|].
        intros x j [Heq|Hin]; [|apply Ht; exact Hin]. inversion Heq; subst x j. apply Hq. left. reflexivity.
  Qed.

  Theorem CW_consistent (g : graph) fuel b : CW g -> is_consistent_fuel fuel g = Some b -> b = true.
  Proof.
    intros [[nb [eb Hg]] [n0 [Hn0 [E0 I0]]] [n1 [Hn1 [E1 O1]]] [lv Hl]]. unfold is_consistent_fuel.
    pose proof Hg as [A B C D E F G H I J K].
    assert (X1 : forallb (node_refs_ok R g) (g_nodes g) = true).
    { apply forallb_forall. intros n Hn. unfold node_refs_ok. apply forallb_forall. intros dir Hdir. apply forallb_forall. intros x Hx.
      destruct Hdir as [<-|[<-|[]]]; cbn [node_eids] in Hx.
      + destruct (F n x Hn Hx) as [e [He [E1' E2]]]. rewrite <- E1', (find_edge_In_nd R g e B He). apply Z.eqb_eq. exact E2.
      + destruct (G n x Hn Hx) as [e [He [E1' E2]]]. rewrite <- E1', (find_edge_In_nd R g e B He). apply Z.eqb_eq. exact E2. }
    assert (X2 : forallb (fun e => edge_refs_ok R g e && sorted_opics (e_opics e)) (g_edges g) = true).
    { apply forallb_forall. intros e He. apply andb_true_iff. split; [|apply J; exact He].
      unfold edge_refs_ok. apply forallb_forall. intros dir Hdir. destruct Hdir as [<-|[<-|[]]]; cbn [edge_nid].
      + destruct (I e He) as [n [Hn [E1' E2]]]. rewrite <- E1', (find_node_In_nd R g n A Hn). apply zmem_In_w. exact E2.
      + destruct (H e He) as [n [Hn [E1' E2]]]. rewrite <- E1', (find_node_In_nd R g n A Hn). apply zmem_In_w. exact E2. }
    assert (X3 : terminal_ok R g 0 && terminal_ok R g 1 = true).
    { unfold terminal_ok. cbn [terminal]. rewrite <- E0, (find_node_In_nd R g n0 A Hn0). cbn [node_eids]. rewrite I0.
      rewrite <- E1, (find_node_In_nd R g n1 A Hn1). cbn [node_eids]. rewrite O1. reflexivity. }
    rewrite X1, X2, X3. cbn [negb].
    assert (L0 : levels_ok_fuel R fuel g 0 [(g_t0 g, 0%nat)] [] <> Some false).
    { apply (levels_not_false g lv 1 (lv (g_t0 g)) 0).
      - intros nid n e Fn He. destruct (listed_edge g nb eb nid n e 1 Hg Fn He) as [He' Ef]. change (e_from e = nid) in Ef. change (edge_nid e (1 - 0)) with (e_to e).
        specialize (Hl e He'). rewrite <- Ef. lia.
      - intros x j [Heq|[]]. injection Heq as <- <-. change (Z.of_nat 0) with 0. lia.
      - intros x j []. }
    assert (L1 : levels_ok_fuel R fuel g 1 [(g_t1 g, 0%nat)] [] <> Some false).
    { apply (levels_not_false g lv (-1) (- lv (g_t1 g)) 1).
      - intros nid n e Fn He. destruct (listed_edge g nb eb nid n e 0 Hg Fn He) as [He' Ef]. change (e_to e = nid) in Ef. change (edge_nid e (1 - 1)) with (e_from e).
        specialize (Hl e He'). rewrite <- Ef. lia.
      - intros x j [Heq|[]]. injection Heq as <- <-. change (Z.of_nat 0) with 0. lia.
      - intros x j []. }
    destruct (levels_ok_fuel R fuel g 0 [(g_t0 g, 0%nat)] []) as [[|]|];
      destruct (levels_ok_fuel R fuel g 1 [(g_t1 g, 0%nat)] []) as [[|]|];
      try congruence; intros Eq; inversion Eq; reflexivity.
  Qed.

  (* ---- every returned graph is such a graph, and its levels count the sites ---- *)
  Theorem from_opchains_CW cover (chains : list (chain R)) L idn g : (1 <= L)%nat ->
    from_opchains cover chains L idn = Ok g -> CW g.
  Proof.
    intros HL H. unfold from_opchains in H.
    destruct (negb (forallb (@chain_ok R) chains)); [discriminate|].
    destruct chains as [|c0 ct] eqn:Ech; [discriminate|]. rewrite <- Ech in *. clear Ech c0 ct.
    destruct (pad_all L idn (filter (@nonzero R) chains)) as [cs|] eqn:Ep; [|discriminate]. cbn [bind] in H.
    destruct (sweep cover L (mkst init_graph 1 0 (init_next idn cs) [])) as [s|] eqn:Es; [|discriminate]. cbn [bind] in H.
    destruct (pad_all_spec R L idn [] _ _ Ep) as [Hcs _].
    pose proof (SW_sweep R L idn cs Hcs cover L _ _ O (SW_init R L idn cs Hcs) ltac:(lia) Es) as [_ [_ [_ [Ht0 _]]]].
    pose proof (sweep_HW4 R cover L _ _ O (HW4_init R idn cs) Es) as [Hg [Hz [Hd [lv [Hl Hnx]]]]].
    unfold finish in H. destruct (s_next s) as [|[h c] [|? ?]] eqn:En; try discriminate.
    inversion Hnx as [|? ? [Hh1 [Hh2 [n1 [Hn1 [E1 O1]]]]] _]; subst. cbn [fst] in *.
    destruct Hz as [n0 [Hn0 [E0 I0]]].
    assert (Fin : forall g' : graph, GS R g' (s_nid s) (s_eid s) -> g_nodes g' = g_nodes (s_g s) -> g_t0 g' = 0 -> layered_by R g' lv ->
                    CW (remove_node (mkgraph (g_nodes g') (g_edges g') (g_t0 g') (h_nidl h)) (-1))).
    { intros g' Hg' En' Et' Hl'. constructor.
      - exists (s_nid s), (s_eid s). apply GS_remove_dummy. exact Hg'.
      - exists n0. cbn [g_t0 g_nodes remove_node]. split; [|split; [congruence|exact I0]].
        apply filter_In. split; [rewrite En'; exact Hn0|]. apply negb_true_iff, Z.eqb_neq. lia.
      - exists n1. cbn [g_t1 g_nodes remove_node]. split; [|split; [exact E1|exact O1]].
        apply filter_In. split; [rewrite En'; exact Hn1|]. apply negb_true_iff, Z.eqb_neq. lia.
      - exists lv. exact Hl'. }
    destruct (keqb R c (k1 R)); cbn [bind] in H.
    - inversion H; subst g. apply Fin; auto.
    - unfold absorb in H. destruct (find_node (s_g s) (h_nidl h)) as [n|]; [|discriminate].
      destruct (n_in n) as [|eid [|? ?]]; try discriminate. destruct (find_edge (s_g s) eid); [|discriminate].
      cbn [bind] in H. inversion H; subst g.
      apply (Fin (upd_edge (s_g s) eid (fun e : gedge => mkedge (e_id e) (e_from e) (e_to e) (map (fun p => (fst p, kmul R c (snd p))) (e_opics e)))));
        [apply GS_scale; exact Hg|reflexivity|exact Ht0|].
      intros e' He'. unfold upd_edge in He'. cbn [g_edges] in He'. apply in_map_iff in He'. destruct He' as [e [<- He]].
      destruct (e_id e =? eid); cbn [e_to e_from]; apply Hl; exact He.
  Qed.
  (* the code's final [assert graph.is_consistent()] cannot fail *)
  Theorem from_opchains_consistent cover (chains : list (chain R)) L idn g : (1 <= L)%nat ->
    from_opchains cover chains L idn = Ok g -> forall fuel b, is_consistent_fuel fuel g = Some b -> b = true.
  Proof. intros HL H fuel b. apply CW_consistent. eapply from_opchains_CW; eauto. Qed.
End Cons.
