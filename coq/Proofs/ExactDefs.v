(* C09 — exactness of single-site TDVP on a complete manifold (no quantum numbers), relative to an abstract exact global
   flow [G]: common definitions.
     * complete frames: a left tensor is LEFT-UNITARY when its (d*Dl) x Dr matricisation Q satisfies Q^H Q = 1 (left_iso)
       and Q Q^H = 1 (lcoiso); a right tensor is RIGHT-UNITARY when its Dl x (d*Dr) matricisation B satisfies B B^H = 1
       (right_iso) and B^H B = 1 (rcoiso);
     * the dense vector of a chain: its amplitudes on all words, in the order of [words];
     * the CONTRACTS tying the local solvers to the global flow (all restricted to the tensors W of the given operator and
       to the given bond profile Ds; nothing mentions a particular run):
         (F)  kexp_flowH       the site solver is a flow in its time argument and keeps shapes;
         (S0) kexp0_shape      the bond solver keeps shapes;
         (IL) intertwine_left  site flow on Q.C = Q.(bond flow on C) for left-unitary Q, the bond problem being built with the
                               left block updated by the model's own contraction_operator_step_left Q Q W BL;
         (IR) intertwine_right site flow on C.B = (bond flow on C).B for right-unitary B, right block updated by
                               contraction_operator_step_right B B W BR;
         (A)  kexp_global      when the site tensor at site m sits between complete frames (all tensors to the left
                               left-unitary, all tensors to the right right-unitary) and the environment blocks are the ones the
                               model builds from these frames, evolving the tensor by the site solver and re-embedding equals
                               G t applied to the embedded state;
         (G)  G_flow           G 0 = id, G t o G s = G (s + t) on dense vectors of chains.
       Mathematical content: (IL)/(IR) encode  H_site (Q (x) 1) = (Q (x) 1) H_bond  (proved for the model's contraction
       functions in Proofs/ExactLocal.v) together with  "H1 V = V H2  implies  exp(t H1) V = V exp(t H2)";  (A) encodes
       H_eff = V^H H V  (Proofs/OperationLocal.v, local_hamiltonian_projection) together with
       exp(t V^H H V) = V^H exp(t H) V  for unitary V;  (F), (G) are the group property of the exponential. *)
From Coq Require Import ZArith Arith List Lia Ring Setoid Bool.
From PT Require Import Base.Scalar Base.BigSum Base.Mx Model.Tensor Model.Operation Model.Sweeps
  Proofs.OperationEntries Proofs.SweepsCanon Proofs.SweepsGauge Proofs.ReverseDefs.
Import ListNotations.

Section Defs.
  Variable R : cring.
  Add Ring Rring_exact_defs : (k_rt R).
  Notation site := (site R).
  Notation osite := (osite R).
  Notation env := (env R).
  Notation mx := (mx R).
  Notation cj := (kconj R).
  Infix "*" := (kmul R).
  Notation dlt a b := (if Nat.eqb a b then k1 R else k0 R).
  Notation dlt2 s s' a a' := (if (Nat.eqb s s' && Nat.eqb a a')%bool then k1 R else k0 R).

  (* ---------------- complete frames ---------------- *)
  (* rows of the (d*Dl) x Dr matricisation are orthonormal *)
  Definition lcoiso (A : site) : Prop := forall s s' a a', s < length A -> s' < length A -> a < sdl A -> a' < sdl A ->
    sumn (sdr A) (fun c => get (sel A s) a c * cj (get (sel A s') a' c)) = dlt2 s s' a a'.
  (* columns of the Dl x (d*Dr) matricisation are orthonormal *)
  Definition rcoiso (A : site) : Prop := forall s s' c c', s < length A -> s' < length A -> c < sdr A -> c' < sdr A ->
    sumn (sdl A) (fun a => get (sel A s) a c * cj (get (sel A s') a c')) = dlt2 s s' c c'.
  Definition lunitary (A : site) : Prop := left_iso A /\ lcoiso A.
  Definition runitary (A : site) : Prop := right_iso A /\ rcoiso A.

  Definition lcoisob (A : site) : bool :=
    forallb (fun s => forallb (fun s' => forallb (fun a => forallb (fun a' => keqb R
      (sumn (sdr A) (fun c => get (sel A s) a c * cj (get (sel A s') a' c))) (dlt2 s s' a a'))
      (seq 0 (sdl A))) (seq 0 (sdl A))) (seq 0 (length A))) (seq 0 (length A)).
  Definition rcoisob (A : site) : bool :=
    forallb (fun s => forallb (fun s' => forallb (fun c => forallb (fun c' => keqb R
      (sumn (sdl A) (fun a => get (sel A s) a c * cj (get (sel A s') a c'))) (dlt2 s s' c c'))
      (seq 0 (sdr A))) (seq 0 (sdr A))) (seq 0 (length A))) (seq 0 (length A)).
  Lemma lcoisob_ok A : lcoisob A = true -> lcoiso A.
  Proof.
    unfold lcoisob, lcoiso. intros H s s' a a' Hs Hs' Ha Ha'.
    rewrite forallb_forall in H. specialize (H s ltac:(apply in_seq; lia)).
    rewrite forallb_forall in H. specialize (H s' ltac:(apply in_seq; lia)).
    rewrite forallb_forall in H. specialize (H a ltac:(apply in_seq; lia)).
    rewrite forallb_forall in H. specialize (H a' ltac:(apply in_seq; lia)).
    apply keqb_spec. exact H.
  Qed.
  Lemma rcoisob_ok A : rcoisob A = true -> rcoiso A.
  Proof.
    unfold rcoisob, rcoiso. intros H s s' c c' Hs Hs' Hc Hc'.
    rewrite forallb_forall in H. specialize (H s ltac:(apply in_seq; lia)).
    rewrite forallb_forall in H. specialize (H s' ltac:(apply in_seq; lia)).
    rewrite forallb_forall in H. specialize (H c ltac:(apply in_seq; lia)).
    rewrite forallb_forall in H. specialize (H c' ltac:(apply in_seq; lia)).
    apply keqb_spec. exact H.
  Qed.

  (* ---------------- dense vectors ---------------- *)
  Definition dense (d L : nat) (As : list site) : list R := map (amp As) (words d L).

  (* n * x *)
  Fixpoint nmul (n : nat) (x : R) : R := match n with O => k0 R | S k => kadd R x (nmul k x) end.

  (* ---------------- the contracts ---------------- *)
  Section Contracts.
    Variable Hs : list osite.
    Variable d : nat.
    Variables Ds DW : nat -> nat.
    Notation L := (length Hs).
    Notation Wat i := (nth i Hs []).
    Notation siteT i := (wsite d (Ds i) (Ds (S i))).
    Notation envL i := (wenv (DW i) (Ds i) (Ds i)).

    (* (F) *)
    Definition kexp_flowH (kexp : kexp_t R) : Prop :=
      forall i p p' p'' BL BR A s t, i < L -> siteT i A -> envL i BL -> envL (S i) BR ->
        siteT i (kexp p BL BR (Wat i) A t) /\
        kexp p BL BR (Wat i) A (k0 R) = A /\
        kexp p' BL BR (Wat i) (kexp p BL BR (Wat i) A s) t = kexp p'' BL BR (Wat i) A (kadd R s t).
    (* (S0): the bond between sites i-1 and i *)
    Definition kexp0_shape (kexp0 : kexp0_t R) : Prop :=
      forall i p BL BR C t, i <= L -> wmx (Ds i) (Ds i) C -> envL i BL -> envL i BR -> wmx (Ds i) (Ds i) (kexp0 p BL BR C t).
    (* (IL) *)
    Definition intertwine_left (kexp : kexp_t R) (kexp0 : kexp0_t R) : Prop :=
      forall i p p' BL BR Q C t, i < L -> siteT i Q -> lunitary Q -> wmx (Ds (S i)) (Ds (S i)) C -> envL i BL -> envL (S i) BR ->
        kexp p BL BR (Wat i) (rmul_site Q C) t =
        rmul_site Q (kexp0 p' (contraction_operator_step_left Q Q (Wat i) BL) BR C t).
    (* (IR) *)
    Definition intertwine_right (kexp : kexp_t R) (kexp0 : kexp0_t R) : Prop :=
      forall i p p' BL BR B C t, i < L -> siteT i B -> runitary B -> wmx (Ds i) (Ds i) C -> envL i BL -> envL (S i) BR ->
        kexp p BL BR (Wat i) (lmul_site C B) t =
        lmul_site (kexp0 p' BL (contraction_operator_step_right B B (Wat i) BR) C t) B.
    (* (A): EL j / ER j are the left / right blocks seen by site j *)
    Definition kexp_global (G : R -> list R -> list R) (m : nat) (kexp : kexp_t R) : Prop :=
      forall (As : list site) (EL ER : nat -> env) p X t,
        length As = L -> (forall j, j < L -> siteT j (nth j As [])) -> siteT m X ->
        (forall j, j < m -> lunitary (nth j As [])) -> (forall j, m < j < L -> runitary (nth j As [])) ->
        EL 0 = env_one -> (forall j, j < m -> EL (S j) = contraction_operator_step_left (nth j As []) (nth j As []) (Wat j) (EL j)) ->
        ER (L - 1) = env_one -> (forall j, m < j < L -> ER (j - 1) = contraction_operator_step_right (nth j As []) (nth j As []) (Wat j) (ER j)) ->
        dense d L (lset As m (kexp p (EL m) (ER m) (Wat m) X t)) = G t (dense d L (lset As m X)).
    (* (G) *)
    Definition G_flow (G : R -> list R -> list R) : Prop :=
      forall (As : list site), G (k0 R) (dense d L As) = dense d L As /\
        forall s t, G t (G s (dense d L As)) = G (kadd R s t) (dense d L As).

    (* the complete bond profile around the split site m: square matricisations left of m and right of m *)
    Definition complete_profile (m : nat) : Prop :=
      Ds 0 = 1 /\ Ds L = 1 /\ m < L /\ (forall j, j < m -> (d * Ds j)%nat = Ds (S j)) /\ (forall j, m < j < L -> Ds j = (d * Ds (S j))%nat).
  End Contracts.

  (* ---------------- the per-call contract of the QR calls recorded in a trace ----------------
     LAPACK's contract qr_ok, a well-formed R factor with as many rows as the input has columns (reduced QR of a matrix with
     at least as many rows as columns), and: the Q factor of a SQUARE input has orthonormal rows as well (over the complex
     numbers a consequence of Q^H Q = 1; not derivable in a commutative ring without determinants) *)
  Definition row_orth (Q : mx) : Prop := forall i i', i < nr Q -> i' < nr Q ->
    sumn (nc Q) (fun c => get Q i c * cj (get Q i' c)) = dlt i i'.
  Definition qr_full (M : mx) (ans : mx * mx * list BinNums.Z) : Prop :=
    qr_ok M ans /\ wf (snd (fst ans)) /\ nr (snd (fst ans)) = nc M /\ (nr M = nc M -> row_orth (fst (fst ans))).
  Variable qr : nat -> mx -> list BinNums.Z -> list BinNums.Z -> mx * mx * list BinNums.Z.
  Definition ex_call_ok (p : nat) (t : tcall R) : Prop :=
    match c_kind (t_call t), t_ten t, t_qs t with
    | QR, [[M]], [q0; q1] => qr_full M (qr p M q0 q1)
    | _, _, _ => True
    end.
  Fixpoint ex_tr_ok (tr : list (tcall R)) : Prop :=
    match tr with [] => True | t :: rest => ex_call_ok (length rest) t /\ ex_tr_ok rest end.
  Lemma ex_tr_ok_suffix new old : ex_tr_ok (new ++ old) -> ex_tr_ok old.
  Proof. induction new as [|t new IH]; [exact (fun H => H)|]. cbn [app ex_tr_ok]. intros [_ H]. exact (IH H). Qed.

  Lemma nmul_S n x : nmul (S n) x = kadd R x (nmul n x). Proof. reflexivity. Qed.
End Defs.

Arguments lcoiso {R} A. Arguments rcoiso {R} A. Arguments lunitary {R} A. Arguments runitary {R} A.
Arguments lcoisob {R} A. Arguments rcoisob {R} A.
Arguments dense {R} d L As. Arguments nmul {R} n x.
Arguments kexp_flowH {R} Hs d Ds DW kexp. Arguments kexp0_shape {R} Hs Ds DW kexp0.
Arguments intertwine_left {R} Hs d Ds DW kexp kexp0. Arguments intertwine_right {R} Hs d Ds DW kexp kexp0.
Arguments kexp_global {R} Hs d Ds G m kexp. Arguments G_flow {R} Hs d G.
Arguments complete_profile {R} Hs d Ds m.
Arguments row_orth {R} Q. Arguments qr_full {R} M ans.
Arguments ex_call_ok {R} qr p t. Arguments ex_tr_ok {R} qr tr.
