(* Semantics of the graph constructor [mk_bg] (mirror of BipartiteGraph.__init__): the adjacency lists
   represent exactly the set of the given edges, without duplicates, and adj_v is the transpose of adj_u. *)
From Coq Require Import ZArith List Bool Lia Permutation.
From PT Require Import Model.Bipartite Proofs.BipartiteCert.
Import ListNotations.
Open Scope Z_scope.

(* ---------- general list facts used by all Bipartite proof files ---------- *)

Lemma nth_upd_same {A} (l : list A) i x d : (i < length l)%nat -> nth i (upd l i x) d = x.
Proof. revert i. induction l as [|a t IH]; intros [|i] H; simpl in *; try lia; [reflexivity|apply IH; lia]. Qed.

Lemma nth_upd_other {A} (l : list A) i k x d : k <> i -> nth k (upd l i x) d = nth k l d.
Proof.
  revert i k. induction l as [|a t IH]; intros [|i] [|k] H; simpl; try reflexivity; try congruence.
  apply IH. congruence.
Qed.

Lemma upd_length {A} (l : list A) i x : length (upd l i x) = length l.
Proof. revert i. induction l as [|a t IH]; intros [|i]; simpl; try reflexivity. f_equal. apply IH. Qed.

Lemma NoDup_snoc {A} (l : list A) x : NoDup l -> ~ In x l -> NoDup (l ++ [x]).
Proof.
  intros Hl Hx. apply Permutation_NoDup with (l := x :: l).
  - apply Permutation_cons_append.
  - constructor; assumption.
Qed.

Lemma us_In g u : In u (us g) <-> 0 <= u < Z.of_nat (nu g).
Proof.
  unfold us. rewrite in_map_iff. split.
  - intros [k [E Hk]]. apply in_seq in Hk. lia.
  - intros H. exists (Z.to_nat u). split; [lia|]. apply in_seq. lia.
Qed.

Lemma zlist_NoDup s n : NoDup (map Z.of_nat (seq s n)).
Proof.
  revert s. induction n as [|n IH]; intros s; simpl; constructor; [|apply IH].
  rewrite in_map_iff. intros [k [E Hk]]. apply in_seq in Hk. lia.
Qed.

Lemma us_NoDup g : NoDup (us g).
Proof. apply zlist_NoDup. Qed.

Lemma inm_In m u v : inm m u v = true <-> In (u, v) m.
Proof.
  unfold inm. rewrite existsb_exists. split.
  - intros [[a b] [Hp E]]. cbn [fst snd] in E. apply andb_true_iff in E. destruct E as [E1 E2].
    apply Z.eqb_eq in E1. apply Z.eqb_eq in E2. subst. exact Hp.
  - intros H. exists (u, v). split; [exact H|]. cbn [fst snd]. rewrite !Z.eqb_refl. reflexivity.
Qed.

(* ---------- add_adj ---------- *)

Definition add1 (x : Z) (l : list Z) : list Z := if existsb (Z.eqb x) l then l else l ++ [x].

Lemma In_add1 x l y : In y (add1 x l) <-> In y l \/ y = x.
Proof.
  unfold add1. destruct (existsb (Z.eqb x) l) eqn:E.
  - split; [intros H; left; exact H|]. intros [H|H]; [exact H|]. subst y.
    apply existsb_exists in E. destruct E as [z [Hz Ez]]. apply Z.eqb_eq in Ez. subst z. exact Hz.
  - rewrite in_app_iff. simpl. split.
    + intros [H|[H|[]]]; [left; exact H|right; symmetry; exact H].
    + intros [H|H]; [left; exact H|right; left; symmetry; exact H].
Qed.

Lemma NoDup_add1 x l : NoDup l -> NoDup (add1 x l).
Proof.
  intros Hl. unfold add1. destruct (existsb (Z.eqb x) l) eqn:E; [exact Hl|].
  apply NoDup_snoc; [exact Hl|]. intros Hin.
  assert (Ht : existsb (Z.eqb x) l = true).
  { apply existsb_exists. exists x. split; [exact Hin|apply Z.eqb_refl]. }
  congruence.
Qed.

Lemma nth_map_combine_seq {A B} (f : nat * A -> B) (dA : A) (dB : B) :
  forall (l : list A) s k, (k < length l)%nat ->
  nth k (map f (combine (seq s (length l)) l)) dB = f ((s + k)%nat, nth k l dA).
Proof.
  induction l as [|a t IH]; intros s k Hk; simpl in *; [lia|].
  destruct k as [|k].
  - rewrite Nat.add_0_r. reflexivity.
  - rewrite IH by lia. replace (S s + k)%nat with (s + S k)%nat by lia. reflexivity.
Qed.

Lemma add_adj_length i x adj : length (add_adj i x adj) = length adj.
Proof. unfold add_adj. rewrite map_length, combine_length, seq_length. lia. Qed.

Lemma add_adj_nth i x adj k : (k < length adj)%nat ->
  nth k (add_adj i x adj) [] = if Nat.eqb k i then add1 x (nth k adj []) else nth k adj [].
Proof.
  intros Hk. unfold add_adj. rewrite (nth_map_combine_seq _ [] []) by exact Hk. reflexivity.
Qed.

(* an adjacency table of [n] rows representing the relation [R] *)
Definition adj_inv (n : nat) (a : list (list Z)) (R : nat -> Z -> Prop) : Prop :=
  length a = n /\ (forall k, NoDup (nth k a [])) /\ (forall k x, In x (nth k a []) <-> (k < n)%nat /\ R k x).

Lemma add_adj_inv n a (R R' : nat -> Z -> Prop) i x :
  adj_inv n a R -> (i < n)%nat -> (forall k y, R' k y <-> R k y \/ (k = i /\ y = x)) ->
  adj_inv n (add_adj i x a) R'.
Proof.
  intros [Hlen [Hnd Hin]] Hi HR. split; [|split].
  - rewrite add_adj_length. exact Hlen.
  - intros k. destruct (Nat.lt_ge_cases k (length a)) as [Hk|Hk].
    + rewrite add_adj_nth by exact Hk. destruct (Nat.eqb k i); [apply NoDup_add1|]; apply Hnd.
    + rewrite nth_overflow; [constructor|]. rewrite add_adj_length. exact Hk.
  - intros k y. destruct (Nat.lt_ge_cases k (length a)) as [Hk|Hk].
    + rewrite add_adj_nth by exact Hk. rewrite HR. destruct (Nat.eqb_spec k i) as [E|E].
      * rewrite In_add1, Hin. split.
        -- intros [[H1 H2]|H]; [split; [exact H1|left; exact H2]|]. split; [lia|right; split; assumption].
        -- intros [H1 [H2|[_ H2]]]; [left; split; assumption|right; exact H2].
      * rewrite Hin. split.
        -- intros [H1 H2]. split; [exact H1|left; exact H2].
        -- intros [H1 [H2|[H2 _]]]; [split; assumption|contradiction].
    + rewrite nth_overflow by (rewrite add_adj_length; exact Hk). split; [intros []|]. intros [H _]. lia.
Qed.

Lemma nth_repeat_nil {A} n k : nth k (repeat (@nil A) n) [] = [].
Proof. revert k. induction n as [|n IH]; intros [|k]; simpl; try reflexivity. apply IH. Qed.

Lemma adj_inv_init n (R : nat -> Z -> Prop) : (forall k x, ~ R k x) -> adj_inv n (repeat [] n) R.
Proof.
  intros HR. split; [apply repeat_length|split].
  - intros k. rewrite nth_repeat_nil. constructor.
  - intros k x. rewrite nth_repeat_nil. split; [intros []|]. intros [_ H]. exact (HR _ _ H).
Qed.

(* ---------- mk_bg ---------- *)

Definition mk_step (acc : list (list Z) * list (list Z)) (e : Z * Z) : list (list Z) * list (list Z) :=
  let '(au, av) := acc in let '(u, v) := e in (add_adj (Z.to_nat u) v au, add_adj (Z.to_nat v) u av).

Lemma mk_bg_unfold n_u n_v edges :
  mk_bg n_u n_v edges =
  {| nu := n_u; nv := n_v;
     adju := fst (fold_left mk_step edges (repeat [] n_u, repeat [] n_v));
     adjv := snd (fold_left mk_step edges (repeat [] n_u, repeat [] n_v)) |}.
Proof.
  unfold mk_bg. fold mk_step.
  destruct (fold_left mk_step edges (repeat [] n_u, repeat [] n_v)) as [au av]. reflexivity.
Qed.

Definition edge_ok (n_u n_v : nat) (e : Z * Z) : Prop :=
  0 <= fst e < Z.of_nat n_u /\ 0 <= snd e < Z.of_nat n_v.

Section MkBg.
  Variables n_u n_v : nat.

  Lemma mk_fold_inv : forall edges au av done,
    (forall e, In e edges -> edge_ok n_u n_v e) ->
    adj_inv n_u au (fun k v => In (Z.of_nat k, v) done) ->
    adj_inv n_v av (fun k u => In (u, Z.of_nat k) done) ->
    adj_inv n_u (fst (fold_left mk_step edges (au, av))) (fun k v => In (Z.of_nat k, v) (done ++ edges)) /\
    adj_inv n_v (snd (fold_left mk_step edges (au, av))) (fun k u => In (u, Z.of_nat k) (done ++ edges)).
  Proof.
    induction edges as [|[u v] t IH]; intros au av done Hok Hu Hv.
    - rewrite app_nil_r. simpl. split; assumption.
    - destruct (Hok (u, v) (or_introl eq_refl)) as [Hur Hvr]. cbn [fst snd] in Hur, Hvr.
      cbn [fold_left mk_step].
      replace (done ++ (u, v) :: t) with ((done ++ [(u, v)]) ++ t) by (rewrite <- app_assoc; reflexivity).
      apply IH.
      + intros e He. apply Hok. right. exact He.
      + apply add_adj_inv with (R := fun k y => In (Z.of_nat k, y) done); [exact Hu|lia|].
        intros k y. rewrite in_app_iff. simpl. split.
        * intros [H|[H|[]]]; [left; exact H|]. right. inversion H. split; [lia|reflexivity].
        * intros [H|[H1 H2]]; [left; exact H|]. right. left. subst. f_equal. lia.
      + apply add_adj_inv with (R := fun k y => In (y, Z.of_nat k) done); [exact Hv|lia|].
        intros k y. rewrite in_app_iff. simpl. split.
        * intros [H|[H|[]]]; [left; exact H|]. right. inversion H. split; [lia|reflexivity].
        * intros [H|[H1 H2]]; [left; exact H|]. right. left. subst. f_equal. lia.
  Qed.

  Variable edges : list (Z * Z).
  Hypothesis edges_ok : forall e, In e edges -> edge_ok n_u n_v e.
  Let g := mk_bg n_u n_v edges.

  Lemma mk_bg_inv :
    nu g = n_u /\ nv g = n_v /\
    adj_inv n_u (adju g) (fun k v => In (Z.of_nat k, v) edges) /\
    adj_inv n_v (adjv g) (fun k u => In (u, Z.of_nat k) edges).
  Proof.
    unfold g. rewrite mk_bg_unfold. cbn [nu nv adju adjv]. split; [reflexivity|split; [reflexivity|]].
    apply (mk_fold_inv edges (repeat [] n_u) (repeat [] n_v) [] edges_ok); apply adj_inv_init; intros k x [].
  Qed.

  Lemma mk_bg_nu : nu g = n_u.  Proof. apply mk_bg_inv. Qed.
  Lemma mk_bg_nv : nv g = n_v.  Proof. apply mk_bg_inv. Qed.

  (* adjacency lists, indexed by in-range vertices, are exactly the edge set *)
  Lemma mk_bg_adj_u u v : 0 <= u < Z.of_nat n_u -> (In v (adj_u g u) <-> In (u, v) edges).
  Proof.
    intros Hu. destruct mk_bg_inv as [_ [_ [[_ [_ H]] _]]]. unfold adj_u. rewrite H.
    rewrite Z2Nat.id by lia. split; [intros [_ H1]; exact H1|]. intros H1. split; [lia|exact H1].
  Qed.

  Lemma mk_bg_adj_v u v : 0 <= v < Z.of_nat n_v -> (In u (adj_v g v) <-> In (u, v) edges).
  Proof.
    intros Hv. destruct mk_bg_inv as [_ [_ [_ [_ [_ H]]]]]. unfold adj_v. rewrite H.
    rewrite Z2Nat.id by lia. split; [intros [_ H1]; exact H1|]. intros H1. split; [lia|exact H1].
  Qed.

  (* has_edge on the constructed graph is membership in the given edge list (duplicates collapse) *)
  Theorem mk_bg_edges u v : has_edge g u v = true <-> In (u, v) edges.
  Proof.
    unfold has_edge, in_range. rewrite !andb_true_iff, mk_bg_nu, mk_bg_nv, mem_In, !Z.leb_le, !Z.ltb_lt. split.
    - intros [[Hu Hv] H]. apply mk_bg_adj_u in H; [exact H|lia].
    - intros H. destruct (edges_ok _ H) as [Hu Hv]. cbn [fst snd] in Hu, Hv.
      split; [split; lia|]. apply mk_bg_adj_u; [lia|exact H].
  Qed.

  (* adj_v is the transpose of adj_u *)
  Theorem mk_bg_transpose u v : 0 <= u < Z.of_nat n_u -> 0 <= v < Z.of_nat n_v ->
    (In u (adj_v g v) <-> In v (adj_u g u)).
  Proof. intros Hu Hv. rewrite mk_bg_adj_u, mk_bg_adj_v by assumption. reflexivity. Qed.

  (* duplicate edges are suppressed *)
  Theorem mk_bg_nodup_u u : NoDup (adj_u g u).
  Proof. destruct mk_bg_inv as [_ [_ [[_ [H _]] _]]]. apply H. Qed.
  Theorem mk_bg_nodup_v v : NoDup (adj_v g v).
  Proof. destruct mk_bg_inv as [_ [_ [_ [_ [H _]]]]]. apply H. Qed.

  (* every adjacency entry (whatever the index) is in range *)
  Lemma mk_bg_adj_u_range u v : In v (adj_u g u) -> 0 <= v < Z.of_nat (nv g).
  Proof.
    destruct mk_bg_inv as [_ [_ [[_ [_ H]] _]]]. unfold adj_u. rewrite H. intros [_ H1].
    destruct (edges_ok _ H1) as [_ Hv]. rewrite mk_bg_nv. exact Hv.
  Qed.
  Lemma mk_bg_adj_v_range v u : In u (adj_v g v) -> 0 <= u < Z.of_nat (nu g).
  Proof.
    destruct mk_bg_inv as [_ [_ [_ [_ [_ H]]]]]. unfold adj_v. rewrite H. intros [_ H1].
    destruct (edges_ok _ H1) as [Hu _]. rewrite mk_bg_nu. exact Hu.
  Qed.
End MkBg.

(* the graph hypothesis used by the algorithm proofs: adjacency entries of U-vertices are V-vertices *)
Definition adj_ok (g : bg) : Prop := forall u v, In v (adj_u g u) -> 0 <= v < Z.of_nat (nv g).

Lemma mk_bg_adj_ok n_u n_v edges : (forall e, In e edges -> edge_ok n_u n_v e) -> adj_ok (mk_bg n_u n_v edges).
Proof. intros H u v. apply mk_bg_adj_u_range. exact H. Qed.
