(* C20, Ising part: for EVERY L >= 1 and all parameters J h g in any coefficient ring the graph unrolled by
   OpGraph.from_automaton from the Ising automaton has the bond dimensions [1,3,...,3,1].
   The active state sets are computed for symbolic L: forward sets [0], [0;1;2], [0;1;2], ...; backward sets
   [1], [0;1;2], [0;1;2], ...; hence nids_active = [[0], [0;1;2] x (L-1), [1]].  Every automaton edge is active
   whatever the coefficients are, so nothing is assumed about J h g.  The graph exists by C17's totality theorem
   (path: edge 4 at the first site, then L-1 times the identity loop 1 at node 1); its layer widths are the
   active-set sizes by Proofs/CompactAllLAut.v. *)
From Coq Require Import ZArith List Lia Bool.
From PT Require Import Base.Scalar Base.BigSum Base.Mx Model.OpGraph Model.FromOpchains Model.GraphMPO Model.Hamiltonians Model.Compact.
From PT Require Import Model.C17Common Model.AutOp Model.AutOpPath Model.HamIsing
                       Proofs.C17AutOp Proofs.C17AutTotal Proofs.HamIsingDen Proofs.CompactAllLAut.
Import ListNotations.
Open Scope Z_scope.

Lemma sequence_map_eq {A B} (f : A -> res B) (f' : A -> B) (l : list A) :
  (forall a, In a l -> f a = Ok (f' a)) -> sequence (map f l) = Ok (map f' l).
Proof.
  induction l as [|x t IH]; intros H; cbn [map sequence]; [reflexivity|].
  rewrite (H x (or_introl eq_refl)). cbn [bind]. rewrite IH by (intros a Ha; apply H; right; exact Ha). reflexivity.
Qed.
Lemma map_const_repeat {A B} (h : A -> B) (c : B) (l : list A) :
  (forall a, In a l -> h a = c) -> map h l = repeat c (length l).
Proof.
  induction l as [|x t IH]; intros H; cbn [map length repeat]; [reflexivity|].
  rewrite (H x (or_introl eq_refl)), IH by (intros a Ha; apply H; right; exact Ha). reflexivity.
Qed.

Section IsingAllL.
  Variable R : cring.
  Variables J h g : R.
  Let aut := ising_autop J h g.

  (* ---- one step of the reachability sweeps, at any site ---- *)
  Lemma ising_step_f0 j : step aut 1 j [0] = Ok [0; 1; 2].
  Proof. reflexivity. Qed.
  Lemma ising_step_f j : step aut 1 j [0; 1; 2] = Ok [0; 1; 2].
  Proof. reflexivity. Qed.
  Lemma ising_step_b0 j : step aut 0 j [1] = Ok [0; 1; 2].
  Proof. reflexivity. Qed.
  Lemma ising_step_b j : step aut 0 j [0; 1; 2] = Ok [0; 1; 2].
  Proof. reflexivity. Qed.

  Lemma ising_fwd i : fwd aut i = Ok (match i with O => [0] | S _ => [0; 1; 2] end).
  Proof.
    induction i as [|i IH]; [reflexivity|]. cbn [fwd]. rewrite IH. cbn [bind].
    destruct i; [apply ising_step_f0|apply ising_step_f].
  Qed.
  Lemma ising_back L k : back aut L k = Ok (match k with O => [1] | S _ => [0; 1; 2] end).
  Proof.
    induction k as [|k IH]; [reflexivity|]. cbn [back]. rewrite IH. cbn [bind].
    destruct k; [apply ising_step_b0|apply ising_step_b].
  Qed.

  Definition ising_layer (L i : nat) : list Z :=
    if Nat.eqb i 0 then [0] else if Nat.ltb i L then [0; 1; 2] else [1].

  Lemma ising_active_layer L i : (1 <= L)%nat -> (i <= L)%nat -> active_layer aut L i = Ok (ising_layer L i).
  Proof.
    intros HL Hi. unfold active_layer, ising_layer. rewrite ising_back, ising_fwd. cbn [bind].
    destruct i as [|i]; cbn [Nat.eqb].
    - destruct (L - 0)%nat as [|d] eqn:E; [lia|]. reflexivity.
    - destruct (Nat.ltb_spec (S i) L) as [Hlt|Hge].
      + destruct (L - S i)%nat as [|d] eqn:E; [lia|]. reflexivity.
      + destruct (L - S i)%nat as [|d] eqn:E; [|lia]. reflexivity.
  Qed.

  Lemma ising_active_layers L : (1 <= L)%nat ->
    active_layers aut L = Ok (map (ising_layer L) (seq 0 (S L))).
  Proof.
    intros HL. unfold active_layers. apply sequence_map_eq. intros i Hi. apply in_seq in Hi.
    apply ising_active_layer; [exact HL|lia].
  Qed.

  Lemma ising_layer_widths L : (1 <= L)%nat ->
    map (@length Z) (map (ising_layer L) (seq 0 (S L))) = dims_const L 3.
  Proof.
    intros HL. destruct L as [|L']; [lia|]. unfold dims_const.
    rewrite seq_S. cbn [seq Nat.add]. rewrite map_map, map_app. cbn [map app].
    replace (S L' - 1)%nat with L' by lia. apply f_equal2; [reflexivity|]. apply f_equal2.
    - rewrite (map_const_repeat _ 3%nat), seq_length; [reflexivity|].
      intros i Hi. apply in_seq in Hi. unfold ising_layer.
      destruct i as [|i]; [lia|]. cbn [Nat.eqb]. destruct (Nat.ltb_spec (S i) (S L')); [reflexivity|lia].
    - unfold ising_layer. cbn [Nat.eqb]. rewrite Nat.ltb_irrefl. reflexivity.
  Qed.

  (* ---- a path of every length L >= 1: edge 4 (h Z), then the identity loop at the end terminal ---- *)
  Lemma ising_loop_path n : forall i, is_path_from aut i 1 (repeat 1 n) = true.
  Proof. induction n as [|n IH]; intros i; [reflexivity|]. exact (IH (S i)). Qed.

  Lemma ising_has_path L : (1 <= L)%nat -> exists eids, is_path aut L eids = true.
  Proof.
    intros HL. exists (4 :: repeat 1 (L - 1)). unfold is_path. cbn [length]. rewrite repeat_length.
    replace (S (L - 1)) with L by lia. rewrite Nat.eqb_refl. cbn [andb].
    cbn [is_path_from]. change (is_path_from aut 1 1 (repeat 1 (L - 1)) = true). apply ising_loop_path.
  Qed.

  Theorem ising_bond_dims_all_sec (L : nat) : (1 <= L)%nat ->
    exists gr, ising_graph J h g L = Some gr /\ bond_dims gr = Some (dims_const L 3).
  Proof.
    intros HL.
    destruct (from_automaton_total R aut (ising_consistent R J h g) L HL (ising_has_path L HL)) as [gr [H1 [_ H3]]].
    exists gr. split; [exact H1|].
    rewrite (from_automaton_bond_dims R aut L gr _ (ising_consistent R J h g) H3 (ising_active_layers L HL)).
    rewrite ising_layer_widths by exact HL. reflexivity.
  Qed.
End IsingAllL.

Theorem ising_bond_dims_all (R : cring) (J h g : R) (L : nat) : (1 <= L)%nat ->
  exists gr, ising_graph J h g L = Some gr /\ bond_dims gr = Some (dims_const L 3).
Proof. exact (ising_bond_dims_all_sec R J h g L). Qed.
Print Assumptions ising_bond_dims_all.
