(* C02, round 3: total (boundary) bond charges through the four sweep functions.

   The sweeps rebind only inner bonds psi.qD[1..L-1] ([frame_*]: pure bookkeeping, no contract at all), except through
     - the preliminary psi.orthonormalize(mode='right')  (boundary lists kept for a non-zero state: orth_total_charge_kept),
     - DMRG's closing right-QR of site 0, which rebinds psi.qD[0] = -qbond.  There the centre tensor A[0] has norm one
       (the mixed-canonical invariant Z of C10 with N = 1), hence is not zero, hence the 1 x 1 factor R of A[0]^T = Q R is not
       zero, and R is charge conserving under (qbond, -qD[0]): qbond = -qD[0]  ([final_keeps_q0]).
   TDVP: no hypothesis on the solver, QR or split calls.  DMRG: the contracts of C02 (sparsity) and of C10 (Ritz contract,
   exact split, QR factorisation) on the calls actually issued; every L >= 1. *)
From Coq Require Import ZArith List Lia Bool Arith Ring.
From PT Require Import Base.Scalar Base.Field Base.BigSum Base.Mx Model.Tensor Model.MPSOps Model.BondOps Model.Operation Model.Sweeps.
From PT Require Import Model.Orthonormalize.
From PT Require Import Proofs.MPSOpsBase Proofs.MPSOpsTop Proofs.MPSOpsShape Proofs.OperationSums Proofs.OperationEntries
  Proofs.OperationChains Proofs.OperationUniform Proofs.OperationTwoSite.
From PT Require Import Proofs.SweepsCanon Proofs.SweepsFlow Proofs.SweepsLocal Proofs.SweepsGauge Proofs.SweepsRun Proofs.Sweeps2Run.
From PT Require Import Proofs.BondOpsSpec Proofs.OrthDefs Proofs.OrthQRExtra Proofs.OrthSweep Proofs.OrthTop Proofs.OrthRight.
From PT Require Import Proofs.HistSparse Proofs.HistChain Proofs.HistOps Proofs.HistInv Proofs.HistCharge Proofs.HistOrth.
From PT Require Import Proofs.Hist2Local Proofs.Hist2Sweep Proofs.Hist2Dmrg Proofs.Hist2Top Proofs.Hist3Sweep2 Proofs.Hist3Top.
Import ListNotations.
Open Scope nat_scope.

Lemma hd_nth0' {T} (l : list T) d : hd d l = nth 0 l d.
Proof. destruct l; reflexivity. Qed.
Lemma last_nth' {T} (l : list T) d n : length l = S n -> last l d = nth n l d.
Proof.
  revert n. induction l as [|x l IH]; intros n Hl; [discriminate|]. destruct l as [|y l].
  - cbn [length] in Hl. assert (n = 0) as -> by lia. reflexivity.
  - destruct n as [|n]; [cbn [length] in Hl; lia|]. change (last (x :: y :: l) d) with (last (y :: l) d).
    rewrite (IH n) by (cbn [length] in *; lia). reflexivity.
Qed.

(* ======================= the frame: which bond charge lists a sweep can rebind ======================= *)
Section Frame.
  Variable R : cring.
  Notation sw := (sw R).
  Variable L : nat.

  (* the first and the last (index L) bond charge lists and the number of lists are those of st *)
  Definition bfr (st st' : sw) : Prop :=
    length (s_qD st') = length (s_qD st) /\ gq st' 0 = gq st 0 /\ gq st' L = gq st L.
  Lemma bfr_refl st : bfr st st. Proof. repeat split. Qed.
  Lemma bfr_trans a b c : bfr a b -> bfr b c -> bfr a c.
  Proof. intros (H1 & H2 & H3) (K1 & K2 & K3). split; [congruence|split; congruence]. Qed.
  Lemma bfr_eq st st' : s_qD st' = s_qD st -> bfr st st'.
  Proof. intros E. unfold bfr, gq. rewrite E. repeat split. Qed.
  Lemma bfr_lset st st' k qb : 0 < k -> k < L -> s_qD st' = lset (s_qD st) k qb -> bfr st st'.
  Proof.
    intros H0 HL E. unfold bfr, gq. rewrite E, lset_length. split; [reflexivity|]. split; apply nth_lset_other; lia.
  Qed.

  Lemma fold_bfr {I} (body : sw -> I -> sw) (P : I -> Prop) (l : list I) :
    (forall s i, P i -> bfr s (body s i)) -> Forall P l -> forall st, bfr st (fold_left body l st).
  Proof.
    intros Hb. induction l as [|i l IH]; intros HP st; [apply bfr_refl|]. inversion HP; subst. cbn [fold_left].
    apply (bfr_trans _ (body st i)); [apply Hb; assumption|apply IH; assumption].
  Qed.
  Lemma fold_bfr_se {I} (body : sw * R -> I -> sw * R) (P : I -> Prop) (l : list I) :
    (forall s i, P i -> bfr (fst s) (fst (body s i))) -> Forall P l -> forall se, bfr (fst se) (fst (fold_left body l se)).
  Proof.
    intros Hb. induction l as [|i l IH]; intros HP se; [apply bfr_refl|]. inversion HP; subst. cbn [fold_left].
    apply (bfr_trans _ (fst (body se i))); [apply Hb; assumption|apply IH; assumption].
  Qed.
  Lemma iter_bfr (f : sw -> sw) : (forall s, bfr s (f s)) -> forall n st, bfr st (iter n f st).
  Proof.
    intros Hf. induction n as [|n IH]; intros st; [apply bfr_refl|]. cbn [iter]. eapply bfr_trans; [apply Hf|apply IH].
  Qed.

  Variable qr : nat -> mx R -> list Z -> list Z -> mx R * mx R * list Z.
  Variable split : nat -> site R -> list Z -> list Z -> list Z -> list Z -> bool -> site R * site R * list Z.
  Variable kexp : nat -> env R -> env R -> osite R -> site R -> R -> site R.
  Variable kexp0 : nat -> env R -> env R -> mx R -> R -> mx R.
  Variable keig : nat -> env R -> env R -> osite R -> site R -> R * site R.
  Variables (Hs : list (osite R)) (qd : list Z) (dt hdt : R).

  (* ---- single-site TDVP ---- *)
  Lemma frame_tdvp1_lr st i : S i < L -> bfr st (tdvp1_lr qr kexp kexp0 Hs qd dt hdt st i).
  Proof.
    intros Hi. unfold tdvp1_lr, qr_left. cbv zeta. destruct (qr _ _ _ _) as [[Q C] qb]. apply (bfr_lset _ _ (S i) qb); [lia|lia|reflexivity].
  Qed.
  Lemma frame_tdvp1_rl st i : 0 < i -> i < L -> bfr st (tdvp1_rl qr kexp kexp0 Hs qd dt hdt st i).
  Proof.
    intros H0 Hi. unfold tdvp1_rl, qr_right. cbv zeta. destruct (qr _ _ _ _) as [[Q C] qb]. apply (bfr_lset _ _ i (Sweeps.zneg qb)); [lia|lia|reflexivity].
  Qed.
  Lemma frame_tdvp1_step st : bfr st (tdvp1_step qr kexp kexp0 Hs qd dt hdt L st).
  Proof.
    unfold tdvp1_step. cbv zeta.
    set (st1 := fold_left (tdvp1_lr qr kexp kexp0 Hs qd dt hdt) (seq 0 (L - 1)) st).
    set (st2 := tdvp1_mid kexp Hs dt hdt st1 (L - 1)).
    apply (bfr_trans _ st1); [|apply (bfr_trans _ st2)].
    - apply (fold_bfr (tdvp1_lr qr kexp kexp0 Hs qd dt hdt) (fun i => S i < L)); [intros s i; apply frame_tdvp1_lr|].
      apply Forall_forall. intros i Hi. apply in_seq in Hi. cbv beta. lia.
    - apply bfr_eq. reflexivity.
    - apply (fold_bfr (tdvp1_rl qr kexp kexp0 Hs qd dt hdt) (fun i => 0 < i /\ i < L)); [intros s i [H1 H2]; apply frame_tdvp1_rl; assumption|].
      apply Forall_forall. intros i Hi. apply in_rev, in_seq in Hi. cbv beta. lia.
  Qed.

  (* ---- two-site TDVP ---- *)
  Lemma frame_tdvp2_pair st i c left : S i < L -> bfr st (tdvp2_pair split kexp Hs qd dt hdt st i c left).
  Proof.
    intros Hi. unfold tdvp2_pair. cbv zeta. destruct (split _ _ _ _ _ _ _) as [[A0 A1] qb]. apply (bfr_lset _ _ (S i) qb); [lia|lia|reflexivity].
  Qed.
  Lemma frame_tdvp2_lr st i : S i < L -> bfr st (tdvp2_lr split kexp Hs qd dt hdt st i).
  Proof.
    intros Hi. unfold tdvp2_lr. apply (bfr_trans _ (tdvp2_pair split kexp Hs qd dt hdt st i 1 false)); [apply (frame_tdvp2_pair st i 1 false Hi)|].
    apply bfr_eq. reflexivity.
  Qed.
  Lemma frame_tdvp2_mid st i : S i < L -> bfr st (tdvp2_mid split kexp Hs qd dt hdt st i).
  Proof.
    intros Hi. unfold tdvp2_mid. apply (bfr_trans _ (tdvp2_pair split kexp Hs qd dt hdt st i 2 true)); [apply (frame_tdvp2_pair st i 2 true Hi)|].
    apply bfr_eq. reflexivity.
  Qed.
  Lemma frame_tdvp2_rl st i : S i < L -> bfr st (tdvp2_rl split kexp Hs qd dt hdt st i).
  Proof.
    intros Hi. unfold tdvp2_rl. set (st0 := evolve_site kexp Hs dt hdt st (S i) (-1)).
    apply (bfr_trans _ st0); [apply bfr_eq; reflexivity|].
    apply (bfr_trans _ (tdvp2_pair split kexp Hs qd dt hdt st0 i 1 true)); [apply (frame_tdvp2_pair st0 i 1 true Hi)|].
    apply bfr_eq. reflexivity.
  Qed.
  Lemma frame_tdvp2_step st : 2 <= L -> bfr st (tdvp2_step split kexp Hs qd dt hdt L st).
  Proof.
    intros HL2. unfold tdvp2_step. cbv zeta.
    set (st1 := fold_left (tdvp2_lr split kexp Hs qd dt hdt) (seq 0 (L - 2)) st).
    set (st2 := tdvp2_mid split kexp Hs qd dt hdt st1 (L - 2)).
    apply (bfr_trans _ st1); [|apply (bfr_trans _ st2)].
    - apply (fold_bfr (tdvp2_lr split kexp Hs qd dt hdt) (fun i => S i < L)); [intros s i; apply frame_tdvp2_lr|].
      apply Forall_forall. intros i Hi. apply in_seq in Hi. cbv beta. lia.
    - apply frame_tdvp2_mid. lia.
    - apply (fold_bfr (tdvp2_rl split kexp Hs qd dt hdt) (fun i => S i < L)); [intros s i; apply frame_tdvp2_rl|].
      apply Forall_forall. intros i Hi. apply in_rev, in_seq in Hi. cbv beta. lia.
  Qed.

  (* ---- DMRG loop bodies ---- *)
  Lemma frame_dmrg1_lr se i : S i < L -> bfr (fst se) (fst (dmrg1_lr qr keig Hs qd se i)).
  Proof.
    intros Hi. unfold dmrg1_lr, Sweeps.lift, upd_BL, dmrg_qr_left, dmrg_opt, qr_left. cbv zeta. destruct (keig _ _ _ _ _) as [en A1]. cbn [fst snd].
    destruct (qr _ _ _ _) as [[Q C] qb]. cbn [fst]. apply (bfr_lset _ _ (S i) qb); [lia|lia|reflexivity].
  Qed.
  Lemma frame_dmrg1_rl se i : 0 < i -> i < L -> bfr (fst se) (fst (dmrg1_rl qr keig Hs qd se i)).
  Proof.
    intros H0 Hi. unfold dmrg1_rl, Sweeps.lift, upd_BR, dmrg_qr_right, dmrg_opt, qr_right. cbv zeta. destruct (keig _ _ _ _ _) as [en A1]. cbn [fst snd].
    destruct (qr _ _ _ _) as [[Q C] qb]. cbn [fst]. apply (bfr_lset _ _ i (Sweeps.zneg qb)); [lia|lia|reflexivity].
  Qed.
  Lemma frame_dmrg2_lr se i : S i < L -> bfr (fst se) (fst (dmrg2_lr split keig Hs qd se i)).
  Proof.
    intros Hi. unfold dmrg2_lr, Sweeps.lift, upd_BL, dmrg2_pair. cbv zeta. destruct (keig _ _ _ _ _) as [en A1].
    destruct (split _ _ _ _ _ _ _) as [[A0 A1'] qb]. cbn [fst snd]. apply (bfr_lset _ _ (S i) qb); [lia|lia|reflexivity].
  Qed.
  Lemma frame_dmrg2_rl se i : S i < L -> bfr (fst se) (fst (dmrg2_rl split keig Hs qd se i)).
  Proof.
    intros Hi. unfold dmrg2_rl, Sweeps.lift, upd_BR, dmrg2_pair. cbv zeta. destruct (keig _ _ _ _ _) as [en A1].
    destruct (split _ _ _ _ _ _ _) as [[A0 A1'] qb]. cbn [fst snd]. apply (bfr_lset _ _ (S i) qb); [lia|lia|reflexivity].
  Qed.
End Frame.

(* the prologue hands over the orthonormalised state *)
Lemma sweep_init_qD (R : cring) orth (H : mpo R) psi st nrm : sweep_init orth H psi = Some (st, nrm) ->
  s_qD st = m_qD (fst (orth psi)) /\ s_A st = m_A (fst (orth psi)) /\ length (m_A (fst (orth psi))) = length (o_A H).
Proof.
  unfold sweep_init. destruct (negb _) eqn:El; [discriminate|]. destruct (orth psi) as [psi1 n1].
  destruct (compute_right_operator_blocks psi1 H) as [BR|] eqn:EB; [|discriminate]. destruct (forallb _ _); [|discriminate].
  intros E. injection E as <- <-. cbn [s_qD s_A fst]. split; [reflexivity|]. split; [reflexivity|].
  unfold compute_right_operator_blocks, compute_right_operator_blocks_sites in EB.
  destruct (negb (Nat.eqb (length (m_A psi1)) (length (o_A H)))) eqn:E2; [discriminate|].
  apply negb_false_iff, Nat.eqb_eq in E2. exact E2.
Qed.

Lemma bfr_boundary (R : cring) L (st st' : sw R) : bfr R L st st' -> length (s_qD st) = S L ->
  hd [] (s_qD st') = hd [] (s_qD st) /\ last (s_qD st') [] = last (s_qD st) [].
Proof.
  intros (H1 & H2 & H3) HL. unfold gq in *. rewrite !hd_nth0'. rewrite (last_nth' _ _ L) by congruence. rewrite (last_nth' _ _ L) by exact HL.
  split; assumption.
Qed.

(* ======================= TDVP: both integrators return the boundary charge lists of the orthonormalised state ======================= *)
Theorem tdvp1_boundary (R : cring) orth qr kexp kexp0 (H : mpo R) psi dt hdt n A qD nrm tr :
  tdvp_singlesite orth qr kexp kexp0 H psi dt hdt n = Some (A, qD, nrm, tr) ->
  mps_ok (fst (orth psi)) = true ->
  hd [] qD = hd [] (m_qD (fst (orth psi))) /\ last qD [] = last (m_qD (fst (orth psi))) [].
Proof.
  intros Hrun Hok. unfold tdvp_singlesite in Hrun. destruct (sweep_init orth H psi) as [[st nrm']|] eqn:Einit; [|discriminate].
  injection Hrun as <- <- <- <-. destruct (sweep_init_qD R orth H psi st nrm' Einit) as (Eq & EA & EL).
  apply mps_ok_P in Hok. pose proof (chainP_length _ _ _ _ Hok) as Hlen.
  rewrite <- Eq. apply (bfr_boundary R (length (o_A H))); [|rewrite Eq, Hlen, EL; reflexivity].
  apply iter_bfr. intros s. apply frame_tdvp1_step.
Qed.

Theorem tdvp2_boundary (R : cring) orth split kexp (H : mpo R) psi dt hdt n A qD nrm tr :
  tdvp_twosite orth split kexp H psi dt hdt n = Some (A, qD, nrm, tr) ->
  mps_ok (fst (orth psi)) = true ->
  hd [] qD = hd [] (m_qD (fst (orth psi))) /\ last qD [] = last (m_qD (fst (orth psi))) [].
Proof.
  intros Hrun Hok. unfold tdvp_twosite in Hrun. destruct (Nat.ltb (length (o_A H)) 2) eqn:EL2; [discriminate|]. apply Nat.ltb_ge in EL2.
  destruct (sweep_init orth H psi) as [[st nrm']|] eqn:Einit; [|discriminate].
  injection Hrun as <- <- <- <-. destruct (sweep_init_qD R orth H psi st nrm' Einit) as (Eq & EA & EL).
  apply mps_ok_P in Hok. pose proof (chainP_length _ _ _ _ Hok) as Hlen.
  rewrite <- Eq. apply (bfr_boundary R (length (o_A H))); [|rewrite Eq, Hlen, EL; reflexivity].
  apply iter_bfr. intros s. apply frame_tdvp2_step. exact EL2.
Qed.

(* total charge kept by both TDVP integrators, with psi.orthonormalize(mode='right') = the model of C01: for a state with a
   non-zero amplitude the returned qD[0] and qD[L] are the input's -- whatever the local solvers, QR and split calls return *)
Theorem tdvp_total_charge_kept (F : ofield) (dqr : mx (Cx F) -> mx (Cx F) * mx (Cx F)) (psi : mps (Cx F)) (w : list nat) :
  mps_ok psi = true -> orth_pre F psi -> Forall (qr_call_ok F dqr) (mps_orth_calls dqr false psi) ->
  length w = length (m_A psi) -> Forall (fun s => s < length (m_qd psi)) w -> amp (m_A psi) w <> k0 (Cx F) ->
  (forall qr kexp kexp0 H dt hdt n A qD nrm tr,
     tdvp_singlesite (orth_right_model F dqr) qr kexp kexp0 H psi dt hdt n = Some (A, qD, nrm, tr) ->
     hd [] qD = hd [] (m_qD psi) /\ last qD [] = last (m_qD psi) []) /\
  (forall split kexp H dt hdt n A qD nrm tr,
     tdvp_twosite (orth_right_model F dqr) split kexp H psi dt hdt n = Some (A, qD, nrm, tr) ->
     hd [] qD = hd [] (m_qD psi) /\ last qD [] = last (m_qD psi) []).
Proof.
  intros Hok Hpre Hc Hw1 Hw2 Hamp.
  destruct (orth_total_charge_kept F dqr false psi w Hok Hpre Hc Hw1 Hw2 Hamp) as (p' & nrm0 & E & Hok' & _ & Eh & El).
  assert (E1 : fst (orth_right_model F dqr psi) = p') by (unfold orth_right_model; rewrite E; reflexivity).
  split.
  - intros qr kexp kexp0 H dt hdt n A qD nrm tr Hrun.
    destruct (tdvp1_boundary _ _ qr kexp kexp0 H psi dt hdt n A qD nrm tr Hrun) as [H1 H2]; [rewrite E1; exact Hok'|].
    rewrite E1 in H1, H2. split; congruence.
  - intros split kexp H dt hdt n A qD nrm tr Hrun.
    destruct (tdvp2_boundary _ _ split kexp H psi dt hdt n A qD nrm tr Hrun) as [H1 H2]; [rewrite E1; exact Hok'|].
    rewrite E1 in H1, H2. split; congruence.
Qed.

(* ======================= DMRG: the closing QR of a sweep ======================= *)
Section FinalQR.
  Variable F : ofield.
  Notation K := (Cx F).
  Variable qr : nat -> mx K -> list Z -> list Z -> mx K * mx K * list Z.
  Variables (Hs : list (osite K)) (qd : list Z) (qWs : list (list Z)).
  Variable d : nat.
  Variable DsW : list nat.
  Notation L := (length Hs).
  Hypothesis Hq : 0 < length qd.
  Hypothesis HWpos : forall j, j <= L -> 0 < length (nth j qWs []).
  Hypothesis Hd : 0 < d.
  Hypothesis HWs : ochain_ok (repeat d L) DsW Hs.
  Hypothesis HhW : hd 0 DsW = 1.

  Lemma k1_neq_k0 : k1 K <> k0 K.
  Proof. intros E. apply (f_equal (@cre F)) in E. symmetry in E. exact (flt_neq F (f0 F) (f1 F) (f1_pos F) E). Qed.

  (* a tensor with <X|X> <> 0 has a non-zero entry *)
  Lemma site_dot_nz (X : site K) : site_dot X X <> k0 K ->
    exists s b c, s < length X /\ b < sdl X /\ c < sdr X /\ get (sel X s) b c <> k0 K.
  Proof.
    intros Hnz. unfold site_dot in Hnz.
    apply (sumn_nz K) in Hnz. destruct Hnz as (s & Hs' & Hnz). apply (sumn_nz K) in Hnz. destruct Hnz as (b & Hb & Hnz).
    apply (sumn_nz K) in Hnz. destruct Hnz as (c & Hc & Hnz). exists s, b, c. repeat (split; [assumption|]).
    exact (mul_nz_r K _ _ Hnz).
  Qed.

  (* psi.A[0], _, psi.qD[0] = local_orthonormalize_right_qr(psi.A[0], [[[1]]], psi.qd, psi.qD[:2]) keeps psi.qD[0] when the
     centre tensor A[0] has norm one; contracts: C11's sparsity conclusion and the factorisation M = Q R for this one call *)
  Theorem final_keeps_q0 (st : sw K) :
    ZQ K Hs qd qWs st 0 -> gBL st 0 = env_one -> SweepsInv.Z K Hs d st 0 -> SweepsInv.NN K Hs d (s_A st) = k1 K -> 1 <= L ->
    (let M := site_flat (site_tr (gA st 0)) in let q0 := Sweeps.qflat qd (Sweeps.zneg (gq st 1)) in let q1 := Sweeps.zneg (gq st 0) in
     (bond_okP K q0 q1 M -> qr_sp_ok K M q0 q1 (qr (length (s_tr st)) M q0 q1)) /\ qr_ok M (qr (length (s_tr st)) M q0 q1)) ->
    bfr K L st (dmrg_final_qr qr qd st).
  Proof.
    intros HZ HB0 HZ' HN HL1 [HcQ HcF]. pose proof HZ as (lA & lq & lBL & lBR & HA & HBL & HBR).
    pose proof (qr_right_sp K qr qd Hq (length (s_tr st)) (gA st 0) (gq st 0) (gq st 1) (HA 0 ltac:(lia))) as Hqs.
    unfold dmrg_final_qr, qr_right in *. cbv zeta in *.
    destruct (qr (length (s_tr st)) (site_flat (site_tr (gA st 0))) (Sweeps.qflat qd (Sweeps.zneg (gq st 1))) (Sweeps.zneg (gq st 0))) as [[Q C] qb0] eqn:Eq.
    destruct (Hqs HcQ) as (_ & HCt & Hp & Hle).
    assert (H01 : length (gq st 0) = 1).
    { destruct (HBL 0 (le_n 0)) as [[_ Hsh] _]. rewrite HB0 in Hsh. destruct (Hsh 0 (HWpos 0 ltac:(lia))) as [E _].
      symmetry. exact E. }
    (* a non-zero entry of A[0] *)
    destruct (SweepsInv.Z_center K Hs d DsW Hd HWs HhW st 0 HZ') as (Dl & Dr & HX & N0 & _).
    assert (Hnz : site_dot (gA st 0) (gA st 0) <> k0 K) by (rewrite <- N0, HN; exact k1_neq_k0).
    destruct (site_dot_nz _ Hnz) as (s & b & c & Hs' & Hb & Hc & Hx).
    pose proof (HA 0 ltac:(lia)) as HA0. destruct (site_okP_sdl K qd Hq _ _ _ HA0) as (E1 & E2 & E3).
    rewrite E1 in Hb. rewrite E2 in Hc. rewrite E3 in Hs'. rewrite H01 in Hb. assert (b = 0) as -> by lia.
    pose proof (site_okP_ok K _ _ _ _ HA0) as SA0. rewrite H01 in SA0.
    pose proof (site_tr_ok K _ _ _ _ SA0) as SAt.
    (* the same entry in the matrix handed to qr *)
    set (D1 := length (gq st 1)) in *.
    assert (HM : get (site_flat (site_tr (gA st 0))) (s * D1 + c) 0 = get (sel (gA st 0) s) 0 c).
    { rewrite (get_site_flat K (length qd) D1 1 (site_tr (gA st 0)) s c 0 Hq SAt Hs' Hc ltac:(lia)).
      apply (get_site_tr K (length qd) 1 D1 (gA st 0) s 0 c SA0 Hs' ltac:(lia) Hc). }
    destruct (site_flat_shape K (length qd) D1 1 (site_tr (gA st 0)) Hq SAt) as [rM cM].
    destruct HcF as (_ & F2 & _ & _ & _ & Ffac & _).
    assert (Hr : s * D1 + c < nr (site_flat (site_tr (gA st 0)))) by (rewrite rM; nia).
    rewrite (Ffac _ 0 Hr ltac:(rewrite cM; lia)) in HM. rewrite <- HM in Hx.
    apply (sumn_nz K) in Hx. destruct Hx as (k & Hk & Hx). apply (mul_nz_r K) in Hx.
    (* R[k, 0] <> 0 and R is charge conserving under (qbond, -qD[0]) *)
    destruct HCt as (rC & cC & HCs). unfold trmx in rC, cC. rewrite nr_tab in rC. rewrite nc_tab in cC.
    unfold Sweeps.zneg in Hp, Hle, cC. rewrite map_length in Hp, Hle, cC.
    assert (Hk0 : k = 0) by (rewrite F2 in Hk; lia).
    subst k.
    assert (Hx' : get (trmx C) 0 0 <> k0 K) by (unfold trmx; rewrite get_tab by lia; exact Hx).
    pose proof (HCs 0 0 ltac:(lia) ltac:(unfold Sweeps.zneg; rewrite map_length; lia) Hx') as Ech.
    cbn [s_qD].
    assert (Elst : Sweeps.zneg qb0 = gq st 0).
    { destruct (len1_single (gq st 0) H01) as [x Ex]. destruct (len1_single qb0 ltac:(lia)) as [y Ey].
      rewrite Ex, Ey in *. unfold Sweeps.zneg, zget in *. cbn [map nth] in *. f_equal. lia. }
    rewrite Elst. unfold bfr, gq in *. cbn [s_qD]. rewrite lset_length. split; [reflexivity|].
    split; [apply nth_lset_same; lia|]. apply nth_lset_other. lia.
  Qed.
End FinalQR.

(* ======================= DMRG, two-site: sparsity (C02) and mixed-canonical (C10) invariants side by side ======================= *)
Section DmrgCharge2.
  Variable F : ofield.
  Notation K := (Cx F).
  Variable qr : nat -> mx K -> list Z -> list Z -> mx K * mx K * list Z.
  Variable split : nat -> site K -> list Z -> list Z -> list Z -> list Z -> bool -> site K * site K * list Z.
  Variable keig : nat -> env K -> env K -> osite K -> site K -> K * site K.
  Variables (Hs : list (osite K)) (qd : list Z) (qWs : list (list Z)).
  Variable d : nat.
  Variable DsW : list nat.
  Notation L := (length Hs).
  Hypothesis Hq : 0 < length qd.
  Hypothesis HWsq : chainP (osite_okP K qd) qWs Hs.
  Hypothesis HWpos : forall j, j <= L -> 0 < length (nth j qWs []).
  Hypothesis HW0 : nth 0 qWs [] = [0%Z].
  Hypothesis Hd : 0 < d.
  Hypothesis HWs : ochain_ok (repeat d L) DsW Hs.
  Hypothesis HhW : hd 0 DsW = 1.
  Hypothesis HWst : Forall (osite_struct d) Hs.

  Notation sp_ok := (sp2_tr_ok K qr split (no_kexp K) (no_kexp0 K) keig Hs qd qWs (k0 K) (k0 K)).
  Notation c10_ok := (rtr2_ok qr split keig Hs d).
  Definition ok2 (tr : list (tcall K)) : Prop := sp_ok tr /\ c10_ok tr.
  Lemma ok2_suffix new old : ok2 (new ++ old) -> ok2 old.
  Proof.
    intros [H1 H2]. split; [exact (sp2_tr_ok_suffix K qr split _ _ keig Hs qd qWs _ _ _ _ H1)|exact (rtr2_ok_suffix F qr split keig Hs d _ _ H2)].
  Qed.
  Let LB : K -> Prop := fun _ => True.
  Lemma HLB2 : forall A : list (site K), SweepsInv.NN K Hs d A = k1 K -> LB (SweepsInv.EE K Hs d A).
  Proof. intros A _. exact I. Qed.

  Notation ZQi := (ZQ K Hs qd qWs).
  Notation Zi := (SweepsInv.Z K Hs d).
  Notation NNi := (SweepsInv.NN K Hs d).
  Notation trse := (fun se : sw K * K => s_tr (fst se)).

  Definition CI2 (st0 : sw K) (e_in : F) (i : nat) (se : sw K * K) : Prop :=
    ZD2 K Hs qd qWs i se /\ Pre F Hs d e_in i se /\ bfr K L st0 (fst se).

  Lemma ch2_lr st0 e_in se i : CI2 st0 e_in i se -> S i < L ->
    ok2 (s_tr (fst (dmrg2_lr split keig Hs qd se i))) -> CI2 st0 e_in (S i) (dmrg2_lr split keig Hs qd se i).
  Proof.
    intros (HZD & Hpre & Hb) HSi [Hsp Hc]. split; [|split].
    - exact (dmrg2_lr_sp K qr split (no_kexp K) (no_kexp0 K) keig Hs qd qWs (k0 K) (k0 K) Hq HWsq HWpos se i HZD HSi Hsp).
    - apply (PP_Pre2 F Hs d LB). exact (dmrg2_lr_body F qr split keig Hs qd d DsW Hd HWs HhW HWst LB HLB2 e_in se i Hpre HSi Hc).
    - apply (bfr_trans K L _ (fst se)); [exact Hb|apply frame_dmrg2_lr; exact HSi].
  Qed.

  Lemma ch2_rl st0 e_in se i : ZP K Hs qd qWs (fst se) i -> gBL (fst se) 0 = env_one ->
    Sweeps2Inv.Z2 K Hs d (fst se) i -> NNi (s_A (fst se)) = k1 K -> fle F (cre (SweepsInv.EE K Hs d (s_A (fst se)))) e_in ->
    bfr K L st0 (fst se) -> S i < L ->
    ok2 (s_tr (fst (dmrg2_rl split keig Hs qd se i))) -> CI2 st0 e_in i (dmrg2_rl split keig Hs qd se i).
  Proof.
    intros HZP HB0 HZ2 HN He Hb HSi [Hsp Hc]. split; [|split].
    - exact (dmrg2_rl_spP K qr split (no_kexp K) (no_kexp0 K) keig Hs qd qWs (k0 K) (k0 K) Hq HWsq HWpos se i HZP HB0 HSi Hsp).
    - apply (PP_Pre2 F Hs d LB). exact (dmrg2_rl_body2 F qr split keig Hs qd d DsW Hd HWs HhW HWst LB HLB2 e_in se i HZ2 HN He Hc).
    - apply (bfr_trans K L _ (fst se)); [exact Hb|apply frame_dmrg2_rl; exact HSi].
  Qed.

  (* the contracts of the closing QR call, read off the head of the trace *)
  Lemma final_contracts2 (st : sw K) : ok2 (s_tr (dmrg_final_qr qr qd st)) ->
    let M := site_flat (site_tr (gA st 0)) in let q0 := Sweeps.qflat qd (Sweeps.zneg (gq st 1)) in let q1 := Sweeps.zneg (gq st 0) in
    (bond_okP K q0 q1 M -> qr_sp_ok K M q0 q1 (qr (length (s_tr st)) M q0 q1)) /\ qr_ok M (qr (length (s_tr st)) M q0 q1).
  Proof.
    intros [Hsp Hc]. unfold dmrg_final_qr, qr_right in *. cbv zeta in *.
    destruct (qr (length (s_tr st)) (site_flat (site_tr (gA st 0))) (Sweeps.qflat qd (Sweeps.zneg (gq st 1))) (Sweeps.zneg (gq st 0))) as [[Q C] qb0] eqn:Eq.
    cbn [s_tr] in *. destruct Hsp as [Hs1 _]. destruct Hc as [Hc1 _].
    unfold sp2_call_ok in Hs1. cbn [at_site t_call c_kind c_site c_coef t_envs t_ten t_qs length] in Hs1.
    unfold sp_call_ok in Hs1. cbn [at_site t_call c_kind c_site c_coef t_envs t_ten t_qs length] in Hs1. rewrite Eq in Hs1.
    unfold dmrg2_call_ok in Hc1. cbn [at_site t_call c_kind c_site c_coef t_envs t_ten t_qs length] in Hc1. rewrite Eq in Hc1.
    split; assumption.
  Qed.

  Definition SI2 (st0 st : sw K) : Prop :=
    ZQi st 0 /\ gBL st 0 = env_one /\ Zi st 0 /\ NNi (s_A st) = k1 K /\ bfr K L st0 st.

  Lemma ch2_final st0 (st : sw K) : 1 <= L -> SI2 st0 st ->
    ok2 (s_tr (dmrg_final_qr qr qd st)) -> SI2 st0 (dmrg_final_qr qr qd st).
  Proof.
    intros HL1 (HZ2 & HB2 & HZ2' & HN2 & Hb2) Hok.
    destruct (dmrg2_final_sp K qr split (no_kexp K) (no_kexp0 K) keig Hs qd qWs (k0 K) (k0 K) Hq HWpos HW0 st HZ2 HB2 HL1 (proj1 Hok)) as [HZ3 HB3].
    destruct (final_step2 F qr split keig Hs qd d DsW Hd HWs HhW st HZ2' HN2 (proj2 Hok)) as (HZ3' & HN3 & _).
    pose proof (final_keeps_q0 F qr Hs qd qWs d DsW Hq HWpos Hd HWs HhW st HZ2 HB2 HZ2' HN2 HL1 (final_contracts2 _ Hok)) as Hb3.
    split; [exact HZ3|]. split; [exact HB3|]. split; [exact HZ3'|]. split; [exact HN3|].
    exact (bfr_trans K L _ _ _ Hb2 Hb3).
  Qed.

  Lemma ch2_sweep st0 (st : sw K) : 1 <= L -> SI2 st0 st ->
    ok2 (s_tr (fst (dmrg2_sweep qr split keig Hs qd L st))) -> SI2 st0 (fst (dmrg2_sweep qr split keig Hs qd L st)).
  Proof.
    intros HL1 HS Hok.
    unfold dmrg2_sweep, Sweeps.lift in *. cbv zeta in *. cbn [fst snd] in *.
    destruct (Nat.eq_dec L 1) as [EL1|NL1].
    { replace (L - 2) with 0 in * by lia. replace (L - 1) with 0 in * by lia. cbn [seq rev fold_left fst] in *.
      apply ch2_final; assumption. }
    assert (HL2 : 2 <= L) by lia. destruct HS as (HZ & HB0 & HZ' & HN & Hb).
    set (e_in := cre (SweepsInv.EE K Hs d (s_A st))).
    set (se1 := fold_left (dmrg2_lr split keig Hs qd) (seq 0 (L - 2)) (st, k0 K)) in *.
    replace (L - 1) with (S (L - 2)) in * by lia. rewrite seq_S, rev_app_distr in *. cbn [rev app fold_left Nat.add] in *.
    set (sem := dmrg2_rl split keig Hs qd se1 (L - 2)) in *.
    set (se2 := fold_left (dmrg2_rl split keig Hs qd) (rev (seq 0 (L - 2))) sem) in *.
    assert (Hok2 : ok2 (s_tr (fst se2))).
    { revert Hok. generalize (fst se2) as st2. intros st2. unfold dmrg_final_qr, qr_right. cbv zeta.
      destruct (qr _ _ _ _) as [[Q C] qb]. cbn [s_tr]. intros [[_ H1] [_ H2]]. split; assumption. }
    assert (Hokm : ok2 (s_tr (fst sem))).
    { destruct (fold_mono trse (dmrg2_rl split keig Hs qd) (suf_dmrg2_rl F split keig Hs qd) (rev (seq 0 (L - 2))) sem) as [new E].
      fold se2 in E. cbn beta in E. rewrite E in Hok2. exact (ok2_suffix _ _ Hok2). }
    assert (Hok1 : ok2 (s_tr (fst se1))).
    { destruct (suf_dmrg2_rl F split keig Hs qd se1 (L - 2)) as [new E]. fold sem in E. rewrite E in Hokm. exact (ok2_suffix _ _ Hokm). }
    assert (H1 : CI2 st0 e_in (0 + (L - 2)) se1).
    { unfold se1.
      apply (fold_up trse (dmrg2_lr split keig Hs qd) (suf_dmrg2_lr F split keig Hs qd) ok2 ok2_suffix (CI2 st0 e_in) (L - 2) 0 (st, k0 K)).
      - split; [split; assumption|]. split; [|exact Hb]. split; [exact HZ'|]. split; [exact HN|]. apply fle_refl.
      - exact Hok1.
      - intros i s' Hi HC Hoki. apply ch2_lr; [exact HC|lia|exact Hoki]. }
    cbn [Nat.add] in H1.
    assert (Hm1 : CI2 st0 e_in (L - 2) sem).
    { destruct H1 as ([HZ1 HB1] & (HZ1' & HN1 & He1) & Hb1).
      apply ch2_rl; try assumption; [apply (ZQ_ZP_l K Hs qd qWs Hq); exact HZ1| |lia].
      apply (Sweeps2Inv.Z_Z2_left K Hs d DsW Hd HhW); [exact HZ1'|lia]. }
    assert (H2 : CI2 st0 e_in 0 se2).
    { unfold se2.
      apply (fold_down0 trse (dmrg2_rl split keig Hs qd) (suf_dmrg2_rl F split keig Hs qd) ok2 ok2_suffix (CI2 st0 e_in) (L - 2) sem Hm1 Hok2).
      intros i s' Hi ([HZi HBi] & (HZi' & HNi & Hei) & Hbi) Hoki.
      apply ch2_rl; try assumption; [apply (ZQ_ZP_r K Hs qd qWs Hq); exact HZi| |lia].
      apply (Sweeps2Inv.Z_Z2_right K Hs d DsW Hd HhW). exact HZi'. }
    destruct H2 as ([HZ2 HB2] & (HZ2' & HN2 & He2) & Hb2).
    apply ch2_final; [exact HL1| |exact Hok].
    split; [exact HZ2|]. split; [exact HB2|]. split; [exact HZ2'|]. split; [exact HN2|exact Hb2].
  Qed.

  Lemma ch2_loop st0 n : forall st ens, 1 <= L -> SI2 st0 st ->
    ok2 (s_tr (fst (dmrg_loop (dmrg2_sweep qr split keig Hs qd L) n st ens))) ->
    SI2 st0 (fst (dmrg_loop (dmrg2_sweep qr split keig Hs qd L) n st ens)).
  Proof.
    induction n as [|n IH]; intros st ens HL2 HS Hok; cbn [dmrg_loop] in *; [exact HS|].
    pose proof (ch2_sweep st0 st HL2 HS) as Hs1.
    destruct (suf_dmrg2_loop F qr split keig Hs qd n (fst (dmrg2_sweep qr split keig Hs qd L st)) (ens ++ [snd (dmrg2_sweep qr split keig Hs qd L st)])) as [new E].
    destruct (dmrg2_sweep qr split keig Hs qd L st) as [st' en]. cbn [fst snd] in *.
    rewrite E in Hok. pose proof (Hs1 (ok2_suffix _ _ Hok)) as HS'.
    rewrite <- E in Hok. apply IH; assumption.
  Qed.
End DmrgCharge2.

(* ======================= DMRG, single-site ======================= *)
Section DmrgCharge1.
  Variable F : ofield.
  Notation K := (Cx F).
  Variable qr : nat -> mx K -> list Z -> list Z -> mx K * mx K * list Z.
  Variable keig : nat -> env K -> env K -> osite K -> site K -> K * site K.
  Variables (Hs : list (osite K)) (qd : list Z) (qWs : list (list Z)).
  Variable d : nat.
  Variable DsW : list nat.
  Notation L := (length Hs).
  Hypothesis Hq : 0 < length qd.
  Hypothesis HWsq : chainP (osite_okP K qd) qWs Hs.
  Hypothesis HWpos : forall j, j <= L -> 0 < length (nth j qWs []).
  Hypothesis HW0 : nth 0 qWs [] = [0%Z].
  Hypothesis Hd : 0 < d.
  Hypothesis HWs : ochain_ok (repeat d L) DsW Hs.
  Hypothesis HhW : hd 0 DsW = 1.

  Notation sp_ok := (sp_tr_ok K qr (fun _ _ _ _ X _ => X) (fun _ _ _ C _ => C) keig Hs qd qWs (k0 K) (k0 K)).
  Notation c10_ok := (rtr_ok qr keig Hs d).
  Definition ok1 (tr : list (tcall K)) : Prop := sp_ok tr /\ c10_ok tr.
  Lemma ok1_suffix new old : ok1 (new ++ old) -> ok1 old.
  Proof.
    intros [H1 H2]. split; [exact (sp_tr_ok_suffix K qr _ _ keig Hs qd qWs _ _ _ _ H1)|exact (rtr_ok_suffix F qr keig Hs d _ _ H2)].
  Qed.
  Let LB : K -> Prop := fun _ => True.
  Lemma HLB1 : forall A : list (site K), SweepsInv.NN K Hs d A = k1 K -> LB (SweepsInv.EE K Hs d A).
  Proof. intros A _. exact I. Qed.

  Notation ZQi := (ZQ K Hs qd qWs).
  Notation Zi := (SweepsInv.Z K Hs d).
  Notation NNi := (SweepsInv.NN K Hs d).
  Notation trse := (fun se : sw K * K => s_tr (fst se)).

  Definition CI1 (st0 : sw K) (e_in : F) (i : nat) (se : sw K * K) : Prop :=
    ZD K Hs qd qWs i se /\ Pre F Hs d e_in i se /\ bfr K L st0 (fst se).

  Lemma ch1_lr st0 e_in se i : CI1 st0 e_in i se -> S i < L ->
    ok1 (s_tr (fst (dmrg1_lr qr keig Hs qd se i))) -> CI1 st0 e_in (S i) (dmrg1_lr qr keig Hs qd se i).
  Proof.
    intros (HZD & Hpre & Hb) HSi [Hsp Hc]. split; [|split].
    - exact (dmrg_lr_sp K qr keig Hs qd qWs Hq HWsq HWpos se i HZD HSi Hsp).
    - apply (PP_Pre F Hs d LB). exact (lr_body F qr keig Hs qd d DsW Hd HWs HhW LB HLB1 e_in se i Hpre HSi Hc).
    - apply (bfr_trans K L _ (fst se)); [exact Hb|apply frame_dmrg1_lr; exact HSi].
  Qed.
  Lemma ch1_rl st0 e_in se i : CI1 st0 e_in i se -> 0 < i -> i < L ->
    ok1 (s_tr (fst (dmrg1_rl qr keig Hs qd se i))) -> CI1 st0 e_in (i - 1) (dmrg1_rl qr keig Hs qd se i).
  Proof.
    intros (HZD & Hpre & Hb) Hi0 Hi [Hsp Hc]. split; [|split].
    - exact (dmrg_rl_sp K qr keig Hs qd qWs Hq HWsq HWpos se i HZD Hi0 Hi Hsp).
    - apply (PP_Pre F Hs d LB). exact (rl_body F qr keig Hs qd d DsW Hd HWs HhW LB HLB1 e_in se i Hpre Hi0 Hc).
    - apply (bfr_trans K L _ (fst se)); [exact Hb|apply frame_dmrg1_rl; assumption].
  Qed.

  Lemma final_contracts1 (st : sw K) : ok1 (s_tr (dmrg_final_qr qr qd st)) ->
    let M := site_flat (site_tr (gA st 0)) in let q0 := Sweeps.qflat qd (Sweeps.zneg (gq st 1)) in let q1 := Sweeps.zneg (gq st 0) in
    (bond_okP K q0 q1 M -> qr_sp_ok K M q0 q1 (qr (length (s_tr st)) M q0 q1)) /\ qr_ok M (qr (length (s_tr st)) M q0 q1).
  Proof.
    intros [Hsp Hc]. unfold dmrg_final_qr, qr_right in *. cbv zeta in *.
    destruct (qr (length (s_tr st)) (site_flat (site_tr (gA st 0))) (Sweeps.qflat qd (Sweeps.zneg (gq st 1))) (Sweeps.zneg (gq st 0))) as [[Q C] qb0] eqn:Eq.
    cbn [s_tr] in *. destruct Hsp as [Hs1 _]. destruct Hc as [Hc1 _].
    unfold sp_call_ok in Hs1. cbn [at_site t_call c_kind c_site c_coef t_envs t_ten t_qs length] in Hs1. rewrite Eq in Hs1.
    unfold dmrg_call_ok in Hc1. cbn [at_site t_call c_kind c_site c_coef t_envs t_ten t_qs length] in Hc1. rewrite Eq in Hc1.
    split; assumption.
  Qed.

  Definition SI1 (st0 st : sw K) : Prop :=
    ZQi st 0 /\ gBL st 0 = env_one /\ Zi st 0 /\ NNi (s_A st) = k1 K /\ bfr K L st0 st.

  Lemma ch1_sweep st0 (st : sw K) : 1 <= L -> SI1 st0 st ->
    ok1 (s_tr (fst (dmrg1_sweep qr keig Hs qd L st))) -> SI1 st0 (fst (dmrg1_sweep qr keig Hs qd L st)).
  Proof.
    intros HL1 (HZ & HB0 & HZ' & HN & Hb) Hok. set (e_in := cre (SweepsInv.EE K Hs d (s_A st))).
    unfold dmrg1_sweep, Sweeps.lift in *. cbv zeta in *. cbn [fst snd] in *.
    set (se1 := fold_left (dmrg1_lr qr keig Hs qd) (seq 0 (L - 1)) (st, k0 K)) in *.
    set (se2 := fold_left (dmrg1_rl qr keig Hs qd) (rev (seq 1 (L - 1))) se1) in *.
    assert (Hok2 : ok1 (s_tr (fst se2))).
    { revert Hok. generalize (fst se2) as st2. intros st2. unfold dmrg_final_qr, qr_right. cbv zeta.
      destruct (qr _ _ _ _) as [[Q C] qb]. cbn [s_tr]. intros [[_ H1] [_ H2]]. split; assumption. }
    assert (Hok1 : ok1 (s_tr (fst se1))).
    { destruct (fold_mono trse (dmrg1_rl qr keig Hs qd) (suf_dmrg1_rl K qr keig Hs qd) (rev (seq 1 (L - 1))) se1) as [new E].
      fold se2 in E. cbn beta in E. rewrite E in Hok2. exact (ok1_suffix _ _ Hok2). }
    assert (H1 : CI1 st0 e_in (0 + (L - 1)) se1).
    { unfold se1.
      apply (fold_up trse (dmrg1_lr qr keig Hs qd) (suf_dmrg1_lr K qr keig Hs qd) ok1 ok1_suffix (CI1 st0 e_in) (L - 1) 0 (st, k0 K)).
      - split; [split; assumption|]. split; [|exact Hb]. split; [exact HZ'|]. split; [exact HN|]. apply fle_refl.
      - exact Hok1.
      - intros i s' Hi HC Hoki. apply ch1_lr; [exact HC|lia|exact Hoki]. }
    assert (H2 : CI1 st0 e_in 0 se2).
    { unfold se2.
      apply (fold_down trse (dmrg1_rl qr keig Hs qd) (suf_dmrg1_rl K qr keig Hs qd) ok1 ok1_suffix (CI1 st0 e_in) (L - 1) 0 se1 H1 Hok2).
      intros i s' Hi HC Hoki. apply ch1_rl; [exact HC|lia|lia|exact Hoki]. }
    destruct H2 as ([HZ2 HB2] & (HZ2' & HN2 & He2) & Hb2).
    destruct (dmrg_final_sp K qr keig Hs qd qWs Hq HWpos HW0 (fst se2) HZ2 HB2 HL1 (proj1 Hok)) as [HZ3 HB3].
    destruct (final_step F qr keig Hs qd d DsW Hd HWs HhW (fst se2) HZ2' HN2 (proj2 Hok)) as (HZ3' & HN3 & _).
    pose proof (final_keeps_q0 F qr Hs qd qWs d DsW Hq HWpos Hd HWs HhW (fst se2) HZ2 HB2 HZ2' HN2 HL1 (final_contracts1 _ Hok)) as Hb3.
    split; [exact HZ3|]. split; [exact HB3|]. split; [exact HZ3'|]. split; [exact HN3|].
    exact (bfr_trans K L _ _ _ Hb2 Hb3).
  Qed.

  Lemma ch1_loop st0 n : forall st ens, 1 <= L -> SI1 st0 st ->
    ok1 (s_tr (fst (dmrg_loop (dmrg1_sweep qr keig Hs qd L) n st ens))) ->
    SI1 st0 (fst (dmrg_loop (dmrg1_sweep qr keig Hs qd L) n st ens)).
  Proof.
    induction n as [|n IH]; intros st ens HL1 HS Hok; cbn [dmrg_loop] in *; [exact HS|].
    pose proof (ch1_sweep st0 st HL1 HS) as Hs1.
    destruct (suf_dmrg1_loop K qr keig Hs qd n (fst (dmrg1_sweep qr keig Hs qd L st)) (ens ++ [snd (dmrg1_sweep qr keig Hs qd L st)])) as [new E].
    destruct (dmrg1_sweep qr keig Hs qd L st) as [st' en]. cbn [fst snd] in *.
    rewrite E in Hok. pose proof (Hs1 (ok1_suffix _ _ Hok)) as HS'.
    rewrite <- E in Hok. apply IH; assumption.
  Qed.
End DmrgCharge1.

(* ======================= whole DMRG runs ======================= *)
Lemma HWfacts (R : cring) (H : mpo R) qd : chainP (osite_okP R qd) (o_qD H) (o_A H) ->
  Forall (fun q => 0 < length q) (o_qD H) -> hd [] (o_qD H) = [0%Z] ->
  (forall j, j <= length (o_A H) -> 0 < length (nth j (o_qD H) [])) /\ nth 0 (o_qD H) [] = [0%Z].
Proof.
  intros HokH Hpos Hh0. split.
  - intros j Hj. rewrite Forall_forall in Hpos. apply Hpos. apply nth_In. rewrite (chainP_length _ _ _ _ HokH). lia.
  - destruct (o_qD H) as [|w0 ws]; [discriminate Hh0|]. exact Hh0.
Qed.

Theorem dmrg2_boundary (F : ofield) orth qr split keig (H : mpo (Cx F)) psi n d DsW Ds0 A qD ens tr :
  dmrg_twosite orth qr split keig H psi n = Some (A, qD, ens, tr) ->
  (* operands as for the sparsity theorem *)
  mpo_ok H = true -> o_qd H = m_qd psi -> Forall (fun q => 0 < length q) (o_qD H) ->
  hd [] (o_qD H) = [0%Z] -> last (o_qD H) [] = [0%Z] ->
  0 < length (m_qd psi) -> m_qd (fst (orth psi)) = m_qd psi -> mps_ok (fst (orth psi)) = true ->
  length (hd [] (m_qD (fst (orth psi)))) = 1 -> length (last (m_qD (fst (orth psi))) []) = 1 ->
  (* operands as for C10: uniform shapes, right-canonical after the preliminary orthonormalisation *)
  mpo_shapeb d DsW (o_A H) = true -> mps_shapeb d Ds0 (m_A (fst (orth psi))) = true ->
  Forall right_iso (m_A (fst (orth psi))) ->
  (* contracts of the calls issued: sparsity (C02) and Ritz / exact split / QR factorisation (C10) *)
  sp2_tr_ok (Cx F) qr split (no_kexp (Cx F)) (no_kexp0 (Cx F)) keig (o_A H) (m_qd psi) (o_qD H) (k0 (Cx F)) (k0 (Cx F)) (rev tr) ->
  rtr2_ok qr split keig (o_A H) d (rev tr) ->
  hd [] qD = hd [] (m_qD (fst (orth psi))) /\ last qD [] = last (m_qD (fst (orth psi))) [].
Proof.
  intros Hrun HokH Eqd Hpos Hh0 Hl0 Hq Eqd1 Hok1 Hh1 Hl1 HH Hp Hiso Hsp Hc10.
  unfold dmrg_twosite in Hrun. destruct (sweep_init orth H psi) as [[st nrm']|] eqn:Einit; [|discriminate].
  destruct (dmrg_loop (dmrg2_sweep qr split keig (o_A H) (m_qd psi) (length (o_A H))) n st []) as [st' ens'] eqn:El.
  injection Hrun as <- <- <- <-. rewrite rev_involutive in Hsp, Hc10.
  apply mpo_ok_P in HokH. rewrite Eqd in HokH.
  destruct (HWfacts _ H _ HokH Hpos Hh0) as [HWpos HW0].
  destruct (ZQ_init (Cx F) (m_qd psi) Hq (o_A H) (o_qD H) orth H psi st nrm' HokH HWpos HW0 Einit eq_refl eq_refl Hl0 Eqd1 Hok1 Hh1 Hl1)
    as (HZ & HB0 & _ & _).
  assert (Hd : 0 < d).
  { unfold mpo_shapeb in HH. rewrite !andb_true_iff in HH. destruct HH as (((((HH0 & _) & _) & _) & _) & _). apply Nat.ltb_lt. exact HH0. }
  destruct (Z_init (Cx F) d Hd orth H psi st nrm' DsW Ds0 Einit HH Hp Hiso) as (HZ' & HN & _ & _ & HWs & HhW).
  pose proof (Sweeps2Inv.mpo_shapeb_struct (Cx F) d DsW (o_A H) HH) as HWst.
  destruct (sweep_init_qD (Cx F) orth H psi st nrm' Einit) as (Eq & EA & EL).
  pose proof (sweep_init_len (Cx F) orth H psi st nrm' Einit) as HL1.
  pose proof (ch2_loop F qr split keig (o_A H) (m_qd psi) (o_qD H) d DsW Hq HokH HWpos HW0 Hd HWs HhW HWst st n st [] HL1) as Hl.
  rewrite El in Hl. cbn [fst] in Hl.
  destruct Hl as (_ & _ & _ & _ & Hb).
  { split; [exact HZ|]. split; [exact HB0|]. split; [exact HZ'|]. split; [exact HN|apply bfr_refl]. }
  { split; assumption. }
  apply mps_ok_P in Hok1. pose proof (chainP_length _ _ _ _ Hok1) as Hlen.
  rewrite <- Eq. apply (bfr_boundary (Cx F) (length (o_A H))); [exact Hb|rewrite Eq, Hlen, EL; reflexivity].
Qed.

Theorem dmrg1_boundary (F : ofield) orth qr keig (H : mpo (Cx F)) psi n d DsW Ds0 A qD ens tr :
  dmrg_singlesite orth qr keig H psi n = Some (A, qD, ens, tr) ->
  mpo_ok H = true -> o_qd H = m_qd psi -> Forall (fun q => 0 < length q) (o_qD H) ->
  hd [] (o_qD H) = [0%Z] -> last (o_qD H) [] = [0%Z] ->
  0 < length (m_qd psi) -> m_qd (fst (orth psi)) = m_qd psi -> mps_ok (fst (orth psi)) = true ->
  length (hd [] (m_qD (fst (orth psi)))) = 1 -> length (last (m_qD (fst (orth psi))) []) = 1 ->
  mpo_shapeb d DsW (o_A H) = true -> mps_shapeb d Ds0 (m_A (fst (orth psi))) = true ->
  Forall right_iso (m_A (fst (orth psi))) ->
  sp_tr_ok (Cx F) qr (fun _ _ _ _ X _ => X) (fun _ _ _ C _ => C) keig (o_A H) (m_qd psi) (o_qD H) (k0 (Cx F)) (k0 (Cx F)) (rev tr) ->
  rtr_ok qr keig (o_A H) d (rev tr) ->
  hd [] qD = hd [] (m_qD (fst (orth psi))) /\ last qD [] = last (m_qD (fst (orth psi))) [].
Proof.
  intros Hrun HokH Eqd Hpos Hh0 Hl0 Hq Eqd1 Hok1 Hh1 Hl1 HH Hp Hiso Hsp Hc10.
  unfold dmrg_singlesite in Hrun. destruct (sweep_init orth H psi) as [[st nrm']|] eqn:Einit; [|discriminate].
  destruct (dmrg_loop (dmrg1_sweep qr keig (o_A H) (m_qd psi) (length (o_A H))) n st []) as [st' ens'] eqn:El.
  injection Hrun as <- <- <- <-. rewrite rev_involutive in Hsp, Hc10.
  apply mpo_ok_P in HokH. rewrite Eqd in HokH.
  destruct (HWfacts _ H _ HokH Hpos Hh0) as [HWpos HW0].
  destruct (ZQ_init (Cx F) (m_qd psi) Hq (o_A H) (o_qD H) orth H psi st nrm' HokH HWpos HW0 Einit eq_refl eq_refl Hl0 Eqd1 Hok1 Hh1 Hl1)
    as (HZ & HB0 & _ & _).
  assert (Hd : 0 < d).
  { unfold mpo_shapeb in HH. rewrite !andb_true_iff in HH. destruct HH as (((((HH0 & _) & _) & _) & _) & _). apply Nat.ltb_lt. exact HH0. }
  destruct (Z_init (Cx F) d Hd orth H psi st nrm' DsW Ds0 Einit HH Hp Hiso) as (HZ' & HN & _ & _ & HWs & HhW).
  destruct (sweep_init_qD (Cx F) orth H psi st nrm' Einit) as (Eq & EA & EL).
  pose proof (sweep_init_len (Cx F) orth H psi st nrm' Einit) as HL1.
  pose proof (ch1_loop F qr keig (o_A H) (m_qd psi) (o_qD H) d DsW Hq HokH HWpos HW0 Hd HWs HhW st n st [] HL1) as Hl.
  rewrite El in Hl. cbn [fst] in Hl.
  destruct Hl as (_ & _ & _ & _ & Hb).
  { split; [exact HZ|]. split; [exact HB0|]. split; [exact HZ'|]. split; [exact HN|apply bfr_refl]. }
  { split; assumption. }
  apply mps_ok_P in Hok1. pose proof (chainP_length _ _ _ _ Hok1) as Hlen.
  rewrite <- Eq. apply (bfr_boundary (Cx F) (length (o_A H))); [exact Hb|rewrite Eq, Hlen, EL; reflexivity].
Qed.

(* total charge kept by both DMRG functions, with psi.orthonormalize(mode='right') = the model of C01 and a state with a
   non-zero amplitude: the returned qD[0] and qD[L] are the input's *)
Theorem dmrg_total_charge_kept (F : ofield) (dqr : mx (Cx F) -> mx (Cx F) * mx (Cx F)) (H : mpo (Cx F)) (psi : mps (Cx F)) (w : list nat) d DsW Ds0 :
  mps_ok psi = true -> orth_pre F psi -> Forall (qr_call_ok F dqr) (mps_orth_calls dqr false psi) ->
  length w = length (m_A psi) -> Forall (fun s => s < length (m_qd psi)) w -> amp (m_A psi) w <> k0 (Cx F) ->
  mpo_ok H = true -> o_qd H = m_qd psi -> Forall (fun q => 0 < length q) (o_qD H) ->
  hd [] (o_qD H) = [0%Z] -> last (o_qD H) [] = [0%Z] ->
  mpo_shapeb d DsW (o_A H) = true -> mps_shapeb d Ds0 (m_A (fst (orth_right_model F dqr psi))) = true ->
  Forall right_iso (m_A (fst (orth_right_model F dqr psi))) ->
  (forall qr keig n A qD ens tr,
     dmrg_singlesite (orth_right_model F dqr) qr keig H psi n = Some (A, qD, ens, tr) ->
     sp_tr_ok (Cx F) qr (fun _ _ _ _ X _ => X) (fun _ _ _ C _ => C) keig (o_A H) (m_qd psi) (o_qD H) (k0 (Cx F)) (k0 (Cx F)) (rev tr) ->
     rtr_ok qr keig (o_A H) d (rev tr) ->
     hd [] qD = hd [] (m_qD psi) /\ last qD [] = last (m_qD psi) []) /\
  (forall qr split keig n A qD ens tr,
     dmrg_twosite (orth_right_model F dqr) qr split keig H psi n = Some (A, qD, ens, tr) ->
     sp2_tr_ok (Cx F) qr split (no_kexp (Cx F)) (no_kexp0 (Cx F)) keig (o_A H) (m_qd psi) (o_qD H) (k0 (Cx F)) (k0 (Cx F)) (rev tr) ->
     rtr2_ok qr split keig (o_A H) d (rev tr) ->
     hd [] qD = hd [] (m_qD psi) /\ last qD [] = last (m_qD psi) []).
Proof.
  intros Hok Hpre Hc Hw1 Hw2 Hamp HokH Eqd Hpos Hh0 Hl0 HH Hp Hiso.
  destruct (orth_total_charge_kept F dqr false psi w Hok Hpre Hc Hw1 Hw2 Hamp) as (p' & nrm0 & E & Hok' & Eqd' & Eh & El).
  assert (E1 : fst (orth_right_model F dqr psi) = p') by (unfold orth_right_model; rewrite E; reflexivity).
  destruct (orth_right_model_facts F dqr psi Hok Hpre Hc) as (G1 & G2 & G3 & G4).
  assert (Hq : 0 < length (m_qd psi)) by (destruct Hpre as (Hq & _); lia).
  split.
  - intros qr keig n A qD ens tr Hrun Hsp Hc10.
    destruct (dmrg1_boundary F _ qr keig H psi n d DsW Ds0 A qD ens tr Hrun HokH Eqd Hpos Hh0 Hl0 Hq G1 G2 G3 G4 HH Hp Hiso Hsp Hc10) as [H1 H2].
    rewrite E1 in H1, H2. split; congruence.
  - intros qr split keig n A qD ens tr Hrun Hsp Hc10.
    destruct (dmrg2_boundary F _ qr split keig H psi n d DsW Ds0 A qD ens tr Hrun HokH Eqd Hpos Hh0 Hl0 Hq G1 G2 G3 G4 HH Hp Hiso Hsp Hc10) as [H1 H2].
    rewrite E1 in H1, H2. split; congruence.
Qed.
