(* C09 — from adjacent inverse pairs to whole steps: the backward sweep peels off the forward loop bodies one at a time
   (generic "undo" principles for folds with two traces), hence one step with -dt undoes one step with dt, and n steps
   undo n steps, always up to a gauge (relation [Rel] of Proofs/ReversePair.v). *)
From Coq Require Import ZArith Arith List Lia Ring Setoid Bool.
From PT Require Import Base.Scalar Base.BigSum Base.Mx Model.Tensor Model.Operation Model.Sweeps
  Proofs.OperationEntries Proofs.SweepsFlow Proofs.SweepsRun
  Proofs.ReverseDefs Proofs.ReverseL1 Proofs.ReverseQR Proofs.ReverseFwd Proofs.ReversePair.
Import ListNotations.

Section Undo.
  Context {S S' T T' : Type}.
  Variable trf : S -> list T.
  Variable trb : S' -> list T'.
  Variable f : S -> nat -> S.
  Variable g : S' -> nat -> S'.
  Hypothesis monof : forall s i, exists new, trf (f s i) = new ++ trf s.
  Hypothesis monob : forall s i, exists new, trb (g s i) = new ++ trb s.
  Variable okf : list T -> Prop.
  Variable okb : list T' -> Prop.
  Hypothesis okf_suffix : forall new old, okf (new ++ old) -> okf old.
  Hypothesis okb_suffix : forall new old, okb (new ++ old) -> okb old.
  Variable P : nat -> S -> Prop.
  Variable Rl : nat -> S -> S' -> Prop.

  (* forward: centre a+n -> a by bodies a+n, ..., a+1;  backward: centre a -> a+n by bodies a, ..., a+n-1 *)
  Lemma undo_down n : forall a X b,
    (forall i X b, a <= i < a + n -> P (Datatypes.S i) X -> okf (trf (f X (Datatypes.S i))) ->
       P i (f X (Datatypes.S i)) /\ (Rl i (f X (Datatypes.S i)) b -> okb (trb (g b i)) -> Rl (Datatypes.S i) X (g b i))) ->
    P (a + n) X -> okf (trf (fold_left f (rev (seq (Datatypes.S a) n)) X)) -> okb (trb (fold_left g (seq a n) b)) ->
    Rl a (fold_left f (rev (seq (Datatypes.S a) n)) X) b -> Rl (a + n) X (fold_left g (seq a n) b).
  Proof.
    induction n as [|n IH]; intros a X b Hstep HP Hokf Hokb HR.
    - cbn [seq rev fold_left] in *. rewrite Nat.add_0_r. exact HR.
    - rewrite seq_S, rev_app_distr in Hokf, HR. cbn [rev app fold_left] in Hokf, HR.
      rewrite seq_S, fold_left_app in Hokb |- *. cbn [fold_left] in Hokb |- *.
      set (X1 := f X (Datatypes.S a + n)) in *.
      assert (Hok1 : okf (trf X1)).
      { destruct (fold_mono trf f monof (rev (seq (Datatypes.S a) n)) X1) as [new E]. rewrite E in Hokf. exact (okf_suffix _ _ Hokf). }
      assert (Hokb1 : okb (trb (fold_left g (seq a n) b))).
      { destruct (monob (fold_left g (seq a n) b) (a + n)) as [new E]. rewrite E in Hokb. exact (okb_suffix _ _ Hokb). }
      replace (a + Datatypes.S n) with (Datatypes.S (a + n)) in * by lia.
      destruct (Hstep (a + n) X (fold_left g (seq a n) b) ltac:(lia) HP Hok1) as [HP1 Hun].
      apply Hun; [|exact Hokb].
      apply IH; try assumption. intros i X' b' Hi. apply Hstep. lia.
  Qed.

  (* forward: centre a -> a+n by bodies a, ..., a+n-1;  backward: centre a+n -> a by bodies a+n, ..., a+1 *)
  Lemma undo_up n : forall a X b,
    (forall i X b, a <= i < a + n -> P i X -> okf (trf (f X i)) ->
       P (Datatypes.S i) (f X i) /\ (Rl (Datatypes.S i) (f X i) b -> okb (trb (g b (Datatypes.S i))) -> Rl i X (g b (Datatypes.S i)))) ->
    P a X -> okf (trf (fold_left f (seq a n) X)) -> okb (trb (fold_left g (rev (seq (Datatypes.S a) n)) b)) ->
    Rl (a + n) (fold_left f (seq a n) X) b -> Rl a X (fold_left g (rev (seq (Datatypes.S a) n)) b).
  Proof.
    induction n as [|n IH]; intros a X b Hstep HP Hokf Hokb HR.
    - cbn [seq rev fold_left] in *. rewrite Nat.add_0_r in HR. exact HR.
    - cbn [seq fold_left] in Hokf, HR. cbn [seq rev] in Hokb |- *. rewrite fold_left_app in Hokb |- *. cbn [fold_left] in Hokb |- *.
      set (X1 := f X a) in *.
      assert (Hok1 : okf (trf X1)).
      { destruct (fold_mono trf f monof (seq (Datatypes.S a) n) X1) as [new E]. rewrite E in Hokf. exact (okf_suffix _ _ Hokf). }
      assert (Hokb1 : okb (trb (fold_left g (rev (seq (Datatypes.S (Datatypes.S a)) n)) b))).
      { destruct (monob (fold_left g (rev (seq (Datatypes.S (Datatypes.S a)) n)) b) (Datatypes.S a)) as [new E]. rewrite E in Hokb. exact (okb_suffix _ _ Hokb). }
      destruct (Hstep a X (fold_left g (rev (seq (Datatypes.S (Datatypes.S a)) n)) b) ltac:(lia) HP Hok1) as [HP1 Hun].
      apply Hun; [|exact Hokb].
      apply IH; try assumption.
      + intros i X' b' Hi. apply Hstep. lia.
      + replace (Datatypes.S a + n) with (a + Datatypes.S n) by lia. exact HR.
  Qed.
End Undo.

Section Run.
  Variable R : cring.
  Notation site := (site R).
  Notation osite := (osite R).
  Notation mx := (mx R).
  Notation sw := (sw R).
  Variable qr : nat -> mx -> list BinNums.Z -> list BinNums.Z -> mx * mx * list BinNums.Z.
  Variable kexp : kexp_t R.
  Variable kexp0 : kexp0_t R.
  Variable Hs : list osite.
  Variable qd : list BinNums.Z.
  Variable d : nat.
  Variables Ds DW : nat -> nat.
  Notation L := (length Hs).
  Hypothesis Hd : 0 < d.
  Hypothesis HL : 1 <= L.
  Hypothesis HW : forall j, j < L -> osite_ok d (DW j) (DW (S j)) (nth j Hs []).
  Hypothesis HDW : forall j, 0 < DW j.
  Hypothesis Hk : kexp_flow d kexp.
  Hypothesis Hk0 : kexp0_flow kexp0.
  Hypothesis Hcov : kexp_covariant d kexp.
  Hypothesis Hcov0 : kexp0_covariant kexp0.
  Variables (dt hdt : R).
  Variables (c ci : R).
  Hypothesis Hc : kmul R c ci = k1 R.

  Notation lrF := (tdvp1_lr qr kexp kexp0 Hs qd dt hdt).
  Notation rlF := (tdvp1_rl qr kexp kexp0 Hs qd dt hdt).
  Notation midF := (tdvp1_mid kexp Hs dt hdt).
  Notation lrB := (tdvp1_lr qr kexp kexp0 Hs qd (kopp R dt) (kopp R hdt)).
  Notation rlB := (tdvp1_rl qr kexp kexp0 Hs qd (kopp R dt) (kopp R hdt)).
  Notation midB := (tdvp1_mid kexp Hs (kopp R dt) (kopp R hdt)).
  Notation stepF := (tdvp1_step qr kexp kexp0 Hs qd dt hdt L).
  Notation stepB := (tdvp1_step qr kexp kexp0 Hs qd (kopp R dt) (kopp R hdt) L).
  Notation fok := (rev_tr_ok qr kexp0 true dt hdt).
  Notation bok := (rev_tr_ok qr kexp0 false (kopp R dt) (kopp R hdt)).
  Notation FIi := (FI Hs d Ds DW).
  Notation Reli := (Rel Hs Ds c).

  Lemma step_FI (X : sw) : FIi 0 X -> fok (s_tr (stepF X)) -> FIi 0 (stepF X).
  Proof.
    intros HFI Hfok1. unfold tdvp1_step in *. cbv zeta in *.
    set (X1 := fold_left lrF (seq 0 (L - 1)) X) in *. set (X2 := midF X1 (L - 1)) in *.
    pose proof (suf_tdvp1_lr R qr kexp kexp0 Hs qd dt hdt) as mlrF. pose proof (suf_tdvp1_rl R qr kexp kexp0 Hs qd dt hdt) as mrlF.
    pose proof (rev_tr_ok_suffix R qr kexp0 true dt hdt) as sF.
    assert (Hfok2 : fok (s_tr X2)).
    { destruct (fold_mono (@s_tr R) rlF mrlF (rev (seq 1 (L - 1))) X2) as [new E]. rewrite E in Hfok1. exact (sF _ _ Hfok1). }
    assert (Hfok0 : fok (s_tr X1)) by (unfold X2, tdvp1_mid in Hfok2; cbn [s_tr] in Hfok2; exact (proj2 Hfok2)).
    assert (G1 : FIi (0 + (L - 1)) X1).
    { unfold X1. apply (fold_up (@s_tr R) lrF mlrF fok sF FIi (L - 1) 0 X HFI Hfok0).
      intros i s' Hi HF Hok. apply (FI_lr R qr kexp kexp0 Hs qd d Ds DW Hd HW Hk dt hdt s' i HF ltac:(lia) Hok). }
    cbn [Nat.add] in G1.
    assert (G2 : FIi (L - 1) X2) by (apply (FI_mid R kexp Hs d Ds DW Hd Hk dt hdt X1 (L - 1) G1); lia).
    apply (fold_down (@s_tr R) rlF mrlF fok sF FIi (L - 1) 0 X2 G2 Hfok1).
    intros i s' Hi HF Hok. apply (FI_rl R qr kexp kexp0 Hs qd d Ds DW Hd HW Hk dt hdt s' i HF ltac:(lia) ltac:(lia) Hok).
  Qed.

  Lemma iter_FI n : forall X : sw, FIi 0 X -> fok (s_tr (iter n stepF X)) -> FIi 0 (iter n stepF X).
  Proof.
    induction n as [|n IH]; intros X HFI Hfok; [exact HFI|]. cbn [iter] in *. apply IH; [|exact Hfok].
    apply step_FI; [exact HFI|].
    destruct (suf_tdvp_iter R qr kexp kexp0 Hs qd dt hdt n (stepF X)) as [new E]. rewrite E in Hfok.
    exact (rev_tr_ok_suffix R qr kexp0 true dt hdt _ _ Hfok).
  Qed.

  Theorem step_inverse (X b : sw) : FIi 0 X -> fok (s_tr (stepF X)) -> Reli 0 (stepF X) b -> bok (s_tr (stepB b)) ->
    FIi 0 (stepF X) /\ Reli 0 X (stepB b).
  Proof.
    intros HFI Hfok HR Hbok. unfold tdvp1_step in *. cbv zeta in *.
    set (X1 := fold_left lrF (seq 0 (L - 1)) X) in *. set (X2 := midF X1 (L - 1)) in *.
    set (b1 := fold_left lrB (seq 0 (L - 1)) b) in *. set (b2 := midB b1 (L - 1)) in *.
    pose proof (suf_tdvp1_lr R qr kexp kexp0 Hs qd dt hdt) as mlrF. pose proof (suf_tdvp1_rl R qr kexp kexp0 Hs qd dt hdt) as mrlF.
    pose proof (suf_tdvp1_lr R qr kexp kexp0 Hs qd (kopp R dt) (kopp R hdt)) as mlrB.
    pose proof (suf_tdvp1_rl R qr kexp kexp0 Hs qd (kopp R dt) (kopp R hdt)) as mrlB.
    pose proof (rev_tr_ok_suffix R qr kexp0 true dt hdt) as sF. pose proof (rev_tr_ok_suffix R qr kexp0 false (kopp R dt) (kopp R hdt)) as sB.
    assert (Hfok2 : fok (s_tr X2)).
    { destruct (fold_mono (@s_tr R) rlF mrlF (rev (seq 1 (L - 1))) X2) as [new E]. rewrite E in Hfok. exact (sF _ _ Hfok). }
    assert (Hfok1 : fok (s_tr X1)) by (unfold X2, tdvp1_mid in Hfok2; cbn [s_tr] in Hfok2; exact (proj2 Hfok2)).
    assert (Hbok2 : bok (s_tr b2)).
    { destruct (fold_mono (@s_tr R) rlB mrlB (rev (seq 1 (L - 1))) b2) as [new E]. rewrite E in Hbok. exact (sB _ _ Hbok). }
    assert (Hbok1 : bok (s_tr b1)) by (unfold b2, tdvp1_mid in Hbok2; cbn [s_tr] in Hbok2; exact (proj2 Hbok2)).
    (* the forward invariant along the step *)
    assert (F1 : FIi (0 + (L - 1)) X1).
    { unfold X1. apply (fold_up (@s_tr R) lrF mlrF fok sF FIi (L - 1) 0 X HFI Hfok1).
      intros i s' Hi HF Hok. apply (FI_lr R qr kexp kexp0 Hs qd d Ds DW Hd HW Hk dt hdt s' i HF ltac:(lia) Hok). }
    cbn [Nat.add] in F1.
    assert (F2 : FIi (L - 1) X2) by (apply (FI_mid R kexp Hs d Ds DW Hd Hk dt hdt X1 (L - 1) F1); lia).
    assert (F3 : FIi 0 (fold_left rlF (rev (seq 1 (L - 1))) X2)).
    { apply (fold_down (@s_tr R) rlF mrlF fok sF FIi (L - 1) 0 X2 F2 Hfok).
      intros i s' Hi HF Hok. apply (FI_rl R qr kexp kexp0 Hs qd d Ds DW Hd HW Hk dt hdt s' i HF ltac:(lia) ltac:(lia) Hok). }
    split; [exact F3|].
    (* backward left-to-right sweep undoes the forward right-to-left sweep *)
    assert (R2 : Reli (0 + (L - 1)) X2 b1).
    { unfold b1. apply (undo_down (@s_tr R) (@s_tr R) rlF lrB mrlF mlrB fok bok sF sB FIi Reli (L - 1) 0 X2 b); try assumption.
      intros i X' b' Hi HF Hok. split.
      - replace i with (S i - 1) at 1 by lia. apply (FI_rl R qr kexp kexp0 Hs qd d Ds DW Hd HW Hk dt hdt X' (S i) HF ltac:(lia) ltac:(lia) Hok).
      - intros HR' Hokb. apply (undo_rl R qr kexp kexp0 Hs qd d Ds DW Hd HW HDW Hk Hk0 Hcov Hcov0 dt hdt c ci Hc X' b' i HF ltac:(lia) Hok HR' Hokb). }
    cbn [Nat.add] in R2.
    (* middle *)
    assert (R1 : Reli (L - 1) X1 b2).
    { unfold b2. apply (undo_mid R kexp Hs d Ds DW Hd Hk Hcov dt hdt c X1 b1 (L - 1) F1 ltac:(lia) R2). }
    (* backward right-to-left sweep undoes the forward left-to-right sweep *)
    apply (undo_up (@s_tr R) (@s_tr R) lrF rlB mlrF mrlB fok bok sF sB FIi Reli (L - 1) 0 X b2); try assumption.
    intros i X' b' Hi HF Hok. split.
    - apply (FI_lr R qr kexp kexp0 Hs qd d Ds DW Hd HW Hk dt hdt X' i HF ltac:(lia) Hok).
    - intros HR' Hokb. apply (undo_lr R qr kexp kexp0 Hs qd d Ds DW Hd HW HDW Hk Hk0 Hcov Hcov0 dt hdt c ci Hc X' b' i HF ltac:(lia) Hok HR' Hokb).
  Qed.

  Theorem iter_inverse n : forall (X b : sw), FIi 0 X -> fok (s_tr (iter n stepF X)) -> Reli 0 (iter n stepF X) b ->
    bok (s_tr (iter n stepB b)) -> Reli 0 X (iter n stepB b).
  Proof.
    induction n as [|n IH]; intros X b HFI Hfok HR Hbok; [exact HR|].
    cbn [iter] in Hfok, HR. change (iter (S n) stepB b) with (iter n stepB (stepB b)) in *. rewrite (iter_comm stepB n b) in Hbok |- *.
    assert (Hfok1 : fok (s_tr (stepF X))).
    { destruct (suf_tdvp_iter R qr kexp kexp0 Hs qd dt hdt n (stepF X)) as [new E]. rewrite E in Hfok.
      exact (rev_tr_ok_suffix R qr kexp0 true dt hdt _ _ Hfok). }
    assert (Hbok1 : bok (s_tr (iter n stepB b))).
    { destruct (suf_tdvp1_step R qr kexp kexp0 Hs qd (kopp R dt) (kopp R hdt) (iter n stepB b)) as [new E]. rewrite E in Hbok.
      exact (rev_tr_ok_suffix R qr kexp0 false (kopp R dt) (kopp R hdt) _ _ Hbok). }
    assert (F1 : FIi 0 (stepF X)) by (apply step_FI; assumption).
    pose proof (IH (stepF X) b F1 Hfok HR Hbok1) as HR1.
    exact (proj2 (step_inverse X (iter n stepB b) HFI Hfok1 HR1 Hbok)).
  Qed.
End Run.
