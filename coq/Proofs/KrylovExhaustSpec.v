(* Exhausted Krylov space, part 2: spectral consequences of A V = V T.

   Generic part (T any k x k matrix [t], A linear with A V = V T):
     eig_lift       T u = lam u  ==>  A (V u) = lam (V u)            (Ritz pairs are exact eigenpairs)
     spectral_sum   for ANY operator E on vectors of length n that is linear and acts on every eigenvector of A as
                    multiplication by phi(eigenvalue)  (E y = phi(lam) y whenever A y = lam y):
                      E (V (sum_q c_q u_q)) = V (sum_q c_q phi(lam_q) u_q)       whenever T u_q = lam_q u_q.
   Hermitian branch (T = tridiag(alpha, beta), eigh_tridiagonal answer (w, U) with T U = U diag w, U^T U = I,
   (U U^T) e_0 = e_0): the coefficient vector computed by expm_krylov, U diag(dexp(dt w)) U^T (||v|| e_0), is exactly
   sum_q c_q dexp(dt w_q) u_q with ||v|| e_0 = sum_q c_q u_q, so  E v = expm_krylov(A, v, dt)  for every such E with
   phi(lam) = dexp(dt lam) -- in particular for the matrix exponential exp(dt A) when dexp is the exponential function.
   No matrix exponential is constructed here: the statement is relative to that defining property on eigenvectors.
   Also: every Ritz vector is a unit eigenvector of A, the start vector is a combination of the Ritz vectors, the first
   component of every eigenvector of an unreduced tridiagonal matrix is non-zero (so every Ritz value is "reachable"
   from v), and every real eigenvalue of A with an eigenvector not orthogonal to v is >= the lowest Ritz value. *)
From Coq Require Import ZArith List Bool Arith Lia Ring Field.
From PT Require Import Base.Scalar Base.Field Base.BigSum Base.Mx Model.Krylov Proofs.KrylovVec Proofs.KrylovLanczos
  Proofs.KrylovArnoldi Proofs.KrylovMatvec Proofs.KrylovExpm Proofs.KrylovRitz Proofs.KrylovPoly Proofs.KrylovExhaust.
Import ListNotations.

Section Spectral.
  Variable F : ofield.
  Notation K := (Cx F).
  Add Field Ffield_ks : (f_ft F).
  Add Ring Kring_ks : (k_rt (Cx F)).
  Notation vec := (list K).
  Notation kz := (k0 K).
  Notation "a [+] b" := (kadd K a b) (at level 50, left associativity).
  Notation "a [*] b" := (kmul K a b) (at level 40, left associativity).
  Variable n k : nat.
  Variable Afunc : vec -> vec.
  Variable t : nat -> nat -> K.
  Variable Vs : list vec.
  Notation vat := (vat F).
  Hypothesis A_len : maps_len F n Afunc.
  Hypothesis A_lin : linear F n Afunc.
  Hypothesis V_len : forall v, In v Vs -> length v = n.
  Hypothesis V_k : length Vs = k.
  Hypothesis AV_VT : forall j, j < k -> Afunc (vat Vs j) = lincomb n (tcol F k t j) Vs.

  (* V (sum_q c_q u_q) = sum_q c_q (V u_q) *)
  Lemma V_lincomb (us : list vec) : forall cs, (forall u, In u us -> length u = k) ->
    lincomb n (lincomb k cs us) Vs = lincomb n cs (map (fun u => lincomb n u Vs) us).
  Proof.
    induction us as [|u us IH]; intros [|c cs] Hu; cbn [lincomb map]; try (apply (lincomb_vzero F n k Vs V_len V_k)).
    assert (Lu : length u = k) by (apply Hu; left; reflexivity).
    rewrite (lincomb_vadd F n k Vs V_len V_k)
      by (try (apply length_cscale; exact Lu); apply length_lincomb; intros x Hx; apply Hu; right; exact Hx).
    rewrite (lincomb_cscale F n k Vs V_len V_k) by exact Lu.
    rewrite IH by (intros x Hx; apply Hu; right; exact Hx). reflexivity.
  Qed.

  Definition eigpair (lam : K) (u : list K) : Prop := length u = k /\ mulT F k t u = cscale lam u.

  (* an eigenpair of T lifts to an eigenpair of A *)
  Lemma eig_lift lam u : eigpair lam u -> Afunc (lincomb n u Vs) = cscale lam (lincomb n u Vs).
  Proof.
    intros [Lu Eu]. rewrite (A_lincomb F n k Afunc t Vs A_len A_lin V_len V_k AV_VT u Lu), Eu.
    apply (lincomb_cscale F n k Vs V_len V_k). exact Lu.
  Qed.

  Lemma cscale_cscale (a b : K) (y : vec) : cscale a (cscale b y) = cscale (a [*] b) y.
  Proof. unfold cscale. rewrite map_map. apply map_ext. intros z. ring. Qed.

  Variable E : vec -> vec.
  Variable phi : K -> K.
  Hypothesis E_lin : linear F n E.
  Hypothesis E_eig : forall lam (y : vec), length y = n -> Afunc y = cscale lam y -> E y = cscale (phi lam) y.

  Lemma spectral_aux (lams : list K) (us : list vec) : Forall2 eigpair lams us -> forall cs,
    lincomb n cs (map E (map (fun u => lincomb n u Vs) us)) =
    lincomb n (zipw (fun c lam => c [*] phi lam) cs lams) (map (fun u => lincomb n u Vs) us).
  Proof.
    induction 1 as [|lam u lams us Hp HF IH]; intros cs.
    - destruct cs; reflexivity.
    - destruct cs as [|c cs]; cbn [zipw lincomb map]; [reflexivity|]. rewrite IH. f_equal.
      rewrite (E_eig lam) by (try (apply length_lincomb; exact V_len); apply eig_lift; exact Hp).
      apply cscale_cscale.
  Qed.

  Lemma Forall2_len (lams : list K) (us : list vec) : Forall2 eigpair lams us -> forall u, In u us -> length u = k.
  Proof.
    induction 1 as [|lam u lams us Hp HF IH]; intros x Hx; [destruct Hx|].
    destruct Hx as [<-|Hx]; [apply Hp|apply IH; exact Hx].
  Qed.

  (* E (V sum_q c_q u_q) = V sum_q c_q phi(lam_q) u_q *)
  Theorem spectral_sum (lams : list K) (us : list vec) cs : Forall2 eigpair lams us ->
    E (lincomb n (lincomb k cs us) Vs) = lincomb n (lincomb k (zipw (fun c lam => c [*] phi lam) cs lams) us) Vs.
  Proof.
    intros HF. pose proof (Forall2_len lams us HF) as Hu. rewrite !V_lincomb by exact Hu.
    rewrite (Afunc_lincomb F n E E_lin).
    - apply spectral_aux. exact HF.
    - intros y Hy. apply in_map_iff in Hy. destruct Hy as (u & <- & _). apply length_lincomb. exact V_len.
  Qed.
End Spectral.

(* ====================== Hermitian branch: tridiagonal T with an eigh_tridiagonal answer ====================== *)
Section HermSpec.
  Variable F : ofield.
  Notation K := (Cx F).
  Add Field Ffield_kh : (f_ft F).
  Add Ring Kring_kh : (k_rt (Cx F)).
  Notation vec := (list K).
  Notation kz := (k0 K).
  Notation "a [+] b" := (kadd K a b) (at level 50, left associativity).
  Notation "a [*] b" := (kmul K a b) (at level 40, left associativity).
  Notation conj := (kconj K).
  Variable n : nat.
  Variable Afunc : vec -> vec.
  Notation vat := (vat F).
  Notation fat := (fat F).
  Notation tri := (tri F).
  Notation orthonormal := (orthonormal F n).
  Notation delta := (delta F).
  Notation uent U i j := (nth j (nth i U []) (f0 F)).

  Lemma cof_mul_zero (r : F) (z : K) : r <> f0 F -> cof r [*] z = kz -> z = kz.
  Proof.
    intros Hr H.
    assert (E : cof (finv F r) [*] (cof r [*] z) = z).
    { transitivity (cof (fmul F (finv F r) r) [*] z); [rewrite cof_mul; ring|].
      replace (fmul F (finv F r) r) with (f1 F) by (field; exact Hr). change (@cof F (f1 F)) with (k1 K). ring. }
    rewrite <- E, H. ring.
  Qed.
  Lemma k1_neq_k0 : k1 K <> kz.
  Proof. intros E. apply (f_equal fst) in E. cbn in E. exact (F_1_neq_0 (f_ft F) E). Qed.
  Lemma fmul_zero (a b : F) : fmul F a b = f0 F -> a <> f0 F -> b = f0 F.
  Proof.
    intros H Ha. transitivity (fmul F (finv F a) (fmul F a b)); [field; exact Ha|]. rewrite H. ring.
  Qed.

  Lemma tri_sym al be i j : tri al be i j = tri al be j i.
  Proof.
    unfold KrylovLanczos.tri. rewrite (Nat.eqb_sym j i).
    destruct (Nat.eqb i j) eqn:E1; [apply Nat.eqb_eq in E1; subst; reflexivity|].
    destruct (Nat.eqb (S i) j) eqn:E2; destruct (Nat.eqb i (S j)) eqn:E3;
      try (apply Nat.eqb_eq in E2); try (apply Nat.eqb_eq in E3); try lia.
    - replace (Nat.eqb (S j) i) with false by (symmetry; apply Nat.eqb_neq; lia).
      rewrite (Nat.eqb_sym j (S i)). replace (Nat.eqb (S i) j) with true by (symmetry; apply Nat.eqb_eq; exact E2). reflexivity.
    - replace (Nat.eqb (S j) i) with true by (symmetry; apply Nat.eqb_eq; lia). reflexivity.
    - replace (Nat.eqb (S j) i) with false by (symmetry; apply Nat.eqb_neq; apply Nat.eqb_neq in E3; lia).
      replace (Nat.eqb j (S i)) with false by (symmetry; apply Nat.eqb_neq; apply Nat.eqb_neq in E2; lia). reflexivity.
  Qed.

  (* the first component of every eigenvector of an unreduced symmetric tridiagonal matrix is non-zero *)
  Lemma eig_first_nonzero k al be w U q : eigh_ok F k al be (w, U) ->
    (forall i, S i < k -> fat be i <> f0 F) -> q < k -> uent U 0 q <> f0 F.
  Proof.
    intros (Hw & HU & Hrow & Hcols & HT) Hbe Hq H0.
    assert (Hrowi : forall i, i < k ->
              ((cof (fat al i) [*] cof (uent U i q)) [+]
               (if Nat.ltb (S i) k then cof (fat be i) [*] cof (uent U (S i) q) else kz)) [+]
              (match i with O => kz | S i' => cof (fat be i') [*] cof (uent U i' q) end) =
              cof (fmul F (uent U i q) (nth q w (f0 F)))).
    { intros i Hi. rewrite <- (HT i q Hi Hq).
      rewrite <- (sumn_tri_col F al be k i (fun l => cof (uent U l q)) Hi).
      apply (sumn_ext (Cx F)). intros l Hl. rewrite (tri_sym al be l i). reflexivity. }
    assert (Hall : forall i, i < k -> uent U i q = f0 F /\ (S i < k -> uent U (S i) q = f0 F)).
    { induction i as [|i IH]; intros Hi.
      - split; [exact H0|]. intros H1. pose proof (Hrowi 0%nat Hi) as R.
        replace (Nat.ltb 1 k) with true in R by (symmetry; apply Nat.ltb_lt; exact H1).
        rewrite H0 in R. apply cof_inj. change (@cof F (f0 F)) with kz.
        apply (cof_mul_zero (fat be 0)); [apply Hbe; exact H1|].
        transitivity (cof (fmul F (f0 F) (nth q w (f0 F)))).
        + rewrite <- R. change (@cof F (f0 F)) with kz. ring.
        + replace (fmul F (f0 F) (nth q w (f0 F))) with (f0 F) by ring. reflexivity.
      - destruct (IH ltac:(lia)) as [Hi0 Hi1]. specialize (Hi1 Hi). split; [exact Hi1|]. intros H1.
        pose proof (Hrowi (S i) Hi) as R.
        replace (Nat.ltb (S (S i)) k) with true in R by (symmetry; apply Nat.ltb_lt; exact H1).
        rewrite Hi0, Hi1 in R. apply cof_inj. change (@cof F (f0 F)) with kz.
        apply (cof_mul_zero (fat be (S i))); [apply Hbe; exact H1|].
        transitivity (cof (fmul F (f0 F) (nth q w (f0 F)))).
        + rewrite <- R. change (@cof F (f0 F)) with kz. ring.
        + replace (fmul F (f0 F) (nth q w (f0 F))) with (f0 F) by ring. reflexivity. }
    pose proof (Hcols q q Hq Hq) as Hn. rewrite (delta_refl F) in Hn.
    apply k1_neq_k0. rewrite <- Hn. apply (sumn_zero (Cx F)). intros i Hi.
    rewrite (proj1 (Hall i Hi)). change (@cof F (f0 F)) with kz. ring.
  Qed.

  Variables (al be : list F) (Vs : list vec) (w : list F) (U : list (list F)) (k : nat).
  Hypothesis A_len : maps_len F n Afunc.
  Hypothesis A_lin : linear F n Afunc.
  Hypothesis Ho : orthonormal Vs.
  Hypothesis HV : length Vs = k.
  Hypothesis AV_VT : forall j, j < k -> Afunc (vat Vs j) = lincomb n (tcol F k (tri al be) j) Vs.
  Hypothesis HE : eigh_ok F k al be (w, U).

  Notation wq q := (nth q w (f0 F)).
  Notation ritzv q := (ritz F n Vs U q).
  Definition us_h : list (list K) := map (ucol U) (seq 0 k).
  Definition lams_h : list K := map (fun q => cof (wq q)) (seq 0 k).
  Definition cs_h (nrm : F) : list K := map (fun q => cof nrm [*] cof (uent U 0 q)) (seq 0 k).
  Definition ritzs : list vec := map (fun q => ritzv q) (seq 0 k).

  Let V_len : forall v, In v Vs -> length v = n := orth_all F n Vs Ho.

  Lemma ucol_eig q : q < k -> eigpair F k (tri al be) (cof (wq q)) (ucol U q).
  Proof.
    intros Hq. destruct HE as (Hw & HU & Hrow & Hcols & HT). split; [rewrite length_ucol; exact HU|].
    apply (list_eq_nth kz).
    - rewrite length_mulT. symmetry. apply length_cscale. rewrite length_ucol. exact HU.
    - intros i Hi. rewrite length_mulT in Hi. rewrite nth_mulT by exact Hi. rewrite (nth_cscale F), nth_ucol by lia.
      rewrite (sumn_ext (Cx F) k _ (fun j => tri al be i j [*] cof (uent U j q))).
      2:{ intros j Hj. rewrite nth_ucol by lia. reflexivity. }
      rewrite (HT i q Hi Hq), cof_mul. ring.
  Qed.

  Lemma eig_all : Forall2 (eigpair F k (tri al be)) lams_h us_h.
  Proof.
    unfold lams_h, us_h. assert (G : forall l, (forall q, In q l -> q < k) ->
      Forall2 (eigpair F k (tri al be)) (map (fun q => cof (wq q)) l) (map (ucol U) l)).
    { induction l as [|q l IH]; intros Hl; cbn [map]; constructor.
      - apply ucol_eig. apply Hl. left. reflexivity.
      - apply IH. intros x Hx. apply Hl. right. exact Hx. }
    apply G. intros q Hq. apply in_seq in Hq. lia.
  Qed.

  Lemma us_len : forall u, In u us_h -> length u = k.
  Proof. exact (Forall2_len F k (tri al be) lams_h us_h eig_all). Qed.

  Lemma V_us : map (fun u => lincomb n u Vs) us_h = ritzs.
  Proof. unfold us_h, ritzs. rewrite map_map. reflexivity. Qed.

  (* Target 2: every Ritz pair is an exact eigenpair with a unit (hence non-zero) eigenvector *)
  Theorem ritz_exact q : q < k ->
    Afunc (ritzv q) = cscale (cof (wq q)) (ritzv q) /\ length (ritzv q) = n /\
    vdot (ritzv q) (ritzv q) = k1 K /\ ritzv q <> vzero n.
  Proof.
    intros Hq. split; [|split; [|split]].
    - exact (eig_lift F n k Afunc (tri al be) Vs A_len A_lin V_len HV AV_VT _ _ (ucol_eig q Hq)).
    - apply length_ritz. exact Ho.
    - rewrite (ritz_gram F n al be Vs w U k Ho HV HE q q Hq Hq). apply delta_refl.
    - intros Ez. apply k1_neq_k0. rewrite <- (delta_refl F q), <- (ritz_gram F n al be Vs w U k Ho HV HE q q Hq Hq).
      rewrite Ez. apply vdot_zero_r.
  Qed.

  Hypothesis Hrow0 : forall j, j < k -> sumn k (fun q => cof (uent U j q) [*] cof (uent U 0 q)) = delta j 0.

  Lemma length_us : length us_h = k. Proof. unfold us_h. rewrite map_length, seq_length. reflexivity. Qed.
  Lemma nth_us q : q < k -> nth q us_h [] = ucol U q. Proof. intros Hq. unfold us_h. apply nth_map_seq. exact Hq. Qed.
  Lemma nth_cs nrm q : q < k -> nth q (cs_h nrm) kz = cof nrm [*] cof (uent U 0 q).
  Proof. intros Hq. unfold cs_h. exact (nth_map_seq kz k (fun q => cof nrm [*] cof (uent U 0 q)) q Hq). Qed.
  Lemma nth_lams q : q < k -> nth q lams_h kz = cof (wq q).
  Proof. intros Hq. unfold lams_h. exact (nth_map_seq kz k (fun q => cof (wq q)) q Hq). Qed.

  (* ||v|| e_0 = sum_q (||v|| U_0q) u_q *)
  Lemma e0_decomp nrm : cscale (cof nrm) (e0 F k) = lincomb k (cs_h nrm) us_h.
  Proof.
    destruct HE as (Hw & HU & Hrow & Hcols & HT).
    apply (vec_ext F k).
    - apply length_cscale. unfold e0. rewrite map_length, seq_length. reflexivity.
    - apply length_lincomb. exact us_len.
    - intros i Hi. rewrite (nth_cscale F). unfold e0. rewrite nth_map_seq by exact Hi.
      rewrite (nth_lincomb F k) by (try exact us_len; unfold cs_h; rewrite length_us, map_length, seq_length; lia).
      rewrite length_us.
      transitivity (cof nrm [*] sumn k (fun q => cof (uent U i q) [*] cof (uent U 0 q))).
      + rewrite (Hrow0 i Hi). reflexivity.
      + rewrite <- sumn_scal_l. apply (sumn_ext (Cx F)). intros q Hq.
        rewrite nth_cs, nth_us, nth_ucol by lia. ring.
  Qed.

  (* Target 2, span statement: v = ||v|| v_0 = sum_q (||v|| U_0q) y_q lies in the span of the Ritz vectors *)
  Theorem start_ritz_span nrm : 0 < k -> rscale nrm (vat Vs 0) = lincomb n (cs_h nrm) ritzs.
  Proof.
    intros Hk.
    rewrite (start_vector F n k Vs V_len HV nrm Hk), e0_decomp, (V_lincomb F n k Vs V_len HV) by exact us_len.
    rewrite V_us. reflexivity.
  Qed.

  Variable dexp : K -> K.

  (* the coefficient vector of expm_krylov is sum_q c_q dexp(dt w_q) u_q *)
  Lemma coeffs_decomp nrm dt :
    expm_coeffs_h F dexp nrm dt w U = lincomb k (zipw (fun c lam => c [*] dexp (dt [*] lam)) (cs_h nrm) lams_h) us_h.
  Proof.
    destruct HE as (Hw & HU & Hrow & Hcols & HT).
    set (y := zipw (fun wk u0k => (cof nrm [*] dexp (dt [*] cof wk)) [*] cof u0k) w (nth 0 U [])).
    assert (Ly : length y = k). { unfold y. rewrite length_zipw; [exact Hw|]. destruct k as [|k']; [destruct w, U; cbn in *; congruence|]. rewrite Hw, Hrow by lia. reflexivity. }
    assert (Hy : forall l, l < k -> nth l y kz = (cof nrm [*] dexp (dt [*] cof (wq l))) [*] cof (uent U 0 l)).
    { intros l Hl. unfold y. rewrite (nth_zipw _ _ _ (f0 F) (f0 F)); [reflexivity|lia|rewrite Hrow; lia]. }
    assert (Lz : length (zipw (fun c lam => c [*] dexp (dt [*] lam)) (cs_h nrm) lams_h) = k).
    { rewrite length_zipw; unfold cs_h, lams_h; rewrite !map_length, !seq_length; reflexivity. }
    apply (vec_ext F k).
    - unfold expm_coeffs_h. rewrite map_length. exact HU.
    - apply length_lincomb. exact us_len.
    - intros i Hi. unfold expm_coeffs_h. fold y.
      change kz with ((fun row : list F => dotu (map cof row) y) []) at 1. rewrite map_nth.
      rewrite (dotu_sumn F k) by (try exact Ly; rewrite map_length; apply Hrow; exact Hi).
      rewrite (nth_lincomb F k) by (try exact us_len; rewrite length_us, Lz; lia). rewrite length_us.
      apply (sumn_ext (Cx F)). intros q Hq. rewrite (nth_map_cof F (nth i U [])), Hy by exact Hq.
      rewrite (nth_zipw _ _ _ kz kz) by (unfold cs_h, lams_h; rewrite map_length, seq_length; exact Hq).
      rewrite nth_cs, nth_lams, nth_us, nth_ucol by lia. ring.
  Qed.

  Lemma zipw_map {A B C X} (f : B -> C -> X) (g : A -> B) (h : A -> C) (l : list A) :
    zipw f (map g l) (map h l) = map (fun q => f (g q) (h q)) l.
  Proof. induction l as [|a l IH]; cbn [map zipw]; [reflexivity|]. rewrite IH. reflexivity. Qed.

  (* Target 3 (i): the model output is sum_q dexp(dt w_q) c_q y_q and the start vector is sum_q c_q y_q, with
     y_q = V u_q the Ritz vectors (exact unit eigenvectors of A by [ritz_exact]) and c_q = ||v|| U_0q *)
  Theorem expm_spectral_form nrm dt : 0 < k ->
    lincomb n (expm_coeffs_h F dexp nrm dt w U) Vs =
      lincomb n (map (fun q => (cof nrm [*] cof (uent U 0 q)) [*] dexp (dt [*] cof (wq q))) (seq 0 k)) ritzs /\
    rscale nrm (vat Vs 0) = lincomb n (cs_h nrm) ritzs.
  Proof.
    intros Hk. split.
    - rewrite coeffs_decomp, (V_lincomb F n k Vs V_len HV) by exact us_len. rewrite V_us.
      unfold cs_h, lams_h. rewrite zipw_map. reflexivity.
    - exact (start_ritz_span nrm Hk).
  Qed.

  (* Target 3 (ii): any linear E acting as dexp(dt lam) on lam-eigenvectors of A reproduces the model output *)
  Theorem expm_spectral_h (E : vec -> vec) nrm dt : 0 < k -> linear F n E ->
    (forall lam (y : vec), length y = n -> Afunc y = cscale lam y -> E y = cscale (dexp (dt [*] lam)) y) ->
    E (rscale nrm (vat Vs 0)) = lincomb n (expm_coeffs_h F dexp nrm dt w U) Vs.
  Proof.
    intros Hk E_lin E_eig.
    rewrite (start_vector F n k Vs V_len HV nrm Hk), e0_decomp, coeffs_decomp.
    exact (spectral_sum F n k Afunc (tri al be) Vs A_len A_lin V_len HV AV_VT E (fun lam => dexp (dt [*] lam)) E_lin E_eig
             lams_h us_h (cs_h nrm) eig_all).
  Qed.

  (* ---- reachable eigenvalues ---- *)
  Definition reachable (v : vec) (lam : F) : Prop :=
    exists x : vec, length x = n /\ Afunc x = cscale (cof lam) x /\ vdot x v <> kz.

  Lemma vdot_ritz_start nrm q : q < k -> 0 < k -> vdot (ritzv q) (rscale nrm (vat Vs 0)) = cof nrm [*] cof (uent U 0 q).
  Proof.
    intros Hq Hk. destruct HE as (Hw & HU & Hrow & Hcols & HT). pose proof Ho as [Hl Hd].
    rewrite vdot_rscale_r. f_equal. unfold ritz.
    rewrite (vdot_lincomb_l F n) by (try exact V_len; rewrite length_ucol; lia). rewrite HV.
    rewrite (sumn_single (Cx F) k 0 _ Hk).
    - rewrite nth_ucol by lia. fold (vat Vs 0). rewrite Hd by lia. rewrite (delta_refl F), conj_cof. ring.
    - intros j Hj Hne. fold (vat Vs j). fold (vat Vs 0). rewrite Hd by lia. rewrite (delta_neq F) by exact Hne. ring.
  Qed.

  Hypothesis A_sa : self_adjoint F n Afunc.
  Hypothesis Hsort : forall q, q < k -> fle F (wq 0) (wq q).
  Hypothesis Hbe : forall i, S i < k -> fat be i <> f0 F.

  (* every Ritz value is an eigenvalue of A reachable from v = nrm v_0 *)
  Theorem ritz_reachable nrm q : nrm <> f0 F -> q < k -> reachable (rscale nrm (vat Vs 0)) (wq q).
  Proof.
    intros Hn Hq. destruct (ritz_exact q Hq) as (R1 & R2 & _). exists (ritzv q). split; [exact R2|]. split; [exact R1|].
    rewrite vdot_ritz_start by lia. intros E0.
    apply (eig_first_nonzero k al be w U q HE Hbe Hq). apply cof_inj. exact (cof_mul_zero nrm _ Hn E0).
  Qed.

  (* every reachable eigenvalue is >= the lowest Ritz value *)
  Theorem ritz_lowest nrm lam : 0 < k -> reachable (rscale nrm (vat Vs 0)) lam -> fle F (wq 0) lam.
  Proof.
    intros Hk (x & Lx & Ex & Hx). destruct (fle_lt_dec F (wq 0) lam) as [Hle|Hlt]; [exact Hle|]. exfalso. apply Hx.
    assert (Hz : forall q, q < k -> vdot x (ritzv q) = kz).
    { intros q Hq. destruct (ritz_exact q Hq) as (R1 & R2 & _).
      pose proof (A_sa x (ritzv q) Lx R2) as Hs. rewrite R1, Ex, vdot_cscale_r, vdot_cscale_l, conj_cof in Hs.
      apply (cof_mul_zero (fsub F (wq q) lam)).
      - intros E0. assert (El : wq q = lam) by (transitivity (fadd F (fsub F (wq q) lam) lam); [ring|rewrite E0; ring]).
        apply (flt_irrefl F lam). eapply flt_le_trans; [exact Hlt|]. rewrite <- El. apply Hsort. exact Hq.
      - transitivity (cof (wq q) [*] vdot x (ritzv q) [+] kopp K (cof lam [*] vdot x (ritzv q))).
        + replace (@cof F (fsub F (wq q) lam)) with (ksub K (cof (wq q)) (cof lam))
            by (apply injective_projections; cbn; ring). ring.
        + rewrite Hs. ring. }
    rewrite (start_ritz_span nrm Hk).
    assert (LR : forall y, In y ritzs -> length y = n).
    { intros y Hy. unfold ritzs in Hy. apply in_map_iff in Hy. destruct Hy as (q & <- & _). apply length_ritz. exact Ho. }
    rewrite (vdot_lincomb_r F n) by (try exact LR; unfold cs_h, ritzs; rewrite !map_length; lia).
    apply (sumn_zero (Cx F)). intros q Hq. unfold ritzs in Hq. rewrite map_length, seq_length in Hq.
    unfold ritzs. rewrite (nth_map_seq [] k (fun q => ritzv q) q Hq). rewrite Hz by exact Hq. ring.
  Qed.
End HermSpec.
