(* C09 — reversibility for a single site (L = 1): n steps with dt followed by n steps with -dt return the (normalised)
   initial state once the result is multiplied by the norm reported by the second call.  Only contract (a) is needed:
   there is no bond, hence no gauge. *)
From Coq Require Import ZArith Arith List Lia Ring Setoid Bool.
From PT Require Import Base.Scalar Base.BigSum Base.Mx Model.Tensor Model.Operation Model.Sweeps
  Proofs.OperationEntries Proofs.SweepsFlow Proofs.ReverseDefs.
Import ListNotations.

Lemma iter_comm {T} (f : T -> T) n : forall x, iter n f (f x) = f (iter n f x).
Proof. induction n as [|n IH]; intros x; cbn [iter]; [reflexivity|]. apply IH. Qed.

Section L1.
  Variable R : cring.
  Add Ring Rring_reverse_l1 : (k_rt R).
  Notation site := (site R).
  Notation mx := (mx R).
  Variable orth : mps R -> mps R * R.
  Variable qr : nat -> mx -> list BinNums.Z -> list BinNums.Z -> mx * mx * list BinNums.Z.
  Variable kexp : kexp_t R.
  Variable kexp0 : kexp0_t R.
  Variable d : nat.

  (* the prologue for one site *)
  Lemma sweep_init_L1 H psi st nrm : sweep_init orth H psi = Some (st, nrm) -> length (o_A H) = 1 ->
    s_A st = m_A (fst (orth psi)) /\ nrm = snd (orth psi) /\ s_BL st = [env_one] /\ s_BR st = [env_one] /\ length (s_A st) = 1.
  Proof.
    unfold sweep_init. destruct (negb _) eqn:El; [discriminate|]. destruct (orth psi) as [psi1 n1].
    destruct (compute_right_operator_blocks psi1 H) as [BR|] eqn:EB; [|discriminate]. destruct (forallb _ _); [|discriminate].
    intros E HL. injection E as <- <-. cbn [s_A s_BL s_BR fst snd].
    unfold compute_right_operator_blocks, compute_right_operator_blocks_sites in EB.
    destruct (negb (Nat.eqb (length (m_A psi1)) (length (o_A H)))) eqn:E2; [discriminate|].
    apply negb_false_iff, Nat.eqb_eq in E2. rewrite HL in *.
    destruct (m_A psi1) as [|A [|A' As]]; cbn [length] in E2; try discriminate.
    destruct (o_A H) as [|W [|W' Ws]]; cbn [length] in HL; try discriminate.
    injection EB as <-. cbn [rblocks repeat Nat.sub]. repeat split.
  Qed.

  Lemma words1_in s : s < d -> In [s] (words d 1).
  Proof.
    intros Hs. cbn [words]. apply in_flat_map. exists s. split; [apply in_seq; lia|]. left. reflexivity.
  Qed.
  Lemma words1_inv w : In w (words d 1) -> exists s, s < d /\ w = [s].
  Proof.
    cbn [words]. intros H. apply in_flat_map in H. destruct H as (s & Hs & Hw). apply in_seq in Hs.
    destruct Hw as [<-|[]]. exists s. split; [lia|reflexivity].
  Qed.
  Lemma amp_single (X : site) s : wsite d 1 1 X -> s < d -> amp [X] [s] = get (sel X s) 0 0.
  Proof.
    intros HX Hs. destruct (wsite_sel R _ _ _ _ _ HX Hs) as (Hwf & H1 & H2).
    unfold amp. cbn [pick mprod]. rewrite mulmx_1_r by exact Hwf. reflexivity.
  Qed.

  Variables (Hs : list (osite R)) (qd : list BinNums.Z) (dt hdt : R).
  Notation stepF := (tdvp1_step qr kexp kexp0 Hs qd dt hdt 1).
  Notation stepB := (tdvp1_step qr kexp kexp0 Hs qd (kopp R dt) (kopp R hdt) 1).

  Lemma step_L1 dt' hdt' (st : sw R) X : s_A st = [X] ->
    let st' := tdvp1_step qr kexp kexp0 Hs qd dt' hdt' 1 st in
    s_A st' = [kexp (length (s_tr st)) (gBL st 0) (gBR st 0) (nth 0 Hs []) X dt'] /\ s_BL st' = s_BL st /\ s_BR st' = s_BR st.
  Proof.
    intros EA. unfold tdvp1_step. cbn [Nat.sub seq rev fold_left]. unfold tdvp1_mid. cbn [s_A s_BL s_BR].
    unfold gA. rewrite EA. cbn [lset nth]. repeat split.
  Qed.

  Hypothesis Hflow : kexp_flow d kexp.

  Lemma iterF_L1 n : forall (st : sw R) X, s_A st = [X] -> wsite d 1 1 X ->
    exists Xn, s_A (iter n stepF st) = [Xn] /\ wsite d 1 1 Xn /\ s_BL (iter n stepF st) = s_BL st /\ s_BR (iter n stepF st) = s_BR st.
  Proof.
    induction n as [|n IH]; intros st X EA HX; cbn [iter]; [exists X; auto|].
    destruct (step_L1 dt hdt st X EA) as (E1 & E2 & E3).
    destruct (IH (stepF st) _ E1) as (Xn & F1 & F2 & F3 & F4).
    { destruct Hflow as (Hsh & _). apply Hsh. exact HX. }
    exists Xn. split; [exact F1|]. split; [exact F2|]. split; congruence.
  Qed.

  (* the heart: the backward run undoes the forward run, up to the scalar by which the two start tensors differ *)
  Lemma undo_L1 n : forall (st st' : sw R) X Y Xn c,
    s_A st = [X] -> wsite d 1 1 X -> s_A (iter n stepF st) = [Xn] ->
    s_A st' = [Y] -> wsite d 1 1 Y -> s_BL st' = s_BL st -> s_BR st' = s_BR st ->
    scale_site c Y = Xn ->
    exists Y', s_A (iter n stepB st') = [Y'] /\ wsite d 1 1 Y' /\ scale_site c Y' = X /\
               s_BL (iter n stepB st') = s_BL st' /\ s_BR (iter n stepB st') = s_BR st'.
  Proof.
    induction n as [|n IH]; intros st st' X Y Xn c EA HX EN EA' HY EBL EBR Hsc; cbn [iter] in EN.
    - cbn [iter]. exists Y. rewrite EA in EN. injection EN as <-. auto.
    - destruct (step_L1 dt hdt st X EA) as (E1 & E2 & E3).
      assert (HX1 : wsite d 1 1 (kexp (length (s_tr st)) (gBL st 0) (gBR st 0) (nth 0 Hs []) X dt)).
      { destruct Hflow as (Hsh & _). apply Hsh. exact HX. }
      destruct (IH (stepF st) st' _ Y Xn c E1 HX1 EN EA' HY ltac:(congruence) ltac:(congruence) Hsc) as (Y1 & G1 & G2 & G3 & G4 & G5).
      change (iter (S n) stepB st') with (iter n stepB (stepB st')). rewrite iter_comm.
      destruct (step_L1 (kopp R dt) (kopp R hdt) (iter n stepB st') Y1 G1) as (K1 & K2 & K3).
      eexists. split; [exact K1|]. split; [destruct Hflow as (Hsh & _); apply Hsh; exact G2|]. split; [|split; congruence].
      destruct Hflow as (_ & _ & _ & Hhom).
      rewrite <- (Hhom (length (s_tr (iter n stepB st'))) (length (s_tr (iter n stepB st'))) _ _ _ Y1 (kopp R dt) c 1 1 G2).
      rewrite G3. unfold gBL, gBR. rewrite G4, G5, EBL, EBR.
      apply (kexp_flow_inv R d kexp Hflow _ _ _ _ _ X dt 1 1 HX).
  Qed.
End L1.

Theorem reversible_L1 (R : cring) orth qr (kexp : kexp_t R) (kexp0 : kexp0_t R) (H : mpo R) psi dt hdt n d
    A1 qD1 nrm1 tr1 A2 qD2 nrm2 tr2 :
  length (o_A H) = 1 ->
  tdvp_singlesite orth qr kexp kexp0 H psi dt hdt n = Some (A1, qD1, nrm1, tr1) ->
  let psi1 := mkmps (m_qd psi) qD1 A1 in
  tdvp_singlesite orth qr kexp kexp0 H psi1 (kopp R dt) (kopp R hdt) n = Some (A2, qD2, nrm2, tr2) ->
  kexp_flow d kexp ->
  Forall (wsite d 1 1) (m_A (fst (orth psi))) ->
  Forall (wsite d 1 1) (m_A (fst (orth psi1))) ->
  (forall w, In w (words d 1) -> amp A1 w = kmul R (snd (orth psi1)) (amp (m_A (fst (orth psi1))) w)) ->
  nrm2 = snd (orth psi1) /\
  forall w, In w (words d 1) -> amp (m_A (fst (orth psi))) w = kmul R nrm2 (amp A2 w).
Proof.
  intros HL Hrun1 psi1 Hrun2 Hflow Hw1 Hw2 Hamp.
  unfold tdvp_singlesite in Hrun1, Hrun2. rewrite HL in *.
  destruct (sweep_init orth H psi) as [[st n1]|] eqn:E1; [|discriminate].
  destruct (sweep_init orth H psi1) as [[st' n2]|] eqn:E2; [|discriminate].
  destruct (sweep_init_L1 R orth H psi st n1 E1 HL) as (a1 & a2 & a3 & a4 & a5).
  destruct (sweep_init_L1 R orth H psi1 st' n2 E2 HL) as (b1 & b2 & b3 & b4 & b5).
  injection Hrun1 as <- _ _ _. injection Hrun2 as <- _ <- _. split; [exact b2|].
  rewrite <- a1 in Hw1 |- *. rewrite <- b1 in Hw2, Hamp. rewrite <- b2 in Hamp. cbn [m_qd] in *.
  destruct (s_A st) as [|X [|? ?]] eqn:EX; cbn [length] in a5; try discriminate.
  destruct (s_A st') as [|Y [|? ?]] eqn:EY; cbn [length] in b5; try discriminate.
  pose proof (Forall_inv Hw1) as HX. pose proof (Forall_inv Hw2) as HY.
  destruct (iterF_L1 R qr kexp kexp0 d (o_A H) (m_qd psi) dt hdt Hflow n st X EX HX) as (Xn & F1 & F2 & F3 & F4).
  rewrite F1 in Hamp.
  assert (Hsc : scale_site n2 Y = Xn).
  { apply (wsite_ext R d 1 1); [apply wsite_scale; exact HY|exact F2|].
    intros s i j Hs Hi Hj. assert (i = 0) by lia. assert (j = 0) by lia. subst i j.
    rewrite (get_scale_site R d 1 1) by (try assumption; lia).
    pose proof (Hamp [s] (words1_in d s Hs)) as E. rewrite !(amp_single R d) in E by assumption. symmetry. exact E. }
  destruct (undo_L1 R qr kexp kexp0 d (o_A H) (m_qd psi) dt hdt Hflow n st st' X Y Xn n2 EX HX F1 EY HY
              ltac:(congruence) ltac:(congruence) Hsc) as (Y' & G1 & G2 & G3 & _).
  rewrite G1. intros w Hw. destruct (words1_inv d w Hw) as (s & Hs & ->).
  rewrite !(amp_single R d) by assumption. rewrite <- G3. apply (get_scale_site R d 1 1); try assumption; lia.
Qed.
