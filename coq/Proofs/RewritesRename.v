(* C16, part 4: rename_node_id and rename_edge_id are graph isomorphisms. *)
From Coq Require Import ZArith List Lia Bool Permutation Ring.
From PT Require Import Base.Scalar Base.BigSum Model.OpGraph Model.Rewrites
  Proofs.RewritesBase Proofs.RewritesIso.
Import ListNotations.
Open Scope Z_scope.

Lemma filter_all {A} (p : A -> bool) (l : list A) : (forall x, In x l -> p x = true) -> filter p l = l.
Proof.
  induction l as [|a l IH]; simpl; intros H; [reflexivity|]. rewrite (H a) by auto. f_equal. apply IH. auto.
Qed.
Lemma split_unique {A} (key : A -> Z) (l : list A) (a : A) : NoDup (map key l) -> In a l ->
  exists l1 l2, l = l1 ++ a :: l2 /\ (forall b, In b l1 \/ In b l2 -> key b <> key a).
Proof.
  intros Hnd Hin. destruct (in_split _ _ Hin) as [l1 [l2 ->]]. exists l1, l2. split; [reflexivity|].
  rewrite map_app in Hnd. simpl in Hnd. apply NoDup_remove_2 in Hnd.
  intros b Hb E. apply Hnd. rewrite <- E. apply in_or_app. destruct Hb; [left|right]; apply in_map; assumption.
Qed.
Lemma map_id_in {A} (f : A -> A) (l : list A) : (forall x, In x l -> f x = x) -> map f l = l.
Proof. intros H. rewrite <- (map_id l) at 2. apply map_ext_in. exact H. Qed.

Section Rename.
  Variable R : cring.
  Notation graph := (graph R).
  Notation gedge := (gedge R).

  Definition swap_id (cur new x : Z) : Z := if x =? cur then new else x.
  Lemma swap_id_other cur new x : x <> cur -> swap_id cur new x = x.
  Proof. unfold swap_id. intros H. apply Z.eqb_neq in H. rewrite H. reflexivity. Qed.
  Lemma swap_id_inj cur new (l : list Z) x y : ~ In new l -> In x l -> In y l ->
    swap_id cur new x = swap_id cur new y -> x = y.
  Proof.
    unfold swap_id. intros Hnew Hx Hy. destruct (x =? cur) eqn:E1, (y =? cur) eqn:E2; intros E.
    - apply Z.eqb_eq in E1. apply Z.eqb_eq in E2. congruence.
    - subst y. contradiction.
    - subst x. contradiction.
    - exact E.
  Qed.

  (* which edge ids a node lists, in terms of the edge ends *)
  Lemma in_list_iff (g : graph) n e d : WF R g -> (d <= 1)%nat -> In n (g_nodes g) -> In e (g_edges g) ->
    (In (e_id e) (node_eids n (1 - d)) <-> end_d R d e = n_id n).
  Proof.
    intros W Hd Hn He. destruct (wf_ref R g d W Hd) as [_ [B C]]. split.
    - intros Hin. destruct (B n (e_id e) Hn Hin) as [e' [He' [Hid Hend]]].
      assert (e' = e) by (eapply (key_inj (@e_id R)); eauto; apply W). subst e'. exact Hend.
    - intros Hend. destruct (C e He) as [n' [Hn' [Hid Hin]]].
      assert (n' = n) by (eapply (key_inj n_id); eauto; [apply W|congruence]). subst n'. exact Hin.
  Qed.
  Lemma zmem_list_end (g : graph) n e d : WF R g -> (d <= 1)%nat -> In n (g_nodes g) -> In e (g_edges g) ->
    zmem (e_id e) (node_eids n (1 - d)) = (end_d R d e =? n_id n).
  Proof.
    intros W Hd Hn He. pose proof (in_list_iff g n e d W Hd Hn He) as H.
    destruct (end_d R d e =? n_id n) eqn:E.
    - apply zmem_In, H, Z.eqb_eq, E.
    - apply zmem_false. intros Hin. apply H in Hin. apply Z.eqb_neq in E. contradiction.
  Qed.

  (* a fold of edge updates over a duplicate-free id list is one map *)
  Lemma fold_upd_edge (h : gedge -> gedge) (L : list Z) : (forall e, e_id (h e) = e_id e) -> NoDup L ->
    forall g : graph, fold_left (fun gg eid => upd_edge gg eid h) L g =
      mkgraph (g_nodes g) (map (fun e => if zmem (e_id e) L then h e else e) (g_edges g)) (g_t0 g) (g_t1 g).
  Proof.
    intros Hid. induction L as [|x L IH]; intros Hnd g; simpl.
    - rewrite map_id. destruct g; reflexivity.
    - inversion Hnd; subst. rewrite IH by assumption. unfold upd_edge. simpl. f_equal.
      rewrite map_map. apply map_ext. intros e. rewrite (Z.eqb_sym (e_id e) x).
      destruct (x =? e_id e) eqn:E.
      + apply Z.eqb_eq in E. subst x. rewrite Hid. simpl.
        assert (Hz : zmem (e_id e) L = false) by (apply zmem_false; assumption). rewrite Hz. reflexivity.
      + simpl. reflexivity.
  Qed.

  (* ---------------- rename_node_id ---------------- *)
  Lemma rename_node_iso (g g' : graph) cur new : WF R g -> rename_node_id g cur new = Some g' ->
    Iso R (swap_id cur new) (fun x => x) g g'.
  Proof.
    intros W. unfold rename_node_id.
    destruct (find_node g cur) as [node|] eqn:Fn; [|discriminate].
    destruct (has_node g new) eqn:Hn; [discriminate|]. intros E. inversion E; subst g'; clear E.
    apply find_node_Some in Fn. destruct Fn as [Hnode Hcur].
    assert (Hnew : ~ In new (nids R g)).
    { intros Hin. apply (existsb_key n_id) in Hin. unfold has_node in Hn. congruence. }
    pose proof (wf_ref0 R g W) as [A0 _]. pose proof (wf_ref1 R g W) as [A1 _].
    rewrite !fold_upd_edge; simpl; try (intros e; reflexivity); try (apply A0; exact Hnode); try (apply A1; exact Hnode).
    destruct (split_unique n_id (g_nodes g) node (wf_nids R g W) Hnode) as [l1 [l2 [Hsplit Hother]]].
    assert (Hfilter : filter (fun n => negb (n_id n =? cur)) (g_nodes g) = l1 ++ l2).
    { rewrite Hsplit, filter_app. simpl. rewrite Hcur, Z.eqb_refl. simpl.
      rewrite !filter_all; [reflexivity| |]; intros x Hx; apply negb_true_iff, Z.eqb_neq; rewrite <- Hcur; apply Hother; auto. }
    assert (Hedges : map (fun e : gedge => if zmem (e_id e) (n_out node) then edge_set_nid R 0 new e else e)
              (map (fun e : gedge => if zmem (e_id e) (n_in node) then edge_set_nid R 1 new e else e) (g_edges g))
            = map (ren_edge R (swap_id cur new) (fun x => x)) (g_edges g)).
    { rewrite map_map. apply map_ext_in. intros e He.
      pose proof (zmem_list_end g node e 1 W (le_n _) Hnode He) as Z1.
      pose proof (zmem_list_end g node e 0 W (le_S _ _ (le_n _)) Hnode He) as Z0.
      simpl in Z1, Z0. rewrite Hcur in Z1, Z0.
      assert (Hid : e_id (if zmem (e_id e) (n_in node) then edge_set_nid R 1 new e else e) = e_id e)
        by (destruct (zmem (e_id e) (n_in node)); reflexivity).
      rewrite Hid, Z0, Z1. unfold ren_edge, swap_id. destruct e as [i f t o]. simpl.
      destruct (t =? cur), (f =? cur); reflexivity. }
    constructor; simpl.
    - intros x y Hx Hy. apply (swap_id_inj cur new (nids R g)); assumption.
    - intros x y _ _ E. exact E.
    - unfold nids. simpl. rewrite Hfilter. unfold nids. rewrite Hsplit, !map_app. simpl.
      rewrite <- app_assoc. apply Permutation_app.
      + rewrite map_map. rewrite (map_ext_in (fun x => swap_id cur new (n_id x)) n_id); [apply Permutation_refl|].
        intros x Hx. apply swap_id_other. rewrite <- Hcur. apply Hother. auto.
      + unfold swap_id at 1. rewrite Hcur, Z.eqb_refl.
        rewrite map_map. rewrite (map_ext_in (fun x => swap_id cur new (n_id x)) n_id).
        * apply Permutation_sym, Permutation_cons_append.
        * intros x Hx. apply swap_id_other. rewrite <- Hcur. apply Hother. auto.
    - intros n Hin. destruct (Z.eq_dec (n_id n) cur) as [E|E].
      + assert (n = node) by (eapply (key_inj n_id); eauto; [apply W|congruence]). subst n.
        exists (node_set_id new node). split; [apply in_or_app; right; left; reflexivity|].
        unfold nrel, swap_id. simpl. rewrite E, Z.eqb_refl, !map_id. repeat split; apply Permutation_refl.
      + exists n. split.
        * apply in_or_app. left. apply filter_In. split; [exact Hin|]. apply negb_true_iff, Z.eqb_neq. exact E.
        * unfold nrel. rewrite swap_id_other by exact E. rewrite !map_id. repeat split; apply Permutation_refl.
    - intros n' Hin. apply in_app_or in Hin. destruct Hin as [Hin|[<-|[]]].
      + apply filter_In in Hin. destruct Hin as [Hin Hne]. apply negb_true_iff, Z.eqb_neq in Hne.
        exists n'. split; [exact Hin|]. unfold nrel. rewrite swap_id_other by exact Hne. rewrite !map_id.
        repeat split; apply Permutation_refl.
      + exists node. split; [exact Hnode|]. unfold nrel, swap_id. simpl. rewrite Hcur, Z.eqb_refl, !map_id.
        repeat split; apply Permutation_refl.
    - simpl in Hedges. rewrite Hedges. apply Permutation_refl.
    - reflexivity.
    - reflexivity.
  Qed.

  (* ---------------- rename_edge_id ---------------- *)
  Lemma rename_list_perm cur new (l : list Z) : NoDup l -> In cur l ->
    Permutation (remove_first cur l ++ [new]) (map (swap_id cur new) l).
  Proof.
    induction l as [|x l IH]; simpl; intros Hnd Hin; [contradiction|]. inversion Hnd; subst.
    unfold swap_id at 1. rewrite (Z.eqb_sym x cur). destruct (cur =? x) eqn:E.
    - apply Z.eqb_eq in E. subst x. rewrite map_id_in.
      + apply Permutation_sym, Permutation_cons_append.
      + intros y Hy. apply swap_id_other. intros ->. contradiction.
    - simpl. apply perm_skip. apply IH; auto. destruct Hin as [->|Hin]; [rewrite Z.eqb_refl in E; discriminate|exact Hin].
  Qed.
  Lemma map_swap_absent cur new (l : list Z) : ~ In cur l -> map (swap_id cur new) l = l.
  Proof. intros H. apply map_id_in. intros y Hy. apply swap_id_other. intros ->. contradiction. Qed.

  Lemma rename_edge_iso (g g' : graph) cur new : WF R g -> rename_edge_id g cur new = Some g' ->
    Iso R (fun x => x) (swap_id cur new) g g'.
  Proof.
    intros W. unfold rename_edge_id.
    destruct (find_edge g cur) as [edge|] eqn:Fe; [|discriminate].
    destruct (has_edge_id g new) eqn:Hn; [discriminate|].
    apply find_edge_Some in Fe. destruct Fe as [Hedge Hcur].
    assert (Hnew : ~ In new (eids R g)).
    { intros Hin. apply (existsb_key (@e_id R)) in Hin. unfold has_edge_id in Hn. congruence. }
    destruct (find_node (remove_edge g cur) (e_from edge)) as [nf|] eqn:Ff; [|discriminate].
    destruct (negb (zmem cur (n_out nf)) || zmem new (remove_first cur (n_out nf))); [discriminate|].
    destruct (find_node (upd_node (remove_edge g cur) (e_from edge) (node_rename_eid cur new 1)) (e_to edge)) as [nt|]; [|discriminate].
    destruct (negb (zmem cur (n_in nt)) || zmem new (remove_first cur (n_in nt))); [discriminate|].
    intros E. inversion E; subst g'; clear E. clear Ff nf nt.
    destruct (split_unique (@e_id R) (g_edges g) edge (wf_eids R g W) Hedge) as [l1 [l2 [Hsplit Hother]]].
    pose proof (wf_ref0 R g W) as [A0 _]. pose proof (wf_ref1 R g W) as [A1 _].
    (* the node dictionary after the two updates *)
    set (U := fun n : gnode =>
           let n1 := if n_id n =? e_from edge then node_rename_eid cur new 1 n else n in
           if n_id n1 =? e_to edge then node_rename_eid cur new 0 n1 else n1).
    assert (Hnodes : g_nodes (upd_node (upd_node (remove_edge g cur) (e_from edge) (node_rename_eid cur new 1))
                                       (e_to edge) (node_rename_eid cur new 0)) = map U (g_nodes g)).
    { unfold upd_node. simpl. rewrite map_map. reflexivity. }
    assert (Hrel : forall n, In n (g_nodes g) -> nrel (fun x => x) (swap_id cur new) n (U n)).
    { intros n Hin.
      pose proof (in_list_iff g n edge 0 W (le_S _ _ (le_n _)) Hin Hedge) as I0.
      pose proof (in_list_iff g n edge 1 W (le_n _) Hin Hedge) as I1.
      pose proof (A0 n Hin) as N0. pose proof (A1 n Hin) as N1.
      cbn [node_eids Nat.sub end_d] in I0, I1, N0, N1. rewrite Hcur in I0, I1.
      unfold U, nrel. cbv zeta.
      assert (Hid1 : n_id (node_rename_eid cur new 1 n) = n_id n) by reflexivity.
      assert (P0 : e_from edge = n_id n -> Permutation (remove_first cur (n_out n) ++ [new]) (map (swap_id cur new) (n_out n))).
      { intros E. apply rename_list_perm; [exact N0|apply I0; exact E]. }
      assert (P1 : e_to edge = n_id n -> Permutation (remove_first cur (n_in n) ++ [new]) (map (swap_id cur new) (n_in n))).
      { intros E. apply rename_list_perm; [exact N1|apply I1; exact E]. }
      assert (Q0 : e_from edge <> n_id n -> Permutation (n_out n) (map (swap_id cur new) (n_out n))).
      { intros E. rewrite map_swap_absent; [apply Permutation_refl|]. intros H. apply I0 in H. contradiction. }
      assert (Q1 : e_to edge <> n_id n -> Permutation (n_in n) (map (swap_id cur new) (n_in n))).
      { intros E. rewrite map_swap_absent; [apply Permutation_refl|]. intros H. apply I1 in H. contradiction. }
      destruct (n_id n =? e_from edge) eqn:E1.
      - rewrite Hid1. apply Z.eqb_eq in E1. destruct (n_id n =? e_to edge) eqn:E2.
        + apply Z.eqb_eq in E2. cbn [node_rename_eid node_add_eid node_remove_eid n_id n_in n_out].
          split; [reflexivity|]. split; [apply P1|apply P0]; congruence.
        + apply Z.eqb_neq in E2. cbn [node_rename_eid node_add_eid node_remove_eid n_id n_in n_out].
          split; [reflexivity|]. split; [apply Q1|apply P0]; congruence.
      - apply Z.eqb_neq in E1. destruct (n_id n =? e_to edge) eqn:E2.
        + apply Z.eqb_eq in E2. cbn [node_rename_eid node_add_eid node_remove_eid n_id n_in n_out].
          split; [reflexivity|]. split; [apply P1|apply Q0]; congruence.
        + apply Z.eqb_neq in E2.
          split; [reflexivity|]. split; [apply Q1|apply Q0]; congruence. }
    constructor; simpl.
    - intros x y _ _ E. exact E.
    - intros x y Hx Hy. apply (swap_id_inj cur new (eids R g)); assumption.
    - unfold nids at 1. simpl. rewrite !map_map. rewrite map_id. unfold nids.
      rewrite (map_ext _ n_id); [apply Permutation_refl|]. intros n.
      destruct (n_id n =? e_from edge); simpl; destruct (_ =? e_to edge); destruct n; reflexivity.
    - intros n Hin. exists (U n). split; [|apply Hrel; exact Hin].
      rewrite map_map. apply in_map_iff. exists n. split; [reflexivity|exact Hin].
    - intros n' Hin. rewrite map_map in Hin. apply in_map_iff in Hin. destruct Hin as [n [<- Hin]].
      exists n. split; [exact Hin|]. apply Hrel; exact Hin.
    - rewrite Hsplit, filter_app. simpl. rewrite Hcur, Z.eqb_refl. simpl.
      assert (Hf : forall l, (forall b, In b l -> e_id b <> cur) ->
                 filter (fun e : gedge => negb (e_id e =? cur)) l = l /\
                 map (ren_edge R (fun x => x) (swap_id cur new)) l = l).
      { intros l Hl. split.
        - apply filter_all. intros x Hx. apply negb_true_iff, Z.eqb_neq. apply Hl. exact Hx.
        - apply map_id_in. intros x Hx. unfold ren_edge. rewrite swap_id_other by (apply Hl; exact Hx).
          destruct x; reflexivity. }
      destruct (Hf l1) as [F1 M1]. { intros b Hb. rewrite <- Hcur. apply Hother. auto. }
      destruct (Hf l2) as [F2 M2]. { intros b Hb. rewrite <- Hcur. apply Hother. auto. }
      rewrite F1, F2, map_app. simpl. rewrite M1, M2. rewrite <- app_assoc. apply Permutation_app_head.
      unfold ren_edge at 1, swap_id at 1. rewrite Hcur, Z.eqb_refl. unfold edge_set_id.
      apply Permutation_sym, Permutation_cons_append.
    - reflexivity.
    - reflexivity.
  Qed.

  (* ---------------- consequences ---------------- *)
  Lemma rename_node_WF (g g' : graph) cur new : WF R g -> rename_node_id g cur new = Some g' -> WF R g'.
  Proof. intros W H. eapply iso_WF; [exact W|]. eapply rename_node_iso; eauto. Qed.
  Lemma rename_node_den (g g' : graph) cur new w : WF R g -> rename_node_id g cur new = Some g' -> den g' w = den g w.
  Proof. intros W H. eapply iso_den; [exact W|]. eapply rename_node_iso; eauto. Qed.
  Lemma rename_edge_WF (g g' : graph) cur new : WF R g -> rename_edge_id g cur new = Some g' -> WF R g'.
  Proof. intros W H. eapply iso_WF; [exact W|]. eapply rename_edge_iso; eauto. Qed.
  Lemma rename_edge_den (g g' : graph) cur new w : WF R g -> rename_edge_id g cur new = Some g' -> den g' w = den g w.
  Proof. intros W H. eapply iso_den; [exact W|]. eapply rename_edge_iso; eauto. Qed.

  (* the renames succeed exactly on the requests the implementation accepts *)
  Lemma rename_node_defined (g : graph) cur new : WF R g -> In cur (nids R g) -> ~ In new (nids R g) ->
    exists g', rename_node_id g cur new = Some g'.
  Proof.
    intros W Hc Hn. unfold rename_node_id.
    destruct (find_node g cur) eqn:F.
    - assert (H : has_node g new = false).
      { destruct (has_node g new) eqn:E; [|reflexivity]. apply (existsb_key n_id) in E. contradiction. }
      rewrite H. eexists. reflexivity.
    - apply (find_key_None n_id) in F. contradiction.
  Qed.
End Rename.
