(* C01 — MPS.orthonormalize(mode='left'): the specification of the model's result. *)
From Coq Require Import ZArith List Bool Lia Arith Ring Field.
From PT Require Import Base.Scalar Base.Field Base.BigSum Base.Mx Model.Tensor Model.BondOps Model.Orthonormalize.
From PT Require Import Proofs.BondOpsPerm Proofs.BondOpsLoop Proofs.BondOpsSpec Proofs.MPSOpsBase Proofs.MPSOpsShape Proofs.MPSOpsMul.
From PT Require Import Proofs.OrthDefs Proofs.OrthQRExtra Proofs.OrthGram Proofs.OrthLocal Proofs.OrthSweep.
Import ListNotations.

Lemma last_map_f {A B} (f : A -> B) l d : last (map f l) (f d) = f (last l d).
Proof. induction l as [|x [|y l] IH]; simpl in *; auto. Qed.

Lemma map_last_ext {A} (f g : A -> A) l : (forall x, f x = g x) -> map_last f l = map_last g l.
Proof. intros H. induction l as [|x [|y l] IH]; simpl in *; [reflexivity|rewrite H; reflexivity|rewrite IH; reflexivity]. Qed.

(* ---------- scaling the last tensor of a chain by a unit scalar ---------- *)
Section ScaleLast.
  Variable R : cring.
  Add Ring Rring_orthtop : (k_rt R).
  Notation mx := (mx R).
  Notation site := (site R).
  Notation rO := (k0 R). Notation rI := (k1 R).
  Infix "*!" := (kmul R) (at level 40, left associativity).
  Notation cj := (kconj R).

  Lemma neg_site_scale (A : site) : neg_site A = scale_site (kopp R rI) A.
  Proof.
    unfold neg_site, scale_site. apply map_ext. intros M. unfold oppmx, scalemx. apply tab_ext. intros; ring.
  Qed.

  Lemma get_scalemx_any c (X : mx) i j : wf X -> get (scalemx c X) i j = c *! get X i j.
  Proof.
    intros HX. destruct (lt_dec i (nr X)) as [Hi|Hi]; [destruct (lt_dec j (nc X)) as [Hj|Hj]|].
    - apply get_scalemx; assumption.
    - unfold scalemx. rewrite get_tab_out by lia. rewrite (get_out R X i j HX) by lia. ring.
    - unfold scalemx. rewrite get_tab_out by lia. rewrite (get_out R X i j HX) by lia. ring.
  Qed.

  Variable d : nat.
  Variable c : R.

  Lemma site_shape_scale Dl Dr (A : site) : site_shape d Dl Dr A = true -> site_shape d Dl Dr (scale_site c A) = true.
  Proof.
    unfold site_shape, scale_site. rewrite !andb_true_iff, map_length, !forallb_forall. intros [Hl H]. split; [exact Hl|].
    intros X HX. apply in_map_iff in HX. destruct HX as (Y & <- & HY). specialize (H Y HY).
    rewrite !andb_true_iff, !Nat.eqb_eq in H. destruct H as [[_ Hr] Hc].
    rewrite nr_scalemx, nc_scalemx, Hr, Hc, !Nat.eqb_refl. unfold scalemx. rewrite wfb_tab. reflexivity.
  Qed.
  Lemma sel_scale (A : site) s : s < length A -> sel (scale_site c A) s = scalemx c (sel A s).
  Proof. intros Hs. unfold scale_site. apply (sel_map R). exact Hs. Qed.

  Lemma site_qsparse_scale qd ql qr (A : site) : length qd = d -> site_shape d (length ql) (length qr) A = true ->
    site_qsparse qd ql qr A = true -> site_qsparse qd ql qr (scale_site c A) = true.
  Proof.
    intros Lqd Hs H. apply site_qsp_qsparse. apply site_qsparse_qsp in H.
    intros s a b Hs' Ha Hb Hnz. apply (H s a b Hs' Ha Hb).
    assert (Hl : length A = d) by (eapply site_shape_length; eauto).
    destruct (site_shape_sel R d _ _ A s Hs ltac:(lia)) as (Hw & Hr & Hc).
    rewrite sel_scale in Hnz by lia. rewrite get_scalemx in Hnz by lia.
    intros E. apply Hnz. rewrite E. ring.
  Qed.

  Hypothesis Hunit : cj c *! c = rI.

  Lemma liso_scale Dl Dr (A : site) : site_shape d Dl Dr A = true -> liso Dl Dr A -> liso Dl Dr (scale_site c A).
  Proof.
    intros Hs H k l Hk Hl. assert (HlA : length A = d) by (eapply site_shape_length; eauto).
    unfold scale_site at 1. rewrite map_length. rewrite <- (H k l Hk Hl).
    apply sumn_ext. intros s Hs'. apply sumn_ext. intros a Ha.
    destruct (site_shape_sel R d _ _ A s Hs ltac:(lia)) as (Hw & Hr & Hc).
    rewrite sel_scale by lia. rewrite !get_scalemx by lia. rewrite kconj_mul.
    transitivity ((cj c *! c) *! (cj (get (sel A s) a k) *! get (sel A s) a l)); [ring|]. rewrite Hunit. ring.
  Qed.

  Lemma chain_shape_map_last Ds (As : list site) :
    chain_shape d Ds As = true -> chain_shape d Ds (map_last (scale_site c) As) = true.
  Proof.
    revert Ds; induction As as [|A [|A2 As] IH]; intros Ds H; [exact H| |].
    - destruct Ds as [|Dl [|Dr Ds]]; simpl in H; try discriminate. simpl.
      apply andb_true_iff in H. destruct H as [H1 H2]. rewrite (site_shape_scale _ _ _ H1). exact H2.
    - destruct Ds as [|Dl [|Dr Ds]]; try (simpl in H; discriminate).
      change (map_last (scale_site c) (A :: A2 :: As)) with (A :: map_last (scale_site c) (A2 :: As)).
      rewrite chain_shape_cons in *. apply andb_true_iff in H. destruct H as [H1 H2].
      rewrite H1. apply IH. exact H2.
  Qed.
  Lemma chain_qsparse_map_last qd qs (As : list site) : length qd = d ->
    chain_shape d (lens qs) As = true ->
    chain_qsparse qd qs As = true -> chain_qsparse qd qs (map_last (scale_site c) As) = true.
  Proof.
    intros Lqd. unfold lens. revert qs; induction As as [|A [|A2 As] IH]; intros qs Hs H; [exact H| |].
    - destruct qs as [|ql [|qr qs]]; simpl in H; try discriminate. simpl.
      apply andb_true_iff in H. destruct H as [H1 H2]. cbn [map] in Hs. rewrite chain_shape_cons in Hs.
      apply andb_true_iff in Hs. destruct Hs as [Hs1 _].
      rewrite (site_qsparse_scale qd ql qr A Lqd Hs1 H1). exact H2.
    - destruct qs as [|ql [|qr qs]]; try (simpl in H; discriminate).
      change (map_last (scale_site c) (A :: A2 :: As)) with (A :: map_last (scale_site c) (A2 :: As)).
      rewrite (chain_qsparse_cons R) in *. apply andb_true_iff in H. destruct H as [H1 H2].
      cbn [map] in Hs. rewrite chain_shape_cons in Hs. apply andb_true_iff in Hs. destruct Hs as [_ Hs2].
      rewrite H1. apply IH; assumption.
  Qed.
  Lemma chain_liso_map_last Ds (As : list site) :
    chain_shape d Ds As = true -> chain_liso Ds As -> chain_liso Ds (map_last (scale_site c) As).
  Proof.
    revert Ds; induction As as [|A [|A2 As] IH]; intros Ds Hs H; [exact H| |].
    - destruct Ds as [|Dl [|Dr Ds]]; simpl in *; try exact I.
      apply andb_true_iff in Hs. destruct Hs as [Hs1 _]. destruct H as [H1 H2]. split; [|exact H2].
      apply liso_scale; assumption.
    - destruct Ds as [|Dl [|Dr Ds]]; try exact I.
      change (map_last (scale_site c) (A :: A2 :: As)) with (A :: map_last (scale_site c) (A2 :: As)).
      rewrite chain_shape_cons in Hs. apply andb_true_iff in Hs. destruct Hs as [_ Hs2].
      destruct H as [H1 H2]. split; [exact H1|]. apply IH; assumption.
  Qed.
  Lemma length_map_last {A} (f : A -> A) l : length (map_last f l) = length l.
  Proof. induction l as [|x [|y l] IH]; simpl in *; auto. Qed.
End ScaleLast.

Section ScaleLastAmp.
  Variable R : cring.
  Notation mx := (mx R).
  Notation site := (site R).

  Lemma mprod_map_last d c : forall (As : list site) Ds w n, chain_shape d Ds As = true ->
    length w = length As -> letters d w -> As <> [] ->
    mprod n (pick (map_last (scale_site c) As) w) = scalemx c (mprod n (pick As w)).
  Proof.
    induction As as [|A [|A2 As] IH]; intros Ds w n Hs Hl Hw Hne; [congruence| |].
    - destruct w as [|s [|? ?]]; simpl in Hl; try discriminate.
      destruct Ds as [|Dl [|Dr Ds]]; simpl in Hs; try discriminate. apply andb_true_iff in Hs. destruct Hs as [Hs _].
      assert (Hs' := Forall_inv Hw). cbv beta in Hs'. assert (HlA : length A = d) by (eapply site_shape_length; eauto).
      simpl. rewrite sel_scale by lia. rewrite nc_scalemx. apply mulmx_scalemx_l.
    - destruct w as [|s w]; simpl in Hl; try discriminate.
      destruct Ds as [|Dl [|Dr Ds]]; try (simpl in Hs; discriminate).
      rewrite chain_shape_cons in Hs. apply andb_true_iff in Hs. destruct Hs as [Hs1 Hs2].
      assert (Hs' := Forall_inv Hw). cbv beta in Hs'. assert (Hw' := Forall_inv_tail Hw).
      change (map_last (scale_site c) (A :: A2 :: As)) with (A :: map_last (scale_site c) (A2 :: As)).
      change (mprod n (pick (A :: map_last (scale_site c) (A2 :: As)) (s :: w)))
        with (mulmx (sel A s) (mprod (nc (sel A s)) (pick (map_last (scale_site c) (A2 :: As)) w))).
      rewrite (IH (Dr :: Ds) w (nc (sel A s)) Hs2 ltac:(simpl in *; lia) Hw' ltac:(discriminate)).
      change (mprod n (pick (A :: A2 :: As) (s :: w))) with (mulmx (sel A s) (mprod (nc (sel A s)) (pick (A2 :: As) w))).
      apply mulmx_scalemx_r.
      destruct (site_shape_sel R d Dl Dr A s Hs1 Hs') as (_ & _ & Hc). rewrite Hc.
      change Dr with (hd 0 (Dr :: Ds)). symmetry. apply (nr_mprod_pick R d); assumption.
  Qed.
End ScaleLastAmp.

(* ---------- the theorem over Cx F ---------- *)
Section Top.
  Variable F : ofield.
  Add Field Ffield_orthtop : (f_ft F).
  Notation CF := (Cx F).
  Add Ring CFring_orthtop : (k_rt CF).
  Notation mx := (mx CF).
  Notation site := (site CF).
  Infix "*!" := (kmul CF) (at level 40, left associativity).
  Notation cj := (kconj CF).

  Lemma cx_real_eq (z : CF) : cim z = f0 F -> z = cof (cre z).
  Proof. destruct z as [x y]. unfold cim, cre, cof. simpl. intros ->. reflexivity. Qed.
  Lemma cof_opp (a : F) : cof (fopp F a) = kopp CF (cof a).
  Proof. unfold cof. simpl. unfold copp. simpl. apply injective_projections; simpl; ring. Qed.
  Lemma cof_mul (a b : F) : cof (fmul F a b) = cof a *! cof b.
  Proof. unfold cof. simpl. unfold cmul. simpl. apply injective_projections; simpl; ring. Qed.
  Lemma cj_cof (a : F) : cj (cof a) = cof a.
  Proof. unfold cof. simpl. unfold cconj. simpl. apply injective_projections; simpl; ring. Qed.
  Lemma neg_one_unit : cj (kopp CF (k1 CF)) *! kopp CF (k1 CF) = k1 CF.
  Proof. rewrite kconj_opp, kconj_1. ring. Qed.

  Variable dqr : mx -> mx * mx.

  Definition qr_call_ok (B : mx) : Prop := dqr_ok CF B (dqr B) /\ rdiag_real F (dqr B).

  Lemma amp_of_mprod (As Bs : list site) w (t : CF) :
    mprod 1 (pick As w) = scalemx t (mprod 1 (pick Bs w)) -> amp As w = t *! amp Bs w.
  Proof. intros E. unfold amp. rewrite E. apply get_scalemx_any. apply wf_mprod. Qed.

  Lemma norm2_scaled d (As Bs : list site) (a : F) : length As = length Bs ->
    (forall w, length w = length As -> letters d w -> amp As w = cof a *! amp Bs w) ->
    norm2 d As = cof (fmul F a a) *! norm2 d Bs.
  Proof.
    intros Hl H. unfold norm2. rewrite <- suml_scal_l. rewrite Hl. apply suml_ext. intros w Hw.
    apply words_ok in Hw. destruct Hw as [Hw1 Hw2]. rewrite H by (try congruence; exact Hw2).
    rewrite kconj_mul, cj_cof, cof_mul. ring.
  Qed.

  Theorem orth_left_spec (p : mps CF) (d : nat) :
    1 <= d -> length (m_qd p) = d -> m_A p <> [] -> mps_ok p = true ->
    length (hd [] (m_qD p)) = 1 -> length (last (m_qD p) []) = 1 ->
    Forall (fun q => 1 <= length q) (m_qD p) ->
    Forall qr_call_ok (mps_orth_calls dqr true p) ->
    exists p' nrm, mps_orthonormalize dqr true p = Some (p', nrm) /\
      m_qd p' = m_qd p /\ length (m_A p') = length (m_A p) /\
      mps_ok p' = true /\
      hd [] (m_qD p') = hd [] (m_qD p) /\ length (last (m_qD p') []) = 1 /\
      Forall (fun q => 1 <= length q) (m_qD p') /\
      bond_bound d (lens (m_qD p')) (lens (m_qD p)) /\
      chain_liso (lens (m_qD p')) (m_A p') /\
      fle F (f0 F) nrm /\
      (forall w, length w = length (m_A p) -> letters d w -> amp (m_A p) w = cof nrm *! amp (m_A p') w) /\
      norm2 d (m_A p) = cof (fmul F nrm nrm) /\
      norm2 d (m_A p') = k1 CF.
  Proof.
    intros Hd Lqd Hne Hok Hfirst Hlast Hpos Hcalls.
    destruct p as [qd qDs As]. cbn [m_qd m_qD m_A] in *.
    destruct As as [|A0 rest]; [congruence|].
    unfold mps_ok in Hok. cbn [m_qd m_qD m_A] in Hok. rewrite Lqd in Hok.
    apply andb_true_iff in Hok. destruct Hok as [Hshape Hsparse].
    destruct qDs as [|q0 qrest]; [simpl in Hshape; discriminate|].
    cbn [hd] in Hfirst.
    assert (Hlast' : length (last qrest q0) = 1).
    { destruct qrest as [|q1 qrest]; [exact Hfirst|]. rewrite (last_irrel q1 qrest q0 []). exact Hlast. }
    unfold mps_orth_calls, orth_core_calls in Hcalls. cbn [m_qd m_qD m_A] in Hcalls.
    destruct (sweepL_ok CF dqr d qd Hd Lqd (fun _ r => rdiag_real F r) (fun z => cim z = f0 F)
                (block_qr_col_real F dqr) rest A0 q0 qrest Hshape Hsparse Hpos Hlast' Hcalls)
      as (As & qs & T & ES & H111 & Hreal & HlAs & HsAs & HqAs & HpAs & HlastAs & Hbb & Hiso & Hamp).
    set (t := get (sel T 0) 0 0) in *.
    assert (Et : t = cof (cre t)) by (apply cx_real_eq; exact Hreal).
    assert (HlastAs' : length (last (q0 :: qs) []) = 1).
    { destruct qs as [|q1 qs]; [exact HlastAs|]. change (length (last (q1 :: qs) []) = 1). rewrite (last_irrel q1 qs [] q0). exact HlastAs. }
    assert (Hhd : hd 0 (lens (q0 :: qs)) = 1) by exact Hfirst.
    assert (Hlst : last (lens (q0 :: qs)) 0 = 1).
    { unfold lens. rewrite <- HlastAs'. change 0 with (length (@nil Z)). apply (last_map_f (@length Z)). }
    unfold mps_orthonormalize, orth_core. cbn [m_qd m_qD m_A]. rewrite ES, H111. fold t.
    destruct (fltb F (cre t) (f0 F)) eqn:Eneg.
    - (* sign flip *)
      eexists. eexists. split; [reflexivity|]. cbn [m_qd m_qD m_A].
      rewrite (map_last_ext _ _ As (neg_site_scale CF)).
      assert (Hsh : chain_shape d (lens (q0 :: qs)) (map_last (scale_site (kopp CF (k1 CF))) As) = true)
        by (apply chain_shape_map_last; exact HsAs).
      assert (Hli : chain_liso (lens (q0 :: qs)) (map_last (scale_site (kopp CF (k1 CF))) As))
        by (apply (chain_liso_map_last CF d); [exact neg_one_unit|exact HsAs|exact Hiso]).
      assert (Hampn : forall w, length w = length (A0 :: rest) -> letters d w ->
                amp (A0 :: rest) w = cof (fopp F (cre t)) *! amp (map_last (scale_site (kopp CF (k1 CF))) As) w).
      { intros w Hlw Hw. rewrite (amp_of_mprod _ _ _ _ (Hamp w ltac:(simpl in *; lia) Hw)).
        assert (E2 : mprod 1 (pick (map_last (scale_site (kopp CF (k1 CF))) As) w) = scalemx (kopp CF (k1 CF)) (mprod 1 (pick As w))).
        { apply (mprod_map_last CF d _ As (lens (q0 :: qs))); try assumption; [simpl in *; lia|].
          intros ->. simpl in HlAs. discriminate. }
        unfold amp at 2. rewrite E2. rewrite get_scalemx_any by apply wf_mprod. fold (amp As w).
        rewrite cof_opp. rewrite Et at 1. ring. }
      split; [reflexivity|]. split; [rewrite length_map_last; simpl; lia|].
      split. { unfold mps_ok. cbn [m_qd m_qD m_A]. rewrite Lqd. fold (lens (q0 :: qs)). rewrite Hsh.
               rewrite (chain_qsparse_map_last CF d); auto. }
      split; [reflexivity|]. split; [exact HlastAs'|]. split; [exact HpAs|]. split; [exact Hbb|]. split; [exact Hli|].
      split. { apply fle_opp'. unfold fltb in Eneg. apply negb_true_iff in Eneg.
               destruct (fle_total F (cre t) (f0 F)) as [H|H]; [exact H|congruence]. }
      split; [exact Hampn|].
      assert (Hn1 : norm2 d (map_last (scale_site (kopp CF (k1 CF))) As) = k1 CF)
        by (apply (liso_chain_norm CF d (lens (q0 :: qs))); assumption).
      split; [|exact Hn1].
      rewrite (norm2_scaled d (A0 :: rest) (map_last (scale_site (kopp CF (k1 CF))) As) (fopp F (cre t))).
      + rewrite Hn1. ring.
      + rewrite length_map_last. simpl in *. lia.
      + exact Hampn.
    - eexists. eexists. split; [reflexivity|]. cbn [m_qd m_qD m_A].
      assert (Hampn : forall w, length w = length (A0 :: rest) -> letters d w ->
                amp (A0 :: rest) w = cof (cre t) *! amp As w).
      { intros w Hlw Hw. rewrite (amp_of_mprod _ _ _ _ (Hamp w ltac:(simpl in *; lia) Hw)). rewrite Et at 1. reflexivity. }
      split; [reflexivity|]. split; [simpl; lia|].
      split. { unfold mps_ok. cbn [m_qd m_qD m_A]. rewrite Lqd. fold (lens (q0 :: qs)). rewrite HsAs, HqAs. reflexivity. }
      split; [reflexivity|]. split; [exact HlastAs'|]. split; [exact HpAs|]. split; [exact Hbb|]. split; [exact Hiso|].
      split. { unfold fltb in Eneg. apply negb_false_iff in Eneg. exact Eneg. }
      split; [exact Hampn|].
      assert (Hn1 : norm2 d As = k1 CF) by (apply (liso_chain_norm CF d (lens (q0 :: qs))); assumption).
      split; [|exact Hn1].
      rewrite (norm2_scaled d (A0 :: rest) As (cre t)).
      + rewrite Hn1. ring.
      + simpl in *. lia.
      + exact Hampn.
  Qed.
End Top.
