(* C09 — non-vacuity of the reversibility theorem: a concrete rational instance (L = 2, d = 2, bond dimension 2) on which every
   hypothesis of [tdvp1_reversible] holds, with NON-TRIVIAL local solvers:
     kexp(t) A = A + t * (N A),  N = sigma^+ acting on the physical index (N^2 = 0: an exact flow for every t, homogeneous,
     acts on the physical leg only, hence covariant under every bond gauge -- proved below for every cring);
     kexp0 = identity;  QR oracle: Q = identity, R = the (square, invertible) matrix itself;
     orth oracle: divides the first tensor by 2 and reports 2.
   The contracts (a), (b) are proved for all arguments; the per-call contracts (c) are evaluated by the kernel on the two
   recorded traces (boolean checkers below). *)
From Coq Require Import ZArith QArith Qcanon List Bool Lia Ring.
From PT Require Import Base.Scalar Base.BigSum Base.Mx Model.Tensor Model.Operation Model.Sweeps
  Proofs.OperationEntries Proofs.SweepsCanon Proofs.SweepsGauge Proofs.SweepsCheck
  Proofs.ReverseDefs Proofs.ReverseMx Proofs.ReverseGauge Proofs.ReverseQR Proofs.ReverseFwd Proofs.ReverseTop.
Import ListNotations.
Open Scope nat_scope.

Section ExOracle.
  Variable R : cring.
  Add Ring Rring_reverse_ex : (k_rt R).
  Notation mx := (mx R).

  Definition kexp_ex : kexp_t R :=
    fun _ _ _ _ A t => match A with [A0; A1] => [addmx A0 (scalemx t A1); A1] | _ => A end.
  Definition kexp0_ex : kexp0_t R := fun _ _ _ C _ => C.

  Lemma wsite2_inv Dl Dr (A : site R) : wsite 2 Dl Dr A -> exists A0 A1, A = [A0; A1] /\ wmx Dl Dr A0 /\ wmx Dl Dr A1.
  Proof.
    intros [Hl H]. destruct A as [|A0 [|A1 [|? ?]]]; cbn [length] in Hl; try discriminate.
    exists A0, A1. inversion H as [|? ? H0 H']; subst. inversion H' as [|? ? H1 _]; subst. auto.
  Qed.
  Lemma wsite2_mk Dl Dr (A0 A1 : mx) : wmx Dl Dr A0 -> wmx Dl Dr A1 -> wsite 2 Dl Dr [A0; A1].
  Proof. intros H0 H1. split; [reflexivity|]. constructor; [exact H0|]. constructor; [exact H1|]. constructor. Qed.

  Lemma lin_ext (A B : mx) m n : wmx m n A -> wmx m n B -> (forall i j, i < m -> j < n -> get A i j = get B i j) -> A = B.
  Proof. intros (a0 & a1 & a2) (b0 & b1 & b2) H. apply mx_ext; try assumption; try congruence. intros i j Hi Hj. apply H; lia. Qed.
  Lemma wmx_addmx m n (A B : mx) : wmx m n A -> wmx m n (addmx A B).
  Proof. intros (a0 & a1 & a2). split; [apply wf_addmx|]. rewrite nr_addmx, nc_addmx. auto. Qed.

  Lemma kexp_ex_flow : kexp_flow 2 kexp_ex.
  Proof.
    split; [|split; [|split]].
    - intros p BL BR W A t Dl Dr HA. destruct (wsite2_inv Dl Dr A HA) as (A0 & A1 & -> & H0 & H1). cbn.
      apply wsite2_mk; [apply wmx_addmx; exact H0|exact H1].
    - intros p BL BR W A Dl Dr HA. destruct (wsite2_inv Dl Dr A HA) as (A0 & A1 & -> & H0 & H1). cbn. f_equal.
      apply (lin_ext _ _ Dl Dr); [apply wmx_addmx; exact H0|exact H0|]. destruct H0 as (a0 & a1 & a2). destruct H1 as (b0 & b1 & b2).
      intros i j Hi Hj. rewrite get_addmx, get_scalemx by lia. ring.
    - intros p p' p'' BL BR W A s t Dl Dr HA. destruct (wsite2_inv Dl Dr A HA) as (A0 & A1 & -> & H0 & H1). cbn. f_equal.
      apply (lin_ext _ _ Dl Dr); [apply wmx_addmx; apply wmx_addmx; exact H0|apply wmx_addmx; exact H0|].
      destruct H0 as (a0 & a1 & a2). destruct H1 as (b0 & b1 & b2).
      intros i j Hi Hj. rewrite !get_addmx, !get_scalemx by (rewrite ?nr_addmx, ?nc_addmx; lia). ring.
    - intros p p' BL BR W A t c Dl Dr HA. destruct (wsite2_inv Dl Dr A HA) as (A0 & A1 & -> & H0 & H1). cbn. f_equal.
      apply (lin_ext _ _ Dl Dr); [apply wmx_addmx; apply wmx_scalemx; exact H0|apply wmx_scalemx; apply wmx_addmx; exact H0|].
      destruct H0 as (a0 & a1 & a2). destruct H1 as (b0 & b1 & b2).
      intros i j Hi Hj. rewrite !get_addmx, !get_scalemx, get_addmx, get_scalemx by (rewrite ?nr_addmx, ?nc_addmx, ?nr_scalemx, ?nc_scalemx; lia). ring.
  Qed.
  Lemma kexp0_ex_flow : kexp0_flow kexp0_ex.
  Proof. unfold kexp0_ex. split; [|split; [|split]]; intros; auto. Qed.

  Lemma kexp_ex_cov : kexp_covariant 2 kexp_ex.
  Proof.
    intros p p' BL BR W A t Dl Dr Dwl Dwr Gl Gr HA _ _ ((l0 & l1 & l2) & _) ((r0 & r1 & r2) & _).
    destruct (wsite2_inv Dl Dr A HA) as (A0 & A1 & -> & (a0 & a1 & a2) & (b0 & b1 & b2)). cbn. f_equal.
    unfold gmx. rewrite mulmx_addmx_r by shp. rewrite mulmx_addmx_l by shp. f_equal.
    rewrite mulmx_scalemx_r by shp. symmetry. apply mulmx_scalemx_l.
  Qed.
  Lemma kexp0_ex_cov : kexp0_covariant kexp0_ex.
  Proof. intros p p' BL BR C t Dl Dr Dw Gl Gr _ _ _ _ _. reflexivity. Qed.

  (* boolean shape checks *)
  Lemma site_shape_w d Dl Dr (A : site R) : site_shape d Dl Dr A = true -> wsite d Dl Dr A.
  Proof.
    unfold site_shape. rewrite andb_true_iff, Nat.eqb_eq, forallb_forall. intros [Hl H]. split; [exact Hl|].
    apply Forall_forall. intros M HM. specialize (H M HM). rewrite !andb_true_iff, !Nat.eqb_eq in H. destruct H as [[H1 H2] H3].
    split; [apply wfb_wf; exact H1|auto].
  Qed.
  Lemma site_eqb_ok (A B : site R) : forallb (@wfb R) A = true -> forallb (@wfb R) B = true -> site_eqb A B = true -> A = B.
  Proof.
    revert B. induction A as [|M A IH]; intros [|N B] HA HB H; cbn in *; try discriminate; [reflexivity|].
    rewrite !andb_true_iff in *. destruct HA as [a1 a2]. destruct HB as [b1 b2]. destruct H as [h1 h2].
    f_equal; [apply mxeqb_true; try apply wfb_wf; assumption|apply IH; assumption].
  Qed.
End ExOracle.

(* ---------------- the rational instance ---------------- *)
Definition xq (n : Z) (dn : positive) : Qcring := Q2Qc (n # dn).
Definition xm (m n : nat) (rows : list (list Qc)) : mx Qcring := @mkmx Qcring m n rows.
Definition xA0 : site Qcring := [xm 1 2 [[xq 1 1; xq 2 1]]; xm 1 2 [[xq 0 1; xq 1 1]]].
Definition xA1 : site Qcring := [xm 2 1 [[xq 1 1]; [xq 0 1]]; xm 2 1 [[xq 0 1]; [xq 1 1]]].
Definition xm12 (a b : Z) : mx Qcring := xm 1 2 [[xq a 1; xq b 1]].
Definition xm21 (a b : Z) : mx Qcring := xm 2 1 [[xq a 1]; [xq b 1]].
Definition xW0 : osite Qcring := [[xm12 1 0; xm12 0 1]; [xm12 0 1; xm12 (-1) 0]].
Definition xW1 : osite Qcring := [[xm21 1 1; xm21 0 0]; [xm21 0 0; xm21 (-1) 1]].
Definition xH : mpo Qcring := mkmpo [0; 0]%Z [[0]; [0; 0]; [0]]%Z [xW0; xW1].
Definition xPsi : mps Qcring := mkmps [0; 0]%Z [[0]; [0; 0]; [0]]%Z [xA0; xA1].
Definition xdt : Qcring := xq 1 3.
Definition xhdt : Qcring := xq 1 6.
Definition xDs (j : nat) : nat := if Nat.eqb j 1 then 2 else 1.

Definition x_orth (psi : mps Qcring) : mps Qcring * Qcring :=
  (mkmps (m_qd psi) (m_qD psi) (match m_A psi with A0 :: rest => scale_site (xq 1 2) A0 :: rest | [] => [] end), xq 2 1).
Definition x_qr (_ : nat) (M : mx Qcring) (_ q1 : list Z) : mx Qcring * mx Qcring * list Z := (idmx (nr M), M, q1).

(* inverse of a 2 x 2 rational matrix and the boolean per-call contracts *)
Definition inv2 (C : mx Qcring) : mx Qcring :=
  let a := get C 0 0 in let b := get C 0 1 in let c := get C 1 0 in let e := get C 1 1 in
  let di := Qcinv (Qcminus (Qcmult a e) (Qcmult b c)) in
  @tab Qcring 2 2 (fun i j => match i, j with
                      | 0, 0 => Qcmult e di | 0, _ => Qcmult (Qcopp b) di
                      | _, 0 => Qcmult (Qcopp c) di | _, _ => Qcmult a di end).
Definition wmxb (m n : nat) (M : mx Qcring) : bool := wfb M && Nat.eqb (nr M) m && Nat.eqb (nc M) n.
Definition inv2b (C : mx Qcring) : bool :=
  wmxb 2 2 C && mxeqb (mulmx C (inv2 C)) (idmx 2) && mxeqb (mulmx (inv2 C) C) (idmx 2).
Lemma wmxb_ok m n M : wmxb m n M = true -> wmx m n M.
Proof. unfold wmxb. rewrite !andb_true_iff, !Nat.eqb_eq. intros [[H1 H2] H3]. split; [apply wfb_wf; exact H1|auto]. Qed.
Lemma inv2b_ok C : inv2b C = true -> invertible 2 C.
Proof.
  unfold inv2b. rewrite !andb_true_iff. intros [[H1 H2] H3]. split; [apply wmxb_ok; exact H1|].
  exists (inv2 C). split; [split; [apply wf_tab|split; reflexivity]|].
  split; apply mxeqb_true; try apply wf_mulmx; try apply wf_idmx; assumption.
Qed.

Definition x_call_okb (kb : bool) (dt hdt : Qcring) (p : nat) (t : tcall Qcring) : bool :=
  match c_kind (t_call t), t_envs t, t_ten t, t_qs t with
  | QR, _, [[M]], [q0; q1] =>
      let ans := x_qr p M q0 q1 in
      qr_okb M ans && wfb (fst (fst ans)) && wfb (snd (fst ans)) && Nat.eqb (nc M) 2 && inv2b (snd (fst ans))
  | KB, [BL; BR], [[C]], _ => if kb then Nat.eqb (nr C) 2 && inv2b (kexp0_ex Qcring p BL BR C (tval dt hdt (c_coef (t_call t)))) else true
  | _, _, _, _ => true
  end.
Fixpoint x_tr_okb (kb : bool) (dt hdt : Qcring) (tr : list (tcall Qcring)) : bool :=
  match tr with [] => true | t :: rest => x_call_okb kb dt hdt (length rest) t && x_tr_okb kb dt hdt rest end.
Lemma x_tr_okb_ok kb dt hdt tr : x_tr_okb kb dt hdt tr = true -> rev_tr_ok x_qr (kexp0_ex Qcring) kb dt hdt tr.
Proof.
  induction tr as [|t rest IH]; [intros _; exact I|]. cbn [x_tr_okb rev_tr_ok]. rewrite andb_true_iff. intros [H1 H2].
  split; [|exact (IH H2)]. clear IH H2. unfold rev_call_ok, x_call_okb in *.
  destruct t as [[k i c] envs ten qs]. cbn [t_call c_kind c_site c_coef t_envs t_ten t_qs] in *.
  destruct k; try exact I.
  - destruct envs as [|BL [|BR [|? ?]]]; try exact I. destruct ten as [|[|C [|? ?]] [|? ?]]; try exact I.
    destruct kb; [|exact I]. rewrite andb_true_iff, Nat.eqb_eq in H1. destruct H1 as [E H1]. rewrite E. apply inv2b_ok. exact H1.
  - destruct ten as [|[|M [|? ?]] [|? ?]]; try exact I. destruct qs as [|q0 [|q1 [|? ?]]]; try exact I.
    rewrite !andb_true_iff, Nat.eqb_eq in H1. destruct H1 as [[[[h1 h2] h3] h4] h5].
    split; [apply qr_okb_ok; exact h1|]. split; [apply wfb_wf; exact h2|]. split; [apply wfb_wf; exact h3|].
    rewrite h4. apply inv2b_ok. exact h5.
Qed.

(* ---------------- the two runs ---------------- *)
Definition x_res := tdvp_result Qcring.
Definition rA (o : option x_res) : list (site Qcring) := match o with Some (A, _, _, _) => A | None => [] end.
Definition rq (o : option x_res) : list (list Z) := match o with Some (_, q, _, _) => q | None => [] end.
Definition rn (o : option x_res) : Qcring := match o with Some (_, _, n, _) => n | None => k0 Qcring end.
Definition rt (o : option x_res) : list (tcall Qcring) := match o with Some (_, _, _, t) => t | None => [] end.
Definition is_some {T} (o : option T) : bool := match o with Some _ => true | None => false end.
Lemma some_proj (o : option x_res) : is_some o = true -> o = Some (rA o, rq o, rn o, rt o).
Proof. destruct o as [[[[A q] n] t]|]; [reflexivity|discriminate]. Qed.

Definition x_steps : nat := 2.
Definition x_run1 : option x_res := tdvp_singlesite x_orth x_qr (kexp_ex Qcring) (kexp0_ex Qcring) xH xPsi xdt xhdt x_steps.
Definition x_psi1 : mps Qcring := mkmps (m_qd xPsi) (rq x_run1) (rA x_run1).
Definition x_run2 : option x_res :=
  tdvp_singlesite x_orth x_qr (kexp_ex Qcring) (kexp0_ex Qcring) xH x_psi1 (kopp Qcring xdt) (kopp Qcring xhdt) x_steps.

Lemma x_run1_some : is_some x_run1 = true. Proof. vm_compute. reflexivity. Qed.
Lemma x_run2_some : is_some x_run2 = true. Proof. vm_compute. reflexivity. Qed.
Lemma x_tr1_ok : x_tr_okb true xdt xhdt (rev (rt x_run1)) = true. Proof. vm_compute. reflexivity. Qed.
Lemma x_tr2_ok : x_tr_okb false (kopp Qcring xdt) (kopp Qcring xhdt) (rev (rt x_run2)) = true. Proof. vm_compute. reflexivity. Qed.

(* the runs are not trivial: the state after the first call differs from the start, the second call reports 2, and the
   conclusion of the theorem is what the kernel computes *)
Definition amps (A : list (site Qcring)) : list Qcring := map (amp A) (words 2 2).
Lemma x_nontrivial :
  negb (list_eqb (keqb Qcring) (amps (rA x_run1)) (amps (m_A (fst (x_orth xPsi))))) &&
  list_eqb (keqb Qcring) (amps (m_A (fst (x_orth xPsi)))) (map (kmul Qcring (rn x_run2)) (amps (rA x_run2))) &&
  keqb Qcring (rn x_run2) (xq 2 1) && Nat.eqb (length (rt x_run1)) 18 = true.
Proof. vm_compute. reflexivity. Qed.

Lemma x_shapes :
  forallb (fun j => site_shape 2 (xDs j) (xDs (S j)) (nth j (m_A (fst (x_orth xPsi))) [])) [0; 1] &&
  right_isob (nth 1 (m_A (fst (x_orth xPsi))) []) &&
  osite_shape 2 1 2 xW0 && osite_shape 2 2 1 xW1 = true.
Proof. vm_compute. reflexivity. Qed.

(* the second call's orthonormalize on the (right-canonical) result of the first call: trivial gauge, factor 1/2 *)
Lemma x_regauge_b :
  Nat.eqb (length (m_A (fst (x_orth x_psi1)))) 2 &&
  site_eqb (nth 0 (m_A (fst (x_orth x_psi1))) []) (scale_site (xq 1 2) (gsite (idmx 1) (idmx 2) (nth 0 (rA x_run1) []))) &&
  site_eqb (nth 1 (m_A (fst (x_orth x_psi1))) []) (gsite (idmx 2) (idmx 1) (nth 1 (rA x_run1) [])) &&
  forallb (fun j => forallb (@wfb Qcring) (nth j (m_A (fst (x_orth x_psi1))) [])) [0; 1] &&
  forallb (@wfb Qcring) (scale_site (xq 1 2) (gsite (idmx 1) (idmx 2) (nth 0 (rA x_run1) []))) &&
  forallb (@wfb Qcring) (gsite (idmx 2) (idmx 1) (nth 1 (rA x_run1) [])) &&
  keqb Qcring (kmul Qcring (snd (x_orth x_psi1)) (xq 1 2)) (k1 Qcring) = true.
Proof. vm_compute. reflexivity. Qed.

Lemma x_run2_unfold : x_run2 = tdvp_singlesite x_orth x_qr (kexp_ex Qcring) (kexp0_ex Qcring) xH
  (mkmps (m_qd xPsi) (rq x_run1) (rA x_run1)) (kopp Qcring xdt) (kopp Qcring xhdt) x_steps.
Proof. unfold x_run2, x_psi1. reflexivity. Qed.
Lemma x_run2_eq : tdvp_singlesite x_orth x_qr (kexp_ex Qcring) (kexp0_ex Qcring) xH
  (mkmps (m_qd xPsi) (rq x_run1) (rA x_run1)) (kopp Qcring xdt) (kopp Qcring xhdt) x_steps
  = Some (rA x_run2, rq x_run2, rn x_run2, rt x_run2).
Proof. rewrite <- x_run2_unfold. apply some_proj. exact x_run2_some. Qed.

Theorem x_reversible :
  rn x_run2 = snd (x_orth x_psi1) /\
  forall w, In w (words 2 2) -> amp (m_A (fst (x_orth xPsi))) w = kmul Qcring (rn x_run2) (amp (rA x_run2) w).
Proof.
  pose proof x_shapes as Hs. rewrite !andb_true_iff in Hs. destruct Hs as [[[s1 s2] s3] s4].
  cbn [forallb] in s1. rewrite !andb_true_iff in s1. destruct s1 as (s10 & s11 & _).
  pose proof x_regauge_b as Hg. rewrite !andb_true_iff in Hg. destruct Hg as [[[[[[g1 g2] g3] g4] g5] g6] g7].
  cbn [forallb] in g4. rewrite !andb_true_iff in g4. destruct g4 as (g40 & g41 & _).
  apply (tdvp1_reversible Qcring x_orth x_qr (kexp_ex Qcring) (kexp0_ex Qcring) xH xPsi xdt xhdt x_steps 2 xDs xDs
           (rA x_run1) (rq x_run1) (rn x_run1) (rt x_run1) (rA x_run2) (rq x_run2) (rn x_run2) (rt x_run2)).
  - exact (some_proj x_run1 x_run1_some).
  - exact x_run2_eq.
  - lia.
  - intros j Hj. cbn [xH o_A length] in Hj. destruct j as [|[|j]]; [exact (osite_shape_ok Qcring 2 1 2 xW0 s3)|exact (osite_shape_ok Qcring 2 2 1 xW1 s4)|lia].
  - intros j. unfold xDs. destruct (Nat.eqb j 1); lia.
  - reflexivity. - reflexivity. - reflexivity. - reflexivity.
  - apply kexp_ex_flow. - apply kexp0_ex_flow. - apply kexp_ex_cov. - apply kexp0_ex_cov.
  - intros j Hj. cbn [xH o_A length] in Hj. destruct j as [|[|j]]; [exact (site_shape_w Qcring 2 1 2 _ s10)|exact (site_shape_w Qcring 2 2 1 _ s11)|lia].
  - intros j Hj. cbn [xH o_A length] in Hj. assert (j = 1) by lia. subst j. exact (right_isob_ok Qcring _ s2).
  - exact (x_tr_okb_ok true xdt xhdt _ x_tr1_ok).
  - exact (x_tr_okb_ok false _ _ _ x_tr2_ok).
  - exists (fun j => idmx (xDs j)), (xq 1 2).
    split; [apply keqb_spec; exact g7|]. split; [reflexivity|]. split; [reflexivity|].
    split; [intros j _; apply unitary_idmx|]. split; [apply Nat.eqb_eq; exact g1|].
    intros j Hj. cbn [xH o_A length] in Hj. destruct j as [|[|j]]; [exact (site_eqb_ok Qcring _ _ g40 g5 g2)|exact (site_eqb_ok Qcring _ _ g41 g6 g3)|lia].
Qed.
