(* C02, round 4 (2): the boundary (total) bond charges qD[0], qD[L] through TWO-SITE DMRG WITH A TRUNCATING SPLIT (tol_split > 0).

   Proofs/Hist3Charge.v (dmrg_total_charge_kept) runs C02's sparsity invariant side by side with C10's invariant "mixed
   canonical AND norm one", whose split contract is the exact split (tol = 0): a truncating split lowers the norm.  What the
   argument really needs of the norm is that it is NOT ZERO when the closing QR of a sweep rebinds qD[0] (a non-zero centre
   tensor A[0] has a non-zero entry, so R of A[0]^T = Q R is a non-zero 1 x 1 matrix, block sparse under (qbond, -qD[0])).
   So the invariant here is "mixed canonical (Z / Z2 of C10) and NN <> 0", kept under the WEAK contracts
       EIG2     the Ritz vector has the shape of the start tensor and is not zero            [keig_nz]  (it is normalised)
       SPLIT    on a non-zero tensor: shapes chain, the factor that did not receive the singular values is an isometry (columns
                of U / rows of V^H that were kept), and the product of the two factors is not zero [split_nz]
                -- i.e. at least one non-zero singular value is kept, which retained_bond_indices guarantees for tol < 1
                (C12: discarded weight <= tol * total; Proofs/Hist4SplitNz.v derives the contract for the model)
       QR       M = Q R with orthonormal columns                                               [qr_ok]
   on the calls actually issued, together with C02's sparsity contracts [sp2_tr_ok].  Every tolerance, every L >= 1. *)
From Coq Require Import ZArith List Lia Bool Arith Ring.
From PT Require Import Base.Scalar Base.Field Base.BigSum Base.Mx Model.Tensor Model.MPSOps Model.BondOps Model.Operation Model.Sweeps.
From PT Require Import Model.Orthonormalize.
From PT Require Import Proofs.MPSOpsBase Proofs.MPSOpsTop Proofs.MPSOpsShape Proofs.OperationSums Proofs.OperationEntries
  Proofs.OperationChains Proofs.OperationLocal Proofs.OperationUniform Proofs.OperationTwoSite.
From PT Require Import Proofs.SweepsCanon Proofs.SweepsFlow Proofs.SweepsLocal Proofs.SweepsGauge Proofs.SweepsRun Proofs.Sweeps2Run.
From PT Require Import Proofs.BondOpsSpec Proofs.OrthDefs Proofs.OrthQRExtra Proofs.OrthSweep Proofs.OrthTop Proofs.OrthRight.
From PT Require Import Proofs.HistSparse Proofs.HistChain Proofs.HistOps Proofs.HistInv Proofs.HistCharge Proofs.HistOrth.
From PT Require Import Proofs.Hist2Local Proofs.Hist2Sweep Proofs.Hist2Dmrg Proofs.Hist2Top Proofs.Hist3Sweep2 Proofs.Hist3Top Proofs.Hist3Charge.
Import ListNotations.
Open Scope nat_scope.

(* ---------- the weak contracts ---------- *)
Section Weak.
  Variable R : cring.
  Definition keig_nz (dd : nat) (Am : site R) (ans : R * site R) : Prop :=
    (forall Dl Dr, OperationEntries.site_ok dd Dl Dr Am -> OperationEntries.site_ok dd Dl Dr (snd ans)) /\ site_dot (snd ans) (snd ans) <> k0 R.
  Definition split_nz (d : nat) (left : bool) (Am : site R) (ans : site R * site R * list Z) : Prop :=
    forall Dl Dr, OperationEntries.site_ok (d * d) Dl Dr Am -> site_dot Am Am <> k0 R ->
      exists k, OperationEntries.site_ok d Dl k (fst (fst ans)) /\ OperationEntries.site_ok d k Dr (snd (fst ans)) /\
        (if left then right_iso (snd (fst ans)) else left_iso (fst (fst ans))) /\
        site_dot (c04_merge_site (fst (fst ans)) (snd (fst ans))) (c04_merge_site (fst (fst ans)) (snd (fst ans))) <> k0 R.
End Weak.
Arguments keig_nz {R} dd Am ans. Arguments split_nz {R} d left Am ans.

Section DmrgChargeNZ.
  Variable F : ofield.
  Notation K := (Cx F).
  Variable qr : nat -> mx K -> list Z -> list Z -> mx K * mx K * list Z.
  Variable split : nat -> site K -> list Z -> list Z -> list Z -> list Z -> bool -> site K * site K * list Z.
  Variable keig : nat -> env K -> env K -> osite K -> site K -> K * site K.
  Variables (Hs : list (osite K)) (qd : list Z) (qWs : list (list Z)).
  Variable d : nat.
  Variable DsW : list nat.
  Notation L := (length Hs).
  Hypothesis Hq : 0 < length qd.
  Hypothesis HWsq : chainP (osite_okP K qd) qWs Hs.
  Hypothesis HWpos : forall j, j <= L -> 0 < length (nth j qWs []).
  Hypothesis HW0 : nth 0 qWs [] = [0%Z].
  Hypothesis Hd : 0 < d.
  Hypothesis HWs : ochain_ok (repeat d L) DsW Hs.
  Hypothesis HhW : hd 0 DsW = 1.
  Hypothesis HWst : Forall (osite_struct d) Hs.

  Notation ZQi := (ZQ K Hs qd qWs).
  Notation Zi := (SweepsInv.Z K Hs d).
  Notation Z2i := (Sweeps2Inv.Z2 K Hs d).
  Notation NNi := (SweepsInv.NN K Hs d).
  Notation trse := (fun se : sw K * K => s_tr (fst se)).

  Definition dmrg2w_call_ok (p : nat) (t : tcall K) : Prop :=
    let i := c_site (t_call t) in
    match c_kind (t_call t), t_envs t, t_ten t, t_qs t with
    | EIG2, [BL; BR], [Am], _ => keig_nz (d * d) Am (keig p BL BR (Sweeps2Inv.Hm Hs i) Am)
    | SPLITL, _, [Am], [q0; q1; q2; q3] =>
        site_okP K (Sweeps.qflat q0 q1) q2 q3 Am -> split_nz d true Am (split p Am q0 q1 q2 q3 true)
    | SPLITR, _, [Am], [q0; q1; q2; q3] =>
        site_okP K (Sweeps.qflat q0 q1) q2 q3 Am -> split_nz d false Am (split p Am q0 q1 q2 q3 false)
    | QR, _, [[M]], [q0; q1] => qr_ok M (qr p M q0 q1)
    | _, _, _, _ => True
    end.
  Fixpoint wtr2_ok (tr : list (tcall K)) : Prop :=
    match tr with [] => True | t :: rest => dmrg2w_call_ok (length rest) t /\ wtr2_ok rest end.
  Lemma wtr2_ok_suffix new old : wtr2_ok (new ++ old) -> wtr2_ok old.
  Proof. induction new as [|t new IH]; [exact (fun H => H)|]. cbn [app wtr2_ok]. intros [_ H]. exact (IH H). Qed.

  (* ---- sparsity (C02) and "mixed canonical, not zero" side by side ---- *)
  Notation sp_ok := (sp2_tr_ok K qr split (no_kexp K) (no_kexp0 K) keig Hs qd qWs (k0 K) (k0 K)).
  Definition ok2w (tr : list (tcall K)) : Prop := sp_ok tr /\ wtr2_ok tr.
  Lemma ok2w_suffix new old : ok2w (new ++ old) -> ok2w old.
  Proof.
    intros [H1 H2]. split; [exact (sp2_tr_ok_suffix K qr split _ _ keig Hs qd qWs _ _ _ _ H1)|exact (wtr2_ok_suffix _ _ H2)].
  Qed.

  (* every start tensor handed to the eigensolver so far was an array of shape (d*d, Dl, Dr) and not zero
     (Proofs/Hist4Returns.v: under numpy.linalg.norm's contract this is when the Krylov eigensolver returns) *)
  Definition eig2_start_nz (t : tcall K) : Prop :=
    match c_kind (t_call t), t_envs t, t_ten t with
    | EIG2, [BL; BR], [Am] => OperationEntries.site_ok (d * d) (sdl Am) (sdr Am) Am /\ site_dot Am Am <> k0 K
    | _, _, _ => True
    end.
  Fixpoint starts_nz (tr : list (tcall K)) : Prop :=
    match tr with [] => True | t :: rest => eig2_start_nz t /\ starts_nz rest end.

  (* ---- merge, minimise, split: the pair stays mixed canonical and the state non-zero ---- *)
  Lemma pair_step_nz (se : sw K * K) i left : ZP K Hs qd qWs (fst se) i -> S i < L -> Z2i (fst se) i ->
    NNi (s_A (fst se)) <> k0 K -> starts_nz (s_tr (fst se)) ->
    ok2w (s_tr (fst (dmrg2_pair split keig Hs qd se i left))) ->
    let se' := dmrg2_pair split keig Hs qd se i left in
    Z2i (fst se') i /\ NNi (s_A (fst se')) <> k0 K /\ starts_nz (s_tr (fst se')) /\
    (if left then right_iso (gA (fst se') (S i)) else left_iso (gA (fst se') i)).
  Proof.
    intros HZP HSi HZ HN0 Hst [Hsp Hok]. unfold dmrg2_pair in *. cbv zeta in *. destruct se as [st en0]. cbn [fst snd] in *.
    pose proof (ZP_merged K Hs qd qWs Hq st i HZP HSi) as HAm. destruct HZP as (lA & lq & lBL & lBR & HA & HBL & HBR).
    set (Am := c04_merge_site (gA st i) (gA st (S i))) in *.
    set (W2 := c04_merge_osite (nth i Hs []) (nth (S i) Hs [])) in *.
    destruct (keig (length (s_tr st)) (gBL st i) (gBR st (S i)) W2 Am) as [en Am1] eqn:Ek.
    destruct (split (S (length (s_tr st))) Am1 qd qd (gq st i) (gq st (S (S i))) left) as [[A0 A1] qb] eqn:Es.
    cbn [fst snd s_tr] in *. destruct Hok as (HcS & HcK & _). destruct Hsp as (_ & HsK & _).
    (* the Ritz vector on the merged pair is block sparse (C02's contract), so the split contract applies *)
    unfold sp2_call_ok in HsK. cbn [t_call c_kind c_site c_coef t_envs t_ten t_qs length] in HsK.
    assert (HAm1 : site_okP K (qd2 qd) (gq st i) (gq st (S (S i))) Am1).
    { specialize (HsK _ _ HAm (HBL i (le_n i)) (HBR (S i) (le_n (S i)) HSi)). unfold Hm2 in HsK. fold W2 in HsK. rewrite Ek in HsK. exact HsK. }
    unfold dmrg2w_call_ok in HcK. cbn [t_call c_kind c_site c_coef t_envs t_ten t_qs length] in HcK.
    change (Sweeps2Inv.Hm Hs i) with W2 in HcK. rewrite Ek in HcK.
    assert (HS : split_nz d left Am1 (A0, A1, qb)).
    { unfold dmrg2w_call_ok in HcS. destruct left; cbn [t_call c_kind c_site c_coef t_envs t_ten t_qs length] in HcS; rewrite Es in HcS; exact (HcS HAm1). }
    clear HcS.
    destruct (Sweeps2Inv.Z2_center K Hs d DsW Hd HWs HhW HWst st i HZ) as (Dl & Dr & HM & N0 & E0 & Hrep). fold Am in HM, N0, E0.
    destruct HcK as (Hsh & Hn1). cbn [fst snd] in *.
    destruct (HS Dl Dr (Hsh _ _ HM) Hn1) as (k & HA0 & HA1 & Hiso & Hnzm). cbn [fst snd] in *.
    assert (HMt : OperationEntries.site_ok (d * d) Dl Dr (c04_merge_site A0 A1)) by (apply (merge_site_ok K d d Dl k Dr); assumption).
    match goal with |- Sweeps2Inv.Z2 _ _ _ ?s _ /\ _ =>
      destruct (Hrep (c04_merge_site A0 A1) A0 A1 k s HMt HA0 HA1 (Sweeps2Inv.fac2_merge K d d Dl k Dr A0 A1 HA0 HA1) eq_refl eq_refl eq_refl)
        as (HZ' & N1 & E1 & G0 & G1) end.
    cbn [s_A s_tr] in N1 |- *. split; [exact HZ'|]. rewrite N1. split; [exact Hnzm|].
    split.
    { (* the start tensor of this eigensolver call: <Am|Am> = NN <> 0 *)
      cbn [starts_nz]. split; [destruct left; exact I|]. split; [|exact Hst].
      unfold eig2_start_nz. cbn [t_call c_kind t_envs t_ten]. split; [|rewrite <- N0; exact HN0].
      assert (Hdd : 0 < d * d) by (apply Nat.mul_pos_pos; exact Hd).
      destruct (site_ok_sdl K (d * d) Dl Dr Am Hdd HM) as (E1' & E2' & _). rewrite E1', E2'. exact HM. }
    destruct left; [rewrite G1|rewrite G0]; exact Hiso.
  Qed.

  Definition Wz (i : nat) (se : sw K * K) : Prop :=
    Zi (fst se) i /\ NNi (s_A (fst se)) <> k0 K /\ starts_nz (s_tr (fst se)).

  Lemma lr_nz se i : ZP K Hs qd qWs (fst se) i -> Wz i se -> S i < L ->
    ok2w (s_tr (fst (dmrg2_lr split keig Hs qd se i))) -> Wz (S i) (dmrg2_lr split keig Hs qd se i).
  Proof.
    intros HZP (HZ & HN & Hst) HSi Hok. unfold dmrg2_lr, Sweeps.lift in *. cbn [fst snd] in *.
    assert (Hok1 : ok2w (s_tr (fst (dmrg2_pair split keig Hs qd se i false)))).
    { unfold upd_BL in Hok; cbn [s_tr] in Hok. destruct Hok as [[_ H1] [_ H2]]. split; assumption. }
    destruct (pair_step_nz se i false HZP HSi (Sweeps2Inv.Z_Z2_left K Hs d DsW Hd HhW (fst se) i HZ HSi) HN Hst Hok1) as (HZ1 & HN1 & Hst1 & Hiso).
    unfold Wz. cbn [fst snd upd_BL s_A s_tr].
    split; [apply (Sweeps2Inv.Z2_to_right K Hs d DsW Hd HhW _ _ i HZ1 Hiso); reflexivity|]. split; [exact HN1|].
    cbn [starts_nz]. split; [exact I|exact Hst1].
  Qed.

  Lemma rl_nz se i : ZP K Hs qd qWs (fst se) i -> S i < L -> Z2i (fst se) i ->
    NNi (s_A (fst se)) <> k0 K -> starts_nz (s_tr (fst se)) ->
    ok2w (s_tr (fst (dmrg2_rl split keig Hs qd se i))) -> Wz i (dmrg2_rl split keig Hs qd se i).
  Proof.
    intros HZP HSi HZ HN Hst Hok. unfold dmrg2_rl, Sweeps.lift in *. cbn [fst snd] in *.
    assert (Hok1 : ok2w (s_tr (fst (dmrg2_pair split keig Hs qd se i true)))).
    { unfold upd_BR in Hok; cbn [s_tr] in Hok. destruct Hok as [[_ H1] [_ H2]]. split; assumption. }
    destruct (pair_step_nz se i true HZP HSi HZ HN Hst Hok1) as (HZ1 & HN1 & Hst1 & Hiso).
    unfold Wz. cbn [fst snd].
    split; [apply (Sweeps2Inv.Z2_to_left K Hs d DsW Hd HhW _ _ i HZ1 Hiso); [reflexivity|reflexivity|apply upd_BR_S]|]. cbn [upd_BR s_A s_tr].
    split; [exact HN1|]. cbn [starts_nz]. split; [exact I|exact Hst1].
  Qed.

  (* ---- the closing QR of a sweep: centre at site 0, the new A[0] = Q^T is an isometry, so the state has norm one again ---- *)
  Lemma final_step_nz (st : sw K) : Zi st 0 ->
    (let M := site_flat (site_tr (gA st 0)) in
     qr_ok M (qr (length (s_tr st)) M (Sweeps.qflat qd (Sweeps.zneg (gq st 1))) (Sweeps.zneg (gq st 0)))) ->
    Zi (dmrg_final_qr qr qd st) 0 /\ NNi (s_A (dmrg_final_qr qr qd st)) = k1 K.
  Proof.
    intros HZ Hc. unfold dmrg_final_qr, qr_right in *. cbv zeta in *.
    destruct (qr (length (s_tr st)) (site_flat (site_tr (gA st 0))) (Sweeps.qflat qd (Sweeps.zneg (gq st 1))) (Sweeps.zneg (gq st 0))) as [[Q C] qb] eqn:Eq.
    cbn [s_tr s_A s_BL s_BR s_qD] in *.
    pose proof HZ as HZ0.
    destruct HZ as (Al & X & Ar & DsAl & Dar & DsAr & EA & Hlen & HL & HAl & Hh & HX & HAr & Hli & Hri & HBL & HBR & lBL & lBR).
    destruct Al; [|discriminate]. cbn [app length repeat] in *.
    apply chainx_ok_nil_inv in HAl. destruct HAl as [_ [D ->]]. cbn [hd last] in *. subst D.
    assert (GA : gA st 0 = X) by (unfold gA; rewrite EA; reflexivity). rewrite GA in *.
    destruct (qr_right_site K d 1 Dar X Q C qb Hd HX Hc) as (HAq & HcC & HisoAq & Hent).
    set (Aq := site_tr (site_unflat (length (site_tr X)) (sdl (site_tr X)) Q)) in *.
    destruct Hc as (q1 & q2 & q3 & q4 & q5 & _).
    destruct (site_flat_shape K d Dar 1 (site_tr X) Hd (site_tr_ok K d 1 Dar X HX)) as [_ S2]. rewrite S2 in q5.
    assert (Hk : nr C = 1) by lia. rewrite Hk in *.
    destruct (SweepsInv.Z_center K Hs d DsW Hd HWs HhW st 0 HZ0) as (Dl & Dr & HX' & N0 & E0 & Hrep). rewrite GA in *.
    destruct (site_ok_unique K d _ _ _ _ X Hd HX HX') as [<- <-].
    match goal with |- SweepsInv.Z _ _ _ ?s _ /\ _ => destruct (Hrep Aq s HAq eq_refl eq_refl eq_refl) as (HZ' & N1 & E1) end.
    cbn [s_A] in N1 |- *. split; [exact HZ'|]. rewrite N1. apply (right_iso_norm K d Hd Aq Dar); assumption.
  Qed.

  (* Hist3Charge.final_keeps_q0 with "norm one" weakened to "not zero" *)
  Theorem final_keeps_q0_nz (st : sw K) :
    ZQi st 0 -> gBL st 0 = env_one -> Zi st 0 -> NNi (s_A st) <> k0 K -> 1 <= L ->
    (let M := site_flat (site_tr (gA st 0)) in let q0 := Sweeps.qflat qd (Sweeps.zneg (gq st 1)) in let q1 := Sweeps.zneg (gq st 0) in
     (bond_okP K q0 q1 M -> qr_sp_ok K M q0 q1 (qr (length (s_tr st)) M q0 q1)) /\ qr_ok M (qr (length (s_tr st)) M q0 q1)) ->
    bfr K L st (dmrg_final_qr qr qd st).
  Proof.
    intros HZ HB0 HZ' HN HL1 [HcQ HcF]. pose proof HZ as (lA & lq & lBL & lBR & HA & HBL & HBR).
    pose proof (qr_right_sp K qr qd Hq (length (s_tr st)) (gA st 0) (gq st 0) (gq st 1) (HA 0 ltac:(lia))) as Hqs.
    unfold dmrg_final_qr, qr_right in *. cbv zeta in *.
    destruct (qr (length (s_tr st)) (site_flat (site_tr (gA st 0))) (Sweeps.qflat qd (Sweeps.zneg (gq st 1))) (Sweeps.zneg (gq st 0))) as [[Q C] qb0] eqn:Eq.
    destruct (Hqs HcQ) as (_ & HCt & Hp & Hle).
    assert (H01 : length (gq st 0) = 1).
    { destruct (HBL 0 (le_n 0)) as [[_ Hsh] _]. rewrite HB0 in Hsh. destruct (Hsh 0 (HWpos 0 ltac:(lia))) as [E _].
      symmetry. exact E. }
    destruct (SweepsInv.Z_center K Hs d DsW Hd HWs HhW st 0 HZ') as (Dl & Dr & HX & N0 & _).
    assert (Hnz : site_dot (gA st 0) (gA st 0) <> k0 K) by (rewrite <- N0; exact HN).
    destruct (site_dot_nz F _ Hnz) as (s & b & c & Hs' & Hb & Hc & Hx).
    pose proof (HA 0 ltac:(lia)) as HA0. destruct (site_okP_sdl K qd Hq _ _ _ HA0) as (E1 & E2 & E3).
    rewrite E1 in Hb. rewrite E2 in Hc. rewrite E3 in Hs'. rewrite H01 in Hb. assert (b = 0) as -> by lia.
    pose proof (site_okP_ok K _ _ _ _ HA0) as SA0. rewrite H01 in SA0.
    pose proof (site_tr_ok K _ _ _ _ SA0) as SAt.
    set (D1 := length (gq st 1)) in *.
    assert (HM : get (site_flat (site_tr (gA st 0))) (s * D1 + c) 0 = get (sel (gA st 0) s) 0 c).
    { rewrite (get_site_flat K (length qd) D1 1 (site_tr (gA st 0)) s c 0 Hq SAt Hs' Hc ltac:(lia)).
      apply (get_site_tr K (length qd) 1 D1 (gA st 0) s 0 c SA0 Hs' ltac:(lia) Hc). }
    destruct (site_flat_shape K (length qd) D1 1 (site_tr (gA st 0)) Hq SAt) as [rM cM].
    destruct HcF as (_ & F2 & _ & _ & _ & Ffac & _).
    assert (Hr : s * D1 + c < nr (site_flat (site_tr (gA st 0)))) by (rewrite rM; nia).
    rewrite (Ffac _ 0 Hr ltac:(rewrite cM; lia)) in HM. rewrite <- HM in Hx.
    apply (sumn_nz K) in Hx. destruct Hx as (k & Hk & Hx). apply (mul_nz_r K) in Hx.
    destruct HCt as (rC & cC & HCs). unfold trmx in rC, cC. rewrite nr_tab in rC. rewrite nc_tab in cC.
    unfold Sweeps.zneg in Hp, Hle, cC. rewrite map_length in Hp, Hle, cC.
    assert (Hk0 : k = 0) by (rewrite F2 in Hk; lia).
    subst k.
    assert (Hx' : get (trmx C) 0 0 <> k0 K) by (unfold trmx; rewrite get_tab by lia; exact Hx).
    pose proof (HCs 0 0 ltac:(lia) ltac:(unfold Sweeps.zneg; rewrite map_length; lia) Hx') as Ech.
    cbn [s_qD].
    assert (Elst : Sweeps.zneg qb0 = gq st 0).
    { destruct (len1_single (gq st 0) H01) as [x Ex]. destruct (len1_single qb0 ltac:(lia)) as [y Ey].
      rewrite Ex, Ey in *. unfold Sweeps.zneg, zget in *. cbn [map nth] in *. f_equal. lia. }
    rewrite Elst. unfold bfr, gq in *. cbn [s_qD]. rewrite lset_length. split; [reflexivity|].
    split; [apply nth_lset_same; lia|]. apply nth_lset_other. lia.
  Qed.

  Definition CI2w (st0 : sw K) (i : nat) (se : sw K * K) : Prop :=
    ZD2 K Hs qd qWs i se /\ Wz i se /\ bfr K L st0 (fst se).

  Lemma ch2w_lr st0 se i : CI2w st0 i se -> S i < L ->
    ok2w (s_tr (fst (dmrg2_lr split keig Hs qd se i))) -> CI2w st0 (S i) (dmrg2_lr split keig Hs qd se i).
  Proof.
    intros (HZD & HW & Hb) HSi [Hsp Hc]. split; [|split].
    - exact (dmrg2_lr_sp K qr split (no_kexp K) (no_kexp0 K) keig Hs qd qWs (k0 K) (k0 K) Hq HWsq HWpos se i HZD HSi Hsp).
    - exact (lr_nz se i (ZQ_ZP_l K Hs qd qWs Hq (fst se) i (proj1 HZD)) HW HSi (conj Hsp Hc)).
    - apply (bfr_trans K L _ (fst se)); [exact Hb|apply frame_dmrg2_lr; exact HSi].
  Qed.

  Lemma ch2w_rl st0 se i : ZP K Hs qd qWs (fst se) i -> gBL (fst se) 0 = env_one -> Z2i (fst se) i ->
    NNi (s_A (fst se)) <> k0 K -> starts_nz (s_tr (fst se)) ->
    bfr K L st0 (fst se) -> S i < L ->
    ok2w (s_tr (fst (dmrg2_rl split keig Hs qd se i))) -> CI2w st0 i (dmrg2_rl split keig Hs qd se i).
  Proof.
    intros HZP HB0 HZ2 HN Hst Hb HSi [Hsp Hc]. split; [|split].
    - exact (dmrg2_rl_spP K qr split (no_kexp K) (no_kexp0 K) keig Hs qd qWs (k0 K) (k0 K) Hq HWsq HWpos se i HZP HB0 HSi Hsp).
    - exact (rl_nz se i HZP HSi HZ2 HN Hst (conj Hsp Hc)).
    - apply (bfr_trans K L _ (fst se)); [exact Hb|apply frame_dmrg2_rl; exact HSi].
  Qed.

  (* the contracts of the closing QR call, read off the head of the trace *)
  Lemma final_contracts2w (st : sw K) : ok2w (s_tr (dmrg_final_qr qr qd st)) ->
    let M := site_flat (site_tr (gA st 0)) in let q0 := Sweeps.qflat qd (Sweeps.zneg (gq st 1)) in let q1 := Sweeps.zneg (gq st 0) in
    (bond_okP K q0 q1 M -> qr_sp_ok K M q0 q1 (qr (length (s_tr st)) M q0 q1)) /\ qr_ok M (qr (length (s_tr st)) M q0 q1).
  Proof.
    intros [Hsp Hc]. unfold dmrg_final_qr, qr_right in *. cbv zeta in *.
    destruct (qr (length (s_tr st)) (site_flat (site_tr (gA st 0))) (Sweeps.qflat qd (Sweeps.zneg (gq st 1))) (Sweeps.zneg (gq st 0))) as [[Q C] qb0] eqn:Eq.
    cbn [s_tr] in *. destruct Hsp as [Hs1 _]. destruct Hc as [Hc1 _].
    unfold sp2_call_ok in Hs1. cbn [at_site t_call c_kind c_site c_coef t_envs t_ten t_qs length] in Hs1.
    unfold sp_call_ok in Hs1. cbn [at_site t_call c_kind c_site c_coef t_envs t_ten t_qs length] in Hs1. rewrite Eq in Hs1.
    unfold dmrg2w_call_ok in Hc1. cbn [at_site t_call c_kind c_site c_coef t_envs t_ten t_qs length] in Hc1. rewrite Eq in Hc1.
    split; assumption.
  Qed.

  Definition SI2w (st0 st : sw K) : Prop :=
    ZQi st 0 /\ gBL st 0 = env_one /\ Zi st 0 /\ NNi (s_A st) <> k0 K /\ starts_nz (s_tr st) /\ bfr K L st0 st.

  Lemma ch2w_final st0 (st : sw K) : 1 <= L -> SI2w st0 st ->
    ok2w (s_tr (dmrg_final_qr qr qd st)) -> SI2w st0 (dmrg_final_qr qr qd st).
  Proof.
    intros HL1 (HZ2 & HB2 & HZ2' & HN2 & Hst2 & Hb2) Hok.
    destruct (dmrg2_final_sp K qr split (no_kexp K) (no_kexp0 K) keig Hs qd qWs (k0 K) (k0 K) Hq HWpos HW0 st HZ2 HB2 HL1 (proj1 Hok)) as [HZ3 HB3].
    pose proof (final_contracts2w _ Hok) as Hfc.
    destruct (final_step_nz st HZ2' (proj2 Hfc)) as (HZ3' & HN3).
    pose proof (final_keeps_q0_nz st HZ2 HB2 HZ2' HN2 HL1 Hfc) as Hb3.
    split; [exact HZ3|]. split; [exact HB3|]. split; [exact HZ3'|]. split; [rewrite HN3; apply (k1_neq_k0 F)|].
    split; [|exact (bfr_trans K L _ _ _ Hb2 Hb3)].
    unfold dmrg_final_qr, qr_right. cbv zeta. destruct (qr _ _ _ _) as [[Q C] qb]. cbn [s_tr starts_nz]. split; [exact I|exact Hst2].
  Qed.

  Lemma ch2w_sweep st0 (st : sw K) : 1 <= L -> SI2w st0 st ->
    ok2w (s_tr (fst (dmrg2_sweep qr split keig Hs qd L st))) -> SI2w st0 (fst (dmrg2_sweep qr split keig Hs qd L st)).
  Proof.
    intros HL1 HS Hok.
    unfold dmrg2_sweep, Sweeps.lift in *. cbv zeta in *. cbn [fst snd] in *.
    destruct (Nat.eq_dec L 1) as [EL1|NL1].
    { replace (L - 2) with 0 in * by lia. replace (L - 1) with 0 in * by lia. cbn [seq rev fold_left fst] in *.
      apply ch2w_final; assumption. }
    assert (HL2 : 2 <= L) by lia. destruct HS as (HZ & HB0 & HZ' & HN & Hst & Hb).
    set (se1 := fold_left (dmrg2_lr split keig Hs qd) (seq 0 (L - 2)) (st, k0 K)) in *.
    replace (L - 1) with (S (L - 2)) in * by lia. rewrite seq_S, rev_app_distr in *. cbn [rev app fold_left Nat.add] in *.
    set (sem := dmrg2_rl split keig Hs qd se1 (L - 2)) in *.
    set (se2 := fold_left (dmrg2_rl split keig Hs qd) (rev (seq 0 (L - 2))) sem) in *.
    assert (Hok2 : ok2w (s_tr (fst se2))).
    { revert Hok. generalize (fst se2) as st2. intros st2. unfold dmrg_final_qr, qr_right. cbv zeta.
      destruct (qr _ _ _ _) as [[Q C] qb]. cbn [s_tr]. intros [[_ H1] [_ H2]]. split; assumption. }
    assert (Hokm : ok2w (s_tr (fst sem))).
    { destruct (fold_mono trse (dmrg2_rl split keig Hs qd) (suf_dmrg2_rl F split keig Hs qd) (rev (seq 0 (L - 2))) sem) as [new E].
      fold se2 in E. cbn beta in E. rewrite E in Hok2. exact (ok2w_suffix _ _ Hok2). }
    assert (Hok1 : ok2w (s_tr (fst se1))).
    { destruct (suf_dmrg2_rl F split keig Hs qd se1 (L - 2)) as [new E]. fold sem in E. rewrite E in Hokm. exact (ok2w_suffix _ _ Hokm). }
    assert (H1 : CI2w st0 (0 + (L - 2)) se1).
    { unfold se1.
      apply (fold_up trse (dmrg2_lr split keig Hs qd) (suf_dmrg2_lr F split keig Hs qd) ok2w ok2w_suffix (CI2w st0) (L - 2) 0 (st, k0 K)).
      - split; [split; assumption|]. split; [split; [exact HZ'|split; assumption]|exact Hb].
      - exact Hok1.
      - intros i s' Hi HC Hoki. apply ch2w_lr; [exact HC|lia|exact Hoki]. }
    cbn [Nat.add] in H1.
    assert (Hm1 : CI2w st0 (L - 2) sem).
    { destruct H1 as ([HZ1 HB1] & (HZ1' & HN1 & Hst1) & Hb1).
      apply ch2w_rl; try assumption; [apply (ZQ_ZP_l K Hs qd qWs Hq); exact HZ1| |lia].
      apply (Sweeps2Inv.Z_Z2_left K Hs d DsW Hd HhW); [exact HZ1'|lia]. }
    assert (H2 : CI2w st0 0 se2).
    { unfold se2.
      apply (fold_down0 trse (dmrg2_rl split keig Hs qd) (suf_dmrg2_rl F split keig Hs qd) ok2w ok2w_suffix (CI2w st0) (L - 2) sem Hm1 Hok2).
      intros i s' Hi ([HZi HBi] & (HZi' & HNi & Hsti) & Hbi) Hoki.
      apply ch2w_rl; try assumption; [apply (ZQ_ZP_r K Hs qd qWs Hq); exact HZi| |lia].
      apply (Sweeps2Inv.Z_Z2_right K Hs d DsW Hd HhW). exact HZi'. }
    destruct H2 as ([HZ2 HB2] & (HZ2' & HN2 & Hst2) & Hb2).
    apply ch2w_final; [exact HL1| |exact Hok].
    split; [exact HZ2|]. split; [exact HB2|]. split; [exact HZ2'|]. split; [exact HN2|]. split; [exact Hst2|exact Hb2].
  Qed.

  Lemma ch2w_loop st0 n : forall st ens, 1 <= L -> SI2w st0 st ->
    ok2w (s_tr (fst (dmrg_loop (dmrg2_sweep qr split keig Hs qd L) n st ens))) ->
    SI2w st0 (fst (dmrg_loop (dmrg2_sweep qr split keig Hs qd L) n st ens)).
  Proof.
    induction n as [|n IH]; intros st ens HL2 HS Hok; cbn [dmrg_loop] in *; [exact HS|].
    pose proof (ch2w_sweep st0 st HL2 HS) as Hs1.
    destruct (suf_dmrg2_loop F qr split keig Hs qd n (fst (dmrg2_sweep qr split keig Hs qd L st)) (ens ++ [snd (dmrg2_sweep qr split keig Hs qd L st)])) as [new E].
    destruct (dmrg2_sweep qr split keig Hs qd L st) as [st' en]. cbn [fst snd] in *.
    rewrite E in Hok. pose proof (Hs1 (ok2w_suffix _ _ Hok)) as HS'.
    rewrite <- E in Hok. apply IH; assumption.
  Qed.

  (* the strong contracts of C10 imply the weak ones (so this development covers Hist3Charge's two-site theorem) *)
  Lemma keig_ok_nz dd (BL BR : env K) (W : osite K) (Am : site K) (ans : K * site K) : keig_ok dd BL BR W Am ans -> keig_nz dd Am ans.
  Proof. intros (H1 & H2 & _). split; [exact H1|]. rewrite H2. apply (k1_neq_k0 F). Qed.
End DmrgChargeNZ.

Arguments wtr2_ok {F} qr split keig Hs d tr. Arguments dmrg2w_call_ok {F} qr split keig Hs d p t.

(* ======================= whole runs ======================= *)
Theorem dmrg2_boundary_nz (F : ofield) orth qr split keig (H : mpo (Cx F)) psi n d DsW Ds0 A qD ens tr :
  dmrg_twosite orth qr split keig H psi n = Some (A, qD, ens, tr) ->
  (* operands as for the sparsity theorem *)
  mpo_ok H = true -> o_qd H = m_qd psi -> Forall (fun q => 0 < length q) (o_qD H) ->
  hd [] (o_qD H) = [0%Z] -> last (o_qD H) [] = [0%Z] ->
  0 < length (m_qd psi) -> m_qd (fst (orth psi)) = m_qd psi -> mps_ok (fst (orth psi)) = true ->
  length (hd [] (m_qD (fst (orth psi)))) = 1 -> length (last (m_qD (fst (orth psi))) []) = 1 ->
  (* operands as for C10: uniform shapes, right-canonical after the preliminary orthonormalisation *)
  mpo_shapeb d DsW (o_A H) = true -> mps_shapeb d Ds0 (m_A (fst (orth psi))) = true ->
  Forall right_iso (m_A (fst (orth psi))) ->
  (* contracts of the calls issued: sparsity (C02) and the weak contracts (Ritz vector not zero, truncated split not zero, QR) *)
  sp2_tr_ok (Cx F) qr split (no_kexp (Cx F)) (no_kexp0 (Cx F)) keig (o_A H) (m_qd psi) (o_qD H) (k0 (Cx F)) (k0 (Cx F)) (rev tr) ->
  wtr2_ok qr split keig (o_A H) d (rev tr) ->
  hd [] qD = hd [] (m_qD (fst (orth psi))) /\ last qD [] = last (m_qD (fst (orth psi))) [] /\ starts_nz F d (rev tr).
Proof.
  intros Hrun HokH Eqd Hpos Hh0 Hl0 Hq Eqd1 Hok1 Hh1 Hl1 HH Hp Hiso Hsp Hc10.
  unfold dmrg_twosite in Hrun. destruct (sweep_init orth H psi) as [[st nrm']|] eqn:Einit; [|discriminate].
  destruct (dmrg_loop (dmrg2_sweep qr split keig (o_A H) (m_qd psi) (length (o_A H))) n st []) as [st' ens'] eqn:El.
  injection Hrun as <- <- <- <-. rewrite rev_involutive in Hsp, Hc10.
  apply mpo_ok_P in HokH. rewrite Eqd in HokH.
  destruct (HWfacts _ H _ HokH Hpos Hh0) as [HWpos HW0].
  destruct (ZQ_init (Cx F) (m_qd psi) Hq (o_A H) (o_qD H) orth H psi st nrm' HokH HWpos HW0 Einit eq_refl eq_refl Hl0 Eqd1 Hok1 Hh1 Hl1)
    as (HZ & HB0 & _ & _).
  assert (Hd : 0 < d).
  { unfold mpo_shapeb in HH. rewrite !andb_true_iff in HH. destruct HH as (((((HH0 & _) & _) & _) & _) & _). apply Nat.ltb_lt. exact HH0. }
  destruct (Z_init (Cx F) d Hd orth H psi st nrm' DsW Ds0 Einit HH Hp Hiso) as (HZ' & HN & Etr0 & _ & HWs & HhW).
  pose proof (Sweeps2Inv.mpo_shapeb_struct (Cx F) d DsW (o_A H) HH) as HWst.
  destruct (sweep_init_qD (Cx F) orth H psi st nrm' Einit) as (Eq & EA & EL).
  pose proof (sweep_init_len (Cx F) orth H psi st nrm' Einit) as HL1.
  pose proof (ch2w_loop F qr split keig (o_A H) (m_qd psi) (o_qD H) d DsW Hq HokH HWpos HW0 Hd HWs HhW HWst st n st [] HL1) as Hl.
  rewrite El in Hl. cbn [fst] in Hl.
  destruct Hl as (_ & _ & _ & _ & Hst & Hb).
  { split; [exact HZ|]. split; [exact HB0|]. split; [exact HZ'|]. split; [rewrite HN; apply (k1_neq_k0 F)|]. split; [rewrite Etr0; exact I|apply bfr_refl]. }
  { split; assumption. }
  apply mps_ok_P in Hok1. pose proof (chainP_length _ _ _ _ Hok1) as Hlen.
  rewrite rev_involutive. split; [|split; [|exact Hst]];
    rewrite <- Eq; apply (bfr_boundary (Cx F) (length (o_A H)) st st' Hb); rewrite Eq, Hlen, EL; reflexivity.
Qed.

(* total charge kept by two-site DMRG for every tol_split, with psi.orthonormalize(mode='right') = the model of C01 and a state
   with a non-zero amplitude *)
Theorem dmrg2_total_charge_kept_nz (F : ofield) (dqr : mx (Cx F) -> mx (Cx F) * mx (Cx F)) (H : mpo (Cx F)) (psi : mps (Cx F)) (w : list nat) d DsW Ds0 :
  mps_ok psi = true -> orth_pre F psi -> Forall (qr_call_ok F dqr) (mps_orth_calls dqr false psi) ->
  length w = length (m_A psi) -> Forall (fun s => s < length (m_qd psi)) w -> amp (m_A psi) w <> k0 (Cx F) ->
  mpo_ok H = true -> o_qd H = m_qd psi -> Forall (fun q => 0 < length q) (o_qD H) ->
  hd [] (o_qD H) = [0%Z] -> last (o_qD H) [] = [0%Z] ->
  mpo_shapeb d DsW (o_A H) = true -> mps_shapeb d Ds0 (m_A (fst (orth_right_model F dqr psi))) = true ->
  Forall right_iso (m_A (fst (orth_right_model F dqr psi))) ->
  forall qr split keig n A qD ens tr,
    dmrg_twosite (orth_right_model F dqr) qr split keig H psi n = Some (A, qD, ens, tr) ->
    sp2_tr_ok (Cx F) qr split (no_kexp (Cx F)) (no_kexp0 (Cx F)) keig (o_A H) (m_qd psi) (o_qD H) (k0 (Cx F)) (k0 (Cx F)) (rev tr) ->
    wtr2_ok qr split keig (o_A H) d (rev tr) ->
    hd [] qD = hd [] (m_qD psi) /\ last qD [] = last (m_qD psi) [] /\ starts_nz F d (rev tr).
Proof.
  intros Hok Hpre Hc Hw1 Hw2 Hamp HokH Eqd Hpos Hh0 Hl0 HH Hp Hiso.
  destruct (orth_total_charge_kept F dqr false psi w Hok Hpre Hc Hw1 Hw2 Hamp) as (p' & nrm0 & E & Hok' & Eqd' & Eh & El).
  assert (E1 : fst (orth_right_model F dqr psi) = p') by (unfold orth_right_model; rewrite E; reflexivity).
  destruct (orth_right_model_facts F dqr psi Hok Hpre Hc) as (G1 & G2 & G3 & G4).
  assert (Hq : 0 < length (m_qd psi)) by (destruct Hpre as (Hq & _); lia).
  intros qr split keig n A qD ens tr Hrun Hsp Hc10.
  destruct (dmrg2_boundary_nz F _ qr split keig H psi n d DsW Ds0 A qD ens tr Hrun HokH Eqd Hpos Hh0 Hl0 Hq G1 G2 G3 G4 HH Hp Hiso Hsp Hc10) as (H1 & H2 & H3).
  rewrite E1 in H1, H2. split; [congruence|]. split; [congruence|exact H3].
Qed.
