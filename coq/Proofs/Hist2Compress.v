(* C02, round 2: the oracle hypotheses of the history theorem for MPS.compress (both modes) and MPO.orthonormalize
   (mode 'right') are consequences of C13's / C01's theorems about the executable models (Model/Orthonormalize.v),
   and compression keeps the total charge of a non-zero state (both boundary charge lists are returned unchanged). *)
From Coq Require Import ZArith List Lia Bool Arith Ring Field.
From PT Require Import Base.Scalar Base.Field Base.BigSum Base.Mx Model.Tensor Model.BondOps Model.Orthonormalize Model.History.
From PT Require Import Proofs.BondOpsSpec Proofs.BondOpsRetained Proofs.BondOpsSVD Proofs.MPSOpsBase Proofs.MPSOpsMul.
From PT Require Import Proofs.OrthDefs Proofs.OrthQRExtra Proofs.OrthSweep Proofs.OrthTop Proofs.OrthRight Proofs.OrthMPO Proofs.OrthMPORight.
From PT Require Import Proofs.CompressPartial Proofs.CompressLocal Proofs.CompressSweep Proofs.CompressTop Proofs.CompressError Proofs.CompressRight.
From PT Require Import Proofs.HistSparse Proofs.HistCharge Proofs.HistInv Proofs.HistOrth.
Import ListNotations.
Open Scope nat_scope.

(* ---------- generic list / sum facts ---------- *)
Lemma last_rev_hd {A} (l : list A) (d : A) : last (rev l) d = hd d l.
Proof. destruct l as [|x l]; [reflexivity|]. cbn [rev hd]. apply last_last. Qed.

Section SumNz.
  Variable R : cring.
  Lemma suml_nz {A} (l : list A) (f : A -> R) : suml l f <> k0 R -> exists x, In x l /\ f x <> k0 R.
  Proof.
    induction l as [|x l IH]; simpl; intros H; [congruence|].
    apply add_nz in H. destruct H as [H|H].
    - exists x. split; [left; reflexivity|exact H].
    - destruct (IH H) as (y & Hy & Hf). exists y. split; [right; exact Hy|exact Hf].
  Qed.
  Lemma conj_nz (x : R) : kconj R x <> k0 R -> x <> k0 R.
  Proof. intros H E. apply H. rewrite E. apply kconj_0. Qed.
End SumNz.

Section OrdF.
  Variable F : ofield.
  Add Field Ffield_h2c : (f_ft F).
  Lemma fmul_nz (a b : F) : a <> f0 F -> b <> f0 F -> fmul F a b <> f0 F.
  Proof.
    intros Ha Hb E. apply Ha. replace a with (fdiv F (fmul F a b) b) by (field; exact Hb). rewrite E. field. exact Hb.
  Qed.
  Add Ring Kring_h2c : (k_rt (Cx F)).
  Lemma cof0_mul (x : Cx F) : kmul (Cx F) (@cof F (f0 F)) x = k0 (Cx F).
  Proof. change (@cof F (f0 F)) with (k0 (Cx F)). ring. Qed.
  Lemma cof_nz (x : F) : x <> f0 F -> @cof F x <> k0 (Cx F).
  Proof. intros H E. apply H. unfold cof in E. change (k0 (Cx F)) with (f0 F, f0 F) in E. congruence. Qed.
  (* x < 1 and 1 - x <= s*s  ==>  s <> 0 *)
  Lemma sq_lower_nz (x s : F) : flt F x (f1 F) -> fle F (fsub F (f1 F) x) (fmul F s s) -> s <> f0 F.
  Proof.
    intros Hx Hs E. subst s. apply (proj1 (flt_not_le F x (f1 F)) Hx).
    apply (fle_eq F (fadd F (fsub F (f1 F) x) x) (fadd F (fmul F (f0 F) (f0 F)) x)); [ring|ring|].
    apply fle_add. exact Hs.
  Qed.
End OrdF.

(* the sweep returns the charges of the bond it starts from unchanged *)
Lemma sweep_hd (R : cring) (step : step_t R) : forall cur qb rest qrest As qs T,
  sweep step cur qb rest qrest = Some (As, qs, T) -> hd [] qs = qb.
Proof.
  intros cur qb rest qrest As qs T E. destruct rest as [|An rest]; destruct qrest as [|qa qrest]; simpl in E; try discriminate.
  - destruct qrest; [|discriminate]. destruct (step cur one_site qb qa) as [[[A' T'] q']|]; [|discriminate].
    injection E as <- <- <-. reflexivity.
  - destruct (step cur An qb qa) as [[[A' An'] q']|]; [|discriminate].
    destruct (sweep step An' q' rest qrest) as [[[As2 qs2] T2]|]; [|discriminate]. injection E as <- <- <-. reflexivity.
Qed.

Section Hist2Compress.
  Variable F : ofield.
  Notation CF := (Cx F).
  Variable dqr : mx CF -> mx CF * mx CF.
  Variable dsvd : mx CF -> mx CF * list F * mx CF.
  Variable pick : list F -> list nat.
  Variable cabs : CF -> F.
  (* the tolerance of the call: History's [tag] stands for the remaining parameters *)
  Variable tolf : nat -> F.

  (* the result function of MPS.compress(tol, mode) given by the executable model *)
  Definition compress_result (tag : nat) (left : bool) (p : mps CF) : mps CF :=
    match mps_compress dqr dsvd pick cabs (tolf tag) left p with Some (p', _, _) => p' | None => p end.

  (* C13's hypotheses on the issued oracle calls: 0 <= tol < 1, LAPACK's QR contract on the preliminary orthonormalisation
     (opposite mode), dsvd_ok / pick_ok on the steps of the truncation sweep, abs on the final value T *)
  Definition compress_hyps (tol : F) (left : bool) (p : mps CF) : Prop :=
    fle F (f0 F) tol /\ flt F tol (f1 F) /\
    Forall (qr_call_ok F dqr) (mps_orth_calls dqr (negb left) p) /\
    (forall p1 n1, mps_orthonormalize dqr (negb left) p = Some (p1, n1) -> compress_ok dsvd pick tol left p1) /\
    (forall t, compress_T dqr dsvd pick tol left p = Some t -> abs_ok cabs t).

  Theorem compress_result_ok (tag : nat) (left : bool) (p : mps CF) :
    mps_ok p = true -> orth_pre F p -> compress_hyps (tolf tag) left p ->
    mps_ok (compress_result tag left p) = true /\
    length (hd [] (m_qD (compress_result tag left p))) = 1 /\ length (last (m_qD (compress_result tag left p)) []) = 1.
  Proof.
    intros Hok (Hd & Hne & H1 & H2 & Hpos) (Ht0 & Ht1 & Hq & Hs & Ha). unfold compress_result. destruct left.
    - destruct (compress_left_spec F dqr dsvd pick cabs p (length (m_qd p)) (tolf tag) Hd eq_refl Hne Hok H1 H2 Hpos Ht0 Ht1 Hq Hs Ha)
        as (p1 & p' & nrm & sc & _ & E & _ & _ & Hok' & Hh & Hl & _). rewrite E. auto.
    - destruct (compress_right_spec F dqr dsvd pick cabs p (length (m_qd p)) (tolf tag) Hd eq_refl Hne Hok H1 H2 Hpos Ht0 Ht1 Hq Hs Ha)
        as (p1 & p' & nrm & sc & _ & E & _ & _ & Hok' & Hh & Hl & _). rewrite E. auto.
  Qed.

  (* the Compress step of the state machine with this result function meets its oracle hypothesis (both modes) *)
  Theorem compress_step_contract (O : oracles CF) (s : state CF) (i tag : nat) (left : bool) :
    or_compress O = compress_result ->
    (forall p, nth_error (states s) i = Some p -> orth_pre F p /\ compress_hyps (tolf tag) left p) ->
    oracle_ok_at CF O s (Compress i tag left).
  Proof.
    intros EO H. simpl. intros p Ei Hok. rewrite EO. destruct (H p Ei) as [Hpre Hc].
    exact (proj1 (compress_result_ok tag left p Hok Hpre Hc)).
  Qed.

  (* ---------- MPO.orthonormalize, mode 'right' (C01_mpo_orth_right_spec) ---------- *)
  Theorem orth_mpo_right_result_ok (o : mpo CF) :
    mpo_ok o = true -> orth_mpo_pre F o -> Forall (qr_call_ok F dqr) (mpo_orth_calls dqr false o) ->
    mpo_ok (orth_mpo_result F dqr false o) = true.
  Proof.
    intros Hok (Hd & Hne & H1 & H2 & Hpos) Hc. unfold orth_mpo_result.
    destruct (mpo_orth_right_spec F dqr o (length (o_qd o)) Hd eq_refl Hne Hok H1 H2 Hpos Hc) as (o' & nrm & E & _ & _ & Hok' & _).
    rewrite E. exact Hok'.
  Qed.
  Theorem orth_mpo_right_step_contract (O : oracles CF) (s : state CF) (a : nat) :
    or_orth_mpo O = orth_mpo_result F dqr ->
    (forall x, nth_error (operators s) a = Some x -> orth_mpo_pre F x /\ Forall (qr_call_ok F dqr) (mpo_orth_calls dqr false x)) ->
    oracle_ok_at CF O s (OrthMpo a false).
  Proof.
    intros EO H. simpl. intros x Ea Hok. rewrite EO. destruct (H x Ea) as [Hpre Hc]. apply orth_mpo_right_result_ok; assumption.
  Qed.
  (* both modes in one statement *)
  Theorem orth_mpo_step_contract_both (O : oracles CF) (s : state CF) (a : nat) (left : bool) :
    or_orth_mpo O = orth_mpo_result F dqr ->
    (forall x, nth_error (operators s) a = Some x -> orth_mpo_pre F x /\ Forall (qr_call_ok F dqr) (mpo_orth_calls dqr left x)) ->
    oracle_ok_at CF O s (OrthMpo a left).
  Proof.
    destruct left; [apply orth_mpo_step_contract|apply orth_mpo_right_step_contract].
  Qed.

  (* ---------- (c) total charge through MPS.compress ---------- *)
  (* the truncation sweep starts from the first (mode 'left') resp. last (mode 'right') bond of the orthonormalised state and
     returns its charges unchanged *)
  Lemma compress_start_bond (tol : F) (left : bool) (p p1 p' : mps CF) nrm nrm' sc :
    mps_orthonormalize dqr (negb left) p = Some (p1, nrm) ->
    mps_compress dqr dsvd pick cabs tol left p = Some (p', nrm', sc) ->
    if left then hd [] (m_qD p') = hd [] (m_qD p1) else last (m_qD p') [] = last (m_qD p1) [].
  Proof.
    intros E1 EC. unfold mps_compress in EC. rewrite E1 in EC. destruct left.
    - unfold compress_core in EC. destruct (m_A p1) as [|A0 rest]; [discriminate|]. destruct (m_qD p1) as [|q0 qrest]; [discriminate|].
      destruct (sweep (stepLs dsvd pick tol (m_qd p1)) A0 q0 rest qrest) as [[[As' qs'] T]|] eqn:ES; [|discriminate].
      destruct (is111 T); [|discriminate]. injection EC as <- _ _. cbn [m_qD hd].
      exact (sweep_hd CF _ _ _ _ _ _ _ _ ES).
    - unfold compress_core in EC. destruct (rev (m_A p1)) as [|A0 rest]; [discriminate|].
      destruct (rev (m_qD p1)) as [|q0 qrest] eqn:Eq; [discriminate|].
      destruct (sweep (stepRs dsvd pick tol (m_qd p1)) A0 q0 rest qrest) as [[[As' qs'] T]|] eqn:ES; [|discriminate].
      destruct (is111 T); [|discriminate]. injection EC as <- _ _. cbn [m_qD].
      rewrite last_rev_hd. rewrite (sweep_hd CF _ _ _ _ _ _ _ _ ES).
      rewrite <- (rev_involutive (m_qD p1)), Eq, last_rev_hd. reflexivity.
  Qed.

  (* total_charge_kept for compress: a state with a non-zero amplitude, scale <> 0: both boundary charge lists are returned
     unchanged.  (The result is normalised and <psi'|psi> = nrm * scale <> 0, so psi and psi' share a word of non-zero
     amplitude; boundary bonds have dimension 1; every non-zero amplitude fixes qD[L][0] - qD[0][0].) *)
  Theorem compress_total_charge_kept_sc (tol : F) (left : bool) (p : mps CF) (w0 : list nat) :
    mps_ok p = true -> orth_pre F p -> compress_hyps tol left p ->
    length w0 = length (m_A p) -> Forall (fun s => s < length (m_qd p)) w0 -> amp (m_A p) w0 <> k0 CF ->
    (forall p' nrm sc, mps_compress dqr dsvd pick cabs tol left p = Some (p', nrm, sc) -> sc <> f0 F) ->
    exists p' nrm sc, mps_compress dqr dsvd pick cabs tol left p = Some (p', nrm, sc) /\ mps_ok p' = true /\ m_qd p' = m_qd p /\
      hd [] (m_qD p') = hd [] (m_qD p) /\ last (m_qD p') [] = last (m_qD p) [].
  Proof.
    intros Hok (Hd & Hne & H1 & H2 & Hpos) (Ht0 & Ht1 & Hq & Hs & Ha) HL0 Hw0 Hnz0 Hsc.
    set (d := length (m_qd p)) in *.
    assert (Hcommon : forall (p' : mps CF) nrm sc, nrm <> f0 F -> sc <> f0 F ->
              suml (words d (length (m_A p))) (fun w => kmul CF (kconj CF (amp (m_A p') w)) (amp (m_A p) w)) = cof (fmul F nrm sc) ->
              exists w, length w = length (m_A p) /\ Forall (fun s => s < d) w /\ amp (m_A p) w <> k0 CF /\ amp (m_A p') w <> k0 CF).
    { intros p' nrm sc Hn Hs' Hov.
      assert (Hne0 : suml (words d (length (m_A p))) (fun w => kmul CF (kconj CF (amp (m_A p') w)) (amp (m_A p) w)) <> k0 CF).
      { rewrite Hov. apply cof_nz. apply fmul_nz; assumption. }
      apply suml_nz in Hne0. destruct Hne0 as (w & Hw & Hnz). apply words_ok in Hw. destruct Hw as [Hlw Hfw].
      exists w. split; [exact Hlw|]. split; [exact Hfw|]. split; [exact (mul_nz_r CF _ _ Hnz)|].
      apply conj_nz. exact (mul_nz_l CF _ _ Hnz). }
    destruct left.
    - (* mode 'left': right-orthonormalise (keeps last; hd by the charge argument), sweep from the first bond *)
      destruct (compress_left_spec F dqr dsvd pick cabs p d tol Hd eq_refl Hne Hok H1 H2 Hpos Ht0 Ht1 Hq Hs Ha)
        as (p1 & p' & nrm & sc & E1 & EC & Eqd & EL & Hok' & Hh' & Hl' & _ & _ & _ & _ & _ & _ & _ & _ & _ & _ & _ & _ & Hov).
      destruct (orth_right_spec F dqr p d Hd eq_refl Hne Hok H1 H2 Hpos Hq)
        as (p1' & nrm1 & E1' & Eqd1 & EL1 & Hok1 & Elast1 & Hhd1 & _ & _ & _ & _ & Hamp1 & _).
      cbn [negb] in E1. rewrite E1 in E1'. injection E1' as <- <-.
      assert (Hnz1 : amp (m_A p1) w0 <> k0 CF). { rewrite (Hamp1 w0 HL0 Hw0) in Hnz0. exact (mul_nz_r CF _ _ Hnz0). }
      assert (Hnrm : nrm <> f0 F).
      { intros E. apply Hnz0. rewrite (Hamp1 w0 HL0 Hw0), E. apply cof0_mul. }
      assert (Ehd1 : hd [] (m_qD p1) = hd [] (m_qD p)).
      { apply (boundary_charge_determined CF p p1 w0); try assumption. congruence. }
      pose proof (compress_start_bond tol true p p1 p' nrm nrm sc E1 EC) as Ehd'. cbn beta iota in Ehd'.
      destruct (Hcommon p' nrm sc Hnrm (Hsc p' nrm sc EC) Hov) as (w & Hlw & Hfw & Hnzp & Hnzp').
      exists p', nrm, sc. split; [exact EC|]. split; [exact Hok'|]. split; [exact Eqd|].
      assert (Ehd : hd [] (m_qD p') = hd [] (m_qD p)) by congruence. split; [exact Ehd|].
      apply (boundary_charge_determined CF p p' w); assumption.
    - (* mode 'right': left-orthonormalise (keeps hd; last by the charge argument), sweep from the last bond *)
      destruct (compress_right_spec F dqr dsvd pick cabs p d tol Hd eq_refl Hne Hok H1 H2 Hpos Ht0 Ht1 Hq Hs Ha)
        as (p1 & p' & nrm & sc & E1 & EC & Eqd & EL & Hok' & Hh' & Hl' & _ & _ & _ & _ & _ & _ & _ & _ & _ & _ & _ & _ & Hov).
      destruct (orth_left_spec F dqr p d Hd eq_refl Hne Hok H1 H2 Hpos Hq)
        as (p1' & nrm1 & E1' & Eqd1 & EL1 & Hok1 & Ehd1 & Hl1 & _ & _ & _ & _ & Hamp1 & _).
      cbn [negb] in E1. rewrite E1 in E1'. injection E1' as <- <-.
      assert (Hnz1 : amp (m_A p1) w0 <> k0 CF). { rewrite (Hamp1 w0 HL0 Hw0) in Hnz0. exact (mul_nz_r CF _ _ Hnz0). }
      assert (Hnrm : nrm <> f0 F).
      { intros E. apply Hnz0. rewrite (Hamp1 w0 HL0 Hw0), E. apply cof0_mul. }
      assert (Elast1 : last (m_qD p1) [] = last (m_qD p) []).
      { apply (boundary_charge_determined CF p p1 w0); try assumption. congruence. }
      pose proof (compress_start_bond tol false p p1 p' nrm nrm sc E1 EC) as Elast'. cbn beta iota in Elast'.
      destruct (Hcommon p' nrm sc Hnrm (Hsc p' nrm sc EC) Hov) as (w & Hlw & Hfw & Hnzp & Hnzp').
      exists p', nrm, sc. split; [exact EC|]. split; [exact Hok'|]. split; [exact Eqd|].
      assert (Elast : last (m_qD p') [] = last (m_qD p) []) by congruence. split; [|exact Elast].
      apply (boundary_charge_determined CF p p' w); assumption.
  Qed.

  (* the scale hypothesis follows from L * tol < 1 (C13: 1 - L tol <= scale^2) *)
  Theorem compress_total_charge_kept (tol : F) (left : bool) (p : mps CF) (w0 : list nat) :
    mps_ok p = true -> orth_pre F p -> compress_hyps tol left p ->
    length w0 = length (m_A p) -> Forall (fun s => s < length (m_qd p)) w0 -> amp (m_A p) w0 <> k0 CF ->
    flt F (nsmul (length (m_A p)) tol) (f1 F) ->
    exists p' nrm sc, mps_compress dqr dsvd pick cabs tol left p = Some (p', nrm, sc) /\ mps_ok p' = true /\ m_qd p' = m_qd p /\
      hd [] (m_qD p') = hd [] (m_qD p) /\ last (m_qD p') [] = last (m_qD p) [].
  Proof.
    intros Hok Hpre Hhyp HL0 Hw0 Hnz0 HLt.
    apply (compress_total_charge_kept_sc tol left p w0); try assumption.
    destruct Hpre as (Hd & Hne & H1 & H2 & Hpos). destruct Hhyp as (Ht0 & Ht1 & Hq & Hs & Ha).
    intros p' nrm sc EC. destruct left.
    - destruct (compress_left_error F dqr dsvd pick cabs p (length (m_qd p)) tol Hd eq_refl Hne Hok H1 H2 Hpos Ht0 Ht1 Hq Hs Ha)
        as (p2 & nrm2 & sc2 & EC2 & Hlow & _). rewrite EC in EC2. injection EC2 as <- <- <-.
      exact (sq_lower_nz F _ _ HLt Hlow).
    - destruct (compress_right_error F dqr dsvd pick cabs p (length (m_qd p)) tol Hd eq_refl Hne Hok H1 H2 Hpos Ht0 Ht1 Hq Hs Ha)
        as (p2 & nrm2 & sc2 & EC2 & Hlow & _). rewrite EC in EC2. injection EC2 as <- <- <-.
      exact (sq_lower_nz F _ _ HLt Hlow).
  Qed.
End Hist2Compress.
