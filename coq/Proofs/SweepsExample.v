(* A concrete rational instance (L = 2, d = 2, bond dimension 2, H = Z(x)Z + X(x)I) on which every hypothesis of the
   whole-run theorems of Properties/C08.v and C10.v can be evaluated: the state is right-orthonormal with rational entries,
   all QR factorisations met during the sweeps are rational (3-4-5 rotations), the local solvers are the trivial ones. *)
From Coq Require Import ZArith QArith Qcanon List Bool.
From PT Require Import Base.Scalar Base.Field Base.BigSum Base.Mx Model.Tensor Model.Operation Model.Sweeps Proofs.SweepsCheck.
Import ListNotations.

Definition exq (n : Z) (dn : positive) : CQ := (Q2Qc (n # dn), Q2Qc 0).
Definition exm (m n : nat) (rows : list (list (Qc * Qc))) : mx CQ := @mkmx CQ m n rows.
Open Scope Z_scope.
Definition exA0 : site CQ := [exm 1 2 [[exq 9 25; exq 16 25]]; exm 1 2 [[exq (-12) 25; exq 12 25]]].
Definition exA1 : site CQ := [exm 2 1 [[exq 3 5]; [exq (-4) 5]]; exm 2 1 [[exq 4 5]; [exq 3 5]]].
Definition exM0 : mx CQ := exm 2 2 [[exq 9 25; exq 16 25]; [exq (-12) 25; exq 12 25]].
Definition exQ0 : mx CQ := exm 2 2 [[exq 3 5; exq 4 5]; [exq (-4) 5; exq 3 5]].
Definition exC0 : mx CQ := exm 2 2 [[exq 3 5; exq 0 1]; [exq 0 1; exq 4 5]].
Definition exUt : mx CQ := exm 2 2 [[exq 3 5; exq (-4) 5]; [exq 4 5; exq 3 5]].
Definition exm12 (a b : Z) : mx CQ := exm 1 2 [[exq a 1; exq b 1]].
Definition exm21 (a b : Z) : mx CQ := exm 2 1 [[exq a 1]; [exq b 1]].
(* H = Z (x) Z + X (x) I as an MPO of bond dimension 2 *)
Definition exW0 : osite CQ := [[exm12 1 0; exm12 0 1]; [exm12 0 1; exm12 (-1) 0]].
Definition exW1 : osite CQ := [[exm21 1 1; exm21 0 0]; [exm21 0 0; exm21 (-1) 1]].
Definition exH : mpo CQ := mkmpo [0; 0] [[0]; [0; 0]; [0]] [exW0; exW1].
Definition exPsi : mps CQ := mkmps [0; 0] [[0]; [0; 0]; [0]] [exA0; exA1].
Definition exdt : CQ := (Q2Qc 0, Q2Qc (1 # 10)).
Definition exhdt : CQ := (Q2Qc 0, Q2Qc (1 # 20)).
Close Scope Z_scope.

Definition ex_orth (psi : mps CQ) : mps CQ * CQ := (psi, k1 CQ).
Definition ex_qr (_ : nat) (M : mx CQ) (_ q1 : list Z) : mx CQ * mx CQ * list Z :=
  if Nat.eqb (nc M) 1 then (M, idmx 1, q1) else if mxeqb M exM0 then (exQ0, exC0, q1) else (exUt, exC0, q1).
