(* Partial correctness of the Hopcroft-Karp mirror: whenever [hopcroft_karp g] returns, the result is a
   matching (existing, pairwise vertex-disjoint edges).  The state invariant says that [mu] and [mv] are
   mutually inverse partial injections along existing edges; [bfs] only touches [dist]; a successful [dfs]
   from [u] leaves exactly one stale entry ([mv] at the old partner of [u]), which the caller overwrites. *)
From Coq Require Import ZArith List Bool Lia.
From PT Require Import Model.Bipartite Proofs.BipartiteCert Proofs.BipartiteGraphSem.
Import ListNotations.
Open Scope Z_scope.

(* ---------- Z-indexed arrays ---------- *)

Lemma zset_length l i x : length (zset l i x) = length l.
Proof. apply upd_length. Qed.

Lemma zget_zset_same l i x : 0 <= i < Z.of_nat (length l) -> zget (zset l i x) i = x.
Proof. intros H. unfold zget, zset. apply nth_upd_same. lia. Qed.

Lemma zget_zset_other l i k x : 0 <= i -> 0 <= k -> k <> i -> zget (zset l i x) k = zget l k.
Proof. intros Hi Hk H. unfold zget, zset. apply nth_upd_other. lia. Qed.

Lemma dget_dset_other d u w x : -1 <= u -> -1 <= w -> w <> u -> dget (dset d u x) w = dget d w.
Proof. intros Hu Hw H. unfold dget, dset. apply zget_zset_other; lia. Qed.

Lemma dset_length d u x : length (dset d u x) = length d.
Proof. apply upd_length. Qed.

Lemma nth_upd_cases {A} (l : list A) i k x d : nth k (upd l i x) d = nth k l d \/ nth k (upd l i x) d = x.
Proof.
  destruct (Nat.eq_dec k i) as [->|H]; [|left; apply nth_upd_other; exact H].
  destruct (Nat.lt_ge_cases i (length l)) as [Hi|Hi]; [right; apply nth_upd_same; exact Hi|left].
  rewrite !nth_overflow; [reflexivity|exact Hi|rewrite upd_length; exact Hi].
Qed.

Lemma dget_dset_cases d u x w : dget (dset d u x) w = dget d w \/ dget (dset d u x) w = x.
Proof. unfold dget, dset, zget, zset. apply nth_upd_cases. Qed.

Lemma dget_dset_same d u x : -1 <= u -> u + 1 < Z.of_nat (length d) -> dget (dset d u x) u = x.
Proof. intros H1 H2. unfold dget, dset. apply zget_zset_same. lia. Qed.

Lemma nth_repeat_lt {A} (a d : A) n k : (k < n)%nat -> nth k (repeat a n) d = a.
Proof. revert k. induction n as [|n IH]; intros [|k] H; simpl; try lia; [reflexivity|apply IH; lia]. Qed.

(* ---------- the for-loop of __add_augmenting_path as a separate fixpoint ---------- *)

Definition dfs_loop (g : bg) (rec : hk -> Z -> option (hk * bool)) (u : Z) :=
  fix loop (vs : list Z) (s : hk) : option (hk * bool) :=
    match vs with
    | [] => Some ({| mu := mu s; mv := mv s; dist := dset (dist s) u (inf g) |}, false)
    | v :: vs' =>
        if dget (dist s) (zget (mv s) v) =? dget (dist s) u + 1 then
          match rec s (zget (mv s) v) with
          | None => None
          | Some (s', true) => Some ({| mu := zset (mu s') u v; mv := zset (mv s') v u; dist := dist s' |}, true)
          | Some (s', false) => loop vs' s'
          end
        else loop vs' s
    end.

Lemma dfs_S g f s u :
  dfs g (S f) s u = if u =? -1 then Some (s, true) else dfs_loop g (dfs g f) u (adj_u g u) s.
Proof. reflexivity. Qed.

Section HK.
  Variable g : bg.
  Hypothesis Hadj : adj_ok g.
  Let NU := Z.of_nat (nu g).
  Let NV := Z.of_nat (nv g).

  Definition lens (s : hk) : Prop := length (mu s) = nu g /\ length (mv s) = nv g.
  (* every matched u points along an existing edge to a v that points back *)
  Definition matchA (s : hk) : Prop := forall u, 0 <= u < NU ->
    zget (mu s) u = -1 \/ (In (zget (mu s) u) (adj_u g u) /\ zget (mv s) (zget (mu s) u) = u).
  (* v is free, or points to an in-range u that points back *)
  Definition matchB_at (s : hk) (v : Z) : Prop :=
    zget (mv s) v = -1 \/ (0 <= zget (mv s) v < NU /\ zget (mu s) (zget (mv s) v) = v).
  Definition Inv (s : hk) : Prop := lens s /\ matchA s /\ (forall v, 0 <= v < NV -> matchB_at s v).

  Lemma Inv_ext s s' : mu s' = mu s -> mv s' = mv s -> Inv s -> Inv s'.
  Proof. unfold Inv, lens, matchA, matchB_at. intros -> ->. exact (fun H => H). Qed.

  (* vertices at distance <= dist u, other than u, are not touched by dfs from u *)
  Definition frame (s s' : hk) (u : Z) : Prop := forall w, 0 <= w -> w <> u ->
    dget (dist s) w <= dget (dist s) u ->
    dget (dist s') w = dget (dist s) w /\ zget (mu s') w = zget (mu s) w.

  (* dfs changes dist only by overwriting entries with inf *)
  Definition dpres (d d' : list Z) : Prop :=
    length d' = length d /\ forall w, dget d' w = dget d w \/ dget d' w = inf g.
  Lemma dpres_refl d : dpres d d.
  Proof. split; [reflexivity|]. intros w. left. reflexivity. Qed.
  Lemma dpres_trans d1 d2 d3 : dpres d1 d2 -> dpres d2 d3 -> dpres d1 d3.
  Proof.
    intros [L1 H1] [L2 H2]. split; [congruence|]. intros w.
    destruct (H2 w) as [E|E]; [|right; exact E]. rewrite E. apply H1.
  Qed.

  (* state after a successful dfs from u whose previous partner was v0 (possibly -1) *)
  Definition post (v0 : Z) (s' : hk) (u : Z) : Prop :=
    lens s' /\ matchA s' /\
    (forall v, 0 <= v < NV -> v <> v0 -> matchB_at s' v) /\
    (0 <= v0 < NV -> zget (mv s') v0 = u) /\
    zget (mu s') u <> -1 /\ zget (mu s') u <> v0.

  Definition dfs_spec (s : hk) (u : Z) (r : hk * bool) : Prop :=
    frame s (fst r) u /\ dpres (dist s) (dist (fst r)) /\
    (forall w, 0 <= w < NU -> zget (mu s) w <> -1 -> zget (mu (fst r)) w <> -1) /\
    (snd r = false -> mu (fst r) = mu s /\ mv (fst r) = mv s) /\
    (snd r = true -> u = -1 -> fst r = s) /\
    (snd r = true -> u <> -1 -> post (zget (mu s) u) (fst r) u).

  (* the re-matching step  mu[u] := v; mv[v] := u *)
  Lemma augment_post s' u v v0 :
    0 <= u < NU -> 0 <= v < NV -> In v (adj_u g u) ->
    lens s' -> matchA s' -> (forall v', 0 <= v' < NV -> v' <> v -> matchB_at s' v') ->
    zget (mu s') u = v0 -> (forall w, 0 <= w < NU -> zget (mu s') w <> v) ->
    post v0 {| mu := zset (mu s') u v; mv := zset (mv s') v u; dist := dist s' |} u.
  Proof.
    intros Hu Hv Hin [Hl1 Hl2] HA HB Hv0 Hfree.
    assert (Hvv0 : v <> v0). { intros E. apply (Hfree u Hu). congruence. }
    assert (Huu : zget (zset (mu s') u v) u = v). { apply zget_zset_same. unfold NU in Hu. lia. }
    assert (Hvv : zget (zset (mv s') v u) v = u). { apply zget_zset_same. unfold NV in Hv. lia. }
    unfold post, lens, matchA, matchB_at. cbn [mu mv dist].
    split; [|split; [|split; [|split; [|split]]]].
    - rewrite !zset_length. split; assumption.
    - intros w Hw. destruct (Z.eq_dec w u) as [->|Hwu].
      + right. rewrite Huu, Hvv. split; [exact Hin|reflexivity].
      + rewrite zget_zset_other by lia. destruct (HA w Hw) as [H|[H1 H2]]; [left; exact H|right].
        split; [exact H1|]. pose proof (Hadj _ _ H1) as Hr. fold NV in Hr.
        rewrite zget_zset_other; [exact H2|lia|lia|]. apply Hfree. exact Hw.
    - intros v' Hv' Hne. destruct (Z.eq_dec v' v) as [->|Hv'v].
      + right. rewrite Hvv, Huu. split; [exact Hu|reflexivity].
      + rewrite zget_zset_other by lia. destruct (HB v' Hv' Hv'v) as [H|[H1 H2]]; [left; exact H|right].
        split; [exact H1|]. rewrite zget_zset_other; [exact H2|lia|lia|].
        intros E. rewrite E in H2. congruence.
    - intros Hr. rewrite zget_zset_other by lia.
      destruct (HA u Hu) as [H|[_ H]]; [lia|]. rewrite Hv0 in H. exact H.
    - rewrite Huu. lia.
    - rewrite Huu. exact Hvv0.
  Qed.

  Lemma dfs_loop_ok f
    (IHf : forall s u r, Inv s -> (u = -1 \/ 0 <= u < NU) -> dfs g f s u = Some r -> dfs_spec s u r)
    s u (Hu : 0 <= u < NU) :
    forall vs, incl vs (adj_u g u) ->
    forall si r, Inv si -> mu si = mu s -> mv si = mv s ->
      (forall w, 0 <= w -> dget (dist s) w <= dget (dist s) u -> dget (dist si) w = dget (dist s) w) ->
      dpres (dist s) (dist si) ->
      dfs_loop g (dfs g f) u vs si = Some r -> dfs_spec s u r.
  Proof.
    induction vs as [|v vs IH]; intros Hincl si r Hinv Emu Emv Hfr Hdp Hr.
    - simpl in Hr. injection Hr as <-. unfold dfs_spec, frame. cbn [fst snd mu mv dist].
      split; [|split; [|split; [|split; [|split]]]]; try discriminate.
      + intros w Hw Hwu Hle. rewrite dget_dset_other by lia. rewrite Emu. split; [apply Hfr; assumption|reflexivity].
      + apply (dpres_trans _ (dist si)); [exact Hdp|]. split; [apply dset_length|]. intros w. apply dget_dset_cases.
      + intros w _ Hw. rewrite Emu. exact Hw.
      + intros _. split; assumption.
    - assert (Hv : 0 <= v < NV). { apply (Hadj u). apply Hincl. left. reflexivity. }
      assert (Hvin : In v (adj_u g u)). { apply Hincl. left. reflexivity. }
      assert (Hincl' : incl vs (adj_u g u)). { intros x Hx. apply Hincl. right. exact Hx. }
      cbn [dfs_loop] in Hr.
      destruct (dget (dist si) (zget (mv si) v) =? dget (dist si) u + 1) eqn:Ed.
      2:{ apply (IH Hincl' si r); assumption. }
      apply Z.eqb_eq in Ed.
      destruct Hinv as [Hlen [HA HB]].
      assert (Hinv : Inv si) by (split; [exact Hlen|split; assumption]).
      set (u' := zget (mv si) v) in *.
      assert (Hu' : u' = -1 \/ 0 <= u' < NU /\ zget (mu si) u' = v).
      { destruct (HB v Hv) as [H|H]; [left; exact H|right; exact H]. }
      destruct (dfs g f si u') as [[s' b]|] eqn:Er; [|discriminate].
      assert (Hspec : dfs_spec si u' (s', b)).
      { apply IHf; [exact Hinv| |exact Er]. destruct Hu' as [H|[H _]]; [left|right]; exact H. }
      destruct Hspec as [Hframe [Hdp' [Hkeep [Hfalse [Htrue1 Htrue2]]]]]. cbn [fst snd] in *.
      assert (Hdp2 : dpres (dist s) (dist s')) by (apply (dpres_trans _ (dist si)); assumption).
      assert (Hdu : dget (dist si) u = dget (dist s) u). { apply Hfr; lia. }
      destruct b.
      + (* the recursive call succeeded: re-match u with v *)
        injection Hr as <-.
        assert (Hne : u <> u'). { intros E. rewrite <- E in Ed. lia. }
        (* facts about s' common to both cases *)
        assert (Hs' : lens s' /\ matchA s' /\ (forall v', 0 <= v' < NV -> v' <> v -> matchB_at s' v') /\
                      zget (mu s') u = zget (mu s) u /\ (forall w, 0 <= w < NU -> zget (mu s') w <> v) /\
                      (forall w, 0 <= w -> w <> u -> dget (dist s) w <= dget (dist s) u ->
                         dget (dist s') w = dget (dist s) w /\ zget (mu s') w = zget (mu s) w)).
        { destruct (Z.eq_dec u' (-1)) as [E1|E1].
          - rewrite (Htrue1 eq_refl E1). split; [exact Hlen|split; [exact HA|split; [|split; [|split]]]].
            + intros v' Hv' _. apply HB. exact Hv'.
            + rewrite Emu. reflexivity.
            + intros w Hw E. destruct (HA w Hw) as [H|[_ H]]; [lia|]. rewrite E in H. fold u' in H. lia.
            + intros w Hw _ Hle. rewrite Emu. split; [apply Hfr; assumption|reflexivity].
          - destruct Hu' as [H|[Hu'r Hu'v]]; [contradiction|].
            destruct (Htrue2 eq_refl E1) as [P1 [P2 [P3 [P4 [P5 P6]]]]]. rewrite Hu'v in *.
            split; [exact P1|split; [exact P2|split; [exact P3|split; [|split]]]].
            + rewrite <- Emu. apply Hframe; lia.
            + intros w Hw E. destruct (P2 w Hw) as [H|[_ H]]; [lia|]. rewrite E, (P4 Hv) in H.
              subst w. contradiction.
            + intros w Hw Hwu Hle. pose proof (Hfr w Hw Hle) as Hdw.
              destruct (Hframe w Hw) as [F1 F2].
              * intros E. subst w. lia.
              * lia.
              * rewrite F1, F2, Emu. split; [exact Hdw|reflexivity]. }
        destruct Hs' as [Q1 [Q2 [Q3 [Q4 [Q5 Q6]]]]].
        unfold dfs_spec, frame. cbn [fst snd].
        split; [|split; [|split; [|split; [|split]]]]; try discriminate.
        * intros w Hw Hwu Hle. cbn [mu mv dist]. rewrite zget_zset_other by lia. apply Q6; assumption.
        * cbn [dist]. exact Hdp2.
        * intros w Hw Hm. cbn [mu]. destruct (Z.eq_dec w u) as [->|Hwu].
          -- rewrite zget_zset_same by (destruct Q1 as [Q1 _]; rewrite Q1; exact Hu). lia.
          -- rewrite zget_zset_other by lia. apply Hkeep; [exact Hw|]. rewrite Emu. exact Hm.
        * intros _ E. lia.
        * intros _ _. apply augment_post; assumption.
      + (* the recursive call failed: only dist changed; continue with the remaining neighbours *)
        destruct (Hfalse eq_refl) as [F1 F2].
        apply (IH Hincl' s' r); try congruence.
        * apply (Inv_ext si); assumption.
        * intros w Hw Hle. pose proof (Hfr w Hw Hle) as Hdw.
          destruct (Hframe w Hw) as [G1 _]; [intros E; subst w; lia|lia|]. congruence.
  Qed.

  Lemma dfs_ok : forall f s u r, Inv s -> (u = -1 \/ 0 <= u < NU) -> dfs g f s u = Some r -> dfs_spec s u r.
  Proof.
    induction f as [|f IHf]; intros s u r Hinv Hu Hr; [discriminate|].
    rewrite dfs_S in Hr. destruct (Z.eqb_spec u (-1)) as [E|E].
    - injection Hr as <-. unfold dfs_spec, frame. cbn [fst snd]. split; [|split; [|split; [|split; [|split]]]].
      + intros w _ _ _. split; reflexivity.
      + apply dpres_refl.
      + intros w _ Hw. exact Hw.
      + discriminate.
      + reflexivity.
      + intros _ H. contradiction.
    - destruct Hu as [Hu|Hu]; [contradiction|].
      apply (dfs_loop_ok f IHf s u Hu (adj_u g u) (incl_refl _) s r); auto. apply dpres_refl.
  Qed.

  (* dfs started (by [phase]) at an unmatched vertex restores the full invariant *)
  Lemma dfs_root_ok f s u s' b : Inv s -> 0 <= u < NU -> zget (mu s) u = -1 ->
    dfs g f s u = Some (s', b) -> Inv s'.
  Proof.
    intros Hinv Hu Hfree Hr.
    destruct (dfs_ok f s u (s', b) Hinv (or_intror Hu) Hr) as [_ [_ [_ [Hfalse [_ Htrue]]]]]. cbn [fst snd] in *.
    destruct b.
    - destruct (Htrue eq_refl) as [P1 [P2 [P3 _]]]; [lia|]. split; [exact P1|split; [exact P2|]].
      intros v Hv. apply P3; [exact Hv|]. rewrite Hfree. lia.
    - destruct (Hfalse eq_refl) as [F1 F2]. apply (Inv_ext s); assumption.
  Qed.

  Lemma bfs_mu_mv s s1 b : bfs g s = Some (s1, b) -> mu s1 = mu s /\ mv s1 = mv s.
  Proof.
    unfold bfs. destruct (bfs_init g s) as [d0 q0].
    destruct (bfs_loop g (nu g + 2) s (dset d0 (-1) (inf g)) q0); [|discriminate].
    intros H. injection H as <- _. split; reflexivity.
  Qed.

  Definition phase_step (acc : option hk) (u : Z) : option hk :=
    match acc with None => None | Some s =>
      if zget (mu s) u =? -1 then option_map fst (dfs g (nu g + 2) s u) else Some s end.

  Lemma phase_fold_None l : fold_left phase_step l None = None.
  Proof. induction l as [|u l IH]; simpl; [reflexivity|exact IH]. Qed.

  Lemma phase_fold_ok : forall l, incl l (us g) -> forall s s', Inv s ->
    fold_left phase_step l (Some s) = Some s' -> Inv s'.
  Proof.
    induction l as [|u l IH]; intros Hincl s s' Hinv Hr; simpl in Hr.
    - injection Hr as <-. exact Hinv.
    - assert (Hu : 0 <= u < NU). { apply us_In. apply Hincl. left. reflexivity. }
      assert (Hincl' : incl l (us g)). { intros x Hx. apply Hincl. right. exact Hx. }
      destruct (zget (mu s) u =? -1) eqn:E.
      + apply Z.eqb_eq in E. destruct (dfs g (nu g + 2) s u) as [[s1 b]|] eqn:Ed; simpl in Hr.
        * apply (IH Hincl' s1 s'); [|exact Hr]. apply (dfs_root_ok (nu g + 2)%nat s u s1 b); assumption.
        * rewrite phase_fold_None in Hr. discriminate.
      + apply (IH Hincl' s s'); assumption.
  Qed.

  Lemma phase_ok s s' : Inv s -> phase g s = Some s' -> Inv s'.
  Proof. intros Hinv Hr. apply (phase_fold_ok (us g) (incl_refl _) s s' Hinv). exact Hr. Qed.

  Lemma outer_ok : forall f s s', Inv s -> outer g f s = Some s' -> Inv s'.
  Proof.
    induction f as [|f IH]; intros s s' Hinv Hr; [discriminate|]. simpl in Hr.
    destruct (bfs g s) as [[s1 b]|] eqn:Eb; [|discriminate].
    destruct (bfs_mu_mv s s1 b Eb) as [E1 E2].
    assert (Hinv1 : Inv s1) by (apply (Inv_ext s); assumption).
    destruct b.
    - destruct (phase g s1) as [s2|] eqn:Ep; [|discriminate].
      apply (IH s2 s'); [|exact Hr]. apply (phase_ok s1); assumption.
    - injection Hr as <-. exact Hinv1.
  Qed.

  Definition hk_init : hk :=
    {| mu := repeat (-1) (nu g); mv := repeat (-1) (nv g); dist := repeat 0 (nu g + 1) |}.

  Lemma Inv_init : Inv hk_init.
  Proof.
    split; [|split].
    - split; apply repeat_length.
    - intros u Hu. left. unfold zget, hk_init. cbn [mu]. apply nth_repeat_lt. unfold NU in Hu. lia.
    - intros v Hv. left. unfold zget, hk_init. cbn [mv]. apply nth_repeat_lt. unfold NV in Hv. lia.
  Qed.

  (* the list returned by HopcroftKarp.__call__ *)
  Definition matching_of (s : hk) : list (Z * Z) :=
    filter (fun p => negb (snd p =? -1)) (combine (us g) (mu s)).

  Lemma hopcroft_karp_unfold :
    hopcroft_karp g = match outer g (nu g + 2) hk_init with Some s => Some (matching_of s) | None => None end.
  Proof. reflexivity. Qed.

  Lemma hk_final_state m : hopcroft_karp g = Some m -> exists s, Inv s /\ m = matching_of s.
  Proof.
    rewrite hopcroft_karp_unfold. destruct (outer g (nu g + 2) hk_init) as [s|] eqn:E; [|discriminate].
    intros H. injection H as <-. exists s. split; [|reflexivity]. apply (outer_ok _ _ _ Inv_init E).
  Qed.

  Lemma combine_zseq_In (l : list Z) a b : forall n s, In (a, b) (combine (map Z.of_nat (seq s n)) l) ->
    exists k, (k < n)%nat /\ a = Z.of_nat (s + k) /\ b = nth k l 0.
  Proof.
    revert l. intros l n. revert l. induction n as [|n IH]; intros l s H; simpl in H; [contradiction|].
    destruct l as [|h t]; [contradiction|]. destruct H as [H|H].
    - inversion H. exists 0%nat. split; [lia|]. split; [f_equal; lia|reflexivity].
    - destruct (IH t (S s) H) as [k [Hk [Ea Eb]]]. exists (S k). split; [lia|]. split; [rewrite Ea; f_equal; lia|exact Eb].
  Qed.

  Lemma matching_of_In s a b : In (a, b) (matching_of s) -> 0 <= a < NU /\ b = zget (mu s) a /\ b <> -1.
  Proof.
    unfold matching_of. rewrite filter_In. cbn [snd]. intros [H1 H2].
    apply combine_zseq_In in H1. destruct H1 as [k [Hk [Ea Eb]]]. simpl in Ea.
    apply negb_true_iff in H2. apply Z.eqb_neq in H2. unfold NU, zget. subst a.
    rewrite Nat2Z.id. split; [lia|split; assumption].
  Qed.

  Lemma NoDup_map_fst_combine {A B} (a : list A) (b : list B) : NoDup a -> NoDup (map fst (combine a b)).
  Proof.
    revert b. induction a as [|x a IH]; intros b Ha; simpl; [constructor|]. destruct b as [|y b]; [constructor|].
    inversion Ha as [|? ? H1 H2]; subst. simpl. constructor; [|apply IH; exact H2].
    rewrite in_map_iff. intros [[x' y'] [E Hin]]. simpl in E. subst x'. apply in_combine_l in Hin. contradiction.
  Qed.

  Lemma NoDup_map_fst_filter {A B} (P : A * B -> bool) (l : list (A * B)) :
    NoDup (map fst l) -> NoDup (map fst (filter P l)).
  Proof.
    induction l as [|p l IH]; simpl; intros H; [constructor|]. inversion H as [|? ? H1 H2]; subst.
    destruct (P p); [|apply IH; exact H2]. simpl. constructor; [|apply IH; exact H2].
    intros Hin. apply H1. apply in_map_iff in Hin. destruct Hin as [q [E Hq]]. apply filter_In in Hq.
    rewrite <- E. apply in_map. apply Hq.
  Qed.

  Lemma NoDup_map_inj_on {A B} (f : A -> B) (l : list A) :
    NoDup l -> (forall x y, In x l -> In y l -> f x = f y -> x = y) -> NoDup (map f l).
  Proof.
    induction l as [|a l IH]; intros Hnd Hinj; simpl; [constructor|]. inversion Hnd as [|? ? H1 H2]; subst.
    constructor.
    - rewrite in_map_iff. intros [y [E Hy]]. apply H1. rewrite (Hinj a y); [exact Hy|left; reflexivity|right; exact Hy|].
      symmetry. exact E.
    - apply IH; [exact H2|]. intros x y Hx Hy. apply Hinj; right; assumption.
  Qed.

  Lemma matching_of_fst_NoDup s : NoDup (map fst (matching_of s)).
  Proof. apply NoDup_map_fst_filter. apply NoDup_map_fst_combine. apply us_NoDup. Qed.

  Lemma Inv_Matching s : Inv s -> Matching g (matching_of s).
  Proof.
    intros [Hlen [HA HB]]. split; [|split].
    - intros [a b] Hp. cbn [fst snd]. destruct (matching_of_In s a b Hp) as [Ha [Eb Hb]].
      destruct (HA a Ha) as [H|[H _]]; [congruence|]. rewrite <- Eb in H.
      pose proof (Hadj _ _ H) as Hr. unfold NU in Ha.
      unfold has_edge, in_range. rewrite !andb_true_iff, !Z.leb_le, !Z.ltb_lt, mem_In.
      split; [split; lia|exact H].
    - apply matching_of_fst_NoDup.
    - apply NoDup_map_inj_on.
      + apply NoDup_map_inv with (f := fst). apply matching_of_fst_NoDup.
      + intros [a b] [a' b'] Hp Hq E. cbn [snd] in E. subst b'.
        destruct (matching_of_In s a b Hp) as [Ha [Eb Hb]].
        destruct (matching_of_In s a' b Hq) as [Ha' [Eb' _]].
        destruct (HA a Ha) as [H|[_ H]]; [congruence|].
        destruct (HA a' Ha') as [H'|[_ H']]; [congruence|].
        rewrite <- Eb in H. rewrite <- Eb' in H'. congruence.
  Qed.

  (* Whenever the Hopcroft-Karp mirror returns, the result is a matching of g. *)
  Theorem hk_matching_valid m : hopcroft_karp g = Some m -> Matching g m.
  Proof. intros H. destruct (hk_final_state m H) as [s [Hinv ->]]. apply Inv_Matching. exact Hinv. Qed.
End HK.

Theorem hk_matching_valid_mk n_u n_v edges m : (forall e, In e edges -> edge_ok n_u n_v e) ->
  hopcroft_karp (mk_bg n_u n_v edges) = Some m -> Matching (mk_bg n_u n_v edges) m.
Proof. intros Hok. apply hk_matching_valid. apply mk_bg_adj_ok. exact Hok. Qed.
