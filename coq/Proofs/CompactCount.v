(* C20: the counting argument of DESIGN Appendix B.  For a site graph with duplicate-free edge list [es], a valid cover
   (uc, vc) and a matching m of the same size:  sum_{i in uc} deg i + |vc| <= |es|  and  |uc| + |vc| <= |es|. *)
From Coq Require Import ZArith List Lia Bool.
From PT Require Import Model.FromOpchains Proofs.FromOpchainsPart.
Import ListNotations.
Open Scope nat_scope.

Lemma nmem_In' x l : existsb (Nat.eqb x) l = true <-> In x l.
Proof.
  rewrite existsb_exists. split.
  - intros [y [H E]]. apply Nat.eqb_eq in E. subst. exact H.
  - intros H. exists x. split; auto. apply Nat.eqb_refl.
Qed.
Lemma nodupn_NoDup' l : nodupn l = true -> NoDup l.
Proof.
  induction l as [|x l IH]; simpl; intros H; [constructor|]. apply andb_true_iff in H. destruct H as [H1 H2].
  constructor; [|apply IH; exact H2]. intros Hin. apply nmem_In' in Hin. rewrite Hin in H1. discriminate.
Qed.

(* adjacency lists of BipartiteGraph: duplicate free, exactly the neighbours *)
Lemma adjU_gen (es : list (nat * nat)) (i : nat) : forall acc, NoDup acc ->
  let r := fold_left (fun acc e => if Nat.eqb (fst e) i then (if existsb (Nat.eqb (snd e)) acc then acc else acc ++ [snd e]) else acc) es acc in
  NoDup r /\ forall j, In j r <-> In j acc \/ In (i, j) es.
Proof.
  induction es as [|[a b] es IH]; intros acc Hn; cbn [fold_left fst snd].
  - cbn zeta. split; [exact Hn|]. intros j. simpl. tauto.
  - destruct (Nat.eqb a i) eqn:E.
    + apply Nat.eqb_eq in E. subst a. destruct (existsb (Nat.eqb b) acc) eqn:Em.
      * destruct (IH acc Hn) as [A B]. cbn zeta. split; [exact A|]. intros j. rewrite B. split.
        -- intros [H|H]; [left; exact H|right; right; exact H].
        -- intros [H|[H|H]]; [left; exact H| |right; exact H]. inversion H; subst. left. apply nmem_In'. exact Em.
      * assert (Hn' : NoDup (acc ++ [b])).
        { apply NoDup_app_end; [exact Hn|]. intros Hin. apply nmem_In' in Hin. congruence. }
        destruct (IH _ Hn') as [A B]. cbn zeta. split; [exact A|]. intros j. rewrite B, in_app_iff. split.
        -- intros [[H|[H|[]]]|H]; [left; exact H|right; left; subst; reflexivity|right; right; exact H].
        -- intros [H|[H|H]]; [left; left; exact H| |right; exact H]. inversion H; subst. left. right. left. reflexivity.
    + destruct (IH acc Hn) as [A B]. cbn zeta. split; [exact A|]. intros j. rewrite B. split.
      * intros [H|H]; [left; exact H|right; right; exact H].
      * intros [H|[H|H]]; [left; exact H| |right; exact H]. inversion H; subst. rewrite Nat.eqb_refl in E. discriminate.
Qed.
Lemma NoDup_app_gen {A} (l1 l2 : list A) : NoDup l1 -> NoDup l2 -> (forall x, In x l1 -> In x l2 -> False) -> NoDup (l1 ++ l2).
Proof.
  induction l1 as [|a l1 IH]; simpl; intros H1 H2 Hd; [exact H2|]. inversion H1; subst. constructor.
  - intros Hin. apply in_app_or in Hin. destruct Hin as [Hin|Hin]; [contradiction|]. apply (Hd a); [left; reflexivity|exact Hin].
  - apply IH; [assumption|assumption|]. intros x Hx. apply Hd. right. exact Hx.
Qed.
Lemma adjU_spec es i : NoDup (adj_u es i) /\ forall j, In j (adj_u es i) <-> In (i, j) es.
Proof.
  destruct (adjU_gen es i [] (NoDup_nil _)) as [A B]. split; [exact A|].
  intros j. unfold adj_u. rewrite B. simpl. tauto.
Qed.

Lemma NoDup_map_inj {A B} (f : A -> B) (l : list A) :
  NoDup l -> (forall x y, In x l -> In y l -> f x = f y -> x = y) -> NoDup (map f l).
Proof.
  induction l as [|a l IH]; intros Hn Hinj; simpl; [constructor|]. inversion Hn; subst. constructor.
  - intros Hin. apply in_map_iff in Hin. destruct Hin as [x [E Hx]].
    assert (x = a) by (apply Hinj; [right; exact Hx|left; reflexivity|exact E]). subst. contradiction.
  - apply IH; [assumption|]. intros x y Hx Hy. apply Hinj; right; assumption.
Qed.
Lemma NoDup_map_fst_inj {A B} (m : list (A * B)) x y : NoDup (map fst m) -> In x m -> In y m -> fst x = fst y -> x = y.
Proof.
  induction m as [|a m IH]; simpl; intros Hn Hx Hy E; [contradiction|]. inversion Hn; subst.
  destruct Hx as [Hx|Hx], Hy as [Hy|Hy]; subst; auto.
  - exfalso. apply H1. rewrite E. apply in_map. exact Hy.
  - exfalso. apply H1. rewrite <- E. apply in_map. exact Hx.
Qed.
Lemma NoDup_map_snd_inj {A B} (m : list (A * B)) x y : NoDup (map snd m) -> In x m -> In y m -> snd x = snd y -> x = y.
Proof.
  induction m as [|a m IH]; simpl; intros Hn Hx Hy E; [contradiction|]. inversion Hn; subst.
  destruct Hx as [Hx|Hx], Hy as [Hy|Hy]; subst; auto.
  - exfalso. apply H1. rewrite E. apply in_map. exact Hy.
  - exfalso. apply H1. rewrite <- E. apply in_map. exact Hx.
Qed.
Lemma NoDup_of_map {A B} (f : A -> B) (l : list A) : NoDup (map f l) -> NoDup l.
Proof.
  induction l as [|a l IH]; simpl; intros H; [constructor|]. inversion H; subst. constructor; [|apply IH; assumption].
  intros Hin. apply H2. apply in_map. exact Hin.
Qed.
Lemma NoDup_flat_map {A B} (f : A -> list B) (l : list A) :
  NoDup l -> (forall a, In a l -> NoDup (f a)) -> (forall a a' b, In a l -> In a' l -> In b (f a) -> In b (f a') -> a = a') ->
  NoDup (flat_map f l).
Proof.
  induction l as [|a l IH]; intros Hn Hf Hd; simpl; [constructor|]. inversion Hn; subst.
  apply NoDup_app_gen.
  - apply Hf. left. reflexivity.
  - apply IH; [assumption|intros; apply Hf; right; assumption|]. intros x x' b Hx Hx'. apply Hd; right; assumption.
  - intros b Hb Hin. apply in_flat_map in Hin. destruct Hin as [a' [Ha' Hb']].
    assert (a = a') by (apply (Hd a a' b); [left; reflexivity|right; exact Ha'|exact Hb|exact Hb']).
    subst a'. contradiction.
Qed.
Lemma length_flat_map {A B} (f : A -> list B) (l : list A) : length (flat_map f l) = list_sum (map (fun a => length (f a)) l).
Proof. induction l as [|a l IH]; simpl; [reflexivity|]. rewrite app_length, IH. reflexivity. Qed.

Section Count.
  Variables (es : list (nat * nat)) (uc vc : list nat) (m : list (nat * nat)).
  Hypothesis es_nd : NoDup es.
  Hypothesis uc_nd : NoDup uc.
  Hypothesis vc_nd : NoDup vc.
  Hypothesis cov : forall e, In e es -> In (fst e) uc \/ In (snd e) vc.
  Hypothesis m_es : incl m es.
  Hypothesis m_u : NoDup (map fst m).
  Hypothesis m_v : NoDup (map snd m).
  Hypothesis m_len : length m = length uc + length vc.

  Lemma m_nd : NoDup m. Proof. exact (NoDup_of_map fst m m_u). Qed.

  Lemma cover_le_edges : length uc + length vc <= length es.
  Proof. rewrite <- m_len. apply NoDup_incl_length; [exact m_nd|exact m_es]. Qed.

  (* the cover endpoint chosen for a matching edge *)
  Definition phi (e : nat * nat) : nat + nat := if existsb (Nat.eqb (fst e)) uc then inl (fst e) else inr (snd e).
  Definition cvs : list (nat + nat) := map inl uc ++ map inr vc.

  Lemma cvs_nd : NoDup cvs.
  Proof.
    unfold cvs. apply NoDup_app_gen.
    - apply NoDup_map_inj; [exact uc_nd|]. intros x y _ _ E. inversion E. reflexivity.
    - apply NoDup_map_inj; [exact vc_nd|]. intros x y _ _ E. inversion E. reflexivity.
    - intros x Hx Hy. apply in_map_iff in Hx. apply in_map_iff in Hy. destruct Hx as [a [<- _]]. destruct Hy as [b [E _]]. discriminate.
  Qed.
  Lemma phi_nd : NoDup (map phi m).
  Proof.
    apply NoDup_map_inj; [exact m_nd|]. intros x y Hx Hy. unfold phi.
    destruct (existsb (Nat.eqb (fst x)) uc), (existsb (Nat.eqb (fst y)) uc); intros E; inversion E.
    - apply (NoDup_map_fst_inj m); assumption.
    - apply (NoDup_map_snd_inj m); assumption.
  Qed.
  Lemma phi_incl : incl (map phi m) cvs.
  Proof.
    intros c Hc. apply in_map_iff in Hc. destruct Hc as [e [<- He]]. unfold phi, cvs.
    destruct (existsb (Nat.eqb (fst e)) uc) eqn:E.
    - apply in_or_app. left. apply in_map. apply nmem_In'. exact E.
    - apply in_or_app. right. apply in_map. destruct (cov e (m_es e He)) as [H|H]; [|exact H].
      apply nmem_In' in H. congruence.
  Qed.
  (* every cover vertex is matched; a matched V-cover vertex has its partner outside the U-cover *)
  Lemma cvs_incl : incl cvs (map phi m).
  Proof.
    apply NoDup_length_incl; [exact phi_nd| |exact phi_incl].
    unfold cvs. rewrite app_length, !map_length. rewrite m_len. lia.
  Qed.
  Lemma v_partner j : In j vc -> exists i, In (i, j) m /\ ~ In i uc.
  Proof.
    intros Hj. assert (H : In (inr j) cvs) by (unfold cvs; apply in_or_app; right; apply in_map; exact Hj).
    apply cvs_incl in H. apply in_map_iff in H. destruct H as [[a b] [E He]]. unfold phi in E. cbn [fst snd] in E.
    destruct (existsb (Nat.eqb a) uc) eqn:Ea; inversion E; subst.
    exists a. split; [exact He|]. intros Hin. apply nmem_In' in Hin. congruence.
  Qed.

  Definition A_list : list (nat * nat) := flat_map (fun i => map (pair i) (adj_u es i)) uc.
  Definition B_list : list (nat * nat) :=
    filter (fun e => existsb (Nat.eqb (snd e)) vc && negb (existsb (Nat.eqb (fst e)) uc)) m.

  Lemma A_nd : NoDup A_list.
  Proof.
    unfold A_list. apply NoDup_flat_map; [exact uc_nd| |].
    - intros i _. apply NoDup_map_inj; [apply adjU_spec|]. intros x y _ _ E. inversion E. reflexivity.
    - intros a a' b _ _ Hb Hb'. apply in_map_iff in Hb. apply in_map_iff in Hb'.
      destruct Hb as [x [<- _]]. destruct Hb' as [y [E _]]. inversion E. reflexivity.
  Qed.
  Lemma A_in e : In e A_list -> In e es /\ In (fst e) uc.
  Proof.
    unfold A_list. intros H. apply in_flat_map in H. destruct H as [i [Hi He]]. apply in_map_iff in He.
    destruct He as [j [<- Hj]]. split; [apply adjU_spec; exact Hj|exact Hi].
  Qed.
  Lemma B_in e : In e B_list -> In e es /\ ~ In (fst e) uc.
  Proof.
    unfold B_list. intros H. apply filter_In in H. destruct H as [He H]. apply andb_true_iff in H. destruct H as [_ H].
    split; [apply m_es; exact He|]. intros Hin. apply nmem_In' in Hin. rewrite Hin in H. discriminate.
  Qed.
  Lemma B_len : length vc <= length B_list.
  Proof.
    apply (NoDup_incl_length (l' := map snd B_list)) in vc_nd.
    - rewrite map_length in vc_nd. exact vc_nd.
    - intros j Hj. destruct (v_partner j Hj) as [i [Hm Hi]]. apply in_map_iff. exists (i, j). split; [reflexivity|].
      unfold B_list. apply filter_In. split; [exact Hm|]. cbn [fst snd]. apply andb_true_iff. split.
      + apply nmem_In'. exact Hj.
      + apply negb_true_iff. destruct (existsb (Nat.eqb i) uc) eqn:E; [|reflexivity]. apply nmem_In' in E. contradiction.
  Qed.

  (* number of half-chains after the site step <= number of edges of the site graph *)
  Theorem halfchains_le_edges : list_sum (map (fun i => length (adj_u es i)) uc) + length vc <= length es.
  Proof.
    assert (HA : length A_list = list_sum (map (fun i => length (adj_u es i)) uc)).
    { unfold A_list. rewrite length_flat_map. f_equal. apply map_ext. intros i. apply map_length. }
    rewrite <- HA. pose proof B_len as HB.
    assert (Hnd : NoDup (A_list ++ B_list)).
    { apply NoDup_app_gen; [exact A_nd|apply NoDup_filter; exact m_nd|].
      intros e Ha Hb. apply A_in in Ha. apply B_in in Hb. tauto. }
    assert (Hi : incl (A_list ++ B_list) es).
    { intros e He. apply in_app_or in He. destruct He as [He|He]; [apply A_in in He|apply B_in in He]; tauto. }
    apply NoDup_incl_length in Hi; [|exact Hnd]. rewrite app_length in Hi. lia.
  Qed.
End Count.
