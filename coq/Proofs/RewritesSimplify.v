(* OpGraph._simplify_step / OpGraph.simplify (Model/Rewrites.v): well-formedness, denotation and size
   of the result, and fuel sufficiency of the two while loops, derived from three facts about
   [merge_edges] (taken as Section hypotheses here; proved elsewhere) and, for totality, from
   the fact that a single step never fails on a well-formed graph. *)
From Coq Require Import ZArith List Lia Bool Permutation.
From PT Require Import Base.Scalar Base.BigSum Model.OpGraph Model.Rewrites Proofs.RewritesBase.
Import ListNotations.
Open Scope Z_scope.

Section SimplifyProofs.
  Variable R : cring.
  Notation graph := (graph R).

  Hypothesis Hmerge_WF : forall (g g' : graph) a b d,
    WF R g -> merge_edges g a b d = Some g' -> WF R g'.
  Hypothesis Hmerge_den : forall (g g' : graph) a b d w,
    WF R g -> merge_edges g a b d = Some g' -> den g' w = den g w.
  Hypothesis Hmerge_cnt : forall (g g' : graph) a b d,
    WF R g -> merge_edges g a b d = Some g' ->
    S (length (g_edges g')) = length (g_edges g) /\ (length (g_nodes g') <= length (g_nodes g))%nat.

  (* ---- unfolding equations (avoid [simpl] unfolding the nested fixpoints) ---- *)
  Lemma simplify_step_fuel_S f (g : graph) d nids0 :
    simplify_step_fuel (S f) g d nids0 =
    match layer_pair g d nids0 with
    | Some (a, b) =>
        match merge_edges g a b d with
        | Some g' => Some (true, g')
        | None => None
        end
    | None =>
        match next_layer g d nids0 with
        | [] => Some (false, g)
        | nids1 => simplify_step_fuel f g d nids1
        end
    end.
  Proof. reflexivity. Qed.

  Lemma steps_dir_S f (g : graph) d :
    steps_dir (S f) g d =
    match simplify_step g d with
    | None => None
    | Some (false, _) => Some (false, g)
    | Some (true, g') =>
        match steps_dir f g' d with
        | Some (_, g'') => Some (true, g'')
        | None => None
        end
    end.
  Proof. reflexivity. Qed.

  Lemma simplify_fuel_S f (g : graph) :
    simplify_fuel (S f) g =
    match steps_dir (S (length (g_edges g))) g 0 with
    | None => None
    | Some (c0, g0) =>
        match steps_dir (S (length (g_edges g0))) g0 1 with
        | None => None
        | Some (c1, g1) => if c0 || c1 then simplify_fuel f g1 else Some g1
        end
    end.
  Proof. reflexivity. Qed.

  (* ---- one step ---- *)
  Lemma simplify_step_fuel_spec fuel : forall (g g' : graph) d nids0 c,
    WF R g -> simplify_step_fuel fuel g d nids0 = Some (c, g') ->
    WF R g' /\ (forall w, den g' w = den g w) /\
    (if c then S (length (g_edges g')) = length (g_edges g) /\
               (length (g_nodes g') <= length (g_nodes g))%nat
     else g' = g).
  Proof.
    induction fuel as [|f IH]; intros g g' d nids0 c Hwf Hrun.
    - discriminate Hrun.
    - rewrite simplify_step_fuel_S in Hrun.
      destruct (layer_pair g d nids0) as [[a b]|] eqn:Hpair.
      + destruct (merge_edges g a b d) as [gm|] eqn:Hm; [|discriminate Hrun].
        inversion Hrun; subst c g'.
        split; [exact (Hmerge_WF g gm a b d Hwf Hm)|].
        split; [intro w; exact (Hmerge_den g gm a b d w Hwf Hm)|].
        exact (Hmerge_cnt g gm a b d Hwf Hm).
      + destruct (next_layer g d nids0) as [|z l] eqn:Hnext.
        * inversion Hrun; subst c g'.
          split; [exact Hwf|]. split; [intro w; reflexivity|reflexivity].
        * exact (IH g g' d (z :: l) c Hwf Hrun).
  Qed.

  Lemma simplify_step_spec (g g' : graph) d c :
    WF R g -> simplify_step g d = Some (c, g') ->
    WF R g' /\ (forall w, den g' w = den g w) /\
    (if c then S (length (g_edges g')) = length (g_edges g) /\
               (length (g_nodes g') <= length (g_nodes g))%nat
     else g' = g).
  Proof.
    intros Hwf Hrun. unfold simplify_step in Hrun.
    exact (simplify_step_fuel_spec _ g g' d _ c Hwf Hrun).
  Qed.

  (* ---- while self._simplify_step(direction) ---- *)
  Lemma steps_dir_spec fuel (g g' : graph) d c :
    WF R g -> steps_dir fuel g d = Some (c, g') ->
    WF R g' /\ (forall w, den g' w = den g w) /\
    (length (g_edges g') <= length (g_edges g))%nat /\
    (length (g_nodes g') <= length (g_nodes g))%nat /\
    (c = true -> (length (g_edges g') < length (g_edges g))%nat) /\ (c = false -> g' = g).
  Proof.
    revert g g' c.
    induction fuel as [|f IH]; intros g g' c Hwf Hrun.
    - discriminate Hrun.
    - rewrite steps_dir_S in Hrun.
      destruct (simplify_step g d) as [[[|] g1]|] eqn:Hstep; [| |discriminate Hrun].
      + destruct (simplify_step_spec g g1 d true Hwf Hstep) as [Hwf1 [Hden1 [He1 Hn1]]].
        destruct (steps_dir f g1 d) as [[c2 g2]|] eqn:Hrest; [|discriminate Hrun].
        inversion Hrun; subst c g'.
        destruct (IH g1 g2 c2 Hwf1 Hrest) as [Hwf2 [Hden2 [He2 [Hn2 _]]]].
        split; [exact Hwf2|].
        split; [intro w; rewrite Hden2; apply Hden1|].
        split; [lia|]. split; [lia|]. split; [intros _; lia|intro Hc; discriminate Hc].
      + inversion Hrun; subst c g'.
        split; [exact Hwf|]. split; [intro w; reflexivity|].
        split; [lia|]. split; [lia|]. split; [intro Hc; discriminate Hc|intros _; reflexivity].
  Qed.

  (* ---- the outer loop of simplify ---- *)
  Lemma simplify_fuel_spec fuel (g g' : graph) :
    WF R g -> simplify_fuel fuel g = Some g' ->
    WF R g' /\ (forall w, den g' w = den g w) /\
    (length (g_edges g') <= length (g_edges g))%nat /\
    (length (g_nodes g') <= length (g_nodes g))%nat.
  Proof.
    revert g g'.
    induction fuel as [|f IH]; intros g g' Hwf Hrun.
    - discriminate Hrun.
    - rewrite simplify_fuel_S in Hrun.
      destruct (steps_dir (S (length (g_edges g))) g 0) as [[c0 g0]|] eqn:Hd0; [|discriminate Hrun].
      destruct (steps_dir_spec _ g g0 0%nat c0 Hwf Hd0) as [Hwf0 [Hden0 [He0 [Hn0 _]]]].
      destruct (steps_dir (S (length (g_edges g0))) g0 1) as [[c1 g1]|] eqn:Hd1; [|discriminate Hrun].
      destruct (steps_dir_spec _ g0 g1 1%nat c1 Hwf0 Hd1) as [Hwf1 [Hden1 [He1 [Hn1 _]]]].
      destruct (c0 || c1) eqn:Hc.
      + destruct (IH g1 g' Hwf1 Hrun) as [Hwf2 [Hden2 [He2 Hn2]]].
        split; [exact Hwf2|].
        split; [intro w; rewrite Hden2, Hden1; apply Hden0|].
        split; lia.
      + inversion Hrun; subst g'.
        split; [exact Hwf1|].
        split; [intro w; rewrite Hden1; apply Hden0|].
        split; lia.
  Qed.

  Lemma simplify_spec (g g' : graph) :
    WF R g -> simplify g = Some g' ->
    WF R g' /\ (forall w, den g' w = den g w) /\
    (length (g_edges g') <= length (g_edges g))%nat /\
    (length (g_nodes g') <= length (g_nodes g))%nat.
  Proof.
    intros Hwf Hrun. unfold simplify in Hrun.
    exact (simplify_fuel_spec _ g g' Hwf Hrun).
  Qed.

  (* ---- fuel sufficiency ---- *)
  Section Totality.
    Hypothesis Hstep_total : forall (g : graph) d, (d <= 1)%nat -> WF R g -> simplify_step g d <> None.

    (* the fuel of the two while loops is never exhausted: every successful step removes an edge *)
    Lemma steps_dir_total fuel (g : graph) d :
      (d <= 1)%nat -> WF R g -> (length (g_edges g) < fuel)%nat -> steps_dir fuel g d <> None.
    Proof.
      intros Hd. revert g.
      induction fuel as [|f IH]; intros g Hwf Hlt.
      - lia.
      - rewrite steps_dir_S.
        destruct (simplify_step g d) as [[[|] g1]|] eqn:Hstep.
        + destruct (simplify_step_spec g g1 d true Hwf Hstep) as [Hwf1 [_ [He1 _]]].
          assert (Hlt1 : (length (g_edges g1) < f)%nat) by lia.
          pose proof (IH g1 Hwf1 Hlt1) as Hrest.
          destruct (steps_dir f g1 d) as [[c2 g2]|].
          * discriminate.
          * exfalso; apply Hrest; reflexivity.
        + discriminate.
        + exfalso; exact (Hstep_total g d Hd Hwf Hstep).
    Qed.

    Lemma simplify_fuel_total fuel (g : graph) :
      WF R g -> (length (g_edges g) < fuel)%nat -> simplify_fuel fuel g <> None.
    Proof.
      revert g.
      induction fuel as [|f IH]; intros g Hwf Hlt.
      - lia.
      - rewrite simplify_fuel_S.
        pose proof (steps_dir_total (S (length (g_edges g))) g 0%nat (le_S _ _ (le_n _)) Hwf (Nat.lt_succ_diag_r _)) as Ht0.
        destruct (steps_dir (S (length (g_edges g))) g 0) as [[c0 g0]|] eqn:Hd0;
          [|exfalso; apply Ht0; reflexivity].
        destruct (steps_dir_spec _ g g0 0%nat c0 Hwf Hd0) as [Hwf0 [_ [He0 [_ [Hlt0 _]]]]].
        pose proof (steps_dir_total (S (length (g_edges g0))) g0 1%nat (le_n _) Hwf0 (Nat.lt_succ_diag_r _)) as Ht1.
        destruct (steps_dir (S (length (g_edges g0))) g0 1) as [[c1 g1]|] eqn:Hd1;
          [|exfalso; apply Ht1; reflexivity].
        destruct (steps_dir_spec _ g0 g1 1%nat c1 Hwf0 Hd1) as [Hwf1 [_ [He1 [_ [Hlt1 _]]]]].
        destruct (c0 || c1) eqn:Hc.
        + apply IH; [exact Hwf1|].
          apply orb_true_iff in Hc. destruct Hc as [Hc|Hc].
          * specialize (Hlt0 Hc). lia.
          * specialize (Hlt1 Hc). lia.
        + discriminate.
    Qed.

    Lemma simplify_total (g : graph) : WF R g -> simplify g <> None.
    Proof.
      intro Hwf. unfold simplify.
      apply simplify_fuel_total; [exact Hwf|lia].
    Qed.
  End Totality.
End SimplifyProofs.
