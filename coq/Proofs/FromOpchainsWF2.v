(* C05 structure, part 2: every graph returned by from_opchains satisfies the linkage check [linked]
   (unique ids, duplicate-free edge-id lists, node <-> edge cross references, terminals present). *)
From Coq Require Import ZArith List Lia Bool.
From PT Require Import Base.Scalar Base.BigSum Model.OpGraph Model.FromOpchains
                       Proofs.FromOpchainsGraph Proofs.FromOpchainsPart Proofs.FromOpchainsSem Proofs.FromOpchainsWF1
                       Proofs.DenRev_C05.
Import ListNotations.
Open Scope Z_scope.

Section WF2.
  Variable R : cring.
  Notation graph := (graph R).
  Notation gedge := (gedge R).
  Notation st := (st R).
  Notation part := (part R).

  Definition ids (g : graph) : list Z := map n_id (g_nodes g).
  Definition dummy_ok (g : graph) : Prop := exists n, In n (g_nodes g) /\ n_id n = -1 /\ n_in n = [] /\ n_out n = [].

  Lemma ids_find (g : graph) m : In m (ids g) -> exists n, find_node g m = Some n.
  Proof.
    unfold ids, find_node. intros H. apply in_map_iff in H. destruct H as [n [E Hn]].
    destruct (find (fun n0 => n_id n0 =? m) (g_nodes g)) as [n'|] eqn:F; [eexists; reflexivity|].
    exfalso. pose proof (find_none _ _ F n Hn) as X. simpl in X. rewrite E, Z.eqb_refl in X. discriminate.
  Qed.

  Section Site.
    Variables (nb0 : Z) (p : part).
    Hypothesis HU : Forall (fun u => 0 <= u_nidl u < nb0) (p_u p).

    Record HS (c : st) : Prop := mkHS {
      hs_g : GS R (s_g c) (s_nid c) (s_eid c);
      hs_nb : nb0 <= s_nid c;
      hs_zero : In 0 (ids (s_g c));
      hs_dummy : dummy_ok (s_g c);
      hs_nx : Forall (fun hc : hchain * R => 0 <= h_nidl (fst hc) /\ In (h_nidl (fst hc)) (ids (s_g c))) (s_next c) }.

    Lemma connect_HS (g : graph) nb eb a o cf np g1 b :
      GS R g nb eb -> In 0 (ids g) -> dummy_ok g -> find_node g a = Some np -> In b (ids g) -> 0 <= a < b ->
      add_connect_edge g (new_edge eb a b [(o, cf)]) = Some g1 ->
      GS R g1 nb (eb + 1) /\ ids g1 = ids g /\ dummy_ok g1.
    Proof.
      intros Hg H0 Hd Fa Hb Hab Hc. destruct (ids_find g b Hb) as [nbn Fb].
      destruct (GS_connect R g nb eb a b o cf g1 np nbn Hg Fa Fb Hab Hc) as [G1 [_ [I1 [_ [_ [_ N2]]]]]].
      split; [exact G1|]. split; [exact I1|].
      destruct Hd as [n [Hn [E1 [E2 E3]]]]. destruct (N2 n Hn) as [n1 [Hn1 [A1 [_ [A2 A3]]]]].
      exists n1. split; [exact Hn1|]. split; [congruence|].
      assert (X1 : (n_id n =? b) = false) by (apply Z.eqb_neq; lia).
      assert (X2 : (n_id n =? a) = false) by (apply Z.eqb_neq; lia).
      rewrite X1 in A2. rewrite X2 in A3. rewrite A2, A3, E2, E3. auto.
    Qed.

    Lemma add_node_HS (g : graph) nb eb q g1 : GS R g nb eb -> dummy_ok g -> add_node g (mknode nb [] [] q) = Some g1 ->
      GS R g1 (nb + 1) eb /\ ids g1 = ids g ++ [nb] /\ dummy_ok g1.
    Proof.
      intros Hg [n [Hn Hd]] Ha. destruct (GS_add_node R g nb eb q g1 Hg Ha) as [G1 [_ [N1 _]]].
      split; [exact G1|]. unfold ids. rewrite N1, map_app. split; [reflexivity|].
      exists n. split; [rewrite N1; apply in_app_iff; left; exact Hn|exact Hd].
    Qed.

    Lemma u_step_HS c i c' : HS c -> u_step p (Ok c) i = Ok c' -> HS c'.
    Proof.
      intros [Hg Hnb H0 Hd Hnx] H. unfold u_step in H. cbn [bind] in H.
      destruct (nth_error (p_u p) i) as [u|] eqn:Eu; [|discriminate].
      assert (Hul : 0 <= u_nidl u < nb0). { rewrite Forall_forall in HU. apply HU. eapply nth_error_In. exact Eu. }
      set (eid := s_eid c) in *. set (nid := s_nid c) in *.
      set (enew := new_edge eid (u_nidl u) nid [(u_oid u, k1 R)]) in *.
      destruct (add_edge (s_g c) enew) as [g1|] eqn:Ea; [|discriminate].
      destruct (find_node g1 (u_nidl u)) as [np|] eqn:Fnp; [|discriminate].
      destruct (negb (n_q np =? u_q0 u)); [discriminate|].
      destruct (add_node (upd_node g1 (u_nidl u) (node_add_eid eid 1)) (mknode nid [eid] [] (u_q1 u))) as [g2|] eqn:En; [|discriminate].
      destruct (u_graph_eq R (s_g c) enew (u_nidl u) nid eid (u_q1 u) g1 g2 eq_refl eq_refl eq_refl ltac:(lia) Ea En) as [h [Eh Ec]].
      destruct (add_node_HS _ _ _ _ _ Hg Hd Eh) as [Gh [Ih Dh]].
      assert (Fnp' : find_node h (u_nidl u) = Some np).
      { apply add_edge_spec in Ea. destruct Ea as [-> _]. change (find_node (s_g c) (u_nidl u) = Some np) in Fnp.
        apply add_node_spec in Eh. destruct Eh as [-> _]. unfold find_node in *. cbn [g_nodes]. rewrite find_app, Fnp. reflexivity. }
      destruct (connect_HS h (nid + 1) eid (u_nidl u) (u_oid u) (k1 R) np g2 nid Gh) as [G2 [I2 D2]]; auto.
      { rewrite Ih. apply in_app_iff. left. exact H0. }
      { rewrite Ih. apply in_app_iff. right. left. reflexivity. }
      { lia. }
      assert (Eids : ids g2 = ids (s_g c) ++ [nid]) by congruence.
      set (UI := fun cc : st => s_g cc = g2 /\ s_nid cc = nid + 1 /\ s_eid cc = eid + 1 /\
                   Forall (fun hc : hchain * R => 0 <= h_nidl (fst hc) /\ In (h_nidl (fst hc)) (ids g2)) (s_next cc)).
      assert (HUI : UI c').
      { refine (fold_res_inv (u_inner p i nid) UI (fun e b => eq_refl) _ _ _ _ _ H).
        - unfold UI. cbn. repeat split; auto. eapply Forall_impl; [|exact Hnx]. intros hc [A B]. split; [exact A|].
          rewrite Eids. apply in_app_iff. left. exact B.
        - intros cc j cc' _ [E1 [E2 [E3 E4]]] Hj. unfold u_inner in Hj. cbn [bind] in Hj.
          destruct (nth_error (p_v p) j) as [v|]; [|discriminate]. destruct (gamma_get (i, j) (p_gamma p)) as [cf|]; [|discriminate].
          destruct (pmem (i, j) (s_rem cc)); [|discriminate]. inversion Hj; subst cc'. unfold UI. cbn. repeat split; auto.
          apply Forall_app. split; [exact E4|]. constructor; [|constructor]. cbn. split; [lia|].
          rewrite Eids. apply in_app_iff. right. left. reflexivity. }
      destruct HUI as [E1 [E2 [E3 E4]]]. destruct c' as [cg cn ce cx cr]. cbn in *. subst.
      constructor; cbn; auto; try lia. rewrite Eids. apply in_app_iff. left. exact H0.
    Qed.

    Lemma v_step_HS c j c' : HS c -> v_step p (Ok c) j = Ok c' -> HS c'.
    Proof.
      intros [Hg Hnb H0 Hd Hnx] H. unfold v_step in H. cbn [bind] in H.
      destruct (nth_error (p_v p) j) as [v|] eqn:Ev; [|discriminate].
      destruct (h_qnums v) as [|q qs] eqn:Eq; [discriminate|].
      set (nid := s_nid c) in *.
      destruct (add_node (s_g c) (mknode nid [] [] q)) as [g1|] eqn:En; [|discriminate].
      destruct (add_node_HS _ _ _ _ _ Hg Hd En) as [G1 [I1 D1]].
      assert (Hpos : 0 < nid).
      { unfold ids in H0. apply in_map_iff in H0. destruct H0 as [n0 [E0 Hn0]]. pose proof (gs_nb R _ _ _ Hg n0 Hn0). lia. }
      set (VI := fun cc : st => GS R (s_g cc) (nid + 1) (s_eid cc) /\ ids (s_g cc) = ids (s_g c) ++ [nid] /\ dummy_ok (s_g cc) /\
                   s_nid cc = nid + 1 /\ s_next cc = s_next c ++ [(mkh (h_oids v) (q :: qs) nid, k1 R)]).
      assert (HVI : VI c').
      { refine (fold_res_inv (v_inner p j nid q) VI (fun e b => eq_refl) _ _ _ _ _ H).
        - unfold VI. cbn. auto.
        - intros cc i cc' _ [V1 [V2 [V3 [V4 V5]]]] Hi. unfold v_inner in Hi. cbn [bind] in Hi.
          destruct (negb (pmem (i, j) (s_rem cc))); [inversion Hi; subst; unfold VI; auto|].
          destruct (nth_error (p_u p) i) as [u|] eqn:Eu; [|discriminate].
          assert (Hul : 0 <= u_nidl u < nb0). { rewrite Forall_forall in HU. apply HU. eapply nth_error_In. exact Eu. }
          destruct (gamma_get (i, j) (p_gamma p)) as [cf|]; [|discriminate].
          destruct (negb (u_q1 u =? q)); [discriminate|].
          destruct (find_node (s_g cc) (u_nidl u)) as [np|] eqn:Fnp; [|discriminate].
          destruct (negb (n_q np =? u_q0 u)); [discriminate|].
          destruct (add_connect_edge (s_g cc) (new_edge (s_eid cc) (u_nidl u) nid [(u_oid u, cf)])) as [g2|] eqn:Ec; [|discriminate].
          inversion Hi; subst cc'. clear Hi.
          destruct (connect_HS (s_g cc) (nid + 1) (s_eid cc) (u_nidl u) (u_oid u) cf np g2 nid V1) as [G2 [I2 D2]]; auto.
          { rewrite V2. apply in_app_iff. left. exact H0. }
          { rewrite V2. apply in_app_iff. right. left. reflexivity. }
          { lia. }
          unfold VI. cbn [s_g s_nid s_eid s_next s_rem]. split; [exact G2|]. split; [rewrite I2; exact V2|]. split; [exact D2|]. split; [exact V4|exact V5]. }
      destruct HVI as [V1 [V2 [V3 [V4 V5]]]]. constructor.
      - rewrite V4. exact V1.
      - lia.
      - rewrite V2. apply in_app_iff. left. exact H0.
      - exact V3.
      - rewrite V5. apply Forall_app. split.
        + eapply Forall_impl; [|exact Hnx]. intros hc [A B]. split; [exact A|]. rewrite V2. apply in_app_iff. left. exact B.
        + constructor; [|constructor]. cbn. split; [lia|]. rewrite V2. apply in_app_iff. right. left. reflexivity.
    Qed.

    Lemma site_step_HS cv s s' : s_nid s = nb0 ->
      HS (mkst (s_g s) (s_nid s) (s_eid s) [] (p_edges p)) -> site_step p cv s = Ok s' -> HS s'.
    Proof.
      intros E2 S0 H. unfold site_step in H.
      destruct (fold_left (v_step p) (snd cv) (fold_left (u_step p) (fst cv)
                  (Ok (mkst (s_g s) (s_nid s) (s_eid s) [] (p_edges p))))) as [s2|] eqn:E; [|discriminate].
      cbn [bind] in H. destruct (s_rem s2); [|discriminate]. inversion H; subst s'.
      destruct (fold_left (u_step p) (fst cv) (Ok (mkst (s_g s) (s_nid s) (s_eid s) [] (p_edges p)))) as [s1|er] eqn:EU;
        [|rewrite fold_res_err in E by reflexivity; discriminate].
      assert (S1 : HS s1).
      { refine (fold_res_inv (u_step p) HS (fun e b => eq_refl) _ _ _ S0 _ EU). intros a b a' _ Ha Hs. eapply u_step_HS; eauto. }
      refine (fold_res_inv (v_step p) HS (fun e b => eq_refl) _ _ _ S1 _ E). intros a b a' _ Ha Hs. eapply v_step_HS; eauto.
    Qed.
  End Site.

  (* ---- the sweep ---- *)
  Definition HSW (s : st) : Prop :=
    GS R (s_g s) (s_nid s) (s_eid s) /\ 1 <= s_nid s /\ In 0 (ids (s_g s)) /\ dummy_ok (s_g s) /\
    Forall (fun hc : hchain * R => 0 <= h_nidl (fst hc) < s_nid s /\ In (h_nidl (fst hc)) (ids (s_g s))) (s_next s).

  Lemma site_HSW cover s s' : HSW s -> site cover s = Ok s' -> HSW s'.
  Proof.
    intros [Hg [Hn [H0 [Hd Hnx]]]] H. unfold site in H. set (p := site_partition (s_next s)) in *.
    destruct (Nat.eqb (length (p_u p)) 0 || Nat.eqb (length (p_v p)) 0); [discriminate|].
    destruct (site_partition_regroup R (s_next s)) as [_ [_ [HPU _]]]. fold p in HPU.
    assert (HU : Forall (fun u => 0 <= u_nidl u < s_nid s) (p_u p)).
    { apply HPU. intros hc Hh. rewrite Forall_forall in Hnx. destruct (Hnx hc Hh) as [A _]. exact A. }
    assert (S0 : HS (s_nid s) (mkst (s_g s) (s_nid s) (s_eid s) [] (p_edges p))).
    { constructor; cbn; auto. lia. }
    pose proof (site_step_HS (s_nid s) p HU _ s s' eq_refl S0 H) as [Sg Snb S0' Sd Snx].
    split; [exact Sg|]. split; [lia|]. split; [exact S0'|]. split; [exact Sd|].
    (* bound on the new ids: every node id is below s_nid *)
    eapply Forall_impl; [|exact Snx]. intros hc [A B]. split; [|exact B]. split; [exact A|].
    unfold ids in B. apply in_map_iff in B. destruct B as [n1 [E Hn1]]. rewrite <- E. apply (gs_nb R _ _ _ Sg n1 Hn1).
  Qed.

  Lemma sweep_HSW cover : forall n s s', HSW s -> sweep cover n s = Ok s' -> HSW s'.
  Proof.
    induction n as [|n IH]; intros s s' HS H; simpl in H; [inversion H; subst; exact HS|].
    destruct (site cover s) as [s1|] eqn:E; [|discriminate]. cbn [bind] in H. eapply IH; [|exact H]. eapply site_HSW; eauto.
  Qed.

  Lemma HSW_init idn (cs : list (chain R)) : HSW (mkst init_graph 1 0 (init_next idn cs) []).
  Proof.
    unfold HSW. cbn [s_g s_nid s_eid s_next]. split; [|split; [lia|split; [left; reflexivity|split]]].
    - constructor; unfold init_graph; cbn [g_nodes g_edges map n_id].
      + constructor; [intros [X|[]]; discriminate|]. constructor; [intros []|constructor].
      + constructor.
      + intros n0 [<-|[<-|[]]]; cbn; lia.
      + intros e [].
      + intros n0 [<-|[<-|[]]]; cbn; repeat split; try constructor; intros x [].
      + intros n0 x [<-|[<-|[]]] [].
      + intros n0 x [<-|[<-|[]]] [].
      + intros e [].
      + intros e [].
      + intros e [].
      + intros e [].
    - exists (mknode (-1) [] [] 0). split; [right; left; reflexivity|auto].
    - unfold init_next. rewrite Forall_map. apply Forall_forall. intros c _. cbn. split; [lia|left; reflexivity].
  Qed.

  (* ---- from GS to the boolean linkage check ---- *)
  Lemma NoDup_nodupz l : NoDup l -> nodupz l = true.
  Proof.
    induction 1 as [|x l Hx _ IH]; simpl; [reflexivity|]. rewrite IH, andb_true_r.
    destruct (zmem x l) eqn:E; [|reflexivity]. unfold zmem in E. apply existsb_exists in E. destruct E as [y [Hy E]].
    apply Z.eqb_eq in E. subst. contradiction.
  Qed.
  Lemma find_edge_In_nd (g : graph) e : NoDup (map (@e_id R) (g_edges g)) -> In e (g_edges g) -> find_edge g (e_id e) = Some e.
  Proof.
    unfold find_edge. induction (g_edges g) as [|a l IH]; simpl; intros Hn Hin; [contradiction|].
    inversion Hn as [|? ? Ha Hl]; subst. destruct Hin as [->|Hin]; [rewrite Z.eqb_refl; reflexivity|].
    destruct (e_id a =? e_id e) eqn:E; [|apply IH; auto]. apply Z.eqb_eq in E. exfalso. apply Ha. rewrite E. apply in_map. exact Hin.
  Qed.
  Lemma zmem_In_w x l : In x l -> zmem x l = true.
  Proof. intros H. unfold zmem. apply existsb_exists. exists x. split; [exact H|apply Z.eqb_refl]. Qed.

  Lemma GS_linked (g : graph) nb eb : GS R g nb eb -> In (g_t0 g) (ids g) -> In (g_t1 g) (ids g) -> linked g = true.
  Proof.
    intros [A B C D E F G H I J K] T0 T1. unfold linked. rewrite !andb_true_iff. repeat split.
    - apply NoDup_nodupz. exact A.
    - apply NoDup_nodupz. exact B.
    - apply forallb_forall. intros n Hn. destruct (E n Hn) as [E1 [E2 _]]. rewrite !NoDup_nodupz by assumption. reflexivity.
    - apply forallb_forall. intros n Hn. unfold node_refs_ok. apply forallb_forall. intros dir Hdir. apply forallb_forall. intros x Hx.
      destruct Hdir as [<-|[<-|[]]]; cbn [node_eids] in Hx.
      + destruct (F n x Hn Hx) as [e [He [E1 E2]]]. rewrite <- E1, (find_edge_In_nd g e B He). apply Z.eqb_eq. exact E2.
      + destruct (G n x Hn Hx) as [e [He [E1 E2]]]. rewrite <- E1, (find_edge_In_nd g e B He). apply Z.eqb_eq. exact E2.
    - apply forallb_forall. intros e He. unfold edge_refs_ok. apply forallb_forall. intros dir Hdir.
      destruct Hdir as [<-|[<-|[]]]; cbn [edge_nid].
      + destruct (I e He) as [n [Hn [E1 E2]]]. rewrite <- E1, (find_node_In_nd R g n A Hn). apply zmem_In_w. exact E2.
      + destruct (H e He) as [n [Hn [E1 E2]]]. rewrite <- E1, (find_node_In_nd R g n A Hn). apply zmem_In_w. exact E2.
    - unfold has_node. apply existsb_exists. unfold ids in T0. apply in_map_iff in T0. destruct T0 as [n [E1 Hn]]. exists n. split; [exact Hn|apply Z.eqb_eq; exact E1].
    - unfold has_node. apply existsb_exists. unfold ids in T1. apply in_map_iff in T1. destruct T1 as [n [E1 Hn]]. exists n. split; [exact Hn|apply Z.eqb_eq; exact E1].
  Qed.
End WF2.
