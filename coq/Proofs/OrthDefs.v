(* C01 / C13 — Prop-level vocabulary for the theorems about Model/Orthonormalize.v. *)
From Coq Require Import ZArith List Bool Lia Arith.
From PT Require Import Base.Scalar Base.Field Base.BigSum Base.Mx Model.Tensor Model.BondOps Model.Orthonormalize.
From PT Require Import Proofs.BondOpsLoop.
Import ListNotations.

Section Defs.
  Variable R : cring.
  Notation mx := (mx R).
  Notation site := (site R).
  Infix "*!" := (kmul R) (at level 40, left associativity).
  Notation cj := (kconj R).

  (* a site tensor of numpy shape (d, Dl, Dr) *)
  Definition site_ok (d Dl Dr : nat) (A : site) : Prop :=
    length A = d /\ forall s, s < d -> wf (sel A s) /\ nr (sel A s) = Dl /\ nc (sel A s) = Dr.

  (* left isometry  sum_s A[s]^H A[s] = I_Dr,  right isometry  sum_s A[s] A[s]^H = I_Dl  (entry-wise) *)
  Definition liso (Dl Dr : nat) (A : site) : Prop :=
    forall k l, k < Dr -> l < Dr ->
      sumn (length A) (fun s => sumn Dl (fun a => cj (get (sel A s) a k) *! get (sel A s) a l)) = delta R k l.
  Definition riso (Dl Dr : nat) (A : site) : Prop :=
    forall k l, k < Dl -> l < Dl ->
      sumn (length A) (fun s => sumn Dr (fun b => get (sel A s) k b *! cj (get (sel A s) l b))) = delta R k l.
  (* the same as matrix identities *)
  Definition gram_l (A : site) : mx :=
    tab (sDr A) (sDr A) (fun k l => sumn (length A) (fun s => get (mulmx (adjmx (sel A s)) (sel A s)) k l)).
  Definition gram_r (A : site) : mx :=
    tab (sDl A) (sDl A) (fun k l => sumn (length A) (fun s => get (mulmx (sel A s) (adjmx (sel A s))) k l)).

  (* block sparsity  A[s][a,b] <> 0 -> qd[s] + ql[a] = qr[b] *)
  Definition site_qsp (qd ql qr : list Z) (A : site) : Prop :=
    forall s a b, s < length qd -> a < length ql -> b < length qr ->
      get (sel A s) a b <> k0 R -> (zget qd s + zget ql a = zget qr b)%Z.

  (* every tensor of a chain with bond dimensions Ds is a left (right) isometry *)
  Fixpoint chain_liso (Ds : list nat) (As : list site) : Prop :=
    match As, Ds with
    | A :: As', Dl :: ((Dr :: _) as Ds') => liso Dl Dr A /\ chain_liso Ds' As'
    | _, _ => True
    end.
  Fixpoint chain_riso (Ds : list nat) (As : list site) : Prop :=
    match As, Ds with
    | A :: As', Dl :: ((Dr :: _) as Ds') => riso Dl Dr A /\ chain_riso Ds' As'
    | _, _ => True
    end.

  (* squared norm of the state as the sum over all words of |amplitude|^2  (C04_vdot_spec: this is vdot psi psi) *)
  Definition norm2 (d : nat) (As : list site) : R :=
    suml (words d (length As)) (fun w => cj (amp As w) *! amp As w).
End Defs.

Arguments site_ok {R} d Dl Dr A.
Arguments liso {R} Dl Dr A. Arguments riso {R} Dl Dr A.
Arguments gram_l {R} A. Arguments gram_r {R} A.
Arguments site_qsp {R} qd ql qr A.
Arguments chain_liso {R} Ds As. Arguments chain_riso {R} Ds As.
Arguments norm2 {R} d As.

(* bond dimensions after a sweep: same first bond, D'_{i+1} <= min(pd * D'_i, D_{i+1}) along the sweep *)
Fixpoint bond_bound (pd : nat) (Dnew Dold : list nat) : Prop :=
  match Dnew, Dold with
  | a' :: ((b' :: _) as tn), a :: ((b :: _) as to) => b' <= pd * a' /\ b' <= b /\ bond_bound pd tn to
  | [_], [_] => True
  | _, _ => False
  end.
