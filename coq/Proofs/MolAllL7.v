(* C07, all L -- part 7: the spin-orbital statements assembled (enumeration never raises, equals the spin formula,
   optimized construction succeeds and denotes the formula). *)
From Coq Require Import ZArith List Lia Bool Arith.
From PT Require Import Base.Scalar Base.BigSum Model.OpGraph Model.FromOpchains Model.Molecular Model.MolFormula
                       Proofs.DenRev_C05 Proofs.MolOpt Proofs.MolAllL5 Proofs.MolAllL6.
Import ListNotations.
Open Scope nat_scope.

Theorem spin_formula_total (R : cring) (half : R) t v L :
  exists cs, spin_chains half L t v = Ok cs /\ forall w, chains_den L 0%Z cs w = spin_formula half L t v w.
Proof.
  pose proof (spin_skels_wfb_all L) as H. unfold spin_skels_wfb in H.
  destruct (spin_skels L) as [sk|e] eqn:E; [|discriminate].
  exists (map (attach (spin_coeff half t v)) sk).
  assert (Hc : spin_chains half L t v = Ok (map (attach (spin_coeff half t v)) sk)) by (unfold spin_chains; rewrite E; reflexivity).
  split; [exact Hc|]. apply spin_formula_all_L. exact Hc.
Qed.

Theorem spin_exact_all_L (R : cring) (half : R) L t v : 1 <= L ->
  exists cs, spin_chains half L t v = Ok cs /\
    (forall w, chains_den L 0%Z cs w = spin_formula half L t v w) /\
    ((exists c, In c cs /\ c_coeff c <> k0 R) ->
     exists g, from_opchains cover_model cs L 0%Z = Ok g /\ linked g = true /\ forall w, den g w = spin_formula half L t v w).
Proof.
  intros HL.
  destruct (spin_mol_opt_total_of_check R half L t v HL (spin_skels_wfb_all L)) as [cs [Hc Hs]].
  exists cs. split; [exact Hc|]. split; [apply spin_formula_all_L; exact Hc|].
  intros Hn. destruct (Hs Hn) as [g [Hg [Hl Hd]]]. exists g. repeat split; auto.
  intros w. rewrite Hd. apply spin_formula_all_L. exact Hc.
Qed.
