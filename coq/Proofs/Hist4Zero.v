(* C02, round 4 (1): split_matrix_svd / split_mps_tensor on an all-zero (or charge-forbidden, hence zero) matrix.

   C12's theorem about [block_svd] (Proofs/BondOpsSVD.v block_svd_spec_gen, used by HistSplit.split_contract_from_C12) needs a
   non-zero input.  For the zero input the code takes one of two paths:
     (a) q0 and q1 share no charge: the dummy bond  u = e_0 (or a 0 x 1 array), s = [0], v = 0, q = q0[:1] (or [0] for a
         matrix without rows, fix F5; mirror: Model/BondOpsF5.v block_svd5);
     (b) they share a charge: the block loop runs on zero blocks, LAPACK returns singular values that are all zero
         (|| A ||_F^2 = sum sigma^2 under its contract), retained_bond_indices sees w == 0 and keeps NOTHING:
         u is (m x 0), v is (0 x n), s = q = [] -- the bond dimension drops to zero.
   In both cases the answer meets the contract [svd_ans_ok] of the SplitMerge step of the history state machine
   (shapes, len(q) = len(s) = bond dimension, both factors block sparse under (q0, q), (q, q1)): [svd_ans_zero].
   Together with C12's theorem: [split_contract_all] for EVERY valid input. *)
From Coq Require Import ZArith List Bool Lia Arith Permutation Sorted Ring Field.
From PT Require Import Base.Scalar Base.Field Base.BigSum Base.Mx Model.Tensor Model.MPSOps Model.BondOps Model.BondOpsF5 Model.History.
From PT Require Import Proofs.BondOpsPerm Proofs.BondOpsLoop Proofs.BondOpsSpec Proofs.BondOpsRetained Proofs.BondOpsFrob Proofs.BondOpsSVD.
From PT Require Import Proofs.HistSparse Proofs.HistOps Proofs.HistSplit.
Import ListNotations.
Open Scope nat_scope.

Section Zero.
  Variable F : ofield.
  Add Field Ffield_hist4zero : (f_ft F).
  Notation CF := (Cx F).
  Add Ring CFring_hist4zero : (k_rt CF).
  Notation mx := (mx CF).
  Notation cO := (k0 CF). Notation cI := (k1 CF).
  Infix "*!" := (kmul CF) (at level 40, left associativity).
  Notation cj := (kconj CF).
  Notation emb := (@cof F).

  Variable dsvd : mx -> mx * list F * mx.
  Variable pick : list F -> list nat.

  (* the two mirrors agree on every matrix with at least one row *)
  Lemma block_svd5_rows (A : mx) q0 q1 tol : 0 < nr A -> block_svd5 dsvd pick A q0 q1 tol = block_svd dsvd pick A q0 q1 tol.
  Proof.
    intros Hr. unfold block_svd5. destruct (negb (valid_in A q0 q1)) eqn:Ev; [unfold block_svd; rewrite Ev; reflexivity|].
    destruct (intersect1d q0 q1) as [|x qs] eqn:Eq; [|reflexivity].
    unfold block_svd. rewrite Ev, Eq. unfold dummy_label. destruct (Nat.eqb_spec (nr A) 0) as [E|_]; [lia|reflexivity].
  Qed.
  Lemma is_zeromx_norows (A : mx) : nr A = 0 -> is_zeromx A = true.
  Proof. intros E. unfold is_zeromx. rewrite E. reflexivity. Qed.
  Lemma nonzero_rows (A : mx) : is_zeromx A = false -> 0 < nr A.
  Proof. intros H. destruct (nr A) eqn:E; [rewrite (is_zeromx_norows A E) in H; discriminate|lia]. Qed.

  (* path (b): shared charges, zero matrix: nothing is kept (own copy of the argument of C12's block_svd_zero_ext,
     which does not say which path was taken) *)
  Theorem block_svd_zero_common (A : mx) q0 q1 tol :
    valid_in A q0 q1 = true -> is_zeromx A = true -> intersect1d q0 q1 <> [] ->
    Forall (fun B => dsvd_ok F B (dsvd B)) (block_svd_calls A q0 q1) ->
    exists u v, block_svd dsvd pick A q0 q1 tol = Some (u, [], v, []) /\
      nr u = nr A /\ nc u = 0 /\ nr v = 0 /\ nc v = nc A.
  Proof.
    intros Hv Hzero Hne Hcalls.
    destruct (valid_in_spec CF A q0 q1 Hv) as (HwfA & Hl0 & Hl1 & HspA).
    assert (Hz := is_zeromx_spec F A Hzero).
    unfold block_svd. rewrite Hv, Hzero. cbn [negb].
    destruct (intersect1d q0 q1) as [|x qs] eqn:Eq; [contradiction Hne; reflexivity|]. clear Hne.
    remember (x :: qs) as qis eqn:Eqis.
    destruct (sel_choice CF q0 (nr A) Hl0) as (p0 & i0 & Hp0 & Hi0 & Hinv0 & Eq0 & Hz0 & Hrow0 & _ & Hunrow0 & _).
    destruct (sel_choice CF q1 (nc A) Hl1) as (p1 & i1 & Hp1 & Hi1 & Hinv1 & Eq1 & Hz1 & _ & Hcol1 & _ & Huncol1).
    assert (EA : sA (sort_input A q0 q1) = colsel p1 (rowsel p0 A)).
    { unfold sort_input. cbn [sA]. rewrite (Hrow0 A HwfA eq_refl). apply Hcol1; [apply wf_tab|reflexivity]. }
    assert (E0 : sq0 (sort_input A q0 q1) = takez p0 q0) by (unfold sort_input; cbn [sq0]; exact Eq0).
    assert (E1 : sq1 (sort_input A q0 q1) = takez p1 q1) by (unfold sort_input; cbn [sq1]; exact Eq1).
    unfold block_svd_calls, block_calls in Hcalls. rewrite Eq, EA, E0, E1 in Hcalls.
    assert (Hp0' : Permutation p0 (seq 0 (length q0))) by (rewrite Hl0; exact Hp0).
    assert (Hp1' : Permutation p1 (seq 0 (length q1))) by (rewrite Hl1; exact Hp1).
    assert (L0 : length (takez p0 q0) = nr (colsel p1 (rowsel p0 A))) by (eapply lenq0'; eauto).
    assert (L1 : length (takez p1 q1) = nc (colsel p1 (rowsel p0 A))) by (eapply lenq1'; eauto).
    assert (NR : nr (colsel p1 (rowsel p0 A)) = nr A) by (eapply nrA'; eauto).
    assert (NC : nc (colsel p1 (rowsel p0 A)) = nc A) by (eapply ncA'; eauto).
    destruct (loop_ok CF F emb True (nonneg F) dsvd (colsel p1 (rowsel p0 A)) (takez p0 q0) (takez p1 q1)
                L0 L1 Hz0 Hz1 qis) as (st & E & P).
    { rewrite <- Eq. apply intersect1d_sorted. }
    { intros y. rewrite <- Eq. rewrite intersect1d_In, (takez_In p0 q0 y Hp0'), (takez_In p1 q1 y Hp1'). tauto. }
    { eapply qspA'; eauto. }
    { intros y Hy. apply dsvd_fac_ok. rewrite Forall_forall in Hcalls. apply Hcalls. apply in_map. exact Hy. }
    rewrite EA, E0, E1. rewrite E.
    assert (Pfull : post CF F emb True (nonneg F) A q0 q1 True (mkbst (rowsel i0 (bU st)) (colsel i1 (bV st)) (bS st) (bq st) (bD st)))
      by (apply (lift CF F emb True (nonneg F) A q0 q1 p0 i0 p1 i1); assumption).
    assert (HlenS : length (bS st) = bD st) by (apply (p_lenS _ _ _ _ _ _ _ _ _ _ P)).
    (* all singular values vanish: || A ||_F^2 = sum sigma^2 *)
    assert (Hsq : sqsum (bS st) = f0 F).
    { apply (cof_inj F). change (emb (f0 F)) with cO.
      rewrite <- (sumn_sq F). rewrite HlenS.
      rewrite <- (frob_usv CF (nr A) (nc A) (bD st) (fun i c => get (rowsel i0 (bU st)) i c)
                    (fun c j => get (colsel i1 (bV st)) c j) (fun c => emb (nth c (bS st) (f0 F)))).
      - apply (sumn_zero CF). intros i Hi. apply (sumn_zero CF). intros j Hj.
        assert (E2 : sumn (bD st) (fun c => get (rowsel i0 (bU st)) i c *! emb (nth c (bS st) (f0 F)) *! get (colsel i1 (bV st)) c j) = cO).
        { rewrite <- (Hz i j Hi Hj). rewrite <- (p_prod _ _ _ _ _ _ _ _ _ _ Pfull I i j Hi Hj). cbn [bU bV bS bD].
          apply sumn_ext. intros c Hc. rewrite (wt_cof F) by (rewrite HlenS; exact Hc). reflexivity. }
        rewrite E2. ring.
      - intros k l Hk Hl. apply (p_orth _ _ _ _ _ _ _ _ _ _ Pfull k l Hk Hl).
      - intros k l Hk Hl. apply (p_co _ _ _ _ _ _ _ _ _ _ Pfull I k l Hk Hl). }
    assert (HK : retained pick (bS st) tol = []).
    { unfold retained. rewrite Hsq. replace (feqb F (f0 F) (f0 F)) with true by (symmetry; apply feqb_spec; reflexivity). reflexivity. }
    rewrite HK. cbn [map takez].
    assert (EU : unperm_rows (sort_input A q0 q1) (colsel [] (bU st)) = rowsel i0 (colsel [] (bU st))).
    { unfold unperm_rows, sort_input. cbn [sperm0 sidx0]. apply Hunrow0; [apply wf_tab|].
      unfold colsel. rewrite nr_tab. rewrite (p_nrU _ _ _ _ _ _ _ _ _ _ P). exact NR. }
    assert (EV : unperm_cols (sort_input A q0 q1) (rowsel [] (bV st)) = colsel i1 (rowsel [] (bV st))).
    { unfold unperm_cols, sort_input. cbn [sperm1 sidx1]. apply Huncol1; [apply wf_tab|].
      unfold rowsel. rewrite nc_tab. rewrite (p_ncV _ _ _ _ _ _ _ _ _ _ P). exact NC. }
    rewrite EU, EV. do 2 eexists. split; [reflexivity|].
    assert (Li0 := perm_length _ _ Hi0). assert (Li1 := perm_length _ _ Hi1).
    unfold rowsel, colsel. rewrite !nr_tab, !nc_tab. cbn [length]. repeat split; assumption.
  Qed.

  (* the label of the dummy bond has length one, and it is the charge of row 0 whenever there is a row *)
  Lemma dummy_label_spec (A : mx) q0 : length q0 = nr A ->
    length (dummy_label A q0) = 1 /\ (0 < nr A -> nth 0 (dummy_label A q0) 0%Z = nth 0 q0 0%Z).
  Proof.
    intros Hl. unfold dummy_label. destruct (Nat.eqb_spec (nr A) 0) as [E|N].
    - split; [reflexivity|lia].
    - destruct q0 as [|x q0']; [simpl in Hl; lia|]. split; reflexivity.
  Qed.

  (* split_matrix_svd (as it stands after fix F5) on ANY valid zero matrix meets the contract of the SplitMerge step *)
  Theorem svd_ans_zero (A : mx) q0 q1 tol :
    valid_in A q0 q1 = true -> is_zeromx A = true ->
    Forall (fun B => dsvd_ok F B (dsvd B)) (block_svd_calls A q0 q1) ->
    svd_ans_ok CF A q0 q1 (svd_result5 dsvd pick tol A q0 q1).
  Proof.
    intros Hv Hzero Hcalls. destruct (valid_in_spec CF A q0 q1 Hv) as (HwfA & Hl0 & Hl1 & HspA).
    unfold svd_result5, block_svd5. rewrite Hv. cbn [negb].
    destruct (intersect1d q0 q1) as [|x qs] eqn:Eq.
    - (* (a) dummy bond *)
      rewrite Hzero. cbn [negb]. destruct (dummy_label_spec A q0 Hl0) as [Ld Hd0].
      unfold svd_ans_ok. cbn [map length]. unfold e0col. rewrite !nr_tab, !nc_tab.
      split; [reflexivity|]. split; [reflexivity|]. split; [apply nr_zeromx|]. split; [apply nc_zeromx|]. split; [exact Ld|]. split.
      + intros i j Hi Hj Hnz. rewrite nr_tab in Hi. rewrite nc_tab in Hj. rewrite get_tab in Hnz by assumption.
        assert (j = 0) as -> by lia. destruct (Nat.eqb_spec i 0) as [->|N]; [|contradiction Hnz; reflexivity].
        symmetry. apply Hd0. exact Hi.
      + intros i j Hi Hj Hnz. contradiction Hnz. apply get_zeromx.
    - (* (b) zero bond *)
      destruct (block_svd_zero_common A q0 q1 tol Hv Hzero) as (u & v & E & ru & cu & rv & cv).
      { rewrite Eq. discriminate. } { exact Hcalls. }
      rewrite E. unfold svd_ans_ok. cbn [map length].
      split; [exact ru|]. split; [exact cu|]. split; [exact rv|]. split; [exact cv|]. split; [reflexivity|]. split.
      + intros i j Hi Hj. rewrite cu in Hj. lia.
      + intros i j Hi Hj. rewrite rv in Hi. lia.
  Qed.

  (* the answer in the two cases, for the examples and for the bookkeeping of bond dimensions:
     disjoint charges: bond dimension ONE with the dummy label; shared charges: bond dimension ZERO *)
  Theorem svd_zero_bond (A : mx) q0 q1 tol :
    valid_in A q0 q1 = true -> is_zeromx A = true ->
    Forall (fun B => dsvd_ok F B (dsvd B)) (block_svd_calls A q0 q1) ->
    let '(u, s, v, q) := svd_result5 dsvd pick tol A q0 q1 in
    (intersect1d q0 q1 = [] -> s = [cO] /\ q = dummy_label A q0) /\ (intersect1d q0 q1 <> [] -> s = [] /\ q = []).
  Proof.
    intros Hv Hzero Hcalls. unfold svd_result5, block_svd5. rewrite Hv. cbn [negb].
    destruct (intersect1d q0 q1) as [|x qs] eqn:Eq.
    - rewrite Hzero. cbn [negb map]. split; [intros _; split; reflexivity|intros N; contradiction N; reflexivity].
    - destruct (block_svd_zero_common A q0 q1 tol Hv Hzero) as (u & v & E & _).
      { rewrite Eq. discriminate. } { exact Hcalls. }
      rewrite E. cbn [map]. split; [discriminate|intros _; split; reflexivity].
  Qed.

  (* EVERY valid input: C12's theorem for the non-zero ones, the above for the zero ones.  numpy.argsort inside
     retained_bond_indices is only called (and its contract only needed) when the matrix is not zero. *)
  Theorem split_contract_all (A : mx) q0 q1 tol :
    valid_in A q0 q1 = true -> fle F (f0 F) tol -> flt F tol (f1 F) ->
    Forall (fun B => dsvd_ok F B (dsvd B)) (block_svd_calls A q0 q1) ->
    (is_zeromx A = false -> let S := block_svd_spectrum F dsvd A q0 q1 in pick_ok F (normsq S) (pick (normsq S))) ->
    svd_ans_ok CF A q0 q1 (svd_result5 dsvd pick tol A q0 q1).
  Proof.
    intros Hv Ht0 Ht1 Hc Hp. destruct (is_zeromx A) eqn:Ez.
    - apply svd_ans_zero; assumption.
    - unfold svd_result5. rewrite (block_svd5_rows A q0 q1 tol (nonzero_rows A Ez)).
      exact (split_contract_from_C12 F dsvd pick tol A q0 q1 Hv Ez Ht0 Ht1 Hc (Hp eq_refl)).
  Qed.
End Zero.
