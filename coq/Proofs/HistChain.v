(* C02, part (a), chain level: the invariant [mps_ok] / [mpo_ok] (shapes fit the charge lists and every tensor is block
   sparse) is preserved by add_mps, add_mpo, multiply_mpo, apply_operator and established by MPO.identity and by the
   constructors; the sparsity assertions of the code can therefore never fire on operands satisfying the invariant. *)
From Coq Require Import ZArith List Lia Bool Arith Ring.
From PT Require Import Base.Scalar Base.BigSum Base.Mx Model.Tensor Model.MPSOps.
From PT Require Import Proofs.MPSOpsBase Proofs.MPSOpsAdd Proofs.MPSOpsMul Proofs.MPSOpsTop Proofs.MPSOpsShape Proofs.HistSparse.
Import ListNotations.
Open Scope nat_scope.

(* a chain of sites, each related to the charge lists of the two bonds it sits between *)
Section ChainP.
  Variable T : Type.
  Variable P : list Z -> list Z -> T -> Prop.
  Fixpoint chainP (qDs : list (list Z)) (As : list T) : Prop :=
    match As, qDs with
    | [], [_] => True
    | A :: As', ql :: ((qr :: _) as qDs') => P ql qr A /\ chainP qDs' As'
    | _, _ => False
    end.
  Lemma chainP_cons ql qr qs A As : chainP (ql :: qr :: qs) (A :: As) <-> P ql qr A /\ chainP (qr :: qs) As.
  Proof. reflexivity. Qed.
  Lemma chainP_length qDs As : chainP qDs As -> length qDs = S (length As).
  Proof.
    revert qDs; induction As as [|A As IH]; intros qDs H.
    - destruct qDs as [|q [|? ?]]; simpl in H; try contradiction. reflexivity.
    - destruct qDs as [|ql [|qr qs]]; [contradiction H|contradiction H|].
      apply chainP_cons in H. destruct H as [_ H]. apply IH in H. simpl in *. lia.
  Qed.
End ChainP.
Arguments chainP {T} P qDs As.

Lemma zl_eqb_eq a b : zl_eqb a b = true -> a = b.
Proof.
  unfold zl_eqb. revert b; induction a as [|x a IH]; intros [|y b] H; simpl in H; try discriminate; [reflexivity|].
  apply andb_true_iff in H. destruct H as [H1 H2]. apply Z.eqb_eq in H1. f_equal; auto.
Qed.
Lemma zl_eqb_refl a : zl_eqb a a = true.
Proof. unfold zl_eqb. induction a as [|x a IH]; simpl; [reflexivity|]. rewrite Z.eqb_refl, IH. reflexivity. Qed.

Section Chain.
  Variable R : cring.
  Notation mx := (mx R).
  Notation site := (site R). Notation osite := (osite R).
  Notation mps := (mps R). Notation mpo := (mpo R).

  (* ---------- the boolean invariant is the chain predicate ---------- *)
  Lemma chain_ok_P qd : forall (As : list site) qDs,
    chain_shape (length qd) (map (@length Z) qDs) As && chain_qsparse qd qDs As = true <-> chainP (site_okP R qd) qDs As.
  Proof.
    induction As as [|A As IH]; intros qDs.
    - destruct qDs as [|q [|q2 qs]]; simpl; split; intros H; try discriminate; try contradiction; auto.
    - destruct qDs as [|ql [|qr qs]]; [simpl; split; [discriminate|contradiction]..|].
      cbn [map]. rewrite chain_shape_cons.
      change (chain_qsparse qd (ql :: qr :: qs) (A :: As)) with (site_qsparse qd ql qr A && chain_qsparse qd (qr :: qs) As).
      rewrite chainP_cons, <- IH, site_okP_b. cbn [map]. rewrite !andb_true_iff. tauto.
  Qed.
  Lemma ochain_ok_P qd : forall (Ws : list osite) qDs,
    ochain_shape (length qd) (map (@length Z) qDs) Ws && ochain_qsparse qd qDs Ws = true <-> chainP (osite_okP R qd) qDs Ws.
  Proof.
    induction Ws as [|A As IH]; intros qDs.
    - destruct qDs as [|q [|q2 qs]]; simpl; split; intros H; try discriminate; try contradiction; auto.
    - destruct qDs as [|ql [|qr qs]]; [simpl; split; [discriminate|contradiction]..|].
      cbn [map]. rewrite ochain_shape_cons.
      change (ochain_qsparse qd (ql :: qr :: qs) (A :: As)) with (osite_qsparse qd ql qr A && ochain_qsparse qd (qr :: qs) As).
      rewrite chainP_cons, <- IH, osite_okP_b. cbn [map]. rewrite !andb_true_iff. tauto.
  Qed.
  Lemma mps_ok_P (p : mps) : mps_ok p = true <-> chainP (site_okP R (m_qd p)) (m_qD p) (m_A p).
  Proof. unfold mps_ok. apply chain_ok_P. Qed.
  Lemma mpo_ok_P (o : mpo) : mpo_ok o = true <-> chainP (osite_okP R (o_qd o)) (o_qD o) (o_A o).
  Proof. unfold mpo_ok. apply ochain_ok_P. Qed.

  (* ---------- sums, for any site type ---------- *)
  Section AddGen.
    Variable T : Type.
    Variable P : list Z -> list Z -> T -> Prop.
    Variable zip : (mx -> mx -> mx) -> T -> T -> T.
    Hypothesis Hzip : zip_ok R T P zip.

    Lemma chainP_add_mid : forall (As Bs : list T) qa qb,
      As <> [] -> length As = length Bs -> chainP P qa As -> chainP P qb Bs -> last qa [] = last qb [] ->
      chainP P ((hd [] qa ++ hd [] qb) :: add_qD_mid (tl qa) (tl qb)) (add_mid zip As Bs).
    Proof.
      induction As as [|A As IH]; intros Bs qa qb Hne HL HA HB Hlast; [contradiction|].
      destruct Bs as [|B Bs]; [discriminate HL|].
      destruct qa as [|a0 [|a1 qa]]; [contradiction HA | contradiction HA |].
      destruct qb as [|b0 [|b1 qb]]; [contradiction HB | contradiction HB |].
      apply chainP_cons in HA, HB. destruct HA as [HA1 HA], HB as [HB1 HB]. cbn [hd tl].
      destruct As as [|A2 As].
      - destruct Bs; [|discriminate HL]. rewrite add_mid_single.
        destruct qa; [|contradiction HA]. destruct qb; [|contradiction HB]. simpl in Hlast. subst b1.
        simpl add_qD_mid. apply chainP_cons. split; [|exact I].
        apply (P_col R T P zip Hzip); assumption.
      - destruct Bs as [|B2 Bs]; [discriminate HL|]. rewrite add_mid_cons.
        destruct qa as [|a2 qa]; [contradiction HA|]. destruct qb as [|b2 qb]; [contradiction HB|].
        change (add_qD_mid (a1 :: a2 :: qa) (b1 :: b2 :: qb)) with ((a1 ++ b1) :: add_qD_mid (a2 :: qa) (b2 :: qb)).
        apply chainP_cons. split.
        + apply (P_diag R T P zip Hzip); assumption.
        + apply (IH (B2 :: Bs) (a1 :: a2 :: qa) (b1 :: b2 :: qb)); [discriminate | simpl in *; lia | exact HA | exact HB |].
          rewrite !last_cons_cons in Hlast. rewrite !last_cons_cons. exact Hlast.
    Qed.

    Lemma chainP_add (alpha : R) (As Bs : list T) qa qb :
      As <> [] -> length As = length Bs -> chainP P qa As -> chainP P qb Bs ->
      hd [] qa = hd [] qb -> last qa [] = last qb [] ->
      chainP P (add_qD qa qb) (add_chain zip alpha As Bs).
    Proof.
      intros Hne HL HA HB Hhd Hlast. destruct As as [|A As]; [contradiction|].
      destruct Bs as [|B Bs]; [discriminate HL|].
      destruct qa as [|a0 [|a1 qa]]; [contradiction HA | contradiction HA |].
      destruct qb as [|b0 [|b1 qb]]; [contradiction HB | contradiction HB |].
      apply chainP_cons in HA, HB. destruct HA as [HA1 HA], HB as [HB1 HB].
      simpl in Hhd. subst b0.
      destruct As as [|A2 As].
      - destruct Bs; [|discriminate HL]. rewrite add_chain_single.
        destruct qa; [|contradiction HA]. destruct qb; [|contradiction HB]. simpl in Hlast. subst b1.
        simpl add_qD. apply chainP_cons. split; [|exact I].
        apply (P_add R T P zip Hzip); assumption.
      - destruct Bs as [|B2 Bs]; [discriminate HL|]. rewrite add_chain_cons.
        destruct qa as [|a2 qa]; [contradiction HA|]. destruct qb as [|b2 qb]; [contradiction HB|].
        change (add_qD (a0 :: a1 :: a2 :: qa) (a0 :: b1 :: b2 :: qb))
          with (a0 :: (a1 ++ b1) :: add_qD_mid (a2 :: qa) (b2 :: qb)).
        apply chainP_cons. split.
        + apply (P_row R T P zip Hzip); assumption.
        + apply (chainP_add_mid (A2 :: As) (B2 :: Bs) (a1 :: a2 :: qa) (b1 :: b2 :: qb));
            [discriminate | simpl in *; lia | exact HA | exact HB |].
          rewrite !last_cons_cons in Hlast. rewrite !last_cons_cons. exact Hlast.
    Qed.
  End AddGen.

  Lemma site_zip_ok' qd : zip_ok R site (site_okP R qd) (@site_zip R).
  Proof. intros f qla qra qlb qrb ql qr A B. apply site_zip_ok. Qed.
  Lemma osite_zip_ok' qd : zip_ok R osite (osite_okP R qd) (@osite_zip R).
  Proof. intros f qla qra qlb qrb ql qr A B. apply osite_zip_ok. Qed.

  (* preconditions of add_mps other than the sparsity re-check of the result: the structural assertions of the code *)
  Definition add_mps_pre (p q : mps) : Prop :=
    length (m_A p) = length (m_A q) /\ m_A p <> [] /\ m_qd p = m_qd q /\
    hd [] (m_qD p) = hd [] (m_qD q) /\ last (m_qD p) [] = last (m_qD q) [].
  Definition add_mpo_pre (a b : mpo) : Prop :=
    length (o_A a) = length (o_A b) /\ o_A a <> [] /\ o_qd a = o_qd b /\
    hd [] (o_qD a) = hd [] (o_qD b) /\ last (o_qD a) [] = last (o_qD b) [].

  Theorem add_mps_ok (alpha : R) (p q : mps) :
    mps_ok p = true -> mps_ok q = true -> add_mps_pre p q -> mps_ok (add_mps alpha p q) = true.
  Proof.
    intros Hp Hq (HL & Hne & Hqd & Hhd & Hlast). apply mps_ok_P in Hp, Hq. apply mps_ok_P.
    unfold add_mps. cbn [m_qd m_qD m_A]. rewrite <- Hqd in Hq.
    apply (chainP_add site (site_okP R (m_qd p)) (@site_zip R) (site_zip_ok' (m_qd p))); assumption.
  Qed.
  Theorem add_mpo_ok (alpha : R) (a b : mpo) :
    mpo_ok a = true -> mpo_ok b = true -> add_mpo_pre a b -> mpo_ok (add_mpo alpha a b) = true.
  Proof.
    intros Hp Hq (HL & Hne & Hqd & Hhd & Hlast). apply mpo_ok_P in Hp, Hq. apply mpo_ok_P.
    unfold add_mpo. cbn [o_qd o_qD o_A]. rewrite <- Hqd in Hq.
    apply (chainP_add osite (osite_okP R (o_qd a)) (@osite_zip R) (osite_zip_ok' (o_qd a))); assumption.
  Qed.

  (* the asserts of the code imply the structural preconditions ... *)
  Lemma add_mps_asserts_pre (alpha : R) (p q : mps) : add_mps_asserts alpha p q = true -> add_mps_pre p q.
  Proof.
    unfold add_mps_asserts. cbv zeta. rewrite !andb_true_iff, Nat.eqb_eq. intros [[[[H1 H2] H3] H4] H5].
    split; [exact H1|]. split; [destruct (m_A p); [discriminate H5|discriminate]|].
    split; [apply zl_eqb_eq; exact H2|]. split; apply zl_eqb_eq; assumption.
  Qed.
  Lemma add_mpo_asserts_pre (alpha : R) (a b : mpo) : add_mpo_asserts alpha a b = true -> add_mpo_pre a b.
  Proof.
    unfold add_mpo_asserts. cbv zeta. rewrite !andb_true_iff, Nat.eqb_eq. intros [[[[H1 H2] H3] H4] H5].
    split; [exact H1|]. split; [destruct (o_A a); [discriminate H5|discriminate]|].
    split; [apply zl_eqb_eq; exact H2|]. split; apply zl_eqb_eq; assumption.
  Qed.

  Lemma chain_qsparse_tl qd (As : list site) qDs : chain_qsparse qd qDs As = true -> As <> [] ->
    chain_qsparse qd (tl qDs) (tl As) = true.
  Proof.
    destruct As as [|A As]; [contradiction|]. destruct qDs as [|ql [|qr qs]]; simpl; try discriminate.
    rewrite andb_true_iff. intros [_ H] _. exact H.
  Qed.
  Lemma ochain_qsparse_tl qd (As : list osite) qDs : ochain_qsparse qd qDs As = true -> As <> [] ->
    ochain_qsparse qd (tl qDs) (tl As) = true.
  Proof.
    destruct As as [|A As]; [contradiction|]. destruct qDs as [|ql [|qr qs]]; simpl; try discriminate.
    rewrite andb_true_iff. intros [_ H] _. exact H.
  Qed.

  (* ... and, on operands satisfying the invariant, the sparsity re-check of the result cannot fail *)
  Theorem add_mps_asserts_never_fire (alpha : R) (p q : mps) :
    mps_ok p = true -> mps_ok q = true -> add_mps_pre p q -> add_mps_asserts alpha p q = true.
  Proof.
    intros Hp Hq Hpre. pose proof (add_mps_ok alpha p q Hp Hq Hpre) as Hr.
    destruct Hpre as (HL & Hne & Hqd & Hhd & Hlast).
    unfold add_mps_asserts. cbv zeta. rewrite HL, Nat.eqb_refl, Hqd, Hhd, Hlast, !zl_eqb_refl. simpl.
    unfold mps_ok in Hr. apply andb_true_iff in Hr. destruct Hr as [_ Hr].
    assert (Hne2 : m_A (add_mps alpha p q) <> []).
    { unfold add_mps. cbn [m_A]. intros E. apply (f_equal (@length _)) in E.
      rewrite length_add_chain in E by exact HL. destruct (m_A p); [contradiction|discriminate E]. }
    unfold add_mps in Hr, Hne2 |- *. cbn [m_qd m_qD m_A] in Hr, Hne2 |- *. revert Hr Hne2.
    destruct (m_A p) as [|A [|A2 As]] eqn:EA; intros Hr Hne2; [contradiction|exact Hr|].
    apply chain_qsparse_tl; assumption.
  Qed.
  Theorem add_mpo_asserts_never_fire (alpha : R) (a b : mpo) :
    mpo_ok a = true -> mpo_ok b = true -> add_mpo_pre a b -> add_mpo_asserts alpha a b = true.
  Proof.
    intros Hp Hq Hpre. pose proof (add_mpo_ok alpha a b Hp Hq Hpre) as Hr.
    destruct Hpre as (HL & Hne & Hqd & Hhd & Hlast).
    unfold add_mpo_asserts. cbv zeta. rewrite HL, Nat.eqb_refl, Hqd, Hhd, Hlast, !zl_eqb_refl. simpl.
    unfold mpo_ok in Hr. apply andb_true_iff in Hr. destruct Hr as [_ Hr].
    assert (Hne2 : o_A (add_mpo alpha a b) <> []).
    { unfold add_mpo. cbn [o_A]. intros E. apply (f_equal (@length _)) in E.
      rewrite length_add_chain in E by exact HL. destruct (o_A a); [contradiction|discriminate E]. }
    unfold add_mpo in Hr, Hne2 |- *. cbn [o_qd o_qD o_A] in Hr, Hne2 |- *. revert Hr Hne2.
    destruct (o_A a) as [|A [|A2 As]] eqn:EA; intros Hr Hne2; [contradiction|exact Hr|].
    apply ochain_qsparse_tl; assumption.
  Qed.

  Corollary add_mps_run_ok (alpha : R) (p q r : mps) :
    mps_ok p = true -> mps_ok q = true -> add_mps_run alpha p q = Some r -> mps_ok r = true.
  Proof.
    unfold add_mps_run. intros Hp Hq. destruct (add_mps_asserts alpha p q) eqn:E; [|discriminate].
    intros H. injection H as <-. apply add_mps_ok; try assumption. apply (add_mps_asserts_pre alpha). exact E.
  Qed.
  Corollary add_mpo_run_ok (alpha : R) (a b r : mpo) :
    mpo_ok a = true -> mpo_ok b = true -> add_mpo_run alpha a b = Some r -> mpo_ok r = true.
  Proof.
    unfold add_mpo_run. intros Hp Hq. destruct (add_mpo_asserts alpha a b) eqn:E; [|discriminate].
    intros H. injection H as <-. apply add_mpo_ok; try assumption. apply (add_mpo_asserts_pre alpha). exact E.
  Qed.

  (* ---------- products ---------- *)
  Lemma chainP_zipw {T1 T2 T3} (P1 : list Z -> list Z -> T1 -> Prop) (P2 : list Z -> list Z -> T2 -> Prop)
        (P3 : list Z -> list Z -> T3 -> Prop) (f : T1 -> T2 -> T3) :
    (forall ql1 qr1 ql2 qr2 A B, P1 ql1 qr1 A -> P2 ql2 qr2 B -> P3 (qflat ql1 ql2) (qflat qr1 qr2) (f A B)) ->
    forall As Bs qa qb, length As = length Bs -> chainP P1 qa As -> chainP P2 qb Bs ->
    chainP P3 (zipw qflat qa qb) (zipw f As Bs).
  Proof.
    intros Hf. induction As as [|A As IH]; intros Bs qa qb HL HA HB.
    - destruct Bs; [|discriminate HL]. destruct qa as [|a [|? ?]]; try contradiction HA.
      destruct qb as [|b [|? ?]]; try contradiction HB. exact I.
    - destruct Bs as [|B Bs]; [discriminate HL|].
      destruct qa as [|a0 [|a1 qa]]; [contradiction HA | contradiction HA |].
      destruct qb as [|b0 [|b1 qb]]; [contradiction HB | contradiction HB |].
      apply chainP_cons in HA, HB. destruct HA as [HA1 HA], HB as [HB1 HB].
      change (zipw qflat (a0 :: a1 :: qa) (b0 :: b1 :: qb)) with (qflat a0 b0 :: qflat a1 b1 :: zipw qflat qa qb).
      change (zipw f (A :: As) (B :: Bs)) with (f A B :: zipw f As Bs).
      apply chainP_cons. split; [apply Hf; assumption|].
      apply (IH Bs (a1 :: qa) (b1 :: qb)); [simpl in HL; lia|exact HA|exact HB].
  Qed.

  Theorem multiply_mpo_ok (a b : mpo) :
    mpo_ok a = true -> mpo_ok b = true -> length (o_A a) = length (o_A b) -> o_qd a = o_qd b ->
    mpo_ok (multiply_mpo a b) = true.
  Proof.
    intros Ha Hb HL Hqd. apply mpo_ok_P in Ha, Hb. apply mpo_ok_P. unfold multiply_mpo. cbn [o_qd o_qD o_A].
    rewrite <- Hqd in Hb.
    apply (chainP_zipw (osite_okP R (o_qd a)) (osite_okP R (o_qd a)) (osite_okP R (o_qd a))); try assumption.
    intros. apply mul_osite_ok; assumption.
  Qed.
  Theorem apply_operator_ok (o : mpo) (p : mps) :
    mpo_ok o = true -> mps_ok p = true -> length (o_A o) = length (m_A p) -> m_qd p = o_qd o ->
    mps_ok (apply_operator o p) = true.
  Proof.
    intros Ho Hp HL Hqd. apply mpo_ok_P in Ho. apply mps_ok_P in Hp. apply mps_ok_P. unfold apply_operator. cbn [m_qd m_qD m_A].
    rewrite <- Hqd in Ho.
    apply (chainP_zipw (osite_okP R (m_qd p)) (site_okP R (m_qd p)) (site_okP R (m_qd p))); try assumption.
    intros. apply apply_site_ok; assumption.
  Qed.

  Theorem multiply_mpo_asserts_never_fire (a b : mpo) :
    mpo_ok a = true -> mpo_ok b = true -> length (o_A a) = length (o_A b) -> o_qd a = o_qd b ->
    multiply_mpo_asserts a b = true.
  Proof.
    intros Ha Hb HL Hqd. pose proof (multiply_mpo_ok a b Ha Hb HL Hqd) as Hr.
    unfold mpo_ok in Hr. apply andb_true_iff in Hr. destruct Hr as [_ Hr].
    unfold multiply_mpo_asserts. cbv zeta. rewrite Hr, HL, Nat.eqb_refl, Hqd, zl_eqb_refl. reflexivity.
  Qed.
  Corollary multiply_mpo_run_ok (a b r : mpo) :
    mpo_ok a = true -> mpo_ok b = true -> multiply_mpo_run a b = Some r -> mpo_ok r = true.
  Proof.
    unfold multiply_mpo_run, multiply_mpo_asserts. cbv zeta. intros Ha Hb.
    destruct (Nat.eqb (length (o_A a)) (length (o_A b))) eqn:E1; [|discriminate].
    destruct (zl_eqb (o_qd a) (o_qd b)) eqn:E2; [|discriminate]. simpl.
    destruct (ochain_qsparse _ _ _); [|discriminate]. intros H. injection H as <-.
    apply multiply_mpo_ok; try assumption; [apply Nat.eqb_eq; exact E1|apply zl_eqb_eq; exact E2].
  Qed.
  (* besides sparsity, apply_operator asserts boundary bond dimension 1 (the MPS constructor) *)
  Theorem apply_operator_asserts_never_fire (o : mpo) (p : mps) :
    mpo_ok o = true -> mps_ok p = true -> length (o_A o) = length (m_A p) -> m_qd p = o_qd o ->
    length (hd [] (m_qD (apply_operator o p))) = 1 -> length (last (m_qD (apply_operator o p)) []) = 1 ->
    apply_operator_asserts o p = true.
  Proof.
    intros Ho Hp HL Hqd H1 H2. pose proof (apply_operator_ok o p Ho Hp HL Hqd) as Hr.
    unfold mps_ok in Hr. apply andb_true_iff in Hr. destruct Hr as [_ Hr].
    unfold apply_operator_asserts. cbv zeta. rewrite Hr, H1, H2, <- HL, Nat.eqb_refl, Hqd, zl_eqb_refl. reflexivity.
  Qed.
  Corollary apply_operator_run_ok (o : mpo) (p r : mps) :
    mpo_ok o = true -> mps_ok p = true -> apply_operator_run o p = Some r -> mps_ok r = true.
  Proof.
    unfold apply_operator_run, apply_operator_asserts. cbv zeta. intros Ho Hp.
    destruct (zl_eqb (m_qd p) (o_qd o)) eqn:E1; [|discriminate].
    destruct (Nat.eqb (length (m_A p)) (length (o_A o))) eqn:E2; [|discriminate]. simpl.
    destruct (_ && _ && _); [|discriminate]. intros H. injection H as <-.
    apply apply_operator_ok; try assumption; [symmetry; apply Nat.eqb_eq; exact E2|apply zl_eqb_eq; exact E1].
  Qed.

  (* ---------- identity ---------- *)
  Theorem identity_ok (qd : list Z) (L : nat) (scale : R) : mpo_ok (mpo_identity qd L scale) = true.
  Proof.
    apply mpo_ok_P. unfold mpo_identity. cbn [o_qd o_qD o_A].
    induction L as [|L IH]; [exact I|].
    change (repeat [0%Z] (S (S L))) with ([0%Z] :: [0%Z] :: repeat [0%Z] L).
    change (repeat (id_osite (length qd) scale) (S L)) with (id_osite (length qd) scale :: repeat (id_osite (length qd) scale) L).
    apply chainP_cons. split; [apply id_osite_ok|exact IH].
  Qed.
End Chain.
