(* C01 / C13 — boolean forms of the oracle contracts, for the non-vacuity examples. *)
From Coq Require Import ZArith List Bool Lia Arith.
From PT Require Import Base.Scalar Base.Field Base.BigSum Base.Mx Model.Tensor Model.BondOps Model.Orthonormalize.
From PT Require Import Proofs.BondOpsSpec Proofs.OrthDefs Proofs.OrthQRExtra Proofs.OrthTop.
Import ListNotations.

Section Bool.
  Variable F : ofield.
  Notation CF := (Cx F).
  Notation mx := (mx CF).
  Definition rdiag_realb (r : mx * mx) : bool :=
    forallb (fun i => feqb F (cim (get (snd r) i i)) (f0 F)) (seq 0 (Nat.min (nr (snd r)) (nc (snd r)))).
  Lemma rdiag_realb_sound r : rdiag_realb r = true -> rdiag_real F r.
  Proof.
    unfold rdiag_realb, rdiag_real. rewrite forallb_forall. intros H i Hi Hj.
    apply feqb_spec. apply H. apply in_seq. lia.
  Qed.
  Definition qr_call_okb (dqr : mx -> mx * mx) (B : mx) : bool := dqr_okb CF B (dqr B) && rdiag_realb (dqr B).
  Lemma qr_call_okb_sound dqr l : forallb (qr_call_okb dqr) l = true -> Forall (qr_call_ok F dqr) l.
  Proof.
    rewrite forallb_forall. intros H. apply Forall_forall. intros B HB. specialize (H B HB).
    unfold qr_call_okb in H. apply andb_true_iff in H. destruct H as [H1 H2]. split.
    - apply dqr_okb_sound. exact H1.
    - apply rdiag_realb_sound. exact H2.
  Qed.
End Bool.
Arguments rdiag_realb {F} r. Arguments qr_call_okb {F} dqr B.
