(* C09 — reversibility of integrate_local_singlesite at the level of the dense state, for every number of sites:
   the prologue of the first call establishes the forward invariant, the prologue of the second call (whose
   orthonormalize only re-gauges a right-canonical state and divides the first tensor by the reported norm) establishes
   the gauge relation, [iter_inverse] carries it back to the start, and gauge-related chains have proportional
   amplitudes. *)
From Coq Require Import ZArith Arith List Lia Ring Setoid Bool.
From PT Require Import Base.Scalar Base.BigSum Base.Mx Model.Tensor Model.Operation Model.Sweeps
  Proofs.OperationEntries Proofs.SweepsCanon Proofs.SweepsFlow Proofs.SweepsSched Proofs.SweepsLocal Proofs.SweepsRun
  Proofs.ReverseDefs Proofs.ReverseMx Proofs.ReverseGauge Proofs.ReverseL1 Proofs.ReverseQR Proofs.ReverseFwd Proofs.ReversePair Proofs.ReverseRun.
Import ListNotations.

Lemma skipn_nth_cons {T} (l : list T) : forall j dflt, j < length l -> skipn j l = nth j l dflt :: skipn (S j) l.
Proof. induction l as [|a l IH]; intros [|j] dflt Hj; cbn [length] in Hj; try lia; [reflexivity|]. cbn [skipn nth]. apply IH. lia. Qed.

Section Top.
  Variable R : cring.
  Add Ring Rring_reverse_top : (k_rt R).
  Notation site := (site R).
  Notation osite := (osite R).
  Notation mx := (mx R).
  Notation sw := (sw R).

  (* ---------------- the prologue, without shape hypotheses ---------------- *)
  Lemma rblocks_len (As : list site) : forall Ws, length As = length Ws -> length (rblocks As Ws) = S (length As).
  Proof.
    induction As as [|A As IH]; intros [|W Ws] Hl; cbn [length] in Hl; try discriminate; [reflexivity|].
    cbn [rblocks length]. rewrite IH by lia. reflexivity.
  Qed.

  Lemma sweep_init_rec (orth : mps R -> mps R * R) H psi (st : sw) nrm : sweep_init orth H psi = Some (st, nrm) ->
    s_A st = m_A (fst (orth psi)) /\ nrm = snd (orth psi) /\ s_tr st = [] /\ 1 <= length (o_A H) /\
    length (s_A st) = length (o_A H) /\ length (s_BL st) = length (o_A H) /\ length (s_BR st) = length (o_A H) /\
    gBL st 0 = env_one /\ gBR st (length (o_A H) - 1) = env_one /\
    (forall j, 0 < j < length (o_A H) ->
       gBR st (j - 1) = contraction_operator_step_right (gA st j) (gA st j) (nth j (o_A H) []) (gBR st j)).
  Proof.
    intros Hinit. pose proof (sweep_init_blocks R orth H psi st nrm Hinit) as (EA & En & GL & GR).
    pose proof (sweep_init_trace R orth H psi st nrm Hinit) as [Etr _].
    assert (Hlens : length (s_A st) = length (o_A H) /\ 1 <= length (o_A H) /\ length (s_BL st) = length (o_A H) /\ length (s_BR st) = length (o_A H)).
    { unfold sweep_init in Hinit. destruct (negb _) eqn:El; [discriminate|].
      destruct (orth psi) as [psi1 n1]. cbn [fst] in *.
      destruct (compute_right_operator_blocks psi1 H) as [BR|] eqn:EB; [|discriminate].
      destruct (forallb _ _); [|discriminate]. injection Hinit as <- _. cbn [s_BL s_BR s_A] in *.
      unfold compute_right_operator_blocks, compute_right_operator_blocks_sites in EB.
      destruct (negb (Nat.eqb (length (m_A psi1)) (length (o_A H)))) eqn:E2; [discriminate|].
      apply negb_false_iff, Nat.eqb_eq in E2.
      destruct (m_A psi1) as [|A As]; [discriminate|]. destruct (o_A H) as [|W Ws]; [discriminate|]. injection EB as <-.
      cbn [length] in *. rewrite repeat_length, rblocks_len by lia. repeat split; lia. }
    destruct Hlens as (lA & HL & lBL & lBR).
    split; [exact EA|]. split; [exact En|]. split; [exact Etr|]. split; [exact HL|]. split; [exact lA|]. split; [exact lBL|]. split; [exact lBR|].
    split; [exact GL|]. split.
    - rewrite GR by lia. replace (S (length (o_A H) - 1)) with (length (o_A H)) by lia.
      rewrite <- lA at 1. rewrite !skipn_all. reflexivity.
    - intros j Hj. rewrite (GR (j - 1)) by lia. replace (S (j - 1)) with j by lia.
      rewrite (skipn_nth_cons (s_A st) j []) by lia. rewrite (skipn_nth_cons (o_A H) j []) by lia.
      unfold BRof. cbn [rfold]. rewrite (GR j) by lia. reflexivity.
  Qed.

  Variable d : nat.
  Variables Ds DW : nat -> nat.
  Hypothesis Hd : 0 < d.

  Section Init.
    Variable Hs : list osite.
    Notation L := (length Hs).
    Hypothesis HW : forall j, j < L -> osite_ok d (DW j) (DW (S j)) (nth j Hs []).
    Hypothesis HDW : forall j, 0 < DW j.
    Hypotheses (HD0 : Ds 0 = 1) (HDL : Ds L = 1) (HW0 : DW 0 = 1) (HWL : DW L = 1).

    (* the forward invariant at the start of the first call *)
    Lemma init_FI (st : sw) : 1 <= L ->
      length (s_A st) = L -> length (s_BL st) = L -> length (s_BR st) = L ->
      gBL st 0 = env_one -> gBR st (L - 1) = env_one ->
      (forall j, 0 < j < L -> gBR st (j - 1) = contraction_operator_step_right (gA st j) (gA st j) (nth j Hs []) (gBR st j)) ->
      (forall j, j < L -> wsite d (Ds j) (Ds (S j)) (gA st j)) -> (forall j, 0 < j < L -> right_iso (gA st j)) ->
      FI Hs d Ds DW 0 st.
    Proof.
      intros HL lA lBL lBR GL GRl Hrec Hsh Hiso.
      assert (HwR : forall k, k < L -> wenv (DW (S (L - 1 - k))) (Ds (S (L - 1 - k))) (Ds (S (L - 1 - k))) (gBR st (L - 1 - k))).
      { induction k as [|k IH]; intros Hk.
        - rewrite Nat.sub_0_r, GRl. replace (S (L - 1)) with L by lia. rewrite HWL, HDL. apply wenv_one.
        - specialize (IH ltac:(lia)). replace (L - 1 - S k) with (L - 1 - k - 1) by lia.
          rewrite (Hrec (L - 1 - k)) by lia. replace (S (L - 1 - k - 1)) with (L - 1 - k) by lia.
          apply (wenv_stepR R Hs d Ds DW Hd HW); [lia|apply Hsh; lia]. }
      split; [exact lA|]. split; [exact lBL|]. split; [exact lBR|]. split; [exact Hsh|].
      split; [intros j Hj; lia|]. split; [intros j Hj; apply Hiso; lia|].
      split; [intros j Hj; assert (j = 0) by lia; subst j; rewrite GL, HW0, HD0; apply wenv_one|].
      split; [intros j Hj; replace j with (L - 1 - (L - 1 - j)) by lia; apply HwR; lia|].
      split; [intros j Hj; lia|]. split; [intros j Hj; apply Hrec; lia|]. split; assumption.
    Qed.

    (* the gauge relation at the start of the second call *)
    Lemma init_Rel (X b : sw) (g : nat -> mx) (c : R) : 1 <= L -> FI Hs d Ds DW 0 X ->
      length (s_A b) = L -> length (s_BL b) = L -> length (s_BR b) = L ->
      gBL b 0 = env_one -> gBR b (L - 1) = env_one ->
      (forall j, 0 < j < L -> gBR b (j - 1) = contraction_operator_step_right (gA b j) (gA b j) (nth j Hs []) (gBR b j)) ->
      g 0 = idmx 1 -> g L = idmx 1 -> (forall j, j <= L -> unitary (Ds j) (g j)) ->
      (forall j, j < L -> gA b j = if Nat.eqb j 0 then scale_site c (gsite (g j) (g (S j)) (gA X j)) else gsite (g j) (g (S j)) (gA X j)) ->
      Rel Hs Ds c 0 X b.
    Proof.
      intros HL (fA & fBL & fBR & Hsh & Hli & Hri & HwL & HwR & HrL & HrR & H0 & HL1) lA lBL lBR GL GRl Hrec g0 gL gU EA.
      assert (HR : forall k, k < L -> gBR b (L - 1 - k) = genvR (g (S (L - 1 - k))) (gBR X (L - 1 - k))).
      { induction k as [|k IH]; intros Hk.
        - rewrite Nat.sub_0_r, GRl, HL1. replace (S (L - 1)) with L by lia. rewrite gL. symmetry. apply genvR_one.
        - specialize (IH ltac:(lia)). replace (L - 1 - S k) with (L - 1 - k - 1) by lia. set (j := L - 1 - k) in *.
          rewrite (Hrec j) by (unfold j; lia). rewrite (EA j) by (unfold j; lia).
          replace (Nat.eqb j 0) with false by (symmetry; apply Nat.eqb_neq; unfold j; lia). rewrite IH.
          rewrite (opstep_right_gauge R d (Ds j) (Ds (S j)) (DW j) (DW (S j)) (gA X j) (nth j Hs []) (gBR X j) (g j) (g (S j)) Hd (HDW _)
                     (Hsh j ltac:(unfold j; lia)) (HW j ltac:(unfold j; lia)) (HwR j ltac:(unfold j; lia)) (gU (S j) ltac:(unfold j; lia))
                     (proj1 (gU j ltac:(unfold j; lia)))).
          replace (S (j - 1)) with j by (unfold j; lia). f_equal. symmetry. apply HrR. unfold j; lia. }
      exists g. split; [exact g0|]. split; [exact gL|]. split; [exact gU|]. split; [exact lA|]. split; [exact lBL|]. split; [exact lBR|].
      split; [exact EA|]. split.
      - intros j Hj. assert (j = 0) by lia. subst j. rewrite GL, H0, g0. symmetry. apply genvL_one.
      - intros j Hj. replace j with (L - 1 - (L - 1 - j)) by lia. apply HR. lia.
    Qed.
  End Init.

  (* ---------------- gauge-related chains have proportional amplitudes ---------------- *)
  Lemma mprod_nc1 n (Ms : list mx) : (Ms = [] -> n = 1) -> mprod n Ms = mprod 1 Ms.
  Proof. destruct Ms; [intros H; rewrite H by reflexivity|]; reflexivity. Qed.

  Lemma mprod_gauge (g : nat -> mx) (As : list site) : forall (Bs : list site) (w : list nat) k,
    length Bs = length As -> length w = length As -> Forall (fun s => s < d) w ->
    (forall j, j < length As -> wsite d (Ds (k + j)) (Ds (S (k + j))) (nth j As [])) ->
    (forall j, j < length As -> nth j Bs [] = gsite (g (k + j)) (g (S (k + j))) (nth j As [])) ->
    (forall j, j <= length As -> unitary (Ds (k + j)) (g (k + j))) ->
    g (k + length As) = idmx 1 -> Ds (k + length As) = 1 ->
    wf (mprod 1 (pick As w)) /\ nr (mprod 1 (pick As w)) = Ds k /\ nc (mprod 1 (pick As w)) = 1 /\
    mprod 1 (pick Bs w) = mulmx (adjmx (g k)) (mprod 1 (pick As w)).
  Proof.
    induction As as [|A As IH]; intros Bs w k lB lw Hw Hsh HB HU HgL HDL.
    - destruct Bs; [|discriminate]. destruct w; [|discriminate]. cbn [length] in *. rewrite Nat.add_0_r in *.
      cbn [pick mprod]. split; [apply wf_idmx|]. split; [rewrite HDL; reflexivity|]. split; [reflexivity|].
      rewrite HgL, adjmx_idmx. symmetry. apply (mulmx_1_l R (idmx 1)). apply wf_idmx.
    - destruct Bs as [|B Bs]; [discriminate|]. destruct w as [|s w]; [discriminate|]. cbn [length] in *.
      inversion Hw as [|? ? Hs Hw']; subst.
      destruct (IH Bs w (S k) ltac:(lia) ltac:(lia) Hw') as (P0 & P1 & P2 & P3).
      { intros j Hj. specialize (Hsh (S j) ltac:(lia)). cbn [nth] in Hsh. rewrite Nat.add_succ_r in Hsh. exact Hsh. }
      { intros j Hj. specialize (HB (S j) ltac:(lia)). cbn [nth] in HB. rewrite Nat.add_succ_r in HB. exact HB. }
      { intros j Hj. specialize (HU (S j) ltac:(lia)). rewrite Nat.add_succ_r in HU. exact HU. }
      { rewrite <- HgL. f_equal. lia. }
      { rewrite <- HDL. f_equal. lia. }
      pose proof (Hsh 0 ltac:(lia)) as HA. pose proof (HB 0 ltac:(lia)) as EB. cbn [nth] in HA, EB. rewrite Nat.add_0_r in HA, EB.
      destruct (wsite_sel R _ _ _ _ s HA Hs) as (m0 & m1 & m2).
      pose proof (HU 0 ltac:(lia)) as U0. rewrite Nat.add_0_r in U0. pose proof (HU 1 ltac:(lia)) as U1. rewrite Nat.add_1_r in U1.
      destruct U0 as ((a0 & a1 & a2) & _). destruct U1 as ((b0 & b1 & b2) & _ & HU1).
      assert (Hend : pick As w = [] -> Ds (S k) = 1).
      { intros E. destruct As as [|A' As']; [rewrite <- HDL; f_equal; cbn [length]; lia|]. destruct w; [discriminate|discriminate]. }
      assert (HendB : pick Bs w = [] -> Ds (S k) = 1).
      { intros E. destruct Bs as [|B' Bs']; [destruct As; [rewrite <- HDL; f_equal; cbn [length]; lia|discriminate]|]. destruct w; [destruct As; discriminate|discriminate]. }
      cbn [pick mprod]. rewrite (mprod_nc1 (nc (sel A s))) by (intros E; rewrite m2; apply Hend; exact E).
      split; [apply wf_mulmx|]. split; [rewrite nr_mulmx; exact m1|]. split; [rewrite nc_mulmx; exact P2|].
      rewrite EB, (sel_gsite R d (Ds k) (Ds (S k))) by assumption.
      rewrite (mprod_nc1 (nc (gmx (g k) (g (S k)) (sel A s)))) by (intros E; unfold gmx; rewrite nc_mulmx, b2; apply HendB; exact E).
      rewrite P3. unfold gmx. repeat rewrite mulmx_assoc by shp.
      rewrite (mulmx_cancel R (g (S k)) (adjmx (g (S k))) _ (Ds (S k)) HU1) by shp. reflexivity.
  Qed.

  Lemma words_in L w : In w (words d L) -> length w = L /\ Forall (fun s => s < d) w.
  Proof.
    revert w. induction L as [|L IH]; intros w Hw; cbn [words] in Hw.
    - destruct Hw as [<-|[]]. split; [reflexivity|constructor].
    - apply in_flat_map in Hw. destruct Hw as (s & Hs & Hw). apply in_seq in Hs. apply in_map_iff in Hw.
      destruct Hw as (w' & <- & Hw'). destruct (IH w' Hw') as [E F]. split; [cbn [length]; lia|constructor; [lia|exact F]].
  Qed.

  Lemma amp_gauge (g : nat -> mx) (c : R) (As Bs : list site) L : 1 <= L -> length As = L -> length Bs = L ->
    Ds 0 = 1 -> Ds L = 1 -> g 0 = idmx 1 -> g L = idmx 1 -> (forall j, j <= L -> unitary (Ds j) (g j)) ->
    (forall j, j < L -> wsite d (Ds j) (Ds (S j)) (nth j As [])) ->
    (forall j, j < L -> nth j Bs [] = if Nat.eqb j 0 then scale_site c (gsite (g j) (g (S j)) (nth j As [])) else gsite (g j) (g (S j)) (nth j As [])) ->
    forall w, In w (words d L) -> amp Bs w = kmul R c (amp As w).
  Proof.
    intros HL lA lB HD0 HDL g0 gL gU Hsh HB w Hw. destruct (words_in L w Hw) as [lw Fw].
    destruct As as [|A As]; [cbn [length] in lA; lia|]. destruct Bs as [|B Bs]; [cbn [length] in lB; lia|].
    destruct w as [|s w]; [cbn [length] in lw; lia|]. cbn [length] in *. inversion Fw as [|? ? Hs Fw']; subst.
    destruct (mprod_gauge g As Bs w 1 ltac:(lia) ltac:(lia) Fw') as (P0 & P1 & P2 & P3).
    { intros j Hj. specialize (Hsh (S j) ltac:(lia)). cbn [nth] in Hsh. exact Hsh. }
    { intros j Hj. specialize (HB (S j) ltac:(lia)). cbn [nth Nat.eqb] in HB. exact HB. }
    { intros j Hj. apply (gU (S j)). lia. }
    { exact gL. } { exact HDL. }
    pose proof (Hsh 0 ltac:(lia)) as HA. pose proof (HB 0 ltac:(lia)) as EB. cbn [nth Nat.eqb] in HA, EB.
    destruct (wsite_sel R _ _ _ _ s HA Hs) as (m0 & m1 & m2).
    destruct (gU 1 ltac:(lia)) as ((b0 & b1 & b2) & _ & HU1).
    assert (Hend : pick As w = [] -> Ds 1 = 1).
    { intros E. destruct As as [|A' As']; [exact HDL|]. destruct w; discriminate. }
    assert (HendB : pick Bs w = [] -> Ds 1 = 1).
    { intros E. destruct Bs as [|B' Bs']; [destruct As; [exact HDL|discriminate]|]. destruct w; [destruct As; discriminate|discriminate]. }
    unfold amp. cbn [pick mprod]. rewrite (mprod_nc1 (nc (sel A s))) by (intros E; rewrite m2; apply Hend; exact E).
    rewrite EB. unfold scale_site. rewrite sel_map_w by (unfold gsite; rewrite map_length, (proj1 HA); exact Hs).
    rewrite (sel_gsite R d (Ds 0) (Ds 1)) by assumption.
    rewrite (mprod_nc1 (nc (scalemx c (gmx (g 0) (g 1) (sel A s))))) by (intros E; unfold gmx; rewrite nc_scalemx, nc_mulmx, b2; apply HendB; exact E).
    rewrite P3, mulmx_scalemx_l. unfold gmx. rewrite g0, adjmx_idmx. repeat rewrite mulmx_assoc by shp.
    rewrite (mulmx_cancel R (g 1) (adjmx (g 1)) _ (Ds 1) HU1) by shp.
    replace (mulmx (idmx 1) (mulmx (sel A s) (mprod 1 (pick As w)))) with (mulmx (sel A s) (mprod 1 (pick As w))).
    2: { symmetry. transitivity (mulmx (idmx (nr (mulmx (sel A s) (mprod 1 (pick As w))))) (mulmx (sel A s) (mprod 1 (pick As w)))).
         - rewrite nr_mulmx, m1, HD0. reflexivity.
         - apply mulmx_1_l. apply wf_mulmx. }
    apply get_scalemx; rewrite ?nr_mulmx, ?nc_mulmx; lia.
  Qed.

  (* ---------------- the contract on the second call's orthonormalize ---------------- *)
  (* on a right-canonical input it only re-gauges the bonds and divides the first tensor by the reported norm *)
  Definition orth_regauge (L : nat) (A : list site) (ans : mps R * R) : Prop :=
    exists (g : nat -> mx) (ci : R),
      kmul R (snd ans) ci = k1 R /\ g 0 = idmx 1 /\ g L = idmx 1 /\ (forall j, j <= L -> unitary (Ds j) (g j)) /\
      length (m_A (fst ans)) = L /\
      forall j, j < L -> nth j (m_A (fst ans)) [] =
        if Nat.eqb j 0 then scale_site ci (gsite (g j) (g (S j)) (nth j A [])) else gsite (g j) (g (S j)) (nth j A []).
End Top.

Arguments orth_regauge {R} Ds L A ans.

Section Main.
Variable R : cring.
Add Ring Rring_reverse_main : (k_rt R).
Theorem tdvp1_reversible orth qr (kexp : kexp_t R) (kexp0 : kexp0_t R) (H : mpo R) psi dt hdt n d Ds DW
    A1 qD1 nrm1 tr1 A2 qD2 nrm2 tr2 :
  let L := length (o_A H) in
  tdvp_singlesite orth qr kexp kexp0 H psi dt hdt n = Some (A1, qD1, nrm1, tr1) ->
  let psi1 := mkmps (m_qd psi) qD1 A1 in
  tdvp_singlesite orth qr kexp kexp0 H psi1 (kopp R dt) (kopp R hdt) n = Some (A2, qD2, nrm2, tr2) ->
  0 < d -> (forall j, j < L -> osite_ok d (DW j) (DW (S j)) (nth j (o_A H) [])) -> (forall j, 0 < DW j) ->
  DW 0 = 1 -> DW L = 1 -> Ds 0 = 1 -> Ds L = 1 ->
  kexp_flow d kexp -> kexp0_flow kexp0 -> kexp_covariant d kexp -> kexp0_covariant kexp0 ->
  (forall j, j < L -> wsite d (Ds j) (Ds (S j)) (nth j (m_A (fst (orth psi))) [])) ->
  (forall j, 0 < j < L -> right_iso (nth j (m_A (fst (orth psi))) [])) ->
  rev_tr_ok qr kexp0 true dt hdt (rev tr1) ->
  rev_tr_ok qr kexp0 false (kopp R dt) (kopp R hdt) (rev tr2) ->
  orth_regauge Ds L A1 (orth psi1) ->
  nrm2 = snd (orth psi1) /\
  forall w, In w (words d L) -> amp (m_A (fst (orth psi))) w = kmul R nrm2 (amp A2 w).
Proof.
  intros L Hrun1 psi1 Hrun2 Hd HW HDW HW0 HWL HD0 HDL Hk Hk0 Hcov Hcov0 Hsh Hiso Hfok Hbok (g & ci & Hci & g0 & gL & gU & lB & EB).
  unfold tdvp_singlesite in Hrun1, Hrun2.
  destruct (sweep_init orth H psi) as [[st n1]|] eqn:E1; [|discriminate].
  destruct (sweep_init orth H psi1) as [[b0 n2]|] eqn:E2; [|discriminate].
  destruct (sweep_init_rec R orth H psi st n1 E1) as (a1 & a2 & a3 & HL & a5 & a6 & a7 & a8 & a9 & a10).
  destruct (sweep_init_rec R orth H psi1 b0 n2 E2) as (b1 & b2 & b3 & _ & b5 & b6 & b7 & b8 & b9 & b10).
  fold L in HL, a5, a6, a7, a9, a10, b5, b6, b7, b9, b10.
  injection Hrun1 as EA1 _ _ Etr1. injection Hrun2 as EA2 _ En2 Etr2. subst nrm2. split; [exact b2|].
  rewrite <- Etr1, rev_involutive in Hfok. rewrite <- Etr2, rev_involutive in Hbok. cbn [m_qd] in *.
  rewrite <- a1 in Hsh, Hiso |- *.
  assert (F0 : FI (o_A H) d Ds DW 0 st) by (apply (init_FI R d Ds DW Hd (o_A H) HW HD0 HDL HW0 HWL st); assumption).
  fold L in EA1, EA2, Hfok, Hbok.
  set (stepF := tdvp1_step qr kexp kexp0 (o_A H) (m_qd psi) dt hdt L) in *.
  set (stepB := tdvp1_step qr kexp kexp0 (o_A H) (m_qd psi) (kopp R dt) (kopp R hdt) L) in *.
  (* the forward invariant at the end of the first call *)
  assert (FN : FI (o_A H) d Ds DW 0 (iter n stepF st)).
  { apply (iter_FI R qr kexp kexp0 (o_A H) (m_qd psi) d Ds DW Hd HL HW Hk dt hdt n st F0 Hfok). }
  (* the gauge relation at the start of the second call *)
  assert (Hc : kmul R ci (snd (orth psi1)) = k1 R) by (rewrite <- Hci; ring).
  assert (R0 : Rel (o_A H) Ds ci 0 (iter n stepF st) b0).
  { apply (init_Rel R d Ds DW Hd (o_A H) HW HDW HD0 HDL HW0 HWL (iter n stepF st) b0 g ci HL FN); try assumption.
    intros j Hj. unfold gA. rewrite b1, EA1. apply EB. exact Hj. }
  pose proof (iter_inverse R qr kexp kexp0 (o_A H) (m_qd psi) d Ds DW Hd HL HW HDW Hk Hk0 Hcov Hcov0 dt hdt ci (snd (orth psi1)) Hc n st b0 F0 Hfok R0 Hbok) as RN.
  fold L in RN. fold stepB in RN.
  destruct RN as (g' & g0' & gL' & gU' & lA' & _ & _ & RA' & _ & _).
  intros w Hw. rewrite <- EA2.
  rewrite (amp_gauge R d Ds Hd g' ci (s_A st) (s_A (iter n stepB b0)) L HL a5 lA' HD0 HDL g0' gL' gU'
             (fun j Hj => (proj1 (proj2 (proj2 (proj2 F0)))) j Hj) RA' w Hw).
  rewrite b2. replace (kmul R (snd (orth psi1)) (kmul R ci (amp (s_A st) w))) with (kmul R (kmul R (snd (orth psi1)) ci) (amp (s_A st) w)) by ring.
  rewrite Hci. ring.
Qed.
End Main.
