(* General lemmas on the Kronecker product [kronmx] of Base/Mx.v (property C17):
   shapes, entries, bilinearity, units, associativity, identity (x) identity. *)
From Coq Require Import Arith List Lia Ring Setoid Bool.
From PT Require Import Base.Scalar Base.BigSum Base.Mx.
Import ListNotations.
Open Scope nat_scope.

Section Kron.
  Variable R : cring.
  Add Ring Rring_c17kron : (k_rt R).
  Notation "0r" := (k0 R). Notation "1r" := (k1 R).
  Notation mx := (mx R).

  Lemma nr_kronmx (A B : mx) : nr (kronmx A B) = nr A * nr B. Proof. reflexivity. Qed.
  Lemma nc_kronmx (A B : mx) : nc (kronmx A B) = nc A * nc B. Proof. reflexivity. Qed.
  Lemma wf_kronmx (A B : mx) : wf (kronmx A B). Proof. apply wf_tab. Qed.

  Lemma get_kronmx (A B : mx) i j : i < nr A * nr B -> j < nc A * nc B ->
    get (kronmx A B) i j = kmul R (get A (i / nr B) (j / nc B)) (get B (i mod nr B) (j mod nc B)).
  Proof. intros Hi Hj. unfold kronmx. apply get_tab; assumption. Qed.

  (* index arithmetic *)
  Lemma lt_mul_pos_r a b i : i < a * b -> 0 < b.
  Proof. intros H. destruct b; [rewrite Nat.mul_0_r in H|]; lia. Qed.
  Lemma lt_mul_pos_l a b i : i < a * b -> 0 < a.
  Proof. intros H. destruct a; [simpl in H|]; lia. Qed.
  Lemma div_lt_mul a b i : i < a * b -> i / b < a.
  Proof.
    intros H. pose proof (lt_mul_pos_r _ _ _ H) as Hb.
    apply Nat.div_lt_upper_bound; [lia|]. rewrite Nat.mul_comm. exact H.
  Qed.
  Lemma mod_lt_mul a b i : i < a * b -> i mod b < b.
  Proof. intros H. pose proof (lt_mul_pos_r _ _ _ H) as Hb. apply Nat.mod_upper_bound. lia. Qed.

  (* ---- bilinearity ---- *)
  Lemma kronmx_addmx_l (A A' B : mx) : nr A = nr A' -> nc A = nc A' ->
    kronmx (addmx A A') B = addmx (kronmx A B) (kronmx A' B).
  Proof.
    intros Hr Hc. apply mx_ext; try apply wf_kronmx; try apply wf_addmx;
      rewrite ?nr_addmx, ?nc_addmx, ?nr_kronmx, ?nc_kronmx, ?nr_addmx, ?nc_addmx; auto.
    intros i j Hi Hj.
    rewrite get_addmx by (rewrite ?nr_kronmx, ?nc_kronmx; assumption).
    rewrite !get_kronmx by (rewrite ?nr_addmx, ?nc_addmx, <- ?Hr, <- ?Hc; assumption).
    rewrite get_addmx by (apply div_lt_mul; assumption). ring.
  Qed.

  Lemma kronmx_addmx_r (A B B' : mx) : nr B = nr B' -> nc B = nc B' ->
    kronmx A (addmx B B') = addmx (kronmx A B) (kronmx A B').
  Proof.
    intros Hr Hc. apply mx_ext; try apply wf_kronmx; try apply wf_addmx;
      rewrite ?nr_addmx, ?nc_addmx, ?nr_kronmx, ?nc_kronmx, ?nr_addmx, ?nc_addmx; auto.
    intros i j Hi Hj.
    rewrite get_addmx by (rewrite ?nr_kronmx, ?nc_kronmx; assumption).
    rewrite !get_kronmx by (rewrite ?nr_addmx, ?nc_addmx, <- ?Hr, <- ?Hc; assumption).
    rewrite nr_addmx, nc_addmx, <- Hr, <- Hc.
    rewrite get_addmx by (eapply mod_lt_mul; eassumption). ring.
  Qed.

  Lemma kronmx_scalemx_l c (A B : mx) : kronmx (scalemx c A) B = scalemx c (kronmx A B).
  Proof.
    apply mx_ext; try apply wf_kronmx; try apply wf_scalemx;
      rewrite ?nr_scalemx, ?nc_scalemx, ?nr_kronmx, ?nc_kronmx, ?nr_scalemx, ?nc_scalemx; auto.
    intros i j Hi Hj.
    rewrite get_scalemx by (rewrite ?nr_kronmx, ?nc_kronmx; assumption).
    rewrite !get_kronmx by (rewrite ?nr_scalemx, ?nc_scalemx; assumption).
    rewrite get_scalemx by (apply div_lt_mul; assumption). ring.
  Qed.

  Lemma kronmx_scalemx_r c (A B : mx) : kronmx A (scalemx c B) = scalemx c (kronmx A B).
  Proof.
    apply mx_ext; try apply wf_kronmx; try apply wf_scalemx;
      rewrite ?nr_scalemx, ?nc_scalemx, ?nr_kronmx, ?nc_kronmx, ?nr_scalemx, ?nc_scalemx; auto.
    intros i j Hi Hj.
    rewrite get_scalemx by (rewrite ?nr_kronmx, ?nc_kronmx; assumption).
    rewrite !get_kronmx by (rewrite ?nr_scalemx, ?nc_scalemx; assumption).
    rewrite nr_scalemx, nc_scalemx.
    rewrite get_scalemx by (eapply mod_lt_mul; eassumption). ring.
  Qed.

  (* ---- units ---- *)
  Lemma get_idmx1 : get (@idmx R 1) 0 0 = 1r.
  Proof. rewrite get_idmx by lia. reflexivity. Qed.

  Lemma kronmx_1_r (A : mx) : wf A -> kronmx A (idmx 1) = A.
  Proof.
    intros HA. apply mx_ext; try apply wf_kronmx; auto;
      rewrite ?nr_kronmx, ?nc_kronmx, ?nr_idmx, ?nc_idmx; try lia.
    intros i j Hi Hj. rewrite get_kronmx by (rewrite ?nr_idmx, ?nc_idmx; assumption).
    rewrite nr_idmx, nc_idmx, !Nat.div_1_r, !Nat.mod_1_r, get_idmx1. ring.
  Qed.

  Lemma kronmx_1_l (A : mx) : wf A -> kronmx (idmx 1) A = A.
  Proof.
    intros HA. apply mx_ext; try apply wf_kronmx; auto;
      rewrite ?nr_kronmx, ?nc_kronmx, ?nr_idmx, ?nc_idmx; try lia.
    intros i j Hi Hj. rewrite get_kronmx by (rewrite ?nr_idmx, ?nc_idmx; assumption).
    rewrite !Nat.div_small, !Nat.mod_small by lia. rewrite get_idmx1. ring.
  Qed.

  (* ---- associativity ---- *)
  Lemma div_div_swap i b c : 0 < b -> 0 < c -> i / (b * c) = i / c / b.
  Proof. intros Hb Hc. rewrite Nat.div_div by lia. rewrite (Nat.mul_comm c b). reflexivity. Qed.
  Lemma mod_mul_div i b c : 0 < b -> 0 < c -> (i mod (b * c)) / c = (i / c) mod b.
  Proof.
    intros Hb Hc. rewrite (Nat.mul_comm b c), Nat.mod_mul_r by lia.
    rewrite (Nat.mul_comm c (i / c mod b)), Nat.div_add by lia.
    rewrite Nat.div_small by (apply Nat.mod_upper_bound; lia). reflexivity.
  Qed.
  Lemma mod_mul_mod i b c : 0 < b -> 0 < c -> (i mod (b * c)) mod c = i mod c.
  Proof.
    intros Hb Hc. rewrite (Nat.mul_comm b c), Nat.mod_mul_r by lia.
    rewrite (Nat.mul_comm c (i / c mod b)), Nat.mod_add by lia.
    apply Nat.mod_mod. lia.
  Qed.

  Lemma kronmx_assoc (A B C : mx) : kronmx (kronmx A B) C = kronmx A (kronmx B C).
  Proof.
    apply mx_ext; try apply wf_kronmx; rewrite ?nr_kronmx, ?nc_kronmx; try lia.
    intros i j Hi Hj.
    assert (Hc : 0 < nr C) by (eapply lt_mul_pos_r; eassumption).
    assert (Hc' : 0 < nc C) by (eapply lt_mul_pos_r; eassumption).
    assert (Hab : i / nr C < nr A * nr B) by (apply div_lt_mul; assumption).
    assert (Hab' : j / nc C < nc A * nc B) by (apply div_lt_mul; assumption).
    assert (Hb : 0 < nr B) by (eapply lt_mul_pos_r; eassumption).
    assert (Hb' : 0 < nc B) by (eapply lt_mul_pos_r; eassumption).
    rewrite (get_kronmx (kronmx A B) C) by (rewrite ?nr_kronmx, ?nc_kronmx; assumption).
    rewrite (get_kronmx A B) by assumption.
    rewrite (get_kronmx A (kronmx B C)) by (rewrite ?nr_kronmx, ?nc_kronmx; lia).
    rewrite nr_kronmx, nc_kronmx.
    rewrite (get_kronmx B C)
      by (apply Nat.mod_upper_bound; lia).
    rewrite !div_div_swap, !mod_mul_div, !mod_mul_mod by assumption. ring.
  Qed.

  (* ---- identity (x) identity ---- *)
  Lemma kronmx_idmx m n : kronmx (@idmx R m) (idmx n) = idmx (m * n).
  Proof.
    apply mx_ext; try apply wf_kronmx; try apply wf_idmx;
      rewrite ?nr_kronmx, ?nc_kronmx, ?nr_idmx, ?nc_idmx; auto.
    intros i j Hi Hj.
    assert (Hn : 0 < n) by (eapply lt_mul_pos_r; eassumption).
    rewrite get_kronmx by (rewrite ?nr_idmx, ?nc_idmx; assumption).
    rewrite nr_idmx, nc_idmx.
    rewrite !get_idmx by (try (apply div_lt_mul; assumption); try (apply Nat.mod_upper_bound; lia); assumption).
    destruct (Nat.eqb_spec i j) as [->|Hne].
    - rewrite !Nat.eqb_refl. ring.
    - destruct (Nat.eqb_spec (i / n) (j / n)) as [Ed|Ed]; [|ring].
      destruct (Nat.eqb_spec (i mod n) (j mod n)) as [Em|Em]; [|ring].
      exfalso. apply Hne.
      rewrite (Nat.div_mod_eq i n), (Nat.div_mod_eq j n), Ed, Em. reflexivity.
  Qed.

  (* entries of a Kronecker product with an identity on the right / left *)
  Lemma get_kronmx_idmx_r (A : mx) n i j : i < nr A * n -> j < nc A * n ->
    get (kronmx A (idmx n)) i j = if Nat.eqb (i mod n) (j mod n) then get A (i / n) (j / n) else 0r.
  Proof.
    intros Hi Hj. rewrite get_kronmx by (rewrite ?nr_idmx, ?nc_idmx; assumption).
    rewrite nr_idmx, nc_idmx.
    rewrite get_idmx by (eapply mod_lt_mul; eassumption).
    destruct (Nat.eqb (i mod n) (j mod n)); ring.
  Qed.
End Kron.
