(* C20 (3): simplify never increases any bond dimension.
   For a well-formed graph (C16's WF) the layers MPO.from_opgraph discovers are exactly the level sets of the level
   function; merge_edges keeps the node ids inside the old ones, keeps the start terminal and keeps every level function
   valid, so each level set can only shrink.  Lifted through the loops of simplify. *)
From Coq Require Import ZArith List Lia Bool Permutation.
From PT Require Import Base.Scalar Base.BigSum Base.Mx Model.OpGraph Model.FromOpchains Model.GraphMPO Model.Rewrites Model.Hamiltonians
                       Proofs.FromOpchainsPart Proofs.GraphMPOSem
                       Proofs.RewritesBase Proofs.RewritesMergeInv Proofs.RewritesMergeSame Proofs.RewritesMergeNode
                       Proofs.RewritesSimplify Proofs.RewritesAll Proofs.CompactLayers.
Import ListNotations.
Open Scope Z_scope.

Lemma exists_min {A} (f : A -> Z) (l : list A) : l <> [] -> exists x, In x l /\ forall y, In y l -> f x <= f y.
Proof.
  induction l as [|a l IH]; intros H; [congruence|]. destruct l as [|b l].
  - exists a. split; [left; reflexivity|]. intros y [<-|[]]. lia.
  - destruct (IH ltac:(discriminate)) as [x [Hx Hm]]. destruct (Z_le_gt_dec (f a) (f x)).
    + exists a. split; [left; reflexivity|]. intros y [<-|Hy]; [lia|]. specialize (Hm y Hy). lia.
    + exists x. split; [right; exact Hx|]. intros y [<-|Hy]; [lia|]. apply Hm. exact Hy.
Qed.
Lemma NoDup_zinsert x l : ~ In x l -> NoDup l -> NoDup (zinsert x l).
Proof.
  induction l as [|y l IH]; simpl; intros Hx Hn; [constructor; [intros []|constructor]|].
  destruct (x <=? y); [constructor; assumption|]. inversion Hn; subst. constructor.
  - rewrite zinsert_In. intros [->|H]; [apply Hx; left; reflexivity|contradiction].
  - apply IH; [intros H; apply Hx; right; exact H|assumption].
Qed.
Lemma NoDup_zsort l : NoDup l -> NoDup (zsort l).
Proof.
  induction l as [|x l IH]; simpl; intros H; [constructor|]. inversion H; subst.
  apply NoDup_zinsert; [rewrite zsort_In; assumption|apply IH; assumption].
Qed.

Section Simp.
  Variable R : cring.
  Notation graph := (graph R).

  (* a level function *)
  Definition LV (g : graph) (lv : Z -> Z) : Prop := forall e, In e (g_edges g) -> lv (e_to e) = lv (e_from e) + 1.
  (* what a rewrite may do: node ids stay inside the old ones, same start terminal, level functions stay valid *)
  Definition Shrink (g g' : graph) : Prop :=
    (forall x, In x (nids R g') -> In x (nids R g)) /\ g_t0 g' = g_t0 g /\ (forall lv, LV g lv -> LV g' lv).
  Lemma Shrink_refl g : Shrink g g.
  Proof. repeat split; auto. Qed.
  Lemma Shrink_trans a b c : Shrink a b -> Shrink b c -> Shrink a c.
  Proof. intros [A1 [A2 A3]] [B1 [B2 B3]]. repeat split; [auto|congruence|auto]. Qed.

  Lemma V1_id d base b n : n_id (V1 d base b n) = n_id n.
  Proof. unfold V1. destruct (n_id n =? base); [apply rm_id|reflexivity]. Qed.
  Lemma V3_id d m1 L2 n : n_id (V3 d m1 L2 n) = n_id n.
  Proof. unfold V3. destruct (n_id n =? m1); [apply ap_id|reflexivity]. Qed.

  Lemma merge_edges_Shrink (g g' : graph) a b d : WF R g -> merge_edges g a b d = Some g' -> Shrink g g'.
  Proof.
    intros W H.
    destruct (merge_edges_inv R g g' a b d W H) as [Hd [Hab [e1 [e2 [He1 [He2 [Ha [Hb [Hbase Hcase]]]]]]]]].
    destruct Hcase as [[Hup ->] | [Hup [Hop [n1 [n2 [Hn1 [Hn2 [Hid1 [Hid2 [S1 [S2 [Hq ->]]]]]]]]]]]].
    - (* same upstream node *)
      unfold Shrink, G_same, nids. cbn [g_nodes g_edges g_t0]. split; [|split; [reflexivity|]].
      + intros x Hx. rewrite map_map in Hx. apply in_map_iff in Hx. destruct Hx as [n [<- Hn]].
        rewrite Vsame_id. apply in_map. exact Hn.
      + intros lv Hlv e' He'. apply in_map_iff in He'. destruct He' as [e [<- He]]. apply filter_In in He.
        rewrite Usame_from, Usame_to. apply Hlv. apply He.
    - (* merged upstream nodes *)
      unfold Shrink, G_node, nids. cbn [g_nodes g_edges g_t0]. split; [|split; [reflexivity|]].
      + intros x Hx. rewrite map_map in Hx. apply in_map_iff in Hx. destruct Hx as [n [<- Hn]].
        rewrite V3_id. apply filter_In in Hn. destruct Hn as [Hn _]. apply in_map_iff in Hn. destruct Hn as [n0 [<- Hn0]].
        rewrite V1_id. apply in_map. exact Hn0.
      + intros lv Hlv e' He'. apply in_map_iff in He'. destruct He' as [e [<- He]]. apply filter_In in He.
        apply redir_lv; [|apply Hlv; apply He].
        apply (lv_sibling R d e1 e2 lv Hd); [apply Hlv; exact He1|apply Hlv; exact He2|exact Hbase].
  Qed.

  (* ---- lifting through the loops of simplify (same induction as Proofs/RewritesSimplify.v) ---- *)
  Lemma step_fuel_Shrink fuel : forall (g g' : graph) d nids0 c,
    WF R g -> simplify_step_fuel fuel g d nids0 = Some (c, g') -> Shrink g g'.
  Proof.
    induction fuel as [|f IH]; intros g g' d nids0 c W H; [discriminate|].
    rewrite simplify_step_fuel_S in H. destruct (layer_pair g d nids0) as [[a b]|].
    - destruct (merge_edges g a b d) as [gm|] eqn:Hm; [|discriminate]. inversion H; subst.
      exact (merge_edges_Shrink g g' a b d W Hm).
    - destruct (next_layer g d nids0) as [|z l].
      + inversion H; subst. apply Shrink_refl.
      + exact (IH g g' d (z :: l) c W H).
  Qed.
  Lemma steps_dir_Shrink fuel : forall (g g' : graph) d c, WF R g -> steps_dir fuel g d = Some (c, g') -> Shrink g g'.
  Proof.
    induction fuel as [|f IH]; intros g g' d c W H; [discriminate|].
    rewrite steps_dir_S in H. destruct (simplify_step g d) as [[[|] g1]|] eqn:Hs; [| |discriminate].
    - destruct (simplify_step_ok R g g1 d true W Hs) as [W1 _].
      destruct (steps_dir f g1 d) as [[c2 g2]|] eqn:Hr; [|discriminate]. inversion H; subst.
      eapply Shrink_trans; [exact (step_fuel_Shrink _ g g1 d _ true W Hs)|exact (IH g1 g' d c2 W1 Hr)].
    - inversion H; subst. apply Shrink_refl.
  Qed.
  Lemma steps_dir_WF fuel (g g' : graph) d c : WF R g -> steps_dir fuel g d = Some (c, g') -> WF R g'.
  Proof. intros W H. exact (proj1 (steps_dir_spec R (merge_edges_WF R) (merge_edges_den R) (merge_edges_cnt R) fuel g g' d c W H)). Qed.
  Lemma simplify_fuel_Shrink fuel : forall (g g' : graph), WF R g -> simplify_fuel fuel g = Some g' -> Shrink g g'.
  Proof.
    induction fuel as [|f IH]; intros g g' W H; [discriminate|].
    rewrite simplify_fuel_S in H.
    destruct (steps_dir (S (length (g_edges g))) g 0) as [[c0 g0]|] eqn:H0; [|discriminate].
    pose proof (steps_dir_WF _ g g0 0%nat c0 W H0) as W0.
    destruct (steps_dir (S (length (g_edges g0))) g0 1) as [[c1 g1]|] eqn:H1; [|discriminate].
    pose proof (steps_dir_WF _ g0 g1 1%nat c1 W0 H1) as W1.
    pose proof (Shrink_trans _ _ _ (steps_dir_Shrink _ g g0 0%nat c0 W H0) (steps_dir_Shrink _ g0 g1 1%nat c1 W0 H1)) as S01.
    destruct (c0 || c1).
    - eapply Shrink_trans; [exact S01|exact (IH g1 g' W1 H)].
    - inversion H; subst. exact S01.
  Qed.
  Lemma simplify_Shrink (g g' : graph) : WF R g -> simplify g = Some g' -> Shrink g g'.
  Proof. intros W H. exact (simplify_fuel_Shrink _ g g' W H). Qed.

  (* ---- layers of a well-formed graph = level sets ---- *)
  Section Levels.
    Variable g : graph.
    Hypothesis W : WF R g.
    Variable lv : Z -> Z.
    Hypothesis Hlv : LV g lv.
    Let c0 := lv (g_t0 g).

    Lemma out_edges_iff x e : In e (out_edges g x) <-> In e (g_edges g) /\ e_from e = x.
    Proof.
      change (out_edges g x) with (dedges R g 0 x).
      pose proof (dedges_perm R g 0 x (wf_nids R g W) (wf_eids R g W) (wf_ref0 R g W)) as P. split.
      - intros H. apply (Permutation_in _ P) in H. apply filter_In in H. destruct H as [H1 H2]. apply Z.eqb_eq in H2. auto.
      - intros [H1 H2]. apply (Permutation_in _ (Permutation_sym P)). apply filter_In. split; [exact H1|]. apply Z.eqb_eq. exact H2.
    Qed.
    Lemma edge_ends e : In e (g_edges g) -> In (e_from e) (nids R g) /\ In (e_to e) (nids R g).
    Proof.
      intros He. split.
      - destruct (wf_ref0 R g W) as [_ [_ R3]]. destruct (R3 e He) as [n [Hn [Hid _]]]. cbn [end_d] in Hid. rewrite <- Hid. apply in_map. exact Hn.
      - destruct (wf_ref1 R g W) as [_ [_ R3]]. destruct (R3 e He) as [n [Hn [Hid _]]]. cbn [end_d] in Hid. rewrite <- Hid. apply in_map. exact Hn.
    Qed.
    (* every node other than the start terminal has an incoming edge *)
    Lemma has_pred x : In x (nids R g) -> x <> g_t0 g -> exists e, In e (g_edges g) /\ e_to e = x.
    Proof.
      intros Hx Hne. apply in_map_iff in Hx. destruct Hx as [n [<- Hn]].
      pose proof (wf_nd0 R g W n Hn Hne) as Hd. cbn [node_eids] in Hd.
      destruct (n_in n) as [|eid l] eqn:E; [congruence|].
      destruct (wf_ref1 R g W) as [_ [R2 _]]. destruct (R2 n eid Hn) as [e [He [_ Hend]]]; [cbn [node_eids Nat.sub]; rewrite E; left; reflexivity|].
      exists e. split; [exact He|exact Hend].
    Qed.
    Lemma t0_in : In (g_t0 g) (nids R g).
    Proof. destruct (wf_term0 R g W) as [n [Hn [Hid _]]]. cbn [terminal] in Hid. rewrite <- Hid. apply in_map. exact Hn. Qed.

    Lemma no_low x : In x (nids R g) -> x <> g_t0 g -> c0 < lv x.
    Proof.
      assert (Hmin : forall y, In y (nids R g) -> c0 <= lv y).
      { destruct (exists_min lv (nids R g)) as [m [Hm Hmin]].
        { intros E. pose proof t0_in as T. rewrite E in T. exact T. }
        destruct (Z.eq_dec m (g_t0 g)) as [->|Hne]; [exact Hmin|].
        destruct (has_pred m Hm Hne) as [e [He Hto]]. destruct (edge_ends e He) as [Hf _].
        pose proof (Hlv e He) as L. specialize (Hmin _ Hf). rewrite Hto in L. lia. }
      intros Hx Hne. destruct (has_pred x Hx Hne) as [e [He Hto]]. destruct (edge_ends e He) as [Hf _].
      pose proof (Hlv e He) as L. specialize (Hmin _ Hf). rewrite Hto in L. unfold c0 in *. lia.
    Qed.
    (* below a node at level c0 + j + 1 + i there is one at level c0 + j + 1 *)
    Lemma level_back (j : Z) : 0 <= j -> forall i x, In x (nids R g) -> lv x = c0 + j + 1 + Z.of_nat i ->
      exists y, In y (nids R g) /\ lv y = c0 + j + 1.
    Proof.
      intros Hj. induction i as [|i IH]; intros x Hx Hl.
      - exists x. split; [exact Hx|lia].
      - assert (Hne : x <> g_t0 g) by (intros ->; fold c0 in Hl; lia).
        destruct (has_pred x Hx Hne) as [e [He Hto]]. destruct (edge_ends e He) as [Hf _].
        pose proof (Hlv e He) as L. rewrite Hto in L. apply (IH (e_from e) Hf). lia.
    Qed.

    Lemma layers_levels : forall fuel nids0 ls (j : Z), 0 <= j ->
      layers fuel g nids0 = Ok ls -> (forall x, In x nids0 <-> In x (nids R g) /\ lv x = c0 + j) ->
      (forall i l, nth_error ls i = Some l -> NoDup l /\ forall x, In x l <-> In x (nids R g) /\ lv x = c0 + j + 1 + Z.of_nat i) /\
      (forall i x, In x (nids R g) -> lv x = c0 + j + 1 + Z.of_nat i -> (i < length ls)%nat).
    Proof.
      induction fuel as [|f IH]; intros nids0 ls j Hj H Hn0; simpl in H; [discriminate|].
      unfold GraphMPO.next_layer in H.
      destruct (fold_left (fun acc nid => node_targets g nid acc) nids0 (Ok [])) as [n1|er] eqn:E; [|discriminate].
      cbn [bind] in H. pose proof (next_layer_conv R g nids0 [] n1 E (NoDup_nil _)) as [C1 C2].
      pose proof (next_layer_spec R g nids0 [] n1 E) as [_ S2].
      assert (Hn1 : forall x, In x n1 <-> In x (nids R g) /\ lv x = c0 + j + 1).
      { intros x. split.
        - intros Hx. destruct (C2 x Hx) as [[]|[nid [e [Hnid [He [Hf Ht]]]]]].
          destruct (edge_ends e He) as [_ Hto]. rewrite Ht in Hto. split; [exact Hto|].
          pose proof (Hlv e He) as L. rewrite Ht, Hf in L. apply Hn0 in Hnid. lia.
        - intros [Hx Hl]. assert (Hne : x <> g_t0 g) by (intros ->; fold c0 in Hl; lia).
          destruct (has_pred x Hx Hne) as [e [He Hto]]. destruct (edge_ends e He) as [Hf _].
          pose proof (Hlv e He) as L. rewrite Hto in L.
          assert (Hm : In (e_from e) nids0) by (apply Hn0; split; [exact Hf|lia]).
          rewrite <- Hto. apply (S2 (e_from e) e Hm). apply out_edges_iff. auto. }
      destruct n1 as [|z n1'].
      - inversion H; subst ls. split.
        + intros i l Hi. destruct i; discriminate.
        + intros i x Hx Hl. exfalso. destruct (level_back j Hj i x Hx Hl) as [y [Hy Hly]].
          apply (proj2 (Hn1 y)). split; assumption.
      - set (n1 := z :: n1') in *.
        destruct (layers f g (zsort n1)) as [r|er] eqn:E2; [|discriminate]. cbn [bind] in H. inversion H; subst ls. clear H.
        assert (Hs : forall x, In x (zsort n1) <-> In x (nids R g) /\ lv x = c0 + (j + 1)).
        { intros x. rewrite zsort_In, Hn1. split; intros [A B]; split; auto; lia. }
        destruct (IH (zsort n1) r (j + 1) ltac:(lia) E2 Hs) as [I1 I2]. split.
        + intros i l Hi. destruct i as [|i]; cbn [nth_error] in Hi.
          * inversion Hi; subst l. change (zinsert z (zsort n1')) with (zsort n1). split; [apply NoDup_zsort; exact C1|]. intros x. rewrite zsort_In, Hn1. split; intros [A B]; split; auto; lia.
          * destruct (I1 i l Hi) as [A B]. split; [exact A|]. intros x. rewrite B. split; intros [P Q]; split; auto; lia.
        + intros i x Hx Hl. destruct i as [|i]; [simpl; lia|]. cbn [length]. apply -> Nat.succ_lt_mono. apply (I2 i x Hx). lia.
    Qed.

    (* the layers from_opgraph finds are the level sets; the start layer is the start terminal alone *)
    Lemma graph_layers_levels ls : layers (S (length (g_nodes g))) g [g_t0 g] = Ok ls ->
      (forall i l, nth_error ls i = Some l -> NoDup l /\ forall x, In x l <-> In x (nids R g) /\ lv x = c0 + 1 + Z.of_nat i) /\
      (forall i x, In x (nids R g) -> lv x = c0 + 1 + Z.of_nat i -> (i < length ls)%nat).
    Proof.
      intros H. destruct (layers_levels _ [g_t0 g] ls 0 ltac:(lia) H) as [A B].
      - intros x. split.
        + intros [<-|[]]. split; [apply t0_in|unfold c0; lia].
        + intros [Hx Hl]. left. destruct (Z.eq_dec x (g_t0 g)) as [->|Hne]; [reflexivity|]. pose proof (no_low x Hx Hne). lia.
      - split.
        + intros i l Hi. destruct (A i l Hi) as [A1 A2]. split; [exact A1|]. intros x. rewrite A2. split; intros [P Q]; split; auto; lia.
        + intros i x Hx Hl. apply (B i x Hx). lia.
    Qed.
  End Levels.

  (* layers never records an empty layer *)
  Lemma layers_nonempty (g : graph) : forall fuel n0 ls i, layers fuel g n0 = Ok ls -> nth_error ls i = Some [] -> False.
  Proof.
    induction fuel as [|f IH]; intros n0 ls i E Hi; simpl in E; [discriminate|].
    destruct (GraphMPO.next_layer g n0) as [n1|]; cbn [bind] in E; [|discriminate]. destruct n1 as [|z n1].
    - inversion E; subst. destruct i; discriminate.
    - set (m := z :: n1) in *. destruct (layers f g (zsort m)) as [r|] eqn:Er; cbn [bind] in E; [|discriminate]. inversion E; subst.
      destruct i as [|i]; cbn [nth_error] in Hi.
      + injection Hi as Hz. apply (f_equal (@length Z)) in Hz. unfold m in Hz. cbn [zsort fold_right] in Hz. rewrite zinsert_length in Hz. discriminate Hz.
      + exact (IH _ r i Er Hi).
  Qed.

  (* ---- comparison of the bond dimensions of two well-formed graphs related by Shrink ---- *)
  Theorem Shrink_bond_le (g g' : graph) ws ws' : WF R g -> WF R g' -> Shrink g g' ->
    bond_dims g = Some ws -> bond_dims g' = Some ws' ->
    (length ws' <= length ws)%nat /\ forall i w', nth_error ws' i = Some w' -> exists w, nth_error ws i = Some w /\ (w' <= w)%nat.
  Proof.
    intros W W' [S1 [S2 S3]] H H'. destruct (wf_layered R g W) as [lv Hlv]. pose proof (S3 lv Hlv) as Hlv'.
    unfold bond_dims, graph_layers in H, H'.
    destruct (layers (S (length (g_nodes g))) g [g_t0 g]) as [ls|] eqn:E; cbn [bind] in H; [|discriminate].
    destruct (layers (S (length (g_nodes g'))) g' [g_t0 g']) as [ls'|] eqn:E'; cbn [bind] in H'; [|discriminate].
    inversion H; subst ws. inversion H'; subst ws'. clear H H'.
    destruct (graph_layers_levels g W lv Hlv ls E) as [A B].
    destruct (graph_layers_levels g' W' lv Hlv' ls' E') as [A' B'].
    rewrite S2 in A'.
    (* every layer of g' sits inside the corresponding layer of g *)
    assert (Hlay : forall i l', nth_error ls' i = Some l' -> exists l, nth_error ls i = Some l /\ (length l' <= length l)%nat).
    { intros i l' Hi'. destruct (A' i l' Hi') as [N' M'].
      assert (Hne : exists x, In x l').
      { destruct l' as [|x l']; [|exists x; left; reflexivity]. exfalso. exact (layers_nonempty g' _ _ _ _ E' Hi'). }
      destruct Hne as [x Hx]. apply M' in Hx. destruct Hx as [Hx' Hl].
      pose proof (B i x (S1 x Hx') Hl) as Hlen.
      destruct (nth_error ls i) as [l|] eqn:El; [|apply nth_error_None in El; lia].
      exists l. split; [reflexivity|]. destruct (A i l El) as [N M].
      apply NoDup_incl_length; [exact N'|]. intros y Hy. apply M' in Hy. apply M. split; [apply S1; apply Hy|apply Hy]. }
    split.
    - cbn [length]. rewrite !map_length. apply le_n_S.
      destruct ls' as [|l0 ls0]; [simpl; lia|].
      assert (Hlast : nth_error (l0 :: ls0) (length ls0) <> None) by (apply nth_error_Some; simpl; lia).
      destruct (nth_error (l0 :: ls0) (length ls0)) as [l'|] eqn:El; [|congruence].
      destruct (Hlay _ _ El) as [l [Hl _]]. assert (length ls0 < length ls)%nat by (apply nth_error_Some; congruence). simpl. lia.
    - intros i w' Hi. destruct i as [|i]; cbn [nth_error] in *.
      + inversion Hi; subst. exists 1%nat. split; [reflexivity|lia].
      + rewrite nth_error_map in Hi. destruct (nth_error ls' i) as [l'|] eqn:El'; cbn [option_map] in Hi; [|discriminate].
        inversion Hi; subst w'. destruct (Hlay i l' El') as [l [Hl Hle]]. exists (length l). split; [|exact Hle].
        rewrite nth_error_map, Hl. reflexivity.
  Qed.

  (* C20 (3): simplify never increases any bond dimension, and never adds a layer *)
  Theorem simplify_bond_le (g g' : graph) ws ws' : WF R g -> simplify g = Some g' ->
    bond_dims g = Some ws -> bond_dims g' = Some ws' ->
    (length ws' <= length ws)%nat /\ forall i w', nth_error ws' i = Some w' -> exists w, nth_error ws i = Some w /\ (w' <= w)%nat.
  Proof.
    intros W H. apply Shrink_bond_le; [exact W|exact (simplify_WF R g g' W H)|exact (simplify_Shrink g g' W H)].
  Qed.
  Theorem merge_edges_bond_le (g g' : graph) a b d ws ws' : WF R g -> merge_edges g a b d = Some g' ->
    bond_dims g = Some ws -> bond_dims g' = Some ws' ->
    (length ws' <= length ws)%nat /\ forall i w', nth_error ws' i = Some w' -> exists w, nth_error ws i = Some w /\ (w' <= w)%nat.
  Proof.
    intros W H. apply Shrink_bond_le; [exact W|exact (merge_edges_WF R g g' a b d W H)|exact (merge_edges_Shrink g g' a b d W H)].
  Qed.
End Simp.
