(* C07 (b), all L -- part 5: spin orbitals.  WHENEVER the model of the spin enumeration returns a chain list (i.e.
   to_spin_opchain raises on none of the enumerated chains), that list equals the second-quantised spin formula
   [spin_formula] on every word, for every L, all coefficient functions, every cring and every [half].
   Route: the spin enumeration on L sites is the spinless enumeration on 2 L modes with the coefficient functions
   T2, V2 (zero unless the spins match, the code's parity tests), every word read through the site pairing [zp]
   (Proofs/MolAllL4.v); the generalised spinless theorem [gen_formula_all_L] (Proofs/MolAllL3.v) then applies, and the
   formula side is re-indexed from modes I < 2 L to (orbital i < L, spin s < 2), I = 2 i + s. *)
From Coq Require Import ZArith List Lia Bool Arith Ring.
From PT Require Import Base.Scalar Base.BigSum Model.OpGraph Model.FromOpchains Model.Molecular Model.MolFormula
                       Proofs.MolOpt Proofs.MolFormulaProofs Proofs.MolAllL1 Proofs.MolAllL2 Proofs.MolAllL3 Proofs.MolAllL4.
Import ListNotations.
Open Scope nat_scope.

(* ---- parity and halves of mode indices ---- *)
Lemma odd_double i : Nat.odd (2 * i) = false.
Proof. induction i as [|i IH]; [reflexivity|]. replace (2 * S i) with (S (S (2 * i))) by lia. exact IH. Qed.
Lemma par_md0 i : par (md i 0) = false.
Proof. unfold par, md. rewrite Nat.add_0_r. apply odd_double. Qed.
Lemma par_md1 i : par (md i 1) = true.
Proof. unfold par, md. replace (2 * i + 1) with (S (2 * i)) by lia. rewrite Nat.odd_succ, <- Nat.negb_odd, odd_double. reflexivity. Qed.
Lemma div_md0 i : md i 0 / 2 = i.
Proof. unfold md. rewrite Nat.add_0_r. apply div2_even. Qed.
Lemma div_md1 i : md i 1 / 2 = i.
Proof. unfold md. rewrite Nat.mul_comm, Nat.div_add_l by lia. cbn. lia. Qed.

(* ---- res_all ---- *)
Lemma res_all_map_Ok {A} (l : list (res A)) sk : res_all l = Ok sk -> l = map Ok sk.
Proof.
  revert sk. induction l as [|r l IH]; intros sk H; cbn [res_all] in H.
  - inversion H. reflexivity.
  - destruct r as [a|e]; [|discriminate]. cbn [bind] in H.
    destruct (res_all l) as [t|e]; [|discriminate]. cbn [bind] in H. inversion H; subst sk.
    cbn [map]. f_equal. apply IH. reflexivity.
Qed.

Section SpinAllL.
  Variable R : cring.
  Variable half : R.
  Add Ring Rring_molspin : (k_rt R).
  Notation "0r" := (k0 R). Notation "1r" := (k1 R).
  Variable t : nat -> nat -> R.
  Variable v : nat -> nat -> nat -> nat -> R.

  (* coefficient functions on modes: zero unless the spins match *)
  Definition T2 (I J : nat) : R := if xorb (par I) (par J) then 0r else t (I / 2) (J / 2).
  Definition V2 (I J K Lx : nat) : R :=
    if Bool.eqb (par I) (par K) && Bool.eqb (par J) (par Lx) then v (I / 2) (J / 2) (K / 2) (Lx / 2) else 0r.

  (* ---- re-indexing modes as (orbital, spin) ---- *)
  Lemma sum2L L (f : nat -> R) :
    suml (seq 0 (2 * L)) f = suml (seq 0 L) (fun i => suml (seq 0 2) (fun s => f (md i s))).
  Proof.
    induction L as [|L IH]; [reflexivity|].
    replace (2 * S L) with (S (S (2 * L))) by lia. rewrite (seq_S (S (2 * L))), (seq_S (2 * L)), (seq_S L), !suml_app, IH. cbn [suml seq].
    unfold md. replace (0 + S (2 * L)) with (2 * L + 1) by lia. replace (0 + 2 * L) with (2 * L + 0) by lia.
    cbn [Nat.add]. ring.
  Qed.
  Lemma sum2L_2 L (g : nat -> nat -> R) :
    suml (seq 0 (2 * L)) (fun I => suml (seq 0 (2 * L)) (fun J => g I J)) =
    suml (seq 0 L) (fun i => suml (seq 0 L) (fun j => suml (seq 0 2) (fun s => suml (seq 0 2) (fun u =>
      g (md i s) (md j u))))).
  Proof.
    rewrite sum2L. apply suml_ext; intros i _.
    rewrite (suml_ext R (seq 0 2) _ (fun s => suml (seq 0 L) (fun j => suml (seq 0 2) (fun u => g (md i s) (md j u)))))
      by (intros s _; apply sum2L).
    apply suml_exch.
  Qed.
  Lemma exch22 {A B C D} (la : list A) (lb : list B) (lc : list C) (ld : list D) (y : A -> B -> C -> D -> R) :
    suml la (fun a => suml lb (fun b => suml lc (fun c => suml ld (fun d => y a b c d)))) =
    suml lc (fun c => suml ld (fun d => suml la (fun a => suml lb (fun b => y a b c d)))).
  Proof.
    rewrite (suml_ext R la _ (fun a => suml lc (fun c => suml lb (fun b => suml ld (fun d => y a b c d)))))
      by (intros a _; apply suml_exch).
    rewrite suml_exch. apply suml_ext; intros c _.
    rewrite (suml_ext R la _ (fun a => suml ld (fun d => suml lb (fun b => y a b c d))))
      by (intros a _; apply suml_exch).
    apply suml_exch.
  Qed.
  Lemma sum2L_4 L (g : nat -> nat -> nat -> nat -> R) :
    suml (seq 0 (2 * L)) (fun I => suml (seq 0 (2 * L)) (fun J => suml (seq 0 (2 * L)) (fun K => suml (seq 0 (2 * L)) (fun Lx =>
      g I J K Lx)))) =
    suml (seq 0 L) (fun i => suml (seq 0 L) (fun j => suml (seq 0 L) (fun k => suml (seq 0 L) (fun l =>
      suml (seq 0 2) (fun s => suml (seq 0 2) (fun u => suml (seq 0 2) (fun s' => suml (seq 0 2) (fun u' =>
        g (md i s) (md j u) (md k s') (md l u'))))))))).
  Proof.
    rewrite (sum2L_2 L (fun I J => suml (seq 0 (2 * L)) (fun K => suml (seq 0 (2 * L)) (fun Lx => g I J K Lx)))).
    apply suml_ext; intros i _. apply suml_ext; intros j _.
    rewrite (suml_ext R (seq 0 2) _ (fun s => suml (seq 0 2) (fun u =>
               suml (seq 0 L) (fun k => suml (seq 0 L) (fun l => suml (seq 0 2) (fun s' => suml (seq 0 2) (fun u' =>
                 g (md i s) (md j u) (md k s') (md l u'))))))))
      by (intros s _; apply suml_ext; intros u _; apply (sum2L_2 L (g (md i s) (md j u)))).
    apply (exch22 (seq 0 2) (seq 0 2) (seq 0 L) (seq 0 L)
             (fun s u k l => suml (seq 0 2) (fun s' => suml (seq 0 2) (fun u' => g (md i s) (md j u) (md k s') (md l u'))))).
  Qed.

  (* ---- formula side ---- *)
  Theorem spin_formula_gen L w :
    spin_formula half L t v w = gen_formula R half spin_ids T2 V2 (2 * L) w.
  Proof.
    unfold spin_formula, gen_formula. f_equal; [|f_equal].
    - rewrite (sum2L_2 L (fun I J => kmul R (T2 I J) (sw_coef spin_ids (term2 (2 * L) I J) w))).
      apply suml_ext; intros i _. apply suml_ext; intros j _. cbn [seq suml]. unfold T2.
      rewrite !par_md0, !par_md1, !div_md0, !div_md1. cbn [xorb]. ring.
    - rewrite (sum2L_4 L (fun I J K Lx => kmul R (V2 I J K Lx) (sw_coef spin_ids (term4 (2 * L) I J K Lx) w))).
      apply suml_ext; intros i _. apply suml_ext; intros j _. apply suml_ext; intros k _. apply suml_ext; intros l _.
      cbn [seq suml]. unfold V2. rewrite !par_md0, !par_md1, !div_md0, !div_md1. cbn [Bool.eqb andb]. ring.
  Qed.

  (* ---- chain side ---- *)
  Lemma spin_coeff_gint I J K Lx :
    let c0 := Bool.eqb (par I) (par K) && Bool.eqb (par J) (par Lx) in
    let c1 := Bool.eqb (par I) (par Lx) && Bool.eqb (par J) (par K) in
    gint half V2 I J K Lx = if c0 || c1 then spin_coeff half t v (SInt (I / 2) (J / 2) (K / 2) (Lx / 2) c0 c1) else 0r.
  Proof.
    unfold gint, V2, spin_coeff, gint0, gint1. destruct (par I), (par J), (par K), (par Lx); cbn [Bool.eqb andb orb]; ring.
  Qed.

  Lemma tagged_Ok r tg x : tagged r tg = Ok x -> exists s', r = Ok s' /\ x = (s', tg).
  Proof. unfold tagged. destruct r as [s'|e]; cbn [bind]; [|discriminate]. intros H. inversion H. eauto. Qed.

  Theorem spin_chains_skels L cs w : spin_chains half L t v = Ok cs ->
    chains_den L 0%Z cs w = skels_den R half zp T2 V2 (2 * L) (mol_skels (2 * L)) w.
  Proof.
    unfold spin_chains, spin_skels. intros H.
    destruct (res_all (spin_hop_skels L ++ spin_int_skels L)) as [sk|e] eqn:Er; [|discriminate].
    cbn [bind] in H. inversion H; subst cs. clear H.
    apply res_all_map_Ok in Er.
    assert (Hok : forall r, In r (spin_hop_skels L ++ spin_int_skels L) -> exists x, r = Ok x).
    { intros r Hr. rewrite Er in Hr. apply in_map_iff in Hr. destruct Hr as [x [E _]]. eauto. }
    set (h := fun st : skel * stag => ind R (zlist_eqb (skel_word L (fst st)) w) (spin_coeff half t v (snd st))).
    assert (E1 : chains_den L 0%Z (map (attach (spin_coeff half t v)) sk) w =
                 suml (spin_hop_skels L ++ spin_int_skels L) (fun r => match r with Ok x => h x | Err _ => 0r end)).
    { rewrite Er. unfold chains_den. rewrite !suml_map. apply suml_ext. intros st _. reflexivity. }
    rewrite E1. unfold skels_den, mol_skels. rewrite !suml_app. f_equal.
    - (* hopping *)
      unfold spin_hop_skels, mol_hop_skels. rewrite !suml_flat_map'. apply suml_ext; intros I HI.
      rewrite suml_flat_map', suml_map. apply suml_ext; intros J HJ. cbn [fst snd mol_coeff]. unfold T2.
      destruct (xorb (par I) (par J)) eqn:Ex; [unfold ind; cbn [suml]; destruct (zlist_eqb _ w); reflexivity|].
      cbn [suml].
      destruct (Hok (tagged (to_spin_skel (hop_skel I J)) (SHop (I / 2) (J / 2)))) as [x Hx].
      { apply in_or_app. left. unfold spin_hop_skels. apply in_flat_map. exists I. split; [exact HI|].
        apply in_flat_map. exists J. split; [exact HJ|]. rewrite Ex. left. reflexivity. }
      rewrite Hx. apply tagged_Ok in Hx. destruct Hx as [s' [Hs ->]]. unfold h. cbn [fst snd spin_coeff].
      apply in_seq in HI. apply in_seq in HJ.
      rewrite (to_spin_word L _ _ Hs) by (pose proof (hop_skel_wf I J (2 * L) ltac:(lia) ltac:(lia)) as [_ [_ [Hf _]]]; lia).
      ring.
    - (* interaction *)
      unfold spin_int_skels, mol_int_skels. rewrite !suml_flat_map'. apply suml_ext; intros [I J] HIJ.
      rewrite suml_flat_map', suml_map. apply suml_ext; intros [K Lx] HKL. cbn [fst snd mol_coeff].
      rewrite spin_coeff_gint. cbv zeta.
      destruct (Bool.eqb (par I) (par K) && Bool.eqb (par J) (par Lx) || Bool.eqb (par I) (par Lx) && Bool.eqb (par J) (par K)) eqn:Ev;
        cbn [negb]; [|unfold ind; cbn [suml]; destruct (zlist_eqb _ w); reflexivity].
      cbn [suml].
      match goal with |- context [tagged ?a ?b] => destruct (Hok (tagged a b)) as [x Hx] end.
      { apply in_or_app. right. unfold spin_int_skels. apply in_flat_map. exists (I, J). split; [exact HIJ|].
        apply in_flat_map. exists (K, Lx). split; [exact HKL|]. cbn [fst snd]. rewrite Ev. left. reflexivity. }
      rewrite Hx. apply tagged_Ok in Hx. destruct Hx as [s' [Hs ->]]. unfold h. cbn [fst snd].
      apply pairs_lt_In in HIJ. apply pairs_lt_In in HKL.
      rewrite (to_spin_word L _ _ Hs)
        by (pose proof (int_skel_wf I J K Lx (2 * L) ltac:(lia) ltac:(lia) ltac:(lia) ltac:(lia)) as [_ [_ [Hf _]]]; lia).
      ring.
  Qed.

  Theorem spin_formula_all_L L cs : spin_chains half L t v = Ok cs ->
    forall w, chains_den L 0%Z cs w = spin_formula half L t v w.
  Proof.
    intros H w. rewrite (spin_chains_skels L cs w H), spin_formula_gen.
    apply (gen_formula_all_L R half spin_ids zp spin_ids_zp).
  Qed.
End SpinAllL.
