(* C05 (a): the MPO assembled by [from_opgraph] denotes the operator of the graph.
   [pamp g opmap w w' nid] is the matrix element <w| . |w'> of the sum over all paths nid -> end
   of the tensor products of the local edge operators  sum(c * opmap[i]). *)
From Coq Require Import ZArith List Lia Bool Ring Sorted Permutation.
From PT Require Import Base.Scalar Base.BigSum Base.Mx Model.OpGraph Model.Tensor Model.FromOpchains Model.GraphMPO.
Import ListNotations.
Open Scope Z_scope.

Section GraphMPOSem.
  Variable R : cring.
  Add Ring Rring_gmpo : (k_rt R).
  Notation "0r" := (k0 R). Notation "1r" := (k1 R).
  Infix "+r" := (kadd R) (at level 50, left associativity).
  Infix "*r" := (kmul R) (at level 40, left associativity).
  Notation graph := (graph R).
  Notation mx := (mx R).

  Fixpoint pamp (g : graph) (opmap : Z -> mx) (w w' : list nat) (nid : Z) : R :=
    match w, w' with
    | s :: u, t :: u' => suml (out_edges g nid) (fun e => opsum opmap s t (e_opics e) *r pamp g opmap u u' (e_to e))
    | _, _ => if nid =? g_t1 g then 1r else 0r
    end.

  (* consecutive layers: every out-edge of a node of one layer ends in the next layer *)
  Fixpoint closed (g : graph) (ls : list (list Z)) : Prop :=
    match ls with
    | a :: ((b :: _) as t) => (forall nid e, In nid a -> In e (out_edges g nid) -> In (e_to e) b) /\ closed g t
    | _ => True
    end.

  Lemma sumn_suml_exch {A} n (l : list A) (f : nat -> A -> R) :
    sumn n (fun k => suml l (fun e => f k e)) = suml l (fun e => sumn n (fun k => f k e)).
  Proof.
    induction l as [|a l IH]; simpl.
    - apply sumn_0.
    - rewrite sumn_add, IH. reflexivity.
  Qed.

  Lemma index_of_nth x l : In x l -> exists j, zindex x l = Some j /\ (j < length l)%nat /\ nth j l 0 = x.
  Proof.
    unfold zindex. induction l as [|y l IH]; simpl; intros H; [contradiction|].
    destruct (x =? y) eqn:E.
    - apply Z.eqb_eq in E. subst. exists O. repeat split; auto. lia.
    - destruct H as [H|H]; [subst; rewrite Z.eqb_refl in E; discriminate|].
      destruct (IH H) as [j [Hj [Hl Hn]]]. exists (S j). rewrite Hj. simpl. repeat split; auto. lia.
  Qed.

  Lemma osel_site_tensor d (g : graph) (opmap : Z -> mx) n0 n1 s t : (s < d)%nat -> (t < d)%nat ->
    osel (site_tensor d g opmap n0 n1) s t = bond_mx g opmap n0 n1 s t.
  Proof.
    intros Hs Ht. unfold osel, site_tensor.
    rewrite (nth_map_seq [] d _ s Hs). apply nth_map_seq. exact Ht.
  Qed.

  Lemma last_cons2 {A} (a b : A) l d : last (a :: b :: l) d = last (b :: l) d.
  Proof. reflexivity. Qed.

  Lemma tensors_amp d (g : graph) (opmap : Z -> mx) : forall rest nids0 w w',
    closed g (nids0 :: rest) -> length w = length rest -> length w' = length rest ->
    Forall (fun s => (s < d)%nat) w -> Forall (fun s => (s < d)%nat) w' ->
    last (nids0 :: rest) [] = [g_t1 g] ->
    let M := mprod (length nids0) (opick (tensors d g opmap nids0 rest) w w') in
    nr M = length nids0 /\ nc M = 1%nat /\
    forall i, (i < length nids0)%nat -> get M i 0 = pamp g opmap w w' (nth i nids0 0).
  Proof.
    induction rest as [|nids1 rest IH]; intros nids0 w w' Hc Hw Hw' Fw Fw' Hl.
    - destruct w; [|discriminate]. destruct w'; [|discriminate]. simpl in Hl. subst nids0. simpl.
      repeat split; auto. intros i Hi. assert (i = O) by lia. subst i.
      rewrite get_idmx by lia. simpl. rewrite Z.eqb_refl. reflexivity.
    - destruct w as [|s u]; [discriminate|]. destruct w' as [|t u']; [discriminate|].
      inversion Fw as [|? ? Hs Fu]; subst. inversion Fw' as [|? ? Ht Fu']; subst.
      destruct Hc as [Hc1 Hc2]. rewrite last_cons2 in Hl.
      simpl in Hw, Hw'.
      specialize (IH nids1 u u' Hc2 ltac:(lia) ltac:(lia) Fu Fu' Hl).
      cbn [tensors opick mprod]. rewrite osel_site_tensor by assumption.
      cbn zeta in IH. destruct IH as [Hr [Hcn IH]].
      assert (Enc : nc (bond_mx g opmap nids0 nids1 s t) = length nids1) by reflexivity.
      rewrite Enc. set (M' := mprod (length nids1) (opick (tensors d g opmap nids1 rest) u u')) in *.
      cbn zeta. rewrite nr_mulmx, nc_mulmx. split; [reflexivity|]. split; [exact Hcn|].
      intros i Hi. rewrite get_mulmx by (rewrite ?Hcn; cbn; lia). rewrite Enc.
      cbn [pamp].
      transitivity (sumn (length nids1) (fun k => suml (out_edges g (nth i nids0 0)) (fun e =>
         (if onat_eqb (zindex (e_to e) nids1) k then opsum opmap s t (e_opics e) else 0r) *r get M' k 0))).
      { apply sumn_ext. intros k Hk. unfold bond_mx. rewrite get_tab by assumption.
        rewrite <- suml_scal_r. reflexivity. }
      rewrite sumn_suml_exch. apply suml_ext. intros e He.
      assert (Hin : In (e_to e) nids1). { apply (Hc1 (nth i nids0 0)); [apply nth_In; exact Hi | exact He]. }
      destruct (index_of_nth _ _ Hin) as [j [Hj [Hjl Hjn]]].
      rewrite (sumn_single R (length nids1) j); [|exact Hjl|].
      2:{ intros k Hk Hne. rewrite Hj. simpl. destruct (Nat.eqb j k) eqn:E;
          [apply Nat.eqb_eq in E; congruence | ring]. }
      rewrite Hj. simpl. rewrite Nat.eqb_refl. rewrite IH by exact Hjl. rewrite Hjn. reflexivity.
  Qed.

  (* ---- the layers found by [graph_layers] are closed ---- *)
  Definition tgt_fold (g : graph) (nid : Z) :=
    (fun (acc : res (list Z)) eid => bind acc (fun l =>
        match find_edge g eid with None => Err EKey | Some e =>
          if negb (e_from e =? nid) then Err EAssert else
          Ok (if zmem (e_to e) l then l else l ++ [e_to e])
        end)).

  Lemma fold_err {A B} (f : res A -> B -> res A) (Hf : forall e b, f (Err e) b = Err e) l e :
    fold_left f l (Err e) = Err e.
  Proof. induction l; simpl; auto. rewrite Hf. auto. Qed.

  Lemma zmem_In x l : zmem x l = true <-> In x l.
  Proof.
    unfold zmem. rewrite existsb_exists. split.
    - intros [y [Hy E]]. apply Z.eqb_eq in E. subst. exact Hy.
    - intros H. exists x. split; auto. apply Z.eqb_refl.
  Qed.

  Lemma tgt_fold_spec (g : graph) nid : forall eids l l',
    fold_left (tgt_fold g nid) eids (Ok l) = Ok l' ->
    incl l l' /\ forall e, In e (edges_of g eids) -> In (e_to e) l'.
  Proof.
    induction eids as [|eid eids IH]; intros l l' H; cbn [fold_left] in H.
    - inversion H; subst. split; [apply incl_refl|]. simpl. contradiction.
    - unfold tgt_fold at 2 in H. cbn [bind] in H. destruct (find_edge g eid) as [e0|] eqn:Ef; [|rewrite fold_err in H by reflexivity; discriminate].
      destruct (negb (e_from e0 =? nid)); [rewrite fold_err in H by reflexivity; discriminate|].
      apply IH in H. destruct H as [Hi Ht].
      assert (In (e_to e0) l' /\ incl l l') as [H1 H2].
      { destruct (zmem (e_to e0) l) eqn:Em.
        - split; [apply Hi, zmem_In, Em | exact Hi].
        - split; [apply Hi, in_or_app; right; left; reflexivity |].
          intros x Hx. apply Hi, in_or_app. left. exact Hx. }
      split; [exact H2|]. intros e He. unfold edges_of in He. simpl in He. rewrite Ef in He.
      simpl in He. destruct He as [He|He]; [subst; exact H1 | apply Ht; exact He].
  Qed.

  Lemma node_targets_spec (g : graph) nid l l' :
    node_targets g nid (Ok l) = Ok l' -> incl l l' /\ forall e, In e (out_edges g nid) -> In (e_to e) l'.
  Proof.
    unfold node_targets, out_edges. simpl. destruct (find_node g nid) as [n|]; [|discriminate].
    apply tgt_fold_spec.
  Qed.

  Lemma next_layer_spec (g : graph) : forall nids l l',
    fold_left (fun acc nid => node_targets g nid acc) nids (Ok l) = Ok l' ->
    incl l l' /\ forall nid e, In nid nids -> In e (out_edges g nid) -> In (e_to e) l'.
  Proof.
    induction nids as [|nid nids IH]; intros l l' H; cbn [fold_left] in H.
    - inversion H; subst. split; [apply incl_refl|]. intros ? ? [].
    - destruct (node_targets g nid (Ok l)) as [l1|er] eqn:E;
        [|rewrite fold_err in H by reflexivity; discriminate].
      apply node_targets_spec in E. destruct E as [E1 E2]. apply IH in H. destruct H as [H1 H2].
      split; [intros x Hx; apply H1, E1, Hx|].
      intros m e [Hm|Hm] He; [subst; apply H1, E2, He | apply (H2 m e Hm He)].
  Qed.

  Lemma zinsert_In x y l : In y (zinsert x l) <-> y = x \/ In y l.
  Proof.
    induction l as [|z l IH]; simpl; [intuition|].
    destruct (x <=? z); simpl; [intuition|]. rewrite IH. intuition.
  Qed.
  Lemma zsort_In y l : In y (zsort l) <-> In y l.
  Proof. induction l as [|x l IH]; simpl; [tauto|]. rewrite zinsert_In, IH. intuition. Qed.

  Lemma zinsert_sorted x l : Sorted Z.le l -> Sorted Z.le (zinsert x l).
  Proof.
    induction l as [|z l IH]; simpl; intros H; [repeat constructor|].
    destruct (x <=? z) eqn:E.
    - constructor; [exact H|]. constructor. apply Z.leb_le, E.
    - inversion H as [|? ? Hs Hh]; subst. constructor; [apply IH, Hs|].
      apply Z.leb_gt in E. destruct l as [|z' l]; simpl.
      + constructor. lia.
      + destruct (x <=? z'); constructor; [lia|]. inversion Hh; subst. assumption.
  Qed.
  Lemma zsort_sorted l : Sorted Z.le (zsort l).
  Proof. induction l; simpl; [constructor|apply zinsert_sorted; assumption]. Qed.

  Lemma layers_closed (g : graph) : forall fuel nids0 ls,
    layers fuel g nids0 = Ok ls -> closed g (nids0 :: ls) /\ Forall (Sorted Z.le) ls.
  Proof.
    induction fuel as [|f IH]; intros nids0 ls H; simpl in H; [discriminate|].
    unfold next_layer in H.
    destruct (fold_left (fun acc nid => node_targets g nid acc) nids0 (Ok [])) as [n1|er] eqn:E; [|discriminate].
    simpl in H. apply next_layer_spec in E. destruct E as [_ E].
    destruct n1 as [|x n1].
    - inversion H; subst. simpl. split; auto.
    - destruct (layers f g (zsort (x :: n1))) as [r|er] eqn:E2; [|discriminate].
      simpl in H. inversion H; subst. apply IH in E2. destruct E2 as [E2 E3]. split.
      + split; [|exact E2]. intros nid e Hn He. apply (proj2 (zsort_In (e_to e) (x :: n1))). apply (E nid e Hn He).
      + constructor; [apply (zsort_sorted (x :: n1)) | exact E3].
  Qed.

  (* charges *)
  Definition charge (g : graph) (nid : Z) : Z := match find_node g nid with Some n => n_q n | None => 0 end.
  Lemma layer_q_spec (g : graph) : forall nids qs, layer_q g nids = Ok qs -> qs = map (charge g) nids.
  Proof.
    induction nids as [|nid t IH]; intros qs H; simpl in H; [inversion H; reflexivity|].
    destruct (find_node g nid) as [n|] eqn:E; [|discriminate].
    destruct (layer_q g t) as [q|]; [|discriminate]. simpl in H. inversion H; subst.
    simpl. unfold charge at 1. rewrite E. f_equal. apply IH. reflexivity.
  Qed.
  Lemma all_q_spec (g : graph) : forall ls qD, all_q g ls = Ok qD -> qD = map (map (charge g)) ls.
  Proof.
    induction ls as [|l t IH]; intros qD H; simpl in H; [inversion H; reflexivity|].
    destruct (layer_q g l) as [q|] eqn:E; [|discriminate]. simpl in H.
    destruct (all_q g t) as [qs|]; [|discriminate]. simpl in H. inversion H; subst.
    simpl. f_equal; [apply layer_q_spec, E | apply IH; reflexivity].
  Qed.

  (* nid_map: the assignments are exactly (node at position i of layer l) |-> (l, i) *)
  Lemma combine_seq_In {A} : forall (l : list A) b k x,
    In (k, x) (combine (seq b (length l)) l) <-> (b <= k)%nat /\ nth_error l (k - b) = Some x.
  Proof.
    induction l as [|y t IH]; intros b k x; simpl.
    - split; [contradiction|]. intros [_ H]. destruct (k - b)%nat; discriminate.
    - rewrite IH. split.
      + intros [H|[H1 H2]].
        * inversion H; subst. split; [lia|]. replace (k - k)%nat with O by lia. reflexivity.
        * split; [lia|]. replace (k - b)%nat with (S (k - S b)) by lia. exact H2.
      + intros [H1 H2]. destruct (Nat.eq_dec b k) as [->|Hne].
        * left. replace (k - k)%nat with O in H2 by lia. simpl in H2. inversion H2; reflexivity.
        * right. split; [lia|]. replace (k - b)%nat with (S (k - S b)) in H2 by lia. exact H2.
  Qed.
  Lemma layer_map_In l nids nid l' i :
    In (nid, (l', i)) (layer_map l nids) <-> l' = l /\ nth_error nids i = Some nid.
  Proof.
    unfold layer_map. rewrite in_map_iff. split.
    - intros [[k x] [E H]]. simpl in E. inversion E; subst.
      apply combine_seq_In in H. destruct H as [_ H]. rewrite Nat.sub_0_r in H. auto.
    - intros [-> H]. exists (i, nid). split; [reflexivity|].
      apply combine_seq_In. rewrite Nat.sub_0_r. split; [lia|exact H].
  Qed.
  Lemma nid_map_In : forall ls k nid l i,
    In (nid, (l, i)) (nid_map_from k ls) <->
    exists l', l = (k + l')%nat /\ exists nids, nth_error ls l' = Some nids /\ nth_error nids i = Some nid.
  Proof.
    induction ls as [|nids t IH]; intros k nid l i; simpl.
    - split; [contradiction|]. intros [l' [_ [x [H _]]]]. destruct l'; discriminate.
    - rewrite in_app_iff, layer_map_In, IH. split.
      + intros [[-> H]|[l' [-> [x [H1 H2]]]]].
        * exists O. split; [lia|]. exists nids. auto.
        * exists (S l'). split; [lia|]. exists x. auto.
      + intros [l' [-> [x [H1 H2]]]]. destruct l'; simpl in H1.
        * inversion H1; subst. left. split; [lia|exact H2].
        * right. exists l'. split; [lia|]. exists x. auto.
  Qed.

  (* ---- the theorems ---- *)
  Theorem from_opgraph_struct qd g opmap o m :
    from_opgraph qd g opmap = Ok (o, m) ->
    exists ls,
      graph_layers g = Ok ([g_t0 g] :: ls) /\ closed g ([g_t0 g] :: ls) /\ Forall (Sorted Z.le) ls /\
      o_qd o = qd /\ o_qD o = map (map (charge g)) ([g_t0 g] :: ls) /\
      o_A o = tensors (length qd) g opmap [g_t0 g] ls /\
      m = nid_map_from 0 ([g_t0 g] :: ls) /\
      ochain_qsparse qd (o_qD o) (o_A o) = true.
  Proof.
    unfold from_opgraph, graph_layers. intros H.
    destruct (Nat.eqb (length qd) 0); [discriminate|].
    destruct (find_node g (g_t0 g)); [|discriminate].
    destruct (layers (S (length (g_nodes g))) g [g_t0 g]) as [ls|] eqn:El; [|discriminate].
    cbn [bind] in H. destruct (all_q g ([g_t0 g] :: ls)) as [qD|] eqn:Eq; [|discriminate].
    cbn [bind tl] in H.
    destruct (ochain_qsparse qd qD (tensors (length qd) g opmap [g_t0 g] ls)) eqn:Es; [|discriminate].
    inversion H; subst. exists ls. apply layers_closed in El. destruct El as [E1 E2].
    apply all_q_spec in Eq. cbn [o_qd o_qD o_A]. repeat split; auto.
  Qed.

  Theorem from_opgraph_opamp qd g opmap o m ls :
    from_opgraph qd g opmap = Ok (o, m) ->
    graph_layers g = Ok ls -> last ls [] = [g_t1 g] ->
    forall w w', length w = length (o_A o) -> length w' = length (o_A o) ->
    Forall (fun s => (s < length qd)%nat) w -> Forall (fun s => (s < length qd)%nat) w' ->
    opamp (o_A o) w w' = pamp g opmap w w' (g_t0 g).
  Proof.
    intros H Hl Hlast w w' Hw Hw' Fw Fw'.
    destruct (from_opgraph_struct _ _ _ _ _ H) as [ls' [E1 [E2 [E3 [E4 [E5 [E6 [E7 E8]]]]]]]].
    rewrite E1 in Hl. inversion Hl; subst ls.
    assert (Hlen : length (o_A o) = length ls').
    { rewrite E6. clear. generalize [g_t0 g]. induction ls'; simpl; intros; auto. }
    unfold opamp. rewrite E6.
    destruct (tensors_amp (length qd) g opmap ls' [g_t0 g] w w' E2 ltac:(lia) ltac:(lia) Fw Fw' Hlast) as [_ [_ G]].
    apply (G O). simpl. lia.
  Qed.
End GraphMPOSem.
