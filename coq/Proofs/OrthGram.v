(* C01 / C13 — a matrix-product chain all of whose site tensors are (left or right) isometries has norm one.
   Entry-level Gram forms of the partial products, induction along the chain. *)
From Coq Require Import ZArith List Bool Lia Arith Ring.
From PT Require Import Base.Scalar Base.BigSum Base.Mx Model.Tensor Model.BondOps Model.Orthonormalize.
From PT Require Import Proofs.BondOpsLoop Proofs.MPSOpsBase Proofs.MPSOpsMul Proofs.OrthDefs.
Import ListNotations.

Section OrthGram.
  Variable R : cring.
  Add Ring Rring_orthgram : (k_rt R).
  Notation rO := (k0 R). Notation rI := (k1 R).
  Infix "+!" := (kadd R) (at level 50, left associativity).
  Infix "*!" := (kmul R) (at level 40, left associativity).
  Notation mx := (mx R).
  Notation site := (site R).
  Notation cj := (kconj R).

  (* (P^H P)[k,l]  and  (P P^H)[k,l] *)
  Definition gl (P : mx) (k l : nat) : R := sumn (nr P) (fun a => cj (get P a k) *! get P a l).
  Definition gr (P : mx) (k l : nat) : R := sumn (nc P) (fun b => get P k b *! cj (get P l b)).

  (* ---------- abstract sum manipulations ---------- *)
  Lemma sumn_one (f : nat -> R) : sumn 1 f = f 0.
  Proof. simpl. ring. Qed.

  Lemma sum_mul2 n m (f g : nat -> R) :
    sumn n f *! sumn m g = sumn n (fun b => sumn m (fun c => f b *! g c)).
  Proof. rewrite <- sumn_scal_r. apply sumn_ext; intros b _. rewrite <- sumn_scal_l. reflexivity. Qed.

  Lemma sum3_pull d D (p : nat -> nat -> R) (G : nat -> nat -> nat -> R) :
    sumn d (fun s => sumn D (fun b => sumn D (fun c => p b c *! G s b c))) =
    sumn D (fun b => sumn D (fun c => p b c *! sumn d (fun s => G s b c))).
  Proof.
    rewrite sumn_exch. apply sumn_ext; intros b _. rewrite sumn_exch. apply sumn_ext; intros c _.
    apply sumn_scal_l.
  Qed.

  Lemma sum2_delta D (p : nat -> nat -> R) :
    sumn D (fun b => sumn D (fun c => p b c *! delta R b c)) = sumn D (fun b => p b b).
  Proof.
    apply sumn_ext; intros b Hb. unfold delta.
    transitivity (sumn D (fun c => p b c *! (if Nat.eqb c b then rI else rO))).
    { apply sumn_ext; intros c _. rewrite (Nat.eqb_sym b c). reflexivity. }
    apply (sumn_delta_r R D b (fun c => p b c)). exact Hb.
  Qed.

  Lemma suml_pull {W} (l : list W) D (a : nat -> nat -> R) (g : W -> nat -> nat -> R) :
    suml l (fun w => sumn D (fun b => sumn D (fun c => a b c *! g w b c))) =
    sumn D (fun b => sumn D (fun c => a b c *! suml l (fun w => g w b c))).
  Proof.
    transitivity (sumn D (fun b => suml l (fun w => sumn D (fun c => a b c *! g w b c)))).
    { symmetry. apply (sumn_suml_exch R D l (fun b w => sumn D (fun c => a b c *! g w b c))). }
    apply sumn_ext; intros b _.
    transitivity (sumn D (fun c => suml l (fun w => a b c *! g w b c))).
    { symmetry. apply (sumn_suml_exch R D l (fun c w => a b c *! g w b c)). }
    apply sumn_ext; intros c _. apply suml_scal_l.
  Qed.

  (* ---------- Gram forms of the identity and of a product ---------- *)
  Lemma gl_idmx D k l : k < D -> l < D -> gl (idmx D) k l = delta R k l.
  Proof.
    intros Hk Hl. unfold gl. rewrite nr_idmx.
    transitivity (sumn D (fun a => (if Nat.eqb a k then rI else rO) *! (if Nat.eqb a l then rI else rO))).
    { apply sumn_ext; intros a Ha. rewrite !get_idmx by assumption.
      destruct (Nat.eqb a k); [rewrite kconj_1|rewrite kconj_0]; reflexivity. }
    rewrite (sumn_delta_l R D k (fun a => if Nat.eqb a l then rI else rO)) by exact Hk. reflexivity.
  Qed.

  Lemma gr_idmx D k l : k < D -> l < D -> gr (idmx D) k l = delta R k l.
  Proof.
    intros Hk Hl. unfold gr. rewrite nc_idmx.
    transitivity (sumn D (fun b => (if Nat.eqb b k then rI else rO) *! (if Nat.eqb b l then rI else rO))).
    { apply sumn_ext; intros b Hb. rewrite !get_idmx by assumption.
      rewrite (Nat.eqb_sym k b), (Nat.eqb_sym l b).
      destruct (Nat.eqb b l); [rewrite kconj_1|rewrite kconj_0]; reflexivity. }
    rewrite (sumn_delta_l R D k (fun b => if Nat.eqb b l then rI else rO)) by exact Hk. reflexivity.
  Qed.

  Lemma gl_mulmx (A P : mx) D k l : nc A = D -> nr P = D -> k < nc P -> l < nc P ->
    gl (mulmx A P) k l =
    sumn D (fun b => sumn D (fun c => (cj (get P b k) *! get P c l) *!
       sumn (nr A) (fun a => cj (get A a b) *! get A a c))).
  Proof.
    intros HA HP Hk Hl. unfold gl. rewrite nr_mulmx.
    transitivity (sumn (nr A) (fun a => sumn D (fun b => sumn D (fun c =>
        (cj (get P b k) *! get P c l) *! (cj (get A a b) *! get A a c))))).
    { apply sumn_ext; intros a Ha. rewrite !get_mulmx by assumption. rewrite HA.
      rewrite sumn_conj, sum_mul2. apply sumn_ext; intros b _. apply sumn_ext; intros c _.
      rewrite kconj_mul. ring. }
    rewrite sumn_exch. apply sumn_ext; intros b _. rewrite sumn_exch. apply sumn_ext; intros c _.
    apply sumn_scal_l.
  Qed.

  Lemma gr_mulmx (A P : mx) D k l : nc A = D -> nr P = D -> k < nr A -> l < nr A ->
    gr (mulmx A P) k l =
    sumn D (fun b => sumn D (fun c => (get A k b *! cj (get A l c)) *! gr P b c)).
  Proof.
    intros HA HP Hk Hl. unfold gr. rewrite nc_mulmx.
    transitivity (sumn (nc P) (fun j => sumn D (fun b => sumn D (fun c =>
        (get A k b *! cj (get A l c)) *! (get P b j *! cj (get P c j)))))).
    { apply sumn_ext; intros j Hj. rewrite !get_mulmx by assumption. rewrite HA.
      rewrite sumn_conj, sum_mul2. apply sumn_ext; intros b _. apply sumn_ext; intros c _.
      rewrite kconj_mul. ring. }
    rewrite sumn_exch. apply sumn_ext; intros b _. rewrite sumn_exch. apply sumn_ext; intros c _.
    apply sumn_scal_l.
  Qed.

  (* ---------- (L): left-isometric chain ---------- *)
  Lemma liso_gram : forall (As : list site) Ds d, chain_shape d Ds As = true -> chain_liso Ds As ->
    forall k l, k < last Ds 0 -> l < last Ds 0 ->
    suml (words d (length As)) (fun w => gl (mprod (hd 0 Ds) (pick As w)) k l) = delta R k l.
  Proof.
    induction As as [|A As IH]; intros Ds d Hs Hiso k l Hk Hl.
    - destruct Ds as [|D [|? ?]]; simpl in Hs; try discriminate.
      simpl in Hk, Hl. simpl. rewrite gl_idmx by assumption. ring.
    - destruct Ds as [|Dl [|Dr Ds]]; [discriminate Hs|discriminate Hs|].
      rewrite chain_shape_cons in Hs. apply andb_true_iff in Hs. destruct Hs as [HA Hs].
      simpl in Hiso. destruct Hiso as [HisoA Hiso].
      change (last (Dl :: Dr :: Ds) 0) with (last (Dr :: Ds) 0) in Hk, Hl.
      change (length (A :: As)) with (S (length As)). rewrite suml_words_S.
      pose proof (site_shape_length R _ _ _ _ HA) as HlenA.
      transitivity (suml (words d (length As)) (fun w => gl (mprod Dr (pick As w)) k l));
        [|exact (IH (Dr :: Ds) d Hs Hiso k l Hk Hl)].
      rewrite sumn_suml_exch. apply suml_ext. intros w Hw. apply words_ok in Hw.
      pose proof (mchain_pick R d _ As w Hs Hw) as Hc.
      destruct (mprod_shape R _ _ Hc) as [HPr HPc].
      change (hd 0 (Dr :: Ds)) with Dr in HPr, HPc.
      set (P := mprod Dr (pick As w)) in *.
      transitivity (sumn d (fun s => sumn Dr (fun b => sumn Dr (fun c => (cj (get P b k) *! get P c l) *!
                      sumn Dl (fun a => cj (get (sel A s) a b) *! get (sel A s) a c))))).
      { apply sumn_ext; intros s Hs'.
        destruct (site_shape_sel R _ _ _ _ s HA Hs') as (Hw' & Hr & Hcc).
        change (mprod (hd 0 (Dl :: Dr :: Ds)) (pick (A :: As) (s :: w)))
          with (mulmx (sel A s) (mprod (nc (sel A s)) (pick As w))).
        rewrite Hcc. change (mprod Dr (pick As w)) with P.
        rewrite (gl_mulmx (sel A s) P Dr k l Hcc HPr) by (rewrite HPc; assumption).
        rewrite Hr. reflexivity. }
      rewrite (sum3_pull d Dr (fun b c => cj (get P b k) *! get P c l)
                 (fun s b c => sumn Dl (fun a => cj (get (sel A s) a b) *! get (sel A s) a c))).
      transitivity (sumn Dr (fun b => sumn Dr (fun c => (cj (get P b k) *! get P c l) *! delta R b c))).
      { apply sumn_ext; intros b Hb. apply sumn_ext; intros c Hc'. f_equal.
        rewrite <- HlenA. apply HisoA; assumption. }
      rewrite (sum2_delta Dr (fun b c => cj (get P b k) *! get P c l)).
      unfold gl. rewrite HPr. reflexivity.
  Qed.

  (* ---------- (R): right-isometric chain ---------- *)
  Lemma riso_gram : forall (As : list site) Ds d, chain_shape d Ds As = true -> chain_riso Ds As ->
    forall k l, k < hd 0 Ds -> l < hd 0 Ds ->
    suml (words d (length As)) (fun w => gr (mprod (hd 0 Ds) (pick As w)) k l) = delta R k l.
  Proof.
    induction As as [|A As IH]; intros Ds d Hs Hiso k l Hk Hl.
    - destruct Ds as [|D [|? ?]]; simpl in Hs; try discriminate.
      simpl in Hk, Hl. simpl. rewrite gr_idmx by assumption. ring.
    - destruct Ds as [|Dl [|Dr Ds]]; [discriminate Hs|discriminate Hs|].
      rewrite chain_shape_cons in Hs. apply andb_true_iff in Hs. destruct Hs as [HA Hs].
      simpl in Hiso. destruct Hiso as [HisoA Hiso].
      change (hd 0 (Dl :: Dr :: Ds)) with Dl in *.
      change (length (A :: As)) with (S (length As)). rewrite suml_words_S.
      pose proof (site_shape_length R _ _ _ _ HA) as HlenA.
      transitivity (sumn d (fun s => sumn Dr (fun b => sumn Dr (fun c =>
                      (get (sel A s) k b *! cj (get (sel A s) l c)) *! delta R b c)))).
      { apply sumn_ext; intros s Hs'.
        destruct (site_shape_sel R _ _ _ _ s HA Hs') as (Hw' & Hr & Hcc).
        transitivity (suml (words d (length As)) (fun w => sumn Dr (fun b => sumn Dr (fun c =>
                        (get (sel A s) k b *! cj (get (sel A s) l c)) *! gr (mprod Dr (pick As w)) b c)))).
        { apply suml_ext. intros w Hw. apply words_ok in Hw.
          pose proof (mchain_pick R d _ As w Hs Hw) as Hc.
          destruct (mprod_shape R _ _ Hc) as [HPr HPc].
          change (hd 0 (Dr :: Ds)) with Dr in HPr, HPc.
          change (mprod Dl (pick (A :: As) (s :: w)))
            with (mulmx (sel A s) (mprod (nc (sel A s)) (pick As w))).
          rewrite Hcc.
          apply (gr_mulmx (sel A s) (mprod Dr (pick As w)) Dr k l Hcc HPr); rewrite Hr; assumption. }
        rewrite (suml_pull (words d (length As)) Dr
                   (fun b c => get (sel A s) k b *! cj (get (sel A s) l c))
                   (fun w b c => gr (mprod Dr (pick As w)) b c)).
        apply sumn_ext; intros b Hb. apply sumn_ext; intros c Hc'. f_equal.
        exact (IH (Dr :: Ds) d Hs Hiso b c Hb Hc'). }
      transitivity (sumn d (fun s => sumn Dr (fun b => get (sel A s) k b *! cj (get (sel A s) l b)))).
      { apply sumn_ext; intros s _.
        apply (sum2_delta Dr (fun b c => get (sel A s) k b *! cj (get (sel A s) l c))). }
      rewrite <- HlenA. apply HisoA; assumption.
  Qed.

  (* ---------- norm one ---------- *)
  Theorem liso_chain_norm d Ds (As : list site) :
    chain_shape d Ds As = true -> chain_liso Ds As -> hd 0 Ds = 1 -> last Ds 0 = 1 ->
    norm2 d As = rI.
  Proof.
    intros Hs Hiso Hh Hl. unfold norm2.
    transitivity (suml (words d (length As)) (fun w => gl (mprod (hd 0 Ds) (pick As w)) 0 0)).
    - apply suml_ext; intros w Hw. apply words_ok in Hw.
      pose proof (mchain_pick R d _ As w Hs Hw) as Hc. destruct (mprod_shape R _ _ Hc) as [HPr HPc].
      unfold gl, amp. rewrite HPr, Hh. rewrite sumn_one. reflexivity.
    - rewrite (liso_gram As Ds d Hs Hiso 0 0) by lia. reflexivity.
  Qed.

  Theorem riso_chain_norm d Ds (As : list site) :
    chain_shape d Ds As = true -> chain_riso Ds As -> hd 0 Ds = 1 -> last Ds 0 = 1 ->
    norm2 d As = rI.
  Proof.
    intros Hs Hiso Hh Hl. unfold norm2.
    transitivity (suml (words d (length As)) (fun w => gr (mprod (hd 0 Ds) (pick As w)) 0 0)).
    - apply suml_ext; intros w Hw. apply words_ok in Hw.
      pose proof (mchain_pick R d _ As w Hs Hw) as Hc. destruct (mprod_shape R _ _ Hc) as [HPr HPc].
      unfold gr, amp. rewrite HPc, Hl, Hh. rewrite sumn_one. ring.
    - rewrite (riso_gram As Ds d Hs Hiso 0 0) by lia. reflexivity.
  Qed.
End OrthGram.

Print Assumptions liso_chain_norm.
Print Assumptions riso_chain_norm.
