(* Total correctness of minimum_vertex_cover's mirror: on every graph whose adjacency tables are consistent
   (adj_u entries in range, every edge also listed in adj_v — e.g. every graph built by mk_bg from an in-range edge
   list) no fuel is exhausted, the size assertion |cover| = |matching| passes (Koenig), and the results are a
   maximum matching and a minimum vertex cover. *)
From Coq Require Import ZArith List Bool Lia Sorted.
From PT Require Import Model.Bipartite Proofs.BipartiteCert Proofs.BipartiteGraphSem Proofs.BipartiteHK
                       Proofs.BipartiteBFS Proofs.BipartiteMax Proofs.BipartiteTerm Proofs.BipartiteKonig.
Import ListNotations.
Open Scope Z_scope.

Lemma NoDup_app_disj {A} (l1 l2 : list A) :
  NoDup l1 -> NoDup l2 -> (forall x, In x l1 -> ~ In x l2) -> NoDup (l1 ++ l2).
Proof.
  induction l1 as [|a l1 IH]; intros H1 H2 Hd; simpl; [exact H2|].
  inversion H1 as [|? ? Ha H1']; subst. constructor.
  - intros Hin. apply in_app_or in Hin. destruct Hin as [Hin|Hin]; [contradiction|].
    apply (Hd a); [left; reflexivity|exact Hin].
  - apply IH; [exact H1'|exact H2|]. intros x Hx. apply Hd. right. exact Hx.
Qed.

Definition graph_ok (g : bg) : Prop :=
  adj_ok g /\ forall u v, 0 <= u < Z.of_nat (nu g) -> In v (adj_u g u) -> In u (adj_v g v).

Lemma mk_bg_graph_ok n_u n_v edges : (forall e, In e edges -> edge_ok n_u n_v e) -> graph_ok (mk_bg n_u n_v edges).
Proof.
  intros Hok. split; [apply mk_bg_adj_ok; exact Hok|]. intros u v Hu Hv.
  rewrite (mk_bg_nu n_u n_v edges Hok) in Hu.
  pose proof (mk_bg_adj_u_range n_u n_v edges Hok u v Hv) as Hvr. rewrite (mk_bg_nv n_u n_v edges Hok) in Hvr.
  apply (mk_bg_transpose n_u n_v edges Hok u v Hu Hvr). exact Hv.
Qed.

Section Total.
  Variable g : bg.
  Hypothesis Hg : graph_ok g.
  Let Hadj : adj_ok g := proj1 Hg.

  (* the final Hopcroft-Karp state: a BFS that did not reach NIL has just been completed *)
  Lemma hk_final_closure m : hopcroft_karp g = Some m -> exists s', m = matching_of g s' /\ Inv g s' /\
    (forall u, 0 <= u < Z.of_nat (nu g) -> zget (mu s') u = -1 -> dget (dist s') u < inf g) /\
    (forall u, 0 <= u < Z.of_nat (nu g) -> dget (dist s') u < inf g -> forall v, In v (adj_u g u) ->
       zget (mv s') v <> -1 /\ dget (dist s') (zget (mv s') v) < inf g).
  Proof.
    intros H. rewrite hopcroft_karp_unfold in H.
    destruct (outer g (nu g + 2) (hk_init g)) as [s'|] eqn:Eo; [|discriminate]. injection H as <-.
    destruct (outer_final g Hadj _ _ _ (Inv2_init g) Eo) as [s0 [Hinv0 Hb]].
    destruct (bfs_Inv2 g Hadj s0 s' false Hinv0 Hb) as [[Hinv' _] [HB [Eb [Emu Emv]]]].
    assert (Hnil : dget (dist s') (-1) = inf g).
    { symmetry in Eb. apply negb_false_iff in Eb. apply Z.eqb_eq in Eb. exact Eb. }
    exists s'. split; [reflexivity|split; [exact Hinv'|split]].
    - intros u Hu Hfree. rewrite Emu in Hfree. rewrite (b_free g s0 _ _ _ HB u Hu Hfree). unfold inf. lia.
    - intros u Hu Hd v Hv. destruct (b_clo g s0 _ _ _ HB u Hu Hd) as [[]|[Hdone|[H|H]]]; [|lia|lia].
      specialize (Hdone v Hv). rewrite <- Emv in Hdone. split; [|exact Hdone].
      intros E. rewrite E, Hnil in Hdone. lia.
  Qed.

  Section Final.
    Variable s' : hk.
    Hypothesis Hinv : Inv g s'.
    Hypothesis C1 : forall u, 0 <= u < Z.of_nat (nu g) -> zget (mu s') u = -1 -> dget (dist s') u < inf g.
    Hypothesis C2 : forall u, 0 <= u < Z.of_nat (nu g) -> dget (dist s') u < inf g -> forall v, In v (adj_u g u) ->
       zget (mv s') v <> -1 /\ dget (dist s') (zget (mv s') v) < inf g.
    Let m := matching_of g s'.

    Lemma matching_of_In_rev u : 0 <= u < Z.of_nat (nu g) -> zget (mu s') u <> -1 -> In (u, zget (mu s') u) m.
    Proof.
      intros Hu Hm. destruct Hinv as [[Hl _] _]. unfold m, matching_of. apply filter_In. split.
      - rewrite (combine_as_map (zget (mu s')) 0 0 (us g) (mu s')).
        + apply in_map_iff. exists u. split; [reflexivity|apply us_In; exact Hu].
        + rewrite us_length. exact Hl.
        + intros i Hi. rewrite us_length in Hi. rewrite us_nth by exact Hi. unfold zget. rewrite Nat2Z.id. reflexivity.
      - cbn [snd]. apply negb_true_iff. apply Z.eqb_neq. exact Hm.
    Qed.

    Definition PU (u : Z) : Prop := 0 <= u < Z.of_nat (nu g) /\ dget (dist s') u < inf g.
    Definition PV (v : Z) : Prop :=
      0 <= v < Z.of_nat (nv g) /\ zget (mv s') v <> -1 /\ dget (dist s') (zget (mv s') v) < inf g.

    Lemma HPV u v : PU u -> In v (adj_u g u) -> PV v.
    Proof. intros [Hu Hd] Hv. split; [apply (Hadj u v Hv)|apply (C2 u Hu Hd v Hv)]. Qed.

    Lemma HPU u v : PV v -> In (u, v) m -> PU u.
    Proof.
      intros [Hv [Hne Hd]] Hin. destruct (matching_of_In g s' u v Hin) as [Hu [Ev Hv1]].
      destruct Hinv as [_ [HA _]]. destruct (HA u Hu) as [H|[_ H]]; [congruence|].
      rewrite <- Ev in H. rewrite H in Hd. split; assumption.
    Qed.

    Lemma HPU_us u : PU u -> In u (us g).
    Proof. intros [Hu _]. apply us_In. exact Hu. Qed.

    Lemma alist_free s : In s (alist_of g m) -> 0 <= s < Z.of_nat (nu g) /\ zget (mu s') s = -1.
    Proof.
      intros Hs. pose proof (alist_unmatched g m s Hs) as Hun.
      unfold alist_of in Hs. apply filter_In in Hs. destruct Hs as [Hs _]. apply us_In in Hs. split; [exact Hs|].
      destruct (Z.eq_dec (zget (mu s') s) (-1)) as [E|E]; [exact E|].
      exfalso. apply (Hun (zget (mu s') s)). apply matching_of_In_rev; assumption.
    Qed.

    Lemma free_in_alist u : 0 <= u < Z.of_nat (nu g) -> zget (mu s') u = -1 -> In u (alist_of g m).
    Proof.
      intros Hu Hfree. unfold alist_of. apply filter_In. split; [apply us_In; exact Hu|].
      apply negb_true_iff. destruct (existsb (fun p => fst p =? u) m) eqn:E; [exfalso|reflexivity].
      apply existsb_exists in E. destruct E as [[a b] [Hin Ea]]. cbn [fst] in Ea. apply Z.eqb_eq in Ea. subst a.
      destruct (matching_of_In g s' u b Hin) as [_ [Eb Hb]]. congruence.
    Qed.

    (* one search from an unmatched start: it terminates, visits the start, and every visited v is matched to a visited u *)
    Lemma explore_from_start s : In s (alist_of g m) ->
      exists uvis vvis, explore g (nu g + 2) m s ([], []) = Some (uvis, vvis) /\ In s uvis /\
        forall v, In v vvis -> 0 <= v < Z.of_nat (nv g) /\ zget (mv s') v <> -1 /\ In (zget (mv s') v) uvis.
    Proof.
      intros Hs. destruct (alist_free s Hs) as [Hsr Hfree].
      assert (HPUs : PU s) by (split; [exact Hsr|apply C1; assumption]).
      destruct (explore_total g m s PU PV HPV HPU HPU_us (nu g + 2) s ([], [])) as [[uvis vvis] He];
        [left; reflexivity|exact HPUs|constructor|intros x []|simpl; lia|].
      exists uvis, vvis. split; [exact He|].
      destruct (explore_ok g m s PU PV HPV HPU (nu g + 2) s ([], []) (uvis, vvis) (or_introl eq_refl) HPUs He)
        as [[_ _ _ V _] Hin]. cbn [fst snd] in *. split; [exact Hin|].
      intros v Hv. destruct (V v Hv) as [[]|[_ [[Hvr [Hne Hd]] Hvc]]].
      split; [exact Hvr|split; [exact Hne|]].
      destruct Hinv as [_ [HA HB]]. destruct (HB v Hvr) as [H|[Hur Hmu]]; [contradiction|].
      apply Hvc.
      - apply (proj2 Hg); [exact Hur|]. destruct (HA _ Hur) as [H|[H _]]; [rewrite Hmu in H; lia|].
        rewrite Hmu in H. exact H.
      - rewrite <- Hmu at 2. apply matching_of_In_rev; [exact Hur|]. rewrite Hmu. lia.
    Qed.

    Definition Kinv (l : list Z) (c : list Z * list Z) : Prop :=
      (forall u, In u (fst c) -> 0 <= u < Z.of_nat (nu g) -> zget (mu s') u = -1 -> In u l) /\
      (forall v, In v (snd c) -> 0 <= v < Z.of_nat (nv g) /\ zget (mv s') v <> -1 /\ ~ In (zget (mv s') v) (fst c)).

    Lemma cover_fold_total : forall l, (forall s, In s l -> In s (alist_of g m)) -> forall c, Kinv l c ->
      exists c', fold_left (cover_step g m) l (Some c) = Some c' /\ Kinv [] c'.
    Proof.
      induction l as [|s l IH]; intros Hl [uc vc] HK.
      - exists (uc, vc). split; [reflexivity|exact HK].
      - cbn [fold_left cover_step].
        destruct (explore_from_start s (Hl s (or_introl eq_refl))) as [uvis [vvis [He [Hs Hv]]]]. rewrite He.
        apply IH; [intros x Hx; apply Hl; right; exact Hx|].
        destruct HK as [K1 K2]. cbn [fst snd] in *. split; cbn [fst snd].
        + intros u Hu Hur Hfree. apply filter_In in Hu. destruct Hu as [Hu Hnm].
          destruct (K1 u Hu Hur Hfree) as [<-|Hin]; [|exact Hin].
          apply negb_true_iff in Hnm. assert (Ht : mem s uvis = true) by (apply mem_In; exact Hs). congruence.
        + intros v Hin. apply fold_insert_In in Hin. destruct Hin as [Hin|Hin].
          * destruct (Hv v Hin) as [H1 [H2 H3]]. split; [exact H1|split; [exact H2|]].
            intros Hf. apply filter_In in Hf. destruct Hf as [_ Hnm]. apply negb_true_iff in Hnm.
            assert (Ht : mem (zget (mv s') v) uvis = true) by (apply mem_In; exact H3). congruence.
          * destruct (K2 v Hin) as [H1 [H2 H3]]. split; [exact H1|split; [exact H2|]].
            intros Hf. apply filter_In in Hf. apply H3. apply Hf.
    Qed.

    (* the cover construction terminates and the cover is no larger than the matching *)
    Lemma cover_of_total : exists uc vc, cover_of g m = Some (uc, vc) /\ (length uc + length vc <= length m)%nat.
    Proof.
      destruct (cover_fold_total (alist_of g m) (fun s H => H) (us g, [])) as [[uc vc] [Hf [K1 K2]]].
      { split; cbn [fst snd]; [|intros v []]. intros u _ Hu Hfree. apply free_in_alist; assumption. }
      exists uc, vc. split; [exact Hf|]. cbn [fst snd] in *.
      destruct (cover_of_inv g Hadj m (matching_of_fst_NoDup g s') (uc, vc) Hf) as [_ [S1 [S2 [I1 _]]]].
      cbn [fst snd] in *.
      destruct Hinv as [[Hl1 _] [HA HB]].
      unfold m. rewrite (matching_of_length g s' Hl1).
      set (R := fun u => negb (zget (mu s') u =? -1)).
      assert (Hnd : NoDup (uc ++ map (zget (mv s')) vc)).
      { apply NoDup_app_disj.
        - apply SS_NoDup. exact S1.
        - apply NoDup_map_inj_on; [apply SS_NoDup; exact S2|].
          intros x y Hx Hy E. destruct (K2 x Hx) as [Hxr [Hxm _]]. destruct (K2 y Hy) as [Hyr [Hym _]].
          destruct (HB x Hxr) as [H|[_ Hx2]]; [contradiction|]. destruct (HB y Hyr) as [H|[_ Hy2]]; [contradiction|].
          congruence.
        - intros x Hx Hin. apply in_map_iff in Hin. destruct Hin as [v [<- Hv]].
          destruct (K2 v Hv) as [_ [_ H]]. contradiction. }
      assert (Hincl : incl (uc ++ map (zget (mv s')) vc) (filter R (us g))).
      { intros x Hx. apply in_app_or in Hx. apply filter_In. destruct Hx as [Hx|Hx].
        - split; [apply I1; exact Hx|]. unfold R. apply negb_true_iff. apply Z.eqb_neq. intros Hfree.
          apply (K1 x Hx); [apply us_In; apply I1; exact Hx|exact Hfree].
        - apply in_map_iff in Hx. destruct Hx as [v [<- Hv]]. destruct (K2 v Hv) as [Hvr [Hvm _]].
          destruct (HB v Hvr) as [H|[Hur Hmu]]; [contradiction|].
          split; [apply us_In; exact Hur|]. unfold R. rewrite Hmu. apply negb_true_iff. apply Z.eqb_neq. lia. }
      pose proof (NoDup_incl_length Hnd Hincl) as Hle. rewrite app_length, map_length in Hle. exact Hle.
    Qed.
  End Final.

  (* minimum_vertex_cover and HopcroftKarp terminate on every consistent graph, the size assertion passes,
     and the results are a maximum matching and a minimum vertex cover of equal size. *)
  Theorem mvc_total :
    exists m uc vc, hopcroft_karp g = Some m /\ min_vertex_cover g = Some (uc, vc) /\
      Matching g m /\ Cover g uc vc /\ cover_wf g uc vc /\ (length uc + length vc = length m)%nat /\
      (forall m', Matching g m' -> (length m' <= length m)%nat) /\
      (forall uc' vc', Cover g uc' vc' -> (length uc + length vc <= length uc' + length vc')%nat).
  Proof.
    destruct (hk_total_maximum g Hadj) as [m [Hm [HM Hmax]]].
    destruct (hk_final_closure m Hm) as [s' [Em [Hinv [C1 C2]]]].
    destruct (cover_of_total s' Hinv C1 C2) as [uc [vc [Hc Hle]]]. rewrite <- Em in Hc, Hle.
    destruct HM as [HM1 [HM2 HM3]].
    destruct (cover_of_valid g Hadj m HM2 uc vc Hc) as [HC _].
    pose proof (weak_duality_sem g uc vc m (conj HM1 (conj HM2 HM3)) HC) as Hge.
    assert (Heq : (length uc + length vc = length m)%nat) by lia.
    assert (Hr : min_vertex_cover g = Some (uc, vc)).
    { rewrite min_vertex_cover_unfold, Hm, Hc. rewrite (proj2 (Nat.eqb_eq _ _) Heq). reflexivity. }
    destruct (mvc_certified g uc vc Hadj Hr) as [m0 [Hm0 [HM0 [HC0 [Hwf [Hsz [Hmx Hmn]]]]]]].
    rewrite Hm in Hm0. injection Hm0 as <-.
    exists m, uc, vc. split; [exact Hm|split; [exact Hr|split; [exact HM0|split; [exact HC0|split; [exact Hwf|]]]]].
    split; [exact Hsz|split; [exact Hmx|exact Hmn]].
  Qed.
End Total.

Theorem mvc_total_mk n_u n_v edges : (forall e, In e edges -> edge_ok n_u n_v e) ->
  let g := mk_bg n_u n_v edges in
  exists m uc vc, hopcroft_karp g = Some m /\ min_vertex_cover g = Some (uc, vc) /\
    Matching g m /\ Cover g uc vc /\ cover_wf g uc vc /\ (length uc + length vc = length m)%nat /\
    (forall m', Matching g m' -> (length m' <= length m)%nat) /\
    (forall uc' vc', Cover g uc' vc' -> (length uc + length vc <= length uc' + length vc')%nat).
Proof. intros Hok. apply mvc_total. apply mk_bg_graph_ok. exact Hok. Qed.
