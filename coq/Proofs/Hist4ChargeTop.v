(* C02, round 4 (2), top: two-site DMRG with split_mps_tensor = the executable model [split5] at ANY tolerance 0 <= tol_split < 1
   keeps qD[0] and qD[L].  Per recorded call the hypotheses are
       EIG2    the Ritz vector is block sparse if the start tensor and the blocks are (a theorem for the Krylov solver whenever
               it returns, C02_lanczos2_calls_meet_contracts), has the shape of the start tensor and is not zero
       SPLIT   LAPACK's contract for numpy.linalg.svd on the blocks, numpy.argsort in retained_bond_indices, 0 <= tol < 1
       QR      C11's conclusion (block sparse factors) and M = Q R with orthonormal columns
   -- no hypothesis on the split answers is left: sparsity by Proofs/Hist4Top.v (split5_sp_ok), "the kept part is not zero" and
   the isometry by Proofs/Hist4SplitNz.v (split5_nz). *)
From Coq Require Import ZArith List Lia Bool Arith.
From PT Require Import Base.Scalar Base.Field Base.BigSum Base.Mx Model.Tensor Model.MPSOps Model.BondOps Model.BondOpsF5 Model.Operation Model.Sweeps.
From PT Require Import Model.Orthonormalize.
From PT Require Import Proofs.OperationUniform Proofs.SweepsCanon Proofs.SweepsGauge Proofs.SweepsRun Proofs.Sweeps2Run.
From PT Require Import Proofs.OrthTop Proofs.OrthRight Proofs.HistSparse Proofs.HistChain Proofs.HistOps Proofs.HistInv Proofs.HistOrth.
From PT Require Import Proofs.Hist2Local Proofs.Hist2Sweep Proofs.Hist2Top Proofs.Hist3Sweep2 Proofs.Hist3Top Proofs.Hist4Top Proofs.Hist4Charge Proofs.Hist4SplitNz.
Import ListNotations.
Open Scope nat_scope.

Section Top5.
  Variable F : ofield.
  Notation K := (Cx F).
  Variable qr : nat -> mx K -> list Z -> list Z -> mx K * mx K * list Z.
  Variable keig : nat -> env K -> env K -> osite K -> site K -> K * site K.
  Variable dsvd : mx K -> mx K * list F * mx K.
  Variable pick : list F -> list nat.
  Variable ksqrt : K -> K.
  Variable tol : F.
  Variables (Hs : list (osite K)) (qd : list Z) (qWs : list (list Z)).
  Variable d : nat.
  Notation splitL := (split5 F dsvd pick ksqrt tol).

  Definition dm5_call_ok (p : nat) (t : tcall K) : Prop :=
    let i := c_site (t_call t) in
    match c_kind (t_call t), t_envs t, t_ten t, t_qs t with
    | EIG2, [BL; BR], [Am], _ =>
        (forall ql qr', site_okP K (qd2 qd) ql qr' Am -> env_okP K ql (nth i qWs []) ql BL -> env_okP K qr' (nth (S (S i)) qWs []) qr' BR ->
           site_okP K (qd2 qd) ql qr' (snd (keig p BL BR (Hm2 K Hs i) Am))) /\
        keig_nz (d * d) Am (keig p BL BR (Sweeps2Inv.Hm Hs i) Am)
    | SPLITL, _, [Am], [q0; q1; q2; q3] | SPLITR, _, [Am], [q0; q1; q2; q3] =>
        length q0 = d /\ length q1 = d /\ 0 < d /\
        svd_lapack_ok F dsvd pick tol (split_matrix (length q0) (length q1) Am) (MPSOps.qflat q0 q2) (MPSOps.qflat (map Z.opp q1) q3)
    | QR, _, [[M]], [q0; q1] => (bond_okP K q0 q1 M -> qr_sp_ok K M q0 q1 (qr p M q0 q1)) /\ qr_ok M (qr p M q0 q1)
    | _, _, _, _ => sp_call_ok K qr (no_kexp K) (no_kexp0 K) keig Hs qd qWs (k0 K) (k0 K) p t
    end.
  Fixpoint dm5_tr_ok (tr : list (tcall K)) : Prop :=
    match tr with [] => True | t :: rest => dm5_call_ok (length rest) t /\ dm5_tr_ok rest end.

  Theorem dm5_call_both p t : dm5_call_ok p t ->
    sp2_call_ok K qr splitL (no_kexp K) (no_kexp0 K) keig Hs qd qWs (k0 K) (k0 K) p t /\ dmrg2w_call_ok qr splitL keig Hs d p t.
  Proof.
    destruct t as [[k i c] envs ten qs]. unfold dm5_call_ok, sp2_call_ok, dmrg2w_call_ok, sp_call_ok.
    cbn [t_call c_kind c_site c_coef t_envs t_ten t_qs]. destruct k.
    - (* KH *) intros H. split; [exact H|exact I].
    - (* KH2: not issued by DMRG; the identity solver keeps the pattern *)
      intros _. split; [|exact I].
      destruct envs as [|BL [|BR [|? ?]]]; try exact I; destruct ten as [|Am [|? ?]]; try exact I.
      intros ql qr' HA _ _. exact HA.
    - (* KB *) intros H. split; [exact H|exact I].
    - (* EIG *) intros H. split; [exact H|exact I].
    - (* EIG2 *)
      destruct envs as [|BL [|BR [|? ?]]]; try (intros H; split; [exact H|exact I]).
      destruct ten as [|Am [|? ?]]; try (intros H; split; [exact H|exact I]).
      intros [H1 H2]. split; assumption.
    - (* QR *)
      destruct ten as [|[|M [|? ?]] [|? ?]]; try (intros H; split; [exact H|exact I]).
      destruct qs as [|q0 [|q1 [|? ?]]]; try (intros H; split; [exact H|exact I]).
      intros [H1 H2]. split; assumption.
    - (* SPLITL *)
      destruct ten as [|Am [|? ?]]; try (intros H; split; [exact H|exact I]).
      destruct qs as [|q0 [|q1 [|q2 [|q3 [|? ?]]]]]; try (intros H; split; [exact H|exact I]).
      intros (E0 & E1 & Hd & Hl). split.
      + intros HA. apply split5_sp_ok; [rewrite E0, E1; nia|exact Hl|exact HA].
      + intros HA. rewrite <- E0. apply split5_nz; [congruence|lia|exact Hl|exact HA].
    - (* SPLITR *)
      destruct ten as [|Am [|? ?]]; try (intros H; split; [exact H|exact I]).
      destruct qs as [|q0 [|q1 [|q2 [|q3 [|? ?]]]]]; try (intros H; split; [exact H|exact I]).
      intros (E0 & E1 & Hd & Hl). split.
      + intros HA. apply split5_sp_ok; [rewrite E0, E1; nia|exact Hl|exact HA].
      + intros HA. rewrite <- E0. apply split5_nz; [congruence|lia|exact Hl|exact HA].
    - (* STL *) intros H. split; [exact H|exact I].
    - (* STR *) intros H. split; [exact H|exact I].
  Qed.

  Theorem dm5_tr_both tr : dm5_tr_ok tr ->
    sp2_tr_ok K qr splitL (no_kexp K) (no_kexp0 K) keig Hs qd qWs (k0 K) (k0 K) tr /\ wtr2_ok qr splitL keig Hs d tr.
  Proof.
    induction tr as [|t tr IH]; [intros _; split; exact I|]. intros [H1 H2].
    destruct (dm5_call_both _ _ H1) as [A1 A2]. destruct (IH H2) as [B1 B2]. split; split; assumption.
  Qed.
End Top5.

(* total charge kept by two-site DMRG for every 0 <= tol_split < 1, every L >= 1 *)
Theorem dmrg2_total_charge_kept_tol (F : ofield) (dqr : mx (Cx F) -> mx (Cx F) * mx (Cx F)) dsvd pick ksqrt (tol : F)
    (H : mpo (Cx F)) (psi : mps (Cx F)) (w : list nat) d DsW Ds0 :
  mps_ok psi = true -> orth_pre F psi -> Forall (qr_call_ok F dqr) (mps_orth_calls dqr false psi) ->
  length w = length (m_A psi) -> Forall (fun s => s < length (m_qd psi)) w -> amp (m_A psi) w <> k0 (Cx F) ->
  mpo_ok H = true -> o_qd H = m_qd psi -> Forall (fun q => 0 < length q) (o_qD H) ->
  hd [] (o_qD H) = [0%Z] -> last (o_qD H) [] = [0%Z] ->
  mpo_shapeb d DsW (o_A H) = true -> mps_shapeb d Ds0 (m_A (fst (orth_right_model F dqr psi))) = true ->
  Forall right_iso (m_A (fst (orth_right_model F dqr psi))) ->
  forall qr keig n A qD ens tr,
    dmrg_twosite (orth_right_model F dqr) qr (split5 F dsvd pick ksqrt tol) keig H psi n = Some (A, qD, ens, tr) ->
    dm5_tr_ok F qr keig dsvd pick tol (o_A H) (m_qd psi) (o_qD H) d (rev tr) ->
    hd [] qD = hd [] (m_qD psi) /\ last qD [] = last (m_qD psi) [] /\ starts_nz F d (rev tr).
Proof.
  intros Hok Hpre Hc Hw1 Hw2 Hamp HokH Eqd Hpos Hh0 Hl0 HH Hp Hiso qr keig n A qD ens tr Hrun Htr.
  destruct (dm5_tr_both F qr keig dsvd pick ksqrt tol (o_A H) (m_qd psi) (o_qD H) d (rev tr) Htr) as [Hsp Hw].
  exact (dmrg2_total_charge_kept_nz F dqr H psi w d DsW Ds0 Hok Hpre Hc Hw1 Hw2 Hamp HokH Eqd Hpos Hh0 Hl0 HH Hp Hiso
           qr (split5 F dsvd pick ksqrt tol) keig n A qD ens tr Hrun Hsp Hw).
Qed.
