(* C05: chains -> graph -> MPO, end to end. *)
From Coq Require Import ZArith List Lia Bool Ring.
From PT Require Import Base.Scalar Base.BigSum Base.Mx Model.OpGraph Model.Tensor Model.FromOpchains Model.GraphMPO
                       Proofs.GraphMPOSem Proofs.DenRev_C05 Proofs.PampDen_C05 Proofs.FromOpchainsThm.
Import ListNotations.
Open Scope Z_scope.

Section Final.
  Variable R : cring.

  (* the MPO matrix element is the word sum of the graph's symbolic meaning *)
  Theorem from_opgraph_opamp_den qd (g : graph R) opmap o m ls :
    from_opgraph qd g opmap = Ok (o, m) ->
    graph_layers g = Ok ls -> last ls [] = [g_t1 g] ->
    forall w w', length w = length (o_A o) -> length w' = length (o_A o) ->
    Forall (fun s => (s < length qd)%nat) w -> Forall (fun s => (s < length qd)%nat) w' ->
    opamp (o_A o) w w' =
    suml (zwords (alphabet g) (length w)) (fun word => kmul R (den g word) (wprod opmap word w w')).
  Proof.
    intros H Hl Hlast w w' Hw Hw' Fw Fw'.
    rewrite (from_opgraph_opamp R qd g opmap o m ls H Hl Hlast w w' Hw Hw' Fw Fw').
    apply pamp_den. congruence.
  Qed.

  Theorem chains_to_mpo cover (chains : list (chain R)) L idn g qd opmap o m ls : (1 <= L)%nat ->
    from_opchains cover chains L idn = Ok g -> linked g = true ->
    from_opgraph qd g opmap = Ok (o, m) ->
    graph_layers g = Ok ls -> last ls [] = [g_t1 g] ->
    forall w w', length w = length (o_A o) -> length w' = length (o_A o) ->
    Forall (fun s => (s < length qd)%nat) w -> Forall (fun s => (s < length qd)%nat) w' ->
    opamp (o_A o) w w' =
    suml (zwords (alphabet g) (length w)) (fun word => kmul R (chains_den L idn chains word) (wprod opmap word w w')).
  Proof.
    intros HL Hc Hlk H Hl Hlast w w' Hw Hw' Fw Fw'.
    rewrite (from_opgraph_opamp_den qd g opmap o m ls H Hl Hlast w w' Hw Hw' Fw Fw').
    apply suml_ext. intros word _. rewrite (from_opchains_den R cover chains L idn g HL Hc Hlk word). reflexivity.
  Qed.
End Final.
