(* C09 exactness, two-site — target of the contracts (IL2) / (IR2): the model's own local operators intertwine (over any cring):
     apply_local_hamiltonian BL BR (merge W0 W1) (merge Q C) = merge Q (apply_local_hamiltonian (step_left Q Q W0 BL) BR W1 C)
   whenever the rows of the matricisation of Q are orthonormal (Q Q^H = 1), and
     apply_local_hamiltonian BL BR (merge W0 W1) (merge C B) = merge (apply_local_hamiltonian BL (step_right B B W1 BR) W0 C) B
   whenever the columns of the matricisation of B are orthonormal (B^H B = 1);  merge = merge_mps_tensor_pair /
   merge_mpo_tensor_pair as the code forms them (c04_merge_site / c04_merge_osite).
   These are the statements  H_pair (Q (x) 1) = (Q (x) 1) H_site;  hence exp(t H_pair) merge(Q, C) = merge(Q, exp(t H_site) C), and
   every solver that is a power series in the local operator meets (IL2) / (IR2). *)
From Coq Require Import ZArith Arith List Lia Ring Setoid Bool.
From PT Require Import Base.Scalar Base.BigSum Base.Mx Model.Tensor Model.Operation Model.Sweeps
  Proofs.OperationEntries Proofs.OperationTwoSite Proofs.SweepsCanon
  Proofs.ReverseDefs Proofs.ReverseMx Proofs.ReverseGauge Proofs.ReverseLocal Proofs.ReverseFwd
  Proofs.ExactDefs Proofs.ExactMx Proofs.ExactLocal Proofs.Exact2Defs.
Import ListNotations.

Section Local2.
  Variable R : cring.
  Add Ring Rring_exact2_local : (k_rt R).
  Infix "*" := (kmul R).
  Notation site := (site R).
  Notation osite := (osite R).
  Notation env := (env R).
  Notation mx := (mx R).
  Notation mrg := (@c04_merge_site R).
  Notation stepL := (@contraction_operator_step_left R).
  Notation stepR := (@contraction_operator_step_right R).
  Notation alh := (@apply_local_hamiltonian R).

  (* u = s * d + t with s, t < d *)
  Lemma divmod_lt d u : 0 < d -> u < d * d -> u = (u / d) * d + u mod d /\ u / d < d /\ u mod d < d.
  Proof.
    intros Hd Hu. split; [rewrite Nat.mul_comm; apply Nat.div_mod; lia|].
    split; [apply Nat.div_lt_upper_bound; lia|apply Nat.mod_upper_bound; lia].
  Qed.

  (* ---------------- left ---------------- *)
  (* one operator column of the one-site intertwining relation, for an arbitrary matrix Ew in place of a right block *)
  Lemma kernel_left d Dl k Dr Dwl Dwr (BL : env) (W : osite) (Q : site) (C Ew : mx) s wr b c :
    0 < d -> 0 < Dwl -> 0 < Dwr -> wsite d Dl k Q -> lcoiso Q -> wmx k Dr C -> wmx Dr Dr Ew -> osite_ok d Dwl Dwr W ->
    wenv Dwl Dl Dl BL -> s < d -> wr < Dwr -> b < Dl -> c < Dr ->
    sumn d (fun t => sumn Dwl (fun wl => get (osel W s t) wl wr *
      get (mulmx (trmx (esel BL wl)) (mulmx (mulmx (sel Q t) C) Ew)) b c)) =
    get (mulmx (sel Q s) (mulmx (trmx (esel (stepL Q Q W BL) wr)) (mulmx C Ew))) b c.
  Proof.
    intros Hd Hwl Hwr HQ Hco HC HEw HW HBL Hs Hwr' Hb Hc.
    destruct (site_ok_sdl R _ _ _ _ Hd (wsite_ok R _ _ _ _ HQ)) as (E1 & E2 & E3).
    destruct (osite_ok_odl R _ _ _ _ Hd HW) as (W1 & W2 & W3).
    assert (HL' : wenv Dwr k k (stepL Q Q W BL)).
    { pose proof (wenv_opstep_left R Q Q W BL) as H. rewrite W2, E2 in H. exact H. }
    set (L' := stepL Q Q W BL) in *.
    destruct (wsite_sel R _ _ _ _ s HQ Hs) as (q0 & q1 & q2). destruct HC as (c0 & c1 & c2). destruct HEw as (r0 & r1 & r2).
    destruct (wenv_esel R _ _ _ _ wr HL' Hwr') as (x0 & x1 & x2).
    symmetry.
    rewrite <- (mulmx_assoc R (sel Q s)) by shp.
    rewrite get_sandwich by shp. autorewrite with mxshape. rewrite x1, x2.
    rewrite (sand_ext R k k _ _ _ (fun j j' => sumn d (fun t => sumn d (fun s' => sumn Dwl (fun wl => get (osel W s' t) wl wr *
               get (trmx (mulmx (trmx (sel Q t)) (mulmx (esel BL wl) (conjmx (sel Q s'))))) j j'))))).
    2: { intros j j' Hj Hj'. rewrite get_trmx by lia. unfold L'.
         rewrite (mform_opstep_left R d Dl k Dl k Dwl Dwr) by (try assumption; try apply wsite_ok; try apply wenv_ok; assumption).
         apply sumn_ext; intros t Ht. apply sumn_ext; intros s' Hs'. apply sumn_ext; intros wl Hwl'. f_equal.
         destruct (wsite_sel R _ _ _ _ t HQ Ht) as (t0 & t1 & t2). destruct (wsite_sel R _ _ _ _ s' HQ Hs') as (s0 & s1 & s2).
         rewrite get_trmx by shp. reflexivity. }
    rewrite sand_sum. apply sumn_ext; intros t Ht. rewrite sand_sum.
    transitivity (sumn d (fun s' => sumn Dwl (fun wl => get (osel W s' t) wl wr *
        (if Nat.eqb s s' then get (mulmx (trmx (esel BL wl)) (mulmx (mulmx (sel Q t) C) Ew)) b c else k0 R)))).
    { apply sumn_ext; intros s' Hs'. rewrite sand_sum. apply sumn_ext; intros wl Hwl'. rewrite sand_scal. f_equal.
      destruct (wsite_sel R _ _ _ _ t HQ Ht) as (t0 & t1 & t2). destruct (wsite_sel R _ _ _ _ s' HQ Hs') as (s0 & s1 & s2).
      destruct (wenv_esel R _ _ _ _ wl HBL Hwl') as (l0 & l1 & l2).
      rewrite (sand_get R (sel Q s) _ (mulmx C Ew) b c k k) by shp.
      rewrite (term_left R d Dl k Dr Q C (esel BL wl) Ew s s' t) by (try assumption; repeat split; assumption).
      destruct (Nat.eqb s s'); [reflexivity|rewrite get_zeromx; reflexivity]. }
    rewrite (sumn_single R d s) by (try exact Hs; intros s' Hs' N; apply sumn_zero; intros wl _;
                                     replace (Nat.eqb s s') with false by (symmetry; apply Nat.eqb_neq; lia); ring).
    rewrite Nat.eqb_refl. reflexivity.
  Qed.

  Theorem alh2_intertwine_left d Dl k Dr Dwl Dwm Dwr (BL BR : env) (W0 W1 : osite) (Q C : site) :
    0 < d -> 0 < Dwl -> 0 < Dwm -> 0 < Dwr -> wsite d Dl k Q -> lcoiso Q -> wsite d k Dr C ->
    osite_struct d W0 -> osite_struct d W1 -> osite_ok d Dwl Dwm W0 -> osite_ok d Dwm Dwr W1 ->
    wenv Dwl Dl Dl BL -> wenv Dwr Dr Dr BR ->
    alh BL BR (c04_merge_osite W0 W1) (mrg Q C) = mrg Q (alh (stepL Q Q W0 BL) BR W1 C).
  Proof.
    intros Hd Hwl Hwm Hwr HQ Hco HC S0 S1 HW0 HW1 HBL HBR.
    assert (Hdd : 0 < d * d) by (apply Nat.mul_pos_pos; assumption).
    destruct (site_ok_sdl R _ _ _ _ Hd (wsite_ok R _ _ _ _ HQ)) as (E1 & E2 & E3).
    destruct (osite_ok_odl R _ _ _ _ Hd HW0) as (W01 & W02 & W03).
    assert (HW2 : osite_ok (d * d) Dwl Dwr (c04_merge_osite W0 W1)) by (apply (merge_osite_ok R d d Dwl Dwm Dwr); assumption).
    assert (HM : wsite (d * d) Dl Dr (mrg Q C)) by (apply (wsite_merge R d Dl k Dr); assumption).
    assert (HL' : wenv Dwm k k (stepL Q Q W0 BL)).
    { pose proof (wenv_opstep_left R Q Q W0 BL) as H. rewrite W02, E2 in H. exact H. }
    set (L' := stepL Q Q W0 BL) in *.
    assert (HY : wsite d k Dr (alh L' BR W1 C)) by (apply (wsite_alh R d k Dr Dwm Dwr); assumption).
    apply (wsite_ext R (d * d) Dl Dr).
    - apply (wsite_alh R (d * d) Dl Dr Dwl Dwr); assumption.
    - apply (wsite_merge R d Dl k Dr); assumption.
    - intros u b c Hu Hb Hc. destruct (divmod_lt d u Hd Hu) as (Eu & Hs & Hs1).
      set (s := u / d) in *. set (s1 := u mod d) in *. rewrite Eu.
      (* right-hand side *)
      rewrite (merge_sel R d Q (alh L' BR W1 C) s s1). 2: exact (proj1 HY). 2: (rewrite E3; exact Hs). 2: exact Hs1.
      destruct (wsite_sel R _ _ _ _ s HQ Hs) as (q0 & q1 & q2).
      destruct (wsite_sel R _ _ _ _ s1 HY Hs1) as (y0 & y1 & y2).
      rewrite get_mulmx by lia. rewrite q2.
      transitivity (sumn d (fun t1 => sumn Dwm (fun wm => sumn Dwr (fun wr => get (osel W1 s1 t1) wm wr *
                      get (mulmx (sel Q s) (mulmx (trmx (esel L' wm)) (mulmx (sel C t1) (esel BR wr)))) b c)))).
      2: { transitivity (sumn k (fun j => sumn d (fun t1 => sumn Dwm (fun wm => sumn Dwr (fun wr => get (sel Q s) b j *
                      (get (osel W1 s1 t1) wm wr * get (mulmx (trmx (esel L' wm)) (mulmx (sel C t1) (esel BR wr))) j c)))))).
           - rewrite (sumn_exch R k d). apply sumn_ext; intros t1 Ht1. rewrite (sumn_exch R k Dwm). apply sumn_ext; intros wm Hwm'.
             rewrite (sumn_exch R k Dwr). apply sumn_ext; intros wr Hwr'.
             destruct (wenv_esel R _ _ _ _ wm HL' Hwm') as (x0 & x1 & x2). destruct (wenv_esel R _ _ _ _ wr HBR Hwr') as (r0 & r1 & r2).
             destruct (wsite_sel R _ _ _ _ t1 HC Ht1) as (c0 & c1 & c2).
             rewrite get_mulmx by (rewrite ?nc_mulmx; lia). rewrite q2. rewrite <- sumn_scal_l. apply sumn_ext; intros j Hj. ring.
           - apply sumn_ext; intros j Hj.
             rewrite (mform_local_hamiltonian R d k Dr k Dr Dwm Dwr) by (try assumption; try apply wsite_ok; try apply wenv_ok; assumption).
             rewrite <- sumn_scal_l. apply sumn_ext; intros t1 _. rewrite <- sumn_scal_l. apply sumn_ext; intros wm _.
             rewrite <- sumn_scal_l. reflexivity. }
      (* left-hand side *)
      rewrite (mform_local_hamiltonian R (d * d) Dl Dr Dl Dr Dwl Dwr) by (try assumption; try apply wsite_ok; try apply wenv_ok; try assumption; lia).
      rewrite sumn_flatten.
      transitivity (sumn d (fun t => sumn d (fun t1 => sumn Dwl (fun wl => sumn Dwr (fun wr => sumn Dwm (fun wm =>
                      get (osel W0 s t) wl wm * get (osel W1 s1 t1) wm wr *
                      get (mulmx (trmx (esel BL wl)) (mulmx (mulmx (sel Q t) (sel C t1)) (esel BR wr))) b c)))))).
      { apply sumn_ext; intros t Ht. apply sumn_ext; intros t1 Ht1. apply sumn_ext; intros wl Hwl'. apply sumn_ext; intros wr Hwr'.
        rewrite (merge_osel R d d W0 W1 s s1 t t1) by assumption.
        rewrite (merge_sel R d Q C t t1). 2: exact (proj1 HC). 2: (rewrite E3; exact Ht). 2: exact Ht1.
        destruct HW0 as [_ K0]. destruct (K0 s t Hs Ht) as [f1 f2]. destruct HW1 as [_ K1]. destruct (K1 s1 t1 Hs1 Ht1) as [g1 g2].
        rewrite get_mulmx by lia. rewrite f2. rewrite <- sumn_scal_r. reflexivity. }
      (* reorder: t1, wm, wr outside; t, wl inside *)
      transitivity (sumn d (fun t1 => sumn Dwm (fun wm => sumn Dwr (fun wr => sumn d (fun t => sumn Dwl (fun wl =>
                      get (osel W0 s t) wl wm * get (osel W1 s1 t1) wm wr *
                      get (mulmx (trmx (esel BL wl)) (mulmx (mulmx (sel Q t) (sel C t1)) (esel BR wr))) b c)))))).
      { rewrite (sumn_exch R d d). apply sumn_ext; intros t1 _.
        transitivity (sumn d (fun t => sumn Dwm (fun wm => sumn Dwr (fun wr => sumn Dwl (fun wl =>
                      get (osel W0 s t) wl wm * get (osel W1 s1 t1) wm wr *
                      get (mulmx (trmx (esel BL wl)) (mulmx (mulmx (sel Q t) (sel C t1)) (esel BR wr))) b c))))).
        { apply sumn_ext; intros t _.
          transitivity (sumn Dwl (fun wl => sumn Dwm (fun wm => sumn Dwr (fun wr =>
                      get (osel W0 s t) wl wm * get (osel W1 s1 t1) wm wr *
                      get (mulmx (trmx (esel BL wl)) (mulmx (mulmx (sel Q t) (sel C t1)) (esel BR wr))) b c)))).
          { apply sumn_ext; intros wl _. apply (sumn_exch R Dwr Dwm). }
          rewrite (sumn_exch R Dwl Dwm). apply sumn_ext; intros wm _. apply (sumn_exch R Dwl Dwr). }
        rewrite (sumn_exch R d Dwm). apply sumn_ext; intros wm _. apply (sumn_exch R d Dwr). }
      apply sumn_ext; intros t1 Ht1. apply sumn_ext; intros wm Hwm'. apply sumn_ext; intros wr Hwr'.
      unfold L'. rewrite <- (kernel_left d Dl k Dr Dwl Dwm BL W0 Q (sel C t1) (esel BR wr) s wm b c); try assumption.
      2: { apply (wsite_sel R _ _ _ _ t1 HC Ht1). }
      2: { apply (wenv_esel R _ _ _ _ wr HBR Hwr'). }
      rewrite <- sumn_scal_l. apply sumn_ext; intros t _. rewrite <- sumn_scal_l. apply sumn_ext; intros wl _. ring.
  Qed.

  (* ---------------- right ---------------- *)
  Lemma kernel_right d Dl k Dr Dwl Dwr (BR : env) (W : osite) (B : site) (C Lw : mx) s wl b c :
    0 < d -> 0 < Dwl -> 0 < Dwr -> wsite d k Dr B -> rcoiso B -> wmx Dl k C -> wmx Dl Dl Lw -> osite_ok d Dwl Dwr W ->
    wenv Dwr Dr Dr BR -> s < d -> wl < Dwl -> b < Dl -> c < Dr ->
    sumn d (fun t => sumn Dwr (fun wr => get (osel W s t) wl wr *
      get (mulmx (trmx Lw) (mulmx (mulmx C (sel B t)) (esel BR wr))) b c)) =
    get (mulmx (mulmx (trmx Lw) (mulmx C (esel (stepR B B W BR) wl))) (sel B s)) b c.
  Proof.
    intros Hd Hwl Hwr HB Hco HC HLw HW HBR Hs Hwl' Hb Hc.
    destruct (site_ok_sdl R _ _ _ _ Hd (wsite_ok R _ _ _ _ HB)) as (E1 & E2 & E3).
    destruct (osite_ok_odl R _ _ _ _ Hd HW) as (W1 & W2 & W3).
    assert (HR' : wenv Dwl k k (stepR B B W BR)).
    { pose proof (wenv_opstep_right R B B W BR) as H. rewrite W1, E1 in H. exact H. }
    set (R' := stepR B B W BR) in *.
    destruct (wsite_sel R _ _ _ _ s HB Hs) as (q0 & q1 & q2). destruct HC as (c0 & c1 & c2). destruct HLw as (l0 & l1 & l2).
    destruct (wenv_esel R _ _ _ _ wl HR' Hwl') as (x0 & x1 & x2).
    symmetry.
    rewrite <- (mulmx_assoc R (trmx Lw) C) by shp.
    rewrite get_sandwich by shp. rewrite x1, x2.
    rewrite (sand_ext R k k _ _ _ (fun j j' => sumn d (fun s' => sumn d (fun t => sumn Dwr (fun wr => get (osel W s' t) wl wr *
               get (mulmx (mulmx (sel B t) (esel BR wr)) (adjmx (sel B s'))) j j'))))).
    2: { intros j j' Hj Hj'. unfold R'.
         apply (mform_opstep_right R d k Dr k Dr Dwl Dwr); try assumption; try apply wsite_ok; try apply wenv_ok; assumption. }
    rewrite sand_sum.
    transitivity (sumn d (fun s' => sumn d (fun t => sumn Dwr (fun wr => get (osel W s' t) wl wr *
        (if Nat.eqb s s' then get (mulmx (trmx Lw) (mulmx (mulmx C (sel B t)) (esel BR wr))) b c else k0 R))))).
    { apply sumn_ext; intros s' Hs'. rewrite sand_sum. apply sumn_ext; intros t Ht. rewrite sand_sum. apply sumn_ext; intros wr Hwr'.
      rewrite sand_scal. f_equal.
      destruct (wsite_sel R _ _ _ _ t HB Ht) as (t0 & t1 & t2). destruct (wsite_sel R _ _ _ _ s' HB Hs') as (s0 & s1 & s2).
      destruct (wenv_esel R _ _ _ _ wr HBR Hwr') as (r0 & r1 & r2).
      rewrite (sand_get R (mulmx (trmx Lw) C) _ (sel B s) b c k k) by shp.
      rewrite (term_right R d Dl k Dr B C Lw (esel BR wr) s s' t) by (try assumption; repeat split; assumption).
      destruct (Nat.eqb s s'); [reflexivity|rewrite get_zeromx; reflexivity]. }
    rewrite (sumn_single R d s) by (try exact Hs; intros s' Hs' N; apply sumn_zero; intros t _; apply sumn_zero; intros wr _;
                                     replace (Nat.eqb s s') with false by (symmetry; apply Nat.eqb_neq; lia); ring).
    rewrite Nat.eqb_refl. reflexivity.
  Qed.

  Theorem alh2_intertwine_right d Dl k Dr Dwl Dwm Dwr (BL BR : env) (W0 W1 : osite) (C B : site) :
    0 < d -> 0 < Dwl -> 0 < Dwm -> 0 < Dwr -> wsite d Dl k C -> wsite d k Dr B -> rcoiso B ->
    osite_struct d W0 -> osite_struct d W1 -> osite_ok d Dwl Dwm W0 -> osite_ok d Dwm Dwr W1 ->
    wenv Dwl Dl Dl BL -> wenv Dwr Dr Dr BR ->
    alh BL BR (c04_merge_osite W0 W1) (mrg C B) = mrg (alh BL (stepR B B W1 BR) W0 C) B.
  Proof.
    intros Hd Hwl Hwm Hwr HC HB Hco S0 S1 HW0 HW1 HBL HBR.
    assert (Hdd : 0 < d * d) by (apply Nat.mul_pos_pos; assumption).
    destruct (site_ok_sdl R _ _ _ _ Hd (wsite_ok R _ _ _ _ HB)) as (E1 & E2 & E3).
    destruct (site_ok_sdl R _ _ _ _ Hd (wsite_ok R _ _ _ _ HC)) as (F1 & F2 & F3).
    destruct (osite_ok_odl R _ _ _ _ Hd HW1) as (W11 & W12 & W13).
    assert (HW2 : osite_ok (d * d) Dwl Dwr (c04_merge_osite W0 W1)) by (apply (merge_osite_ok R d d Dwl Dwm Dwr); assumption).
    assert (HM : wsite (d * d) Dl Dr (mrg C B)) by (apply (wsite_merge R d Dl k Dr); assumption).
    assert (HR' : wenv Dwm k k (stepR B B W1 BR)).
    { pose proof (wenv_opstep_right R B B W1 BR) as H. rewrite W11, E1 in H. exact H. }
    set (R' := stepR B B W1 BR) in *.
    assert (HY : wsite d Dl k (alh BL R' W0 C)) by (apply (wsite_alh R d Dl k Dwl Dwm); assumption).
    apply (wsite_ext R (d * d) Dl Dr).
    - apply (wsite_alh R (d * d) Dl Dr Dwl Dwr); assumption.
    - apply (wsite_merge R d Dl k Dr); assumption.
    - intros u b c Hu Hb Hc. destruct (divmod_lt d u Hd Hu) as (Eu & Hs & Hs1).
      set (s := u / d) in *. set (s1 := u mod d) in *. rewrite Eu.
      (* right-hand side *)
      rewrite (merge_sel R d (alh BL R' W0 C) B s s1). 2: exact (proj1 HB). 2: (rewrite (proj1 HY); exact Hs). 2: exact Hs1.
      destruct (wsite_sel R _ _ _ _ s1 HB Hs1) as (q0 & q1 & q2).
      destruct (wsite_sel R _ _ _ _ s HY Hs) as (y0 & y1 & y2).
      rewrite get_mulmx by lia. rewrite y2.
      transitivity (sumn d (fun t => sumn Dwl (fun wl => sumn Dwm (fun wm => get (osel W0 s t) wl wm *
                      get (mulmx (mulmx (trmx (esel BL wl)) (mulmx (sel C t) (esel R' wm))) (sel B s1)) b c)))).
      2: { transitivity (sumn k (fun j => sumn d (fun t => sumn Dwl (fun wl => sumn Dwm (fun wm =>
                      (get (osel W0 s t) wl wm * get (mulmx (trmx (esel BL wl)) (mulmx (sel C t) (esel R' wm))) b j) * get (sel B s1) j c))))).
           - rewrite (sumn_exch R k d). apply sumn_ext; intros t Ht. rewrite (sumn_exch R k Dwl). apply sumn_ext; intros wl Hwl'.
             rewrite (sumn_exch R k Dwm). apply sumn_ext; intros wm Hwm'.
             destruct (wenv_esel R _ _ _ _ wm HR' Hwm') as (x0 & x1 & x2). destruct (wenv_esel R _ _ _ _ wl HBL Hwl') as (l0 & l1 & l2).
             destruct (wsite_sel R _ _ _ _ t HC Ht) as (c0 & c1 & c2).
             rewrite get_mulmx by (rewrite ?nr_mulmx, ?nr_trmx; lia). rewrite !nc_mulmx, x2. rewrite <- sumn_scal_l. apply sumn_ext; intros j Hj. ring.
           - apply sumn_ext; intros j Hj.
             rewrite (mform_local_hamiltonian R d Dl k Dl k Dwl Dwm) by (try assumption; try apply wsite_ok; try apply wenv_ok; assumption).
             rewrite <- sumn_scal_r. apply sumn_ext; intros t _. rewrite <- sumn_scal_r. apply sumn_ext; intros wl _.
             rewrite <- sumn_scal_r. reflexivity. }
      (* left-hand side *)
      rewrite (mform_local_hamiltonian R (d * d) Dl Dr Dl Dr Dwl Dwr) by (try assumption; try apply wsite_ok; try apply wenv_ok; try assumption; lia).
      rewrite sumn_flatten.
      transitivity (sumn d (fun t => sumn d (fun t1 => sumn Dwl (fun wl => sumn Dwr (fun wr => sumn Dwm (fun wm =>
                      get (osel W0 s t) wl wm * get (osel W1 s1 t1) wm wr *
                      get (mulmx (trmx (esel BL wl)) (mulmx (mulmx (sel C t) (sel B t1)) (esel BR wr))) b c)))))).
      { apply sumn_ext; intros t Ht. apply sumn_ext; intros t1 Ht1. apply sumn_ext; intros wl Hwl'. apply sumn_ext; intros wr Hwr'.
        rewrite (merge_osel R d d W0 W1 s s1 t t1) by assumption.
        rewrite (merge_sel R d C B t t1). 2: exact (proj1 HB). 2: (rewrite F3; exact Ht). 2: exact Ht1.
        destruct HW0 as [_ K0]. destruct (K0 s t Hs Ht) as [f1 f2]. destruct HW1 as [_ K1]. destruct (K1 s1 t1 Hs1 Ht1) as [g1 g2].
        rewrite get_mulmx by lia. rewrite f2. rewrite <- sumn_scal_r. reflexivity. }
      (* reorder: t, wl, wm outside; t1, wr inside *)
      transitivity (sumn d (fun t => sumn Dwl (fun wl => sumn Dwm (fun wm => sumn d (fun t1 => sumn Dwr (fun wr =>
                      get (osel W0 s t) wl wm * get (osel W1 s1 t1) wm wr *
                      get (mulmx (trmx (esel BL wl)) (mulmx (mulmx (sel C t) (sel B t1)) (esel BR wr))) b c)))))).
      { apply sumn_ext; intros t _.
        transitivity (sumn Dwl (fun wl => sumn d (fun t1 => sumn Dwm (fun wm => sumn Dwr (fun wr =>
                      get (osel W0 s t) wl wm * get (osel W1 s1 t1) wm wr *
                      get (mulmx (trmx (esel BL wl)) (mulmx (mulmx (sel C t) (sel B t1)) (esel BR wr))) b c))))).
        { rewrite (sumn_exch R d Dwl). apply sumn_ext; intros wl _. apply sumn_ext; intros t1 _. apply (sumn_exch R Dwr Dwm). }
        apply sumn_ext; intros wl _. apply (sumn_exch R d Dwm). }
      apply sumn_ext; intros t Ht. apply sumn_ext; intros wl Hwl'. apply sumn_ext; intros wm Hwm'.
      unfold R'. rewrite <- (kernel_right d Dl k Dr Dwm Dwr BR W1 B (sel C t) (esel BL wl) s1 wm b c); try assumption.
      2: { apply (wsite_sel R _ _ _ _ t HC Ht). }
      2: { apply (wenv_esel R _ _ _ _ wl HBL Hwl'). }
      rewrite <- sumn_scal_l. apply sumn_ext; intros t1 _. rewrite <- sumn_scal_l. apply sumn_ext; intros wr _. ring.
  Qed.
End Local2.
