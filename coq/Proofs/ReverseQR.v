(* C09 — contract (c): QR non-uniqueness only changes the gauge.
   From LAPACK's contract for one call (qr_ok, Proofs/SweepsGauge.v), well-formed answers and an INVERTIBLE R factor
   (full rank), the answer for a tensor that is already factorised as (isometry) x (invertible matrix) differs from that
   factorisation by a unitary on the new bond.  Over a mere commutative ring the rank argument that would give
   invertibility of R for a full-rank input is not available, hence invertibility of the returned R is part of the
   per-call contract ([qr_good]). *)
From Coq Require Import ZArith Arith List Lia Ring Setoid Bool.
From PT Require Import Base.Scalar Base.BigSum Base.Mx Model.Tensor Model.Operation Model.Sweeps
  Proofs.OperationEntries Proofs.OperationLocal Proofs.SweepsCanon Proofs.SweepsGauge
  Proofs.ReverseDefs Proofs.ReverseMx Proofs.ReverseGauge.
Import ListNotations.

Section QRGauge.
  Variable R : cring.
  Add Ring Rring_reverse_qr : (k_rt R).
  Notation "0" := (k0 R). Notation "1" := (k1 R).
  Infix "*" := (kmul R).
  Notation site := (site R).
  Notation mx := (mx R).
  Notation cj := (kconj R).
  Notation dlt a b := (if Nat.eqb a b then 1 else 0).

  (* two-sided inverse of a square matrix *)
  Definition invertible (k : nat) (C : mx) : Prop :=
    wmx k k C /\ exists Ci, wmx k k Ci /\ mulmx C Ci = idmx k /\ mulmx Ci C = idmx k.
  Definition qr_good (M : mx) (ans : mx * mx * list BinNums.Z) : Prop :=
    qr_ok M ans /\ wf (fst (fst ans)) /\ wf (snd (fst ans)) /\ invertible (nc M) (snd (fst ans)).

  Lemma invertible_unitary k (U : mx) : unitary k U -> invertible k U.
  Proof. intros (HU & H1 & H2). split; [exact HU|]. exists (adjmx U). destruct HU as (u0 & u1 & u2). split; [split; [apply wf_adjmx|split; shp]|]. auto. Qed.
  Lemma invertible_mul k (A B : mx) : invertible k A -> invertible k B -> invertible k (mulmx A B).
  Proof.
    intros ((a0 & a1 & a2) & Ai & (ai0 & ai1 & ai2) & A1 & A2) ((b0 & b1 & b2) & Bi & (bi0 & bi1 & bi2) & B1 & B2).
    split; [split; [apply wf_mulmx|split; shp]|]. exists (mulmx Bi Ai). split; [split; [apply wf_mulmx|split; shp]|]. split.
    - rewrite mulmx_assoc by shp. rewrite <- (mulmx_assoc R B Bi Ai) by shp. rewrite B1.
      rewrite <- ai1 at 1. rewrite mulmx_1_l by exact ai0. exact A1.
    - rewrite mulmx_assoc by shp. rewrite <- (mulmx_assoc R Ai A B) by shp. rewrite A2.
      rewrite <- b1 at 1. rewrite mulmx_1_l by exact b0. exact B2.
  Qed.
  Lemma invertible_scale k c ci (A : mx) : c * ci = 1 -> invertible k A -> invertible k (scalemx c A).
  Proof.
    intros Hc ((a0 & a1 & a2) & Ai & (ai0 & ai1 & ai2) & A1 & A2).
    split; [apply wmx_scalemx; repeat split; assumption|]. exists (scalemx ci Ai). split; [apply wmx_scalemx; repeat split; assumption|].
    assert (Hc' : ci * c = 1) by (rewrite <- Hc; ring).
    split; rewrite mulmx_scalemx_l, mulmx_scalemx_r by shp; rewrite scalemx_scalemx; [rewrite Hc, A1|rewrite Hc', A2]; apply scalemx_1; apply wf_idmx.
  Qed.
  Lemma invertible_tr k (A : mx) : invertible k A -> invertible k (trmx A).
  Proof.
    intros ((a0 & a1 & a2) & Ai & (ai0 & ai1 & ai2) & A1 & A2).
    split; [split; [apply wf_trmx|split; shp]|]. exists (trmx Ai). split; [split; [apply wf_trmx|split; shp]|].
    split; rewrite <- trmx_mulmx by shp; [rewrite A2|rewrite A1]; apply trmx_idmx.
  Qed.

  (* ---------------- isometry in matrix form ---------------- *)
  Lemma right_iso_m d Dl Dr (A : site) : 0 < d -> site_ok d Dl Dr A ->
    (right_iso A <-> forall a a', a < Dl -> a' < Dl -> sumn d (fun s => get (mulmx (sel A s) (adjmx (sel A s))) a a') = dlt a a').
  Proof.
    intros Hd HA. destruct (site_ok_sdl R _ _ _ _ Hd HA) as (E1 & E2 & E3). unfold right_iso. rewrite E1, E2, E3.
    assert (G : forall a a', a < Dl -> a' < Dl ->
      sumn d (fun s => get (mulmx (sel A s) (adjmx (sel A s))) a a') =
      sumn d (fun s => sumn Dr (fun c => get (sel A s) a c * cj (get (sel A s) a' c)))).
    { intros a a' Ha Ha'. apply sumn_ext; intros s Hs. destruct HA as [_ HA]. destruct (HA s Hs) as [F1 F2].
      rewrite get_mulmx by shp. rewrite F2. apply sumn_ext; intros c Hc. rewrite get_adjmx by lia. reflexivity. }
    split; intros H a a' Ha Ha'; [rewrite G by assumption|rewrite <- G by assumption]; apply H; assumption.
  Qed.
  Lemma left_iso_m d Dl Dr (A : site) : 0 < d -> site_ok d Dl Dr A ->
    (left_iso A <-> forall c c', c < Dr -> c' < Dr -> sumn d (fun s => get (mulmx (adjmx (sel A s)) (sel A s)) c' c) = dlt c c').
  Proof.
    intros Hd HA. destruct (site_ok_sdl R _ _ _ _ Hd HA) as (E1 & E2 & E3). unfold left_iso. rewrite E1, E2, E3.
    assert (G : forall c c', c < Dr -> c' < Dr ->
      sumn d (fun s => get (mulmx (adjmx (sel A s)) (sel A s)) c' c) =
      sumn d (fun s => sumn Dl (fun a => get (sel A s) a c * cj (get (sel A s) a c')))).
    { intros c c' Hc Hc'. apply sumn_ext; intros s Hs. destruct HA as [_ HA]. destruct (HA s Hs) as [F1 F2].
      rewrite get_mulmx by shp. rewrite nc_adjmx, F1. apply sumn_ext; intros a Ha. rewrite get_adjmx by lia. ring. }
    split; intros H c c' Hc Hc'; [rewrite G by assumption|rewrite <- G by assumption]; apply H; assumption.
  Qed.

  (* sum over s of a sandwich of the s-th Gram matrix *)
  Lemma sum_sandwich d D (P Q : mx) (Ms : nat -> mx) i j :
    nc P = D -> nr Q = D -> (forall s, s < d -> nr (Ms s) = D /\ nc (Ms s) = D) -> i < nr P -> j < nc Q ->
    (forall a a', a < D -> a' < D -> sumn d (fun s => get (Ms s) a a') = dlt a a') ->
    sumn d (fun s => get (mulmx (mulmx P (Ms s)) Q) i j) = get (mulmx P Q) i j.
  Proof.
    intros HP HQ HM Hi Hj Hsum.
    transitivity (sumn d (fun s => sand D D (get P i) (fun l => get Q l j) (get (Ms s)))).
    { apply sumn_ext; intros s Hs. destruct (HM s Hs) as [m1 m2]. rewrite get_sandwich by shp. rewrite m1, m2. reflexivity. }
    rewrite <- sand_sum.
    rewrite (sand_ext R D D _ _ _ (fun k l => dlt k l)) by (intros; apply Hsum; assumption).
    rewrite get_mulmx by assumption. rewrite HP. unfold sand. apply sumn_ext; intros k Hk.
    transitivity (sumn D (fun l => (get P i k * get Q l j) * dlt k l)); [apply sumn_ext; intros; ring|].
    apply (sumn_delta_sym R D k (fun l => get P i k * get Q l j)). exact Hk.
  Qed.

  (* ---------------- isometry is gauge invariant ---------------- *)
  Lemma right_iso_gsite d Dl Dr (Gl Gr : mx) (A : site) : 0 < d ->
    wsite d Dl Dr A -> unitary Dl Gl -> unitary Dr Gr -> right_iso A -> right_iso (gsite Gl Gr A).
  Proof.
    intros Hd HA HUl HUr Hiso. pose proof HUl as ((l0 & l1 & l2) & Hl1 & Hl2). pose proof HUr as ((r0 & r1 & r2) & Hr1 & Hr2).
    assert (HA' : wsite d Dl Dr (gsite Gl Gr A)) by (apply (wsite_gsite R d Dl Dr); assumption).
    apply (right_iso_m d Dl Dr _ Hd (wsite_ok R _ _ _ _ HA')). intros a a' Ha Ha'.
    rewrite (right_iso_m d Dl Dr A Hd (wsite_ok R _ _ _ _ HA)) in Hiso.
    transitivity (sumn d (fun s => get (mulmx (mulmx (adjmx Gl) (mulmx (sel A s) (adjmx (sel A s)))) Gl) a a')).
    { apply sumn_ext; intros s Hs. rewrite (sel_gsite R d Dl Dr) by assumption. f_equal.
      destruct (wsite_sel R _ _ _ _ s HA Hs) as (s0 & s1 & s2). unfold gmx.
      rewrite (adjmx_mulmx R (mulmx (adjmx Gl) (sel A s)) Gr) by shp. rewrite (adjmx_mulmx R (adjmx Gl) (sel A s)) by shp.
      rewrite adjmx_adjmx by exact l0. repeat rewrite mulmx_assoc by shp.
      rewrite (mulmx_cancel R Gr (adjmx Gr) _ Dr Hr2) by (shp; apply wf_mulmx). reflexivity. }
    rewrite (sum_sandwich d Dl (adjmx Gl) Gl) by (shp; try assumption; intros s Hs; destruct (wsite_sel R _ _ _ _ s HA Hs) as (s0 & s1 & s2); split; shp).
    rewrite Hl1. apply get_idmx; assumption.
  Qed.
  Lemma left_iso_gsite d Dl Dr (Gl Gr : mx) (A : site) : 0 < d ->
    wsite d Dl Dr A -> unitary Dl Gl -> unitary Dr Gr -> left_iso A -> left_iso (gsite Gl Gr A).
  Proof.
    intros Hd HA HUl HUr Hiso. pose proof HUl as ((l0 & l1 & l2) & Hl1 & Hl2). pose proof HUr as ((r0 & r1 & r2) & Hr1 & Hr2).
    assert (HA' : wsite d Dl Dr (gsite Gl Gr A)) by (apply (wsite_gsite R d Dl Dr); assumption).
    apply (left_iso_m d Dl Dr _ Hd (wsite_ok R _ _ _ _ HA')). intros c c' Hc Hc'.
    rewrite (left_iso_m d Dl Dr A Hd (wsite_ok R _ _ _ _ HA)) in Hiso.
    transitivity (sumn d (fun s => get (mulmx (mulmx (adjmx Gr) (mulmx (adjmx (sel A s)) (sel A s))) Gr) c' c)).
    { apply sumn_ext; intros s Hs. rewrite (sel_gsite R d Dl Dr) by assumption. f_equal.
      destruct (wsite_sel R _ _ _ _ s HA Hs) as (s0 & s1 & s2). unfold gmx.
      rewrite (adjmx_mulmx R (mulmx (adjmx Gl) (sel A s)) Gr) by shp. rewrite (adjmx_mulmx R (adjmx Gl) (sel A s)) by shp.
      rewrite adjmx_adjmx by exact l0. repeat rewrite mulmx_assoc by shp.
      rewrite (mulmx_cancel R Gl (adjmx Gl) _ Dl Hl2) by (shp; apply wf_mulmx). reflexivity. }
    rewrite (sum_sandwich d Dr (adjmx Gr) Gr).
    - rewrite Hr1. rewrite get_idmx by assumption. rewrite Nat.eqb_sym. reflexivity.
    - shp. - shp.
    - intros s Hs. destruct (wsite_sel R _ _ _ _ s HA Hs) as (s0 & s1 & s2). split; shp.
    - shp. - shp.
    - intros a a' Ha Ha'. rewrite Hiso by assumption. rewrite (Nat.eqb_sym a' a). reflexivity.
  Qed.

  (* ---------------- uniqueness of the factorisations up to a unitary ---------------- *)
  (* right move:  X[s] = T . Aq[s] = T0 . B0[s]  with Aq, B0 right-isometric and T, T0 invertible *)
  Theorem uniq_right d k Dr (T T0 : mx) (Aq B0 : site) : 0 < d ->
    wsite d k Dr Aq -> wsite d k Dr B0 -> right_iso Aq -> right_iso B0 -> invertible k T -> invertible k T0 ->
    lmul_site T Aq = lmul_site T0 B0 ->
    exists U, unitary k U /\ Aq = lmul_site (adjmx U) B0 /\ T = mulmx T0 U.
  Proof.
    intros Hd HAq HB0 Hi1 Hi0 ((t0 & t1 & t2) & Ti & (ti0 & ti1 & ti2) & Tr & Tl) ((z0 & z1 & z2) & T0i & (zi0 & zi1 & zi2) & Zr & Zl) E.
    set (Wm := mulmx Ti T0). set (Wi := mulmx T0i T).
    assert (HWm : wmx k k Wm) by (split; [apply wf_mulmx|split; unfold Wm; shp]).
    assert (HWi : wmx k k Wi) by (split; [apply wf_mulmx|split; unfold Wi; shp]).
    destruct HWm as (w0 & w1 & w2). destruct HWi as (v0 & v1 & v2).
    assert (WWi : mulmx Wm Wi = idmx k).
    { unfold Wm, Wi. rewrite mulmx_assoc by shp. rewrite (mulmx_cancel R T0 T0i T k Zr) by shp. exact Tl. }
    assert (WiW : mulmx Wi Wm = idmx k).
    { unfold Wm, Wi. rewrite mulmx_assoc by shp. rewrite (mulmx_cancel R T Ti T0 k Tr) by shp. exact Zl. }
    (* Aq[s] = W B0[s] *)
    assert (Esel : forall s, s < d -> sel Aq s = mulmx Wm (sel B0 s)).
    { intros s Hs. pose proof (f_equal (fun X => sel X s) E) as Es. cbn beta in Es. unfold lmul_site in Es.
      rewrite !sel_map_w in Es by (rewrite ?(proj1 HAq), ?(proj1 HB0); exact Hs).
      destruct (wsite_sel R _ _ _ _ s HAq Hs) as (a0 & a1 & a2). destruct (wsite_sel R _ _ _ _ s HB0 Hs) as (b0 & b1 & b2).
      unfold Wm. rewrite mulmx_assoc by shp. rewrite <- Es. symmetry. apply (mulmx_cancel R Ti T (sel Aq s) k Tl); shp. }
    (* W W^H = I from the two isometries *)
    assert (WWh : mulmx Wm (adjmx Wm) = idmx k).
    { apply mx_ext; [apply wf_mulmx|apply wf_idmx|shp|shp|]. autorewrite with mxshape. rewrite w1. intros i j Hi Hj. rewrite get_idmx by assumption.
      rewrite (right_iso_m d k Dr Aq Hd (wsite_ok R _ _ _ _ HAq)) in Hi1. rewrite <- (Hi1 i j Hi Hj).
      rewrite (right_iso_m d k Dr B0 Hd (wsite_ok R _ _ _ _ HB0)) in Hi0.
      rewrite <- (sum_sandwich d k Wm (adjmx Wm) (fun s => mulmx (sel B0 s) (adjmx (sel B0 s))) i j); try assumption; shp.
      - apply sumn_ext; intros s Hs. rewrite (Esel s Hs). f_equal.
        destruct (wsite_sel R _ _ _ _ s HB0 Hs) as (b0 & b1 & b2).
        rewrite (adjmx_mulmx R Wm (sel B0 s)) by shp. repeat rewrite mulmx_assoc by shp. reflexivity.
      - intros s Hs. destruct (wsite_sel R _ _ _ _ s HB0 Hs) as (b0 & b1 & b2). split; shp. }
    assert (Wh : adjmx Wm = Wi).
    { rewrite <- (mulmx_cancel R Wi Wm (adjmx Wm) k WiW) by (shp; apply wf_adjmx). rewrite WWh.
      transitivity (mulmx Wi (idmx (nc Wi))); [rewrite v2; reflexivity|apply mulmx_1_r; exact v0]. }
    exists Wi. split; [|split].
    - split; [repeat split; assumption|]. assert (Wih : adjmx Wi = Wm) by (rewrite <- Wh; apply adjmx_adjmx; exact w0).
      rewrite Wih. split; assumption.
    - rewrite <- Wh, adjmx_adjmx by exact w0.
      apply (wsite_ext R d k Dr); [exact HAq| |].
      + apply (wsite_map R d k Dr); [exact HB0|]. intros M (m0 & m1 & m2). split; [apply wf_mulmx|split; shp].
      + intros s i j Hs Hi Hj. rewrite (Esel s Hs). unfold lmul_site. rewrite sel_map_w by (rewrite (proj1 HB0); exact Hs). reflexivity.
    - unfold Wi. symmetry. apply (mulmx_cancel R T0 T0i T k Zr); shp.
  Qed.

  (* left move:  X[s] = Aq[s] . C = B0[s] . T0  with Aq, B0 left-isometric and C, T0 invertible *)
  Theorem uniq_left d Dl k (C T0 : mx) (Aq B0 : site) : 0 < d ->
    wsite d Dl k Aq -> wsite d Dl k B0 -> left_iso Aq -> left_iso B0 -> invertible k C -> invertible k T0 ->
    rmul_site Aq C = rmul_site B0 T0 ->
    exists U, unitary k U /\ Aq = rmul_site B0 U /\ C = mulmx (adjmx U) T0.
  Proof.
    intros Hd HAq HB0 Hi1 Hi0 ((t0 & t1 & t2) & Ci & (ti0 & ti1 & ti2) & Tr & Tl) ((z0 & z1 & z2) & T0i & (zi0 & zi1 & zi2) & Zr & Zl) E.
    set (Wm := mulmx T0 Ci). set (Wi := mulmx C T0i).
    assert (HWm : wmx k k Wm) by (split; [apply wf_mulmx|split; unfold Wm; shp]).
    assert (HWi : wmx k k Wi) by (split; [apply wf_mulmx|split; unfold Wi; shp]).
    destruct HWm as (w0 & w1 & w2). destruct HWi as (v0 & v1 & v2).
    assert (WWi : mulmx Wm Wi = idmx k).
    { unfold Wm, Wi. rewrite mulmx_assoc by shp. rewrite (mulmx_cancel R Ci C T0i k Tl) by shp. exact Zr. }
    assert (WiW : mulmx Wi Wm = idmx k).
    { unfold Wm, Wi. rewrite mulmx_assoc by shp. rewrite (mulmx_cancel R T0i T0 Ci k Zl) by shp. exact Tr. }
    assert (Esel : forall s, s < d -> sel Aq s = mulmx (sel B0 s) Wm).
    { intros s Hs. pose proof (f_equal (fun X => sel X s) E) as Es. cbn beta in Es. unfold rmul_site in Es.
      rewrite !(sel_map_w R (fun M => mulmx M _)) in Es by (rewrite ?(proj1 HAq), ?(proj1 HB0); exact Hs).
      destruct (wsite_sel R _ _ _ _ s HAq Hs) as (a0 & a1 & a2). destruct (wsite_sel R _ _ _ _ s HB0 Hs) as (b0 & b1 & b2).
      unfold Wm. rewrite <- mulmx_assoc by shp. rewrite <- Es. symmetry. apply (mulmx_cancel_r R (sel Aq s) C Ci k Tr); shp. }
    (* W^H W = I *)
    assert (WhW : mulmx (adjmx Wm) Wm = idmx k).
    { apply mx_ext; [apply wf_mulmx|apply wf_idmx|shp|shp|]. autorewrite with mxshape. rewrite w2. intros i j Hi Hj. rewrite get_idmx by assumption.
      rewrite (left_iso_m d Dl k Aq Hd (wsite_ok R _ _ _ _ HAq)) in Hi1. rewrite Nat.eqb_sym. rewrite <- (Hi1 j i Hj Hi).
      rewrite (left_iso_m d Dl k B0 Hd (wsite_ok R _ _ _ _ HB0)) in Hi0.
      rewrite <- (sum_sandwich d k (adjmx Wm) Wm (fun s => mulmx (adjmx (sel B0 s)) (sel B0 s)) i j); try assumption; shp.
      - apply sumn_ext; intros s Hs. rewrite (Esel s Hs). f_equal.
        destruct (wsite_sel R _ _ _ _ s HB0 Hs) as (b0 & b1 & b2).
        rewrite (adjmx_mulmx R (sel B0 s) Wm) by shp. repeat rewrite mulmx_assoc by shp. reflexivity.
      - intros s Hs. destruct (wsite_sel R _ _ _ _ s HB0 Hs) as (b0 & b1 & b2). split; shp.
      - intros a a' Ha Ha'. rewrite Hi0 by assumption. rewrite (Nat.eqb_sym a' a). reflexivity. }
    assert (Wh : adjmx Wm = Wi).
    { rewrite <- (mulmx_cancel_r R (adjmx Wm) Wm Wi k WWi) by (shp; apply wf_adjmx). rewrite WhW.
      transitivity (mulmx (idmx (nr Wi)) Wi); [rewrite v1; reflexivity|apply mulmx_1_l; exact v0]. }
    exists Wm. split; [|split].
    - split; [repeat split; assumption|]. rewrite Wh. split; assumption.
    - apply (wsite_ext R d Dl k); [exact HAq| |].
      + apply (wsite_map R d Dl k); [exact HB0|]. intros M (m0 & m1 & m2). split; [apply wf_mulmx|split; shp].
      + intros s i j Hs Hi Hj. rewrite (Esel s Hs). unfold rmul_site. rewrite (sel_map_w R (fun M => mulmx M Wm)) by (rewrite (proj1 HB0); exact Hs). reflexivity.
    - rewrite Wh. unfold Wi. symmetry. apply (mulmx_cancel_r R C T0i T0 k Zl); shp.
  Qed.

  (* ---------------- Leibniz forms of the two QR moves ---------------- *)
  Lemma wsite_unflat d Dl (Q : mx) : wsite d Dl (nc Q) (site_unflat d Dl Q).
  Proof. unfold site_unflat. apply wsite_tabl. intros s _. split; [apply wf_tab|split; reflexivity]. Qed.
  Lemma wsite_tr d Dl Dr (A : site) : wsite d Dl Dr A -> wsite d Dr Dl (site_tr A).
  Proof. intros HA. apply (wsite_map R d Dl Dr); [exact HA|]. intros M (m0 & m1 & m2). split; [apply wf_trmx|split; shp]. Qed.

  Theorem qr_left_good d Dl Dr (X : site) (Q C : mx) qb : 0 < d -> wsite d Dl Dr X ->
    qr_good (site_flat X) (Q, C, qb) ->
    let Aq := site_unflat (length X) (sdl X) Q in
    wsite d Dl Dr Aq /\ left_iso Aq /\ invertible Dr C /\ X = rmul_site Aq C.
  Proof.
    intros Hd HX (Hq & wQ & wC & Hinv) Aq. cbn [fst snd] in *.
    destruct (qr_left_site R d Dl Dr X Q C qb Hd (wsite_ok R _ _ _ _ HX) Hq) as (HAq & HcC & Hiso & Hent).
    destruct (site_flat_shape R d Dl Dr X Hd (wsite_ok R _ _ _ _ HX)) as [S1 S2]. rewrite S2 in Hinv.
    destruct Hinv as ((c0 & c1 & c2) & Hci). fold Aq in HAq, Hiso, Hent. rewrite c1 in *.
    destruct (site_ok_sdl R _ _ _ _ Hd (wsite_ok R _ _ _ _ HX)) as (E1 & E2 & E3).
    assert (HAqw : wsite d Dl Dr Aq).
    { unfold Aq. rewrite E1, E3. destruct Hq as (_ & q2 & _). rewrite <- c1, <- q2. apply wsite_unflat. }
    split; [exact HAqw|]. split; [exact Hiso|]. split; [split; [repeat split; assumption|exact Hci]|].
    apply (wsite_ext R d Dl Dr); [exact HX| |].
    - apply (wsite_map R d Dl Dr); [exact HAqw|]. intros M (m0 & m1 & m2). split; [apply wf_mulmx|split; shp].
    - intros s a c Hs Ha Hc. rewrite Hent by assumption. symmetry.
      apply (get_rmul_site R d Dl Dr Dr); try assumption; try (apply wsite_ok; exact HAqw).
  Qed.

  Theorem qr_right_good d Dl Dr (X : site) (Q C : mx) qb : 0 < d -> wsite d Dl Dr X ->
    qr_good (site_flat (site_tr X)) (Q, C, qb) ->
    let Aq := site_tr (site_unflat (length (site_tr X)) (sdl (site_tr X)) Q) in
    wsite d Dl Dr Aq /\ right_iso Aq /\ invertible Dl (trmx C) /\ X = lmul_site (trmx C) Aq.
  Proof.
    intros Hd HX (Hq & wQ & wC & Hinv) Aq. cbn [fst snd] in *.
    destruct (qr_right_site R d Dl Dr X Q C qb Hd (wsite_ok R _ _ _ _ HX) Hq) as (HAq & HcC & Hiso & Hent).
    pose proof (wsite_tr d Dl Dr X HX) as HXt.
    destruct (site_flat_shape R d Dr Dl (site_tr X) Hd (wsite_ok R _ _ _ _ HXt)) as [S1 S2]. rewrite S2 in Hinv.
    pose proof (invertible_tr Dl C Hinv) as Hinvt.
    destruct Hinv as ((c0 & c1 & c2) & Hci). fold Aq in HAq, Hiso, Hent. rewrite c1 in *.
    destruct (site_ok_sdl R _ _ _ _ Hd (wsite_ok R _ _ _ _ HXt)) as (E1 & E2 & E3).
    assert (HAqw : wsite d Dl Dr Aq).
    { unfold Aq. rewrite E1, E3. apply wsite_tr. destruct Hq as (_ & q2 & _). rewrite <- c1, <- q2. apply wsite_unflat. }
    split; [exact HAqw|]. split; [exact Hiso|]. split; [exact Hinvt|].
    apply (wsite_ext R d Dl Dr); [exact HX| |].
    - apply (wsite_map R d Dl Dr); [exact HAqw|]. intros M (m0 & m1 & m2). split; [apply wf_mulmx|split; shp].
    - intros s a c Hs Ha Hc. rewrite Hent by assumption. symmetry.
      change (lmul_site (trmx C) Aq) with (cmul_site (trmx C) Aq).
      apply (get_cmul_site R d Dl Dl Dr); try assumption; try (apply wsite_ok; exact HAqw); shp.
  Qed.
End QRGauge.

Arguments invertible {R} k C. Arguments qr_good {R} M ans.
