(* C05 structure, part 4: levels and terminals.  Every graph returned by from_opchains is layered
   (an explicit level function: every edge goes up one level), its start node has no in-edges and its
   end node no out-edges. *)
From Coq Require Import ZArith List Lia Bool.
From PT Require Import Base.Scalar Base.BigSum Model.OpGraph Model.FromOpchains
                       Proofs.FromOpchainsGraph Proofs.FromOpchainsPart Proofs.FromOpchainsSem
                       Proofs.FromOpchainsWF1 Proofs.FromOpchainsWF2.
Import ListNotations.
Open Scope Z_scope.

Section WF4.
  Variable R : cring.
  Notation graph := (graph R).
  Notation gedge := (gedge R).
  Notation st := (st R).
  Notation part := (part R).

  Definition zero_ok (g : graph) : Prop := exists n, In n (g_nodes g) /\ n_id n = 0 /\ n_in n = [].
  Definition out_empty (g : graph) (lo : Z) : Prop := forall n, In n (g_nodes g) -> lo <= n_id n -> n_out n = [].

  Lemma connect4 (g : graph) nb eb a o cf np g1 b lo :
    GS R g nb eb -> zero_ok g -> dummy_ok R g -> out_empty g lo -> find_node g a = Some np -> In b (ids R g) -> 0 <= a < b -> a < lo ->
    add_connect_edge g (new_edge eb a b [(o, cf)]) = Some g1 ->
    GS R g1 nb (eb + 1) /\ ids R g1 = ids R g /\ zero_ok g1 /\ dummy_ok R g1 /\ out_empty g1 lo /\
    g_edges g1 = g_edges g ++ [new_edge eb a b [(o, cf)]].
  Proof.
    intros Hg Hz Hd Ho Fa Hb Hab Hlo Hc. destruct (ids_find R g b Hb) as [nbn Fb].
    destruct (GS_connect R g nb eb a b o cf g1 np nbn Hg Fa Fb Hab Hc) as [G1 [E1 [I1 [_ [_ [N1 N2]]]]]].
    split; [exact G1|]. split; [exact I1|]. split; [|split; [|split; [|exact E1]]].
    - destruct Hz as [n [Hn [Z1 Z2]]]. destruct (N2 n Hn) as [n1 [Hn1 [A1 [_ [A2 _]]]]]. exists n1. split; [exact Hn1|]. split; [congruence|].
      assert (X : (n_id n =? b) = false) by (apply Z.eqb_neq; lia). rewrite X in A2. rewrite A2, Z2. reflexivity.
    - destruct Hd as [n [Hn [Z1 [Z2 Z3]]]]. destruct (N2 n Hn) as [n1 [Hn1 [A1 [_ [A2 A3]]]]]. exists n1. split; [exact Hn1|]. split; [congruence|].
      assert (X1 : (n_id n =? b) = false) by (apply Z.eqb_neq; lia). assert (X2 : (n_id n =? a) = false) by (apply Z.eqb_neq; lia).
      rewrite X1 in A2. rewrite X2 in A3. rewrite A2, A3, Z2, Z3. auto.
    - intros n1 Hn1 Hl. destruct (N1 n1 Hn1) as [n [Hn [A1 [_ [_ A3]]]]]. rewrite A1 in Hl.
      assert (X : (n_id n =? a) = false) by (apply Z.eqb_neq; lia). rewrite X, app_nil_r in A3. rewrite A3. apply Ho; assumption.
  Qed.

  Lemma add_node4 (g : graph) nb eb q g1 lo : GS R g nb eb -> zero_ok g -> dummy_ok R g -> out_empty g lo ->
    add_node g (mknode nb [] [] q) = Some g1 ->
    GS R g1 (nb + 1) eb /\ ids R g1 = ids R g ++ [nb] /\ zero_ok g1 /\ dummy_ok R g1 /\ out_empty g1 lo /\ g_edges g1 = g_edges g.
  Proof.
    intros Hg [nz [Hnz Hz]] [nd [Hnd Hd]] Ho Ha. destruct (GS_add_node R g nb eb q g1 Hg Ha) as [G1 [E1 [N1 _]]].
    split; [exact G1|]. unfold ids. rewrite N1, map_app. split; [reflexivity|].
    split; [exists nz; split; [rewrite N1; apply in_app_iff; left; exact Hnz|exact Hz]|].
    split; [exists nd; split; [rewrite N1; apply in_app_iff; left; exact Hnd|exact Hd]|]. split; [|exact E1].
    intros n Hn Hl. rewrite N1 in Hn. apply in_app_iff in Hn. destruct Hn as [Hn|[<-|[]]]; [apply Ho; assumption|reflexivity].
  Qed.

  Section Site.
    Variables (g0 : graph) (nb0 : Z) (p : part).
    Hypothesis HU : Forall (fun u => 0 <= u_nidl u < nb0) (p_u p).

    Definition prov (e : gedge) : Prop :=
      In e (g_edges g0) \/ ((exists u, In u (p_u p) /\ e_from e = u_nidl u) /\ nb0 <= e_to e).

    Record H4 (c : st) : Prop := mkH4 {
      h_g : GS R (s_g c) (s_nid c) (s_eid c);
      h_nb : nb0 <= s_nid c;
      h_zero : zero_ok (s_g c);
      h_dummy : dummy_ok R (s_g c);
      h_out : out_empty (s_g c) nb0;
      h_prov : forall e, In e (g_edges (s_g c)) -> prov e;
      h_nx : Forall (fun hc : hchain * R => nb0 <= h_nidl (fst hc) /\ In (h_nidl (fst hc)) (ids R (s_g c))) (s_next c) }.

    Lemma zero_ids g : zero_ok g -> In 0 (ids R g).
    Proof. intros [n [Hn [E _]]]. unfold ids. rewrite <- E. apply in_map. exact Hn. Qed.
    Lemma zero_pos g nb eb : GS R g nb eb -> zero_ok g -> 0 < nb.
    Proof. intros Hg [n [Hn [E _]]]. pose proof (gs_nb R _ _ _ Hg n Hn). lia. Qed.

    Lemma u_step_H4 c i c' : H4 c -> u_step p (Ok c) i = Ok c' -> H4 c'.
    Proof.
      intros [Hg Hnb Hz Hd Ho Hp Hnx] H. unfold u_step in H. cbn [bind] in H.
      destruct (nth_error (p_u p) i) as [u|] eqn:Eu; [|discriminate].
      assert (Hin : In u (p_u p)) by (eapply nth_error_In; exact Eu).
      assert (Hul : 0 <= u_nidl u < nb0). { rewrite Forall_forall in HU. apply HU. exact Hin. }
      set (eid := s_eid c) in *. set (nid := s_nid c) in *.
      set (enew := new_edge eid (u_nidl u) nid [(u_oid u, k1 R)]) in *.
      destruct (add_edge (s_g c) enew) as [g1|] eqn:Ea; [|discriminate].
      destruct (find_node g1 (u_nidl u)) as [np|] eqn:Fnp; [|discriminate].
      destruct (negb (n_q np =? u_q0 u)); [discriminate|].
      destruct (add_node (upd_node g1 (u_nidl u) (node_add_eid eid 1)) (mknode nid [eid] [] (u_q1 u))) as [g2|] eqn:En; [|discriminate].
      destruct (u_graph_eq R (s_g c) enew (u_nidl u) nid eid (u_q1 u) g1 g2 eq_refl eq_refl eq_refl ltac:(lia) Ea En) as [h [Eh Ec]].
      destruct (add_node4 _ _ _ _ _ nb0 Hg Hz Hd Ho Eh) as [Gh [Ih [Zh [Dh [Oh Eeh]]]]].
      assert (Fnp' : find_node h (u_nidl u) = Some np).
      { apply add_edge_spec in Ea. destruct Ea as [-> _]. change (find_node (s_g c) (u_nidl u) = Some np) in Fnp.
        apply add_node_spec in Eh. destruct Eh as [-> _]. unfold find_node in *. cbn [g_nodes]. rewrite find_app, Fnp. reflexivity. }
      destruct (connect4 h (nid + 1) eid (u_nidl u) (u_oid u) (k1 R) np g2 nid nb0 Gh Zh Dh Oh Fnp') as [G2 [I2 [Z2 [D2 [O2 E2]]]]]; auto; try lia.
      { rewrite Ih. apply in_app_iff. right. left. reflexivity. }
      assert (Eids : ids R g2 = ids R (s_g c) ++ [nid]) by congruence.
      assert (P2 : forall e, In e (g_edges g2) -> prov e).
      { intros e He. rewrite E2, Eeh in He. apply in_app_iff in He. destruct He as [He|[<-|[]]]; [apply Hp; exact He|].
        right. split; [exists u; split; [exact Hin|reflexivity]|cbn; lia]. }
      set (UI := fun cc : st => s_g cc = g2 /\ s_nid cc = nid + 1 /\ s_eid cc = eid + 1 /\
                   Forall (fun hc : hchain * R => nb0 <= h_nidl (fst hc) /\ In (h_nidl (fst hc)) (ids R g2)) (s_next cc)).
      assert (HUI : UI c').
      { refine (fold_res_inv (u_inner p i nid) UI (fun e b => eq_refl) _ _ _ _ _ H).
        - unfold UI. cbn [s_g s_nid s_eid s_next]. split; [reflexivity|]. split; [reflexivity|]. split; [reflexivity|].
          eapply Forall_impl; [|exact Hnx]. intros hc [A B]. split; [exact A|]. rewrite Eids. apply in_app_iff. left. exact B.
        - intros cc j cc' _ [E1 [E2' [E3 E4]]] Hj. unfold u_inner in Hj. cbn [bind] in Hj.
          destruct (nth_error (p_v p) j) as [v|]; [|discriminate]. destruct (gamma_get (i, j) (p_gamma p)) as [cf|]; [|discriminate].
          destruct (pmem (i, j) (s_rem cc)); [|discriminate]. inversion Hj; subst cc'. unfold UI. cbn [s_g s_nid s_eid s_next].
          split; [exact E1|]. split; [exact E2'|]. split; [exact E3|].
          apply Forall_app. split; [exact E4|]. constructor; [|constructor]. cbn. split; [lia|].
          rewrite Eids. apply in_app_iff. right. left. reflexivity. }
      destruct HUI as [E1 [E2' [E3 E4]]]. destruct c' as [cg cn ce cx cr]. cbn in *. subst.
      constructor; cbn; auto. lia.
    Qed.

    Lemma v_step_H4 c j c' : H4 c -> v_step p (Ok c) j = Ok c' -> H4 c'.
    Proof.
      intros [Hg Hnb Hz Hd Ho Hp Hnx] H. unfold v_step in H. cbn [bind] in H.
      destruct (nth_error (p_v p) j) as [v|] eqn:Ev; [|discriminate].
      destruct (h_qnums v) as [|q qs] eqn:Eq; [discriminate|].
      set (nid := s_nid c) in *.
      destruct (add_node (s_g c) (mknode nid [] [] q)) as [g1|] eqn:En; [|discriminate].
      destruct (add_node4 _ _ _ _ _ nb0 Hg Hz Hd Ho En) as [G1 [I1 [Z1 [D1 [O1 E1]]]]].
      set (VI := fun cc : st => GS R (s_g cc) (nid + 1) (s_eid cc) /\ ids R (s_g cc) = ids R (s_g c) ++ [nid] /\ zero_ok (s_g cc) /\
                   dummy_ok R (s_g cc) /\ out_empty (s_g cc) nb0 /\ (forall e, In e (g_edges (s_g cc)) -> prov e) /\
                   s_nid cc = nid + 1 /\ s_next cc = s_next c ++ [(mkh (h_oids v) (q :: qs) nid, k1 R)]).
      assert (HVI : VI c').
      { refine (fold_res_inv (v_inner p j nid q) VI (fun e b => eq_refl) _ _ _ _ _ H).
        - unfold VI. cbn [s_g s_nid s_eid s_next]. split; [exact G1|]. split; [exact I1|]. split; [exact Z1|]. split; [exact D1|].
          split; [exact O1|]. split; [rewrite E1; exact Hp|]. auto.
        - intros cc i cc' _ [V1 [V2 [V3 [V4 [V5 [V6 [V7 V8]]]]]]] Hi. unfold v_inner in Hi. cbn [bind] in Hi.
          destruct (negb (pmem (i, j) (s_rem cc))); [inversion Hi; subst; unfold VI; auto 10|].
          destruct (nth_error (p_u p) i) as [u|] eqn:Eu; [|discriminate].
          assert (Hin : In u (p_u p)) by (eapply nth_error_In; exact Eu).
          assert (Hul : 0 <= u_nidl u < nb0). { rewrite Forall_forall in HU. apply HU. exact Hin. }
          destruct (gamma_get (i, j) (p_gamma p)) as [cf|]; [|discriminate].
          destruct (negb (u_q1 u =? q)); [discriminate|].
          destruct (find_node (s_g cc) (u_nidl u)) as [np|] eqn:Fnp; [|discriminate].
          destruct (negb (n_q np =? u_q0 u)); [discriminate|].
          destruct (add_connect_edge (s_g cc) (new_edge (s_eid cc) (u_nidl u) nid [(u_oid u, cf)])) as [g2|] eqn:Ec; [|discriminate].
          inversion Hi; subst cc'. clear Hi.
          destruct (connect4 (s_g cc) (nid + 1) (s_eid cc) (u_nidl u) (u_oid u) cf np g2 nid nb0 V1 V3 V4 V5 Fnp) as [G2 [I2 [Z2 [D2 [O2 E2]]]]]; auto; try lia.
          { rewrite V2. apply in_app_iff. right. left. reflexivity. }
          unfold VI. cbn [s_g s_nid s_eid s_next]. split; [exact G2|]. split; [rewrite I2; exact V2|]. split; [exact Z2|]. split; [exact D2|].
          split; [exact O2|]. split; [|auto].
          intros e He. rewrite E2 in He. apply in_app_iff in He. destruct He as [He|[<-|[]]]; [apply V6; exact He|].
          right. split; [exists u; split; [exact Hin|reflexivity]|cbn; lia]. }
      destruct HVI as [V1 [V2 [V3 [V4 [V5 [V6 [V7 V8]]]]]]]. constructor; auto.
      - rewrite V7. exact V1.
      - lia.
      - rewrite V8. apply Forall_app. split.
        + eapply Forall_impl; [|exact Hnx]. intros hc [A B]. split; [exact A|]. rewrite V2. apply in_app_iff. left. exact B.
        + constructor; [|constructor]. cbn. split; [lia|]. rewrite V2. apply in_app_iff. right. left. reflexivity.
    Qed.

    Lemma site_step_H4 cv s s' : H4 (mkst (s_g s) (s_nid s) (s_eid s) [] (p_edges p)) -> site_step p cv s = Ok s' -> H4 s'.
    Proof.
      intros S0 H. unfold site_step in H.
      destruct (fold_left (v_step p) (snd cv) (fold_left (u_step p) (fst cv)
                  (Ok (mkst (s_g s) (s_nid s) (s_eid s) [] (p_edges p))))) as [s2|] eqn:E; [|discriminate].
      cbn [bind] in H. destruct (s_rem s2); [|discriminate]. inversion H; subst s'.
      destruct (fold_left (u_step p) (fst cv) (Ok (mkst (s_g s) (s_nid s) (s_eid s) [] (p_edges p)))) as [s1|er] eqn:EU;
        [|rewrite fold_res_err in E by reflexivity; discriminate].
      assert (S1 : H4 s1).
      { refine (fold_res_inv (u_step p) H4 (fun e b => eq_refl) _ _ _ S0 _ EU). intros a b a' _ Ha Hs. eapply u_step_H4; eauto. }
      refine (fold_res_inv (v_step p) H4 (fun e b => eq_refl) _ _ _ S1 _ E). intros a b a' _ Ha Hs. eapply v_step_H4; eauto.
    Qed.
  End Site.

  (* ---- the sweep ---- *)
  Definition layered_by (g : graph) (lv : Z -> Z) : Prop := forall e, In e (g_edges g) -> lv (e_to e) = lv (e_from e) + 1.
  Definition HW4 (s : st) (t : nat) : Prop :=
    GS R (s_g s) (s_nid s) (s_eid s) /\ zero_ok (s_g s) /\ dummy_ok R (s_g s) /\
    exists lv, layered_by (s_g s) lv /\
      Forall (fun hc : hchain * R => 0 <= h_nidl (fst hc) < s_nid s /\ lv (h_nidl (fst hc)) = Z.of_nat t /\
                exists n, In n (g_nodes (s_g s)) /\ n_id n = h_nidl (fst hc) /\ n_out n = []) (s_next s).

  Lemma site_HW4 cover s s' t : HW4 s t -> site cover s = Ok s' -> HW4 s' (S t).
  Proof.
    intros [Hg [Hz [Hd [lv [Hl Hnx]]]]] H. unfold site in H. set (p := site_partition (s_next s)) in *.
    destruct (Nat.eqb (length (p_u p)) 0 || Nat.eqb (length (p_v p)) 0); [discriminate|].
    destruct (site_partition_regroup R (s_next s)) as [_ [_ [HPU _]]]. fold p in HPU.
    assert (HU : Forall (fun u => 0 <= u_nidl u < s_nid s /\ lv (u_nidl u) = Z.of_nat t) (p_u p)).
    { apply HPU. intros hc Hh. rewrite Forall_forall in Hnx. destruct (Hnx hc Hh) as [A [B _]]. split; [exact A|exact B]. }
    assert (HU1 : Forall (fun u => 0 <= u_nidl u < s_nid s) (p_u p)) by (eapply Forall_impl; [|exact HU]; intros u [A _]; exact A).
    assert (S0 : H4 (s_g s) (s_nid s) p (mkst (s_g s) (s_nid s) (s_eid s) [] (p_edges p))).
    { constructor; cbn [s_g s_nid s_eid s_next]; auto; try lia.
      - intros n Hn Hl'. pose proof (gs_nb R _ _ _ Hg n Hn). lia.
      - intros e He. left. exact He. }
    pose proof (site_step_H4 (s_g s) (s_nid s) p HU1 _ s s' S0 H) as [Sg Snb Sz Sd So Sp Snx].
    split; [exact Sg|]. split; [exact Sz|]. split; [exact Sd|].
    exists (fun m => if m <? s_nid s then lv m else Z.of_nat t + 1). split.
    - intros e He. destruct (Sp e He) as [Hold|[[u [Hu Ef]] Ht]].
      + destruct (gs_eto R _ _ _ Hg e Hold) as [n1 [Hn1 [E1 _]]]. destruct (gs_efrom R _ _ _ Hg e Hold) as [n2 [Hn2 [E2 _]]].
        pose proof (gs_nb R _ _ _ Hg n1 Hn1). pose proof (gs_nb R _ _ _ Hg n2 Hn2).
        assert (X1 : (e_to e <? s_nid s) = true) by (apply Z.ltb_lt; lia). assert (X2 : (e_from e <? s_nid s) = true) by (apply Z.ltb_lt; lia).
        rewrite X1, X2. apply Hl. exact Hold.
      + rewrite Forall_forall in HU. destruct (HU u Hu) as [A B].
        assert (X1 : (e_to e <? s_nid s) = false) by (apply Z.ltb_ge; lia). assert (X2 : (e_from e <? s_nid s) = true) by (apply Z.ltb_lt; lia).
        rewrite X1, X2, Ef, B. reflexivity.
    - eapply Forall_impl; [|exact Snx]. intros hc [A B]. unfold ids in B. apply in_map_iff in B. destruct B as [n [E Hn]].
      pose proof (gs_nb R _ _ _ Sg n Hn). pose proof (zero_pos _ _ _ Hg Hz).
      split; [lia|]. split.
      + assert (X : (h_nidl (fst hc) <? s_nid s) = false) by (apply Z.ltb_ge; lia). rewrite X. lia.
      + exists n. split; [exact Hn|]. split; [exact E|]. apply So; [exact Hn|lia].
  Qed.

  Lemma sweep_HW4 cover : forall n s s' t, HW4 s t -> sweep cover n s = Ok s' -> HW4 s' (t + n).
  Proof.
    induction n as [|n IH]; intros s s' t HS H; simpl in H.
    - inversion H; subst. rewrite Nat.add_0_r. exact HS.
    - destruct (site cover s) as [s1|] eqn:E; [|discriminate]. cbn [bind] in H.
      replace (t + S n)%nat with (S t + n)%nat by lia. eapply IH; [|exact H]. eapply site_HW4; eauto.
  Qed.

  Lemma HW4_init idn (cs : list (chain R)) : HW4 (mkst init_graph 1 0 (init_next idn cs) []) 0.
  Proof.
    destruct (HSW_init R idn cs) as [Hg _]. cbn [s_g s_nid s_eid] in Hg.
    split; [exact Hg|]. cbn [s_g s_nid s_eid s_next].
    split; [exists (mknode 0 [] [] 0); split; [left; reflexivity|auto]|].
    split; [exists (mknode (-1) [] [] 0); split; [right; left; reflexivity|auto]|].
    exists (fun _ => 0). split; [intros e []|].
    unfold init_next. rewrite Forall_map. apply Forall_forall. intros c _. cbn. split; [lia|]. split; [reflexivity|].
    exists (mknode 0 [] [] 0). split; [left; reflexivity|auto].
  Qed.
End WF4.
